// Package gptfacts extracts the facts the GPT/MBR models (C02, C09, C15) are pinned to.
//
// Offsets and limits are read SEMANTICALLY: wherever an integer is expected, any constant expression over
// the package's integer constants is accepted (fx.EvalInt over fx.IntConsts), a slice of the entry buffer
// that is handed to a same-package helper is followed into the helper (up to two levels) with the slice's
// base offset added, and so is a local alias (`dst := b[56:]`).  Naming a constant, or moving a field's
// encoding into a helper, therefore regenerates the same facts.
package gptfacts

import (
	"go/ast"
	"go/token"
	"strings"

	"verif/harness/internal/fx"
)

// env is the constant environment of the package being scanned (set by the Extract* functions).
var env map[string]int64

func withEnv(dir string) []*ast.File {
	fs := fx.PkgFiles(dir)
	env = fx.IntConsts(fs...)
	return fs
}

// intLit evaluates a constant integer expression (a literal, a named constant of the package, 56+16, …).
func intLit(e ast.Expr) (int64, bool) {
	if e == nil {
		return 0, false
	}
	return fx.EvalInt(e, env)
}

// view is one function body seen as part of an encoder/decoder: which identifiers stand for the buffer and
// at which base offset (b itself: 0; the parameter dst of a helper called with b[56:]: 56).
type view struct {
	body  ast.Node
	bases map[string]int64
}

// sliceBase: e is `name`, `name[lo:]`, `name[lo:hi]` with name a buffer of the view and lo constant.
func (v view) sliceBase(e ast.Expr) (int64, bool) {
	switch x := e.(type) {
	case *ast.ParenExpr:
		return v.sliceBase(x.X)
	case *ast.Ident:
		b, ok := v.bases[x.Name]
		return b, ok
	case *ast.SliceExpr:
		b, ok := v.sliceBase(x.X)
		if !ok {
			return 0, false
		}
		if x.Low == nil {
			return b, true
		}
		lo, ok := intLit(x.Low)
		return b + lo, ok
	}
	return 0, false
}

// views returns fd's body with `name` as the buffer, the local aliases of constant-offset slices of it, and
// (depth levels deep) the bodies of the same-package functions a slice of the buffer is handed to.
func views(pkg []*ast.File, fd *ast.FuncDecl, bases map[string]int64, depth int) []view {
	if fd == nil || fd.Body == nil {
		return nil
	}
	v := view{body: fd.Body, bases: map[string]int64{}}
	for k, b := range bases {
		v.bases[k] = b
	}
	// local aliases: x := b[K:] / x := b[K:H]
	ast.Inspect(fd.Body, func(n ast.Node) bool {
		as, ok := n.(*ast.AssignStmt)
		if !ok || len(as.Lhs) != len(as.Rhs) {
			return true
		}
		for i, l := range as.Lhs {
			id, ok := l.(*ast.Ident)
			if !ok {
				continue
			}
			if _, isSlice := as.Rhs[i].(*ast.SliceExpr); !isSlice {
				continue
			}
			if _, known := v.bases[id.Name]; known {
				continue
			}
			if b, ok := v.sliceBase(as.Rhs[i]); ok {
				v.bases[id.Name] = b
			}
		}
		return true
	})
	out := []view{v}
	if depth <= 0 {
		return out
	}
	recv := ""
	if fd.Recv != nil && len(fd.Recv.List) > 0 {
		t := fd.Recv.List[0].Type
		if s, ok := t.(*ast.StarExpr); ok {
			t = s.X
		}
		if id, ok := t.(*ast.Ident); ok {
			recv = id.Name
		}
	}
	seen := map[*ast.FuncDecl]bool{fd: true}
	ast.Inspect(fd.Body, func(n ast.Node) bool {
		ce, ok := n.(*ast.CallExpr)
		if !ok {
			return true
		}
		var callee *ast.FuncDecl
		switch f := ce.Fun.(type) {
		case *ast.Ident:
			callee = fx.FindFuncIn(pkg, "", f.Name)
		case *ast.SelectorExpr: // a method of the same receiver type: p.putName(b[56:])
			if _, isIdent := f.X.(*ast.Ident); isIdent && recv != "" {
				callee = fx.FindFuncIn(pkg, recv, f.Sel.Name)
			}
		}
		if callee == nil || callee.Body == nil || seen[callee] || callee.Type.Params == nil {
			return true
		}
		// parameter names in order
		var params []string
		for _, fl := range callee.Type.Params.List {
			if len(fl.Names) == 0 {
				params = append(params, "_")
			}
			for _, nm := range fl.Names {
				params = append(params, nm.Name)
			}
		}
		sub := map[string]int64{}
		for i, a := range ce.Args {
			if i >= len(params) {
				break
			}
			if b, ok := v.sliceBase(a); ok {
				sub[params[i]] = b
			}
		}
		if len(sub) > 0 {
			seen[callee] = true
			out = append(out, views(pkg, callee, sub, depth-1)...)
		}
		return true
	})
	return out
}

// sliceBoundsV lists, in source order and without repetitions, the x[lo:hi] expressions with constant bounds on a
// buffer of the views, as offsets into the root buffer.
func sliceBoundsV(vs []view, skip func(*ast.SliceExpr) bool) [][2]int64 {
	out := [][2]int64{}
	seen := map[[2]int64]bool{}
	for _, v := range vs {
		ast.Inspect(v.body, func(x ast.Node) bool {
			se, ok := x.(*ast.SliceExpr)
			if !ok {
				return true
			}
			id, ok := se.X.(*ast.Ident)
			if !ok {
				return true
			}
			base, ok := v.bases[id.Name]
			if !ok {
				return true
			}
			lo, ok1 := intLit(se.Low)
			hi, ok2 := intLit(se.High)
			if !ok1 || !ok2 || (skip != nil && skip(se)) {
				return true
			}
			k := [2]int64{base + lo, base + hi}
			if !seen[k] {
				seen[k] = true
				out = append(out, k)
			}
			return true
		})
	}
	return out
}

// sliceBounds: the constant-bound slices of buffer `name` in fd and in the helpers it hands slices of it to.
func sliceBounds(pkg []*ast.File, fd *ast.FuncDecl, name string, skip func(*ast.SliceExpr) bool) [][2]int64 {
	return sliceBoundsV(views(pkg, fd, map[string]int64{name: 0}, 2), skip)
}

// constVal: a package-level integer constant (any constant expression), else a literal-valued ValueSpec of that name.
func constVal(f *ast.File, name string) (int64, bool) {
	if v, ok := env[name]; ok {
		return v, true
	}
	var v int64
	found := false
	if f == nil {
		return 0, false
	}
	ast.Inspect(f, func(n ast.Node) bool {
		vs, ok := n.(*ast.ValueSpec)
		if !ok {
			return true
		}
		for i, id := range vs.Names {
			if id.Name == name && i < len(vs.Values) {
				if x, ok := intLit(vs.Values[i]); ok {
					v, found = x, true
				}
			}
		}
		return true
	})
	return v, found
}

// linear evaluates e as c + k*loopVar: constants of the package, the loop variable, locals with a single
// definition in body (`pos := 56 + i*2`), + - and multiplication by a constant.
func linear(e ast.Expr, loopVar string, body ast.Node, depth int) (c, k int64, ok bool) {
	if v, isConst := intLit(e); isConst {
		return v, 0, true
	}
	switch x := e.(type) {
	case *ast.ParenExpr:
		return linear(x.X, loopVar, body, depth)
	case *ast.CallExpr: // int(i), uint64(i)
		if len(x.Args) == 1 {
			if _, isIdent := x.Fun.(*ast.Ident); isIdent {
				return linear(x.Args[0], loopVar, body, depth)
			}
		}
	case *ast.Ident:
		if x.Name == loopVar {
			return 0, 1, true
		}
		if depth <= 0 || body == nil {
			return 0, 0, false
		}
		var def ast.Expr
		ndef := 0
		ast.Inspect(body, func(n ast.Node) bool {
			if as, isAs := n.(*ast.AssignStmt); isAs && len(as.Lhs) == len(as.Rhs) {
				for i, l := range as.Lhs {
					if id, isId := l.(*ast.Ident); isId && id.Name == x.Name {
						def = as.Rhs[i]
						ndef++
					}
				}
			}
			return true
		})
		if ndef == 1 {
			return linear(def, loopVar, body, depth-1)
		}
	case *ast.BinaryExpr:
		c1, k1, ok1 := linear(x.X, loopVar, body, depth)
		c2, k2, ok2 := linear(x.Y, loopVar, body, depth)
		if !ok1 || !ok2 {
			return 0, 0, false
		}
		switch x.Op {
		case token.ADD:
			return c1 + c2, k1 + k2, true
		case token.SUB:
			return c1 - c2, k1 - k2, true
		case token.MUL:
			if k1 == 0 {
				return c1 * c2, c1 * k2, true
			}
			if k2 == 0 {
				return c1 * c2, k1 * c2, true
			}
		case token.SHL:
			if k2 == 0 && c2 >= 0 && c2 < 32 {
				return c1 << uint(c2), k1 << uint(c2), true
			}
		}
	}
	return 0, 0, false
}

// nameFacts finds, in the views of the entry encoder, the limit N of the first `len(x) > N` guard and the entry
// offset at which UTF-16 unit i is stored: the PutUint16 whose destination slice starts at base + c + 2*i, i the
// index variable of the enclosing range loop (`pos := 56 + i*2; PutUint16(b[pos:pos+2], u)`, or in a helper
// called with b[56:]: `PutUint16(dst[i*2:], u)`).
func nameFacts(vs []view) (limit, nameOff int64) {
	limit, nameOff = -1, -1
	for _, v := range vs {
		ast.Inspect(v.body, func(n ast.Node) bool {
			switch x := n.(type) {
			case *ast.BinaryExpr:
				if limit >= 0 {
					return true
				}
				if x.Op == token.GTR && strings.HasPrefix(fx.Src(x.X), "len(") {
					if c, ok := intLit(x.Y); ok {
						limit = c
					}
				} else if x.Op == token.LSS && strings.HasPrefix(fx.Src(x.Y), "len(") { // N < len(x)
					if c, ok := intLit(x.X); ok {
						limit = c
					}
				} else if x.Op == token.GEQ && strings.HasPrefix(fx.Src(x.X), "len(") { // len(x) >= N+1
					if c, ok := intLit(x.Y); ok {
						limit = c - 1
					}
				}
			case *ast.RangeStmt:
				key, ok := x.Key.(*ast.Ident)
				if !ok || key.Name == "_" || nameOff >= 0 {
					return true
				}
				ast.Inspect(x.Body, func(m ast.Node) bool {
					ce, ok := m.(*ast.CallExpr)
					if !ok || len(ce.Args) != 2 || !strings.HasSuffix(fx.Src(ce.Fun), "PutUint16") {
						return true
					}
					se, ok := ce.Args[0].(*ast.SliceExpr)
					if !ok || se.Low == nil {
						return true
					}
					base, ok := v.sliceBase(se.X)
					if !ok {
						return true
					}
					if c, k, ok := linear(se.Low, key.Name, x.Body, 3); ok && k == 2 && nameOff < 0 {
						nameOff = base + c
					}
					return true
				})
			}
			return true
		})
	}
	return limit, nameOff
}

// ExtractCrash: order of the synced writes of Table.Write, the sync, and the content-error-only fallback of Read.
func ExtractCrash() *fx.Group {
	g := fx.NewGroup("GptCrash")
	withEnv("partition/gpt")
	f := fx.Parse("partition/gpt/table.go")
	w := fx.FindFunc(f, "Table", "Write")
	if w == nil {
		g.Missing("writeLabels")
		g.Missing("syncAfterWrite")
		g.Missing("otherWriteAtCalls")
	} else {
		var labels []string
		for _, l := range fx.CallLabels(w, map[string]bool{"writeAtWithSync": true}) {
			labels = append(labels, strings.TrimPrefix(l, "writeAtWithSync:"))
		}
		g.Strs("writeLabels", labels)
		// the function literal bound to writeAtWithSync: WriteAt, then syncWritable
		var lit *ast.FuncLit
		ast.Inspect(w.Body, func(n ast.Node) bool {
			as, ok := n.(*ast.AssignStmt)
			if !ok || len(as.Lhs) != 1 || len(as.Rhs) != 1 {
				return true
			}
			if id, ok := as.Lhs[0].(*ast.Ident); ok && id.Name == "writeAtWithSync" {
				if fl, ok := as.Rhs[0].(*ast.FuncLit); ok {
					lit = fl
				}
			}
			return true
		})
		syncOK := false
		inner := 0
		if lit != nil {
			var posW, posS token.Pos
			ast.Inspect(lit.Body, func(n ast.Node) bool {
				ce, ok := n.(*ast.CallExpr)
				if !ok {
					return true
				}
				switch fn := ce.Fun.(type) {
				case *ast.SelectorExpr:
					if fn.Sel.Name == "WriteAt" {
						inner++
						if posW == 0 {
							posW = ce.Pos()
						}
					}
				case *ast.Ident:
					if fn.Name == "syncWritable" && posS == 0 {
						posS = ce.Pos()
					}
				}
				return true
			})
			syncOK = posW != 0 && posS != 0 && posW < posS
		}
		// syncWritable itself must call Sync()
		sw := fx.FindFunc(f, "", "syncWritable")
		callsSync := false
		if sw != nil {
			ast.Inspect(sw.Body, func(n ast.Node) bool {
				if ce, ok := n.(*ast.CallExpr); ok {
					if se, ok := ce.Fun.(*ast.SelectorExpr); ok && se.Sel.Name == "Sync" {
						callsSync = true
					}
				}
				return true
			})
		}
		g.Bool("syncAfterWrite", syncOK && callsSync)
		total := 0
		ast.Inspect(w.Body, func(n ast.Node) bool {
			if ce, ok := n.(*ast.CallExpr); ok {
				if se, ok := ce.Fun.(*ast.SelectorExpr); ok && se.Sel.Name == "WriteAt" {
					total++
				}
			}
			return true
		})
		g.Nat("otherWriteAtCalls", int64(total-inner))
	}
	// Read: `if !errors.As(primaryErr, &contentErr) { return … }` in front of the readBackup call, contentErr of type *primaryContentError
	r := fx.FindFunc(f, "", "Read")
	ok := false
	if r != nil {
		var typed bool
		var guardPos, backupPos token.Pos
		ast.Inspect(r.Body, func(n ast.Node) bool {
			switch x := n.(type) {
			case *ast.ValueSpec:
				if st, ok := x.Type.(*ast.StarExpr); ok {
					if id, ok := st.X.(*ast.Ident); ok && id.Name == "primaryContentError" {
						typed = true
					}
				}
			case *ast.IfStmt:
				if ue, ok := x.Cond.(*ast.UnaryExpr); ok && ue.Op == token.NOT {
					if ce, ok := ue.X.(*ast.CallExpr); ok && fx.Src(ce.Fun) == "errors.As" && len(x.Body.List) > 0 {
						if _, isRet := x.Body.List[len(x.Body.List)-1].(*ast.ReturnStmt); isRet && guardPos == 0 {
							guardPos = x.Pos()
						}
					}
				}
			case *ast.CallExpr:
				if id, ok := x.Fun.(*ast.Ident); ok && id.Name == "readBackup" && backupPos == 0 {
					backupPos = x.Pos()
				}
			}
			return true
		})
		ok = typed && guardPos != 0 && backupPos != 0 && guardPos < backupPos
	}
	g.Bool("fallbackOnContentErrorOnly", ok)
	return g
}

// ExtractRead: what readGPTHeader slices and checks, and what loadEntries allocates.
func ExtractRead() *fx.Group {
	g := fx.NewGroup("GptRead")
	gptPkg := withEnv("partition/gpt")
	f := fx.Parse("partition/gpt/table.go")
	rh := fx.FindFunc(f, "", "readGPTHeader")
	if rh == nil {
		g.Missing("headerSlices")
		g.Missing("headerCrcRange")
	} else {
		// the range handed to crc32.ChecksumIEEE
		var crcLo, crcHi int64 = -1, -1
		var crcArg *ast.SliceExpr
		ast.Inspect(rh.Body, func(n ast.Node) bool {
			if ce, ok := n.(*ast.CallExpr); ok && fx.Src(ce.Fun) == "crc32.ChecksumIEEE" && len(ce.Args) == 1 {
				if se, ok := ce.Args[0].(*ast.SliceExpr); ok {
					lo, ok1 := intLit(se.Low)
					hi, ok2 := intLit(se.High)
					if ok1 && ok2 {
						crcLo, crcHi, crcArg = lo, hi, se
					}
				}
			}
			return true
		})
		g.NatPairs("headerSlices", sliceBounds(gptPkg, rh, "gpt", func(se *ast.SliceExpr) bool { return se == crcArg }))
		if crcLo < 0 {
			g.Missing("headerCrcRange")
		} else {
			g.NatPairs("headerCrcRange", [][2]int64{{crcLo, crcHi}})
		}
	}
	le := fx.FindFunc(f, "", "loadEntries")
	arg := ""
	if le != nil {
		ast.Inspect(le.Body, func(n ast.Node) bool {
			if ce, ok := n.(*ast.CallExpr); ok && arg == "" {
				if id, ok := ce.Fun.(*ast.Ident); ok && id.Name == "make" && len(ce.Args) == 2 {
					arg = fx.Src(ce.Args[1])
				}
			}
			return true
		})
	}
	if arg == "" {
		g.Missing("loadEntriesMakeArg")
	} else {
		g.Str("loadEntriesMakeArg", arg)
	}
	return g
}

// ExtractCodec: field offsets of the GPT entry / header encoders and decoders and of the MBR layout.
func ExtractCodec() *fx.Group {
	g := fx.NewGroup("GptCodec")
	gptPkg := withEnv("partition/gpt")
	pf := fx.Parse("partition/gpt/partition.go")
	tf := fx.Parse("partition/gpt/table.go")
	if fd := fx.FindFunc(pf, "Partition", "toBytes"); fd != nil {
		vs := views(gptPkg, fd, map[string]int64{"b": 0}, 2)
		g.NatPairs("entryEncSlices", sliceBoundsV(vs, nil))
		// the limit in `len(r) > N` and the entry offset of UTF-16 unit 0 of the name (see nameFacts)
		limit, nameOff := nameFacts(vs)
		if limit < 0 {
			g.Missing("nameLimit")
		} else {
			g.Nat("nameLimit", limit)
		}
		if nameOff < 0 {
			g.Missing("nameOffset")
		} else {
			g.Nat("nameOffset", nameOff)
		}
	} else {
		g.Missing("entryEncSlices")
	}
	if fd := fx.FindFunc(pf, "", "partitionFromBytes"); fd != nil {
		g.NatPairs("entryDecSlices", sliceBounds(gptPkg, fd, "b", nil))
	} else {
		g.Missing("entryDecSlices")
	}
	if v, ok := constVal(pf, "PartitionEntrySize"); ok {
		g.Nat("entrySize", v)
	} else {
		g.Missing("entrySize")
	}
	if fd := fx.FindFunc(tf, "Table", "toGPTBytes"); fd != nil {
		g.NatPairs("headerEncSlices", sliceBounds(gptPkg, fd, "b", nil))
	} else {
		g.Missing("headerEncSlices")
	}
	mbrPkg := withEnv("partition/mbr")
	mf := fx.Parse("partition/mbr/table.go")
	for _, c := range []string{"partitionEntriesStart", "partitionEntriesCount", "signatureStart", "mbrSize", "partitionTableUUIDStart", "partitionTableUUIDEnd"} {
		if v, ok := constVal(mf, c); ok {
			g.Nat("mbr_"+c, v)
		} else {
			g.Missing("mbr_" + c)
		}
	}
	if v, ok := constVal(mf, "partitionEntrySize"); ok {
		g.Nat("mbr_partitionEntrySize", v)
	} else {
		g.Missing("mbr_partitionEntrySize")
	}
	mp := fx.Parse("partition/mbr/partition.go")
	if fd := fx.FindFunc(mp, "Partition", "toBytes"); fd != nil {
		g.NatPairs("mbrEntryEncSlices", sliceBounds(mbrPkg, fd, "b", nil))
	} else {
		g.Missing("mbrEntryEncSlices")
	}
	if fd := fx.FindFunc(mp, "", "partitionFromBytes"); fd != nil {
		g.NatPairs("mbrEntryDecSlices", sliceBounds(mbrPkg, fd, "b", nil))
	} else {
		g.Missing("mbrEntryDecSlices")
	}
	// probe order of partition.Read
	rd := fx.FindFunc(fx.Parse("partition/partition.go"), "", "Read")
	var order []string
	if rd != nil {
		ast.Inspect(rd.Body, func(n ast.Node) bool {
			if ce, ok := n.(*ast.CallExpr); ok {
				if s := fx.Src(ce.Fun); s == "gpt.Read" || s == "mbr.Read" {
					order = append(order, s)
				}
			}
			return true
		})
	}
	g.Strs("probeOrder", order)
	return g
}
