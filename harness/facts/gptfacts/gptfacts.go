// Package gptfacts extracts the facts the GPT/MBR models (C02, C09, C15) are pinned to.
package gptfacts

import (
	"go/ast"
	"go/token"
	"strconv"
	"strings"

	"verif/harness/internal/fx"
)

func intLit(e ast.Expr) (int64, bool) {
	if e == nil {
		return 0, false
	}
	if bl, ok := e.(*ast.BasicLit); ok && bl.Kind == token.INT {
		v, err := strconv.ParseInt(bl.Value, 0, 64)
		return v, err == nil
	}
	return 0, false
}

// sliceBounds lists, in source order and without repetitions, the x[lo:hi] expressions with literal bounds on identifier name inside n.
func sliceBounds(n ast.Node, name string, skip func(*ast.SliceExpr) bool) [][2]int64 {
	var out [][2]int64
	seen := map[[2]int64]bool{}
	if n == nil {
		return out
	}
	ast.Inspect(n, func(x ast.Node) bool {
		se, ok := x.(*ast.SliceExpr)
		if !ok {
			return true
		}
		id, ok := se.X.(*ast.Ident)
		if !ok || id.Name != name {
			return true
		}
		lo, ok1 := intLit(se.Low)
		hi, ok2 := intLit(se.High)
		if !ok1 || !ok2 || (skip != nil && skip(se)) {
			return true
		}
		k := [2]int64{lo, hi}
		if !seen[k] {
			seen[k] = true
			out = append(out, k)
		}
		return true
	})
	return out
}

func constVal(f *ast.File, name string) (int64, bool) {
	var v int64
	found := false
	if f == nil {
		return 0, false
	}
	ast.Inspect(f, func(n ast.Node) bool {
		vs, ok := n.(*ast.ValueSpec)
		if !ok {
			return true
		}
		for i, id := range vs.Names {
			if id.Name == name && i < len(vs.Values) {
				if x, ok := intLit(vs.Values[i]); ok {
					v, found = x, true
				}
			}
		}
		return true
	})
	return v, found
}

// ExtractCrash: order of the synced writes of Table.Write, the sync, and the content-error-only fallback of Read.
func ExtractCrash() *fx.Group {
	g := fx.NewGroup("GptCrash")
	f := fx.Parse("partition/gpt/table.go")
	w := fx.FindFunc(f, "Table", "Write")
	if w == nil {
		g.Missing("writeLabels")
		g.Missing("syncAfterWrite")
		g.Missing("otherWriteAtCalls")
	} else {
		var labels []string
		for _, l := range fx.CallLabels(w, map[string]bool{"writeAtWithSync": true}) {
			labels = append(labels, strings.TrimPrefix(l, "writeAtWithSync:"))
		}
		g.Strs("writeLabels", labels)
		// the function literal bound to writeAtWithSync: WriteAt, then syncWritable
		var lit *ast.FuncLit
		ast.Inspect(w.Body, func(n ast.Node) bool {
			as, ok := n.(*ast.AssignStmt)
			if !ok || len(as.Lhs) != 1 || len(as.Rhs) != 1 {
				return true
			}
			if id, ok := as.Lhs[0].(*ast.Ident); ok && id.Name == "writeAtWithSync" {
				if fl, ok := as.Rhs[0].(*ast.FuncLit); ok {
					lit = fl
				}
			}
			return true
		})
		syncOK := false
		inner := 0
		if lit != nil {
			var posW, posS token.Pos
			ast.Inspect(lit.Body, func(n ast.Node) bool {
				ce, ok := n.(*ast.CallExpr)
				if !ok {
					return true
				}
				switch fn := ce.Fun.(type) {
				case *ast.SelectorExpr:
					if fn.Sel.Name == "WriteAt" {
						inner++
						if posW == 0 {
							posW = ce.Pos()
						}
					}
				case *ast.Ident:
					if fn.Name == "syncWritable" && posS == 0 {
						posS = ce.Pos()
					}
				}
				return true
			})
			syncOK = posW != 0 && posS != 0 && posW < posS
		}
		// syncWritable itself must call Sync()
		sw := fx.FindFunc(f, "", "syncWritable")
		callsSync := false
		if sw != nil {
			ast.Inspect(sw.Body, func(n ast.Node) bool {
				if ce, ok := n.(*ast.CallExpr); ok {
					if se, ok := ce.Fun.(*ast.SelectorExpr); ok && se.Sel.Name == "Sync" {
						callsSync = true
					}
				}
				return true
			})
		}
		g.Bool("syncAfterWrite", syncOK && callsSync)
		total := 0
		ast.Inspect(w.Body, func(n ast.Node) bool {
			if ce, ok := n.(*ast.CallExpr); ok {
				if se, ok := ce.Fun.(*ast.SelectorExpr); ok && se.Sel.Name == "WriteAt" {
					total++
				}
			}
			return true
		})
		g.Nat("otherWriteAtCalls", int64(total-inner))
	}
	// Read: `if !errors.As(primaryErr, &contentErr) { return … }` in front of the readBackup call, contentErr of type *primaryContentError
	r := fx.FindFunc(f, "", "Read")
	ok := false
	if r != nil {
		var typed bool
		var guardPos, backupPos token.Pos
		ast.Inspect(r.Body, func(n ast.Node) bool {
			switch x := n.(type) {
			case *ast.ValueSpec:
				if st, ok := x.Type.(*ast.StarExpr); ok {
					if id, ok := st.X.(*ast.Ident); ok && id.Name == "primaryContentError" {
						typed = true
					}
				}
			case *ast.IfStmt:
				if ue, ok := x.Cond.(*ast.UnaryExpr); ok && ue.Op == token.NOT {
					if ce, ok := ue.X.(*ast.CallExpr); ok && fx.Src(ce.Fun) == "errors.As" && len(x.Body.List) > 0 {
						if _, isRet := x.Body.List[len(x.Body.List)-1].(*ast.ReturnStmt); isRet && guardPos == 0 {
							guardPos = x.Pos()
						}
					}
				}
			case *ast.CallExpr:
				if id, ok := x.Fun.(*ast.Ident); ok && id.Name == "readBackup" && backupPos == 0 {
					backupPos = x.Pos()
				}
			}
			return true
		})
		ok = typed && guardPos != 0 && backupPos != 0 && guardPos < backupPos
	}
	g.Bool("fallbackOnContentErrorOnly", ok)
	return g
}

// ExtractRead: what readGPTHeader slices and checks, and what loadEntries allocates.
func ExtractRead() *fx.Group {
	g := fx.NewGroup("GptRead")
	f := fx.Parse("partition/gpt/table.go")
	rh := fx.FindFunc(f, "", "readGPTHeader")
	if rh == nil {
		g.Missing("headerSlices")
		g.Missing("headerCrcRange")
	} else {
		// the range handed to crc32.ChecksumIEEE
		var crcLo, crcHi int64 = -1, -1
		var crcArg *ast.SliceExpr
		ast.Inspect(rh.Body, func(n ast.Node) bool {
			if ce, ok := n.(*ast.CallExpr); ok && fx.Src(ce.Fun) == "crc32.ChecksumIEEE" && len(ce.Args) == 1 {
				if se, ok := ce.Args[0].(*ast.SliceExpr); ok {
					lo, ok1 := intLit(se.Low)
					hi, ok2 := intLit(se.High)
					if ok1 && ok2 {
						crcLo, crcHi, crcArg = lo, hi, se
					}
				}
			}
			return true
		})
		g.NatPairs("headerSlices", sliceBounds(rh.Body, "gpt", func(se *ast.SliceExpr) bool { return se == crcArg }))
		if crcLo < 0 {
			g.Missing("headerCrcRange")
		} else {
			g.NatPairs("headerCrcRange", [][2]int64{{crcLo, crcHi}})
		}
	}
	le := fx.FindFunc(f, "", "loadEntries")
	arg := ""
	if le != nil {
		ast.Inspect(le.Body, func(n ast.Node) bool {
			if ce, ok := n.(*ast.CallExpr); ok && arg == "" {
				if id, ok := ce.Fun.(*ast.Ident); ok && id.Name == "make" && len(ce.Args) == 2 {
					arg = fx.Src(ce.Args[1])
				}
			}
			return true
		})
	}
	if arg == "" {
		g.Missing("loadEntriesMakeArg")
	} else {
		g.Str("loadEntriesMakeArg", arg)
	}
	return g
}

// ExtractCodec: field offsets of the GPT entry / header encoders and decoders and of the MBR layout.
func ExtractCodec() *fx.Group {
	g := fx.NewGroup("GptCodec")
	pf := fx.Parse("partition/gpt/partition.go")
	tf := fx.Parse("partition/gpt/table.go")
	if fd := fx.FindFunc(pf, "Partition", "toBytes"); fd != nil {
		g.NatPairs("entryEncSlices", sliceBounds(fd.Body, "b", nil))
		// the rune limit in `len(r) > N` and the name offset in `pos := N + i*2`
		var limit, nameOff int64 = -1, -1
		ast.Inspect(fd.Body, func(n ast.Node) bool {
			switch x := n.(type) {
			case *ast.BinaryExpr:
				if x.Op == token.GTR && strings.HasPrefix(fx.Src(x.X), "len(") {
					if v, ok := intLit(x.Y); ok && limit < 0 {
						limit = v
					}
				}
				if x.Op == token.ADD {
					if v, ok := intLit(x.X); ok && strings.ReplaceAll(fx.Src(x.Y), " ", "") == "i*2" {
						nameOff = v
					}
				}
			}
			return true
		})
		if limit < 0 {
			g.Missing("nameLimit")
		} else {
			g.Nat("nameLimit", limit)
		}
		if nameOff < 0 {
			g.Missing("nameOffset")
		} else {
			g.Nat("nameOffset", nameOff)
		}
	} else {
		g.Missing("entryEncSlices")
	}
	if fd := fx.FindFunc(pf, "", "partitionFromBytes"); fd != nil {
		g.NatPairs("entryDecSlices", sliceBounds(fd.Body, "b", nil))
	} else {
		g.Missing("entryDecSlices")
	}
	if v, ok := constVal(pf, "PartitionEntrySize"); ok {
		g.Nat("entrySize", v)
	} else {
		g.Missing("entrySize")
	}
	if fd := fx.FindFunc(tf, "Table", "toGPTBytes"); fd != nil {
		g.NatPairs("headerEncSlices", sliceBounds(fd.Body, "b", nil))
	} else {
		g.Missing("headerEncSlices")
	}
	mf := fx.Parse("partition/mbr/table.go")
	for _, c := range []string{"partitionEntriesStart", "partitionEntriesCount", "signatureStart", "mbrSize", "partitionTableUUIDStart", "partitionTableUUIDEnd"} {
		if v, ok := constVal(mf, c); ok {
			g.Nat("mbr_"+c, v)
		} else {
			g.Missing("mbr_" + c)
		}
	}
	if v, ok := constVal(mf, "partitionEntrySize"); ok {
		g.Nat("mbr_partitionEntrySize", v)
	} else {
		g.Missing("mbr_partitionEntrySize")
	}
	mp := fx.Parse("partition/mbr/partition.go")
	if fd := fx.FindFunc(mp, "Partition", "toBytes"); fd != nil {
		g.NatPairs("mbrEntryEncSlices", sliceBounds(fd.Body, "b", nil))
	} else {
		g.Missing("mbrEntryEncSlices")
	}
	if fd := fx.FindFunc(mp, "", "partitionFromBytes"); fd != nil {
		g.NatPairs("mbrEntryDecSlices", sliceBounds(fd.Body, "b", nil))
	} else {
		g.Missing("mbrEntryDecSlices")
	}
	// probe order of partition.Read
	rd := fx.FindFunc(fx.Parse("partition/partition.go"), "", "Read")
	var order []string
	if rd != nil {
		ast.Inspect(rd.Body, func(n ast.Node) bool {
			if ce, ok := n.(*ast.CallExpr); ok {
				if s := fx.Src(ce.Fun); s == "gpt.Read" || s == "mbr.Read" {
					order = append(order, s)
				}
			}
			return true
		})
	}
	g.Strs("probeOrder", order)
	return g
}
