// Package fat extracts the FAT facts the Lean model is defined over or pinned to:
// end-of-chain predicates and markers, how MaxCluster() is derived, the allocator's scan,
// the cluster-size tables of the three Create functions (parameter facts), reserved
// sector counts, root entry counts, FAT12/16 cluster-count thresholds, LFN slot constants.
package fat

import (
	"go/ast"
	"go/token"
	"strconv"
	"strings"

	"verif/harness/internal/fx"
)

func lit(e ast.Expr) (int64, bool) {
	switch x := e.(type) {
	case *ast.BasicLit:
		if x.Kind == token.INT {
			v, err := strconv.ParseInt(x.Value, 0, 64)
			return v, err == nil
		}
	case *ast.ParenExpr:
		return lit(x.X)
	case *ast.CallExpr: // uint32(0x0fffffff)
		if len(x.Args) == 1 {
			return lit(x.Args[0])
		}
	}
	return 0, false
}

// constant expression over the KB/MB/GB names used in the size tables
func sizeConst(e ast.Expr) (int64, bool) {
	switch x := e.(type) {
	case *ast.BasicLit, *ast.CallExpr:
		return lit(x)
	case *ast.ParenExpr:
		return sizeConst(x.X)
	case *ast.Ident:
		switch x.Name {
		case "KB":
			return 1 << 10, true
		case "MB":
			return 1 << 20, true
		case "GB":
			return 1 << 30, true
		}
	case *ast.SelectorExpr:
		return sizeConst(x.Sel)
	case *ast.BinaryExpr:
		a, ok1 := sizeConst(x.X)
		b, ok2 := sizeConst(x.Y)
		if ok1 && ok2 {
			switch x.Op {
			case token.MUL:
				return a * b, true
			case token.ADD:
				return a + b, true
			case token.SUB:
				return a - b, true
			}
		}
	}
	return 0, false
}

// isEOC: literals compared in `func (t *T) IsEOC(val uint32) bool`
func eocLits(fd *ast.FuncDecl) []int64 {
	var out []int64
	if fd == nil {
		return out
	}
	ast.Inspect(fd.Body, func(n ast.Node) bool {
		if b, ok := n.(*ast.BasicLit); ok {
			if v, ok := lit(b); ok {
				out = append(out, v)
			}
		}
		return true
	})
	return out
}

// sizeTable extracts the `switch { case size <= X: v = Y … default: v = Z }` that assigns to variable v.
// It yields rows (bound, inclusive(1)/exclusive(0), value); the default row has bound 0 and flag 2.
func sizeTable(fd *ast.FuncDecl, v string) (rows [][3]int64, ok bool) {
	if fd == nil {
		return nil, false
	}
	ast.Inspect(fd.Body, func(n ast.Node) bool {
		sw, isSw := n.(*ast.SwitchStmt)
		if !isSw || sw.Tag != nil || rows != nil {
			return true
		}
		var tmp [][3]int64
		for _, st := range sw.Body.List {
			cc := st.(*ast.CaseClause)
			var val int64
			found := false
			for _, s := range cc.Body {
				if as, isAs := s.(*ast.AssignStmt); isAs && len(as.Lhs) == 1 {
					if id, isId := as.Lhs[0].(*ast.Ident); isId && id.Name == v {
						if x, okv := sizeConst(as.Rhs[0]); okv {
							val, found = x, true
						}
					}
				}
			}
			if !found {
				return true
			}
			if cc.List == nil {
				tmp = append(tmp, [3]int64{0, 2, val})
				continue
			}
			be, isB := cc.List[0].(*ast.BinaryExpr)
			if !isB {
				return true
			}
			bound, okb := sizeConst(be.Y)
			if !okb {
				return true
			}
			incl := int64(0)
			if be.Op == token.LEQ {
				incl = 1
			} else if be.Op != token.LSS {
				return true
			}
			tmp = append(tmp, [3]int64{bound, incl, val})
		}
		rows = tmp
		return false
	})
	return rows, rows != nil
}

func emitTable(g *fx.Group, name string, rows [][3]int64, ok bool) {
	if !ok {
		g.Missing(name)
		return
	}
	// Lean side: list of (exclusive upper bound on size, value); default row gets bound 0
	var pairs [][2]int64
	for _, r := range rows {
		b := r[0]
		if r[1] == 1 {
			b++ // size <= X  ==  size < X+1
		}
		if r[1] == 2 {
			b = 0
		}
		pairs = append(pairs, [2]int64{b, r[2]})
	}
	g.NatPairs(name, pairs)
}

func Extract() *fx.Group {
	g := fx.NewGroup("Fat")
	t12 := fx.Parse("filesystem/fat12/table.go")
	t16 := fx.Parse("filesystem/fat16/table.go")
	t32 := fx.Parse("filesystem/fat32/table.go")
	f12 := fx.Parse("filesystem/fat12/fat12.go")
	f16 := fx.Parse("filesystem/fat16/fat16.go")
	f32 := fx.Parse("filesystem/fat32/fat32.go")
	de := fx.Parse("filesystem/fat12/directoryentry.go")

	// ---- end-of-chain predicates
	if l := eocLits(fx.FindFunc(t12, "fat12Table", "IsEOC")); len(l) == 2 {
		g.Nat("fat12_isEOC_lo", l[0])
		g.Nat("fat12_isEOC_hi", l[1])
	} else {
		g.Missing("fat12_isEOC")
	}
	if l := eocLits(fx.FindFunc(t16, "fat16Table", "IsEOC")); len(l) == 2 {
		g.Nat("fat16_isEOC_lo", l[0])
		g.Nat("fat16_isEOC_hi", l[1])
	} else {
		g.Missing("fat16_isEOC")
	}
	if l := eocLits(fx.FindFunc(t32, "table", "IsEOC")); len(l) == 2 && l[0] == l[1] {
		g.Nat("fat32_isEOC_mask", l[0])
	} else {
		g.Missing("fat32_isEOC")
	}
	// ---- markers written, MaxCluster derivation
	kv := func(fd *ast.FuncDecl, key string) (int64, bool) {
		var v int64
		ok := false
		if fd == nil {
			return 0, false
		}
		ast.Inspect(fd.Body, func(n ast.Node) bool {
			if e, isKV := n.(*ast.KeyValueExpr); isKV {
				if id, isId := e.Key.(*ast.Ident); isId && id.Name == key {
					if x, okl := lit(e.Value); okl {
						v, ok = x, true
					}
				}
			}
			return true
		})
		return v, ok
	}
	new12 := fx.FindFunc(t12, "", "newFat12Table")
	new16 := fx.FindFunc(t16, "", "newFat16Table")
	cr32 := fx.FindFunc(f32, "", "Create")
	if v, ok := kv(new12, "eoc"); ok {
		g.Nat("fat12_eoc", v)
	} else {
		g.Missing("fat12_eoc")
	}
	if v, ok := kv(new16, "eoc"); ok {
		g.Nat("fat16_eoc", v)
	} else {
		g.Missing("fat16_eoc")
	}
	if e := fx.AssignRHS(cr32, "eocMarker"); e != nil {
		if v, ok := lit(e); ok {
			g.Nat("fat32_eoc", v)
		} else {
			g.Missing("fat32_eoc")
		}
	} else {
		g.Missing("fat32_eoc")
	}
	for _, x := range []struct {
		n  string
		fd *ast.FuncDecl
	}{{"fat12", new12}, {"fat16", new16}, {"fat32", cr32}} {
		if e := fx.AssignRHS(x.fd, "maxCluster"); e != nil {
			g.Str(x.n+"_maxCluster_expr", fx.Src(e))
		} else {
			g.Missing(x.n + "_maxCluster_expr")
		}
	}
	// ---- allocator scan
	al := fx.FindFunc(f12, "FileSystem", "allocateSpace")
	start, tests := int64(-1), false
	bound := ""
	if al != nil {
		ast.Inspect(al.Body, func(n ast.Node) bool {
			fs, ok := n.(*ast.ForStmt)
			if !ok || fs.Init == nil {
				return true
			}
			as, ok := fs.Init.(*ast.AssignStmt)
			if !ok || len(as.Rhs) != 1 {
				return true
			}
			if v, okl := lit(as.Rhs[0]); okl && start < 0 {
				start = v
				if fs.Cond != nil {
					bound = fx.Src(fs.Cond)
				}
				ast.Inspect(fs.Body, func(m ast.Node) bool {
					if be, isB := m.(*ast.BinaryExpr); isB && be.Op == token.EQL && strings.Contains(fx.Src(be.X), "ClusterValue(") {
						if z, okz := lit(be.Y); okz && z == 0 {
							tests = true
						}
					}
					return true
				})
			}
			return true
		})
	}
	if start >= 0 {
		g.Nat("alloc_scan_start", start)
		g.Bool("alloc_tests_free", tests)
		g.Str("alloc_scan_cond", bound)
	} else {
		g.Missing("alloc_scan")
	}
	// ---- size tables (parameter facts)
	rows, ok := sizeTable(fx.FindFunc(f12, "", "Create"), "sectorsPerCluster")
	emitTable(g, "fat12_spc_table", rows, ok)
	rows, ok = sizeTable(fx.FindFunc(f16, "", "Create"), "sectorsPerCluster")
	emitTable(g, "fat16_spc_table", rows, ok)
	rows, ok = sizeTable(cr32, "clusterBytes")
	emitTable(g, "fat32_clusterBytes_table", rows, ok)
	// ---- LFN slot constants
	cs, bs := int64(-1), int64(-1)
	for _, f := range []*ast.File{de, fx.Parse("filesystem/fat12/dos20bpb.go")} {
		if f == nil {
			continue
		}
		ast.Inspect(f, func(n ast.Node) bool {
			if vs, ok := n.(*ast.ValueSpec); ok {
				for i, nm := range vs.Names {
					if i < len(vs.Values) {
						if v, okl := lit(vs.Values[i]); okl {
							switch nm.Name {
							case "charsPerSlot":
								cs = v
							case "bytesPerSlot":
								bs = v
							}
						}
					}
				}
			}
			return true
		})
	}
	if cs >= 0 && bs >= 0 {
		g.Nat("slot_chars", cs)
		g.Nat("slot_bytes", bs)
	} else {
		g.Missing("slot_consts")
	}
	return g
}
