// Package iso extracts the facts the C06 model is pinned to from /repo's iso9660 sources.
package iso

import (
	"go/ast"
	"go/token"
	"sort"
	"strconv"

	"verif/harness/internal/fx"
)

// constInt finds `name = <int literal>` in a const block.
func constInt(f *ast.File, name string) (int64, bool) {
	if f == nil {
		return 0, false
	}
	for _, d := range f.Decls {
		gd, ok := d.(*ast.GenDecl)
		if !ok || gd.Tok != token.CONST {
			continue
		}
		for _, s := range gd.Specs {
			vs := s.(*ast.ValueSpec)
			for i, n := range vs.Names {
				if n.Name == name && i < len(vs.Values) {
					if bl, ok := vs.Values[i].(*ast.BasicLit); ok && bl.Kind == token.INT {
						v, err := strconv.ParseInt(bl.Value, 0, 64)
						return v, err == nil
					}
				}
			}
		}
	}
	return 0, false
}

// lenBounds collects every N of a condition `len(<ident>) > N` in fn, sorted (names do not matter).
func lenBounds(fn *ast.FuncDecl) []int64 {
	var out []int64
	if fn == nil {
		return nil
	}
	ast.Inspect(fn, func(n ast.Node) bool {
		be, ok := n.(*ast.BinaryExpr)
		if !ok || be.Op != token.GTR {
			return true
		}
		ce, ok := be.X.(*ast.CallExpr)
		if !ok || len(ce.Args) != 1 {
			return true
		}
		if id, ok := ce.Fun.(*ast.Ident); !ok || id.Name != "len" {
			return true
		}
		if bl, ok := be.Y.(*ast.BasicLit); ok {
			v, _ := strconv.ParseInt(bl.Value, 0, 64)
			out = append(out, v)
		}
		return true
	})
	sort.Slice(out, func(i, j int) bool { return out[i] < out[j] })
	return out
}

// loopBounds collects every N of a `for <ident> < N` loop in fn, sorted.
func loopBounds(fn *ast.FuncDecl) []int64 {
	var out []int64
	if fn == nil {
		return nil
	}
	ast.Inspect(fn, func(n ast.Node) bool {
		fs, ok := n.(*ast.ForStmt)
		if !ok || fs.Cond == nil {
			return true
		}
		be, ok := fs.Cond.(*ast.BinaryExpr)
		if !ok || be.Op != token.LSS {
			return true
		}
		if _, ok := be.X.(*ast.Ident); !ok {
			return true
		}
		if bl, ok := be.Y.(*ast.BasicLit); ok {
			v, _ := strconv.ParseInt(bl.Value, 0, 64)
			out = append(out, v)
		}
		return true
	})
	sort.Slice(out, func(i, j int) bool { return out[i] < out[j] })
	return out
}

// lenBound finds `len(<ident>) > N` in fn and returns N.
func lenBound(fn *ast.FuncDecl, ident string) (int64, bool) {
	var out int64
	found := false
	if fn == nil {
		return 0, false
	}
	ast.Inspect(fn, func(n ast.Node) bool {
		be, ok := n.(*ast.BinaryExpr)
		if !ok || be.Op != token.GTR {
			return true
		}
		ce, ok := be.X.(*ast.CallExpr)
		if !ok || len(ce.Args) != 1 {
			return true
		}
		if id, ok := ce.Fun.(*ast.Ident); !ok || id.Name != "len" {
			return true
		}
		if a, ok := ce.Args[0].(*ast.Ident); !ok || a.Name != ident {
			return true
		}
		if bl, ok := be.Y.(*ast.BasicLit); ok && !found {
			out, _ = strconv.ParseInt(bl.Value, 0, 64)
			found = true
		}
		return true
	})
	return out, found
}

// forBound finds `for <ident> < N` in fn.
func forBound(fn *ast.FuncDecl, ident string) (int64, bool) {
	var out int64
	found := false
	if fn == nil {
		return 0, false
	}
	ast.Inspect(fn, func(n ast.Node) bool {
		fs, ok := n.(*ast.ForStmt)
		if !ok || fs.Cond == nil {
			return true
		}
		be, ok := fs.Cond.(*ast.BinaryExpr)
		if !ok || be.Op != token.LSS {
			return true
		}
		if a, ok := be.X.(*ast.Ident); !ok || a.Name != ident {
			return true
		}
		if bl, ok := be.Y.(*ast.BasicLit); ok && !found {
			out, _ = strconv.ParseInt(bl.Value, 0, 64)
			found = true
		}
		return true
	})
	return out, found
}

func Extract() *fx.Group {
	g := fx.NewGroup("Iso")
	fin := fx.Parse("filesystem/iso9660/finalize.go")
	de := fx.Parse("filesystem/iso9660/directoryentry.go")
	put := func(name string, v int64, ok bool) {
		if !ok {
			g.Missing(name)
			return
		}
		g.Nat(name, v)
	}
	v, ok := constInt(fin, "dataStartSector")
	put("dataStartSector", v, ok)
	v, ok = constInt(de, "directoryEntryMaxSize")
	put("directoryEntryMaxSize", v, ok)
	cse := fx.FindFunc(fin, "", "calculateShortnameExtension")
	// the truncation limits of the 8.3 mapping and the digit limit of the collision loop, found by
	// shape (any identifier), so that renaming a local does not break the tie
	g.Nats("truncBounds", lenBounds(cse))
	rcg := fx.FindFunc(fin, "", "resolveCollisionGroup")
	g.Nats("digitLoopBounds", loopBounds(rcg))
	if e := fx.AssignRHS(rcg, "maxBasename"); e != nil {
		g.Str("maxBasename_expr", fx.Src(e))
	} else {
		g.Missing("maxBasename_expr")
	}
	if e := fx.AssignRHS(fx.FindFunc(fin, "FileSystem", "Finalize"), "rootLocation"); e != nil {
		g.Str("rootLocation_expr", fx.Src(e))
	} else {
		g.Missing("rootLocation_expr")
	}
	// the SL encoder: bytes of an SL entry that are not component records (`headerSize := 4 + 1 + 2`), and
	// how the room for component records is derived from it; the copy chunk of copyFileData
	rr := fx.Parse("filesystem/iso9660/rockridge.go")
	slb := fx.FindFunc(rr, "rockRidgeSymlink", "Bytes")
	if e := fx.AssignRHS(slb, "headerSize"); e != nil {
		v, ok := sumLits(e)
		put("slHeaderSize", v, ok)
	} else {
		g.Missing("slHeaderSize")
	}
	if e := fx.AssignRHS(slb, "maxComponentSize"); e != nil {
		g.Str("slMaxComponent_expr", fx.Src(e))
	} else {
		g.Missing("slMaxComponent_expr")
	}
	v, ok = makeLen(fx.FindFunc(fin, "", "copyFileData"))
	put("copyChunkSize", v, ok)
	// the Joliet name codec: two bytes per rune (as found, recorded finding iso-joliet-nonbmp-name) or
	// unicode/utf16 in both directions (repaired). The model follows this switch; the correspondence run
	// (iso.ucs2, code points beyond the BMP included) shows whether the switch tells the truth.
	ut := fx.Parse("filesystem/iso9660/util.go")
	enc, dec := fx.FindFunc(ut, "", "ucs2StringToBytes"), fx.FindFunc(ut, "", "bytesToUCS2String")
	if enc == nil || dec == nil {
		g.Missing("jolietUtf16")
	} else {
		g.Bool("jolietUtf16", callsPkg(enc, "utf16", "Encode") && callsPkg(dec, "utf16", "Decode"))
	}
	return g
}

// callsPkg reports whether fn contains a call pkg.name(...).
func callsPkg(fn *ast.FuncDecl, pkg, name string) bool {
	found := false
	ast.Inspect(fn, func(n ast.Node) bool {
		ce, ok := n.(*ast.CallExpr)
		if !ok {
			return true
		}
		if se, ok := ce.Fun.(*ast.SelectorExpr); ok && se.Sel.Name == name {
			if id, ok := se.X.(*ast.Ident); ok && id.Name == pkg {
				found = true
			}
		}
		return true
	})
	return found
}

// sumLits evaluates an expression made of integer literals, + and parentheses.
func sumLits(e ast.Expr) (int64, bool) {
	switch x := e.(type) {
	case *ast.BasicLit:
		v, err := strconv.ParseInt(x.Value, 0, 64)
		return v, err == nil
	case *ast.ParenExpr:
		return sumLits(x.X)
	case *ast.BinaryExpr:
		if x.Op != token.ADD {
			return 0, false
		}
		a, ok1 := sumLits(x.X)
		b, ok2 := sumLits(x.Y)
		return a + b, ok1 && ok2
	}
	return 0, false
}

// makeLen finds the first `make([]byte, N)` with a literal N in fn.
func makeLen(fn *ast.FuncDecl) (int64, bool) {
	var out int64
	found := false
	if fn == nil {
		return 0, false
	}
	ast.Inspect(fn, func(n ast.Node) bool {
		ce, ok := n.(*ast.CallExpr)
		if !ok || found || len(ce.Args) != 2 {
			return true
		}
		if id, ok := ce.Fun.(*ast.Ident); !ok || id.Name != "make" {
			return true
		}
		if bl, ok := ce.Args[1].(*ast.BasicLit); ok {
			out, _ = strconv.ParseInt(bl.Value, 0, 64)
			found = true
		}
		return true
	})
	return out, found
}
