// Package detect extracts the C12 facts: probe orders, FAT cluster-count
// thresholds as written in Create and in Read, the size→sectors-per-cluster
// tables the Lean model is defined over, magic numbers.
package detect

import (
	"go/ast"
	"go/token"
	"strconv"
	"strings"

	"verif/harness/internal/fx"
)

// constEval evaluates integer constant expressions built from literals, the size units and * + - <<.
func constEval(e ast.Expr, env map[string]int64) (int64, bool) {
	switch x := e.(type) {
	case *ast.BasicLit:
		if x.Kind == token.INT {
			v, err := strconv.ParseInt(x.Value, 0, 64)
			if err != nil {
				u, err2 := strconv.ParseUint(x.Value, 0, 64)
				return int64(u), err2 == nil
			}
			return v, true
		}
	case *ast.Ident:
		v, ok := env[x.Name]
		return v, ok
	case *ast.SelectorExpr:
		v, ok := env[x.Sel.Name]
		return v, ok
	case *ast.ParenExpr:
		return constEval(x.X, env)
	case *ast.CallExpr: // conversions int64(x), uint32(x)
		if len(x.Args) == 1 {
			return constEval(x.Args[0], env)
		}
	case *ast.BinaryExpr:
		a, ok1 := constEval(x.X, env)
		b, ok2 := constEval(x.Y, env)
		if !ok1 || !ok2 {
			return 0, false
		}
		switch x.Op {
		case token.MUL:
			return a * b, true
		case token.ADD:
			return a + b, true
		case token.SUB:
			return a - b, true
		case token.SHL:
			return a << uint(b), true
		case token.OR:
			return a | b, true
		}
	}
	return 0, false
}

var units = map[string]int64{"KB": 1 << 10, "MB": 1 << 20, "GB": 1 << 30, "TB": 1 << 40, "SectorSize512": 512}

// spcTable reads `switch { case size <= X: v = N ... default: v = D }` assigning variable `name`.
// Each row is (inclusive upper bound on size, value); a strict `<` bound becomes bound-1.
func spcTable(fn *ast.FuncDecl, name string) (rows [][2]int64, dflt int64, ok bool) {
	if fn == nil {
		return nil, 0, false
	}
	ast.Inspect(fn.Body, func(n ast.Node) bool {
		sw, isSw := n.(*ast.SwitchStmt)
		if !isSw || sw.Tag != nil || ok {
			return true
		}
		var r [][2]int64
		var d int64 = -1
		good := true
		for _, st := range sw.Body.List {
			cc := st.(*ast.CaseClause)
			val := int64(-1)
			for _, b := range cc.Body {
				if as, isAs := b.(*ast.AssignStmt); isAs && len(as.Lhs) == 1 {
					if id, isId := as.Lhs[0].(*ast.Ident); isId && id.Name == name {
						if v, okv := constEval(as.Rhs[0], units); okv {
							val = v
						}
					}
				}
			}
			if val < 0 {
				good = false
				break
			}
			if cc.List == nil {
				d = val
				continue
			}
			be, isB := cc.List[0].(*ast.BinaryExpr)
			if !isB || len(cc.List) != 1 {
				good = false
				break
			}
			if id, isId := be.X.(*ast.Ident); !isId || id.Name != "size" {
				good = false
				break
			}
			bound, okb := constEval(be.Y, units)
			if !okb {
				good = false
				break
			}
			switch be.Op {
			case token.LEQ:
			case token.LSS:
				bound--
			default:
				good = false
			}
			r = append(r, [2]int64{bound, val})
		}
		if good && d >= 0 && len(r) > 0 {
			rows, dflt, ok = r, d, true
		}
		return true
	})
	return
}

// cmpLiterals lists, in source order, "<op><literal>" for comparisons of identifier `name` with an integer literal.
func cmpLiterals(fn *ast.FuncDecl, name string) []string {
	var out []string
	if fn == nil {
		return out
	}
	ast.Inspect(fn.Body, func(n ast.Node) bool {
		be, ok := n.(*ast.BinaryExpr)
		if !ok {
			return true
		}
		id, ok := be.X.(*ast.Ident)
		if !ok || id.Name != name {
			return true
		}
		if v, ok := constEval(be.Y, nil); ok {
			switch be.Op {
			case token.GEQ, token.LSS, token.GTR, token.LEQ:
				if v > 1 {
					out = append(out, be.Op.String()+strconv.FormatInt(v, 10))
				}
			}
		}
		return true
	})
	return out
}

// probeOrder lists the packages whose Read is called, in source order.
func probeOrder(fn *ast.FuncDecl) []string {
	var out []string
	if fn == nil {
		return out
	}
	ast.Inspect(fn.Body, func(n ast.Node) bool {
		ce, ok := n.(*ast.CallExpr)
		if !ok {
			return true
		}
		se, ok := ce.Fun.(*ast.SelectorExpr)
		if !ok || se.Sel.Name != "Read" {
			return true
		}
		if id, ok := se.X.(*ast.Ident); ok {
			out = append(out, id.Name)
		}
		return true
	})
	return out
}

func dedupe(in []string) []string {
	var out []string
	seen := map[string]bool{}
	for _, x := range in {
		if !seen[x] {
			seen[x] = true
			out = append(out, x)
		}
	}
	return out
}

// gptBranchReadsMBR: the then-branch of the `if err == nil` that follows the gpt.Read call contains a call of mbr.Read
func gptBranchReadsMBR(fn *ast.FuncDecl) bool {
	if fn == nil {
		return false
	}
	sawGPT := false
	for _, st := range fn.Body.List {
		if strings.Contains(fx.Src(st), "gpt.Read(") {
			sawGPT = true
		}
		is, ok := st.(*ast.IfStmt)
		if !ok || !sawGPT {
			continue
		}
		if fx.Src(is.Cond) == "err == nil" {
			return strings.Contains(fx.Src(is.Body), "mbr.Read(")
		}
	}
	return false
}

// constValue finds `name = <const expr>` in a file's const/var declarations.
func constValue(f *ast.File, name string) (int64, bool) {
	if f == nil {
		return 0, false
	}
	for _, d := range f.Decls {
		gd, ok := d.(*ast.GenDecl)
		if !ok {
			continue
		}
		for _, s := range gd.Specs {
			vs, ok := s.(*ast.ValueSpec)
			if !ok {
				continue
			}
			for i, n := range vs.Names {
				if n.Name == name && i < len(vs.Values) {
					return constEval(vs.Values[i], units)
				}
			}
		}
	}
	return 0, false
}

// Extract builds Generated/Detect.lean.
func Extract() *fx.Group {
	g := fx.NewGroup("Detect")
	// probe orders (parameters of the model's probe)
	if o := probeOrder(fx.FindFunc(fx.Parse("disk/disk.go"), "Disk", "GetFilesystem")); len(o) > 0 {
		g.Strs("fsProbeOrder", o)
	} else {
		g.Missing("fsProbeOrder")
	}
	tblRead := fx.FindFunc(fx.Parse("partition/partition.go"), "", "Read")
	if o := dedupe(probeOrder(tblRead)); len(o) > 0 {
		g.Strs("tableProbeOrder", o)
	} else {
		g.Missing("tableProbeOrder")
	}
	// as-found switch: once gpt.Read has accepted, does partition.Read still consult mbr.Read (a legacy MBR in
	// sector 0 - used entries, none protective - means the GPT structures are leftovers)?
	g.Bool("tableReadChecksLegacyMBR", gptBranchReadsMBR(tblRead))
	// FAT thresholds as written in Create and in Read
	for _, k := range []string{"fat12", "fat16"} {
		f := fx.Parse("filesystem/" + k + "/" + k + ".go")
		for _, fn := range []string{"Create", "Read"} {
			lits := cmpLiterals(fx.FindFunc(f, "", fn), "numClusters")
			// the acceptance window is [Lt, Ge): `numClusters < Lt` and `numClusters >= Ge` are refused
			ge, lt := int64(-1), int64(0)
			for _, l := range lits {
				if strings.HasPrefix(l, ">=") {
					ge, _ = strconv.ParseInt(l[2:], 10, 64)
				}
				if strings.HasPrefix(l, "<") && !strings.HasPrefix(l, "<=") {
					lt, _ = strconv.ParseInt(l[1:], 10, 64)
				}
			}
			if ge < 0 || (k == "fat16" && lt == 0) || (k == "fat12" && len(lits) != 1) || (k == "fat16" && len(lits) != 2) {
				g.Missing(k + fn + "Thresholds")
				continue
			}
			g.Nat(k+fn+"Ge", ge)
			g.Nat(k+fn+"Lt", lt)
		}
		rows, d, ok := spcTable(fx.FindFunc(f, "", "Create"), "sectorsPerCluster")
		if !ok {
			g.Missing(k + "SpcTable")
		} else {
			g.NatPairs(k+"SpcTable", rows)
			g.Nat(k+"SpcDefault", d)
		}
	}
	// does fat12.Create refuse a geometry without a data cluster (`numClusters == 0`)? parameter of the create model
	g.Bool("fat12CreateRefusesZeroClusters", hasZeroCheck(fx.FindFunc(fx.Parse("filesystem/fat12/fat12.go"), "", "Create"), "numClusters"))
	// fat32 cluster-bytes table (parameter)
	if rows, d, ok := spcTable(fx.FindFunc(fx.Parse("filesystem/fat32/fat32.go"), "", "Create"), "clusterBytes"); ok {
		g.NatPairs("fat32ClusterBytesTable", rows)
		g.Nat("fat32ClusterBytesDefault", d)
	} else {
		g.Missing("fat32ClusterBytesTable")
	}
	// magic numbers
	type cv struct{ file, name, lean string }
	for _, c := range []cv{
		{"filesystem/squashfs/superblock.go", "superblockMagic", "sqfsMagic"},
		{"filesystem/squashfs/superblock.go", "superblockMajorVersion", "sqfsMajor"},
		{"filesystem/squashfs/superblock.go", "superblockMinorVersion", "sqfsMinor"},
		{"filesystem/squashfs/squashfs.go", "minBlocksize", "sqfsMinBlock"},
		{"filesystem/squashfs/squashfs.go", "maxBlocksize", "sqfsMaxBlock"},
		{"filesystem/iso9660/volume_descriptor.go", "isoIdentifier", "isoIdentifier"},
		{"filesystem/iso9660/iso9660.go", "systemAreaSize", "isoSystemArea"},
		{"filesystem/fat12/msdosbootsector.go", "msDosBootSectorSignature", "fatBootSignature"},
		{"filesystem/fat32/msdosbootsector.go", "msDosBootSectorSignature", "fat32BootSignature"},
		{"filesystem/fat32/fsinfosector.go", "fsInfoSectorSignatureStart", "fsisSigStart"},
		{"filesystem/fat32/fsinfosector.go", "fsInfoSectorSignatureMid", "fsisSigMid"},
		{"filesystem/fat32/fsinfosector.go", "fsInfoSectorSignatureEnd", "fsisSigEnd"},
		{"filesystem/fat12/util.go", "Fat12MaxSize", "fat12MaxSize"},
		{"filesystem/fat12/util.go", "Fat16MaxSize", "fat16MaxSize"},
		{"filesystem/fat32/util.go", "Fat32MaxSize", "fat32MaxSize"},
	} {
		if v, ok := constValue(fx.Parse(c.file), c.name); ok {
			g.Nat(c.lean, v)
		} else {
			g.Missing(c.lean)
		}
	}
	// ext4 superblock signature lives in a const block with a typed value
	if v, ok := findAnyConst("filesystem/ext4", "superblockSignature"); ok {
		g.Nat("ext4Magic", v)
	} else {
		g.Missing("ext4Magic")
	}
	// does ext4.Create clear the boot area (bytes 0..1023 of the volume)? parameter of the create model:
	// true iff Create (or a function it calls in ext4.go) writes a zero buffer at offset 0 of the volume.
	g.Bool("ext4CreateClearsBootArea", ext4ClearsBoot())
	return g
}

// hasZeroCheck: an `if name == 0` (or `name < 1`) whose body returns
func hasZeroCheck(fn *ast.FuncDecl, name string) bool {
	if fn == nil {
		return false
	}
	found := false
	ast.Inspect(fn.Body, func(n ast.Node) bool {
		is, ok := n.(*ast.IfStmt)
		if !ok {
			return true
		}
		be, ok := is.Cond.(*ast.BinaryExpr)
		if !ok {
			return true
		}
		id, ok := be.X.(*ast.Ident)
		if !ok || id.Name != name {
			return true
		}
		v, okv := constEval(be.Y, nil)
		if okv && ((be.Op == token.EQL && v == 0) || (be.Op == token.LSS && v == 1)) {
			for _, st := range is.Body.List {
				if _, isRet := st.(*ast.ReturnStmt); isRet {
					found = true
				}
			}
		}
		return true
	})
	return found
}

func findAnyConst(dir, name string) (int64, bool) {
	for _, f := range []string{"superblock.go", "ext4.go", "consts.go", "util.go"} {
		if v, ok := constValue(fx.Parse(dir+"/"+f), name); ok {
			return v, true
		}
	}
	return 0, false
}

// ext4ClearsBoot: Create contains a WriteAt whose offset argument is the literal 0 (relative to the
// sub-storage that starts at the volume) and whose data is a make([]byte, …BootSectorSize…) buffer.
func ext4ClearsBoot() bool {
	fn := fx.FindFunc(fx.Parse("filesystem/ext4/ext4.go"), "", "Create")
	if fn == nil {
		return false
	}
	found := false
	ast.Inspect(fn.Body, func(n ast.Node) bool {
		ce, ok := n.(*ast.CallExpr)
		if !ok {
			return true
		}
		se, ok := ce.Fun.(*ast.SelectorExpr)
		if !ok || se.Sel.Name != "WriteAt" || len(ce.Args) != 2 {
			return true
		}
		if v, ok := constEval(ce.Args[1], nil); ok && v == 0 {
			src := fx.Src(ce.Args[0])
			if strings.Contains(src, "BootSectorSize") || strings.Contains(strings.ToLower(src), "boot") || strings.Contains(strings.ToLower(src), "zero") {
				found = true
			}
		}
		return true
	})
	return found
}
