// Package repro extracts the C14 facts: every source of nondeterminism
// (time.Now, uuid.New*, rand.*, process identity, range over a map) in the FAT /
// GPT / MBR write paths and the timestamp helper, with the condition guarding it;
// and the plumbing of the reproducible flag from disk.FilesystemSpec to Create.
package repro

import (
	"fmt"
	"go/ast"
	"os"
	"path/filepath"
	"sort"
	"strings"

	"verif/harness/internal/fx"
)

var dirs = []string{"filesystem/fat12", "filesystem/fat16", "filesystem/fat32", "partition/gpt", "partition/mbr", "partition", "util/timestamp", "disk", "backend", "backend/file"}

func files() []string {
	var out []string
	for _, d := range dirs {
		ents, err := os.ReadDir(filepath.Join(fx.Repo(), d))
		if err != nil {
			continue
		}
		for _, e := range ents {
			n := e.Name()
			if e.IsDir() || !strings.HasSuffix(n, ".go") || strings.HasSuffix(n, "_test.go") || strings.HasPrefix(n, "zz_verif_hooks") {
				continue
			}
			if d == "disk" && n != "disk.go" {
				continue // the rest of package disk talks to the kernel (ioctl), it writes no image bytes
			}
			if strings.Contains(n, "_windows") || strings.Contains(n, "_darwin") || strings.Contains(n, "_wasip1") || strings.Contains(n, "_other") {
				continue
			}
			out = append(out, d+"/"+n)
		}
	}
	sort.Strings(out)
	return out
}

func isSource(callee string) bool {
	switch callee {
	case "time.Now", "time.Since", "uuid.NewRandom", "uuid.New", "uuid.NewString", "uuid.NewUUID", "uuid.Must",
		"os.Getpid", "os.Hostname", "os.Getppid", "os.Getuid":
		return true
	}
	return strings.HasPrefix(callee, "rand.")
}

// guardKind classifies the innermost enclosing conditions of a source call.
func guardKind(conds []string, fn *ast.FuncDecl, file string) string {
	for i := len(conds) - 1; i >= 0; i-- {
		c := conds[i]
		switch {
		case c == "!reproducible":
			return "not-reproducible"
		case strings.HasSuffix(c, `.GUID == ""`):
			return "guid-empty"
		}
	}
	// timestamp.GetTime: time.Now only after the SOURCE_DATE_EPOCH branch returned
	if file == "util/timestamp/timestamp.go" && fn.Name.Name == "GetTime" {
		src := fx.Src(fn.Body)
		i := strings.Index(src, `os.Getenv("SOURCE_DATE_EPOCH")`)
		j := strings.Index(src, "return time.Unix(")
		k := strings.LastIndex(src, "time.Now()")
		if i >= 0 && j > i && k > j {
			return "epoch-unset"
		}
	}
	if len(conds) == 0 {
		return "unguarded"
	}
	return "unguarded:" + conds[len(conds)-1]
}

// walk visits calls with the stack of enclosing if-conditions (then-branches only; else gets the negation text).
func walk(n ast.Node, conds []string, visit func(ce *ast.CallExpr, conds []string), rng func(rs *ast.RangeStmt)) {
	switch x := n.(type) {
	case nil:
		return
	case *ast.IfStmt:
		if x.Init != nil {
			walk(x.Init, conds, visit, rng)
		}
		walk(x.Cond, conds, visit, rng)
		c := fx.Src(x.Cond)
		walk(x.Body, append(append([]string{}, conds...), c), visit, rng)
		if x.Else != nil {
			walk(x.Else, append(append([]string{}, conds...), "!("+c+")"), visit, rng)
		}
		return
	case *ast.CallExpr:
		visit(x, conds)
	case *ast.RangeStmt:
		rng(x)
	}
	// generic descent over direct children
	var kids []ast.Node
	ast.Inspect(n, func(c ast.Node) bool {
		if c == nil || c == n {
			return c == n
		}
		kids = append(kids, c)
		return false
	})
	for _, k := range kids {
		walk(k, conds, visit, rng)
	}
}

// mapNames: identifiers / field names declared with a map type anywhere in the file.
func mapNames(f *ast.File) map[string]bool {
	m := map[string]bool{}
	ast.Inspect(f, func(n ast.Node) bool {
		switch x := n.(type) {
		case *ast.Field:
			if _, ok := x.Type.(*ast.MapType); ok {
				for _, nm := range x.Names {
					m[nm.Name] = true
				}
			}
		case *ast.ValueSpec:
			if _, ok := x.Type.(*ast.MapType); ok {
				for _, nm := range x.Names {
					m[nm.Name] = true
				}
			}
			for i, v := range x.Values {
				if isMapExpr(v) && i < len(x.Names) {
					m[x.Names[i].Name] = true
				}
			}
		case *ast.AssignStmt:
			for i, r := range x.Rhs {
				if isMapExpr(r) && i < len(x.Lhs) {
					if id, ok := x.Lhs[i].(*ast.Ident); ok {
						m[id.Name] = true
					}
				}
			}
		}
		return true
	})
	return m
}

func isMapExpr(e ast.Expr) bool {
	switch x := e.(type) {
	case *ast.CompositeLit:
		_, ok := x.Type.(*ast.MapType)
		return ok
	case *ast.CallExpr:
		if id, ok := x.Fun.(*ast.Ident); ok && id.Name == "make" && len(x.Args) > 0 {
			_, ok := x.Args[0].(*ast.MapType)
			return ok
		}
	}
	return false
}

// Extract builds Generated/Repro.lean.
func Extract() *fx.Group {
	g := fx.NewGroup("Repro")
	var sources, kinds, mapRanges []string
	bad := 0
	for _, rel := range files() {
		f := fx.Parse(rel)
		if f == nil {
			continue
		}
		maps := mapNames(f)
		for _, d := range f.Decls {
			fd, ok := d.(*ast.FuncDecl)
			if !ok || fd.Body == nil {
				continue
			}
			walk(fd.Body, nil, func(ce *ast.CallExpr, conds []string) {
				callee := fx.Src(ce.Fun)
				if !isSource(callee) {
					return
				}
				k := guardKind(conds, fd, rel)
				sources = append(sources, fmt.Sprintf("%s:%s:%s:%s", rel, fd.Name.Name, callee, k))
				kinds = append(kinds, k)
				if strings.HasPrefix(k, "unguarded") {
					bad++
				}
			}, func(rs *ast.RangeStmt) {
				name := ""
				switch x := rs.X.(type) {
				case *ast.Ident:
					name = x.Name
				case *ast.SelectorExpr:
					name = x.Sel.Name
				}
				if isMapExpr(rs.X) || (name != "" && maps[name]) {
					mapRanges = append(mapRanges, fmt.Sprintf("%s:%s:range %s", rel, fd.Name.Name, fx.Src(rs.X)))
				}
			})
		}
	}
	sort.Strings(sources)
	g.Strs("nondetSources", sources)
	ks := map[string]bool{}
	for _, k := range kinds {
		ks[k] = true
	}
	var kl []string
	for k := range ks {
		kl = append(kl, k)
	}
	sort.Strings(kl)
	g.Strs("nondetGuardKinds", kl)
	g.Nat("nondetUnguarded", int64(bad))
	g.Nat("nondetTotal", int64(len(sources)))
	g.Strs("mapRanges", mapRanges)

	// reproducible flag plumbing: disk.CreateFilesystem hands spec.Reproducible to the three FAT Creates
	fd := fx.FindFunc(fx.Parse("disk/disk.go"), "Disk", "CreateFilesystem")
	plumbed := 0
	if fd != nil {
		ast.Inspect(fd.Body, func(n ast.Node) bool {
			ce, ok := n.(*ast.CallExpr)
			if !ok {
				return true
			}
			s := fx.Src(ce.Fun)
			if (s == "fat12.Create" || s == "fat16.Create" || s == "fat32.Create") && len(ce.Args) > 0 &&
				fx.Src(ce.Args[len(ce.Args)-1]) == "spec.Reproducible" {
				plumbed++
			}
			return true
		})
	}
	g.Nat("reproduciblePlumbedCreates", int64(plumbed))
	// the FAT directory code takes its time from timestamp.GetTime only
	uses := 0
	for _, rel := range []string{"filesystem/fat12/directory.go"} {
		f := fx.Parse(rel)
		if f == nil {
			continue
		}
		ast.Inspect(f, func(n ast.Node) bool {
			if ce, ok := n.(*ast.CallExpr); ok && fx.Src(ce.Fun) == "timestamp.GetTime" {
				uses++
			}
			return true
		})
	}
	g.Nat("fatDirectoryGetTimeUses", int64(uses))
	return g
}
