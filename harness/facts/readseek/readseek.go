// Package readseek extracts the facts C10's model is pinned to: for each of the four File types
// the three `case` arms of Seek as normalised expressions, the closed-handle guards of Read and
// Seek, and the "before start" check of Seek.
package readseek

import (
	"go/ast"
	"go/token"
	"strings"

	"verif/harness/internal/fx"
)

// arm codes (must match Diskfs.ReadSeek.Arm.code):
// 0 offset · 1 size + offset · 2 cursor + offset · 3 size - offset · 99 anything else
func isIdent(e ast.Expr, name string) bool {
	id, ok := e.(*ast.Ident)
	return ok && id.Name == name
}

func isCursor(e ast.Expr) bool {
	s, ok := e.(*ast.SelectorExpr)
	return ok && s.Sel.Name == "offset"
}

func isSize(e ast.Expr) bool {
	if isCursor(e) || isIdent(e, "offset") {
		return false
	}
	return strings.Contains(strings.ToLower(fx.Src(e)), "size")
}

func armCode(e ast.Expr) int64 {
	if p, ok := e.(*ast.ParenExpr); ok {
		return armCode(p.X)
	}
	if isIdent(e, "offset") {
		return 0
	}
	b, ok := e.(*ast.BinaryExpr)
	if !ok {
		return 99
	}
	switch b.Op {
	case token.ADD:
		switch {
		case isSize(b.X) && isIdent(b.Y, "offset"), isIdent(b.X, "offset") && isSize(b.Y):
			return 1
		case isCursor(b.X) && isIdent(b.Y, "offset"), isIdent(b.X, "offset") && isCursor(b.Y):
			return 2
		}
	case token.SUB:
		if isSize(b.X) && isIdent(b.Y, "offset") {
			return 3
		}
	}
	return 99
}

// closedGuard: the first statement is `if <… == nil … | ….closed> { return …, os.ErrClosed }`
func closedGuard(fd *ast.FuncDecl) bool {
	if fd == nil || fd.Body == nil || len(fd.Body.List) == 0 {
		return false
	}
	is, ok := fd.Body.List[0].(*ast.IfStmt)
	if !ok {
		return false
	}
	cond := fx.Src(is.Cond)
	if !strings.Contains(cond, "== nil") && !strings.Contains(cond, "closed") {
		return false
	}
	for _, st := range is.Body.List {
		if r, ok := st.(*ast.ReturnStmt); ok {
			for _, x := range r.Results {
				if strings.Contains(fx.Src(x), "ErrClosed") {
					return true
				}
			}
		}
	}
	return false
}

// negCheck: Seek contains `if newOffset < 0 { return …, <non-nil error> }` before `fl.offset = newOffset`
func negCheck(fd *ast.FuncDecl) bool {
	if fd == nil {
		return false
	}
	found := false
	ast.Inspect(fd.Body, func(n ast.Node) bool {
		is, ok := n.(*ast.IfStmt)
		if !ok {
			return true
		}
		b, ok := is.Cond.(*ast.BinaryExpr)
		if !ok || b.Op != token.LSS || !isIdent(b.X, "newOffset") || fx.Src(b.Y) != "0" {
			return true
		}
		for _, st := range is.Body.List {
			if r, ok := st.(*ast.ReturnStmt); ok && len(r.Results) == 2 && fx.Src(r.Results[1]) != "nil" {
				found = true
			}
		}
		return true
	})
	return found
}

func Extract() *fx.Group {
	g := fx.NewGroup("ReadSeek")
	for _, fs := range [][2]string{{"fat", "filesystem/fat12/file.go"}, {"ext4", "filesystem/ext4/file.go"},
		{"iso", "filesystem/iso9660/file.go"}, {"sqfs", "filesystem/squashfs/file.go"}} {
		name, rel := fs[0], fs[1]
		f := fx.Parse(rel)
		seek := fx.FindFunc(f, "File", "Seek")
		read := fx.FindFunc(f, "File", "Read")
		if seek == nil || read == nil {
			g.Missing(name + "SeekArms")
			continue
		}
		arms := map[string]ast.Expr{}
		ast.Inspect(seek.Body, func(n ast.Node) bool {
			sw, ok := n.(*ast.SwitchStmt)
			if !ok || !isIdent(sw.Tag, "whence") {
				return true
			}
			for _, st := range sw.Body.List {
				cc, ok := st.(*ast.CaseClause)
				if !ok || len(cc.List) != 1 {
					continue
				}
				sel, ok := cc.List[0].(*ast.SelectorExpr)
				if !ok {
					continue
				}
				for _, bs := range cc.Body {
					if as, ok := bs.(*ast.AssignStmt); ok && len(as.Lhs) == 1 && len(as.Rhs) == 1 && isIdent(as.Lhs[0], "newOffset") {
						arms[sel.Sel.Name] = as.Rhs[0]
					}
				}
			}
			return false
		})
		var codes []int64
		var srcs []string
		for _, w := range []string{"SeekStart", "SeekEnd", "SeekCurrent"} {
			e, ok := arms[w]
			if !ok {
				codes = append(codes, 99)
				srcs = append(srcs, "<missing>")
				continue
			}
			codes = append(codes, armCode(e))
			srcs = append(srcs, fx.Src(e))
		}
		g.Nats(name+"SeekArms", codes)
		g.Strs(name+"SeekArmsSrc", srcs)
		g.Bool(name+"SeekNegCheck", negCheck(seek))
		g.Bool(name+"ReadClosedGuard", closedGuard(read))
		g.Bool(name+"SeekClosedGuard", closedGuard(seek))
		if name == "ext4" {
			// File.Read passes over an extent that lies wholly before the offset reached: `if leftInExtent < 0 { continue }`
			g.Bool("e4ReadSkipsNegative", negLeftContinue(read))
		}
	}
	return g
}

// negLeftContinue: the function holds an `if leftInExtent < 0` (or `<= -1`) whose body is a `continue`.
func negLeftContinue(fn *ast.FuncDecl) bool {
	found := false
	ast.Inspect(fn.Body, func(n ast.Node) bool {
		is, ok := n.(*ast.IfStmt)
		if !ok || is.Init != nil {
			return true
		}
		be, ok := is.Cond.(*ast.BinaryExpr)
		if !ok || be.Op != token.LSS || !isIdent(be.X, "leftInExtent") || fx.Src(be.Y) != "0" {
			return true
		}
		for _, st := range is.Body.List {
			if br, ok := st.(*ast.BranchStmt); ok && br.Tok == token.CONTINUE {
				found = true
			}
		}
		return true
	})
	return found
}
