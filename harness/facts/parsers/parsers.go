// Package parsers extracts the pins of the C18 parser mirrors (lean/DiskfsModel/Model/Parsers.lean):
// for each mirrored function, that the bound check the model's `checked` shape relies on is present and
// PRECEDES the slice / index / make expression it protects (positions in the function body, not text
// equality), and the numeric constants the mirrors are written with.
package parsers

import (
	"go/ast"
	"go/token"
	"strconv"
	"strings"

	"verif/harness/internal/fx"
)

// guardBefore: in fn, the first `if` whose condition contains every string of cond (after removing
// blanks) comes before the first node for which use reports true. Missing function → fact missing.
func guardBefore(g *fx.Group, name, file, recv, fn string, cond []string, use func(ast.Node) bool) {
	f := fx.Parse(file)
	fd := fx.FindFunc(f, recv, fn)
	if fd == nil || fd.Body == nil {
		g.Missing(name)
		return
	}
	var ifPos, usePos token.Pos
	ast.Inspect(fd.Body, func(n ast.Node) bool {
		if n == nil {
			return true
		}
		if is, ok := n.(*ast.IfStmt); ok && ifPos == 0 {
			src := strings.Join(strings.Fields(fx.Src(is.Cond)), "")
			if is.Init != nil {
				src = strings.Join(strings.Fields(fx.Src(is.Init)), "") + ";" + src
			}
			all := true
			for _, c := range cond {
				if !strings.Contains(src, c) {
					all = false
				}
			}
			if all {
				ifPos = is.Pos()
			}
		}
		if usePos == 0 && use(n) {
			usePos = n.Pos()
		}
		return true
	})
	g.Bool(name, ifPos != 0 && usePos != 0 && ifPos < usePos)
}

func srcOf(n ast.Node) string { return strings.Join(strings.Fields(fx.Src(n)), "") }

// sliceOf: a slice expression x[lo:hi] whose source (without blanks) contains s
func sliceOf(s string) func(ast.Node) bool {
	return func(n ast.Node) bool {
		se, ok := n.(*ast.SliceExpr)
		return ok && strings.Contains(srcOf(se), s)
	}
}

func indexOf(s string) func(ast.Node) bool {
	return func(n ast.Node) bool {
		ie, ok := n.(*ast.IndexExpr)
		return ok && strings.Contains(srcOf(ie), s)
	}
}

func callOf(s string) func(ast.Node) bool {
	return func(n ast.Node) bool {
		ce, ok := n.(*ast.CallExpr)
		return ok && strings.Contains(srcOf(ce), s)
	}
}

func constNat(g *fx.Group, name, file, ident string) {
	f := fx.Parse(file)
	if f == nil {
		g.Missing(name)
		return
	}
	found := false
	ast.Inspect(f, func(n ast.Node) bool {
		vs, ok := n.(*ast.ValueSpec)
		if !ok {
			return true
		}
		for i, id := range vs.Names {
			if id.Name == ident && i < len(vs.Values) {
				if bl, ok := vs.Values[i].(*ast.BasicLit); ok {
					if v, err := strconv.ParseInt(bl.Value, 0, 64); err == nil {
						g.Nat(name, v)
						found = true
					}
				}
			}
		}
		return true
	})
	if !found {
		g.Missing(name)
	}
}

func Extract() *fx.Group {
	g := fx.NewGroup("Parsers")
	// ---- ext4 ----
	constNat(g, "ext4MinDirEntryLength", "filesystem/ext4/directoryentry.go", "minDirEntryLength")
	constNat(g, "ext4MaxDirEntryLength", "filesystem/ext4/directoryentry.go", "maxDirEntryLength")
	constNat(g, "ext4ExtentHeaderLength", "filesystem/ext4/extent.go", "extentTreeHeaderLength")
	constNat(g, "ext4ExtentEntryLength", "filesystem/ext4/extent.go", "extentTreeEntryLength")
	// rec_len is validated against len(b) and the name length before the entry is sliced out
	guardBefore(g, "ext4DirRecLenChecked", "filesystem/ext4/directoryentry.go", "", "parseDirEntriesLinear",
		[]string{"int(length)<minDirEntryLength", "i+int(length)>len(b)", "int(b[i+0x6])>int(length)"}, callOf("directoryEntryFromBytes(b[i:i+int(length)])"))
	guardBefore(g, "ext4DirHeaderChecked", "filesystem/ext4/directoryentry.go", "", "parseDirEntriesLinear",
		[]string{"i+minDirEntryLength>len(b)"}, sliceOf("b[i+0x4:i+0x6]"))
	// the entry count is validated against len(b) before the entry loops
	guardBefore(g, "ext4ExtentCountChecked", "filesystem/ext4/extent.go", "", "parseExtents",
		[]string{"extentTreeHeaderLength+int(e.entries)*extentTreeEntryLength>len(b)"}, sliceOf("b[start+8:start+12]"))
	// ---- FAT ----
	// CheckGeometry precedes the FAT allocation of fat32.Read; the accepted sector sizes
	guardBefore(g, "fat32AllocAfterGeometry", "filesystem/fat32/fat32.go", "", "Read",
		[]string{"CheckGeometry("}, callOf("make([]byte,fatSize)"))
	guardBefore(g, "fat12AllocAfterGeometry", "filesystem/fat12/fat12.go", "", "Read",
		[]string{"CheckGeometry("}, callOf("make([]byte,fatSize)"))
	guardBefore(g, "fat16AllocAfterGeometry", "filesystem/fat16/fat16.go", "", "Read",
		[]string{"CheckGeometry("}, callOf("make([]byte,fatSize)"))
	{
		f := fx.Parse("filesystem/fat12/fat12.go")
		fd := fx.FindFunc(f, "", "CheckGeometry")
		var sizes []int64
		if fd != nil {
			ast.Inspect(fd.Body, func(n ast.Node) bool {
				sw, ok := n.(*ast.SwitchStmt)
				if !ok || sw.Tag == nil || fx.Src(sw.Tag) != "bytesPerSector" {
					return true
				}
				for _, st := range sw.Body.List {
					cc := st.(*ast.CaseClause)
					for _, e := range cc.List {
						if bl, ok := e.(*ast.BasicLit); ok {
							if v, err := strconv.ParseInt(bl.Value, 0, 64); err == nil {
								sizes = append(sizes, v)
							}
						}
					}
				}
				return false
			})
		}
		if sizes == nil {
			g.Missing("fatSectorSizes")
		} else {
			g.Nats("fatSectorSizes", sizes)
		}
	}
	// fat32: a 64-bit bound on sectorsPerFat*bytesPerSector before the FAT is allocated (finding fat32-fatsize-wrap)
	guardBefore(g, "fat32FatSizeBounded", "filesystem/fat32/fat32.go", "", "Read",
		[]string{"uint64(sectorsPerFat)*uint64(bytesPerSector)>"}, callOf("make([]byte,fatSize)"))
	// ---- iso9660 ----
	guardBefore(g, "isoPathRecordChecked", "filesystem/iso9660/pathtable.go", "", "parsePathTable",
		[]string{"i+8+int(nameSize)>totalSize"}, indexOf("b[i+1]"))
	guardBefore(g, "isoDirRecordChecked", "filesystem/iso9660/directoryentry.go", "", "parseDirEntries",
		[]string{"i+entryLen>len(b)"}, sliceOf("b[i+0:i+entryLen]"))
	guardBefore(g, "isoJolietRecordChecked", "filesystem/iso9660/directoryentry.go", "", "parseDirEntriesJoliet",
		[]string{"i+entryLen>len(b)"}, sliceOf("b[i:i+entryLen]"))
	guardBefore(g, "isoNameChecked", "filesystem/iso9660/directoryentry.go", "", "dirEntryFromBytesWithJoliet",
		[]string{"33+int(namelen)>len(b)"}, sliceOf("b[33:33+int(namelen)]"))
	guardBefore(g, "isoSuspEntryChecked", "filesystem/iso9660/directoryentrysystemuseextension.go", "", "parseDirectoryEntryExtensions",
		[]string{"i+int(size)>len(b)"}, sliceOf("b[i:i+int(size)]"))
	guardBefore(g, "isoErFieldsChecked", "filesystem/iso9660/directoryentrysystemuseextension.go", "", "parseSystemUseExtensionExtensionsReference",
		[]string{"sourceStart+sourceSize>len(b)"}, sliceOf("b[idStart:idStart+idSize]"))
	guardBefore(g, "isoErHeaderChecked", "filesystem/iso9660/directoryentrysystemuseextension.go", "", "parseSystemUseExtensionExtensionsReference",
		[]string{"len(b)<8"}, indexOf("b[4]"))
	// ---- squashfs ----
	guardBefore(g, "sqfsMetaOffsetChecked", "filesystem/squashfs/metadatablock.go", "FileSystem", "readMetadata",
		[]string{"int(byteOffset)>len(m)"}, sliceOf("m[byteOffset:]"))
	guardBefore(g, "sqfsMetaEmptyChecked", "filesystem/squashfs/metadatablock.go", "FileSystem", "readMetadata",
		[]string{"len(m)==0"}, callOf("append(b,m...)"))
	guardBefore(g, "sqfsFragmentIndexChecked", "filesystem/squashfs/squashfs.go", "FileSystem", "readFragment",
		[]string{"len(fs.fragments)-1<int(index)"}, indexOf("fs.fragments[index]"))
	guardBefore(g, "sqfsFragmentFitChecked", "filesystem/squashfs/squashfs.go", "FileSystem", "readFragment",
		[]string{"fragmentSize<0", "int64(offset)+fragmentSize>int64(len(data))"}, sliceOf("data[offset:int64(offset)+fragmentSize]"))
	guardBefore(g, "sqfsIdIndexChecked", "filesystem/squashfs/squashfs.go", "FileSystem", "directoryEntryFromInode",
		[]string{"int(header.uidIdx)>=len(fs.uidsGids)", "int(header.gidIdx)>=len(fs.uidsGids)"}, indexOf("fs.uidsGids[header.uidIdx]"))
	return g
}
