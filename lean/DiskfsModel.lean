import DiskfsModel.Core.Bytes
