import Driver.Util
import DiskfsModel.Model.Ranges
import DiskfsModel.Model.Fat.Emit
import DiskfsModel.Model.Fat.DirCodec
import DiskfsModel.Generated.Fat
import DiskfsModel.Model.RangesExt4
open Diskfs Driver

def regionsStr (rs : List Diskfs.Ranges.Region) : String :=
  if rs.isEmpty then "-" else ",".intercalate (rs.map fun r => s!"{r.off}:{r.len}")

namespace Driver.RangesFat
open Diskfs.Fat

def strName (s : String) : Spec.Name := s.toList.map Char.toNat
/-- payload of `len` bytes determined by `seed` (the engine generates the same bytes) -/
def payload (seed len : Nat) : Bytes := (List.range len).map fun i => UInt8.ofNat ((seed + i * 13) % 251 + 1)
def freezeArr (m : CMap) (n : Nat) : Array Nat := Array.ofFn (n := n) fun i => m i.val
def ofArr (a : Array Nat) (i : Nat) : Nat := a.getD i 0

def wlog (ws : List Wr) : String :=
  let l := (nonEmptyWrs ws).map fun w => s!"{w.off}:{w.data.length}"
  if l.isEmpty then "-" else ",".intercalate l

def geomOf (args : List String) : Option Geom :=
  let size := argNatD args "size"
  match (arg args "kind").getD "12" with
  | "12" => mkGeom12 Generated.Fat.fat12_spc_table size
  | "16" => mkGeom16 Generated.Fat.fat16_spc_table size
  | _ => if argNatD args "fix32" == 1 then mkGeom32Fixed Generated.Fat.fat32_clusterBytes_table size (argNatD args "bs")
         else mkGeom32 Generated.Fat.fat32_clusterBytes_table size (argNatD args "bs")

/-- `ranges.fat`: the write log of Create followed by a call history on the root directory
    (Model/Fat/Emit.lean), as `off:len` lists, plus the model's own range verdict -/
def fatOp (args : List String) : String :=
  match geomOf args with
  | none => "err"
  | some g =>
    let L := Layout.ofGeom g (argNatD args "start") (argNatD args "size")
    let ops : List FOp := (((arg args "ops").getD "-").splitOn ",").filterMap fun s =>
      match s.splitOn ":" with
      | ["c", n] => some (FOp.create (strName n))
      | ["w", n, off, len, seed] => match off.toNat?, len.toNat?, seed.toNat? with
        | some o, some l, some sd => some (FOp.writeAt (strName n) o (payload sd l))
        | _, _, _ => none
      | ["t", n] => some (FOp.truncate (strName n))
      | ["d", n] => some (FOp.remove (strName n))
      | ["r", o, n] => some (FOp.rename (strName o) (strName n))
      | _ => none
    let width := L.max + 2
    let s0 : FState := ⟨fun _ => 0, fun _ => 0, []⟩
    let (_, acc, ws) := ops.foldl (fun (a : FState × List Nat × List Wr) op =>
        let r := fstepW eqFold L width a.1 op
        let arr := freezeArr r.s.m width
        (⟨ofArr arr, r.s.d, r.s.files⟩, a.2.1 ++ [if r.ok then 1 else 0], a.2.2 ++ r.ws)) (s0, [], [])
    let all := L.createWrites ++ ws
    let inside := (nonEmptyWrs all).all fun w => decide (L.start ≤ w.off ∧ w.off + w.data.length ≤ L.start + L.size)
    let accS := if acc.isEmpty then "-" else ",".intercalate (acc.map toString)
    s!"create={wlog L.createWrites}\tacc={accS}\tws={wlog ws}\tinside={if inside then 1 else 0}"

end Driver.RangesFat

namespace Driver.RangesExt4
open Diskfs.Ext4.Mkfs Diskfs.Ranges.Ext4

/-- `ranges.ext4`: every (offset, length, multiplicity) of a real ext4 write log classified against the layout
    the mkfs model computes from the parameters (Model/RangesExt4.lean `classify`), as per-class counts, plus the
    number of writes ending at or below numBlocks × blockSize and the two layout predicates -/
def ext4Op (args : List String) : String :=
  let p : Params := Params.mk (argNatD args "size") (argNatD args "spb") (argNatD args "bpg")
    (argNatD args "iratio") (argNatD args "icount") (argNatD args "logflex")
    (argNatD args "resize" == 1) (argNatD args "flex" == 1) (argNatD args "bit64" == 1)
  match mkLayout p with
  | .error _ => "refused"
  | .ok l =>
    let entries : List (Nat × Nat × Nat) := (((arg args "ws").getD "").splitOn ",").filterMap fun s =>
      match s.splitOn ":" with
      | [a, b, c] => match a.toNat?, b.toNat?, c.toNat? with
        | some x, some y, some z => some (x, y, z)
        | _, _, _ => none
      | _ => none
    let cls := entries.map fun e => (classify l p.flex e.1 e.2.1, e.2.2)
    let count (k : Cls) : Nat := ((cls.filter fun c => c.1 == k).map (·.2)).sum
    let inside := ((entries.filter fun e => decide (e.1 + e.2.1 ≤ l.numBlocks * l.bs)).map (·.2.2)).sum
    let all : List Cls := [.zero, .boot, .sb, .gdt, .rsv, .bbm, .ibm, .itab, .inode, .data, .out]
    let fields := all.map fun k => s!"{k.name}={count k}"
    "\t".intercalate fields ++
      s!"\tinside={inside}\tfits={if decide (Fits l p.flex) then 1 else 0}\tbfit={if decide (BackupsFit l) then 1 else 0}"

end Driver.RangesExt4

namespace Driver.RangesSub
open Diskfs.Ranges

/-- `ranges.sub`: calls through a nest of backend.Sub windows (the window the caller holds first): what the device
    sees for every ReadAt / WriteAt (`err` when the translated offset is negative: the device refuses it) and what
    every Seek returns -/
def subOp (args : List String) : String :=
  let dev := argNatD args "dev"
  let wins : List Win := (((arg args "wins").getD "").splitOn ";").filterMap fun s =>
    match s.splitOn ":" with
    | [a, b] => match a.toNat?, b.toNat? with
      | some x, some y => some ⟨x, y⟩
      | _, _ => none
    | _ => none
  let ops := ((arg args "ops").getD "").splitOn ","
  let step (st : Int × List String) (tok : String) : Int × List String :=
    match tok.splitOn ":" with
    | [k, a, b] =>
      match a.toInt?, b.toInt? with
      | some x, some y =>
        if k == "s" then
          let wh : Whence := if x == 0 then .start else if x == 1 then .current else .«end»
          match subSeek dev wins st.1 wh y with
          | some (np, ret) => (np, st.2 ++ [toString ret])
          | none => (st.1, st.2 ++ ["err"])
        else
          let abs := subAbs wins x
          (st.1, st.2 ++ [if abs < 0 then "err" else s!"{abs}:{y}"])
      | _, _ => (st.1, st.2 ++ ["?"])
    | _ => (st.1, st.2 ++ ["?"])
  let r := ops.foldl step ((0 : Int), [])
  s!"res={",".intercalate r.2}"

end Driver.RangesSub

def main : IO Unit := Driver.runLoop fun op args =>
  match op with
  | "ranges.gpt" =>
    s!"ws={regionsStr (Diskfs.Ranges.gptRegions (argNatD args "lss") (argNatD args "size") (argNatD args "pmbr" == 1))}\tok=1"
  | "ranges.mbr" => s!"ws={regionsStr Diskfs.Ranges.mbrRegions}\tok=1"
  | "ranges.fat" => Driver.RangesFat.fatOp args
  | "ranges.ext4" => Driver.RangesExt4.ext4Op args
  | "ranges.sub" => Driver.RangesSub.subOp args
  | _ => "unknown-op"
