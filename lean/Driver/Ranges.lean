import Driver.Util
import DiskfsModel.Model.Ranges
open Diskfs Driver

def regionsStr (rs : List Diskfs.Ranges.Region) : String :=
  if rs.isEmpty then "-" else ",".intercalate (rs.map fun r => s!"{r.off}:{r.len}")

def main : IO Unit := Driver.runLoop fun op args =>
  match op with
  | "ranges.gpt" =>
    s!"ws={regionsStr (Diskfs.Ranges.gptRegions (argNatD args "lss") (argNatD args "size") (argNatD args "pmbr" == 1))}\tok=1"
  | "ranges.mbr" => s!"ws={regionsStr Diskfs.Ranges.mbrRegions}\tok=1"
  | _ => "unknown-op"
