import Driver.Util
import DiskfsModel.Model.Ext4.ImageSpec
import DiskfsModel.Model.Ext4.ReaderCfg
/-!
  Driver side of the whole-image ops of C20: the SPEC reader (Model/Ext4/ImageSpec.lean) run on a
  reference image given by file path.

    ext4ref.imgwalk path=F [dump=1]  → open result, counts, checksum verdicts and a digest of the sorted
                                       records (path, kinds, inode number, mode, owner, size, links, four
                                       timestamps, link target) of every path below inode 2
    ext4ref.imgfile path=F p=HEXPATH → the record of one path, the digest of its contents (regular file),
                                       its link target and its extended attributes
-/
namespace Driver.Ext4Img
open Diskfs Driver Diskfs.Ext4.Spec Diskfs.Ext4

def fnvBytes (b : Bytes) : Nat := b.foldl fnvStep fnvInit
def fnvString (s : String) : Nat := fnvBytes s.toUTF8.toList

def joinPath (p : List Bytes) : Bytes := (p.intersperse [47]).flatten

/-- time.Unix(sec, nsec) normalises nanoseconds above a second into the seconds -/
def tsStr (t : InodeCodec.Ts) : String :=
  s!"{t.sec + (t.nsec / 1000000000 : Nat)}.{t.nsec % 1000000000}"

def kindOfInode (i : Inode) : String :=
  if i.isDir then "d" else if i.isLnk then "l" else if i.isReg then "f" else "o"

def kindOfDirent (t : Nat) : String :=
  match t with
  | 2 => "d" | 7 => "l" | 0 => "f" | 1 => "f" | _ => "o"

def hexOrDash (b : Bytes) : String := if b.isEmpty then "-" else toHex b

/-- `viaDirEntry`: the record is what DirEntry.Info() reports; as found its mode lacks the permission bits
    (switch regenerated from directoryentry.go) -/
def metaStr (i : Inode) (viaDirEntry : Bool := false) : String :=
  s!"{i.num}|{if viaDirEntry && Reader.dirInfoModeFromTypeCurrent then 0 else i.mode % 4096}|{i.uid}|{i.gid}|{i.size}|{i.links}|{tsStr i.atime}|{tsStr i.mtime}|{tsStr i.ctime}|{tsStr i.crtime}"

def tgtStr : Option Bytes → String
  | none => "-"
  | some t => s!"{t.length}:{fnvBytes t}"

def recStr (r : Rec) : String :=
  s!"{hexOrDash (joinPath r.path)}|{kindOfInode r.ino}|{kindOfDirent r.dtype}|{metaStr r.ino true}|{tgtStr r.target}"

def imgwalkOf (f : Fs) (dump : Bool) : String :=
  match walk f with
  | .error e => s!"walkerr={e}"
  | .ok w =>
    let lines := (w.recs.map recStr).toArray.qsort (· < ·)
    let h := lines.foldl (fun h l => (fnvString l + h * 31) % 4294967296) 7
    let csum := if f.geo.metadataCsum then 1 else 0
    let base := s!"ok\tbs={f.geo.blockSize}\tisz={f.geo.inodeSize}\tgroups={f.geo.groups}\tcsum={csum}\tgdchecked={f.gdChecked}\topenbad={f.openBad}\tn={w.recs.length}\tinodes={w.inodes}\tinodesbad={w.inodesBad}\ttails={if w.tails > 0 then 1 else 0}\ttailsbad={w.tailsBad}\th={h}"
    if dump then base ++ "\trecs=" ++ ";".intercalate lines.toList else base

def bytesLt : Bytes → Bytes → Bool
  | [], [] => false
  | [], _ :: _ => true
  | _ :: _, [] => false
  | a :: as, b :: bs => if a < b then true else if b < a then false else bytesLt as bs

def xaStr (m : List (Bytes × Bytes)) : String :=
  if m.isEmpty then "-" else
  let sorted := m.toArray.qsort (fun a b => bytesLt a.1 b.1)
  ",".intercalate (sorted.toList.map fun p => s!"{toHex p.1}={hexOrDash p.2}")

def splitPath (p : Bytes) : List Bytes :=
  if p.isEmpty then [] else
  (p.foldr (fun c (acc : List Bytes) =>
    if c == 47 then [] :: acc else
    match acc with
    | [] => [[c]]
    | h :: t => (c :: h) :: t) [[]])

def imgfileOf (f : Fs) (p : Bytes) : String :=
  let r : Except String String := do
    let (dt, i) ← lookup f (splitPath p)
    let data ← if i.isReg then (fileDigest f i).map (fun d => s!"{i.size}:{d}") else pure "-"
    let tgt ← if i.isLnk then (linkTarget f i).map some else pure none
    let xa ← readXattrs f i
    return s!"ok\tk={kindOfInode i}\tdt={kindOfDirent dt}\tmeta={metaStr i}\tcsum={if i.csumOk then 1 else 0}\tdata={data}\ttgt={match tgt with | none => "-" | some t => hexOrDash t}\txa={xaStr xa.attrs}\txabad={xa.blockCsumBad}"
  match r with
  | .ok s => s
  | .error e => s!"err={e}"

/-- opened images are kept between cases (the engine's workers emit the cases of several images interleaved) -/
structure Cache where
  entries : List (String × Except String Fs)

def getFs (cache : IO.Ref (Option Cache)) (path : String) : IO (Except String Fs) := do
  let cur := match ← cache.get with
    | some c => c.entries
    | none => []
  match cur.find? (fun e => e.1 == path) with
  | some e => return e.2
  | none =>
    let fs ← try
        let data ← IO.FS.readBinFile path
        pure (openFs ⟨data⟩)
      catch _ => pure (.error "cannot read the image file")
    cache.set (some ⟨(path, fs) :: cur.take 7⟩)
    return fs

def imgwalk (cache : IO.Ref (Option Cache)) (args : List String) : IO String := do
  let some path := arg args "path" | return "bad-input"
  match ← getFs cache path with
  | .error e => return s!"refuse={e}"
  | .ok f => return imgwalkOf f (argNatD args "dump" == 1)

def imgfile (cache : IO.Ref (Option Cache)) (args : List String) : IO String := do
  let some path := arg args "path" | return "bad-input"
  let p := if (arg args "p").getD "-" == "-" then some [] else argHex args "p"
  let some p := p | return "bad-input"
  match ← getFs cache path with
  | .error e => return s!"refuse={e}"
  | .ok f => return imgfileOf f p

end Driver.Ext4Img
