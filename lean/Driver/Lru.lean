import Driver.Util
import DiskfsModel.Model.Lru
import DiskfsModel.Model.LruFile
import DiskfsModel.Generated.Lru
namespace Driver.Lru
open Diskfs Diskfs.Lru Driver

/-- the engine's fetch function: data id of the block at `pos` -/
def disk (pos : Pos) : Data := ((pos * 7919 + 13) % 1000003).toNat

def parseOp (tok : String) : Option Op :=
  let body := (tok.drop 1).toString
  match tok.front, body.toInt? with
  | 'g', some p => some (.get p true)
  | 'f', some p => some (.get p false)
  | 's', some n => some (.setMax n)
  | _, _ => none

def retStr : Ret → String
  | .hit d => s!"h{d}"
  | .miss d => s!"m{d}"
  | .err => "e"
  | .unit => "u"

def stateStr (s : Sys) : String :=
  let o := s.c.order.reverse.map fun r => toString r.1
  s!"{s.c.cache.length}:{if o.isEmpty then "-" else ".".intercalate o}"

/-- run thread `t` until its current operation has returned (at most `fuel` micro-steps) -/
def runOp (slack : Nat) (s : Sys) (t : Tid) (nrets : Nat) : Nat → Sys
  | 0 => s
  | fuel + 1 =>
    match step disk slack s t with
    | none => s
    | some s' =>
      match s'.threads[t]? with
      | some th => if th.rets.length > nrets then s' else runOp slack s' t nrets fuel
      | none => s'

/-- lru.trace max=<int> ops=g<pos>,f<pos>,s<n>,…  (one thread, ops run to completion one by one)
    → per op `<ret>:<len(cache)>:<positions, most recently used first>` -/
def trace (args : List String) : String :=
  let maxB := (argInt args "max").getD 0
  let toks := ((arg args "ops").getD "").splitOn ","
  let ops := toks.filterMap parseOp
  if ops.length != toks.length then "bad-ops" else
  let slack := Generated.Lru.addTrimSlack
  let rec go (s : Sys) (n : Nat) (acc : List String) : Nat → List String
    | 0 => acc.reverse
    | k + 1 =>
      let s' := runOp slack s 0 n 16
      if s'.panicked then (("panic" :: acc).reverse) else
      match s'.threads[0]? with
      | some th =>
        match th.rets.getLast? with
        | some (_, r) =>
          if th.rets.length == n + 1 then go s' (n + 1) (s!"{retStr r}:{stateStr s'}" :: acc) k
          else ("stuck" :: acc).reverse
        | none => ("stuck" :: acc).reverse
      | none => ("nothread" :: acc).reverse
  ",".intercalate (go (init maxB [ops]) 0 [] ops.length)

/-- lru.sched max=<int> progs=<ops>/<ops>/… sched=t,t,t…  : run the N-thread machine on a schedule;
    prints per-thread returns, final cache state, and whether all threads finished / panicked. -/
def sched (args : List String) : String :=
  let maxB := (argInt args "max").getD 0
  let progs := (((arg args "progs").getD "").splitOn "/").map fun p =>
    ((p.splitOn ",").filterMap parseOp)
  let sc := natList ((arg args "sched").getD "-")
  let s := run disk Generated.Lru.addTrimSlack (init maxB progs) sc
  let rets := s.threads.map fun th => ".".intercalate (th.rets.map fun (_, r) => retStr r)
  s!"rets={"/".intercalate rets}\tstate={stateStr s}\tdone={if allDone s then 1 else 0}\tpanic={if s.panicked then 1 else 0}"

/-- macro-step of the forced-interleaving runs: thread `t` moves until its operation returns, or it
    is about to call fetch (parked in the engine's fetch callback), or it cannot move. -/
def advance (slack : Nat) (s : Sys) (t : Tid) : Nat → Sys
  | 0 => s
  | fuel + 1 =>
    match step disk slack s t with
    | none => s
    | some s' =>
      match s'.threads[t]? with
      | some th =>
        match th.pc with
        | .idle => s'
        | .gFetch .. => s'
        | _ => advance slack s' t fuel
      | none => s'

/-- lru.forced max=<int> progs=<ops>/<ops>/… events=t,t,… -/
def forced (args : List String) : String :=
  let maxB := (argInt args "max").getD 0
  let progs := (((arg args "progs").getD "").splitOn "/").map fun p =>
    ((p.splitOn ",").filterMap parseOp)
  let ev := natList ((arg args "events").getD "-")
  let s := ev.foldl (fun s t => advance Generated.Lru.addTrimSlack s t 16) (init maxB progs)
  let rets := s.threads.map fun th => ".".intercalate (th.rets.map fun (_, r) => retStr r)
  s!"rets={"/".intercalate rets}\tstate={stateStr s}\tdone={if allDone s then 1 else 0}\tpanic={if s.panicked then 1 else 0}"

/-! ### lru.handles: N handles (one machine thread each) on real files, calls interleaved one at a time -/

/-- the engine's file contents (harness/engines/lru/handles.go `contentByte`) -/
def contentByte (kind seed i : Nat) : UInt8 :=
  if kind == 0 then UInt8.ofNat ((seed + i * 7 + (i / 256) * 13 + (i / 4096) * 101) % 251)
  else
    let m := 18446744073709551616
    let x := ((i + seed * 7919 + 1) * 0x9E3779B97F4A7C15) % m
    let x := x ^^^ (x >>> 30)
    let x := (x * 0xBF58476D1CE4E5B9) % m
    let x := x ^^^ (x >>> 27)
    UInt8.ofNat ((x >>> 32) % 256)

def content (kind seed size : Nat) : Bytes := (List.range size).map (contentByte kind seed)

def hashBytes (b : Bytes) : Nat := b.foldl (fun h x => (h * 31 + x.toNat) % 4294967296) 7

structure HFile where
  f : FileD
  content : Bytes

def parseInt (s : String) : Int := (s.toInt?).getD 0
def parseNat (s : String) : Nat := (s.toNat?).getD 0

/-- `size:start:<stored.c/stored.c/…|->:<fragpos.fragoff|->:kind.seed` -/
def parseFile (bs : Nat) (s : String) : Option HFile :=
  match s.splitOn ":" with
  | [sz, st, bl, fr, ks] =>
    let blocks : List BlockD := if bl == "-" then [] else (bl.splitOn "/").map fun x =>
      match x.splitOn "." with
      | [a, c] => ⟨parseNat a, c == "1"⟩
      | _ => ⟨0, false⟩
    let frag : Option (Pos × Nat) := match fr.splitOn "." with
      | [p, o] => some (parseInt p, parseNat o)
      | _ => none
    let (kind, seed) := match ks.splitOn "." with
      | [k, sd] => (parseNat k, parseNat sd)
      | _ => (0, 0)
    let size := parseNat sz
    some ⟨⟨bs, size, parseNat st, blocks, frag⟩, content kind seed size⟩
  | _ => none

/-- location of every data block with its index -/
def blockLocs (f : FileD) : List (Nat × Nat) :=
  (f.blocks.foldl (fun (acc : List (Nat × Nat) × Nat × Nat) b => (acc.1 ++ [(acc.2.1, acc.2.2)], acc.2.1 + b.size, acc.2.2 + 1))
    ([], f.start, 0)).1

/-- the image the handles read: data blocks are the files' contents cut at block boundaries (what C07
    says the builder stores), fragment blocks hold the files' tails at their fragment offsets -/
def mkImage (bs : Nat) (files : List HFile) (frags : List (Int × Nat)) : Image × (Pos → Data) :=
  let dev : Nat → Nat → Bool → Bytes := fun loc _ _ =>
    (files.findSome? fun hf =>
      (blockLocs hf.f).findSome? fun (l, i) =>
        if l == loc && (hf.f.blocks.getD i ⟨0, false⟩).size != 0 then some ((hf.content.drop (i * bs)).take bs) else none).getD []
  let fragBytes : List Bytes := frags.map fun (pos, len) =>
    (List.range len).map fun j =>
      (files.findSome? fun hf =>
        match hf.f.frag with
        | some (p, off) =>
          let tail := hf.f.size % bs
          if p == pos && off ≤ j && j < off + tail then some (hf.content.getD (hf.f.blocks.length * bs + (j - off)) 0) else none
        | none => none).getD 0
  let disk : Pos → Data := fun pos => match frags.findIdx? (fun x => x.1 == pos) with
    | some i => i + 1
    | none => 0
  (⟨dev, fun d => if d == 0 then [] else fragBytes.getD (d - 1) []⟩, disk)

/-- run thread `t` (idle, empty program) through one cache call -/
def callOp (dsk : Pos → Data) (slack : Nat) (s : Sys) (t : Tid) (op : Op) : Sys × Ret :=
  match s.threads[t]? with
  | none => (s, .err)
  | some th =>
    let s1 := setThread s t { th with prog := [op] }
    let rec go (s : Sys) : Nat → Sys
      | 0 => s
      | fuel + 1 =>
        match step dsk slack s t with
        | none => s
        | some s' =>
          match s'.threads[t]? with
          | some th' => if th'.rets.length > th.rets.length then s' else go s' fuel
          | none => s'
    let s2 := go s1 16
    match (s2.threads[t]?).bind (·.rets.getLast?) with
    | some (_, r) => (s2, r)
    | none => (s2, .err)

/-- run a client on thread `t`; returns the state, the answer and whether one of its gets was a miss -/
def runClient {ρ} (dsk : Pos → Data) (slack : Nat) (t : Tid) : Client ρ → Sys → Bool → Sys × ρ × Bool
  | .done r, s, m => (s, r, m)
  | .get pos k, s, m =>
    let x := callOp dsk slack s t (.get pos true)
    runClient dsk slack t (k x.2.value) x.1 (m || (match x.2 with | .miss _ => true | _ => false))
  | .setMax n k, s, m =>
    let x := callOp dsk slack s t (.setMax n)
    runClient dsk slack t k x.1 m

def outStr (r : HRes) (miss : Bool) : String :=
  match r.out with
  | .data d eof => s!"r{d.length}:{if eof then "E" else "-"}:{hashBytes d}:d{r.devReads}f{if miss then 1 else 0}"
  | .err d => s!"r{d.length}:x:{hashBytes d}:d{r.devReads}f{if miss then 1 else 0}"
  | .pos (some p) => s!"s{p}"
  | .pos none => "sx"
  | .resized => "c"

def parseHOp (tok : String) : Option (Nat × HOp) :=
  match tok.splitOn "." with
  | [h, o] =>
    let body := (o.drop 1).toString
    match o.front with
    | 'r' => some (parseNat h, .read (parseNat body))
    | 'c' => some (parseNat h, .setCache (parseInt body))
    | _ => none
  | [h, o, off] =>
    let w : Spec.Whence := match (o.drop 1).toString with
      | "0" => .start | "1" => .current | _ => .end_
    if o.front == 's' then some (parseNat h, .seek w (parseInt off)) else none
  | _ => none

/-- lru.handles bs=<n> max=<int|-> pre=<pos,…|-> frags=<pos:len;…|-> files=<file>|<file>… ops=<h>.<op>,…
    → per call `<answer>@<len(cache)>:<positions, most recently used first>`, and `seq=1` iff every handle
    got, call by call, what `handleC` answers for its own program as the only reader -/
def handles (args : List String) : String :=
  let bs := argNatD args "bs" 4096
  let slack := Generated.Lru.addTrimSlack
  let fileToks := ((arg args "files").getD "").splitOn "|"
  let files := fileToks.filterMap (parseFile bs)
  if files.length != fileToks.length then "bad-files" else
  let frags : List (Int × Nat) := match (arg args "frags").getD "-" with
    | "-" => []
    | fs => (fs.splitOn ";").map fun x => match x.splitOn ":" with
      | [p, l] => (parseInt p, parseNat l)
      | _ => (0, 0)
  let (im, dsk) := mkImage bs files frags
  let opToks := match (arg args "ops").getD "-" with
    | "-" => []
    | o => o.splitOn ","
  let ops := opToks.filterMap parseHOp
  if ops.length != opToks.length then "bad-ops" else
  let n := files.length
  -- thread n is the goroutine that opened the handles: its cache calls put the metadata blocks there
  let s0 := init 32768 (List.replicate (n + 1) [])
  let pre : List Int := match (arg args "pre").getD "-" with
    | "-" => []
    | p => (p.splitOn ",").map parseInt
  let s1 := pre.foldl (fun s p => (callOp dsk slack s n (.get p true)).1) s0
  let s2 := match argInt args "max" with
    | some m => (callOp dsk slack s1 n (.setMax m)).1
    | none => s1
  let step1 := fun (acc : Sys × List HSt × List String × List (Nat × HRes)) (x : Nat × HOp) =>
    let (s, hs, outs, log) := acc
    match files[x.1]?, hs[x.1]? with
    | some hf, some h =>
      let cl : Client (HRes × HSt) := match x.2 with
        | .read k => readC im hf.f h k (fun r h' => .done (r, h'))
        | .seek w o => .done (seekH hf.f h w o)
        | .setCache c => .setMax (cacheBlocks hf.f.bs c) (.done (⟨.resized, 0⟩, h))
      let (s', (r, h'), miss) := runClient dsk slack x.1 cl s false
      (s', hs.set x.1 h', s!"{outStr r miss}@{stateStr s'}" :: outs, (x.1, r) :: log)
    | _, _ => (s, hs, "nohandle" :: outs, log)
  let (sEnd, _, outs, log) := ops.foldl step1 (s2, List.replicate n HSt.fresh, [], [])
  let seqOk := (List.range n).all fun t =>
    match files[t]? with
    | some hf =>
      let prog := (ops.filter (·.1 == t)).map (·.2)
      let got := ((log.reverse).filter (·.1 == t)).map (·.2)
      decide ((handleC im hf.f HSt.fresh prog []).result dsk = got)
    | none => false
  s!"{",".intercalate outs.reverse}\tseq={if seqOk then 1 else 0}\tpanic={if sEnd.panicked then 1 else 0}"

end Driver.Lru

def main : IO Unit := Driver.runLoop fun op args =>
  match op with
  | "lru.trace" => Driver.Lru.trace args
  | "lru.sched" => Driver.Lru.sched args
  | "lru.forced" => Driver.Lru.forced args
  | "lru.handles" => Driver.Lru.handles args
  | _ => "unknown-op"
