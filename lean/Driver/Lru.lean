import Driver.Util
import DiskfsModel.Model.Lru
import DiskfsModel.Generated.Lru
namespace Driver.Lru
open Diskfs Diskfs.Lru Driver

/-- the engine's fetch function: data id of the block at `pos` -/
def disk (pos : Pos) : Data := ((pos * 7919 + 13) % 1000003).toNat

def parseOp (tok : String) : Option Op :=
  let body := (tok.drop 1).toString
  match tok.front, body.toInt? with
  | 'g', some p => some (.get p true)
  | 'f', some p => some (.get p false)
  | 's', some n => some (.setMax n)
  | _, _ => none

def retStr : Ret → String
  | .hit d => s!"h{d}"
  | .miss d => s!"m{d}"
  | .err => "e"
  | .unit => "u"

def stateStr (s : Sys) : String :=
  let o := s.c.order.reverse.map fun r => toString r.1
  s!"{s.c.cache.length}:{if o.isEmpty then "-" else ".".intercalate o}"

/-- run thread `t` until its current operation has returned (at most `fuel` micro-steps) -/
def runOp (slack : Nat) (s : Sys) (t : Tid) (nrets : Nat) : Nat → Sys
  | 0 => s
  | fuel + 1 =>
    match step disk slack s t with
    | none => s
    | some s' =>
      match s'.threads[t]? with
      | some th => if th.rets.length > nrets then s' else runOp slack s' t nrets fuel
      | none => s'

/-- lru.trace max=<int> ops=g<pos>,f<pos>,s<n>,…  (one thread, ops run to completion one by one)
    → per op `<ret>:<len(cache)>:<positions, most recently used first>` -/
def trace (args : List String) : String :=
  let maxB := (argInt args "max").getD 0
  let toks := ((arg args "ops").getD "").splitOn ","
  let ops := toks.filterMap parseOp
  if ops.length != toks.length then "bad-ops" else
  let slack := Generated.Lru.addTrimSlack
  let rec go (s : Sys) (n : Nat) (acc : List String) : Nat → List String
    | 0 => acc.reverse
    | k + 1 =>
      let s' := runOp slack s 0 n 16
      if s'.panicked then (("panic" :: acc).reverse) else
      match s'.threads[0]? with
      | some th =>
        match th.rets.getLast? with
        | some (_, r) =>
          if th.rets.length == n + 1 then go s' (n + 1) (s!"{retStr r}:{stateStr s'}" :: acc) k
          else ("stuck" :: acc).reverse
        | none => ("stuck" :: acc).reverse
      | none => ("nothread" :: acc).reverse
  ",".intercalate (go (init maxB [ops]) 0 [] ops.length)

/-- lru.sched max=<int> progs=<ops>/<ops>/… sched=t,t,t…  : run the N-thread machine on a schedule;
    prints per-thread returns, final cache state, and whether all threads finished / panicked. -/
def sched (args : List String) : String :=
  let maxB := (argInt args "max").getD 0
  let progs := (((arg args "progs").getD "").splitOn "/").map fun p =>
    ((p.splitOn ",").filterMap parseOp)
  let sc := natList ((arg args "sched").getD "-")
  let s := run disk Generated.Lru.addTrimSlack (init maxB progs) sc
  let rets := s.threads.map fun th => ".".intercalate (th.rets.map fun (_, r) => retStr r)
  s!"rets={"/".intercalate rets}\tstate={stateStr s}\tdone={if allDone s then 1 else 0}\tpanic={if s.panicked then 1 else 0}"

/-- macro-step of the forced-interleaving runs: thread `t` moves until its operation returns, or it
    is about to call fetch (parked in the engine's fetch callback), or it cannot move. -/
def advance (slack : Nat) (s : Sys) (t : Tid) : Nat → Sys
  | 0 => s
  | fuel + 1 =>
    match step disk slack s t with
    | none => s
    | some s' =>
      match s'.threads[t]? with
      | some th =>
        match th.pc with
        | .idle => s'
        | .gFetch .. => s'
        | _ => advance slack s' t fuel
      | none => s'

/-- lru.forced max=<int> progs=<ops>/<ops>/… events=t,t,… -/
def forced (args : List String) : String :=
  let maxB := (argInt args "max").getD 0
  let progs := (((arg args "progs").getD "").splitOn "/").map fun p =>
    ((p.splitOn ",").filterMap parseOp)
  let ev := natList ((arg args "events").getD "-")
  let s := ev.foldl (fun s t => advance Generated.Lru.addTrimSlack s t 16) (init maxB progs)
  let rets := s.threads.map fun th => ".".intercalate (th.rets.map fun (_, r) => retStr r)
  s!"rets={"/".intercalate rets}\tstate={stateStr s}\tdone={if allDone s then 1 else 0}\tpanic={if s.panicked then 1 else 0}"

end Driver.Lru

def main : IO Unit := Driver.runLoop fun op args =>
  match op with
  | "lru.trace" => Driver.Lru.trace args
  | "lru.sched" => Driver.Lru.sched args
  | "lru.forced" => Driver.Lru.forced args
  | _ => "unknown-op"
