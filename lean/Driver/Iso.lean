import Driver.Util
import DiskfsModel.Model.Iso.Names
import DiskfsModel.Model.Iso.Layout
import DiskfsModel.Model.Iso.Codec
import DiskfsModel.Model.Iso.Reader
import DiskfsModel.Model.Iso.Image
import DiskfsModel.Model.Iso.Writes
import DiskfsModel.Model.Iso.Susp
import DiskfsModel.Generated.Iso
import Driver.IsoX
namespace Driver.Iso
open Diskfs Diskfs.Iso Driver

/-- all orderings of a (short) list -/
def perms : List α → List (List α)
  | [] => [[]]
  | x :: xs => (perms xs).flatMap fun p => (List.range (p.length + 1)).map fun i => p.take i ++ [x] ++ p.drop i

def strOfNats (l : List Nat) : String := if l.isEmpty then "-" else ",".intercalate (l.map toString)

def nmStr (n : Nm) : String := strOfNats n.1 ++ "." ++ strOfNats n.2

/-- "97,98|99" → [[97,98],[99]]; "-" is the empty name -/
def parseNames (s : String) : List Str :=
  if s == "" then [] else (s.splitOn "|").map natList

/-- iso.short n=cp,cp,… → s=… e=… -/
def short (args : List String) : String :=
  let n := natList ((arg args "n").getD "-")
  let r := shortExt n
  s!"s={strOfNats r.1}\te={strOfNats r.2}"

/-- iso.resolve names=…|… dirs=0101 order=i,j,… → r=short.ext;… | err -/
def resolve (args : List String) : String :=
  let names := parseNames ((arg args "names").getD "")
  let dirs := ((arg args "dirs").getD "").toList.map (· == '1')
  let order := natList ((arg args "order").getD "-")
  let orig : Array Nm := ((names.zip dirs).map fun (n, d) => entryName n d).toArray
  let origF : Nat → Nm := fun i => orig.getD i ([], [])
  let keys := order.map origF
  match resolveAll orig.size origF keys origF with
  | none => "r=err"
  | some cur => "r=" ++ ";".intercalate ((List.range orig.size).map fun i => nmStr (cur i))

/-- iso.walk names=… dirs=… got=short.ext;… : is `got` what some processing order of the collision
    groups produces?  (the Go code iterates a map) → match=0|1 -/
def walk (args : List String) : String :=
  let names := parseNames ((arg args "names").getD "")
  let dirs := ((arg args "dirs").getD "").toList.map (· == '1')
  let got := (arg args "got").getD ""
  let orig : Array Nm := ((names.zip dirs).map fun (n, d) => entryName n d).toArray
  let origF : Nat → Nm := fun i => orig.getD i ([], [])
  let n := orig.size
  -- distinct keys with more than one member
  let keys := (List.range n).map origF |>.eraseDups |>.filter fun k => (members n origF k).length > 1
  let render := fun (cur : Nat → Nm) => ";".intercalate ((List.range n).map fun i => nmStr (cur i))
  if keys.length > 5 then "match=skipped" else
  let ok := (perms keys).any fun ord =>
    match resolveAll n origF ord origF with
    | none => false
    | some cur => render cur == got
  s!"match={if ok then 1 else 0}"

/-- iso.walkid names=… dirs=… got=short.ext;… ids=cp,…|cp,… : as iso.walk (some processing order of the
    collision groups explains the names `walkTree` left), and the identifiers the real
    `finalizeFileInfo.Name()` made of them are `isoIdent` of the model's resolved names (SHORT for a
    directory whatever followed the first dot of its host name, SHORT.EXT;1 for a file) and pairwise
    distinct → match=0|1 ids=0|1 distinct=0|1 -/
def walkId (args : List String) : String :=
  let names := parseNames ((arg args "names").getD "")
  let dirs := ((arg args "dirs").getD "").toList.map (· == '1')
  let got := (arg args "got").getD ""
  let ids := parseNames ((arg args "ids").getD "")
  let orig : Array Nm := ((names.zip dirs).map fun (n, d) => entryName n d).toArray
  let origF : Nat → Nm := fun i => orig.getD i ([], [])
  let n := orig.size
  let keys := (List.range n).map origF |>.eraseDups |>.filter fun k => (members n origF k).length > 1
  let render := fun (cur : Nat → Nm) => ";".intercalate ((List.range n).map fun i => nmStr (cur i))
  if keys.length > 5 then "match=skipped" else
  let found := (perms keys).findSome? fun ord =>
    match resolveAll n origF ord origF with
    | none => none
    | some cur => if render cur == got then some ((List.range n).map cur) else none
  match found with
  | none => "match=0\tids=0\tdistinct=0"
  | some cur =>
    let want := (cur.zip dirs).map fun (nm, d) => isoIdent nm d
    let same := want == ids
    let distinct := want.eraseDups.length == want.length
    s!"match=1\tids={if same then 1 else 0}\tdistinct={if distinct then 1 else 0}"

/-- entry syntax: parent:identhex:kind:size:recLen:jlen:ce:selfLen:parLen separated by ';' -/
def parseEnt (s : String) : Option Ent :=
  match s.splitOn ":" with
  | [p, id, k, sz, rl, jl, ce, sl, pl] =>
    some { parent := p.toNat!, ident := ((fromHex id).getD []).map UInt8.toNat, isDir := k == "d", size := sz.toNat!,
           recLen := rl.toNat!, jlen := jl.toNat!, ce := ce.toNat!, selfLen := sl.toNat!, parLen := pl.toNat! }
  | _ => none

/-- iso.layout bs= joliet= rr= ents=… → every location the image must show -/
def layout (args : List String) : String :=
  let bs := argNatD args "bs" 2048
  let joliet := argNatD args "joliet" == 1
  let rr := argNatD args "rr" == 1
  let ents := (((arg args "ents").getD "").splitOn ";").filterMap parseEnt
  let t : Tree := { ents := ents.toArray, rr := rr }
  let L := t.layout bs joliet
  let ext := L.inp.extents
  let nd := L.dirs.length
  let nf := L.files.length
  let dirExt := ext.take nd
  let ptL := (ext.getD nd (0, 0)).1
  let ptM := (ext.getD (nd + 1) (0, 0)).1
  let fileExt := (ext.drop (nd + 2)).take nf
  let jExt := (ext.drop (nd + 2 + nf)).take nd
  let jptL := (ext.getD (nd + 2 + nf + nd) (0, 0)).1
  let jptM := (ext.getD (nd + 2 + nf + nd + 1) (0, 0)).1
  -- report per entry index, ascending
  let dirInfo := (L.dirs.zip (dirExt.zip L.dirSizes)).map fun (d, (e, s)) => (d, e.1, s)
  let fileInfo := (L.files.zip fileExt).map fun (f, e) => (f, e.1)
  let jInfo := (L.dirs.zip (jExt.zip L.jdirSizes)).map fun (d, (e, s)) => (d, e.1, s)
  let sortD := sortBy (fun (a b : Nat × Nat × Nat) => a.1 < b.1)
  let sortF := sortBy (fun (a b : Nat × Nat) => a.1 < b.1)
  let ds := ",".intercalate ((sortD dirInfo).map fun (d, l, s) => s!"{d}:{l}:{s}")
  let fs := ",".intercalate ((sortF fileInfo).map fun (f, l) => s!"{f}:{l}")
  let js := ",".intercalate ((sortD jInfo).map fun (d, l, s) => s!"{d}:{l}:{s}")
  let base := s!"total={L.inp.total}\tptS={L.ptSize}\tptL={ptL}\tptM={ptM}\td={ds}\tf={fs}"
  if joliet then base ++ s!"\tjptS={L.jptSize}\tjptL={jptL}\tjptM={jptM}\tjd={js}" else base

/-- iso.rec loc= size= flags= name=hex date=hex → b=hex -/
def recEnc (args : List String) : String :=
  let r : DirRec := { loc := argNatD args "loc", size := argNatD args "size", flags := UInt8.ofNat (argNatD args "flags"),
                      name := (argHex args "name").getD [], date := (argHex args "date").getD [] }
  s!"b={toHex (encodeRec r)}"

/-- iso.recparse b=hex → loc= size= flags= name= date= | err -/
def recDec (args : List String) : String :=
  match decodeRec ((argHex args "b").getD []) with
  | none => "err"
  | some r => s!"loc={r.loc}\tsize={r.size}\tflags={r.flags.toNat}\tname={toHex r.name}\tdate={toHex r.date}"

/-- iso.pt recs=namehex:loc:parent;… → l=hex m=hex and the decoded table again -/
def pt (args : List String) : String :=
  let recs := (((arg args "recs").getD "").splitOn ";").filterMap fun s =>
    match s.splitOn ":" with
    | [n, l, p] => some ({ name := (fromHex n).getD [], loc := l.toNat!, parent := p.toNat! } : PtRec)
    | _ => none
  let l := encodePtTable false recs
  let m := encodePtTable true recs
  let back := match decodePtTable false (recs.length + 1) l, decodePtTable true (recs.length + 1) m with
    | some a, some b => if a == recs ∧ b == recs then "1" else "0"
    | _, _ => "0"
  s!"l={toHex l}\tm={toHex m}\tback={back}"

/-- iso.blocks size= bs= → n= -/
def blocks (args : List String) : String := s!"n={blocksFor (argNatD args "size") (argNatD args "bs" 2048)}"

/-- iso.read path= base= first= stride= → the view the Lean reader extracts from the real bytes -/
def read (args : List String) : IO String := do
  let some path := arg args "path" | return "err=nopath"
  let img ← IO.FS.readBinFile path
  match readImage img (argNatD args "base") (argNatD args "first" 32768) (argNatD args "stride" 2048) with
  | .error e => return s!"err={e}"
  | .ok r =>
    let ents := sortBy (fun (a b : REnt) => a.path < b.path) r.ents
    let v := ";".intercalate (ents.map fun e =>
      if e.isDir then s!"{e.path}|d|{e.loc}|{e.size}" else s!"{e.path}|f|{e.loc}|{e.size}|{e.crc}")
    return s!"bs={r.bs}\tvol={r.volBlocks}\tptS={r.ptSize}\tptL={r.ptL}\tptM={r.ptM}\troot={r.rootLoc}:{r.rootSize}\tv={v}"

/-! ### whole-image model (Model/Iso/Image.lean) on real plain images -/

def devOf (b : ByteArray) : Dev := fun i => if i < b.size then b.get! i else 0

def pathStr (p : List Bytes) (isDir : Bool) : String :=
  let comps := p.map fun c => String.ofList (c.map fun x => Char.ofNat x.toNat)
  match comps.reverse with
  | [] => "."
  | last :: rest => "/".intercalate ((if isDir then last else stripVersion last) :: rest).reverse

def viewStr (es : List RE) : String :=
  let rows := es.map fun e =>
    let p := pathStr e.path e.isDir
    (p, if e.isDir then s!"{p}|d|{e.loc}|{e.size}" else s!"{p}|f|{e.loc}|{e.size}|{crc32 e.data}")
  ";".intercalate ((sortBy (fun (a b : String × String) => a.1 < b.1) rows).map (·.2))

/-- iso.pvd b=hex(2048 bytes) → the fields `decodePVD` extracts, and whether `encodePVD` of them
    gives the same 2048 bytes again -/
def pvdOp (args : List String) : String :=
  let b := (argHex args "b").getD []
  match decodePVD b with
  | none => "err"
  | some p =>
    s!"vol={p.volSize}\tset={p.setSize}\tseq={p.seqNo}\tbs={p.blocksize}\tptS={p.ptSize}\tptL={p.ptL}\tptM={p.ptM}\troot={p.root.loc}:{p.root.size}\tre={if encodePVD p == b then 1 else 0}"

/-- iso.readp path= first= → the view of the PURE reader `readImageP` (the one `reader_finds_layout` is about) -/
def readP (args : List String) : IO String := do
  let some path := arg args "path" | return "err=nopath"
  let ba ← IO.FS.readBinFile path
  match readImageP (devOf ba) (argNatD args "first" 32768) 64 with
  | none => return "err"
  | some (p, es) =>
    return s!"bs={p.blocksize}\tvol={p.volSize}\tptS={p.ptSize}\tptL={p.ptL}\tptM={p.ptM}\troot={p.root.loc}:{p.root.size}\tv={viewStr es}"

instance : Inhabited PEnt := ⟨{ name := [], isDir := false, loc := 0, size := 0, date := [], content := [] }⟩

structure B where
  ents : Array PEnt
  kids : Array (List Nat)
  par : Array Nat

/-- rebuild the tree (entries with their records' fields, children in record order) from the image -/
partial def scan (img : Dev) (bs : Nat) (b : B) (d : Nat) : Option B := do
  let e := b.ents[d]!
  let recs ← decodeAll (parseExtent bs (2 * e.size + 1) 0 (readAt img (e.loc * bs) e.size))
  match recs with
  | _ :: _ :: ks =>
    let mut b := b
    let mut mine : List Nat := []
    for r in ks do
      let c := b.ents.size
      let isDir := isDirFlag r.flags
      b := { ents := b.ents.push { name := r.name, isDir := isDir, loc := r.loc, size := r.size, date := r.date,
                                   content := if isDir then [] else readAt img (r.loc * bs) r.size },
             kids := b.kids.push [], par := b.par.push d }
      mine := mine ++ [c]
      if isDir then b ← scan img bs b c
    return { b with kids := b.kids.set! d mine }
  | _ => none

def allB (l : List Nat) (p : Nat → Bool) : Bool := l.all p

/-- the hypotheses of `reader_finds_layout` other than `Placed`, as a Bool -/
def hypsOK (i : ImageIn) (fuel : Nat) : Bool :=
  let t := i.t
  let idx := List.range t.n
  let fits : Bool := Id.run do
    -- Fits fuel 0, by levels
    let mut level : List Nat := [0]
    let mut f := fuel
    let mut ok := true
    while !level.isEmpty do
      if f = 0 then ok := false; break
      f := f - 1
      level := level.flatMap fun d => (t.kids d).filter fun c => (t.ent c).isDir
    return ok
  decide (2048 ≤ i.bs) && decide (0 < t.n) && (t.ent 0).isDir && decide (i.pvd.blocksize = i.bs) && decide (i.pvd.root = t.selfRec 0) &&
  allB idx (fun d => (t.kids d).all (· < t.n) && decide (t.parent d < t.n)) &&
  allB idx (fun c => decide ((t.ent c).loc < 2 ^ 32) && decide ((t.ent c).size < 2 ^ 32) && decide ((t.ent c).date.length = 7) && decide ((t.ent c).name.length < 222)) &&
  allB idx (fun c => if (t.ent c).isDir then i.dirs.contains c else i.files.contains c) &&
  allB i.dirs (fun d => decide ((t.ent d).size = (t.dirBytes i.bs d).length)) &&
  allB i.files (fun f => decide ((t.ent f).size = (t.ent f).content.length)) &&
  decide (i.pvd.sysId.length = 32 ∧ i.pvd.volId.length = 32 ∧ i.pvd.volSize < 2 ^ 32 ∧ i.pvd.setSize < 2 ^ 16 ∧ i.pvd.seqNo < 2 ^ 16 ∧
    i.pvd.blocksize < 2 ^ 16 ∧ i.pvd.ptSize < 2 ^ 32 ∧ i.pvd.ptL < 2 ^ 32 ∧ i.pvd.ptLopt < 2 ^ 32 ∧ i.pvd.ptM < 2 ^ 32 ∧ i.pvd.ptMopt < 2 ^ 32 ∧
    i.pvd.root.loc < 2 ^ 32 ∧ i.pvd.root.size < 2 ^ 32 ∧ i.pvd.root.date.length = 7 ∧ i.pvd.root.name.length = 1 ∧ i.pvd.tail.length = 1858) &&
  fits

/-- rebuild the `ImageIn` of a real plain image: PVD, tree scanned from the directory extents, layout
    lists ordered by location, path table bytes as found -/
def loadPlain (path : String) (first : Nat) : IO (Except String ImageIn) := do
  let ba ← IO.FS.readBinFile path
  let img := devOf ba
  let some pvd := decodePVD (readAt img first 2048) | return .error "err=pvd"
  let bs := pvd.blocksize
  let root : PEnt := { name := [0], isDir := true, loc := pvd.root.loc, size := pvd.root.size, date := pvd.root.date, content := [] }
  let some b := scan img bs { ents := #[root], kids := #[[]], par := #[0] } 0 | return .error "err=scan"
  let t : PTree := { n := b.ents.size, ent := fun i => b.ents.getD i root, kids := fun i => b.kids.getD i [], parent := fun i => b.par.getD i 0 }
  let idx := List.range t.n
  -- layout order = by location; an empty file occupies no block and shares its location with what follows
  let key := fun (c : Nat) => 2 * (t.ent c).loc + (if (t.ent c).size > 0 then 1 else 0)
  let byLoc := sortBy (fun (a c : Nat) => key a < key c)
  return .ok { t := t, bs := bs, dirs := byLoc (idx.filter fun c => (t.ent c).isDir),
               files := byLoc (idx.filter fun c => !(t.ent c).isDir),
               pvd := pvd, ptLBytes := readAt img (pvd.ptL * bs) pvd.ptSize, ptMBytes := readAt img (pvd.ptM * bs) pvd.ptSize }

/-- iso.encimg path= first= → the model ENCODES the image from the tree: CRC of every directory
    extent / of the PVD / of the two path tables as `ImageIn.writes` has them, whether the
    locations are `Placed`, whether the other hypotheses of `reader_finds_layout` hold, and (small
    trees) whether the pure reader over the model's own image returns the tree -/
def encImg (args : List String) : IO String := do
  let some path := arg args "path" | return "err=nopath"
  let .ok i ← loadPlain path (argNatD args "first" 32768) | return "err=load"
  let t := i.t
  let bs := i.bs
  let pvd := i.pvd
  let ds := ",".intercalate (i.dirs.map fun d => s!"{(t.ent d).loc}:{crc32 (padBlock bs (t.dirBytes bs d))}")
  let placed := decide (i.mid = seqWr i.bs (dataStartSector + 2) (i.mid.map (·.data)))
  let walkOK : String :=
    if t.n ≤ 12 && ((i.files.map fun f => (t.ent f).size).sum ≤ 6000) then
      -- `i.image` = `applyWrs blank i.writes`; the write list is bound once (not rebuilt for every byte read)
      let ws := i.writes
      (if readImageP (applyWrs blank ws) (16 * bs) 64 == some (pvd, t.walk 64 [] 0) then "1" else "0")
    else "skipped"
  return s!"n={t.n}\td={ds}\tpvd={crc32 (encodePVD pvd)}\tplaced={if placed then 1 else 0}\thyp={if hypsOK i 64 then 1 else 0}\twalk={walkOK}"

/-- iso.wlog path= first= → the WriteAt calls of Finalize as the model issues them (`ImageIn.writesGo`:
    offset:length of every call, in order; empty writes are not calls), the volume size the model
    computes (`ImageIn.volBlocks`) against the one in the PVD, and whether every write ends inside it -/
def wlog (args : List String) : IO String := do
  let some path := arg args "path" | return "err=nopath"
  let .ok i ← loadPlain path (argNatD args "first" 32768) | return "err=load"
  let ws := i.writesGo.filter fun w => w.data.length > 0
  let inside := ws.all fun w => w.off + w.data.length ≤ i.volBlocks * i.bs
  let zeroFill := ws.all fun w => (w.off != 0) || w.data.all (· == 0)
  return s!"n={ws.length}\tvol={i.volBlocks}\tpvdvol={i.pvd.volSize}\tinside={if inside && zeroFill then 1 else 0}\tw={",".intercalate (ws.map fun w => s!"{w.off}:{w.data.length}")}"

/-! ### system use areas (Model/Iso/Susp.lean) -/

def hexOrDash (b : Bytes) : String := if b.isEmpty then "-" else toHex b

def unDash (s : String) : Bytes := if s == "-" || s == "" then [] else (fromHex s).getD []

/-- an extension as the engine names it: `n:<name hex>` is a rockRidgeName (the model makes its NM
    entries), `b:<hex>` are the bytes of any other extension -/
def extBytes (s : String) : Bytes :=
  match s.splitOn ":" with
  | ["n", h] => nmBytes (unDash h)
  | [_, h] => unDash h
  | _ => []

/-- iso.asm exts=k:hex|… max= bs= ce=n,n,… reserve=0|1 → a=hex;hex;… (record area, continuation areas) | err -/
def asmOp (args : List String) : String :=
  let exts := (((arg args "exts").getD "").splitOn "|").filter (· != "") |>.map extBytes
  let ce := natList ((arg args "ce").getD "-")
  match assemble (argNatD args "reserve" 0 == 1) (argNatD args "bs" 2048) (assembleFuel exts) exts (argNatD args "max" 0) ce with
  | none => "err"
  | some as => "a=" ++ ";".intercalate (as.map hexOrDash)

def sigStr (e : SEnt) : String :=
  let bs : Bytes := match e with
    | .nm .. => [78, 77]
    | .sl .. => [83, 76]
    | .ce .. => [67, 69]
    | .other s => s
  String.ofList (bs.map fun x => Char.ofNat x.toNat)

/-- iso.susp area=hex ce=loc:off:hex;… → what the reader makes of a record's system use area, the
    continuation areas being looked up by (block, offset): signatures, name, symlink target -/
def suspOp (args : List String) : String :=
  let area := unDash ((arg args "area").getD "-")
  let tbl : List (Nat × Nat × Bytes) := (((arg args "ce").getD "").splitOn ";").filterMap fun s =>
    match s.splitOn ":" with
    | [l, o, h] => some (l.toNat!, o.toNat!, unDash h)
    | _ => none
  let rd := fun (loc off len : Nat) =>
    match tbl.find? (fun t => t.1 == loc && t.2.1 == off) with
    | some t => t.2.2.take len ++ zeros (len - t.2.2.length)
    | none => zeros len
  match readSusp rd area with
  | none => "err"
  | some es =>
    let nm := match getFilename es with | some n => hexOrDash n | none => "none"
    let tg := match readLink es with | some t => hexOrDash t | none => "none"
    s!"sigs={",".intercalate (es.map sigStr)}\tname={nm}\ttarget={tg}"

/-- iso.ucs2 cps=n,n,… b=hex → enc=hex dec=n,n,… -/
def ucs2Op (args : List String) : String :=
  let cps := natList ((arg args "cps").getD "-")
  let b := unDash ((arg args "b").getD "-")
  let u := Diskfs.Generated.Iso.jolietUtf16   -- the codec the tree has (regenerated fact)
  s!"enc={hexOrDash (jolietEnc u cps)}\tdec={strOfNats (jolietDec u b)}"

/-- iso.ptlookup recs=namehex:loc:parent;… path=hex/hex/… → loc= -/
def ptLookupOp (args : List String) : String :=
  let recs := (((arg args "recs").getD "").splitOn ";").filterMap fun s =>
    match s.splitOn ":" with
    | [n, l, p] => some ({ name := (fromHex n).getD [], loc := l.toNat!, parent := p.toNat! } : PtRec)
    | _ => none
  let parts := (((arg args "path").getD "").splitOn "/").filter (· != "") |>.map unDash
  s!"loc={ptLookup recs parts}"

end Driver.Iso

partial def loop (h : IO.FS.Stream) (out : IO.FS.Stream) : IO Unit := do
  let line ← h.getLine
  if line.isEmpty then return ()
  let line := (line.dropEndWhile (fun c => c == '\n' || c == '\r')).toString
  match line.splitOn "\t" with
  | "case" :: id :: op :: args =>
    let r ← match op with
      | "iso.short" => pure (Driver.Iso.short args)
      | "iso.resolve" => pure (Driver.Iso.resolve args)
      | "iso.walk" => pure (Driver.Iso.walk args)
      | "iso.walkid" => pure (Driver.Iso.walkId args)
      | "iso.layout" => pure (Driver.Iso.layout args)
      | "iso.rec" => pure (Driver.Iso.recEnc args)
      | "iso.recparse" => pure (Driver.Iso.recDec args)
      | "iso.pt" => pure (Driver.Iso.pt args)
      | "iso.blocks" => pure (Driver.Iso.blocks args)
      | "iso.read" => Driver.Iso.read args
      | "iso.pvd" => pure (Driver.Iso.pvdOp args)
      | "iso.readp" => Driver.Iso.readP args
      | "iso.encimg" => Driver.Iso.encImg args
      | "iso.wlog" => Driver.Iso.wlog args
      | "iso.asm" => pure (Driver.Iso.asmOp args)
      | "iso.susp" => pure (Driver.Iso.suspOp args)
      | "iso.ucs2" => pure (Driver.Iso.ucs2Op args)
      | "iso.ptlookup" => pure (Driver.Iso.ptLookupOp args)
      | _ => pure ((Driver.IsoX.dispatch op args).getD "unknown-op")
    out.putStrLn s!"model\t{id}\t{r}"
  | _ => pure ()
  loop h out

def main : IO Unit := do
  let h ← IO.getStdin
  let out ← IO.getStdout
  loop h out
  out.flush
