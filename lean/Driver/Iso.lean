import Driver.Util
import DiskfsModel.Model.Iso.Names
import DiskfsModel.Model.Iso.Layout
import DiskfsModel.Model.Iso.Codec
import DiskfsModel.Model.Iso.Reader
namespace Driver.Iso
open Diskfs Diskfs.Iso Driver

/-- all orderings of a (short) list -/
def perms : List α → List (List α)
  | [] => [[]]
  | x :: xs => (perms xs).flatMap fun p => (List.range (p.length + 1)).map fun i => p.take i ++ [x] ++ p.drop i

def strOfNats (l : List Nat) : String := if l.isEmpty then "-" else ",".intercalate (l.map toString)

def nmStr (n : Nm) : String := strOfNats n.1 ++ "." ++ strOfNats n.2

/-- "97,98|99" → [[97,98],[99]]; "-" is the empty name -/
def parseNames (s : String) : List Str :=
  if s == "" then [] else (s.splitOn "|").map natList

/-- iso.short n=cp,cp,… → s=… e=… -/
def short (args : List String) : String :=
  let n := natList ((arg args "n").getD "-")
  let r := shortExt n
  s!"s={strOfNats r.1}\te={strOfNats r.2}"

/-- iso.resolve names=…|… dirs=0101 order=i,j,… → r=short.ext;… | err -/
def resolve (args : List String) : String :=
  let names := parseNames ((arg args "names").getD "")
  let dirs := ((arg args "dirs").getD "").toList.map (· == '1')
  let order := natList ((arg args "order").getD "-")
  let orig : Array Nm := ((names.zip dirs).map fun (n, d) => entryName n d).toArray
  let origF : Nat → Nm := fun i => orig.getD i ([], [])
  let keys := order.map origF
  match resolveAll orig.size origF keys origF with
  | none => "r=err"
  | some cur => "r=" ++ ";".intercalate ((List.range orig.size).map fun i => nmStr (cur i))

/-- iso.walk names=… dirs=… got=short.ext;… : is `got` what some processing order of the collision
    groups produces?  (the Go code iterates a map) → match=0|1 -/
def walk (args : List String) : String :=
  let names := parseNames ((arg args "names").getD "")
  let dirs := ((arg args "dirs").getD "").toList.map (· == '1')
  let got := (arg args "got").getD ""
  let orig : Array Nm := ((names.zip dirs).map fun (n, d) => entryName n d).toArray
  let origF : Nat → Nm := fun i => orig.getD i ([], [])
  let n := orig.size
  -- distinct keys with more than one member
  let keys := (List.range n).map origF |>.eraseDups |>.filter fun k => (members n origF k).length > 1
  let render := fun (cur : Nat → Nm) => ";".intercalate ((List.range n).map fun i => nmStr (cur i))
  if keys.length > 5 then "match=skipped" else
  let ok := (perms keys).any fun ord =>
    match resolveAll n origF ord origF with
    | none => false
    | some cur => render cur == got
  s!"match={if ok then 1 else 0}"

/-- entry syntax: parent:identhex:kind:size:recLen:jlen:ce:selfLen:parLen separated by ';' -/
def parseEnt (s : String) : Option Ent :=
  match s.splitOn ":" with
  | [p, id, k, sz, rl, jl, ce, sl, pl] =>
    some { parent := p.toNat!, ident := ((fromHex id).getD []).map UInt8.toNat, isDir := k == "d", size := sz.toNat!,
           recLen := rl.toNat!, jlen := jl.toNat!, ce := ce.toNat!, selfLen := sl.toNat!, parLen := pl.toNat! }
  | _ => none

/-- iso.layout bs= joliet= rr= ents=… → every location the image must show -/
def layout (args : List String) : String :=
  let bs := argNatD args "bs" 2048
  let joliet := argNatD args "joliet" == 1
  let rr := argNatD args "rr" == 1
  let ents := (((arg args "ents").getD "").splitOn ";").filterMap parseEnt
  let t : Tree := { ents := ents.toArray, rr := rr }
  let L := t.layout bs joliet
  let ext := L.inp.extents
  let nd := L.dirs.length
  let nf := L.files.length
  let dirExt := ext.take nd
  let ptL := (ext.getD nd (0, 0)).1
  let ptM := (ext.getD (nd + 1) (0, 0)).1
  let fileExt := (ext.drop (nd + 2)).take nf
  let jExt := (ext.drop (nd + 2 + nf)).take nd
  let jptL := (ext.getD (nd + 2 + nf + nd) (0, 0)).1
  let jptM := (ext.getD (nd + 2 + nf + nd + 1) (0, 0)).1
  -- report per entry index, ascending
  let dirInfo := (L.dirs.zip (dirExt.zip L.dirSizes)).map fun (d, (e, s)) => (d, e.1, s)
  let fileInfo := (L.files.zip fileExt).map fun (f, e) => (f, e.1)
  let jInfo := (L.dirs.zip (jExt.zip L.jdirSizes)).map fun (d, (e, s)) => (d, e.1, s)
  let sortD := sortBy (fun (a b : Nat × Nat × Nat) => a.1 < b.1)
  let sortF := sortBy (fun (a b : Nat × Nat) => a.1 < b.1)
  let ds := ",".intercalate ((sortD dirInfo).map fun (d, l, s) => s!"{d}:{l}:{s}")
  let fs := ",".intercalate ((sortF fileInfo).map fun (f, l) => s!"{f}:{l}")
  let js := ",".intercalate ((sortD jInfo).map fun (d, l, s) => s!"{d}:{l}:{s}")
  let base := s!"total={L.inp.total}\tptS={L.ptSize}\tptL={ptL}\tptM={ptM}\td={ds}\tf={fs}"
  if joliet then base ++ s!"\tjptS={L.jptSize}\tjptL={jptL}\tjptM={jptM}\tjd={js}" else base

/-- iso.rec loc= size= flags= name=hex date=hex → b=hex -/
def recEnc (args : List String) : String :=
  let r : DirRec := { loc := argNatD args "loc", size := argNatD args "size", flags := UInt8.ofNat (argNatD args "flags"),
                      name := (argHex args "name").getD [], date := (argHex args "date").getD [] }
  s!"b={toHex (encodeRec r)}"

/-- iso.recparse b=hex → loc= size= flags= name= date= | err -/
def recDec (args : List String) : String :=
  match decodeRec ((argHex args "b").getD []) with
  | none => "err"
  | some r => s!"loc={r.loc}\tsize={r.size}\tflags={r.flags.toNat}\tname={toHex r.name}\tdate={toHex r.date}"

/-- iso.pt recs=namehex:loc:parent;… → l=hex m=hex and the decoded table again -/
def pt (args : List String) : String :=
  let recs := (((arg args "recs").getD "").splitOn ";").filterMap fun s =>
    match s.splitOn ":" with
    | [n, l, p] => some ({ name := (fromHex n).getD [], loc := l.toNat!, parent := p.toNat! } : PtRec)
    | _ => none
  let l := encodePtTable false recs
  let m := encodePtTable true recs
  let back := match decodePtTable false (recs.length + 1) l, decodePtTable true (recs.length + 1) m with
    | some a, some b => if a == recs ∧ b == recs then "1" else "0"
    | _, _ => "0"
  s!"l={toHex l}\tm={toHex m}\tback={back}"

/-- iso.blocks size= bs= → n= -/
def blocks (args : List String) : String := s!"n={blocksFor (argNatD args "size") (argNatD args "bs" 2048)}"

/-- iso.read path= base= first= stride= → the view the Lean reader extracts from the real bytes -/
def read (args : List String) : IO String := do
  let some path := arg args "path" | return "err=nopath"
  let img ← IO.FS.readBinFile path
  match readImage img (argNatD args "base") (argNatD args "first" 32768) (argNatD args "stride" 2048) with
  | .error e => return s!"err={e}"
  | .ok r =>
    let ents := sortBy (fun (a b : REnt) => a.path < b.path) r.ents
    let v := ";".intercalate (ents.map fun e =>
      if e.isDir then s!"{e.path}|d|{e.loc}|{e.size}" else s!"{e.path}|f|{e.loc}|{e.size}|{e.crc}")
    return s!"bs={r.bs}\tvol={r.volBlocks}\tptS={r.ptSize}\tptL={r.ptL}\tptM={r.ptM}\troot={r.rootLoc}:{r.rootSize}\tv={v}"

end Driver.Iso

partial def loop (h : IO.FS.Stream) (out : IO.FS.Stream) : IO Unit := do
  let line ← h.getLine
  if line.isEmpty then return ()
  let line := (line.dropEndWhile (fun c => c == '\n' || c == '\r')).toString
  match line.splitOn "\t" with
  | "case" :: id :: op :: args =>
    let r ← match op with
      | "iso.short" => pure (Driver.Iso.short args)
      | "iso.resolve" => pure (Driver.Iso.resolve args)
      | "iso.walk" => pure (Driver.Iso.walk args)
      | "iso.layout" => pure (Driver.Iso.layout args)
      | "iso.rec" => pure (Driver.Iso.recEnc args)
      | "iso.recparse" => pure (Driver.Iso.recDec args)
      | "iso.pt" => pure (Driver.Iso.pt args)
      | "iso.blocks" => pure (Driver.Iso.blocks args)
      | "iso.read" => Driver.Iso.read args
      | _ => pure "unknown-op"
    out.putStrLn s!"model\t{id}\t{r}"
  | _ => pure ()
  loop h out

def main : IO Unit := do
  let h ← IO.getStdin
  let out ← IO.getStdout
  loop h out
  out.flush
