import Driver.Util
import DiskfsModel.Model.ReadOnly
import DiskfsModel.Generated.ReadOnly
namespace Driver.ReadOnly
open Diskfs Diskfs.ReadOnly Driver

def cfg : Cfg :=
  { fatOpenChecks := Generated.ReadOnly.fatOpenFileChecksWritable,
    ext4OpenChecks := Generated.ReadOnly.ext4OpenFileChecksWritable,
    isoCreateChecks := Generated.ReadOnly.isoCreateChecksWritable,
    sqfsCreateChecks := Generated.ReadOnly.sqfsCreateChecksWritable,
    isoGuards := Generated.ReadOnly.iso9660Guards,
    sqfsGuards := Generated.ReadOnly.squashfsGuards }

def kindOf (s : String) : Option FsKind :=
  match s with
  | "fat12" => some .fat12 | "fat16" => some .fat16 | "fat32" => some .fat32
  | "ext4" => some .ext4 | "iso9660" => some .iso9660 | "squashfs" => some .squashfs
  | _ => none

def opOf (s : String) : Option Op :=
  match s with
  | "partition-gpt" => some .partitionGpt | "partition-mbr" => some .partitionMbr
  | "writepart" => some .writePart
  | "gettable" => some .getTable | "readpart" => some .readPart | "getfs" => some .getFs
  -- further disk-level readers: same class, same answer
  | "getpartition" => some .getTable | "verify-table" => some .getTable
  | "mkdir" => some .mkdir | "mkdir-nested" => some .mkdirNested | "rename" => some .rename
  | "remove" => some .remove | "remove-dirfile" => some .removeDirfile | "setlabel" => some .setLabel
  -- the same calls with the value already there, or retried at once: the model's answer does not depend on arguments
  | "setlabel-current" => some .setLabel | "setlabel-retry" => some .setLabel | "rename-same" => some .rename
  | "chmod-retry" => some .chmod
  | "chmod" => some .chmod | "chown" => some .chown | "chtimes" => some .chtimes | "symlink" => some .symlink
  | "write" => some .write | "write-append" => some .writeAppend
  | "open-rdwr" => some .openRdwr | "open-wronly" => some .openWronly | "open-create" => some .openCreate
  | "open-append" => some .openAppend | "open-trunc" => some .openTrunc
  | "readdir" => some .readDir | "open" => some .open | "open-rdonly" => some .openRdonly | "read" => some .read
  | "stat" => some .stat | "readfile" => some .readFile | "label" => some .label | "open-missing" => some .openMissing
  | _ =>
    if s.startsWith "createfs-" then (kindOf (s.drop 9).toString).map Op.createFs else none

/-- readonly.op kind= ro= fin= ss= op=  →  out=ok|err w=<number of writes> -/
def opCase (args : List String) : String :=
  match kindOf ((arg args "kind").getD ""), opOf ((arg args "op").getD "") with
  | some k, some op =>
    let s : Storage := ⟨argNatD args "ro" == 1⟩
    -- the payload stands for whatever the operation would write if it got a writer
    let r := step cfg s k (argNatD args "fin" == 1) (argNatD args "ss" 512) op [⟨0, [1]⟩]
    let out := match r.out with | .ok => "ok" | .err => "err"
    s!"out={out}\tw={r.writes.length}"
  | _, _ => "unknown"

def genRows : List CtorRow := decodeRows Generated.ReadOnly.ctorTable

/-- readonly.ctor ctor=<0..4|refusing|nowriter> a=<n|default> b=<0|1> handle=<access mode of the caller's handle, file.New only> sub=<depth>
    →  open=ok|refused acc=<O_ACCMODE of the handle|-> w=ok|refused
    Answered from the regenerated constructor table; `sub` wraps the backend in that many backend.Sub. -/
def ctorCase (args : List String) : String :=
  let depth := argNatD args "sub" 0
  -- ob=1: read-only is asked for through diskfs.OpenBackend(b, WithOpenMode(ReadOnly)) (as-found switch regenerated)
  let ob (s : Stor) : Stor :=
    if argNatD args "ob" 0 == 1 then openBackend Generated.ReadOnly.openBackendHonoursMode true s else s
  let wrap (s : Stor) : Stor := ob (subs (List.replicate depth (0, 0)) s)
  let wstr (s : Stor) : String := if (wrap s).toStorage.ro then "refused" else "ok"
  match (arg args "ctor").getD "" with
  | "refusing" => s!"open=ok\tacc=-\tw={wstr .refusing}"
  | "memrw" => s!"open=ok\tacc=-\tw={wstr (.raw false)}"
  | "nowriter" => s!"open=ok\tacc=-\tw={wstr (.rawNoWriter (argNatD args "a" 0 == 1))}"
  | c =>
    let a := match (arg args "a").getD "" with
      | "default" => Generated.ReadOnly.openDefaultMode
      | x => x.toNat!
    match findRow genRows c.toNat! a (argNatD args "b" 0) with
    | none => "no-such-constructor"
    | some r =>
      match r.backend with
      | none => "open=refused\tacc=-\tw=refused"
      | some s =>
        let acc := if r.opened == 1 then accMode r.flags else argNatD args "handle" 0
        s!"open=ok\tacc={acc}\tw={wstr s}"

end Driver.ReadOnly

def main : IO Unit := Driver.runLoop fun op args =>
  match op with
  | "readonly.op" => Driver.ReadOnly.opCase args
  | "readonly.ctor" => Driver.ReadOnly.ctorCase args
  | _ => "unknown-op"
