import Driver.Util
import DiskfsModel.Model.Ext4.ReaderCfg
import DiskfsModel.Model.Ext4.SparseRead
import DiskfsModel.Model.Ext4.InodeLoc
import Driver.Ext4Img
import Driver.Ext4Dec
namespace Driver.Ext4Ref
open Diskfs Driver Diskfs.Ext4.Reader

def resStr {α : Type} (f : α → String) : Res α → String
  | .ok a => "ok\t" ++ f a
  | .err => "err"
  | .panic => "panic"
  | .diverge => "diverge"

/-- "blk:hex;blk:hex" -/
def parseBlocks (s : String) : List (Nat × Bytes) :=
  if s == "-" || s == "" then [] else
  (s.splitOn ";").filterMap fun item =>
    match item.splitOn ":" with
    | [k, h] => match k.toNat?, fromHex h with
      | some n, some b => some (n, b)
      | _, _ => none
    | _ => none

def extStr (es : List Extent) : String :=
  if es.isEmpty then "ex=-" else
  "ex=" ++ ",".intercalate (es.map fun e => s!"{e.fileBlock}:{e.start}:{e.count}")

def flatten (args : List String) : String :=
  match argHex args "root" with
  | none => "bad-input"
  | some root =>
    let blocks := parseBlocks ((arg args "blocks").getD "-")
    let rd := fun (n : Nat) => (blocks.find? fun p => p.1 == n).map Prod.snd
    resStr extStr (Ext4.Reader.flattenC refuseUnwrittenCurrent rd 8 root)

def hexOrDash (b : Bytes) : String := if b.isEmpty then "-" else toHex b

def entStr (es : List DirEnt) : String :=
  if es.isEmpty then "es=-" else
  "es=" ++ ",".intercalate (es.map fun e => s!"{e.inode}:{e.ftype}:{hexOrDash e.name}")

def dirlinear (args : List String) : String :=
  match argHex args "data" with
  | none => "bad-input"
  | some data =>
    resStr entStr (parseLinear Cfg.current (argNatD args "csum" == 1) (argNatD args "bs") data)

def dirhashed (args : List String) : String :=
  match argHex args "data" with
  | none => "bad-input"
  | some data =>
    resStr (fun (p : Nat × List DirEnt) => s!"depth={p.1}\t{entStr p.2}")
      (parseHashedDir Cfg.current (argNatD args "csum" == 1) (argNatD args "largedir" == 1) (argNatD args "bs") data)

def bytesLt : Bytes → Bytes → Bool
  | [], [] => false
  | [], _ :: _ => true
  | _ :: _, [] => false
  | a :: as, b :: bs => if a < b then true else if b < a then false else bytesLt as bs

def insertSorted (x : Bytes × Bytes) : List (Bytes × Bytes) → List (Bytes × Bytes)
  | [] => [x]
  | y :: ys => if bytesLt x.1 y.1 then x :: y :: ys else y :: insertSorted x ys

def xaStr (m : List (Bytes × Bytes)) : String :=
  if m.isEmpty then "xa=-" else
  let sorted := m.foldl (fun acc x => insertSorted x acc) []
  "xa=" ++ ",".intercalate (sorted.map fun p => s!"{toHex p.1}={hexOrDash p.2}")

def xattr (args : List String) : String :=
  match argHex args "entries", argHex args "values" with
  | some e, some v => resStr xaStr (parseXattrs Cfg.current xattrTable e v (e.length + 1) 0 [])
  | _, _ => "bad-input"

def sb (args : List String) : String :=
  match argHex args "sb" with
  | none => "bad-input"
  | some b =>
    match sbDecode (argNatD args "csumok" == 1) b with
    | none => "refuse"
    | some i => s!"ok\tblocks={i.blocks}\tgdsize={i.gdSize}"

def gate (args : List String) : String :=
  s!"accept={if gateAccepts Cfg.current (argNatD args "incompat") then 1 else 0}"

/-! ### File.Read over a sparse extent list -/

/-- "fb:start:cnt,fb:start:cnt" -/
def parseExtents (s : String) : List Extent :=
  if s == "-" || s == "" then [] else
  (s.splitOn ",").filterMap fun item =>
    match (item.splitOn ":").map String.toNat? with
    | [some a, some b, some c] => some ⟨a, b, c⟩
    | _ => none

/-- the byte pattern the engine fills synthetic devices with -/
def patByte (i : Nat) : UInt8 := UInt8.ofNat ((i * 7 + i / 256 * 13 + 5) % 251)

/-- device from "off:hex;off:hex" segments (zero elsewhere) -/
def segDev (segs : Array (Nat × ByteArray)) (i : Nat) : UInt8 :=
  match segs.find? (fun s => s.1 ≤ i && i < s.1 + s.2.size) with
  | some s => s.2.get! (i - s.1)
  | none => 0

def fnv (b : Bytes) : Nat :=
  b.foldl (fun h x => ((h ^^^ x.toNat) * 16777619) % 4294967296) 2166136261

def iosStr (ios : List (Nat × Nat)) : String :=
  if ios.isEmpty then "-" else ".".intercalate (ios.map fun p => s!"{p.1}+{p.2}")

/-- run the Read calls one after the other; stop at the first error or panic -/
def sreadCalls (dev : Dev) (devSize bs : Nat) (es : List Extent) (size : Nat) : List Nat → Nat → List String → List String × Nat
  | [], off, acc => (acc.reverse, off)
  | n :: ns, off, acc =>
    -- File.Read as the tree has it: with or without the guard `if leftInExtent < 0 { continue }` (regenerated)
    match sparseReadC Diskfs.Generated.Ext4Ref.readSkipsExtentBefore dev devSize bs es size off n with
    | .ok r => sreadCalls dev devSize bs es size ns r.off
        (s!"{r.data.length}:{if r.eof then 1 else 0}:{fnv r.data}:{iosStr r.ios}" :: acc)
    | .ioerr k o => ((s!"err:{k}" :: acc).reverse, o)
    | .panic o => (("panic" :: acc).reverse, o)

def sread (args : List String) : String :=
  let es := parseExtents ((arg args "ex").getD "-")
  let segs : Array (Nat × ByteArray) := ((parseBlocks ((arg args "segs").getD "-")).map fun p => (p.1, ByteArray.mk p.2.toArray)).toArray
  let dev : Dev := if argNatD args "pat" == 1 then patByte else segDev segs
  let (calls, off) := sreadCalls dev (argNatD args "devsize") (argNatD args "bs") es (argNatD args "size")
    (natList ((arg args "ns").getD "-")) (argNatD args "off") []
  s!"calls={if calls.isEmpty then "-" else "|".intercalate calls}\tend={off}"

/-! ### group descriptors and inode addressing -/

def gdStr (d : GdInfo) : String :=
  s!"bb={d.blockBitmap}\tib={d.inodeBitmap}\tit={d.inodeTable}\tfb={d.freeBlocks}\tfi={d.freeInodes}\tud={d.usedDirs}\tui={d.unusedInodes}\tex={d.exclBitmap}\tbc={d.blockBitmapCsum}\tic={d.inodeBitmapCsum}\tfl={d.flags % 8}"

def gd (args : List String) : String :=
  match argHex args "d" with
  | none => "bad-input"
  | some b => gdStr (gdDecode b (argNatD args "gdsize"))

def locStr : Option (Nat × Nat) → String
  | some (o, l) => s!"off={o}\tlen={l}"
  | none => "err"

def inoloc (args : List String) : String :=
  match argHex args "gdt" with
  | none => "bad-input"
  | some gdt =>
    locStr (inodeRawLoc ⟨argNatD args "bs", argNatD args "isz", argNatD args "ipg"⟩ gdt (argNatD args "gdsize")
      (argNatD args "devsize") (argNatD args "n"))

def inoloct (args : List String) : String :=
  let g : InoGeo := ⟨argNatD args "bs", argNatD args "isz", argNatD args "ipg"⟩
  match inodeLoc g (natList ((arg args "tables").getD "-")) (argNatD args "n") with
  | none => "err"
  | some (o, l) => if o ≥ argNatD args "devsize" ∨ o + l > argNatD args "devsize" then "err" else locStr (some (o, l))

end Driver.Ext4Ref

def pureOp (op : String) (args : List String) : String :=
  match op with
  | "ext4ref.flatten" => Driver.Ext4Ref.flatten args
  | "ext4ref.dirlinear" => Driver.Ext4Ref.dirlinear args
  | "ext4ref.dirhashed" => Driver.Ext4Ref.dirhashed args
  | "ext4ref.xattr" => Driver.Ext4Ref.xattr args
  | "ext4ref.sb" => Driver.Ext4Ref.sb args
  | "ext4ref.gate" => Driver.Ext4Ref.gate args
  | "ext4ref.inodedec" => Driver.Ext4Dec.inodedec args
  | "ext4ref.dirblock" => Driver.Ext4Dec.dirblock args
  | "ext4ref.gatetbl" => Driver.Ext4Dec.gatetbl args
  | "ext4ref.csumdec" => Driver.Ext4Dec.csumdec args
  | "ext4ref.sread" => Driver.Ext4Ref.sread args
  | "ext4ref.gd" => Driver.Ext4Ref.gd args
  | "ext4ref.inoloc" => Driver.Ext4Ref.inoloc args
  | "ext4ref.inoloct" => Driver.Ext4Ref.inoloct args
  | _ => "unknown-op"

/-- the ops that read a reference image from a file run in IO and share the opened image -/
partial def loop (cache : IO.Ref (Option Driver.Ext4Img.Cache)) (h out : IO.FS.Stream) : IO Unit := do
  let line ← h.getLine
  if line.isEmpty then return ()
  let line := (line.dropEndWhile (fun c => c == '\n' || c == '\r')).toString
  match line.splitOn "\t" with
  | "case" :: id :: op :: args =>
    let r ← match op with
      | "ext4ref.imgwalk" => Driver.Ext4Img.imgwalk cache args
      | "ext4ref.imgfile" => Driver.Ext4Img.imgfile cache args
      | _ => pure (pureOp op args)
    out.putStrLn s!"model\t{id}\t{r}"
  | _ => pure ()
  loop cache h out

def main : IO Unit := do
  let cache ← IO.mkRef (none : Option Driver.Ext4Img.Cache)
  let out ← IO.getStdout
  loop cache (← IO.getStdin) out
  out.flush
