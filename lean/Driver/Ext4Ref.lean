import Driver.Util
import DiskfsModel.Model.Ext4.ReaderCfg
namespace Driver.Ext4Ref
open Diskfs Driver Diskfs.Ext4.Reader

def resStr {α : Type} (f : α → String) : Res α → String
  | .ok a => "ok\t" ++ f a
  | .err => "err"
  | .panic => "panic"
  | .diverge => "diverge"

/-- "blk:hex;blk:hex" -/
def parseBlocks (s : String) : List (Nat × Bytes) :=
  if s == "-" || s == "" then [] else
  (s.splitOn ";").filterMap fun item =>
    match item.splitOn ":" with
    | [k, h] => match k.toNat?, fromHex h with
      | some n, some b => some (n, b)
      | _, _ => none
    | _ => none

def extStr (es : List Extent) : String :=
  if es.isEmpty then "ex=-" else
  "ex=" ++ ",".intercalate (es.map fun e => s!"{e.fileBlock}:{e.start}:{e.count}")

def flatten (args : List String) : String :=
  match argHex args "root" with
  | none => "bad-input"
  | some root =>
    let blocks := parseBlocks ((arg args "blocks").getD "-")
    let rd := fun (n : Nat) => (blocks.find? fun p => p.1 == n).map Prod.snd
    resStr extStr (Ext4.Reader.flatten rd 8 root)

def hexOrDash (b : Bytes) : String := if b.isEmpty then "-" else toHex b

def entStr (es : List DirEnt) : String :=
  if es.isEmpty then "es=-" else
  "es=" ++ ",".intercalate (es.map fun e => s!"{e.inode}:{e.ftype}:{hexOrDash e.name}")

def dirlinear (args : List String) : String :=
  match argHex args "data" with
  | none => "bad-input"
  | some data =>
    resStr entStr (parseLinear Cfg.current (argNatD args "csum" == 1) (argNatD args "bs") data)

def dirhashed (args : List String) : String :=
  match argHex args "data" with
  | none => "bad-input"
  | some data =>
    resStr (fun (p : Nat × List DirEnt) => s!"depth={p.1}\t{entStr p.2}")
      (parseHashedDir Cfg.current (argNatD args "csum" == 1) (argNatD args "largedir" == 1) (argNatD args "bs") data)

def bytesLt : Bytes → Bytes → Bool
  | [], [] => false
  | [], _ :: _ => true
  | _ :: _, [] => false
  | a :: as, b :: bs => if a < b then true else if b < a then false else bytesLt as bs

def insertSorted (x : Bytes × Bytes) : List (Bytes × Bytes) → List (Bytes × Bytes)
  | [] => [x]
  | y :: ys => if bytesLt x.1 y.1 then x :: y :: ys else y :: insertSorted x ys

def xaStr (m : List (Bytes × Bytes)) : String :=
  if m.isEmpty then "xa=-" else
  let sorted := m.foldl (fun acc x => insertSorted x acc) []
  "xa=" ++ ",".intercalate (sorted.map fun p => s!"{toHex p.1}={hexOrDash p.2}")

def xattr (args : List String) : String :=
  match argHex args "entries", argHex args "values" with
  | some e, some v => resStr xaStr (parseXattrs Cfg.current xattrTable e v (e.length + 1) 0 [])
  | _, _ => "bad-input"

def sb (args : List String) : String :=
  match argHex args "sb" with
  | none => "bad-input"
  | some b =>
    match sbDecode (argNatD args "csumok" == 1) b with
    | none => "refuse"
    | some i => s!"ok\tblocks={i.blocks}\tgdsize={i.gdSize}"

def gate (args : List String) : String :=
  s!"accept={if gateAccepts Cfg.current (argNatD args "incompat") then 1 else 0}"

end Driver.Ext4Ref

def main : IO Unit := Driver.runLoop fun op args =>
  match op with
  | "ext4ref.flatten" => Driver.Ext4Ref.flatten args
  | "ext4ref.dirlinear" => Driver.Ext4Ref.dirlinear args
  | "ext4ref.dirhashed" => Driver.Ext4Ref.dirhashed args
  | "ext4ref.xattr" => Driver.Ext4Ref.xattr args
  | "ext4ref.sb" => Driver.Ext4Ref.sb args
  | "ext4ref.gate" => Driver.Ext4Ref.gate args
  | _ => "unknown-op"
