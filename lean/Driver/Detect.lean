import Driver.Util
import DiskfsModel.Model.Detect
import DiskfsModel.Model.DetectFat32
import DiskfsModel.Generated.Detect
namespace Driver.Detect
open Diskfs Diskfs.Detect Driver

/-- the model's parameters are the regenerated facts -/
def params : Params :=
  { f12ReadGe := Generated.Detect.fat12ReadGe, f16ReadLt := Generated.Detect.fat16ReadLt,
    f16ReadGe := Generated.Detect.fat16ReadGe, f12CreateGe := Generated.Detect.fat12CreateGe,
    f16CreateLt := Generated.Detect.fat16CreateLt, f16CreateGe := Generated.Detect.fat16CreateGe,
    spc12 := Generated.Detect.fat12SpcTable, spc12d := Generated.Detect.fat12SpcDefault,
    spc16 := Generated.Detect.fat16SpcTable, spc16d := Generated.Detect.fat16SpcDefault,
    f12Max := Generated.Detect.fat12MaxSize, f16Max := Generated.Detect.fat16MaxSize,
    f32Max := Generated.Detect.fat32MaxSize,
    f12RefuseZero := Generated.Detect.fat12CreateRefusesZeroClusters,
    cb32 := Generated.Detect.fat32ClusterBytesTable, cb32d := Generated.Detect.fat32ClusterBytesDefault }

def order : List Kind := Generated.Detect.fsProbeOrder.filterMap Kind.ofName?

/-- windows "off:hex,off:hex" → read oracle (0 outside every window) -/
def parseWins (s : String) : List (Nat × Array UInt8) :=
  (s.splitOn ",").filterMap fun w =>
    match w.splitOn ":" with
    | [o, h] => match o.toNat?, fromHex h with
      | some off, some b => some (off, b.toArray)
      | _, _ => none
    | _ => none

def mkRd (wins : List (Nat × Array UInt8)) : Dev := fun i =>
  match wins.find? (fun w => w.1 ≤ i && i < w.1 + w.2.size) with
  | some w => w.2.getD (i - w.1) 0
  | none => 0

def vChar : Verdict → Char
  | .accept => '1' | .reject => '0' | .panic => 'p'

def deepOf (s : String) (k : Kind) : Verdict :=
  match (s.toList.getD (Kind.all.idxOf k) '0') with
  | '1' => .accept
  | 'p' => .panic
  | _ => .reject

/-- detect.probe size= avail= ss= win= deep=  →  acc=<one char per kind> probe=<kind|none|panic> -/
def probeCase (args : List String) : String :=
  let rd := mkRd (parseWins ((arg args "win").getD ""))
  let deepS := (arg args "deep").getD "000000"
  let avail := argNatD args "avail"
  -- 'm' in FAT32's position: the engine supplied the FAT windows, the model compares the copies itself
  let deep : Kind → Verdict := fun k =>
    if k == .fat32 && deepS.toList.getD 0 '0' == 'm' then fat32Deep rd avail else deepOf deepS k
  let c : Ctx := { size := argNatD args "size", avail := avail, bs := argNatD args "ss" 512, deep := deep }
  let v := verdict params rd c
  let acc := String.ofList (Kind.all.map fun k => vChar (v k))
  s!"acc={acc}\tprobe={(probe v order).str}"

def shapeStr (ws : List Wr) : String :=
  ",".intercalate ((shape ws).map fun p => s!"{p.1}:{p.2}")

/-- detect.boot kind=fat12|fat16|fat32 size= label=<hex of 11 bytes>
    →  s0=<hex of sector 0> count= spf= spc= (fat32: fsis=<hex of the FSInfo sector> ws=<write list shape>) | refused -/
def bootCase (args : List String) : String :=
  let size := argNatD args "size"
  let label := ((argHex args "label").getD []).map UInt8.toNat
  if (arg args "kind") == some "fat32" then
    match layout32 params size 512 with
    | none => "refused"
    | some L =>
      s!"s0={toHex (sectorBytes (bootFat32 L 0 label) 512)}\tfsis={toHex (sectorBytes fsisFat32 512)}\tspf={L.spf}\tspc={L.spc}\tws={shapeStr (createWrs32 L 0 label [] [])}"
  else
    let is16 := (arg args "kind") == some "fat16"
    match (if is16 then layout16 params size else layout12 params size) with
    | none => "refused"
    | some L => s!"s0={toHex (sectorBytes (bootFat1x is16 L 0 label) 512)}\tcount={L.count}\tspf={L.spf}\tspc={L.spc}"

/-- detect.fat32 size= avail= ss= win=  →  acc32=<0|1|p>: fat32.Read as a whole, nothing observed -/
def fat32Case (args : List String) : String :=
  let rd := mkRd (parseWins ((arg args "win").getD ""))
  let v := verdictFat32Full params rd (argNatD args "size") (argNatD args "avail") (argNatD args "ss" 512)
  s!"acc32={vChar v}"

/-- detect.ext4boot → what ext4.Create does to bytes 0..1023 of the volume (regenerated switch):
    clear=1: the last write touching them is 1024 zero bytes at offset 0 -/
def ext4BootCase (_args : List String) : String :=
  s!"clear={if Generated.Detect.ext4CreateClearsBootArea then 1 else 0}"

/-- detect.table gpt=<gpt.Read accepts> mbr=<mbr.Read accepts> legacy=<sector 0 is a legacy MBR> → table=gpt|mbr|none -/
def tableCase (args : List String) : String :=
  let order : List TableKind :=
    Generated.Detect.tableProbeOrder.filterMap fun s => if s == "gpt" then some .gpt else if s == "mbr" then some .mbr else none
  match tableProbeL Generated.Detect.tableReadChecksLegacyMBR (argNatD args "gpt" 0 == 1) (argNatD args "mbr" 0 == 1)
      (argNatD args "legacy" 0 == 1) order with
  | some .gpt => "table=gpt"
  | some .mbr => "table=mbr"
  | none => "table=none"

end Driver.Detect

def main : IO Unit := Driver.runLoop fun op args =>
  match op with
  | "detect.probe" => Driver.Detect.probeCase args
  | "detect.boot" => Driver.Detect.bootCase args
  | "detect.ext4boot" => Driver.Detect.ext4BootCase args
  | "detect.fat32" => Driver.Detect.fat32Case args
  | "detect.table" => Driver.Detect.tableCase args
  | _ => "unknown-op"
