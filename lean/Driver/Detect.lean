import Driver.Util
import DiskfsModel.Model.Detect
import DiskfsModel.Model.DetectFat32
import DiskfsModel.Model.DetectMid
import DiskfsModel.Model.DetectTable
import DiskfsModel.Model.Ext4.ReaderCfg
import DiskfsModel.Model.Ext4.Mkfs
import DiskfsModel.Model.Sqfs.Regions
import DiskfsModel.Core.Crc
import DiskfsModel.Generated.Detect
namespace Driver.Detect
open Diskfs Diskfs.Detect Driver

/-- the model's parameters are the regenerated facts -/
def params : Params :=
  { f12ReadGe := Generated.Detect.fat12ReadGe, f16ReadLt := Generated.Detect.fat16ReadLt,
    f16ReadGe := Generated.Detect.fat16ReadGe, f12CreateGe := Generated.Detect.fat12CreateGe,
    f16CreateLt := Generated.Detect.fat16CreateLt, f16CreateGe := Generated.Detect.fat16CreateGe,
    spc12 := Generated.Detect.fat12SpcTable, spc12d := Generated.Detect.fat12SpcDefault,
    spc16 := Generated.Detect.fat16SpcTable, spc16d := Generated.Detect.fat16SpcDefault,
    f12Max := Generated.Detect.fat12MaxSize, f16Max := Generated.Detect.fat16MaxSize,
    f32Max := Generated.Detect.fat32MaxSize,
    f12RefuseZero := Generated.Detect.fat12CreateRefusesZeroClusters,
    cb32 := Generated.Detect.fat32ClusterBytesTable, cb32d := Generated.Detect.fat32ClusterBytesDefault }

def order : List Kind := Generated.Detect.fsProbeOrder.filterMap Kind.ofName?

/-- windows "off:hex,off:hex" → read oracle (0 outside every window) -/
def parseWins (s : String) : List (Nat × Array UInt8) :=
  (s.splitOn ",").filterMap fun w =>
    match w.splitOn ":" with
    | [o, h] => match o.toNat?, fromHex h with
      | some off, some b => some (off, b.toArray)
      | _, _ => none
    | _ => none

def mkRd (wins : List (Nat × Array UInt8)) : Dev := fun i =>
  match wins.find? (fun w => w.1 ≤ i && i < w.1 + w.2.size) with
  | some w => w.2.getD (i - w.1) 0
  | none => 0

def vChar : Verdict → Char
  | .accept => '1' | .reject => '0' | .panic => 'p'

def deepOf (s : String) (k : Kind) : Verdict :=
  match (s.toList.getD (Kind.all.idxOf k) '0') with
  | '1' => .accept
  | 'p' => .panic
  | _ => .reject

/-- residual verdict of a reader behind the modelled part, from the stage at which the real reader stopped:
    '1' accepted, 'h' refused inside the modelled part (the model has to refuse by itself), 'd' refused
    behind it, 'u' refused somewhere the engine cannot place, 'p' panicked -/
def residualOf (c : Char) : Verdict :=
  match c with
  | '1' => .accept | 'h' => .accept | 'p' => .panic | _ => .reject

/-- detect.probe size= avail= ss= win= deep=  →  acc=<one char per kind> probe=<kind|none|panic>
    with stg=<one char per kind> csum=<0|1>: the parts of squashfs / ext4 / iso9660 Read of Model/DetectMid.lean
    are computed by the model (stg: see residualOf; fat32 'm' = FAT copies supplied) and
    mid=<iso, squashfs, ext4: does header + modelled part accept: 1|0|?> is appended -/
def probeCase (args : List String) : String :=
  let rd := mkRd (parseWins ((arg args "win").getD ""))
  let avail := argNatD args "avail"
  let size := argNatD args "size"
  let ss := argNatD args "ss" 512
  match arg args "stg" with
  | none =>
    let deepS := (arg args "deep").getD "000000"
    -- 'm' in FAT32's position: the engine supplied the FAT windows, the model compares the copies itself
    let deep : Kind → Verdict := fun k =>
      if k == .fat32 && deepS.toList.getD 0 '0' == 'm' then fat32Deep rd avail else deepOf deepS k
    let c : Ctx := { size := size, avail := avail, bs := ss, deep := deep }
    let v := verdict params rd c
    let acc := String.ofList (Kind.all.map fun k => vChar (v k))
    s!"acc={acc}\tprobe={(probe v order).str}"
  | some stg =>
    let st (k : Kind) : Char := stg.toList.getD (Kind.all.idxOf k) '0'
    let csum := argNatD args "csum" 1 == 1
    let cfg := Ext4.Reader.Cfg.current
    let mk (res : Kind → Verdict) : Ctx :=
      let m := midCtx cfg rd size avail ss csum res
      { m with deep := fun k => if k == .fat32 && st .fat32 != 'm' then deepOf stg .fat32 else m.deep k }
    let v := verdict params rd (mk fun k => residualOf (st k))
    let vAcc := verdict params rd (mk fun _ => .accept)
    let acc := String.ofList (Kind.all.map fun k => vChar (v k))
    let mid := String.ofList ([Kind.iso9660, .squashfs, .ext4].map fun k =>
      if st k == 'u' || st k == 'p' then '?' else vChar (vAcc k))
    s!"acc={acc}\tprobe={(probe v order).str}\tmid={mid}"

def shapeStr (ws : List Wr) : String :=
  ",".intercalate ((shape ws).map fun p => s!"{p.1}:{p.2}")

/-- detect.boot kind=fat12|fat16|fat32 size= label=<hex of 11 bytes>
    →  s0=<hex of sector 0> count= spf= spc= (fat32: fsis=<hex of the FSInfo sector> ws=<write list shape>) | refused -/
def bootCase (args : List String) : String :=
  let size := argNatD args "size"
  let label := ((argHex args "label").getD []).map UInt8.toNat
  if (arg args "kind") == some "fat32" then
    match layout32 params size 512 with
    | none => "refused"
    | some L =>
      s!"s0={toHex (sectorBytes (bootFat32 L 0 label) 512)}\tfsis={toHex (sectorBytes fsisFat32 512)}\tspf={L.spf}\tspc={L.spc}\tws={shapeStr (createWrs32 L 0 label [] [])}"
  else
    let is16 := (arg args "kind") == some "fat16"
    match (if is16 then layout16 params size else layout12 params size) with
    | none => "refused"
    | some L => s!"s0={toHex (sectorBytes (bootFat1x is16 L 0 label) 512)}\tcount={L.count}\tspf={L.spf}\tspc={L.spc}"

/-- detect.fat32 size= avail= ss= win=  →  acc32=<0|1|p>: fat32.Read as a whole, nothing observed -/
def fat32Case (args : List String) : String :=
  let rd := mkRd (parseWins ((arg args "win").getD ""))
  let v := verdictFat32Full params rd (argNatD args "size") (argNatD args "avail") (argNatD args "ss" 512)
  s!"acc32={vChar v}"

/-- detect.ext4boot → what ext4.Create does to bytes 0..1023 of the volume (regenerated switch):
    clear=1: the last write touching them is 1024 zero bytes at offset 0 -/
def ext4BootCase (_args : List String) : String :=
  s!"clear={if Generated.Detect.ext4CreateClearsBootArea then 1 else 0}"

/-- detect.table gpt=<gpt.Read accepts> mbr=<mbr.Read accepts> legacy=<sector 0 is a legacy MBR> → table=gpt|mbr|none -/
def tableCase (args : List String) : String :=
  let order : List TableKind :=
    Generated.Detect.tableProbeOrder.filterMap fun s => if s == "gpt" then some .gpt else if s == "mbr" then some .mbr else none
  match tableProbeL Generated.Detect.tableReadChecksLegacyMBR (argNatD args "gpt" 0 == 1) (argNatD args "mbr" 0 == 1)
      (argNatD args "legacy" 0 == 1) order with
  | some .gpt => "table=gpt"
  | some .mbr => "table=mbr"
  | none => "table=none"

/-- detect.table2 size= ss= win= [cfg=]  →  table=gpt|mbr|none|panic n=<GPT: partitions read> legacy=<0|1>:
    partition.Read over the real acceptance conditions of gpt.Read and mbr.Read (Model/DetectTable.lean) on the
    bytes of the device (sector 0, both headers, both entry arrays) -/
def table2Case (args : List String) : String :=
  let rd := mkRd (parseWins ((arg args "win").getD ""))
  let cfg : Gpt.Cfg := match ((arg args "cfg").getD "11111").toList with
    | [a, b, c, d, e] => ⟨a == '1', b == '1', c == '1', d == '1', e == '1'⟩
    | _ => Gpt.Cfg.fixed
  let r := tableRead Generated.Detect.tableReadChecksLegacyMBR cfg crc32 rd (argNatD args "size") (argNatD args "ss" 512)
  let leg := if legacyMBR rd then 1 else 0
  match r with
  | .gpt t => s!"table=gpt\tn={t.parts.length}\tlegacy={leg}"
  | .mbr _ => s!"table=mbr\tn=-\tlegacy={leg}"
  | .none => s!"table=none\tn=-\tlegacy={leg}"
  | .panic => s!"table=panic\tn=-\tlegacy={leg}"

/-- detect.ext4geo size= spb= bpg= ratio= icount= logflex= resize= flex= bit64=  →  the geometry fields
    ext4.Create puts into the superblock (Model/Ext4/Mkfs.lean layout → ext4MkGeo), whether ext4.Read's validity
    checks accept them for a volume of that size and where it reads the descriptor table | refused -/
def ext4GeoCase (args : List String) : String :=
  let b (k : String) : Bool := argNatD args k 0 == 1
  let p : Ext4.Mkfs.Params :=
    { size := argNatD args "size", spb := argNatD args "spb", bpg := argNatD args "bpg", inodeRatio := argNatD args "ratio",
      inodeCount := argNatD args "icount", logFlex := argNatD args "logflex", resize := b "resize", flex := b "flex",
      bit64 := b "bit64" }
  match Ext4.Mkfs.mkLayout p with
  | .error _ => "refused"
  | .ok l =>
    let m : Ext4Mk := ⟨l.bs, l.numBlocks, l.bpg, l.ipg, l.groups, l.fdb, l.descSize == 64⟩
    let g := ext4MkGeo m 0 (0x40 + (if m.bit64 then 0x80 else 0)) 0
    s!"geo={g.blockSize},{g.inodeSize},{g.inodesPerGroup},{g.blocksPerGroup},{g.firstDataBlock},{g.inodeCount},{g.blockCount},{g.gdSize}\tacc={if Ext4.Spec.readAccepts g p.size then 1 else 0}\tgdt={g.gdtStartGo}:{g.gdSize * g.groupsGo}"

/-- detect.sqfslast → last=<off>:<len>: the last write of squashfs Finalize in the model (Model/Sqfs/Regions.lean
    `finalize`: the superblock, whatever the pieces are) -/
def sqfsLastCase (_args : List String) : String :=
  match (Sqfs.finalize ⟨0, [], [], [], [], [], none, []⟩).writes.getLast? with
  | some w => s!"last={w.1}:{w.2}"
  | none => "last=-"

end Driver.Detect

def main : IO Unit := Driver.runLoop fun op args =>
  match op with
  | "detect.probe" => Driver.Detect.probeCase args
  | "detect.boot" => Driver.Detect.bootCase args
  | "detect.ext4boot" => Driver.Detect.ext4BootCase args
  | "detect.fat32" => Driver.Detect.fat32Case args
  | "detect.table" => Driver.Detect.tableCase args
  | "detect.table2" => Driver.Detect.table2Case args
  | "detect.ext4geo" => Driver.Detect.ext4GeoCase args
  | "detect.sqfslast" => Driver.Detect.sqfsLastCase args
  | _ => "unknown-op"
