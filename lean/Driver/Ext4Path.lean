import Driver.Util
import DiskfsModel.Model.Ext4.PathWalk
/-!
  Driver op of the ext4 path walk mirror (Model/Ext4/PathWalk.lean), linked into vd-ext4ops.

  dirs text: `ino:hexname/ino/type,hexname/ino/type;ino:…` - every directory of the volume with its entries in
  on-disk order, as the engine's own directory parser found them ("." and ".." included).
-/
namespace Driver.Ext4Path
open Diskfs Diskfs.Ext4.PathWalk Driver

def parseEntry (t : String) : Option DEntry :=
  match t.splitOn "/" with
  | [n, i, ty] => match fromHex n, i.toNat?, ty.toNat? with
    | some n, some i, some ty => some ⟨n, i, ty⟩
    | _, _, _ => none
  | _ => none

def parseDirs (s : String) : List (Nat × List DEntry) :=
  if s == "-" || s == "" then [] else
  (s.splitOn ";").filterMap fun d =>
    match d.splitOn ":" with
    | [i, es] => match i.toNat? with
      | some i => some (i, if es == "" then [] else (es.splitOn ",").filterMap parseEntry)
      | none => none
    | _ => none

def dirsOf (tab : List (Nat × List DEntry)) : Dirs := fun i => (tab.find? (fun d => d.1 == i)).map (·.2)

/-- ext4path.lookup: getEntryAndParent on an io/fs-valid path: parent components = all but the last, base = the last -/
def lookupOp (args : List String) : String :=
  let dirs := dirsOf (parseDirs ((arg args "dirs").getD "-"))
  let comps := splitPath ((argHex args "p").getD [])
  match comps.getLast? with
  | none => "empty"
  | some base =>
    match lookup dirs comps.dropLast base with
    | .entry e => s!"entry={e.ino}"
    | .absent => "absent"
    | .noParent => "noparent"

/-- ext4path.split: splitPath -/
def splitOp (args : List String) : String :=
  let comps := splitPath ((argHex args "p").getD [])
  s!"n={comps.length}\tparts={if comps.isEmpty then "-" else ",".intercalate (comps.map toHex)}"

def dispatch (op : String) (args : List String) : Option String :=
  match op with
  | "ext4path.lookup" => some (lookupOp args)
  | "ext4path.split" => some (splitOp args)
  | _ => none

end Driver.Ext4Path
