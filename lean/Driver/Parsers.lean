import Driver.Util
import DiskfsModel.Model.Parsers
open Diskfs Driver Diskfs.Parsers

/-! model driver of engine `parsers` (C18): one op per mirrored parser.
    Results: `ok:<canonical value>` | `err` | `panic` | `fuel`. -/

def outStr {α : Type} (f : α → String) : Out α → String
  | .ok a => "ok:" ++ f a
  | .err => "err"
  | .panic => "panic"
  | .fuel => "fuel"

def hx (b : Bytes) : String := if b.isEmpty then "-" else toHex b
def joinOr (sep : String) (l : List String) : String := if l.isEmpty then "-" else sep.intercalate l

/-- `b=<hex> n=<len>`: the callee sees b[:n] of a slice of capacity len(b) -/
def gsArg (args : List String) : GS :=
  let b := (argHex args "b").getD []
  GS.ofBytesLen b (argNatD args "n" b.length)

def flag (args : List String) (k : String) : Bool := argNatD args k 1 != 0

def direntStr (d : Ext4.DirEnt) : String := s!"{d.inode}/{d.ftype}/{hx d.name}"

def extNodeStr (n : Ext4.ExtNode) : String :=
  let kind := if n.leaf then "leaf" else "int"
  s!"{kind},{n.depth},{n.entries},{n.max};" ++ joinOr ";" (n.rows.map fun r => s!"{r.fileBlock}/{r.count}/{r.disk}")

def bpbArg (args : List String) : Fat.Bpb :=
  { bps := argNatD args "bps", spc := argNatD args "spc", reserved := argNatD args "res",
    fatCount := argNatD args "nfat", spf := argNatD args "spf", rootEntries := argNatD args "root",
    total := argNatD args "total" }

def sizeArg (args : List String) : Int := (argInt args "size").getD 0

def pathStr (e : Iso.PathEnt) : String := s!"{e.nameSize}/{e.ext}/{e.size}/{e.parent}/{e.loc}/{hx e.name}"

def suspStr : Iso.Susp → String
  | .sp k => s!"SP/{k}"
  | .st => "ST"
  | .es q => s!"ES/{q}"
  | .er v a b c => s!"ER/{v}/{hx a}/{hx b}/{hx c}"
  | .pd l => s!"PD/{l}"
  | .ce a b c => s!"CE/{a}/{b}/{c}"
  | .raw sg l v d => s!"raw/{hx sg}/{l}/{v}/{hx d}"

def b01 (b : Bool) : String := if b then "1" else "0"

def recStr (withDate : Bool) (r : Iso.DirRec) : String :=
  let nm := if r.runes.isEmpty then hx r.name else "u" ++ ",".intercalate (r.runes.map toString)
  s!"{r.ext}/{r.loc}/{r.size}/{if withDate then hx r.date else "-"}/{r.flags}/{r.volSeq}/{b01 r.isSelf}{b01 r.isParent}/{nm}/" ++
    joinOr "+" (r.susp.map suspStr)

def isoCfg (args : List String) : Iso.Cfg := { er := flag args "er", joliet := flag args "jol", utf16 := argNatD args "u16" 0 != 0 }

def fragsArg (args : List String) : List Sqfs.Frag :=
  let st := natList ((arg args "starts").getD "-")
  let sz := natList ((arg args "sizes").getD "-")
  let cp := natList ((arg args "comp").getD "-")
  (st.zip (sz.zip cp)).map fun (a, (b, c)) => ⟨a, b, c != 0⟩

def main : IO Unit := Driver.runLoop fun op args =>
  match op with
  | "parsers.ext4dirent" => outStr direntStr (Ext4.dirEntryFromBytes (gsArg args))
  | "parsers.ext4dir" =>
    let b := gsArg args
    outStr (fun l => joinOr ";" (l.map direntStr)) (Ext4.parseDirLinear (flag args "chk") b (b.len / 12 + 2))
  | "parsers.ext4extents" =>
    outStr extNodeStr (Ext4.parseExtents (flag args "chk") (gsArg args) (argNatD args "start") (argNatD args "count"))
  | "parsers.fatgeom" => if Fat.checkGeometry (bpbArg args) (sizeArg args) then "ok" else "err"
  | "parsers.fatread" =>
    let k := if argNatD args "kind" == 16 then Fat.Kind.fat16 else Fat.Kind.fat12
    outStr (fun g => s!"{g.dataStart},{g.bytesPerCluster},{g.fatSize},{g.rootDirOff}")
      (Fat.read1216 (flag args "chk") k (bpbArg args) (sizeArg args))
  | "parsers.fat32geom" =>
    outStr (fun g => s!"{g.fatSize},{g.fatPrimaryStart},{g.fatSecondaryStart},{g.bytesPerCluster}")
      (Fat.read32 (flag args "chk") (flag args "wrap") (bpbArg args) (sizeArg args))
  | "parsers.isopath" =>
    let b := gsArg args
    outStr (fun l => joinOr ";" (l.map pathStr)) (Iso.parsePathTable (flag args "chk") b (b.len / 10 + 2))
  | "parsers.isosusp" =>
    let b := gsArg args
    outStr (fun l => joinOr "+" (l.map suspStr)) (Iso.parseSusp (isoCfg args) b (b.len / 4 + 2))
  | "parsers.isodirent" =>
    let b := gsArg args
    outStr (recStr true) (Iso.dirEntryFromBytes (isoCfg args) (argNatD args "joliet" != 0) b (b.len + 1))
  | "parsers.isodir" =>
    let b := gsArg args
    outStr (fun l => joinOr ";" (l.map (recStr false)))
      (Iso.parseDirEntries (isoCfg args) (argNatD args "joliet" != 0) (argNatD args "bs") b (b.len + 1))
  | "parsers.sqmeta" =>
    let dev := (argHex args "dev").getD []
    let size := argNatD args "size"
    outStr hx (Sqfs.readMetadata (flag args "chk") dev (argNatD args "first") (argNatD args "boff")
      (argNatD args "off") size (size + 1))
  | "parsers.sqfragentry" =>
    outStr (fun f => s!"{f.start}/{f.size}/{b01 f.compressed}") (Sqfs.parseFragmentEntry (gsArg args))
  | "parsers.sqfrag" =>
    let dev := (argHex args "dev").getD []
    outStr (fun (d, a) => s!"{hx d}/{a}")
      (Sqfs.readFragment (flag args "chk") dev (fragsArg args) (argNatD args "index") (argNatD args "off")
        ((argInt args "fsize").getD 0))
  | "parsers.sqid" =>
    outStr (fun (u, g) => s!"{u}/{g}")
      (Sqfs.idLookup (flag args "chk") (natList ((arg args "ids").getD "-")) (argNatD args "uid") (argNatD args "gid"))
  | _ => "unknown-op"
