import Driver.Util
import DiskfsModel.Model.Ext4.Mkfs
import DiskfsModel.Model.Ext4.MkfsBitmap
namespace Driver.Ext4Mkfs
open Diskfs.Ext4.Mkfs Driver

/-- maximal runs of set bits as `pos+count`, comma separated -/
def runsOf (bits : List Bool) : String :=
  let step := fun (st : Nat × Option Nat × List String) (b : Bool) =>
    let (pos, from?, acc) := st
    match b, from? with
    | true, none => (pos + 1, some pos, acc)
    | true, some f => (pos + 1, some f, acc)
    | false, some f => (pos + 1, none, s!"{f}+{pos - f}" :: acc)
    | false, none => (pos + 1, none, acc)
  let (pos, from?, acc) := bits.foldl step (0, none, [])
  let acc := match from? with
    | some f => s!"{f}+{pos - f}" :: acc
    | none => acc
  ",".intercalate acc.reverse

def layout (args : List String) : String :=
  let p : Params := Params.mk (argNatD args "size") (argNatD args "spb") (argNatD args "bpg")
    (argNatD args "iratio") (argNatD args "icount") (argNatD args "logflex")
    (argNatD args "resize" == 1) (argNatD args "flex" == 1) (argNatD args "bit64" == 1)
  match mkLayout p with
  | .error _ => "refused"
  | .ok l =>
    let bb := (List.range l.groups).map fun g => toString (metaBase l p.flex g)
    let fits := decide (Fits l p.flex)
    -- the group bitmaps (mkBitmaps, restricted to the real blocks of each group) and the descriptors' free counts
    let used := if fits then
        ";".intercalate ((List.range l.groups).map fun g =>
          runsOf ((List.range (blocksInGroup l g)).map (markedBit l p.flex g)))
      else "-"
    let free := if fits then
        ",".intercalate ((List.range l.groups).map fun g => toString (initialFree l p.flex g))
      else "-"
    s!"bs={l.bs}\tnb={l.numBlocks}\tbpg={l.bpg}\tgroups={l.groups}\tipg={l.ipg}\ticount={l.inodeCount}\tfdb={l.fdb}\trsv={l.rsvGdt}\tbb={",".intercalate bb}\tfits={if fits then 1 else 0}\tused={used}\tfree={free}"

end Driver.Ext4Mkfs

def main : IO Unit := Driver.runLoop fun op args =>
  match op with
  | "ext4mkfs.layout" => Driver.Ext4Mkfs.layout args
  | _ => "unknown-op"
