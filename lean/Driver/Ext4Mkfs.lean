import Driver.Util
import DiskfsModel.Model.Ext4.Mkfs
namespace Driver.Ext4Mkfs
open Diskfs.Ext4.Mkfs Driver

def layout (args : List String) : String :=
  let p : Params := Params.mk (argNatD args "size") (argNatD args "spb") (argNatD args "bpg")
    (argNatD args "iratio") (argNatD args "icount") (argNatD args "logflex")
    (argNatD args "resize" == 1) (argNatD args "flex" == 1) (argNatD args "bit64" == 1)
  match mkLayout p with
  | .error _ => "refused"
  | .ok l =>
    let bb := (List.range l.groups).map fun g => toString (metaBase l p.flex g)
    s!"bs={l.bs}\tnb={l.numBlocks}\tbpg={l.bpg}\tgroups={l.groups}\tipg={l.ipg}\ticount={l.inodeCount}\tfdb={l.fdb}\trsv={l.rsvGdt}\tbb={",".intercalate bb}\tfits={if decide (Fits l p.flex) then 1 else 0}"

end Driver.Ext4Mkfs

def main : IO Unit := Driver.runLoop fun op args =>
  match op with
  | "ext4mkfs.layout" => Driver.Ext4Mkfs.layout args
  | _ => "unknown-op"
