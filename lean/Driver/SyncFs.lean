import Driver.Util
import DiskfsModel.Model.Sync
import DiskfsModel.Model.SyncFault
import DiskfsModel.Generated.SyncFs
/-!
  Model driver for the syncfs engine (C16).

  syncfs.copy    readlink=0|1 tree=<enc>            → ok=0|1 ops=<op log>
  syncfs.compare ra=<beh> rb=<beh> a=<enc> b=<enc>  → res=ok|<kind>:<path>
  syncfs.big     size=N                             → writes= full= last= sum=   (streaming path, sizes only)
  syncfs.copyfault readlink= tree= plan=<plan>      → ok=0|1 ops=<calls issued>  (Model/SyncFault.lean)
  syncfs.bigfault  size=N rb=<beh> plan=<plan>      → ok= writes= last= sum=     (streaming path under a fault plan)
  plan: at:K:fail | at:K:short:N | caps:a,b,…  (outcome of the K-th destination call / every Write takes at most caps[i mod n] bytes)

  Tree text: tokens joined by "/":  D<name> … E | F<size>:<pat>[@pos=val]:<name> | L<target, / as |>:<name> | O<name>.
  File content is the function the harness uses: byte i = pat + i + 3*(i/256) + 5*(i/65536) (mod 256),
  optionally with one byte replaced.
-/
namespace Driver.SyncFs
open Diskfs Diskfs.Sync Driver

/-- the model's parameters are the regenerated facts -/
def cfg : Cfg :=
  { excluded := Generated.SyncFs.excludedPaths, maxAll := Generated.SyncFs.maxCopyAllSize,
    chunk := Generated.SyncFs.copyChunkSize, cmpBuf := Generated.SyncFs.compareBufSize }

def patData (size pat : Nat) : Bytes :=
  (List.range size).map fun i => UInt8.ofNat (pat + i + 3 * (i / 256) + 5 * (i / 65536))

def fileData (spec : String) : Bytes :=
  match spec.splitOn "@" with
  | [sp] =>
    match sp.splitOn ":" with
    | [sz, pat] => patData sz.toNat! pat.toNat!
    | _ => []
  | [sp, m] =>
    match sp.splitOn ":", m.splitOn "=" with
    | [sz, pat], [pos, val] => (patData sz.toNat! pat.toNat!).set pos.toNat! (UInt8.ofNat val.toNat!)
    | _, _ => []
  | _ => []

/-- split "a:b:rest" at the first two / one colon(s) -/
def cut (s : String) : String × String :=
  match s.splitOn ":" with
  | a :: rest => (a, ":".intercalate rest)
  | [] => ("", "")

/-- parse the entries of one directory; returns the forest and the remaining tokens (after the closing `E`) -/
partial def parseEntries : List String → Forest × List String
  | [] => (.nil, [])
  | tok :: rest =>
    if tok == "E" then (.nil, rest)
    else
      let kind := tok.take 1
      let body := (tok.drop 1).toString
      if kind == "D" then
        let (sub, rest1) := parseEntries rest
        let (sib, rest2) := parseEntries rest1
        (.dir body sub sib, rest2)
      else if kind == "F" then
        let (sz, r1) := cut body
        let (pat, name) := cut r1
        let (sib, rest2) := parseEntries rest
        (.file name (fileData (sz ++ ":" ++ pat)) sib, rest2)
      else if kind == "L" then
        let (tgt, name) := cut body
        let (sib, rest2) := parseEntries rest
        (.link name (tgt.replace "|" "/") sib, rest2)
      else if kind == "O" then
        let (sib, rest2) := parseEntries rest
        (.other body sib, rest2)
      else parseEntries rest

def parseTree (s : String) : Forest :=
  if s == "-" || s == "" then .nil else (parseEntries (s.splitOn "/")).1

def pathStr (p : Path) : String := if p.isEmpty then "." else "/".intercalate p

def fnv32 (b : Bytes) : Nat :=
  b.foldl (fun h x => ((h ^^^ x.toNat) * 16777619) % 4294967296) 2166136261

def hex8 (n : Nat) : String :=
  let ds := Nat.toDigits 16 n
  String.ofList (List.replicate (8 - ds.length) '0' ++ ds)

def opStr : DstOp → String
  | .mkdir p => s!"mkdir:{pathStr p}"
  | .openTrunc p => s!"open:{pathStr p}:create+trunc+rdwr"
  | .write p d => s!"write:{pathStr p}:{d.length}:{hex8 (fnv32 d)}"
  | .chtimes p => s!"chtimes:{pathStr p}"
  | .symlink p t => s!"symlink:{pathStr p}:{t.replace "/" "|"}"

def copy (args : List String) : String :=
  let t := parseTree ((arg args "tree").getD "-")
  let rl := argNatD args "readlink" 1 == 1
  let r := copyOps cfg (fullReader) rl t
  let ops := if r.1.isEmpty then "-" else ";".intercalate (r.1.map opStr)
  s!"ok={if r.2 then 1 else 0}\tops={ops}"

def parseBeh (s : String) : ReaderBehaviour :=
  match s.splitOn "|" with
  | [caps, e] => if caps == "full" then fullReader (e == "1") else cycleReader (natList caps) (e == "1")
  | _ => fullReader

def resStr : CmpResult → String
  | .ok => "ok"
  | .missing p => s!"missing:{pathStr p}"
  | .typeMismatch p => s!"type:{pathStr p}"
  | .sizeMismatch p => s!"size:{pathStr p}"
  | .contentMismatch p => s!"content:{pathStr p}"
  | .extra p => s!"extra:{pathStr p}"
  | .unsupported p => s!"unsupported:{pathStr p}"

def compare (args : List String) : String :=
  let a := parseTree ((arg args "a").getD "-")
  let b := parseTree ((arg args "b").getD "-")
  let ra := parseBeh ((arg args "ra").getD "full|0")
  let rb := parseBeh ((arg args "rb").getD "full|0")
  s!"res={resStr (compareFS cfg ra rb a b)}"

def big (args : List String) : String :=
  let size := argNatD args "size"
  let lens := fileWriteLens cfg (parseBeh ((arg args "rb").getD "full|0")) size
  let full := (lens.filter (· == 32768)).length
  let sum := lens.foldl (· + ·) 0
  s!"writes={lens.length}\tfull={full}\tlast={lens.getLast?.getD 0}\tsum={sum}"

/-- the fault plans the engine uses -/
def parsePlan (s : String) : Plan :=
  match s.splitOn ":" with
  | ["at", k, "fail"] => planAt k.toNat! .fail
  | ["at", k, "short", n] => planAt k.toNat! (.short n.toNat!)
  | ["caps", cs] => planCaps (natList cs)
  | _ => fun _ => .ok

def copyFault (args : List String) : String :=
  let t := parseTree ((arg args "tree").getD "-")
  let rl := argNatD args "readlink" 1 == 1
  let r := copyRunF cfg fullReader rl (parsePlan ((arg args "plan").getD "-")) t
  let ops := if r.log.isEmpty then "-" else ";".intercalate (r.log.map fun e => opStr e.1)
  s!"ok={if r.ok then 1 else 0}\tops={ops}"

/-- the synthetic source is one directory `d` holding `big.img`: Mkdir is call 0, OpenFile call 1, the Writes start at call 2 -/
def bigFault (args : List String) : String :=
  let size := argNatD args "size"
  let lens := fileWriteLens cfg (parseBeh ((arg args "rb").getD "full|0")) size
  let r := streamLensF (parsePlan ((arg args "plan").getD "-")) lens 2
  let sum := r.1.foldl (· + ·) 0
  s!"ok={if r.2.1 then 1 else 0}\twrites={r.1.length}\tlast={r.1.getLast?.getD 0}\tsum={sum}"

end Driver.SyncFs

def main : IO Unit := Driver.runLoop fun op args =>
  match op with
  | "syncfs.copy" => Driver.SyncFs.copy args
  | "syncfs.compare" => Driver.SyncFs.compare args
  | "syncfs.big" => Driver.SyncFs.big args
  | "syncfs.copyfault" => Driver.SyncFs.copyFault args
  | "syncfs.bigfault" => Driver.SyncFs.bigFault args
  | _ => "unknown-op"
