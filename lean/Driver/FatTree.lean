/-
  Driver op `fat.tree`: a path-addressed call history on the TREE model of a FAT volume
  (Model/Fat/TreeFs.lean: table + device + a tree of nodes each owning a cluster chain).
  Per call the outcome class; after every call a digest of the whole listing (directory order,
  every node's owned clusters, every file's size and content digest) and the number of used
  clusters; at the end the listing in full and the table.
  Core Lean only.
-/
import Driver.Util
import DiskfsModel.Model.Fat.TreeFs
import DiskfsModel.Model.Fat.DirCodec
import DiskfsModel.Model.Fat.TreeImg
namespace Driver.FatTree
open Diskfs Diskfs.Fat Driver

def kindOf (s : String) : Kind := if s == "12" then .f12 else if s == "16" then .f16 else .f32

def pairs (s : String) : List (Nat × Nat) :=
  if s == "-" || s == "" then [] else
  (s.splitOn ",").filterMap fun p =>
    match p.splitOn ":" with
    | [a, b] => match a.toNat?, b.toNat? with
      | some x, some y => some (x, y)
      | _, _ => none
    | _ => none

def cmapOf (ps : List (Nat × Nat)) : CMap := fun i =>
  match ps.find? (fun p => p.1 == i) with
  | some p => p.2
  | none => 0

def freezeArr (m : CMap) (n : Nat) : Array Nat := Array.ofFn (n := n) fun i => m i.val
def ofArr (a : Array Nat) (i : Nat) : Nat := a.getD i 0
def nonzero (m : CMap) (lo hi : Nat) : String :=
  let l := (List.range' lo (hi - lo)).filterMap fun i => if m i ≠ 0 then some s!"{i}:{m i}" else none
  if l.isEmpty then "-" else ",".intercalate l
def usedCount (m : CMap) (lo hi : Nat) : Nat :=
  ((List.range' lo (hi - lo)).filter fun i => m i ≠ 0).length

def natsStr (l : List Nat) : String := if l.isEmpty then "-" else ",".intercalate (l.map toString)
def strName (s : String) : Spec.Name := s.toList.map Char.toNat
def nameStr (n : Spec.Name) : String := String.ofList (n.map Char.ofNat)
def pathOf (s : String) : List Spec.Name := ((s.splitOn "/").filter (· ≠ "")).map strName
def payload (seed len : Nat) : Bytes := (List.range len).map fun i => UInt8.ofNat ((seed + i * 13) % 251 + 1)

/-- 32-byte slots of an entry named `n`: the 8.3 entry plus `calculateSlots` of the long name
    (`createEntry` / `renameEntry` keep a long name exactly when `convertLfnSfn` says so) -/
def slotsOf (n : Spec.Name) : Nat :=
  let r := convertLfnSfn n
  if r.isLFN || r.isTruncated then 1 + (utf8Len n + 12) / 13 else 1

/-- how `createEntry` / `renameEntry` spell a name that collides with no other 8.3 form in its
    directory: `convertLfnSfn`, the numeric tail `~1` when the stem was cut, the long name kept
    exactly when the 8.3 form loses something; the lower-case bits are never set by the code -/
def encOf (n : Spec.Name) : NameEnc :=
  let r := convertLfnSfn n
  if r.isTruncated then ⟨uniqueShortName (r.short.take 6) r.ext [], r.ext, n, 0⟩
  else ⟨r.short, r.ext, if r.isLFN then n else [], 0⟩

def zeroMeta : EntMeta := ⟨0, 0, 0, 0, 0, 0⟩

/-- the image parameters of a run: all date/time words zero (the engine masks them in the real
    bytes), no attribute bits, the volume label entry as the fresh root directory holds it -/
def imgParams (enc : Spec.Name → NameEnc) (rootPre : List DirEntry) (rootPar : Nat) : ImgParams :=
  { enc := enc, stamp := fun _ => zeroMeta, dotMeta := zeroMeta, rootPre := rootPre, rootPar := rootPar }

/-- the bytes of every directory of the volume as `image` holds them: the root first (fixed
    region or chain), then every subdirectory in listing order -/
def dirImages (X : ImgParams) (g : TGeom) (s : DirSt) : List Bytes :=
  (rootWrs X g s).map (·.data) ++ (rootJobs X g s).map (·.2)

/-- the digest both sides compute: over bytes, and over the characters of a listing -/
def digestNats (l : List Nat) : Nat := l.foldl (fun h b => (h * 131 + b + 1) % 1000000007) 7
def digestBytes (b : Bytes) : Nat := b.foldl (fun h x => (h * 131 + x.toNat + 1) % 1000000007) 7
def digestStr (s : String) : Nat := digestNats (s.toList.map Char.toNat)

/-! the device is materialised after every call: one byte array per cluster that is in use (or
    was when it was last written).  Extensionally the model's device on the data area, which is
    all `chainBytes` reads; lookups stay O(1) however long the history. -/
abbrev Frozen := Array (Option ByteArray)

def frozenDev (io : IOGeom) (fz : Frozen) : Dev := fun i =>
  let base := io.start + io.dataStart
  if i < base || io.bpc = 0 then 0 else
    let c := (i - base) / io.bpc + 2
    match fz.getD c none with
    | some b => b.get! ((i - base) % io.bpc)
    | none => 0

def refreeze (io : IOGeom) (d : Dev) (m : CMap) (n : Nat) (old : Frozen) : Frozen :=
  Array.ofFn (n := n) fun c =>
    if c.val ≥ 2 ∧ m c.val ≠ 0 then
      some (ByteArray.mk (Array.ofFn (n := io.bpc) fun j => d (clusterOff io c.val + j.val)))
    else old.getD c.val none

partial def listing (d : Dev) (io : IOGeom) (pre : String) (ks : List TNode) : List String :=
  ks.flatMap fun t =>
    let p := if pre == "" then nameStr t.name else pre ++ "/" ++ nameStr t.name
    match t with
    | .file _ c sz => [s!"{p}|f|{sz}|{natsStr c}|{digestBytes (fileContent d io c sz)}"]
    | .dir _ c ks' => s!"{p}|d|{natsStr c}" :: listing d io p ks'

/-- a plain tree (what `reopen` builds) in listing form: names, nesting, sizes, content digests -/
partial def specListing (pre : String) (t : Spec.Tree) : List String :=
  t.flatMap fun e =>
    let p := if pre == "" then nameStr e.1 else pre ++ "/" ++ nameStr e.1
    match e.2 with
    | .file c => [s!"{p}|f|{c.length}|{digestBytes c}"]
    | .dir ch => s!"{p}|d" :: specListing p ch

def listingStr (io : IOGeom) (s : DirSt) : String :=
  ";".intercalate (s!"|r|{natsStr s.chain}" :: listing s.d io "" s.kids)

def resStr : TRes → String
  | .ok => "ok"
  | .nospace => "enospc"
  | .rootfull => "rootfull"
  | .spec _ => "refused"
  | .other => "refused"

inductive Call
  | one (op : TOp)
  | mkdirAll (path : List Spec.Name)

def calls (s : String) (img img2 : Bytes) : List Call :=
  (s.splitOn ",").filterMap fun t =>
    let split (p : String) : List Spec.Name × Spec.Name :=
      let ps := pathOf p
      (ps.dropLast, ps.getLastD [])
    match t.splitOn ":" with
    | ["m", p] => let (d, n) := split p; some (.one (.mkdir d n img img2))
    | ["M", p] => some (.mkdirAll (pathOf p))
    | ["c", p] => let (d, n) := split p; some (.one (.create d n img))
    | ["w", p, off, len, seed] => match off.toNat?, len.toNat?, seed.toNat? with
      | some o, some l, some sd => let (d, n) := split p; some (.one (.writeAt d n o (payload sd l) img))
      | _, _, _ => none
    | ["t", p] => let (d, n) := split p; some (.one (.truncate d n img))
    | ["d", p] => let (d, n) := split p; some (.one (.remove d n img))
    | ["r", p, q] => let (d, n) := split p; some (.one (.rename d n (strName q) img))
    | _ => none

def treeOp (args : List String) : String :=
  let k := kindOf ((arg args "kind").getD "12")
  let max := argNatD args "max"
  let lim := argNatD args "lim" max
  let io : IOGeom := ⟨argNatD args "start", argNatD args "datastart", argNatD args "bpc" 512⟩
  -- `slotsOf` is computed once per name that occurs in the history (it is quadratic in the length)
  let opsStr := (arg args "ops").getD "-"
  let names : List Spec.Name := ((opsStr.splitOn ",").flatMap fun t =>
      (t.splitOn ":").flatMap fun p => pathOf p).eraseDups
  let slotTab : List (Spec.Name × Nat) := names.map fun n => (n, slotsOf n)
  let slots : Spec.Name → Nat := fun n => match slotTab.find? (fun e => e.1 == n) with
    | some e => e.2
    | none => slotsOf n
  let g : TGeom := ⟨⟨k, max, lim, io⟩, slots, argNatD args "rootcap", argNatD args "rootbase", argNatD args "rootoff"⟩
  let verbose := argNatD args "verbose" == 1
  -- directory bytes (`rootpre` given): the entry spelling is computed once per name
  let withImg := (arg args "rootpre").isSome
  let encTab : List (Spec.Name × NameEnc) := if withImg then names.map fun n => (n, encOf n) else []
  let enc : Spec.Name → NameEnc := fun n => match encTab.find? (fun e => e.1 == n) with
    | some e => e.2
    | none => encOf n
  let X : ImgParams := imgParams enc (parseDir ((argHex args "rootpre").getD [])) (argNatD args "rootpar")
  let n := max + 2
  let fuel := max + 2
  -- the directory images are parameters of the model's calls (what a directory's bytes are is not
  -- modelled, `tabs` never reads them): the rewritten parent directory gets the empty image, the
  -- first cluster of a new directory one cluster of 0xD2
  let img : Bytes := []
  let img2 : Bytes := List.replicate io.bpc 0xD2
  let a0 := freezeArr (cmapOf (pairs ((arg args "entries").getD "-"))) n
  let fz0 : Frozen := Array.replicate n none
  let s0 : DirSt := ⟨ofArr a0, frozenDev io fz0, natList ((arg args "rootchain").getD "-"), []⟩
  let step (acc : DirSt × Frozen × List String × List String × List String × List String × List String) (c : Call) :=
    let (s, fz, rs, ds, us, is, ns) := acc
    let r : DirSt × TRes := match c with
      | .one op => tstep eqFold g fuel s op
      | .mkdirAll p => tmkdirAll eqFold g fuel img img2 s [] p
    let arr := freezeArr r.1.m n
    let m' := ofArr arr
    let fz' := refreeze io r.1.d m' n fz
    let s' : DirSt := ⟨m', frozenDev io fz', r.1.chain, r.1.kids⟩
    let l := listingStr io s'
    -- ENOSPC predicted by the characterisation (`fat_tree_create_enospc_iff` / `_mkdir_`): for a create /
    -- mkdir of a new name in an existing directory, 1 iff free clusters < 1 + growth of that directory
    let pred (d : List Spec.Name) (nm : Spec.Name) : String :=
      match dirAtT eqFold d g.rootBase s with
      | some (b', s') =>
        if (kfind eqFold s'.kids nm).isNone then
          (if freeCount lim s.m < 1 + growFor g b' s'.chain s'.kids nm then "1" else "0")
        else "-"
      | none => "-"
    let np := match c with
      | .one (.create d nm _) => pred d nm
      | .one (.mkdir d nm _ _) => pred d nm
      | _ => "-"
    let di := if withImg then
        (if verbose then " ".intercalate ((dirImages X g s').map toHex)
         else toString (digestBytes (dirImages X g s').flatten))
      else ""
    (s', fz', rs ++ [resStr r.2], ds ++ [if verbose then l else toString (digestStr l)],
      us ++ [toString (usedCount m' 2 (max + 1))], is ++ [di], ns ++ [np])
  let allCalls := calls opsStr img img2
  let (s, _, rs, ds, us, is, ns) := allCalls.foldl step (s0, fz0, [], [], [], [], [])
  let j (l : List String) := if l.isEmpty then "-" else ",".intercalate l
  let jd (l : List String) := if l.isEmpty then "-" else (if verbose then " # " else ",").intercalate l
  -- `hyp=1`: also report whether this volume meets the hypotheses of the tree theorems
  -- (`TGeomOk`, 64 ≤ bpc, fuel, and `TInv` / `TFit` of the initial state, by their executable forms)
  let hyp :=
    if argNatD args "hyp" == 1 then
      let geomOk := decide (0 < io.bpc) && (List.range lim).all (fun c => !(k.isEOC c)) && decide (lim ≤ max) &&
        decide (g.rootOff + 32 * g.rootCap ≤ io.start + io.dataStart) && decide (64 ≤ io.bpc) && decide (lim - 2 ≤ fuel)
      let inv0 := invB k lim s0.m (chainOwner s0.chain ++ kidsOwners s0.kids)
      let fit0 := if s0.chain.isEmpty then decide (dirSlots g g.rootBase s0.kids ≤ g.rootCap)
        else decide (s0.chain.length = dirNeed g g.rootBase s0.kids)
      -- fourth digit: the hypotheses of the re-opening theorems (`ImgParamsOk`, `NameOk` of every name
      -- of the history, `OpOk` of every call: writes end below 4 GiB)
      let img0 :=
        if withImg then
          decide (metaOk X.dotMeta) && X.rootPre.all (fun e => decide e.WF) && X.rootPre.all (fun e => !(isRealEntry e)) &&
          decide (g.rootBase = (X.rootPre.map fun e => calculateSlots e.long + 1).sum) &&
          decide (X.rootPar < 4294967296) && decide (lim ≤ 4294967296) &&
          names.all (fun nm => decide (NameOk X g nm)) &&
          allCalls.all (fun c => match c with
            | .one op => decide (OpOk X g op)
            | .mkdirAll _ => true)
        else true
      s!"\thyp={if geomOk then 1 else 0}{if inv0 then 1 else 0}{if fit0 then 1 else 0}{if withImg then (if img0 then "1" else "0") else ""}"
    else ""
  -- `reopen=1`: the final volume re-opened from table + bytes alone (`reopen (image s)`: the tree as a
  -- listing) and the raw check of every parsed entry's chain (`reopenCheck`)
  let ro :=
    if withImg && argNatD args "reopen" == 1 then
      -- `image X g s`, unfolded so that the serialisations are computed once, not per byte read
      let rws := rootWrs X g s
      let jws := jobWrs g.f.io (rootJobs X g s)
      let D : Dev := applyWrs (applyWrs s.d rws) jws
      let t := reopen g fuel 8 s.m D (s.chain.headD 0)
      let l := ";".intercalate (specListing "" t)
      s!"\trtree={if verbose then l else toString (digestStr l)}\trchk={if reopenCheck g fuel 8 s.m D (s.chain.headD 0) then 1 else 0}"
    else ""
  let dimg := if withImg then s!"\tdimg={jd is}\tnsp={j ns}{ro}" else ""
  s!"res={j rs}\tused={j us}\tsteps={jd ds}\tfinal={listingStr io s}\ttable={nonzero s.m 2 (max + 1)}{dimg}{hyp}"

/-- maximal runs of non-zero bytes of `d` in [0, total) as "off:len" -/
def nonzeroRuns (d : Dev) (total : Nat) : List String :=
  let step (acc : List (Nat × Nat) × Option Nat) (i : Nat) : List (Nat × Nat) × Option Nat :=
    let nz := d i ≠ 0
    match acc.2 with
    | none => if nz then (acc.1, some i) else acc
    | some st => if nz then acc else ((st, i - st) :: acc.1, none)
  let r := (List.range total).foldl step ([], none)
  let runs := match r.2 with
    | some st => (st, total - st) :: r.1
    | none => r.1
  runs.reverse.map fun p => s!"{p.1}:{p.2}"

/-- Driver op `fat.dirwrs`: where `writeDirectoryEntries` of the model puts a directory's image.
    `writeDir` runs on an all-zero device with an image of 0xEE bytes for a directory whose chain
    already has the clusters its entries need; the result is the byte ranges that changed. -/
def dirwrsOp (args : List String) : String :=
  let k := kindOf ((arg args "kind").getD "12")
  let max := argNatD args "max"
  let lim := argNatD args "lim" max
  let io : IOGeom := ⟨argNatD args "start", argNatD args "datastart", argNatD args "bpc" 512⟩
  let g : TGeom := ⟨⟨k, max, lim, io⟩, slotsOf, argNatD args "rootcap", argNatD args "rootbase", argNatD args "rootoff"⟩
  let chain := natList ((arg args "chain").getD "-")
  let names := (((arg args "names").getD "").splitOn ";").filter (· ≠ "")
  let kids : List TNode := names.map fun n => .file (strName n) [0] 0
  let a0 := freezeArr (cmapOf (pairs ((arg args "entries").getD "-"))) (max + 2)
  let img : Bytes := List.replicate (Nat.max (32 * g.rootCap) (chain.length * io.bpc)) 0xEE
  match writeDir g (max + 2) (ofArr a0) (fun _ => 0) chain (argNatD args "base") kids img with
  | .error e => s!"res={resStr e}"
  | .ok w =>
    let runs := nonzeroRuns w.d (argNatD args "total")
    s!"res=ok\tchain={natsStr w.chain}\twrites={if runs.isEmpty then "-" else ",".intercalate runs}"

end Driver.FatTree
