import Driver.Util
import DiskfsModel.Model.Ext4.ExtTree
import DiskfsModel.Model.Ext4.Alloc
import DiskfsModel.Model.Ext4.ExtTreeInv
/-!
  Driver ops of the extent-tree mirror (Model/Ext4/ExtTree.lean), linked into vd-ext4ops.

  Tree text (comma separated tokens, prefix notation):
    leaf:  L,disk,max,n,(fb,start,count)*n        index: I,disk,max,depth,n,(key,<node>)*n
-/
namespace Driver.Ext4Tree
open Diskfs Diskfs.Ext4 Diskfs.Ext4.ExtTree Driver

instance : Inhabited Node := ⟨.leaf 0 0 []⟩

partial def nodeToks : Node → List String
  | .leaf max disk es =>
    ["L", toString disk, toString max, toString es.length] ++
      es.flatMap fun e => [toString e.fileBlock, toString e.start, toString e.count]
  | .index max disk depth ks =>
    ["I", toString disk, toString max, toString depth, toString ks.length] ++
      ks.flatMap fun p => toString p.1 :: nodeToks p.2

def treeStr (n : Node) : String := ",".intercalate (nodeToks n)

def takeExtents : Nat → List String → Option (List Extent × List String)
  | 0, ts => some ([], ts)
  | n + 1, a :: b :: c :: ts =>
    match a.toNat?, b.toNat?, c.toNat?, takeExtents n ts with
    | some a, some b, some c, some (es, rest) => some (⟨a, b, c⟩ :: es, rest)
    | _, _, _, _ => none
  | _ + 1, _ => none

mutual
partial def parseToks : List String → Option (Node × List String)
  | "L" :: d :: m :: n :: ts =>
    match d.toNat?, m.toNat?, n.toNat? with
    | some d, some m, some n =>
      match takeExtents n ts with
      | some (es, rest) => some (.leaf m d es, rest)
      | none => none
    | _, _, _ => none
  | "I" :: d :: m :: dp :: n :: ts =>
    match d.toNat?, m.toNat?, dp.toNat?, n.toNat? with
    | some d, some m, some dp, some n =>
      match parseKids n ts with
      | some (ks, rest) => some (.index m d dp ks, rest)
      | none => none
    | _, _, _, _ => none
  | _ => none
partial def parseKids : Nat → List String → Option (Kids × List String)
  | 0, ts => some ([], ts)
  | n + 1, k :: ts =>
    match k.toNat?, parseToks ts with
    | some k, some (c, rest) =>
      match parseKids n rest with
      | some (ks, rest') => some ((k, c) :: ks, rest')
      | none => none
    | _, _ => none
  | _ + 1, [] => none
end

/-- "-" = no tree yet -/
def parseTree (s : String) : Option (Option Node) :=
  if s == "-" || s == "" then some none else
  match parseToks (s.splitOn ",") with
  | some (n, []) => some (some n)
  | _ => none

/-- fb:start:count,... -/
def parseExts (s : String) : List Extent :=
  if s == "-" || s == "" then [] else
  (s.splitOn ",").filterMap fun t =>
    match (t.splitOn ":").filterMap String.toNat? with
    | [a, b, c] => some ⟨a, b, c⟩
    | _ => none

/-! the allocator the real calls meet: `bmAlloc` of Model/Ext4/ExtTreeInv.lean (laws: `exttree_bmalloc_ok`) -/

/-- runs "p+c,p+c" → bits of length `len` (true = in use) -/
def bitsOfRuns (len : Nat) (s : String) : Alloc.Bits :=
  let runs : List (Nat × Nat) := if s == "-" || s == "" then [] else
    (s.splitOn ",").filterMap fun t => match (t.splitOn "+").filterMap String.toNat? with
      | [p, c] => some (p, c) | _ => none
  runs.foldl (fun b r => Alloc.clearRun b r.1 r.2) (List.replicate len true)

def errStr : Err → String
  | .nospace => "nospace" | .notfound => "notfound" | .unsupported => "unsupported"

def resStr : Res (Node × Nat × BmState) → String
  | .ok (t, m, _) => s!"tree={treeStr t}\tmeta={m}"
  | .err e => s!"err={errStr e}"
  | .panic => "panic"
  | .weird => "weird"

def stateOf (args : List String) : BmState :=
  let bpg := argNatD args "bpg"
  ⟨(((arg args "runs").getD "").splitOn "/").map (bitsOfRuns bpg), argNatD args "sbfree"⟩

/-- ext4tree.extend: extendExtentTree on the tree `tree` with the extents `add`, node blocks from the bitmaps -/
def extendOp (args : List String) : String :=
  match parseTree ((arg args "tree").getD "-") with
  | none => "bad-tree"
  | some t =>
    resStr (extend (argNatD args "full" == 1) (bmAlloc (argNatD args "fdb") (argNatD args "bpg")) (stateOf args) (argNatD args "bs" 1024) t
      (parseExts ((arg args "add").getD "-")))

/-- ext4tree.hist: one block-allocating append of File.Write: allocateExtents picks the data block (one block:
    the fast path), extendExtentTree adds the extent (file block `fb`) to the tree -/
def histOp (args : List String) : String :=
  match parseTree ((arg args "tree").getD "-") with
  | none => "bad-tree"
  | some t =>
    let A := bmAlloc (argNatD args "fdb") (argNatD args "bpg")
    match A.take (stateOf args) 1 with
    | none => "err=nospace"
    | some (b, s) => resStr (extend (argNatD args "full" == 1) A s (argNatD args "bs" 1024) t [⟨argNatD args "fb", b, 1⟩])

def hexOr (b : Bytes) : String := if b.isEmpty then "-" else toHex b

def parsePtrs (s : String) : List (Nat × Nat) :=
  if s == "-" || s == "" then [] else
  (s.splitOn ",").filterMap fun t =>
    match (t.splitOn ":").filterMap String.toNat? with
    | [a, b] => some (a, b)
    | _ => none

/-- ext4tree.enc: toBytes of a leaf / index node -/
def encOp (args : List String) : String :=
  let max := argNatD args "max"
  let r := match arg args "kind" with
    | some "leaf" => encLeaf max (parseExts ((arg args "ents").getD "-"))
    | _ => encIndex max (argNatD args "depth") (parsePtrs ((arg args "ptrs").getD "-"))
  match r with
  | some b => s!"out={hexOr b}"
  | none => "panic"

def joinOr (xs : List String) : String := if xs.isEmpty then "-" else ",".intercalate xs

/-- ext4tree.parse: parseExtents -/
def parseOp (args : List String) : String :=
  match parseNode ((argHex args "b").getD []) with
  | .error .short => "err=short"
  | .error .magic => "err=magic"
  | .error .entries => "err=entries"
  | .ok (.leaf max es) => s!"leaf\tmax={max}\tents={joinOr (es.map fun e => s!"{e.fileBlock}:{e.start}:{e.count}")}"
  | .ok (.index max depth ps) => s!"index\tmax={max}\tdepth={depth}\tptrs={joinOr (ps.map fun p => s!"{p.1}:{p.2}")}"

/-- ext4tree.flat: blocks() and extentTreeBlocks of a tree -/
def flatOp (args : List String) : String :=
  match parseTree ((arg args "tree").getD "-") with
  | some (some t) =>
    s!"ext={joinOr ((flatten t).map fun e => s!"{e.fileBlock}:{e.start}:{e.count}")}\tnodes={joinOr ((treeBlocks t).map toString)}"
  | _ => "bad-tree"

def b01 (b : Bool) : String := if b then "1" else "0"

/-- ext4tree.inv: the invariant the history theorems assume and preserve (`TreeInv`, decided by `treeInvB`:
    `exttree_inv_decided`), component by component, on a tree read from the device -/
def invOp (args : List String) : String :=
  match parseTree ((arg args "tree").getD "-") with
  | some (some t) =>
    let bs := argNatD args "bs" 1024
    s!"root={b01 (goodRootB bs t)}\tsorted={b01 (sortedB t)}\tnodup={b01 (nodupB t)}\tinv={b01 (treeInvB bs t)}"
  | _ => "bad-tree"

def dispatch (op : String) (args : List String) : Option String :=
  match op with
  | "ext4tree.extend" => some (extendOp args)
  | "ext4tree.hist" => some (histOp args)
  | "ext4tree.enc" => some (encOp args)
  | "ext4tree.parse" => some (parseOp args)
  | "ext4tree.flat" => some (flatOp args)
  | "ext4tree.inv" => some (invOp args)
  | _ => none

end Driver.Ext4Tree
