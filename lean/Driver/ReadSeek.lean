import Driver.Util
import DiskfsModel.Model.ReadSeek
import DiskfsModel.Generated.ReadSeek
namespace Driver.ReadSeek
open Diskfs Diskfs.ReadSeek Diskfs.Spec Driver

def flag (cfg : String) (name : String) : Bool :=
  (cfg.splitOn ",").any fun s => s == name ++ "1"

def parseCfg (s : String) : Cfg :=
  { fatClamp := flag s "clamp", sqEndAdd := flag s "sqend", e4Closed := flag s "e4closed",
    e4SkipLe := flag s "e4skip", sqEmptyOk := flag s "sqempty",
    -- not probed by the engine (it builds no out-of-order extent lists): read from file.go on every run
    e4SkipNeg := Diskfs.Generated.ReadSeek.e4ReadSkipsNegative }

def parseExts (s : String) : List Ext :=
  if s == "-" || s == "" then []
  else (s.splitOn ",").filterMap fun e =>
    match e.splitOn ":" with
    | [a, b] => match a.toNat?, b.toNat? with
      | some x, some y => some ⟨x, y⟩
      | _, _ => none
    | _ => none

def parseFile (args : List String) : Option FileM :=
  let unit := argNatD args "unit"
  let size := argNatD args "size"
  match arg args "fs" with
  | some "fat" => some (.fat ⟨unit, size, argNatD args "ncl"⟩)
  | some "ext4" => some (.ext4 ⟨unit, size, parseExts ((arg args "exts").getD "-")⟩)
  | some "iso" => some (.iso size)
  | some "sqfs" => some (.sqfs ⟨unit, size, argNatD args "nblocks", argNatD args "frag" == 1⟩)
  | _ => none

def parseOp (s : String) : Option HOp :=
  if s == "c" then some .close
  else if s.startsWith "r" then ((s.drop 1).toString.toNat?).map HOp.read
  else if s.startsWith "s" then
    match (s.drop 1).toString.splitOn ":" with
    | [w, o] =>
      match w.toNat?, o.toInt? with
      | some 0, some x => some (.seek .start x)
      | some 1, some x => some (.seek .current x)
      | some 2, some x => some (.seek .end_ x)
      | _, _ => none
    | _ => none
  else none

def posStr (h : H) : String := if h.closed then "-" else toString h.off

/-- `n` = buffer size of the call, `size` = file size.  Where the property allows both nil and io.EOF
    (the last bytes were just delivered, or an empty buffer at the end) the two are printed alike. -/
def showOut (size n : Nat) (h' : H) : MOut → String
  | .read (.ok segs eof) =>
    let k := segsLen segs
    let e := if size ≤ h'.off ∧ (0 < k ∨ n = 0) then "E" else if eof then "1" else "0"
    s!"r{k}/{e}/{posStr h'}"
  | .read .errClosed => "r0/2/-"
  | .read (.errOther segs) => s!"r{segsLen segs}/3/{posStr h'}"
  | .read .panic => "rP"
  | .read .unmodelled => "rU"
  | .seek (some p) => if h'.closed then "sok/-" else s!"s{p}/{posStr h'}"
  | .seek none => s!"sE/{posStr h'}"
  | .seekClosed => "sE/-"
  | .seekPanic => "sP"
  | .closed => "c"

def runShow (c : Cfg) (fm : FileM) : H → List HOp → List String
  | _, [] => []
  | h, op :: ops =>
    let r := stepM c fm h op
    let n := match op with | .read n => n | _ => 0
    showOut fm.size n r.2 r.1 :: runShow c fm r.2 ops

/-- rw.seq fs= unit= size= (ncl= | exts= | nblocks= frag=) cfg= ops=  →  one token per call -/
def seq (args : List String) : String :=
  match parseFile args with
  | none => "bad-file"
  | some fm =>
    let cfg := parseCfg ((arg args "cfg").getD "")
    let opsS := (arg args "ops").getD ""
    let ops := if opsS == "" then [] else (opsS.splitOn ",").map parseOp
    if ops.any Option.isNone then "bad-op"
    else ",".intercalate ((if fm.wfb then "wf1" else "wf0") :: runShow cfg fm ⟨0, false⟩ (ops.filterMap id))

end Driver.ReadSeek

def main : IO Unit := Driver.runLoop fun op args =>
  match op with
  | "rw.seq" => Driver.ReadSeek.seq args
  | _ => "unknown-op"
