import DiskfsModel.Core.Bytes
namespace Driver
open Diskfs

/-- `k=v` argument lookup -/
def arg (args : List String) (k : String) : Option String :=
  args.findSome? fun a =>
    match a.splitOn "=" with
    | k' :: rest => if k' == k then some ("=".intercalate rest) else none
    | _ => none

def argNat (args : List String) (k : String) : Option Nat := (arg args k).bind String.toNat?
def argNatD (args : List String) (k : String) (d : Nat := 0) : Nat := (argNat args k).getD d
def argInt (args : List String) (k : String) : Option Int := (arg args k).bind String.toInt?
def argHex (args : List String) (k : String) : Option Bytes := (arg args k).bind fromHex

/-- comma separated naturals; "-" or "" is the empty list -/
def natList (s : String) : List Nat :=
  if s == "-" || s == "" then [] else (s.splitOn ",").filterMap String.toNat?

def wrStr (w : Wr) : String := s!"{w.off}:{toHex w.data}"
def wrsStr (ws : List Wr) : String :=
  if ws.isEmpty then "-" else ";".intercalate (ws.map wrStr)

end Driver

namespace Driver

/-- the whole `main` of a per-engine model driver: for every input line
    `case<TAB>id<TAB>engine.op<TAB>k=v…` print `model<TAB>id<TAB>result`. -/
partial def runLoop (dispatch : String → List String → String) : IO Unit := do
  let h ← IO.getStdin
  let out ← IO.getStdout
  let rec go : IO Unit := do
    let line ← h.getLine
    if line.isEmpty then return ()
    let line := (line.dropEndWhile (fun c => c == '\n' || c == '\r')).toString
    match line.splitOn "\t" with
    | "case" :: id :: op :: args => out.putStrLn s!"model\t{id}\t{dispatch op args}"
    | _ => pure ()
    go
  go
  out.flush

end Driver
