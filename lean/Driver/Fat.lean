import Driver.Util
import DiskfsModel.Model.Fat.Table
import DiskfsModel.Model.Fat.Chain
import DiskfsModel.Model.Fat.FileIO
import DiskfsModel.Model.Fat.DirCodec
import DiskfsModel.Model.Fat.Fs
import DiskfsModel.Spec.Tree
import DiskfsModel.Model.Fat.Geom
import DiskfsModel.Model.Fat.FlatFs
import DiskfsModel.Model.Fat.EmptyWrite
import DiskfsModel.Generated.Fat
import DiskfsModel.Model.Fat.Boot
import DiskfsModel.Spec.FatBoot
import Driver.FatTree
namespace Driver.Fat
open Diskfs Diskfs.Fat Driver

def kindOf (s : String) : Kind := if s == "12" then .f12 else if s == "16" then .f16 else .f32

/-- "i:v,i:v" → pairs -/
def pairs (s : String) : List (Nat × Nat) :=
  if s == "-" || s == "" then [] else
  (s.splitOn ",").filterMap fun p =>
    match p.splitOn ":" with
    | [a, b] => match a.toNat?, b.toNat? with
      | some x, some y => some (x, y)
      | _, _ => none
    | _ => none

def cmapOf (ps : List (Nat × Nat)) : CMap := fun i =>
  match ps.find? (fun p => p.1 == i) with
  | some p => p.2
  | none => 0

/-- materialise a cluster map over [0, n): the array is computed once, lookups are O(1).
    (`ofArr a` is a partial application, so the array is not rebuilt per lookup.) -/
def freezeArr (m : CMap) (n : Nat) : Array Nat := Array.ofFn (n := n) fun i => m i.val
def ofArr (a : Array Nat) (i : Nat) : Nat := a.getD i 0
def nonzero (m : CMap) (lo hi : Nat) : String :=
  let l := (List.range' lo (hi - lo)).filterMap fun i => if m i ≠ 0 then some s!"{i}:{m i}" else none
  if l.isEmpty then "-" else ",".intercalate l

def natsStr (l : List Nat) : String := if l.isEmpty then "-" else ",".intercalate (l.map toString)

def devPattern : Dev := fun i => UInt8.ofNat ((i * 7 + 3) % 251)

def tbl (args : List String) : String :=
  let k := kindOf ((arg args "kind").getD "12")
  let size := argNatD args "size"
  let fatID := argNatD args "fatid"
  let m := cmapOf (pairs ((arg args "entries").getD "-"))
  s!"bytes={toHex (tableBytes k fatID size m)}"

def tblread (args : List String) : String :=
  let k := kindOf ((arg args "kind").getD "12")
  match argHex args "hex" with
  | none => "bad-hex"
  | some b =>
    let m := tableFromBytes k b
    s!"entries={nonzero m 2 (k.maxOfSize b.length + 1)}"

def w12 (args : List String) : String :=
  match argHex args "b" with
  | none => "bad-hex"
  | some b =>
    let b' := fat12WriteEntry b (argNatD args "i") (argNatD args "v")
    s!"bytes={toHex b'}\tread={fat12ReadEntry b' (argNatD args "j")}"

def walkOp (args : List String) : String :=
  let k := kindOf ((arg args "kind").getD "12")
  let max := argNatD args "max"
  let m := cmapOf (pairs ((arg args "entries").getD "-"))
  match walk k max m (max + 2) (argNatD args "first") with
  | .ok l => s!"ok={natsStr l}"
  | .err => "err"
  | .diverge => "diverge"

def allocOp (args : List String) : String :=
  let k := kindOf ((arg args "kind").getD "12")
  let max := argNatD args "max"
  let lim := argNatD args "lim" max
  let bpc := argNatD args "bpc" 512
  let a0 := freezeArr (cmapOf (pairs ((arg args "entries").getD "-"))) (max + 2)
  let m := ofArr a0
  let r := allocateSpace k max bpc (firstFit lim) (max + 2) m (argNatD args "size") (argNatD args "prev")
  let res := match r.res with
    | some l => s!"ok={natsStr l}"
    | none => "err"
  s!"{res}\ttable={nonzero r.m 2 (max + 1)}"

def ioGeom (args : List String) : IOGeom := ⟨argNatD args "start", argNatD args "datastart", argNatD args "bpc" 512⟩

def readOp (args : List String) : String :=
  let g := ioGeom args
  let chain := natList ((arg args "chain").getD "-")
  let clamp := argNatD args "clamp" == 1
  match readH clamp devPattern g chain (argNatD args "size") (argNatD args "off") (argNatD args "n") with
  | none => "panic"
  | some (data, off', eof) => s!"n={data.length}\toff={off'}\teof={if eof then 1 else 0}\tdata={toHex data}"

def writeOp (args : List String) : String :=
  let g := ioGeom args
  let chain := natList ((arg args "chain").getD "-")
  let zh := argNatD args "zerohole" == 1
  let p := List.replicate (argNatD args "len") (1 : UInt8)
  match writeH zh g chain (argNatD args "oldsize") (argNatD args "off") p with
  | none => "panic"
  | some ws =>
    let l := (nonEmptyWrs ws).map fun w => s!"{w.off}:{w.data.length}"
    s!"ws={if l.isEmpty then "-" else ",".intercalate l}"

def nameOf (s : String) : Name := (natList s)

def entOf (args : List String) : DirEntry :=
  { short := nameOf ((arg args "short").getD "-"), ext := nameOf ((arg args "ext").getD "-"),
    long := nameOf ((arg args "long").getD "-"), attr := argNatD args "attr", lcase := argNatD args "lcase",
    cTime := argNatD args "ctime", cDate := argNatD args "cdate", aDate := argNatD args "adate",
    mTime := argNatD args "mtime", mDate := argNatD args "mdate", cluster := argNatD args "cluster", size := argNatD args "fsize" }

def entStr (e : DirEntry) : String :=
  s!"{natsStr e.short}/{natsStr e.ext}/{natsStr e.long}/{e.attr}/{e.lcase}/{e.cTime}/{e.cDate}/{e.aDate}/{e.mTime}/{e.mDate}/{e.cluster}/{e.size}"

def direntOp (args : List String) : String := s!"bytes={toHex (serEntry (entOf args))}"

def dirparseOp (args : List String) : String :=
  match argHex args "hex" with
  | none => "bad-hex"
  | some b =>
    let es := parseDir b
    s!"n={es.length}\tentries={if es.isEmpty then "-" else ";".intercalate (es.map entStr)}"

def sfnOp (args : List String) : String :=
  let r := convertLfnSfn (nameOf ((arg args "name").getD "-"))
  s!"short={natsStr r.short}\text={natsStr r.ext}\tlfn={if r.isLFN then 1 else 0}\ttrunc={if r.isTruncated then 1 else 0}"

def uniqOp (args : List String) : String :=
  let existing := ((arg args "existing").getD "-").splitOn ";" |>.filter (· ≠ "-") |>.map nameOf
  s!"short={natsStr (uniqueShortName (nameOf ((arg args "stem").getD "-")) (nameOf ((arg args "ext").getD "-")) existing)}"

def dateOp (args : List String) : String :=
  let d := packDate (argNatD args "y") (argNatD args "mo") (argNatD args "d")
  let t := packTime (argNatD args "h") (argNatD args "mi") (argNatD args "s")
  let (y, mo, dd) := unpackDate d
  let (h, mi, s) := unpackTime t
  s!"date={d}\ttime={t}\tback={y}-{mo}-{dd}T{h}:{mi}:{s}"

/-- owners "2,3;7" -/
def ownersOf (s : String) : List (List Nat) :=
  if s == "-" || s == "" then [] else (s.splitOn ";").map natList

def soundOp (args : List String) : String :=
  let k := kindOf ((arg args "kind").getD "12")
  let lim := argNatD args "lim"
  let a0 := freezeArr (cmapOf (pairs ((arg args "entries").getD "-"))) (lim + 2)
  let m := ofArr a0
  let owners := ownersOf ((arg args "owners").getD "-")
  s!"sound={if invB k lim m owners then 1 else 0}"

/-- cluster-level history: ops "c:size" create, "r:i:size" resize, "d:i" remove; fixed=0|1 -/
def cstepOp (args : List String) : String :=
  let k := kindOf ((arg args "kind").getD "12")
  let max := argNatD args "max"
  let g : VolGeom := ⟨k, max, argNatD args "datalim" max, argNatD args "bpc" 512⟩
  let c : Cfg := if argNatD args "fixed" == 1 then Cfg.fixed else Cfg.asFound
  let ops : List COp := (((arg args "ops").getD "-").splitOn ",").filterMap fun s =>
    match s.splitOn ":" with
    | ["c", a] => a.toNat?.map COp.create
    | ["r", i, a] => match i.toNat?, a.toNat? with
      | some i, some a => some (COp.resize i a)
      | _, _ => none
    | ["d", i] => i.toNat?.map COp.remove
    | _ => none
  let a0 := freezeArr (cmapOf (pairs ((arg args "entries").getD "-"))) (max + 2)
  let s0 : CState := ⟨ofArr a0, ownersOf ((arg args "owners").getD "-")⟩
  let (s, accepted) := ops.foldl (fun (acc : CState × List Nat) op =>
      let r := cstep c g (max + 2) acc.1 op
      let a := freezeArr r.1.m (max + 2)
      (⟨ofArr a, r.1.owners⟩, acc.2 ++ [if r.2 then 1 else 0])) (s0, [])
  s!"acc={natsStr accepted}\ttable={nonzero s.m 2 (max + 1)}\tsound={if invB k (g.allocLim Cfg.fixed) s.m s.owners then 1 else 0}"

/-! geometry: the three Creates over the regenerated cluster-size tables -/
def geomOp (args : List String) : String :=
  let size := argNatD args "size"
  let r := match (arg args "kind").getD "12" with
    | "12" => mkGeom12 Generated.Fat.fat12_spc_table size
    | "16" => mkGeom16 Generated.Fat.fat16_spc_table size
    | _ => if argNatD args "fix32" == 1 then mkGeom32Fixed Generated.Fat.fat32_clusterBytes_table size (argNatD args "bs")
           else mkGeom32 Generated.Fat.fat32_clusterBytes_table size (argNatD args "bs")
  match r with
  | none => "err"
  | some g => s!"bps={g.bps}\tspc={g.spc}\treserved={g.reserved}\tfatsectors={g.fatSectors}\trootentries={g.rootEntries}\ttotal={g.totalSectors}\tclusters={g.clusters}\tdatastart={g.dataStart}"

def strName (s : String) : Spec.Name := s.toList.map Char.toNat
def nameStr (n : Spec.Name) : String := String.ofList (n.map Char.ofNat)
def eqnFold (a b : Spec.Name) : Bool := eqFold a b

/-- payload of `len` bytes determined by `seed` (the engine generates the same bytes) -/
def payload (seed len : Nat) : Bytes := (List.range len).map fun i => UInt8.ofNat ((seed + i * 13) % 251 + 1)

/-- one-directory filesystem history (Model/Fat/FlatFs.lean) -/
def flatOp (args : List String) : String :=
  let k := kindOf ((arg args "kind").getD "12")
  let max := argNatD args "max"
  let lim := argNatD args "lim" max
  let g : FGeom := ⟨k, max, lim, ioGeom args⟩
  let ops : List FOp := (((arg args "ops").getD "-").splitOn ",").filterMap fun s =>
    match s.splitOn ":" with
    | ["c", n] => some (FOp.create (strName n))
    | ["w", n, off, len, seed] => match off.toNat?, len.toNat?, seed.toNat? with
      | some o, some l, some sd => some (FOp.writeAt (strName n) o (payload sd l))
      | _, _, _ => none
    | ["t", n] => some (FOp.truncate (strName n))
    | ["d", n] => some (FOp.remove (strName n))
    | ["r", o, n] => some (FOp.rename (strName o) (strName n))
    | _ => none
  let a0 := freezeArr (cmapOf (pairs ((arg args "entries").getD "-"))) (max + 2)
  let s0 : FState := ⟨ofArr a0, fun _ => 0, []⟩
  let (s, acc) := ops.foldl (fun (a : FState × List Nat) op =>
      let r := fstep eqnFold g (max + 2) a.1 op
      let arr := freezeArr r.1.m (max + 2)
      (⟨ofArr arr, r.1.d, r.1.files⟩, a.2 ++ [if r.2 then 1 else 0])) (s0, [])
  let files := s.files.map fun f => s!"{nameStr f.name}/{f.size}/{natsStr f.chain}/{toHex (fileContent s.d g.io f.chain f.size)}"
  s!"acc={natsStr acc}\ttable={nonzero s.m 2 (max + 1)}\tfiles={if files.isEmpty then "-" else ";".intercalate files}"

/-- `File.Write` as the code is now, no shortcut for an empty buffer (Model/Fat/EmptyWrite.lean), on a
    real table: outcome, new size, chain, table and the non-empty WriteAt calls (the zero-fill of a
    gap).  `early=1`: the tree returns early for `len(p) = 0` (probed per run by the engine). -/
def zwriteOp (args : List String) : String :=
  let k := kindOf ((arg args "kind").getD "12")
  let max := argNatD args "max"
  let lim := argNatD args "lim" max
  let g : FGeom := ⟨k, max, lim, ioGeom args⟩
  let a0 := freezeArr (cmapOf (pairs ((arg args "entries").getD "-"))) (max + 2)
  let m := ofArr a0
  let chain := natList ((arg args "chain").getD "-")
  let size := argNatD args "size"
  let off := argNatD args "off"
  let len := argNatD args "len"
  let data := payload (argNatD args "seed") len
  let show_ (m' : CMap) (c' : List Nat) (s' : Nat) (ws : List Wr) : String :=
    let l := (nonEmptyWrs ws).map fun w => s!"{w.off}:{w.data.length}"
    s!"res=ok\tsize={s'}\tchain={natsStr c'}\ttable={nonzero m' 2 (max + 1)}\tws={if l.isEmpty then "-" else ",".intercalate l}\ttrigger={if emptyWriteTrigger g.io.bpc size off && len == 0 then 1 else 0}"
  if argNatD args "early" == 1 && len == 0 then show_ m chain size []
  else match fileWriteRaw g (max + 2) m (fun _ => 0) chain size off data with
    | .ok m' _ c' s' _ => show_ m' c' s' ((writeH true g.io c' size off data).getD [])
    | .refused => "res=refused"
    | .panic => "res=panic"

/-- the specification itself on an op history: ties the engine's reference tree to Spec/Tree.lean -/
def pathOf (s : String) : List Spec.Name := ((s.splitOn "/").filter (· ≠ "")).map strName

def specOps (s : String) : List Spec.Op :=
  (s.splitOn ",").filterMap fun t =>
    let split (p : String) : List Spec.Name × Spec.Name :=
      let ps := pathOf p
      (ps.dropLast, ps.getLastD [])
    match t.splitOn ":" with
    | ["m", p] => let (d, n) := split p; some (Spec.Op.mkdir d n)
    | ["c", p] => let (d, n) := split p; some (Spec.Op.create d n)
    | ["w", p, off, len, seed] => match off.toNat?, len.toNat?, seed.toNat? with
      | some o, some l, some sd => let (d, n) := split p; some (Spec.Op.writeAt d n o (payload sd l))
      | _, _, _ => none
    | ["a", p, len, seed] => match len.toNat?, seed.toNat? with
      | some l, some sd => let (d, n) := split p; some (Spec.Op.append d n (payload sd l))
      | _, _ => none
    | ["t", p] => let (d, n) := split p; some (Spec.Op.truncate d n)
    | ["d", p] => let (d, n) := split p; some (Spec.Op.remove d n)
    | ["r", p, q] => let (d, n) := split p; some (Spec.Op.rename d n ((pathOf q).getLastD []))
    | _ => none

partial def viewOf (pre : String) (t : Spec.Tree) : List String :=
  t.flatMap fun e =>
    let p := if pre == "" then nameStr e.1 else pre ++ "/" ++ nameStr e.1
    match e.2 with
    | .file c => [s!"{p}|f|{c.length}|{toHex c}"]
    | .dir ch => s!"{p}|d" :: viewOf p ch

def insertSorted (x : String) : List String → List String
  | [] => [x]
  | y :: ys => if x < y then x :: y :: ys else y :: insertSorted x ys
def sortStrs (l : List String) : List String := l.foldl (fun acc x => insertSorted x acc) []

def specOp (args : List String) : String :=
  let ops := specOps ((arg args "ops").getD "-")
  let (t, res) := ops.foldl (fun (a : Spec.Tree × List Nat) op =>
      let r := Spec.step eqnFold a.1 op
      (r.1, a.2 ++ [if r.2 == Spec.Res.ok then 1 else 0])) (([] : Spec.Tree), [])
  let v := sortStrs (viewOf "" t)
  s!"res={natsStr res}\tview={if v.isEmpty then "-" else ";".intercalate v}"

/-! boot region: the Lean raw checker on real bytes, and the encoders against what Create wrote -/
def dedupSorted (l : List String) : List String :=
  (sortStrs l).foldl (fun acc x => if acc.getLast? == some x then acc else acc ++ [x]) []

def bootcheckOp (args : List String) : String :=
  match argHex args "hex" with
  | none => "bad-hex"
  | some img =>
    let ps := dedupSorted (Spec.FatBoot.bootProblems img (argNatD args "size") (argNatD args "kind") (argNatD args "bps"))
    s!"codes={if ps.isEmpty then "-" else ",".intercalate ps}"

def bootencOp (args : List String) : String :=
  let size := argNatD args "size"
  let label := strBytes ((arg args "label").getD "VERIF      ")
  let serial := argNatD args "serial"
  match (arg args "kind").getD "12" with
  | "12" => match mkGeom12 Generated.Fat.fat12_spc_table size with
    | none => "err"
    | some g => s!"boot={toHex (boot12OfGeom g size serial label).bytes}	fsinfo=-"
  | "16" => match mkGeom16 Generated.Fat.fat16_spc_table size with
    | none => "err"
    | some g => s!"boot={toHex (boot16OfGeom g serial label).bytes}	fsinfo=-"
  | _ =>
    let r := if argNatD args "fix32" == 1 then mkGeom32Fixed Generated.Fat.fat32_clusterBytes_table size (argNatD args "bs")
             else mkGeom32 Generated.Fat.fat32_clusterBytes_table size (argNatD args "bs")
    match r with
    | none => "err"
    | some g => s!"boot={toHex ((boot32OfGeom g serial label).bytes g.bps)}	fsinfo={toHex (fsinfoFresh.bytes g.bps)}"

end Driver.Fat

def main : IO Unit := Driver.runLoop fun op args =>
  match op with
  | "fat.tbl" => Driver.Fat.tbl args
  | "fat.tblread" => Driver.Fat.tblread args
  | "fat.w12" => Driver.Fat.w12 args
  | "fat.walk" => Driver.Fat.walkOp args
  | "fat.alloc" => Driver.Fat.allocOp args
  | "fat.read" => Driver.Fat.readOp args
  | "fat.write" => Driver.Fat.writeOp args
  | "fat.dirent" => Driver.Fat.direntOp args
  | "fat.dirparse" => Driver.Fat.dirparseOp args
  | "fat.sfn" => Driver.Fat.sfnOp args
  | "fat.uniq" => Driver.Fat.uniqOp args
  | "fat.date" => Driver.Fat.dateOp args
  | "fat.sound" => Driver.Fat.soundOp args
  | "fat.cstep" => Driver.Fat.cstepOp args
  | "fat.geom" => Driver.Fat.geomOp args
  | "fat.flat" => Driver.Fat.flatOp args
  | "fat.zwrite" => Driver.Fat.zwriteOp args
  | "fat.spec" => Driver.Fat.specOp args
  | "fat.bootcheck" => Driver.Fat.bootcheckOp args
  | "fat.bootenc" => Driver.Fat.bootencOp args
  | "fat.tree" => Driver.FatTree.treeOp args
  | "fat.dirwrs" => Driver.FatTree.dirwrsOp args
  | _ => "unknown-op"
