import Driver.Util
import DiskfsModel.Model.Robust
import DiskfsModel.Generated.Robust
open Diskfs Driver Diskfs.Robust

/-- robust.walk max= first= eoc= table=v0,v1,… → `ok:c1,c2,…` | `err` | `diverge`.
    Which loop is run is decided by the regenerated fact `fatWalkBounded`. -/
def walkOp (args : List String) : String :=
  let tbl := (natList ((arg args "table").getD "-")).toArray
  let eoc := argNatD args "eoc"
  let t : Fat := { next := fun c => tbl.getD c 0, isEOC := fun n => n ≥ eoc, maxCluster := argNatD args "max" }
  let first := argNatD args "first"
  let fuel := 2 * t.maxCluster + 10
  let r := if Diskfs.Generated.Robust.fatWalkBounded then walkB t fuel first else walk t fuel first
  match r with
  | .ok l => "ok:" ++ ",".intercalate (l.map toString)
  | .err => "err"
  | .diverge => "diverge"

def main : IO Unit := Driver.runLoop fun op args =>
  match op with
  | "robust.walk" => walkOp args
  | _ => "unknown-op"
