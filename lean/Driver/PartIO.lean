import Driver.Util
import DiskfsModel.Model.PartIO
namespace Driver.PartIO
open Diskfs Driver

def wsLens (ws : List Wr) : String :=
  if ws.isEmpty then "-" else ",".intercalate (ws.map fun w => s!"{w.off}:{w.data.length}")

/-- partio.write start= size= chunks=n1,n2,... → `ws=off:len,... total=N ok=0|1` -/
def write (args : List String) : String :=
  let start := argNatD args "start"
  let size := argNatD args "size"
  let chunks := (natList ((arg args "chunks").getD "-")).map fun n => List.replicate n (0 : UInt8)
  let r := Diskfs.PartIO.writeContents start size chunks
  s!"ws={wsLens r.ws}\ttotal={r.total}\tok={if r.ok then 1 else 0}"

/-- partio.read start= size= pss= dev= → `rs=off:len,...` -/
def read (args : List String) : String :=
  let rs := Diskfs.PartIO.readReqs (argNatD args "dev") (argNatD args "start") (argNatD args "size") (argNatD args "pss") 0 []
  "rs=" ++ (if rs.isEmpty then "-" else ",".intercalate (rs.map fun r => s!"{r.1}:{r.2}"))

end Driver.PartIO

def main : IO Unit := Driver.runLoop fun op args =>
  match op with
  | "partio.write" => Driver.PartIO.write args
  | "partio.read" => Driver.PartIO.read args
  | _ => "unknown-op"
