import Driver.Util
import DiskfsModel.Model.PartIO
import DiskfsModel.Model.PartDisk
namespace Driver.PartIO
open Diskfs Driver

def wsLens (ws : List Wr) : String :=
  if ws.isEmpty then "-" else ",".intercalate (ws.map fun w => s!"{w.off}:{w.data.length}")

/-- partio.write start= size= chunks=n1,n2,... → `ws=off:len,... total=N ok=0|1` -/
def write (args : List String) : String :=
  let start := argNatD args "start"
  let size := argNatD args "size"
  let chunks := (natList ((arg args "chunks").getD "-")).map fun n => List.replicate n (0 : UInt8)
  let r := Diskfs.PartIO.writeContents start size chunks
  s!"ws={wsLens r.ws}\ttotal={r.total}\tok={if r.ok then 1 else 0}"

/-- partio.read start= size= pss= dev= → `rs=off:len,...` -/
def read (args : List String) : String :=
  let rs := Diskfs.PartIO.readReqs (argNatD args "dev") (argNatD args "start") (argNatD args "size") (argNatD args "pss") 0 []
  "rs=" ++ (if rs.isEmpty then "-" else ",".intercalate (rs.map fun r => s!"{r.1}:{r.2}"))

/-! ### disk level (Model/PartDisk.lean) -/

open Diskfs.PartDisk in
/-- `kind,index,start,end,size,lss,pss;…` or `-` -/
def parseParts (s : String) : List PartDisk.P :=
  if s == "-" || s == "" then [] else
  (s.splitOn ";").filterMap fun item =>
    match item.splitOn "," with
    | [k, i, st, en, sz, l, p] =>
      some { kind := if k == "gpt" then .gpt else .mbr, index := i.toInt!, start := st.toNat!, end_ := en.toNat!,
             size := sz.toNat!, lss := l.toNat!, pss := p.toNat! }
    | _ => none

def tableOf (args : List String) : Option (List PartDisk.P) :=
  if (arg args "tbl").getD "1" == "0" then none else some (parseParts ((arg args "parts").getD "-"))

def reqsStr (rs : List (Nat × Nat)) : String :=
  if rs.isEmpty then "-" else ",".intercalate (rs.map fun r => s!"{r.1}:{r.2}")

/-- the byte pattern the engine fills partitions with: a function of the absolute offset -/
def pat (seed i : Nat) : UInt8 := UInt8.ofNat ((i * 167 + i / 251 * 13 + seed) % 256)

/-- `fills=off:len,…`: the device holds `pat seed` there and zero elsewhere -/
def patDev (args : List String) : Dev :=
  let seed := argNatD args "seed"
  let fills := (((arg args "fills").getD "-").splitOn ",").filterMap fun it =>
    match it.splitOn ":" with
    | [o, l] => some (o.toNat!, l.toNat!)
    | _ => none
  fun i => if fills.any (fun f => decide (f.1 ≤ i ∧ i < f.1 + f.2)) then pat seed i else 0

/-- partio.dwrite tbl=0|1 parts= idx= chunks=  → Disk.WritePartitionContents -/
def dwrite (args : List String) : String :=
  let chunks := (natList ((arg args "chunks").getD "-")).map fun n => List.replicate n (0 : UInt8)
  match PartDisk.diskWrite (tableOf args) ((argInt args "idx").getD 0) chunks with
  | .noTable => "res=notable"
  | .badIndex => "res=badindex"
  | .reconcileErr => "res=reconcile"
  | .done r => s!"res=done\tws={wsLens r.ws}\ttotal={r.total}\tok={if r.ok then 1 else 0}"

/-- partio.dread tbl=0|1 parts= idx= dev= seed= fills=  → Disk.ReadPartitionContents:
    the ReadAt requests, the count and a fingerprint (length, sum of bytes) of what reached the writer -/
def dread (args : List String) : String :=
  match PartDisk.diskRead (patDev args) (argNatD args "dev") (tableOf args) ((argInt args "idx").getD 0) with
  | .noTable => "res=notable"
  | .badIndex => "res=badindex"
  | .done b n rs => s!"res=done\trs={reqsStr rs}\tn={n}\tlen={b.length}\tsum={b.foldl (fun a x => a + x.toNat) 0}"

def coutStr : PartDisk.COut → String
  | .ok => "ok" | .errWrite => "errwrite" | .errRead => "errread" | .errMismatch => "errmismatch" | .errVerify => "errverify"

/-- partio.copy parts= from= to= dev= seed= fills=  → sync.CopyPartitionRaw: the WriteAt list and the outcome -/
def copy (args : List String) : String :=
  let r := PartDisk.copyRaw (patDev args) (argNatD args "dev") (parseParts ((arg args "parts").getD "-"))
    ((argInt args "from").getD 0) ((argInt args "to").getD 0)
  s!"ws={wsLens r.ws}\tout={coutStr r.out}"

/-! ### a partition value handed DIRECTLY to WriteContents / ReadContents (no Disk, no table): every spelling
    (Start+End, Start+Size with End = 0, all three fields, contradictory ones), stamped or not -/

def onePart (args : List String) : Option PartDisk.P := (parseParts ((arg args "part").getD "-")).head?

/-- partio.pwrite part=kind,idx,start,end,size,lss,pss chunks=  → Partition.WriteContents: `res=reconcile`, or the
    WriteAt list, the count, ok and the End / Size fields the call leaves on the partition -/
def pwrite (args : List String) : String :=
  let chunks := (natList ((arg args "chunks").getD "-")).map fun n => List.replicate n (0 : UInt8)
  match onePart args with
  | none => "res=nopart"
  | some p =>
    match PartDisk.partWrite p chunks with
    | none => "res=reconcile"
    | some (r, p') => s!"res=done\tws={wsLens r.ws}\ttotal={r.total}\tok={if r.ok then 1 else 0}\tend={p'.end_}\tsize={p'.size}"

/-- partio.pread part= dev=  → Partition.ReadContents: the ReadAt requests and the count returned -/
def pread (args : List String) : String :=
  match onePart args with
  | none => "res=nopart"
  | some p =>
    let dev := argNatD args "dev"
    let rs := PartDisk.partReadReqs dev p
    let n := (PartDisk.partRead (fun _ => 0) dev p).2
    s!"rs={reqsStr rs}\tn={n}"

end Driver.PartIO

def main : IO Unit := Driver.runLoop fun op args =>
  match op with
  | "partio.write" => Driver.PartIO.write args
  | "partio.read" => Driver.PartIO.read args
  | "partio.dwrite" => Driver.PartIO.dwrite args
  | "partio.dread" => Driver.PartIO.dread args
  | "partio.copy" => Driver.PartIO.copy args
  | "partio.pwrite" => Driver.PartIO.pwrite args
  | "partio.pread" => Driver.PartIO.pread args
  | _ => "unknown-op"
