import Driver.Util
import DiskfsModel.Model.Repro
import DiskfsModel.Generated.Detect
import DiskfsModel.Core.Crc
import DiskfsModel.Model.MbrTable
namespace Driver.Repro
open Diskfs Diskfs.Repro Driver

def params : Detect.Params :=
  { f12ReadGe := Generated.Detect.fat12ReadGe, f16ReadLt := Generated.Detect.fat16ReadLt,
    f16ReadGe := Generated.Detect.fat16ReadGe, f12CreateGe := Generated.Detect.fat12CreateGe,
    f16CreateLt := Generated.Detect.fat16CreateLt, f16CreateGe := Generated.Detect.fat16CreateGe,
    spc12 := Generated.Detect.fat12SpcTable, spc12d := Generated.Detect.fat12SpcDefault,
    spc16 := Generated.Detect.fat16SpcTable, spc16d := Generated.Detect.fat16SpcDefault,
    f12Max := Generated.Detect.fat12MaxSize, f16Max := Generated.Detect.fat16MaxSize,
    f32Max := Generated.Detect.fat32MaxSize,
    f12RefuseZero := Generated.Detect.fat12CreateRefusesZeroClusters,
    cb32 := Generated.Detect.fat32ClusterBytesTable, cb32d := Generated.Detect.fat32ClusterBytesDefault }

/-- repro.pack epoch=  →  the five 16-bit words of a directory entry created at that time -/
def packCase (args : List String) : String :=
  let (d, t) := timeToDateTime (argNatD args "epoch")
  s!"ctime={t}\tcdate={d}\tadate={d}\tmtime={t}\tmdate={d}"

/-- repro.create kind= size=  →  ws=off:len,... of Create relative to the volume start -/
def createCase (args : List String) : String :=
  match (if (arg args "kind") == some "fat32" then createShape32 params (argNatD args "size")
         else createShape params ((arg args "kind") == some "fat16") (argNatD args "size")) with
  | none => "refused"
  | some sh => "ws=" ++ ",".intercalate (sh.map fun p => s!"{p.1}:{p.2}")

/-- repro.image kind= size= label=<11 bytes hex> epoch=  →  ws=off:len:crc32,... : every WriteAt of Create with
    a CRC32 of its data, from the model's whole-image function -/
def imageCase (args : List String) : String :=
  let k := match arg args "kind" with
    | some "fat12" => FatKind.f12
    | some "fat16" => FatKind.f16
    | _ => FatKind.f32
  let label := ((argHex args "label").getD []).map (·.toNat)
  match createImage params k (argNatD args "size") label (argNatD args "epoch") with
  | none => "refused"
  | some ws => "ws=" ++ ",".intercalate (ws.map fun w => s!"{w.off}:{w.data.length}:{crc32 w.data}")

/-- repro.mbrrw sec=<the 512 bytes of sector 0, hex> lbs= pbs=  →  mbr.Read, then Table.Write of what was read:
    `res=ok ws=off:hex same=0|1` (same: every byte written equals the byte already there) | `res=noread` | `res=refused` -/
def mbrRewriteCase (args : List String) : String :=
  let sec := ((argHex args "sec").getD []).toArray
  let d : Dev := fun i => sec.getD i 0
  match (Mbr.readT d (argNatD args "size") ((argInt args "lbs").getD 512) ((argInt args "pbs").getD 512)).1 with
  | .ok t =>
    match Mbr.writeT t with
    | some ws =>
      let same := ws.all fun w => readAt d w.off w.data.length == w.data
      s!"res=ok\tlss={t.lss}\tpss={t.pss}\tws={wrsStr ws}\tsame={if same then 1 else 0}"
    | none => "res=refused"
  | _ => "res=noread"

end Driver.Repro

def main : IO Unit := Driver.runLoop fun op args =>
  match op with
  | "repro.pack" => Driver.Repro.packCase args
  | "repro.create" => Driver.Repro.createCase args
  | "repro.image" => Driver.Repro.imageCase args
  | "repro.mbrrw" => Driver.Repro.mbrRewriteCase args
  | _ => "unknown-op"
