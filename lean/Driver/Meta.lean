import Driver.Util
import DiskfsModel.Model.MetaCodec
import DiskfsModel.Model.Ext4.InodeCodec
import DiskfsModel.Model.Ext4.InodeAttrBytes
import DiskfsModel.Model.Ext4.InodeWriteBack
import DiskfsModel.Model.MetaRR
import DiskfsModel.Model.MetaSqfs
import DiskfsModel.Model.MetaSqXattr
import DiskfsModel.Generated.Meta
namespace Driver.Meta
open Diskfs Driver Diskfs.Meta Diskfs.Ext4.InodeCodec

def sqCfg : SqCfg := ⟨Diskfs.Generated.Meta.sqModeUnixBits⟩

def n (args : List String) (k : String) : Nat := argNatD args k
def i (args : List String) (k : String) : Int := (argInt args k).getD 0
def bn (b : Bool) : Nat := if b then 1 else 0

def fatdt (args : List String) : String :=
  let c : Civil := ⟨n args "y", n args "mo", n args "d", n args "h", n args "mi", n args "s"⟩
  let (d, t) := fatPack c
  let u := fatUnpack d t
  s!"d={d}\tt={t}\tu={u.year}-{u.month}-{u.day}-{u.hour}-{u.minute}-{u.second}"

def civilOf (s : String) : Civil :=
  match (s.splitOn "-").map String.toNat! with
  | [y, mo, d, h, mi, se] => ⟨y, mo, d, h, mi, se⟩
  | _ => ⟨0, 0, 0, 0, 0, 0⟩

def civilStr (c : Civil) : String := s!"{c.year}-{c.month}-{c.day}-{c.hour}-{c.minute}-{c.second}"

/-- meta.fatchtimes c=<civil> a=<civil> m=<civil> → the entry's three stamps after encode + parse -/
def fatchtimes (args : List String) : String :=
  let g := fun k => civilOf ((arg args k).getD "")
  let d := fatTimesDec (fatTimesEnc ⟨g "c", g "m", g "a"⟩)
  s!"cr={civilStr d.create}\tmo={civilStr d.modify}\tac={civilStr d.access}"

def fatattr (args : List String) : String :=
  let v := n args "v"
  let a := fatAttrDec v
  let enc := fatAttrEnc a
  let d := fatAttrDec (n args "raw")
  s!"byte={enc}\tdec={fatAttrEnc d}"

def ts (args : List String) (k : String) : Ts := ⟨i args k, n args (k ++ "n")⟩

def wordsStr (w : Words) : String :=
  s!"mode={w.mode},uidLo={w.uidLo},sizeLo={w.sizeLo},atimeLo={w.atimeLo},ctimeLo={w.ctimeLo},mtimeLo={w.mtimeLo},gidLo={w.gidLo},links={w.links},flags={w.flags},sizeHi={w.sizeHi},uidHi={w.uidHi},gidHi={w.gidHi},ctimeExtra={w.ctimeExtra},mtimeExtra={w.mtimeExtra},atimeExtra={w.atimeExtra},crtimeLo={w.crtimeLo},crtimeExtra={w.crtimeExtra}"

def attrsStr (a : Attrs) : String :=
  -- time.Unix(sec, nsec) normalises nanoseconds beyond one second (Go's time package, not modelled)
  let t := fun (x : Ts) => s!"{x.sec + (x.nsec / 1000000000 : Nat)}.{x.nsec % 1000000000}"
  s!"ft={a.ftype},perm={a.perm},uid={a.uid},gid={a.gid},size={a.size},links={a.links},flags={a.flags},at={t a.atime},ct={t a.ctime},mt={t a.mtime},cr={t a.crtime},gomode={statMode a.ftype a.perm}"

def ext4enc (args : List String) : String :=
  let a : Attrs := ⟨n args "ft", n args "perm", n args "uid", n args "gid", n args "size", n args "links",
    n args "flags", ts args "at", ts args "ct", ts args "mt", ts args "cr"⟩
  s!"w={wordsStr (enc a)}\tback={attrsStr (dec (enc a))}"

def ext4dec (args : List String) : String :=
  let w : Words := ⟨n args "mode", n args "uidLo", n args "sizeLo", n args "atimeLo", n args "ctimeLo",
    n args "mtimeLo", n args "gidLo", n args "links", n args "flags", n args "sizeHi", n args "uidHi", n args "gidHi",
    n args "ctimeExtra", n args "mtimeExtra", n args "atimeExtra", n args "crtimeLo", n args "crtimeExtra"⟩
  s!"a={attrsStr (dec w)}"

/-- meta.ext4frame op=chmod|chown|chtimes before=<inode record, hex> + the setter's arguments (uid/gid -1: unchanged)
    → the record afterwards with the checksum fields blanked, and the attributes it decodes to -/
def ext4frame (args : List String) : String :=
  match argHex args "before" with
  | none => "bad-input"
  | some b =>
    let opt := fun (k : String) => let v := i args k; if v < 0 then none else some v.toNat
    let after :=
      match (arg args "op").getD "" with
      | "chmod" => chmodBytes b (n args "perm")
      | "chown" => chownBytes b (opt "uid") (opt "gid")
      | "chtimes" => chtimesBytes b (ts args "cr") (ts args "at") (ts args "mt")
      | _ => b
    s!"after={toHex (blankCsum after)}\tattrs={attrsStr (attrsOf after)}"

def goMode (args : List String) : GoMode := ⟨n args "perm", n args "su" == 1, n args "sg" == 1, n args "st" == 1⟩
def goModeStr (m : GoMode) : String := s!"{m.perm}/{bn m.setuid}{bn m.setgid}{bn m.sticky}"

def sqhdr (args : List String) : String :=
  let m := goMode args
  let w := sqModeEnc sqCfg m
  let tw := sqTimeEnc (i args "mtime")
  s!"mode={w}\ttime={tw}\tdmode={goModeStr (sqModeDec sqCfg w)}\tdtime={sqTimeDec tw}"

def natsStr (xs : List Nat) : String := if xs.isEmpty then "-" else ",".intercalate (xs.map toString)

def sqids (args : List String) : String :=
  let ids := natList ((arg args "ids").getD "-")
  let (tbl, idx) := idIndexAll [] ids
  s!"idx={natsStr idx}\ttbl={natsStr tbl}"

def pxKindOfNat (c : Nat) : PxKind := (pxKindOfCode c).getD .reg

def px (args : List String) : String :=
  let p : Px := ⟨pxKindOfNat (n args "kind"), goMode args, n args "links", n args "uid", n args "gid", n args "serial"⟩
  let b := pxEnc p
  match pxDec b with
  | none => s!"enc={toHex b}\tdec=none"
  | some (k, m, l, u, g) => s!"enc={toHex b}\tdec={(k.map pxKindCode).getD 0}:{goModeStr m}:{l}:{u}:{g}"

def nm (args : List String) : String :=
  match argHex args "name" with
  | none => "bad-input"
  | some name =>
    let e := nmEnc name
    let d := nmDec (e.length + 1) e
    s!"enc={if e.isEmpty then "-" else toHex e}\tdec={if d.isEmpty then "-" else toHex d}"

/-! ### Rock Ridge time stamps, TF, PX big-endian halves -/

def intOf (s : String) : Int := s.toInt?.getD 0

/-- y:mo:d:h:mi:s:cs:off -/
def stampOf (s : String) : Stamp :=
  match s.splitOn ":" with
  | [y, mo, d, h, mi, se, cs, off] => ⟨intOf y, mo.toNat!, d.toNat!, h.toNat!, mi.toNat!, se.toNat!, cs.toNat!, intOf off⟩
  | _ => ⟨0, 0, 0, 0, 0, 0, 0, 0⟩

def stampStr (s : Stamp) : String := s!"{s.year}:{s.month}:{s.day}:{s.hour}:{s.minute}:{s.second}:{s.csec}:{s.offset}"

def stamp7 (args : List String) : String :=
  let e := stamp7Enc (stampOf ((arg args "t").getD ""))
  s!"enc={toHex e}\tdec={stampStr (stamp7Dec e)}"

def stamp17 (args : List String) : String :=
  let e := stamp17Enc (stampOf ((arg args "t").getD ""))
  s!"enc={toHex e}\tdec={match stamp17Dec e with | none => "none" | some d => stampStr d}"

def stamp17dec (args : List String) : String :=
  match argHex args "b" with
  | none => "bad-input"
  | some b => s!"dec={match stamp17Dec b with | none => "none" | some d => stampStr d}"

def slotsStr (sl : List (Option Stamp)) : String :=
  ",".intercalate (sl.map fun x => match x with | none => "-" | some s => stampStr s)

/-- meta.tf long=0|1 s1=<stamp> s2=… s64=… (absent kinds are not recorded) → the record and what parseTimestamps makes of it -/
def tf (args : List String) : String :=
  let long := n args "long" == 1
  let slots := [1, 2, 4, 8, 16, 32, 64].map fun k => (arg args s!"s{k}").map stampOf
  let e := tfEnc ⟨long, slots⟩
  match tfDec e with
  | none => s!"enc={toHex e}\tdec=none"
  | some t => s!"enc={toHex e}\tdec={bn t.long}/{slotsStr t.slots}"

def tfdec (args : List String) : String :=
  match argHex args "b" with
  | none => "bad-input"
  | some b =>
    match tfDec b with
    | none => "dec=none"
    | some t => s!"dec={bn t.long}/{slotsStr t.slots}"

def pxbe (args : List String) : String :=
  let p : Px := ⟨pxKindOfNat (n args "kind"), goMode args, n args "links", n args "uid", n args "gid", n args "serial"⟩
  let (a, b, c, d) := pxBigEndian (pxEnc p)
  let (a2, b2, c2, d2) := pxLittleEndian (pxEnc p)
  s!"be={a}:{b}:{c}:{d}\tle={a2}:{b2}:{c2}:{d2}"

/-! ### squashfs: id table blocks, the other inode types -/

/-- meta.sqidblk n= base= step= widen= : ids base, base+step, … (mod 2^32) written in blocks and read back -/
def sqidblk (args : List String) : String :=
  let cnt := n args "n"
  let ids := (List.range cnt).map fun j => (n args "base" + j * n args "step") % 4294967296
  let blocks := idBlocksWr ids
  let back := readIds (n args "widen" == 1) cnt blocks
  s!"blocks={blocks.length}\tread={back.length}\tsum={back.foldl (fun a x => (a + x) % 4294967296) 0}\tlast={back.getLast?.getD 0}"

def sqx (args : List String) : String :=
  let typ := n args "typ"
  let h : XHdr := ⟨typ, n args "mode", n args "uid", n args "gid", n args "mtime", n args "index"⟩
  let links := n args "links"
  let xa := n args "xattr"
  let w := devWord (n args "major") (n args "minor")
  let body : XBody :=
    if typ == 10 then .lnk links ((argHex args "target").getD []) xa
    else if typ == 4 || typ == 5 then .dev links w
    else if typ == 11 || typ == 12 then .devx links w xa
    else if typ == 6 || typ == 7 then .ipc links
    else .ipcx links xa
  let e := encX h body
  match decX e with
  | none => s!"enc={toHex e}\tdec=none"
  | some (h2, b2, rest) =>
    let bs := match b2 with
      | .lnk l t x => s!"lnk:{l}:{if t.isEmpty then "-" else toHex t}:{x}"
      | .dev l w2 => s!"dev:{l}:{(devSplit w2).1}:{(devSplit w2).2}"
      | .devx l w2 x => s!"devx:{l}:{(devSplit w2).1}:{(devSplit w2).2}:{x}"
      | .ipc l => s!"ipc:{l}"
      | .ipcx l x => s!"ipcx:{l}:{x}"
    s!"enc={toHex e}\tdec={h2.typ}:{h2.mode}:{h2.uid}:{h2.gid}:{h2.mtime}:{h2.index}/{bs}/{rest.length}\tbits={sqTypeBits h2.typ}"

/-! ### ext4: the setters through the library's read-modify-write -/

/-- meta.ext4rmw: as meta.ext4frame, through writeBack; keep=1: toBytes starts from the record read (repaired),
    keep=0: from zeros (as found) -/
def ext4rmw (args : List String) : String :=
  match argHex args "before" with
  | none => "bad-input"
  | some b =>
    let keep := n args "keep" == 1
    let opt := fun (k : String) => let v := i args k; if v < 0 then none else some v.toNat
    let after :=
      match (arg args "op").getD "" with
      | "chmod" => chmodRmw keep b (n args "perm")
      | "chown" => chownRmw keep b (opt "uid") (opt "gid")
      | "chtimes" => chtimesRmw keep b (ts args "cr") (ts args "at") (ts args "mt")
      | _ => writeBack keep b
    s!"after={toHex (blankCsum after)}"

/-- meta.sqxattr data=<key/value bytes, hex> pos= count= : xAttrTable.find for one id entry → the attributes in walk order -/
def sqxattr (args : List String) : String :=
  let data := (argHex args "data").getD []
  let hx := fun (b : Bytes) => if b.isEmpty then "-" else toHex b
  match Diskfs.Meta.SqXattr.find true data (n args "pos") (n args "count") with
  | none => "err"
  | some kvs => s!"n={kvs.length}\tkv={",".intercalate (kvs.map fun (k, v) => hx k ++ ":" ++ hx v)}"

end Driver.Meta

def main : IO Unit := Driver.runLoop fun op args =>
  match op with
  | "meta.fatdt" => Driver.Meta.fatdt args
  | "meta.fatattr" => Driver.Meta.fatattr args
  | "meta.fatchtimes" => Driver.Meta.fatchtimes args
  | "meta.ext4enc" => Driver.Meta.ext4enc args
  | "meta.ext4dec" => Driver.Meta.ext4dec args
  | "meta.ext4frame" => Driver.Meta.ext4frame args
  | "meta.sqhdr" => Driver.Meta.sqhdr args
  | "meta.sqids" => Driver.Meta.sqids args
  | "meta.px" => Driver.Meta.px args
  | "meta.nm" => Driver.Meta.nm args
  | "meta.stamp7" => Driver.Meta.stamp7 args
  | "meta.stamp17" => Driver.Meta.stamp17 args
  | "meta.stamp17dec" => Driver.Meta.stamp17dec args
  | "meta.tf" => Driver.Meta.tf args
  | "meta.tfdec" => Driver.Meta.tfdec args
  | "meta.pxbe" => Driver.Meta.pxbe args
  | "meta.sqidblk" => Driver.Meta.sqidblk args
  | "meta.sqx" => Driver.Meta.sqx args
  | "meta.ext4rmw" => Driver.Meta.ext4rmw args
  | "meta.sqxattr" => Driver.Meta.sqxattr args
  | _ => "unknown-op"
