import Driver.Util
import DiskfsModel.Model.Ext4.ReaderCfg
import DiskfsModel.Model.Ext4.InodeDecode
import DiskfsModel.Model.Ext4.DirNow
import DiskfsModel.Model.Ext4.FeatureGate
import DiskfsModel.Model.Ext4.CsumMirror
/-!
  Driver side of the inode decoding op of C20: the MIRROR of inodeFromBytes (Model/Ext4/InodeDecode.lean).

    ext4ref.inodedec raw=HEX isz=N huge=0|1 seed=N n=N fmask=N
        → short | exterr | csum | ok, then every number the Go reader takes from the record
          (mode, ids, size, links, flags & fmask, i_blocks and its unit, generation, xattr block, version,
           i_extra_isize, dtime, project id, the four timestamps, inline link target)
    ext4ref.dirblock data=HEX bs=N
        → the MIRROR of parseDirEntriesLinear's loop as it is now on one directory block (every record, unused
          ones included) and the SPEC reader's rec_len walk of the same block (records in use)
-/
namespace Driver.Ext4Dec
open Diskfs Driver Diskfs.Ext4.Reader Diskfs.Ext4.InodeDec Diskfs.Ext4

/-- does inodeFromBytes read the extra words whatever i_extra_isize says (finding
    ext4-inode-extra-isize-ignored), as the tree is now? -/
def extraGuardedCurrent : Bool := !Diskfs.Generated.Ext4Ref.inodeExtraWordsUnguarded

/-- time.Unix(sec, nsec) normalises nanoseconds above a second into the seconds -/
def tsStr (t : InodeCodec.Ts) : String :=
  s!"{t.sec + (t.nsec / 1000000000 : Nat)}.{t.nsec % 1000000000}"

def b2s (b : Bool) : String := if b then "1" else "0"

def fieldsStr (g : GoInode) (fmask : Nat) : String :=
  let fast := goFast g.mode g.size
  let tgt := if fast then inlineTarget g.iblock g.size else []
  s!"mode={g.mode}\tuid={g.uid}\tgid={g.gid}\tsize={g.size}\tlinks={g.links}\tflags={g.flags &&& fmask}\tblocks={g.blocks}\tfsb={b2s g.fsBlocks}\tgen={g.gen}\tacl={g.fileAcl}\tver={g.version}\textra={g.extra}\tdtime={g.dtime}\tproj={g.project}\tat={tsStr g.atime}\tct={tsStr g.ctime}\tmt={tsStr g.mtime}\tcr={tsStr g.crtime}\tfast={b2s fast}\ttgt={if tgt.isEmpty then "-" else toHex tgt}"

def inodedec (args : List String) : String :=
  match argHex args "raw" with
  | none => "bad-input"
  | some b =>
    let isz := argNatD args "isz"
    let huge := argNatD args "huge" == 1
    let seed := UInt32.ofNat (argNatD args "seed")
    let n := argNatD args "n"
    let fmask := argNatD args "fmask"
    if !goAcceptsLen b.length isz then "short"
    else
      let raw := b.take isz
      let g := goDecode extraGuardedCurrent huge isz raw
      let fast := goFast g.mode g.size
      let extBad := !fast && hasBit g.flags 0x80000 &&
        (match parseNode g.iblock with
         | .ok _ => false
         | _ => true)
      if extBad then "exterr"
      else if !goCsumOk seed n raw then "csum"
      else "ok\t" ++ fieldsStr g fmask

def entStr (es : List (Nat × Nat × Bytes)) : String :=
  if es.isEmpty then "-" else
  ",".intercalate (es.map fun e => s!"{e.1}:{e.2.1}:{if e.2.2.isEmpty then "-" else toHex e.2.2}")

def dirblock (args : List String) : String :=
  match argHex args "data" with
  | none => "bad-input"
  | some data =>
    let bs := argNatD args "bs"
    match parseEntriesNow (data.length / 8 + 2) data with
    | .ok es =>
      let live := match Spec.dirWalk bs (bs / 8 + 2) data 0 [] with
        | .ok ds => entStr (ds.map fun (d : Spec.Dirent) => (d.ino, d.ftype, d.name))
        | .error _ => "!"
      s!"ok\tes={entStr (es.map fun (e : DirEnt) => (e.inode, e.ftype, e.name))}\tlive={live}"
    | .err => "err"
    | .panic => "panic"
    | .diverge => "diverge"

/-- ext4ref.gatetbl compat=N incompat=N rocompat=N → the open decision of the regenerated gate table -/
def gatetbl (args : List String) : String :=
  s!"accept={b2s (gateAcceptsAll (argNatD args "compat") (argNatD args "incompat") (argNatD args "rocompat"))}"

/-- ext4ref.csumdec kind=sb|seed|gd|dir … → the checksum verification decision of the Go reader's mirror
      sb   data=HEX(1024)                      → ok=0|1
      seed data=HEX(1024)                      → seed=N
      gd   data=HEX(gdsize) seed=N grp=N gds=N → ok=0|1
      dir  data=HEX(block) seed=N ino=N gen=N bs=N → ok=0|1 -/
def csumdec (args : List String) : String :=
  match argHex args "data" with
  | none => "bad-input"
  | some data =>
    let seed := UInt32.ofNat (argNatD args "seed")
    match arg args "kind" with
    | some "sb" => s!"ok={b2s (goSbCsumOk data)}"
    | some "seed" => s!"seed={(goSeed data).toNat}"
    | some "gd" => s!"ok={b2s (goGdCsumOk seed (argNatD args "grp") (argNatD args "gds") data)}"
    | some "dir" => s!"ok={b2s (goDirCsumOk seed (argNatD args "ino") (argNatD args "gen") (argNatD args "bs") data)}"
    | _ => "unknown-kind"

end Driver.Ext4Dec
