import Driver.Util
import Driver.Selftest
import Driver.PartIO
namespace Driver

/-- engine.op ↦ handler. Every handler maps the argument list to one canonical result line. -/
def dispatch (op : String) (args : List String) : String :=
  match op with
  | "selftest.crc" => Selftest.crc args
  | "selftest.le" => Selftest.le args
  | "partio.write" => PartIO.write args
  | _ => "unknown-op"

partial def loop (h : IO.FS.Stream) (out : IO.FS.Stream) : IO Unit := do
  let line ← h.getLine
  if line.isEmpty then return ()
  let line := (line.dropEndWhile (fun c => c == '\n' || c == '\r')).toString
  match line.splitOn "\t" with
  | "case" :: id :: op :: args =>
    out.putStrLn s!"model\t{id}\t{dispatch op args}"
  | _ => pure ()
  loop h out

end Driver

def main : IO Unit := do
  let out ← IO.getStdout
  Driver.loop (← IO.getStdin) out
  out.flush
