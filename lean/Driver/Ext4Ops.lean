import Driver.Util
import DiskfsModel.Model.Ext4.Bitmap
import DiskfsModel.Model.Ext4.FileIO
import DiskfsModel.Model.Ext4.DirPack
import DiskfsModel.Model.Ext4.Alloc
namespace Driver.Ext4Ops
open Diskfs Diskfs.Ext4 Driver

def hexOr (b : Bytes) : String := if b.isEmpty then "-" else toHex b

def joinOr (xs : List String) : String := if xs.isEmpty then "-" else ",".intercalate xs

/-- ext=fb:start:count,... -/
def parseExtents (s : String) : List Extent :=
  if s == "-" || s == "" then [] else
  (s.splitOn ",").filterMap fun t =>
    match (t.splitOn ":").filterMap String.toNat? with
    | [a, b, c] => some ⟨a, b, c⟩
    | _ => none

def iosStr (ws : List (Int × Bytes)) : String := joinOr (ws.map fun p => s!"{p.1}:{p.2.length}")

/-- pattern device of the engine's read cases: the byte at device offset p is p*7+3 -/
def patDev : Dev := fun p => UInt8.ofNat (p * 7 + 3)

/-- FNV-1a (32 bit) of the bytes read, so that the data itself is part of the comparison -/
def fnv (b : Bytes) : Nat := b.foldl (fun h x => ((h ^^^ x.toNat) * 16777619) % 4294967296) 2166136261

def rw (args : List String) : String :=
  let bs := argNatD args "bs" 1024
  let size := argNatD args "size"
  let off := argNatD args "off"
  let n := argNatD args "n"
  let lt := argNatD args "lt" == 1
  let cum := argNatD args "cum" == 1
  let es := parseExtents ((arg args "ext").getD "-")
  match arg args "op" with
  | some "read" =>
    match readE lt patDev bs es size off n with
    | .ok r => s!"io={joinOr (r.ios.map fun p => s!"{p.1}:{p.2}")}\tn={r.data.length}\teof={if r.eof then 1 else 0}\toff={r.off}\tfnv={fnv r.data}"
    | .panic => "panic"
    | .weird => "weird"
    | .needAlloc => "needalloc"
    | .err => "err"
  | some "write" =>
    match writeE lt cum bs es size off (List.replicate n 0) with
    | .ok r => s!"io={iosStr r.ws}\tn={r.written}\tsize={r.size}\toff={r.off}"
    | .panic => "panic"
    | .needAlloc => "needalloc"
    | .err r => s!"err\tio={iosStr r.ws}\tn={r.written}\tsize={r.size}\toff={r.off}"
  | _ => "unknown-op"

def bitmapOp (args : List String) : String :=
  let bm := (argHex args "bm").getD []
  let loc := (argInt args "loc").getD 0
  match arg args "op" with
  | some "set" => match Bitmap.set bm loc with
    | .ok b => s!"bm={hexOr b}" | .err => "err" | .panic => "panic"
  | some "clear" => match Bitmap.clear bm loc with
    | .ok b => s!"bm={hexOr b}" | .err => "err" | .panic => "panic"
  | some "isset" => match Bitmap.isSet bm loc with
    | .ok v => s!"v={if v then 1 else 0}" | .err => "err" | .panic => "panic"
  | some "firstfree" => s!"v={Bitmap.firstFree bm loc}"
  | some "firstset" => s!"v={Bitmap.firstSet bm}"
  | some "freelist" => s!"runs={joinOr ((Bitmap.freeList bm).map fun r => s!"{r.1}+{r.2}")}"
  | _ => "unknown-op"

def zeroTail : Bytes → Bytes := fun _ => [0, 0, 0, 0, 12, 0, 0, 0xde, 0, 0, 0, 0]

def dirpack (args : List String) : String :=
  let bs := argNatD args "bs" 1024
  let csum := argNatD args "csum" == 1
  let ents : List DirPack.Entry := (((arg args "ents").getD "").splitOn ",").filterMap fun t =>
    match t.splitOn ":" with
    | [a, b, c] => match a.toNat?, b.toNat?, fromHex c with
      | some i, some ty, some nm => some ⟨i, nm, ty⟩
      | _, _, _ => none
    | _ => none
  s!"out={hexOr (DirPack.pack bs csum zeroTail ents)}"

/-- runs "p+c,p+c" → bits of length `len` (true = in use) -/
def bitsOfRuns (len : Nat) (s : String) : Alloc.Bits :=
  let runs : List (Nat × Nat) := if s == "-" || s == "" then [] else
    (s.splitOn ",").filterMap fun t => match (t.splitOn "+").filterMap String.toNat? with
      | [p, c] => some (p, c) | _ => none
  runs.foldl (fun b r => Alloc.clearRun b r.1 r.2) (List.replicate len true)

def allocFast (args : List String) : String :=
  let n := argNatD args "n"
  let fdb := argNatD args "fdb"
  let bpg := argNatD args "bpg"
  let sbfree := argNatD args "sbfree"
  let groups := (((arg args "runs").getD "").splitOn "/").map (bitsOfRuns bpg)
  if sbfree < n then "none" else
  match Alloc.fastPick groups n with
  | some (g, p) => s!"ext={fdb + g * bpg + p}+{n}"
  | none => "none"

def natsStr (xs : List Nat) : String := joinOr (xs.map toString)

def intList (s : String) : List Int :=
  if s == "-" || s == "" then [] else (s.splitOn ",").filterMap String.toInt?

/-- ext4acc.step: replay the observed bitmap changes through the accounting machine -/
def accStep (args : List String) : String :=
  let gfb := natList ((arg args "gfb").getD "-")
  let gfi := natList ((arg args "gfi").getD "-")
  let bmfb := natList ((arg args "bmfb").getD "-")
  let bmfi := natList ((arg args "bmfi").getD "-")
  let db := intList ((arg args "db").getD "-")
  let di := intList ((arg args "di").getD "-")
  let ng := gfb.length
  let idx := List.range ng
  let groups : List Alloc.Group := idx.map fun g =>
    let fb := bmfb.getD g 0
    let fi := bmfi.getD g 0
    let ub := (db.getD g 0).toNat
    let ui := (di.getD g 0).toNat
    { bbm := List.replicate fb false ++ List.replicate ub true,
      ibm := List.replicate fi false ++ List.replicate ui true,
      freeBlocks := gfb.getD g 0, freeInodes := gfi.getD g 0, usedDirs := 0 }
  let s0 : Alloc.Acc := ⟨groups, argNatD args "sbfb", argNatD args "sbfi"⟩
  -- blocks: allocations first (the code allocates before it releases), then releases
  let allocs : List Alloc.Run := idx.filterMap fun g =>
    let d := db.getD g 0
    if d < 0 then some (g, 0, (-d).toNat) else none
  let frees : List Alloc.Run := idx.filterMap fun g =>
    let d := db.getD g 0
    if d > 0 then some (g, bmfb.getD g 0, d.toNat) else none
  let nalloc := (allocs.map (·.2.2)).sum
  let r1 := if nalloc == 0 then Alloc.Res.ok s0 else Alloc.allocExtents s0 nalloc (some allocs)
  match r1 with
  | .refused _ => "model-refused-alloc"
  | .ok s1 =>
    match (if frees.isEmpty then Alloc.Res.ok s1 else Alloc.deallocExtents s1 frees) with
    | .refused _ => "model-refused-dealloc"
    | .ok s2 =>
      -- inodes
      let nNew := (idx.map fun g => (-(di.getD g 0)).toNat).sum
      let rec newInodes : Nat → Alloc.Acc → Option Alloc.Acc
        | 0, s => some s
        | k + 1, s => match Alloc.allocInode s false with
          | .ok s' => newInodes k s'
          | .refused _ => none
      match newInodes nNew s2 with
      | none => "model-refused-inode"
      | some s3 =>
        let s4 := idx.foldl (fun s g =>
          let d := di.getD g 0
          if d > 0 then (List.range d.toNat).foldl (fun s j => Alloc.freeInodeAt s g (bmfi.getD g 0 + j) false) s else s) s3
        let inv := if decide (Alloc.AccInv s4) then 1 else 0
        s!"sbfb={s4.sbFreeBlocks}\tsbfi={s4.sbFreeInodes}\tgfb={natsStr (s4.groups.map (·.freeBlocks))}\tgfi={natsStr (s4.groups.map (·.freeInodes))}\tinv={inv}"

end Driver.Ext4Ops

def main : IO Unit := Driver.runLoop fun op args =>
  match op with
  | "ext4.rw" => Driver.Ext4Ops.rw args
  | "ext4.bitmap" => Driver.Ext4Ops.bitmapOp args
  | "ext4.dirpack" => Driver.Ext4Ops.dirpack args
  | "ext4alloc.fast" => Driver.Ext4Ops.allocFast args
  | "ext4acc.step" => Driver.Ext4Ops.accStep args
  | _ => "unknown-op"
