import Driver.Util
import Driver.Ext4Tree
import Driver.Ext4Path
import Driver.Ext4Dir
import DiskfsModel.Model.Ext4.Bitmap
import DiskfsModel.Model.Ext4.FileIO
import DiskfsModel.Model.Ext4.DirPack
import DiskfsModel.Model.Ext4.DirCsum
import DiskfsModel.Model.Ext4.Alloc
import DiskfsModel.Model.Ext4.AllocSlow
import DiskfsModel.Model.Ext4.Own
import DiskfsModel.Model.Ext4.Links
namespace Driver.Ext4Ops
open Diskfs Diskfs.Ext4 Driver

def hexOr (b : Bytes) : String := if b.isEmpty then "-" else toHex b

def joinOr (xs : List String) : String := if xs.isEmpty then "-" else ",".intercalate xs

/-- ext=fb:start:count,... -/
def parseExtents (s : String) : List Extent :=
  if s == "-" || s == "" then [] else
  (s.splitOn ",").filterMap fun t =>
    match (t.splitOn ":").filterMap String.toNat? with
    | [a, b, c] => some ⟨a, b, c⟩
    | _ => none

def iosStr (ws : List (Int × Bytes)) : String := joinOr (ws.map fun p => s!"{p.1}:{p.2.length}")

/-- pattern device of the engine's read cases: the byte at device offset p is p*7+3 -/
def patDev : Dev := fun p => UInt8.ofNat (p * 7 + 3)

/-- FNV-1a (32 bit) of the bytes read, so that the data itself is part of the comparison -/
def fnv (b : Bytes) : Nat := b.foldl (fun h x => ((h ^^^ x.toNat) * 16777619) % 4294967296) 2166136261

def rw (args : List String) : String :=
  let bs := argNatD args "bs" 1024
  let size := argNatD args "size"
  let off := argNatD args "off"
  let n := argNatD args "n"
  let lt := argNatD args "lt" == 1
  let cum := argNatD args "cum" == 1
  let zf := argNatD args "zf" == 1
  let es := parseExtents ((arg args "ext").getD "-")
  match arg args "op" with
  | some "read" =>
    -- `skipneg=1`: File.Read has the guard `if leftInExtent < 0 { continue }` (readES false = readE)
    match readES (argNatD args "skipneg" == 1) lt patDev bs es size off n with
    | .ok r => s!"io={joinOr (r.ios.map fun p => s!"{p.1}:{p.2}")}\tn={r.data.length}\teof={if r.eof then 1 else 0}\toff={r.off}\tfnv={fnv r.data}"
    | .panic => "panic"
    | .weird => "weird"
    | .needAlloc => "needalloc"
    | .err => "err"
  | some "write" =>
    match writeZ zf lt cum bs es size off (List.replicate n 0) with
    | .ok r => s!"io={iosStr r.ws}\tn={r.written}\tsize={r.size}\toff={r.off}"
    | .panic => "panic"
    | .needAlloc => "needalloc"
    | .err r => s!"err\tio={iosStr r.ws}\tn={r.written}\tsize={r.size}\toff={r.off}"
  | _ => "unknown-op"

def bitmapOp (args : List String) : String :=
  let bm := (argHex args "bm").getD []
  let loc := (argInt args "loc").getD 0
  match arg args "op" with
  | some "set" => match Bitmap.set bm loc with
    | .ok b => s!"bm={hexOr b}" | .err => "err" | .panic => "panic"
  | some "clear" => match Bitmap.clear bm loc with
    | .ok b => s!"bm={hexOr b}" | .err => "err" | .panic => "panic"
  | some "isset" => match Bitmap.isSet bm loc with
    | .ok v => s!"v={if v then 1 else 0}" | .err => "err" | .panic => "panic"
  | some "firstfree" => s!"v={Bitmap.firstFree bm loc}"
  | some "firstset" => s!"v={Bitmap.firstSet bm}"
  | some "freelist" => s!"runs={joinOr ((Bitmap.freeList bm).map fun r => s!"{r.1}+{r.2}")}"
  | _ => "unknown-op"

def zeroTail : Bytes → Bytes := fun _ => [0, 0, 0, 0, 12, 0, 0, 0xde, 0, 0, 0, 0]

def dirpack (args : List String) : String :=
  let bs := argNatD args "bs" 1024
  let csum := argNatD args "csum" == 1
  let ents : List DirPack.Entry := (((arg args "ents").getD "").splitOn ",").filterMap fun t =>
    match t.splitOn ":" with
    | [a, b, c] => match a.toNat?, b.toNat?, fromHex c with
      | some i, some ty, some nm => some ⟨i, nm, ty⟩
      | _, _, _ => none
    | _ => none
  s!"out={hexOr (DirPack.pack bs csum zeroTail ents)}"

/-- zero the checksum field (last 4 bytes) of every `bs`-sized block -/
def maskCsum (bs : Nat) : (fuel : Nat) → Bytes → Bytes
  | 0, b => b
  | fuel + 1, b =>
    if b.length < bs || bs < 4 then b
    else (b.take (bs - 4) ++ [0, 0, 0, 0]) ++ maskCsum bs fuel (b.drop bs)

def parseEnts (s : String) : List DirPack.Entry :=
  (s.splitOn ",").filterMap fun t =>
    match t.splitOn ":" with
    | [a, b, c] => match a.toNat?, b.toNat?, fromHex c with
      | some i, some ty, some nm => some ⟨i, nm, ty⟩
      | _, _, _ => none
    | _ => none

/-- ext4.dirrewrite: the parent directory's blocks before a Remove and the remaining entries → Remove's
    write-back (`pad=0`: as found, blocks behind the re-packed bytes keep their contents) → the blocks afterwards -/
def dirRewrite (args : List String) : String :=
  let bs := argNatD args "bs" 1024
  let csum := argNatD args "csum" == 1
  let pad := argNatD args "pad" == 1
  let old := (argHex args "old").getD []
  let ents := parseEnts ((arg args "ents").getD "")
  match arg args "seed" with
  | some _ =>
    -- the real checksum tail: filesystem seed, the directory's inode number and generation; nothing is masked
    let out := DirPack.rewriteDir pad bs csum (DirPack.dirTail (argNatD args "seed") (argNatD args "ino") (argNatD args "gen")) old ents
    s!"out={hexOr out}"
  | none =>
  let out := DirPack.rewriteDir pad bs csum zeroTail old ents
  s!"out={hexOr (if csum then maskCsum bs out.length out else out)}"

/-- runs "p+c,p+c" → bits of length `len` (true = in use) -/
def bitsOfRuns (len : Nat) (s : String) : Alloc.Bits :=
  let runs : List (Nat × Nat) := if s == "-" || s == "" then [] else
    (s.splitOn ",").filterMap fun t => match (t.splitOn "+").filterMap String.toNat? with
      | [p, c] => some (p, c) | _ => none
  runs.foldl (fun b r => Alloc.clearRun b r.1 r.2) (List.replicate len true)

def allocFast (args : List String) : String :=
  let n := argNatD args "n"
  let fdb := argNatD args "fdb"
  let bpg := argNatD args "bpg"
  let sbfree := argNatD args "sbfree"
  let groups := (((arg args "runs").getD "").splitOn "/").map (bitsOfRuns bpg)
  if sbfree < n then "none" else
  match Alloc.fastPick groups n with
  | some (g, p) => s!"ext={fdb + g * bpg + p}+{n}"
  | none => "none"

/-- ext4alloc.policy: allocateExtents' whole choice of blocks (fast path, else slow path). `hint` lists the start
    blocks of the extents the real code returned, in its order: it only decides the order among pieces of EQUAL
    size, which sort.Slice leaves unspecified. -/
def allocPolicyOp (args : List String) : String :=
  let n := argNatD args "n"
  let fdb := argNatD args "fdb"
  let bpg := argNatD args "bpg"
  let sbfree := argNatD args "sbfree"
  let groups := (((arg args "runs").getD "").splitOn "/").map (bitsOfRuns bpg)
  let hintAbs := natList ((arg args "hint").getD "-")
  let hint : Nat → List Nat := fun g =>
    hintAbs.filterMap fun a => if fdb + g * bpg ≤ a ∧ a < fdb + (g + 1) * bpg then some (a - fdb - g * bpg) else none
  if n == 0 || sbfree < n then "none" else
  match Alloc.allocPolicy (Alloc.hintOrder hint) groups n with
  | none => "none"
  | some rs =>
    let step := fun (acc : List String × Nat) (r : Alloc.Run) =>
      (acc.1 ++ [s!"{acc.2}:{fdb + r.1 * bpg + r.2.1}:{r.2.2}"], acc.2 + r.2.2)
    s!"ext={joinOr (rs.foldl step ([], 0)).1}"

def natsStr (xs : List Nat) : String := joinOr (xs.map toString)

def intList (s : String) : List Int :=
  if s == "-" || s == "" then [] else (s.splitOn ",").filterMap String.toInt?

/-- ext4acc.step: replay the observed bitmap changes through the accounting machine -/
def accStep (args : List String) : String :=
  let gfb := natList ((arg args "gfb").getD "-")
  let gfi := natList ((arg args "gfi").getD "-")
  let bmfb := natList ((arg args "bmfb").getD "-")
  let bmfi := natList ((arg args "bmfi").getD "-")
  let db := intList ((arg args "db").getD "-")
  let di := intList ((arg args "di").getD "-")
  let ng := gfb.length
  let idx := List.range ng
  let groups : List Alloc.Group := idx.map fun g =>
    let fb := bmfb.getD g 0
    let fi := bmfi.getD g 0
    let ub := (db.getD g 0).toNat
    let ui := (di.getD g 0).toNat
    { bbm := List.replicate fb false ++ List.replicate ub true,
      ibm := List.replicate fi false ++ List.replicate ui true,
      freeBlocks := gfb.getD g 0, freeInodes := gfi.getD g 0, usedDirs := 0 }
  let s0 : Alloc.Acc := ⟨groups, argNatD args "sbfb", argNatD args "sbfi"⟩
  -- blocks: allocations first (the code allocates before it releases), then releases
  let allocs : List Alloc.Run := idx.filterMap fun g =>
    let d := db.getD g 0
    if d < 0 then some (g, 0, (-d).toNat) else none
  let frees : List Alloc.Run := idx.filterMap fun g =>
    let d := db.getD g 0
    if d > 0 then some (g, bmfb.getD g 0, d.toNat) else none
  let nalloc := (allocs.map (·.2.2)).sum
  let r1 := if nalloc == 0 then Alloc.Res.ok s0 else Alloc.allocExtents s0 nalloc (some allocs)
  match r1 with
  | .refused _ => "model-refused-alloc"
  | .ok s1 =>
    match (if frees.isEmpty then Alloc.Res.ok s1 else Alloc.deallocExtents s1 frees) with
    | .refused _ => "model-refused-dealloc"
    | .ok s2 =>
      -- inodes
      let nNew := (idx.map fun g => (-(di.getD g 0)).toNat).sum
      let rec newInodes : Nat → Alloc.Acc → Option Alloc.Acc
        | 0, s => some s
        | k + 1, s => match Alloc.allocInode s false with
          | .ok s' => newInodes k s'
          | .refused _ => none
      match newInodes nNew s2 with
      | none => "model-refused-inode"
      | some s3 =>
        let s4 := idx.foldl (fun s g =>
          let d := di.getD g 0
          if d > 0 then (List.range d.toNat).foldl (fun s j => Alloc.freeInodeAt s g (bmfi.getD g 0 + j) false) s else s) s3
        let inv := if decide (Alloc.AccInv s4) then 1 else 0
        s!"sbfb={s4.sbFreeBlocks}\tsbfi={s4.sbFreeInodes}\tgfb={natsStr (s4.groups.map (·.freeBlocks))}\tgfi={natsStr (s4.groups.map (·.freeInodes))}\tinv={inv}"

/-- util/bitmap byte order (bit i = byte i/8, bit i%8 counted from the least significant) → the first `n` bits -/
def bitsOfHex (n : Nat) (h : String) : Alloc.Bits :=
  (((fromHex h).getD []).flatMap fun x => (List.range 8).map fun k => (x.toNat >>> k) % 2 == 1).take n

def runsStr (rs : List (Nat × Nat)) : String := joinOr (rs.map fun r => s!"{r.1}+{r.2}")

/-- "start+count,..." → the single blocks, in order -/
def blocksOfRuns (s : String) : List Nat :=
  if s == "-" || s == "" then [] else
  (s.splitOn ",").flatMap fun t => match (t.splitOn "+").filterMap String.toNat? with
    | [p, c] => (List.range c).map (p + ·)
    | _ => []

/-- ext4acc.remove: the image before a Remove (bitmaps, counters) and the removed inode's blocks → the machine's
    Remove step → bitmaps and counters afterwards -/
def accRemove (args : List String) : String :=
  let geo : Alloc.Geom := ⟨argNatD args "fdb", argNatD args "bpg", argNatD args "ipg"⟩
  let bbm := ((arg args "bbm").getD "").splitOn "/"
  let ibm := ((arg args "ibm").getD "").splitOn "/"
  let gfb := natList ((arg args "gfb").getD "-")
  let gfi := natList ((arg args "gfi").getD "-")
  let gud := natList ((arg args "gud").getD "-")
  let groups : List Alloc.Group := (List.range gfb.length).map fun g =>
    { bbm := bitsOfHex geo.bpg (bbm.getD g ""), ibm := bitsOfHex geo.ipg (ibm.getD g ""),
      freeBlocks := gfb.getD g 0, freeInodes := gfi.getD g 0, usedDirs := gud.getD g 0 }
  let s0 : Alloc.Acc := ⟨groups, argNatD args "sbfb", argNatD args "sbfi"⟩
  let blocks := blocksOfRuns ((arg args "blocks").getD "-")
  match Alloc.step s0 (.remove geo (argNatD args "ino") blocks (argNatD args "dir" == 1)) with
  | .refused _ => "model-refused"
  | .ok s =>
    let inv := if decide (Alloc.AccInv s) then 1 else 0
    s!"sbfb={s.sbFreeBlocks}\tsbfi={s.sbFreeInodes}\tgfb={natsStr (s.groups.map (·.freeBlocks))}\tgfi={natsStr (s.groups.map (·.freeInodes))}\tgud={natsStr (s.groups.map (·.usedDirs))}\tbruns={"/".intercalate (s.groups.map fun g => runsStr (Alloc.freeRuns g.bbm))}\tiruns={"/".intercalate (s.groups.map fun g => runsStr (Alloc.freeRuns g.ibm))}\tinv={inv}"

/-- ext4acc.dealloc: the block bitmaps and counters before deallocateExtents and the extents it is given → the
    model's release of those blocks (`fixed=0`: the group arithmetic as found) → bitmaps and counters afterwards -/
def accDealloc (args : List String) : String :=
  let geo : Alloc.Geom := ⟨argNatD args "fdb", argNatD args "bpg", 1⟩
  let bbm := ((arg args "bbm").getD "").splitOn "/"
  let gfb := natList ((arg args "gfb").getD "-")
  let groups : List Alloc.Group := (List.range gfb.length).map fun g =>
    { bbm := bitsOfHex geo.bpg (bbm.getD g ""), ibm := [], freeBlocks := gfb.getD g 0, freeInodes := 0, usedDirs := 0 }
  let s0 : Alloc.Acc := ⟨groups, argNatD args "sbfb", 0⟩
  let blocks := blocksOfRuns ((arg args "blocks").getD "-")
  let marked := if Alloc.blocksMarkedD geo s0 blocks then 1 else 0
  let s := Alloc.deallocBlocks (argNatD args "fixed" == 1) geo s0 blocks
  s!"marked={marked}\tsbfb={s.sbFreeBlocks}\tgfb={natsStr (s.groups.map (·.freeBlocks))}\tbruns={"/".intercalate (s.groups.map fun g => runsStr (Alloc.freeRuns g.bbm))}"

/-- absolute "start+count" runs (none crosses a group boundary) → runs of the machine: group, position, count -/
def ownRuns (geo : Alloc.Geom) (s : String) : List Alloc.Run :=
  if s == "-" || s == "" then [] else
  (s.splitOn ",").filterMap fun t => match (t.splitOn "+").filterMap String.toNat? with
    | [p, c] => some ((p - geo.fdb) / geo.bpg, (p - geo.fdb) % geo.bpg, c)
    | _ => none

/-- ext4own.grow: the image before an operation that makes a file grow (bitmaps, counters), the blocks the file
    owned and its i_blocks, and the blocks it owns in addition afterwards → the ownership machine's `grow` step
    (Model/Ext4/Own.lean) → counters, bitmaps, i_blocks afterwards and the ownership invariant before and after -/
def ownGrow (args : List String) : String :=
  let geo : Alloc.Geom := ⟨argNatD args "fdb", argNatD args "bpg", 1⟩
  let bbm := ((arg args "bbm").getD "").splitOn "/"
  let gfb := natList ((arg args "gfb").getD "-")
  let groups : List Alloc.Group := (List.range gfb.length).map fun g =>
    { bbm := bitsOfHex geo.bpg (bbm.getD g ""), ibm := [], freeBlocks := gfb.getD g 0, freeInodes := 0, usedDirs := 0 }
  let o : Alloc.Own := ⟨⟨groups, argNatD args "sbfb", 0⟩,
    [⟨argNatD args "ino", blocksOfRuns ((arg args "blocks").getD "-"), argNatD args "iblocks"⟩]⟩
  let pre := if decide (Alloc.OwnInv geo o) then 1 else 0
  let o' := Alloc.ostep geo o (.grow 0 (argNatD args "n") (ownRuns geo ((arg args "new").getD "-")))
  if o' == o then s!"ok=0\tpre={pre}" else
  match o'.files with
  | [f] =>
    let inv := if decide (Alloc.OwnInv geo o') then 1 else 0
    s!"ok=1\tpre={pre}\tsbfb={o'.acc.sbFreeBlocks}\tgfb={natsStr (o'.acc.groups.map (·.freeBlocks))}\tbruns={"/".intercalate (o'.acc.groups.map fun g => runsStr (Alloc.freeRuns g.bbm))}\tiblocks={f.iblocks}\towned={f.blocks.length}\tinv={inv}"
  | _ => "bad-state"

/-- ext4links.step: the link count of the parent directory and the used-directories counters before a Mkdir /
    create / Symlink / Remove → the model's bookkeeping → the same numbers afterwards (and the new inode's) -/
def linksStep (args : List String) : String :=
  let p := argNatD args "p"
  let k := argNatD args "k"
  let dir := argNatD args "dir" == 1
  let used := natList ((arg args "used").getD "-")
  let s0 : Links.LState :=
    { live := [p], isDir := fun i => i == p, parent := fun _ => p, links := fun i => if i == p then argNatD args "plinks" else 0,
      usedDirs := fun g => used.getD g 0, ipg := argNatD args "ipg" }
  let usedStr := fun (s : Links.LState) => natsStr ((List.range used.length).map s.usedDirs)
  match arg args "op" with
  | some "mk" =>
    let s := Links.lstep s0 (.mk p k dir)
    s!"plinks={s.links p}\tklinks={s.links k}\tused={usedStr s}"
  | some "rm" =>
    let s1 : Links.LState := { s0 with live := [p, k], isDir := fun i => i == p || (i == k && dir),
                                       links := fun i => if i == p then argNatD args "plinks" else argNatD args "klinks" }
    let s := Links.lstep s1 (.rm k)
    s!"plinks={s.links p}\tgone={if s.live.contains k then 0 else 1}\tused={usedStr s}"
  | _ => "unknown-op"

end Driver.Ext4Ops

def main : IO Unit := Driver.runLoop fun op args =>
  match op with
  | "ext4.rw" => Driver.Ext4Ops.rw args
  | "ext4.bitmap" => Driver.Ext4Ops.bitmapOp args
  | "ext4.dirpack" => Driver.Ext4Ops.dirpack args
  | "ext4.dirrewrite" => Driver.Ext4Ops.dirRewrite args
  | "ext4alloc.fast" => Driver.Ext4Ops.allocFast args
  | "ext4alloc.policy" => Driver.Ext4Ops.allocPolicyOp args
  | "ext4acc.step" => Driver.Ext4Ops.accStep args
  | "ext4acc.remove" => Driver.Ext4Ops.accRemove args
  | "ext4acc.dealloc" => Driver.Ext4Ops.accDealloc args
  | "ext4links.step" => Driver.Ext4Ops.linksStep args
  | "ext4own.grow" => Driver.Ext4Ops.ownGrow args
  | _ => (((Driver.Ext4Tree.dispatch op args).orElse fun _ => Driver.Ext4Dir.dispatch op args).orElse fun _ =>
      Driver.Ext4Path.dispatch op args).getD "unknown-op"
