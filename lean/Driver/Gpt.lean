import Driver.Util
import DiskfsModel.Core.Crc
import DiskfsModel.Model.Gpt
import DiskfsModel.Model.GptGeom
import DiskfsModel.Model.Mbr
import DiskfsModel.Model.MbrTable
import DiskfsModel.Spec.GptValid
import DiskfsModel.Proofs.GptCrashFlat
import DiskfsModel.Proofs.GptGeomFast
/-!
  Model driver for the engines gpt (C02), gptcrash (C09) and tblrobust (C15).
  Devices are sparse lists of extents (later extents win) or, for the crash
  enumeration, a flat ByteArray image; both are turned into the read oracle
  `Dev := Nat → UInt8` the model is defined over.
-/
namespace Driver.Gpt
open Diskfs Driver Diskfs.Gpt

/-! ### devices -/

abbrev Exts := Array (Nat × ByteArray)

def extsDev (e : Exts) : Dev := fun i =>
  let rec go (k : Nat) : UInt8 :=
    match k with
    | 0 => 0
    | k + 1 =>
      let (off, b) := e[k]!
      if off ≤ i ∧ i < off + b.size then b.get! (i - off) else go k
  go e.size

def imgDev (img : ByteArray) : Dev := fun i => if i < img.size then img.get! i else 0

def imgApply (img : ByteArray) (w : Wr) : ByteArray :=
  let src := ByteArray.mk w.data.toArray
  if w.off ≥ img.size then img else
  let n := min src.size (img.size - w.off)
  src.copySlice 0 img w.off n

def hexNib (c : UInt8) : UInt8 :=
  if c ≥ 48 && c ≤ 57 then c - 48 else if c ≥ 97 && c ≤ 102 then c - 87 else if c ≥ 65 && c ≤ 70 then c - 55 else 0

def hexToBA (s : String) : ByteArray :=
  let u := s.toUTF8
  let n := u.size / 2
  (List.range n).foldl (fun acc i => acc.push (hexNib (u.get! (2 * i)) * 16 + hexNib (u.get! (2 * i + 1)))) (ByteArray.emptyWithCapacity n)

/-- `off:hex;off:hex;…` or `-` -/
def parseExts (s : String) : Exts :=
  if s == "-" || s == "" then #[] else
  (s.splitOn ";").foldl (fun acc item =>
    match item.splitOn ":" with
    | [o, h] => acc.push (o.toNat!, hexToBA h)
    | _ => acc) #[]

/-! ### parts -/

def hexB (s : String) : Bytes := (fromHex s).getD []

def parseRunes (s : String) : List Nat :=
  if s == "-" || s == "" then [] else (s.splitOn ".").filterMap String.toNat?

/-- `index,start,end,size,typehex,guidhex,attrs,name;…` -/
def parseParts (s : String) : List Part :=
  if s == "-" || s == "" then [] else
  (s.splitOn ";").filterMap fun item =>
    match item.splitOn "," with
    | [i, st, en, sz, ty, gu, att, nm] =>
      some { index := i.toNat!, start := st.toNat!, end_ := en.toNat!, size := sz.toNat!,
             typ := hexB ty, guid := hexB gu, attrs := att.toNat!, name := parseRunes nm }
    | _ => none

def runesStr (r : List Nat) : String :=
  if r.isEmpty then "-" else ".".intercalate (r.map toString)

def partStr (p : Part) : String :=
  s!"{p.index},{p.start},{p.end_},{p.size},{toHex p.typ},{toHex p.guid},{p.attrs},{runesStr p.name}"

def partsStr (ps : List Part) : String :=
  if ps.isEmpty then "-" else ";".intercalate (ps.map partStr)

/-- `index,boot,type,start,size,chshex;…` -/
def parseMbrParts (s : String) : List Mbr.Part :=
  if s == "-" || s == "" then [] else
  (s.splitOn ";").filterMap fun item =>
    match item.splitOn "," with
    | [i, b, ty, st, sz, chs] =>
      some { index := i.toNat!, bootable := b == "1", typ := ty.toNat!, start := st.toNat!, size := sz.toNat!,
             chs := hexB chs }
    | _ => none

def mbrPartStr (p : Mbr.Part) : String :=
  s!"{p.index},{if p.bootable then 1 else 0},{p.typ},{p.start},{p.size},{toHex p.chs}"

def mbrPartsStr (ps : List Mbr.Part) : String :=
  if ps.isEmpty then "-" else ";".intercalate (ps.map mbrPartStr)

def parseCfg (args : List String) : Cfg :=
  match ((arg args "cfg").getD "11111").toList with
  | [a, b, c, d, e] => ⟨a == '1', b == '1', c == '1', d == '1', e == '1'⟩
  | _ => Cfg.fixed

def wrFinger (w : Wr) : String :=
  if w.data.length ≤ 128 then s!"{w.off}:{w.data.length}:h{toHex w.data}"
  else s!"{w.off}:{w.data.length}:c{crc32 w.data}"

def wrsFinger (ws : List Wr) : String :=
  if ws.isEmpty then "-" else ";".intercalate (ws.map wrFinger)

def tableOfArgs (args : List String) (pre : String) : Table :=
  { parts := parseParts ((arg args (pre ++ "parts")).getD "-"),
    lss := argNatD args "lss" 512,
    guid := hexB ((arg args (pre ++ "guid")).getD ""),
    pmbr := (arg args (pre ++ "pmbr")).getD "1" == "1" }

/-! ### gpt.write -/

def opWrite (args : List String) : String :=
  let c := parseCfg args
  let t := tableOfArgs args ""
  match Gpt.writeUp c crc32 t (argNatD args "size") with
  | .ok (ws, t') =>
    s!"res=ok\tws={wrsFinger ws}\tparts={partsStr t'.parts}\tgeo={t'.primaryHeader},{t'.secondaryHeader},{t'.firstData},{t'.lastData}"
  | .err _ => "res=err"
  | .panic _ => "res=panic"

/-! ### gpt.read / part.read / mbr.* -/

def tableStr (t : Table) : String :=
  s!"backup={if t.backup then 1 else 0}\tpmbr={if t.pmbr then 1 else 0}\tguid={toHex t.guid}\tgeo={t.primaryHeader},{t.secondaryHeader},{t.firstData},{t.lastData},{t.firstLBA},{t.arrCount},{t.entSize}\tparts={partsStr t.parts}"

def rangesStr (ps : List Part) (lss : Nat) : String :=
  if ps.isEmpty then "-" else ";".intercalate (ps.map fun p => s!"{p.index}:{getStart p lss}:{getSize p}")

def opRead (args : List String) : String :=
  let c := parseCfg args
  let d := extsDev (parseExts ((arg args "dev").getD "-"))
  let lss := argNatD args "lss" 512
  match Gpt.read c crc32 d (argNatD args "size") lss with
  | (.ok t, _) => s!"res=ok\t{tableStr t}\tranges={rangesStr t.parts lss}"
  | (.err _, _) => "res=err"
  | (.panic _, _) => "res=panic"

def opPartRead (args : List String) : String :=
  let c := parseCfg args
  let d := extsDev (parseExts ((arg args "dev").getD "-"))
  let lss := argNatD args "lss" 512
  match PartTable.read c crc32 d (argNatD args "size") lss with
  | (.ok (.gpt t), _) => s!"res=ok\tkind=gpt\t{tableStr t}"
  | (.ok (.mbr ps), _) => s!"res=ok\tkind=mbr\tparts={mbrPartsStr ps}"
  | (.err _, _) => "res=err"
  | (.panic _, _) => "res=panic"

def opMbrWrite (args : List String) : String :=
  s!"ws={wrsStr (Mbr.write (parseMbrParts ((arg args "parts").getD "-")))}"

def opMbrRead (args : List String) : String :=
  let d := extsDev (parseExts ((arg args "dev").getD "-"))
  let lss := argNatD args "lss" 512
  match Mbr.read d (argNatD args "size") with
  | (some ps, _) =>
    let rs := ";".intercalate (ps.map fun p => s!"{p.index}:{Mbr.getStart p lss}:{Mbr.getSize p lss}")
    s!"res=ok\tsig={Mbr.diskSig d}\tparts={mbrPartsStr ps}\tranges={rs}"
  | (none, _) => "res=err"

/-! ### mbr.readt / mbr.writet: the Table level (Model/MbrTable.lean): Read with the caller's sector sizes
    stamped (any Int: 0 and negative fall back to 512), every slice through the Go-panic model; Write with
    its refusal of more than four partitions -/

def opMbrReadT (args : List String) : String :=
  let d := extsDev (parseExts ((arg args "dev").getD "-"))
  match (Mbr.readT d (argNatD args "size") ((argInt args "lbs").getD 0) ((argInt args "pbs").getD 0)).1 with
  | .ok t =>
    let rs := ";".intercalate (t.diskParts.map fun p => s!"{p.index}:{p.byteStart}:{p.byteSize}:{p.lssOf}:{p.pssOf}")
    s!"res=ok\tlss={t.lss}\tpss={t.pss}\tparts={mbrPartsStr t.parts}\tranges={rs}"
  | .err _ => "res=err"
  | .panic _ => "res=panic"

def opMbrWriteT (args : List String) : String :=
  match Mbr.writeT ⟨parseMbrParts ((arg args "parts").getD "-"), argNatD args "lss" 512, argNatD args "pss" 512⟩ with
  | some ws => s!"res=ok\tws={wrsStr ws}"
  | none => "res=refused"

def mbrTableStr (t : Mbr.Table) : String :=
  let rs := ";".intercalate (t.diskParts.map fun p => s!"{p.index}:{p.byteStart}:{p.byteSize}:{p.lssOf}:{p.pssOf}")
  s!"lss={t.lss}\tpss={t.pss}\tparts={mbrPartsStr t.parts}\tranges={rs}"

/-- part.readt: partition.Read with (lss, pbs) handed on to both readers (Model/MbrTable.lean PartTable.readT) -/
def opPartReadT (args : List String) : String :=
  let c := parseCfg args
  let d := extsDev (parseExts ((arg args "dev").getD "-"))
  let lss := argNatD args "lss" 512
  match (PartTable.readT c crc32 d (argNatD args "size") lss ((argInt args "pbs").getD 0)).1 with
  | .ok (.gpt t) => s!"res=ok\tkind=gpt\t{tableStr t}"
  | .ok (.mbr t) => s!"res=ok\tkind=mbr\t{mbrTableStr t}"
  | .err _ => "res=err"
  | .panic _ => "res=panic"

/-! ### codec unit ops: crc, guid swap, utf16, entry -/

def opCrc (args : List String) : String :=
  s!"crc={crc32 ((argHex args "data").getD [])}"

def opEntry (args : List String) : String :=
  let c := parseCfg args
  match parseParts ((arg args "parts").getD "-") with
  | [p] =>
    match entryEnc c p with
    | .ok b => s!"res=ok\tbytes={toHex b}"
    | .err _ => "res=err"
    | .panic _ => "res=panic"
  | _ => "res=bad"

/-! ### gpt.valid: the Lean validity specification (Spec/GptValid.lean, written from the UEFI rules)
    evaluated with the executable CRC32 on the bytes the real Table.Write left on the device -/

def opValid (args : List String) : String :=
  let d := extsDev (parseExts ((arg args "dev").getD "-"))
  let size := argNatD args "size"
  let lss := argNatD args "lss" 512
  let g := GptSpec.gptValidB crc32 d size lss
  let p := if (arg args "pmbr").getD "1" == "1" then (if GptSpec.pmbrValidB d size lss then "1" else "0") else "-"
  let used := if g then toString (GptSpec.usedEntries d lss).length else "-"
  s!"gpt={if g then 1 else 0}\tpmbr={p}\tused={used}"

/-! ### gpt.rewrite / mbr.rewrite: read the table from the device bytes, write it back (C14: rewriting a
    table that was read from disk changes nothing; theorems gpt_write_idempotent / mbr_write_idempotent) -/

def unchangedBy (d : Dev) (ws : List Wr) : Bool :=
  ws.all fun w => readAt d w.off w.data.length == w.data

def opRewrite (args : List String) : String :=
  let c := parseCfg args
  let d := extsDev (parseExts ((arg args "dev").getD "-"))
  let size := argNatD args "size"
  let lss := argNatD args "lss" 512
  match Gpt.read c crc32 d size lss with
  | (.ok t1, _) =>
    match Gpt.writeUp c crc32 t1 size with
    | .ok (ws, _) => s!"res=ok\tws={wrsFinger ws}\tsame={if unchangedBy d ws then 1 else 0}"
    | .err _ => "res=err"
    | .panic _ => "res=panic"
  | _ => "res=noread"

/-! ### gpt.rmw: read-modify-write of a table of ANY geometry (C02 theorems gpt_read_write_geom / gpt_written_valid_geom):
    gpt.Read of the device bytes, the partitions replaced by `nparts` (and the disk GUID by `nguid`; `repair=1`:
    Table.Repair(size)), Write (`writeUp`: the header's geometry is kept, the size argument ignored).  Reports the
    write list, the partitions Write was left with, whether the geometry satisfies `GeomWF` / the usable range
    `UsableWF`, and — on the model's resulting device — what gpt.Read returns and the verdict of the Lean
    specification `GptValid`. -/

def usableB (t : Table) : Bool :=
  decide (2 + partSectorsUp t ≤ t.firstData) && decide (2 * t.lss + 16384 ≤ t.firstData * t.lss) &&
  decide (t.firstData ≤ t.lastData + 1) && decide (t.lastData < t.secondaryHeader - partSectorsUp t)

def opRmw (args : List String) : String :=
  let c := parseCfg args
  let base := parseExts ((arg args "dev").getD "-")
  let d := extsDev base
  let size := argNatD args "size"
  let lss := argNatD args "lss" 512
  match Gpt.read c crc32 d size lss with
  | (.ok t1, _) =>
    let t2 := match arg args "nparts" with
      | some ps => { t1 with parts := parseParts ps }
      | none => t1
    let t3 := match arg args "nguid" with
      | some g => { t2 with guid := hexB g }
      | none => t2
    let t4 := if (arg args "repair").getD "0" == "1" then repairUp t3 size else t3
    let wf := if decide (GeomWF t4 size) then 1 else 0
    let uw := if usableB t4 then 1 else 0
    match Gpt.writeUp c crc32 t4 size with
    | .ok (ws, t5) =>
      let dN := extsDev (ws.foldl (fun (e : Exts) w => e.push (w.off, ByteArray.mk w.data.toArray)) base)
      let rb := match Gpt.read c crc32 dN size lss with
        | (.ok t6, _) => s!"{if t6.backup then 1 else 0}:{toHex t6.guid}:{partsStr t6.parts}"
        | _ => "err"
      let rt := if (Gpt.read c crc32 dN size lss).1.isOk &&
                   (match (Gpt.read c crc32 dN size lss).1 with
                    | .ok t6 => t6.parts == (List.range t4.arrCount).filterMap (fun i =>
                        (t5.parts.find? (fun q => q.index == i + 1)).bind fun p => if allZero p.typ then none else some p)
                    | _ => false) then 1 else 0
      let v := if GptSpec.gptValidB crc32 dN size lss then 1 else 0
      s!"res=ok\tws={wrsFinger ws}\tparts={partsStr t5.parts}\tgeo={t5.primaryHeader},{t5.secondaryHeader},{t5.firstData},{t5.lastData},{t5.arrCount}\twf={wf}\tuw={uw}\trb={rb}\trt={rt}\tvalid={v}"
    | .err _ => s!"res=err\twf={wf}"
    | .panic _ => "res=panic"
  | _ => "res=noread"

def opMbrRewrite (args : List String) : String :=
  let d := extsDev (parseExts ((arg args "dev").getD "-"))
  match Mbr.read d (argNatD args "size") with
  | (some ps, _) =>
    let ws := Mbr.write ps
    s!"res=ok\tws={wrsStr ws}\tsame={if unchangedBy d ws then 1 else 0}"
  | (none, _) => "res=noread"

/-! ### gptcrash.pair -/

/-- subsets of `n` sectors to tear a write at: all 2^n when n ≤ 12, otherwise
    none, all, each single sector, first-k, last-k (0<k<n), even, odd -/
def family (n : Nat) : List (Nat → Bool) :=
  if n ≤ 12 then (List.range (2 ^ n)).map fun m => fun i => (m >>> i) % 2 == 1
  else
    [fun _ => false, fun _ => true]
    ++ (List.range n).map (fun j => fun i => i == j)
    ++ (List.range (n - 1)).map (fun k => fun i => decide (i < k + 1))
    ++ (List.range (n - 1)).map (fun k => fun i => decide (i ≥ n - (k + 1)))
    ++ [fun i => i % 2 == 0, fun i => i % 2 == 1]

def classify (oldParts newParts : Option (List Part)) (r : Res Table) : Char :=
  match r with
  | .ok t =>
    let c := if some t.parts == newParts then 'N' else if some t.parts == oldParts then 'O' else 'X'
    if t.backup then c.toLower else c
  | .err _ => 'E'
  | .panic _ => 'P'

/-- the same classification through the RECORD-level reader of the C09 theorems: the device is viewed as
    the five regions (`toDisk`) and read by `GptCrash.read` instantiated with the real decoders (`flatReader`) -/
def classifyRec (oldParts newParts : Option (List Part)) (d : Dev) (size lss : Nat) : Char :=
  match GptCrash.read (GptCrash.flatReader crc32 size lss) (GptCrash.toDisk d size lss) with
  | .ok ps fromBackup =>
    let c := if some ps == newParts then 'N' else if some ps == oldParts then 'O' else 'X'
    if fromBackup then c.toLower else c
  | .err => 'E'

/-- partition.Read through the RECORD-level `partRead` (flatReader + mbrViewFlat on toDisk); the record
    level does not carry the from-backup flag, so classes are upper case -/
def classifyRecPT (oldParts newParts : Option (List Part)) (oldMbr : Option (List Mbr.Part)) (d : Dev) (size lss : Nat) : Char :=
  match GptCrash.partRead (GptCrash.flatReader crc32 size lss) GptCrash.mbrViewFlat (GptCrash.toDisk d size lss) with
  | .gpt ps => if some ps == newParts then 'N' else if some ps == oldParts then 'O' else 'X'
  | .mbr ps => if some ps == oldMbr then 'M' else 'Y'
  | .err => 'E'

/-- the record-level readers of the ANY-GEOMETRY theorems (Proofs/GptGeomFlat.lean, GptGeomCrash.lean): the device viewed
    as the five regions of geometry `g` (`toDiskG`: the last array sector short when the array does not end on a sector
    boundary) and read by `GptCrash.read` / `partRead` instantiated with the real decoders (`flatReaderGF`: the reader of the theorems,
    `flatReaderG`, with the array concatenated sector by sector instead of assembled bytewise; equal on every record view:
    Proofs/GptGeomFast.lean read_fast_eq / partRead_fast_eq) -/
def classifyRecG (oldParts newParts : Option (List Part)) (d : Dev) (g : GptCrash.Geo) : Char :=
  match GptCrash.read (GptCrash.flatReaderGF crc32 g) (GptCrash.toDiskG d g) with
  | .ok ps fromBackup =>
    let c := if some ps == newParts then 'N' else if some ps == oldParts then 'O' else 'X'
    if fromBackup then c.toLower else c
  | .err => 'E'

def classifyRecPTG (oldParts newParts : Option (List Part)) (oldMbr : Option (List Mbr.Part)) (d : Dev) (g : GptCrash.Geo) : Char :=
  match GptCrash.partRead (GptCrash.flatReaderGF crc32 g) GptCrash.mbrViewFlat (GptCrash.toDiskG d g) with
  | .gpt ps => if some ps == newParts then 'N' else if some ps == oldParts then 'O' else 'X'
  | .mbr ps => if some ps == oldMbr then 'M' else 'Y'
  | .err => 'E'

def classifyPT (oldParts newParts : Option (List Part)) (oldMbr : Option (List Mbr.Part)) (r : Res PartTable.Tbl) : Char :=
  match r with
  | .ok (.gpt t) => classify oldParts newParts (.ok t)
  | .ok (.mbr ps) => if some ps == oldMbr then 'M' else 'Y'
  | .err _ => 'E'
  | .panic _ => 'P'

/-! Windowed images (C09, big disks): the first `head.size` bytes and the `tail.size` bytes from `tailOff`
    are kept flat, every other byte of the device reads as zero and a write (part) outside the windows is
    dropped.  With the default window (head = whole device) this is the flat image of before. -/

structure Img where
  head : ByteArray
  tailOff : Nat
  tail : ByteArray

def Img.dev (m : Img) : Dev := fun i =>
  if i < m.head.size then m.head.get! i
  else if m.tailOff ≤ i ∧ i < m.tailOff + m.tail.size then m.tail.get! (i - m.tailOff) else 0

/-- `w` applied to the window `[base, base + img.size)` -/
def winApply (img : ByteArray) (base : Nat) (w : Wr) : ByteArray :=
  let lo := max w.off base
  let hi := min (w.off + w.data.length) (base + img.size)
  if lo < hi then (ByteArray.mk w.data.toArray).copySlice (lo - w.off) img (lo - base) (hi - lo) else img

def Img.apply (m : Img) (w : Wr) : Img :=
  { m with head := winApply m.head 0 w, tail := winApply m.tail m.tailOff w }

def Img.zero (size h t : Nat) : Img :=
  let h := min h size
  let t := min t (size - h)
  ⟨ByteArray.mk (Array.replicate h 0), size - t, ByteArray.mk (Array.replicate t 0)⟩

/-- `H,T` -/
def parseWin (s : String) (size : Nat) : Nat × Nat :=
  match s.splitOn "," with
  | [h, t] => (h.toNat!, t.toNat!)
  | _ => (size, 0)

/-- gpt.Table.Repair(diskSize) (Model/GptGeom.lean: array sectors rounded up, as the code is now) -/
def repairTable (t : Table) (size : Nat) : Table := repairUp t size

/-- old = gpt|none|mbr|raw, then for every prefix k and every subset of the family of the in-flight
    write the class of gpt.Read and of partition.Read:  g0=…,g1=… p0=…
    Optional: `win=H,T` windowed image (big disks); `old=raw` the device as given is the old state and what
    gpt.Read returns on it the old list; `pre=k:f` + table `p…`: the old state is crash state (k, subset f)
    of writing table p over the state built so far (a disk left behind by an interrupted write);
    `rmw=1` the new table is the one gpt.Read returns on the old state with its partitions replaced by
    `nparts` (and its disk GUID by `nguid` when given; `repair=1`: after Table.Repair(size));
    `rec=0` leaves out the record-level classifications (old tables of foreign geometry). -/
def opCrash (args : List String) : String :=
  let c := parseCfg args
  let size := argNatD args "size"
  let lss := argNatD args "lss" 512
  let base := parseExts ((arg args "dev").getD "-")
  let (wh, wt) := parseWin ((arg args "win").getD "") size
  let img0 := base.foldl (fun (img : Img) (e : Nat × ByteArray) => img.apply ⟨e.1, e.2.toList⟩) (Img.zero size wh wt)
  let oldKind := (arg args "old").getD "none"
  let oldMbrPs := parseMbrParts ((arg args "ombr").getD "-")
  let recLevel := (arg args "rec").getD "1" == "1"
  -- the old state
  let (imgA, oldMbr) : Img × Option (List Mbr.Part) :=
    if oldKind == "gpt" then
      match Gpt.writeUp c crc32 (tableOfArgs args "o") size with
      | .ok (ws, _) => (ws.foldl Img.apply img0, none)
      | _ => (img0, none)
    else if oldKind == "mbr" then
      let img := (Mbr.write oldMbrPs).foldl Img.apply img0
      (img, (Mbr.read img.dev size).1)
    else (img0, none)
  -- an interrupted earlier write of table p on top of it
  let img1 : Img :=
    match (arg args "pre").map (·.splitOn ":") with
    | some [k, f] =>
      match Gpt.writeUp c crc32 (tableOfArgs args "p") size with
      | .ok (ws, _) =>
        let imgk := (ws.take k.toNat!).foldl Img.apply imgA
        match ws[k.toNat!]? with
        | none => imgk
        | some w =>
          let n := (w.data.length + lss - 1) / lss
          match (family n)[f.toNat!]? with
          | some keep => (tornPieces lss w keep).foldl Img.apply imgk
          | none => imgk
      | _ => imgA
    | _ => imgA
  let tableOn (img : Img) : Option Table :=
    match (Gpt.read c crc32 img.dev size lss).1 with
    | .ok t => some t
    | _ => none
  let partsOf (img : Img) : Option (List Part) := (tableOn img).map (·.parts)
  let oldParts := if oldKind == "gpt" || oldKind == "raw" then partsOf img1 else none
  let fresh := tableOfArgs args "n"
  let newTable : Option Table :=
    if (arg args "rmw").getD "0" == "1" then
      (tableOn img1).map fun t1 =>
        let t2 := { t1 with parts := fresh.parts }
        let t3 := match arg args "nguid" with
          | some g => { t2 with guid := hexB g }
          | none => t2
        if (arg args "repair").getD "0" == "1" then repairTable t3 size else t3
    else some fresh
  match newTable with
  | none => "res=noread"
  | some nt =>
  -- the geometry the new table carries (a fresh table: what initTable makes of it) and its well-formedness
  let ntI := if nt.initialized then nt else initTableUp nt size
  let geo := GptCrash.geoOf ntI
  let geoLevel := (arg args "geo").getD "0" == "1"
  let wf := if decide (GeomWF ntI size) then "1" else "0"
  match Gpt.writeUp c crc32 nt size with
  | .ok (ws, _) =>
    let newParts := partsOf (ws.foldl Img.apply img1)
    let both (d : Dev) : List Char :=
      let g := Gpt.read c crc32 d size lss
      [classify oldParts newParts g.1, classifyPT oldParts newParts oldMbr (PartTable.readWith g d size).1,
       if recLevel then classifyRec oldParts newParts d size lss else '-',
       if recLevel then classifyRecPT oldParts newParts oldMbr d size lss else '-',
       if geoLevel then classifyRecG oldParts newParts d geo else '-',
       if geoLevel then classifyRecPTG oldParts newParts oldMbr d geo else '-']
    let stage (k : Nat) : List String :=
      let imgk := (ws.take k).foldl Img.apply img1
      match ws[k]? with
      | none => (both imgk.dev).map String.singleton
      | some w =>
        let n := (w.data.length + lss - 1) / lss
        let rs := (family n).map fun keep => both ((tornPieces lss w keep).foldl Img.apply imgk).dev
        (List.range 6).map fun i => String.ofList (rs.map (·.getD i '-'))
    let all := (List.range (ws.length + 1)).map stage
    let col (i : Nat) : String := ",".intercalate (all.map (·.getD i "-"))
    let r := if recLevel then col 2 else "-"
    let q := if recLevel then col 3 else "-"
    let rg := if geoLevel then col 4 else "-"
    let qg := if geoLevel then col 5 else "-"
    s!"res=ok\tn={ws.length}\tg={col 0}\tp={col 1}\tr={r}\tq={q}\trg={rg}\tqg={qg}\twf={wf}"
  | _ => "res=err"

end Driver.Gpt

def main : IO Unit := Driver.runLoop fun op args =>
  match op with
  | "gpt.write" => Driver.Gpt.opWrite args
  | "gpt.read" => Driver.Gpt.opRead args
  | "part.read" => Driver.Gpt.opPartRead args
  | "mbr.write" => Driver.Gpt.opMbrWrite args
  | "mbr.read" => Driver.Gpt.opMbrRead args
  | "gpt.crc" => Driver.Gpt.opCrc args
  | "gpt.entry" => Driver.Gpt.opEntry args
  | "gpt.valid" => Driver.Gpt.opValid args
  | "gpt.rewrite" => Driver.Gpt.opRewrite args
  | "gpt.rmw" => Driver.Gpt.opRmw args
  | "mbr.rewrite" => Driver.Gpt.opMbrRewrite args
  | "mbr.readt" => Driver.Gpt.opMbrReadT args
  | "mbr.writet" => Driver.Gpt.opMbrWriteT args
  | "part.readt" => Driver.Gpt.opPartReadT args
  | "gptcrash.pair" => Driver.Gpt.opCrash args
  | _ => "unknown-op"
