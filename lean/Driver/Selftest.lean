import Driver.Util
import DiskfsModel.Core.Crc
namespace Driver.Selftest
open Diskfs Driver

def crc (args : List String) : String :=
  match argHex args "d" with
  | some b => toString (crc32 b)
  | none => "bad-op"

def le (args : List String) : String :=
  toHex (leEnc (argNatD args "k") (argNatD args "n"))

end Driver.Selftest
