import Driver.Util
import DiskfsModel.Core.Crc
import DiskfsModel.Model.Iso.Compose
import DiskfsModel.Model.Iso.SymlinkEnc
import DiskfsModel.Model.Iso.Svd
/-! Further ops of the iso9660 model driver (vd-iso): the workspace-to-image composition. -/
namespace Driver.IsoX
open Diskfs Diskfs.Iso Driver

def perms : List α → List (List α)
  | [] => [[]]
  | x :: xs => (perms xs).flatMap fun p => (List.range (p.length + 1)).map fun i => p.take i ++ [x] ++ p.drop i

def hexOrDash (b : Bytes) : String := if b.isEmpty then "-" else toHex b
def unDash (s : String) : Bytes := if s == "-" || s == "" then [] else (fromHex s).getD []

structure WE where
  par : Nat
  name : Str
  isDir : Bool
  size : Nat
  date : Bytes
  got : Bytes      -- the identifier the real image shows for this entry
deriving Inhabited

/-- entry syntax: parent:cp,cp,…:d|f:size:datehex:identhex -/
def parseWE (s : String) : Option WE :=
  match s.splitOn ":" with
  | [p, nm, k, sz, dt, g] =>
    some { par := p.toNat!, name := natList nm, isDir := k == "d", size := sz.toNat!, date := unDash dt, got := unDash g }
  | _ => none

def mkW (es : Array WE) : WTree :=
  let n := es.size
  let contents : Array Bytes := es.map fun e => if e.isDir then [] else zeros e.size
  let kidsArr : Array (List Nat) := (Array.range n).map fun d => (List.range n).filter fun i => i ≠ 0 ∧ (es[i]!).par = d
  { n := n, name := fun i => (es.getD i default).name, isDir := fun i => (es.getD i default).isDir,
    content := fun i => contents.getD i [], date := fun i => (es.getD i default).date,
    kids := fun d => kidsArr.getD d [], parent := fun c => (es.getD c default).par }

def nodupB (l : List Nat) : Bool := l.eraseDups.length == l.length

/-- `WTree.OK`, as a Bool -/
def okB (w : WTree) (o : Order) : Bool :=
  let idx := List.range w.n
  decide (0 < w.n) && w.isDir 0 &&
  idx.all (fun d => (w.kids d).all fun c => decide (c < w.n) && decide (w.parent c = d) && decide (c ≠ 0)) &&
  idx.all (fun d => nodupB (w.kids d)) &&
  idx.all (fun c => decide (w.parent c < w.n) && decide ((w.date c).length = 7) &&
    (c == 0 || (w.isDir (w.parent c) && (w.kids (w.parent c)).contains c))) &&
  nodupB o.dirs && nodupB o.files &&
  o.dirs.all (fun d => decide (d < w.n) && w.isDir d) && o.files.all (fun f => decide (f < w.n) && !w.isDir f) &&
  idx.all (fun c => if w.isDir c then o.dirs.contains c else o.files.contains c)

/-- the multi-member collision groups of directory `d` -/
def multiKeys (w : WTree) (d : Nat) : List Nm :=
  let n := (w.kids d).length
  ((List.range n).map (w.orig d)).eraseDups.filter fun k => (members n (w.orig d) k).length > 1

/-- an order of the groups of `d` under which the model's identifiers are the ones the image shows
    (the Go code ranges over a map) -/
def findOrder (w : WTree) (es : Array WE) (d : Nat) : Option (List Nm × (Nat → Nm)) :=
  let keys := multiKeys w d
  if keys.length > 4 then none else
  (perms keys).findSome? fun ord =>
    match w.resolved ord d with
    | none => none
    | some f =>
      let ok := (List.range (w.kids d).length).all fun j =>
        let c := (w.kids d).getD j 0
        strBytes (isoIdent (f j) (w.isDir c)) == (es.getD c default).got
      if ok then some (ord, f) else none

/-- iso.compose bs= sys=hex vol=hex tail=hex ents=…;… → names / layout / encodings computed from the WORKSPACE alone -/
def compose (args : List String) : String :=
  let bs := argNatD args "bs" 2048
  let es := ((((arg args "ents").getD "").splitOn ";").filterMap parseWE).toArray
  let w := mkW es
  let dirsIdx := (List.range w.n).filter w.isDir
  let found := dirsIdx.map fun d => (d, findOrder w es d)
  if found.any (fun p => p.2.isNone) then "names=0" else
  let finArr : Array (Nat → Nm) := (Array.range w.n).map fun d =>
    match (found.lookup d).join with
    | some (_, f) => f
    | none => fun _ => ([], [])
  let ordArr : Array (List Nm) := (Array.range w.n).map fun d =>
    match (found.lookup d).join with
    | some (ord, _) => ord
    | none => []
  let fin : Nat → Nat → Nm := fun d => finArr.getD d (fun _ => ([], []))
  let identArr : Array Str := (Array.range w.n).map fun c => (w.ident fin c).map (·.toNat)
  let identS : Nat → Str := fun c => identArr.getD c []
  let o := w.goOrder identS
  let i := w.image fin bs o (unDash ((arg args "sys").getD "-")) (unDash ((arg args "vol").getD "-")) (unDash ((arg args "tail").getD "-"))
  let t := i.t
  let byIdx := sortBy (fun (a b : Nat) => a < b)
  let ds := ",".intercalate ((byIdx o.dirs).map fun d =>
    s!"{d}:{toHex (t.ent d).name}:{(t.ent d).loc}:{(t.ent d).size}:{crc32 (padBlock bs (t.dirBytes bs d))}")
  let fs := ",".intercalate ((byIdx o.files).map fun f => s!"{f}:{toHex (t.ent f).name}:{(t.ent f).loc}:{(t.ent f).size}")
  -- the cover hypothesis of `WTree.Resolved`: every multi-member group occurs in the order used
  let cover := dirsIdx.all fun d => (multiKeys w d).all fun k => (ordArr.getD d []).contains k
  let lim := decide (w.total fin bs o * bs < 2 ^ 32) && decide (2048 ≤ bs) && decide (bs < 2 ^ 16) &&
    decide (i.pvd.sysId.length = 32) && decide (i.pvd.volId.length = 32) && decide (i.pvd.tail.length = 1858)
  let ok := okB w o && cover && lim
  let walk : String :=
    if w.n ≤ 8 && (es.toList.map (·.size)).sum ≤ 3000 then
      let img := i.imageOn (fun j => UInt8.ofNat (j * 7 + 3))
      if readImageP img (16 * bs) 64 == some (i.pvd, t.walk 64 [] 0) then "1" else "0"
    else "skipped"
  s!"names=1\ttotal={i.volBlocks}\tvol={i.pvd.volSize}\td={ds}\tf={fs}\tptL={i.pvd.ptL}:{crc32 i.ptLBytes}\tptM={i.pvd.ptM}:{crc32 i.ptMBytes}\tptS={i.pvd.ptSize}\tpvd={crc32 (encodePVD i.pvd)}\tok={if ok then 1 else 0}\twalk={walk}"

/-- iso.slenc t=hex uni=0|1 → the entries `rockRidgeSymlink.Bytes` makes, what the reader's `parseSL` +
    `ReadLink` make of them, the target the component records spell, and whether every entry is a
    well-formed system use entry -/
def slenc (args : List String) : String :=
  let t := unDash ((arg args "t").getD "-")
  let uni := argNatD args "uni" 1 == 1
  let es := slEntries uni t
  let rt := match parseAll es with
    | some ps => (match readLink ps with | some x => hexOrDash x | none => "none")
    | none => "err"
  let ok := es.all fun e => decide (4 ≤ e.length ∧ e.length < 256 ∧ (e.getD 2 0).toNat = e.length)
  s!"b={hexOrDash es.flatten}\trt={rt}\tnorm={hexOrDash (slRender (slItems uni t) [])}\tok={if ok then 1 else 0}"

/-- iso.ptwalk recs=namehex:loc:parent;… → is the table well formed (`PtWF`: parents before children,
    names unique below a parent, none named "."), and for how many records other than the root does the
    lookup of the path spelled by its chain of ancestors return the record's own extent -/
def ptwalk (args : List String) : String :=
  let recs := (((arg args "recs").getD "").splitOn ";").filterMap fun s =>
    match s.splitOn ":" with
    | [n, l, p] => some ({ name := unDash n, loc := l.toNat!, parent := p.toNat! } : PtRec)
    | _ => none
  let arr := recs.toArray
  let n := arr.size
  let rec' : Nat → PtRec := fun i => arr.getD (i - 1) ⟨[], 0, 0⟩
  let idx := (List.range n).map (· + 1)
  let wf := idx.all (fun i => i < 2 || (decide (1 ≤ (rec' i).parent) && decide ((rec' i).parent < i) && (rec' i).name != [46])) &&
    idx.all (fun i => idx.all fun j => i == j || !((rec' i).parent == (rec' j).parent && (rec' i).name == (rec' j).name))
  -- the chain of ancestors of record i, root excluded
  let chain : Nat → List Nat := fun i => Id.run do
    let mut c : List Nat := []
    let mut k := i
    let mut fuel := n + 1
    while k ≥ 2 && fuel > 0 do
      c := k :: c
      k := (rec' k).parent
      fuel := fuel - 1
    return c
  let hit := (idx.filter fun i => i ≥ 2 && ptLookup recs ((chain i).map fun k => (rec' k).name) == (rec' i).loc).length
  s!"wf={if wf then 1 else 0}\tn={n}\thit={hit}"

/-- iso.svd b=hex(2048 bytes) → the fields `decodeSVD` extracts from a supplementary descriptor, whether its
    escape sequences announce Joliet, and whether `encodeSVD` of them gives the same 2048 bytes again -/
def svdOp (args : List String) : String :=
  let b := unDash ((arg args "b").getD "-")
  match decodeSVD b with
  | none => "err"
  | some s =>
    let p := s.d
    s!"flags={s.flags.toNat}\tjoliet={if isJolietEsc s.esc then 1 else 0}\tvol={p.volSize}\tset={p.setSize}\tseq={p.seqNo}\tbs={p.blocksize}\tptS={p.ptSize}\tptL={p.ptL}\tptM={p.ptM}\troot={p.root.loc}:{p.root.size}\tre={if encodeSVD s == b then 1 else 0}"

def dispatch (op : String) (args : List String) : Option String :=
  match op with
  | "iso.compose" => some (compose args)
  | "iso.slenc" => some (slenc args)
  | "iso.ptwalk" => some (ptwalk args)
  | "iso.svd" => some (svdOp args)
  | _ => none

end Driver.IsoX
