import Driver.Util
import DiskfsModel.Model.Ext4.DirGrow
import DiskfsModel.Model.Ext4.AllocSlow
/-!
  Driver op of writeDirectory's growth / relocation step (Model/Ext4/DirGrow.lean), linked into vd-ext4ops.

    ext4dir.grow  bs= fdb= bpg= old=fb:start:count,... nbytes= sbfb= gfb=a,b,.. runs=p+c,../p+c,.. hint=a,b,..
      the directory's extent list and the block bitmaps (free runs per group) / counters of the image before the
      call, len(dirBytes) → kind, the directory's extent list and the bitmaps / counters afterwards.  The policy
      is Alloc.allocPolicy; `hint` (start blocks of the extents the real call handed out, in its order) only
      orders pieces of EQUAL size, which sort.Slice leaves open.
-/
namespace Driver.Ext4Dir
open Diskfs Diskfs.Ext4 Driver

def joinOr (xs : List String) : String := if xs.isEmpty then "-" else ",".intercalate xs

def parseExtents (s : String) : List Extent :=
  if s == "-" || s == "" then [] else
  (s.splitOn ",").filterMap fun t =>
    match (t.splitOn ":").filterMap String.toNat? with
    | [a, b, c] => some ⟨a, b, c⟩
    | _ => none

def extStr (es : List Extent) : String := joinOr (es.map fun e => s!"{e.fileBlock}:{e.start}:{e.count}")

/-- runs "p+c,p+c" → bits of length `len` (true = in use) -/
def bitsOfRuns (len : Nat) (s : String) : Alloc.Bits :=
  let runs : List (Nat × Nat) := if s == "-" || s == "" then [] else
    (s.splitOn ",").filterMap fun t => match (t.splitOn "+").filterMap String.toNat? with
      | [p, c] => some (p, c) | _ => none
  runs.foldl (fun b r => Alloc.clearRun b r.1 r.2) (List.replicate len true)

def runsStr (rs : List (Nat × Nat)) : String := joinOr (rs.map fun r => s!"{r.1}+{r.2}")

def natsStr (xs : List Nat) : String := joinOr (xs.map toString)

def kindStr : DirGrow.Kind → String
  | .padded => "padded"
  | .inplace => "inplace"
  | .grown => "grown"
  | .relocated => "relocated"
  | .refusedExtra => "refused-extra"
  | .refusedFresh => "refused-fresh"
  | .refusedMany => "refused-many"
  | .guard => "guard"

def grow (args : List String) : String :=
  let bs := argNatD args "bs" 1024
  let geo : Alloc.Geom := ⟨argNatD args "fdb", argNatD args "bpg", 1⟩
  let old := parseExtents ((arg args "old").getD "-")
  let nbytes := argNatD args "nbytes"
  let gfb := natList ((arg args "gfb").getD "-")
  let runs := ((arg args "runs").getD "").splitOn "/"
  let groups : List Alloc.Group := (List.range gfb.length).map fun g =>
    { bbm := bitsOfRuns geo.bpg (runs.getD g "-"), ibm := [], freeBlocks := gfb.getD g 0, freeInodes := 0, usedDirs := 0 }
  let s0 : Alloc.Acc := ⟨groups, argNatD args "sbfb", 0⟩
  let hintAbs := natList ((arg args "hint").getD "-")
  let hint : Nat → List Nat := fun g =>
    hintAbs.filterMap fun a =>
      if geo.fdb + g * geo.bpg ≤ a ∧ a < geo.fdb + (g + 1) * geo.bpg then some (a - geo.fdb - g * geo.bpg) else none
  let pol : Alloc.Acc → Nat → Option (List Alloc.Run) := fun s n =>
    if n == 0 then none else Alloc.allocPolicy (Alloc.hintOrder hint) (s.groups.map (·.bbm)) n
  let out := DirGrow.writeDir geo pol bs s0 old nbytes
  let s := out.state
  let inv := if decide (Alloc.AccInv s) then 1 else 0
  s!"kind={kindStr out.kind}\text={extStr out.extents}\tsbfb={s.sbFreeBlocks}\tgfb={natsStr (s.groups.map (·.freeBlocks))}\tbruns={"/".intercalate (s.groups.map fun g => runsStr (Alloc.freeRuns g.bbm))}\torph={natsStr out.orphans}\tinv={inv}"

def dispatch (op : String) (args : List String) : Option String :=
  match op with
  | "ext4dir.grow" => some (grow args)
  | _ => none

end Driver.Ext4Dir
