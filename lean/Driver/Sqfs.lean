import Driver.Util
import DiskfsModel.Core.Crc
import DiskfsModel.Model.Sqfs.Map
import DiskfsModel.Model.Sqfs.Meta
import DiskfsModel.Model.Sqfs.Codec
import DiskfsModel.Model.Sqfs.Reader
import DiskfsModel.Model.Sqfs.Regions
import DiskfsModel.Model.Sqfs.Inode
import DiskfsModel.Model.Sqfs.Walk
import DiskfsModel.Model.Sqfs.ImageRd
import DiskfsModel.Model.Sqfs.ImageWr
namespace Driver.Sqfs
open Diskfs Diskfs.Sqfs Driver

/-- the model is independent of the codec (theorem view_codec_independent): run it with the identity -/
def idCodec : Codec :=
  { compress := id, decompress := id, roundtrip := fun _ => rfl, nonempty := fun _ h => h }

def pairs (s : String) : List (Nat × Nat) :=
  if s == "-" || s == "" then [] else (s.splitOn ",").filterMap fun p =>
    match p.splitOn ":" with
    | [a, b] => some (a.toNat!, b.toNat!)
    | _ => none

/-- sqfs.read bs= data=hex calls=off:n,… → per call n:crc:eof -/
def read (args : List String) : String :=
  let bs := argNatD args "bs" 4096
  let content := (argHex args "data").getD []
  let f := buildFile idCodec true true bs [] [] content
  let outs := (pairs ((arg args "calls").getD "-")).map fun (off, n) =>
    let r := readS idCodec f off n
    s!"{r.1.length}:{crc32 r.1}:{if r.2.2 then 1 else 0}"
  "r=" ++ ",".intercalate outs

/-- sqfs.layout bs= sizes=… → per file blocks:fragidx:fragoff (fragidx = - when there is no tail) -/
def layout (args : List String) : String :=
  let bs := argNatD args "bs" 4096
  let sizes := natList ((arg args "sizes").getD "-")
  let refs := fragRefs bs sizes 0 0
  let outs := (sizes.zip refs).map fun (sz, r) =>
    match r with
    | none => s!"{sz / bs}:-:0"
    | some (i, o) => s!"{sz / bs}:{i}:{o}"
  "l=" ++ ",".intercalate outs

/-- sqfs.refs sizes=… stored=… → logical block:offset pairs and translated block values -/
def refs (args : List String) : String :=
  let sizes := natList ((arg args "sizes").getD "-")
  let stored := natList ((arg args "stored").getD "-")
  let rs := inodeRefs sizes 0
  let offs := blockOffsets stored 0
  let lo := ",".intercalate (rs.map fun (b, o) => s!"{b}:{o}")
  let tr := ",".intercalate (rs.map fun (b, _) => toString (translate offs b))
  s!"lo={lo}\ttr={tr}"

def sbOf (args : List String) : Superblock :=
  { inodes := argNatD args "inodes", modTime := argNatD args "mtime", blocksize := argNatD args "bs",
    fragCount := argNatD args "frags", compression := argNatD args "comp", flags := argNatD args "flags",
    idCount := argNatD args "ids", rootInode := argNatD args "root", bytesUsed := argNatD args "used",
    idStart := argNatD args "idS", xattrStart := argNatD args "xS", inodeStart := argNatD args "inS",
    dirStart := argNatD args "dS", fragStart := argNatD args "fS", exportStart := argNatD args "eS" }

/-- sqfs.sb fields… → b=hex -/
def sb (args : List String) : String := s!"b={toHex (encodeSB (sbOf args))}"

/-- sqfs.sbparse b=hex → fields -/
def sbParse (args : List String) : String :=
  match decodeSB ((argHex args "b").getD []) with
  | none => "err"
  | some s => s!"inodes={s.inodes}\tmtime={s.modTime}\tbs={s.blocksize}\tfrags={s.fragCount}\tcomp={s.compression}\tflags={s.flags}\tids={s.idCount}\troot={s.rootInode}\tused={s.bytesUsed}\tidS={s.idStart}\txS={s.xattrStart}\tinS={s.inodeStart}\tdS={s.dirStart}\tfS={s.fragStart}\teS={s.exportStart}"

def insertBy (lt : α → α → Bool) (x : α) : List α → List α
  | [] => [x]
  | y :: ys => if lt x y then x :: y :: ys else y :: insertBy lt x ys

/-- sqfs.image path= base= → the view the Lean reader extracts from the real (uncompressed) image -/
def image (args : List String) : IO String := do
  let some path := arg args "path" | return "err=nopath"
  let img ← IO.FS.readBinFile path
  match readSqfs img (argNatD args "base") with
  | .error e => return s!"err={e}"
  | .ok r =>
    let ents := r.ents.foldr (insertBy fun (a b : SEnt) => a.path < b.path) []
    let v := ";".intercalate (ents.map fun e =>
      if e.kind == "f" then s!"{e.path}|f|{e.size}|{e.crc}" else if e.kind == "l" then s!"{e.path}|l|{e.target}" else s!"{e.path}|d")
    return s!"bs={r.bs}\tinodes={r.inodes}\tused={r.bytesUsed}\tv={v}"

def lst (args : List String) (k : String) : List Nat := natList ((arg args k).getD "-")

def natsStr (l : List Nat) : String := if l.isEmpty then "-" else ",".intercalate (l.map toString)

/-- sqfs.regions opt= data= frags= ino= dir= ft= ex=(none | sizes) id= → every WriteAt of Finalize
    (offset:length, in order, the superblock last) and the superblock's table starts / bytes_used -/
def regionsOp (args : List String) : String :=
  let ex : Option (List Nat) := if (arg args "ex").getD "none" == "none" then none else some (lst args "ex")
  let p : Pieces := { opt := argNatD args "opt", data := lst args "data", frags := lst args "frags", inodes := lst args "ino",
                      dirs := lst args "dir", fragTbl := lst args "ft", exportTbl := ex, idTbl := lst args "id" }
  let f := finalize p
  let ws := ",".intercalate (f.writes.map fun (o, n) => s!"{o}:{n}")
  s!"w={ws}\tinS={f.inodeStart}\tdS={f.dirStart}\tfS={f.fragStart}\teS={f.exportStart}\tidS={f.idStart}\txS={f.xattrStart}\tused={f.bytesUsed}"

/-- sqfs.chunks gt=item sizes | e= n= → payload sizes of the metadata blocks the writers cut -/
def chunksOp (args : List String) : String :=
  match arg args "gt" with
  | some s => s!"c={natsStr (chunkGT (natList s) 0)}"
  | none => s!"c={natsStr (chunkGE (argNatD args "e") (argNatD args "n") 0)}"

/-! ### inode and directory-table codecs -/

def blkOf (w : Nat) : Blk := Blk.ofWord w

/-- inode from numbers: t= type, h=mode,uid,gid,mtime,index f=body fields in on-disk order bl=block words tg=hex target -/
def inodeOf (args : List String) : Option Inode :=
  let h := lst args "h"
  let f := lst args "f"
  let g := fun (i : Nat) => f.getD i 0
  let bl := (lst args "bl").map blkOf
  let hdr : IHdr := { mode := h.getD 0 0, uid := h.getD 1 0, gid := h.getD 2 0, mtime := h.getD 3 0, index := h.getD 4 0 }
  match argNatD args "t" with
  | 1 => some ⟨hdr, .basicDir (g 0) (g 1) (g 2) (g 3) (g 4)⟩
  | 8 => some ⟨hdr, .extDir (g 0) (g 1) (g 2) (g 3) (g 4) (g 5)⟩
  | 2 => some ⟨hdr, .basicFile (g 0) (g 1) (g 2) (g 3) bl⟩
  | 9 => some ⟨hdr, .extFile (g 0) (g 1) (g 2) (g 3) (g 4) (g 5) (g 6) bl⟩
  | 3 => some ⟨hdr, .basicSymlink (g 0) ((argHex args "tg").getD [])⟩
  | _ => none

def inodeStr (i : Inode) : String :=
  let h := i.hdr
  let hs := natsStr [h.mode, h.uid, h.gid, h.mtime, h.index]
  let (f, bl, tg) : List Nat × List Blk × Bytes := match i.body with
    | .basicDir a b c d e => ([a, b, c, d, e], [], [])
    | .extDir a b c d e f => ([a, b, c, d, e, f], [], [])
    | .basicFile a b c d bl => ([a, b, c, d], bl, [])
    | .extFile a b c d e f g bl => ([a, b, c, d, e, f, g], bl, [])
    | .basicSymlink a t => ([a], [], t)
  s!"t={i.body.typ}\th={hs}\tf={natsStr f}\tbl={natsStr (bl.map Blk.word)}\ttg={toHex tg}"

/-- sqfs.inode (fields) → b=hex of `encodeInode`, n=`Inode.size` -/
def inodeEnc (args : List String) : String :=
  match inodeOf args with
  | none => "err"
  | some i => s!"b={toHex (encodeInode i)}\tn={i.size}"

/-- sqfs.inodeparse b=hex bs= → the fields `decodeInode` finds and the bytes it used -/
def inodeDec (args : List String) : String :=
  let b := (argHex args "b").getD []
  match decodeInode (argNatD args "bs" 4096) b with
  | none => "err"
  | some (i, rest) => inodeStr i ++ s!"\tused={b.length - rest.length}"

/-- entries: offset:inode:type:namehex:startBlock separated by ';' -/
def dentsOf (s : String) : List DEnt :=
  if s == "" || s == "-" then [] else (s.splitOn ";").filterMap fun e =>
    match e.splitOn ":" with
    | [o, i, t, n, sb] => some { offset := o.toNat!, inodeNumber := i.toNat!, typ := t.toNat!, name := (fromHex n).getD [], startBlock := sb.toNat! }
    | _ => none

def dentsStr (l : List DEnt) : String :=
  if l.isEmpty then "-" else ";".intercalate (l.map fun e => s!"{e.offset}:{e.inodeNumber}:{e.typ}:{toHex e.name}:{e.startBlock}")

/-- sqfs.dir base= es=… → b=hex of `encodeListing` -/
def dirEnc (args : List String) : String :=
  s!"b={toHex (encodeListing (argNatD args "base") (dentsOf ((arg args "es").getD "-")))}"

/-- sqfs.dirparse b=hex → es=… as `decodeDir` returns them -/
def dirDec (args : List String) : String :=
  let b := (argHex args "b").getD []
  match decodeDir (b.length + 1) b with
  | none => "err"
  | some l => s!"es={dentsStr l}"

/-- all inodes of a metadata stream, front to back -/
def decodeAllInodes (bs : Nat) : Nat → Bytes → List (Inode × Nat) → Option (List (Inode × Nat))
  | 0, _, _ => none
  | fuel+1, b, acc =>
    if b.isEmpty then some acc.reverse else
    match decodeInode bs b with
    | none => none
    | some (i, rest) => decodeAllInodes bs fuel rest ((i, b.length - rest.length) :: acc)

/-- sqfs.inodetable b=hex bs= → number of inodes, their sizes, a CRC over their fields, and whether
    re-encoding them gives the stream back -/
def inodeTable (args : List String) : String :=
  let b := (argHex args "b").getD []
  match decodeAllInodes (argNatD args "bs" 4096) (b.length + 1) b [] with
  | none => "err"
  | some l =>
    let txt := "\n".intercalate (l.map fun (i, _) => inodeStr i)
    let re := (l.map fun (i, _) => encodeInode i).flatten == b
    let szOK := l.all fun (i, n) => i.size == n
    s!"n={l.length}\tsizes={natsStr (l.map (·.2))}\tcrc={crc32 txt.toUTF8.toList}\tre={if re && szOK then 1 else 0}"

/-! ### the pure tree reader over the uncompressed metadata streams -/

def strOf (b : Bytes) : String :=
  match String.fromUTF8? ⟨b.toArray⟩ with
  | some s => s
  | none => toHex b

/-- sqfs.walkp i=hex(inode stream) d=hex(directory stream) bs= rblk= roff= → the tree `sqWalk` finds:
    path|d, path|f|size, path|l|target, sorted by path.  References of images with uncompressed
    metadata: inode block reference = byte offset of the 8194-byte block in the table, listing block
    reference = index of the 8 KiB block. -/
def walkP (args : List String) : String :=
  let env : WalkEnv := { bs := argNatD args "bs" 4096, I := (argHex args "i").getD [], D := (argHex args "d").getD [],
                         ipos := fun blk off => blk / 8194 * 8192 + off, dpos := fun sb off => sb * 8192 + off }
  match decodeInode env.bs (env.I.drop (env.ipos (argNatD args "rblk") (argNatD args "roff"))) with
  | none => "err=root"
  | some (root, _) =>
    match sqWalk env 64 [] root with
    | none => "err=walk"
    | some l =>
      let rows := l.map fun (p, i) =>
        let ps := "/".intercalate (p.map strOf)
        (ps, match i.body with
          | .basicDir .. => s!"{ps}|d"
          | .extDir .. => s!"{ps}|d"
          | .basicFile _ _ _ fs _ => s!"{ps}|f|{fs}"
          | .extFile _ fs _ _ _ _ _ _ => s!"{ps}|f|{fs}"
          | .basicSymlink _ t => s!"{ps}|l|{strOf t}")
      let sorted := rows.foldr (insertBy fun (a b : String × String) => a.1 < b.1) []
      s!"n={l.length}\tv={";".intercalate (sorted.map (·.2))}"

/-! ### the reading side over image bytes (Model/Sqfs/ImageRd.lean) -/

/-- the image file as a device, byte 0 = `base` (bytes beyond the file read as zero) -/
def devOf (img : ByteArray) (base : Nat) : Dev := fun i => if base + i < img.size then img.get! (base + i) else 0

def triples (s : String) : List (Nat × Nat × Nat) :=
  if s == "-" || s == "" then [] else (s.splitOn ",").filterMap fun p =>
    match p.splitOn ":" with
    | [a, b, c] => some (a.toNat!, b.toNat!, c.toNat!)
    | _ => none

def loadImg (args : List String) : IO (Option Dev) := do
  let some path := arg args "path" | return none
  let img ← IO.FS.readBinFile path
  return some (devOf img (argNatD args "base"))

/-- sqfs.readmeta path= base= first= reqs=blk:off:size,… → per request len:crc of what `readMetadata` returns, or err -/
def readMetaOp (args : List String) : IO String := do
  let some dev ← loadImg args | return "err=nopath"
  let first := argNatD args "first"
  let outs := (triples ((arg args "reqs").getD "-")).map fun (blk, off, size) =>
    match readMetadata idCodec dev first blk off size with
    | none => "err"
    | some b => s!"{b.length}:{crc32 b}"
  return "r=" ++ ",".intercalate outs

/-- sqfs.getinode path= base= tbl= bs= refs=blk:off:typ,… → per reference the CRC of the fields `getInodeM` decodes, or err -/
def getInodeOp (args : List String) : IO String := do
  let some dev ← loadImg args | return "err=nopath"
  let tbl := argNatD args "tbl"
  let bs := argNatD args "bs" 4096
  let outs := (triples ((arg args "refs").getD "-")).map fun (blk, off, typ) =>
    match getInodeM idCodec dev tbl bs blk off typ with
    | none => "err"
    | some i => toString (crc32 (inodeStr i).toUTF8.toList)
  return "r=" ++ ",".intercalate outs

/-- sqfs.getdir path= base= tbl= refs=blk:off:size,… → per reference the CRC of the listing `getDirM` decodes, or err -/
def getDirOp (args : List String) : IO String := do
  let some dev ← loadImg args | return "err=nopath"
  let tbl := argNatD args "tbl"
  let outs := (triples ((arg args "refs").getD "-")).map fun (blk, off, size) =>
    match getDirM idCodec dev tbl blk off size with
    | none => "err"
    | some l => toString (crc32 (dentsStr l).toUTF8.toList)
  return "r=" ++ ",".intercalate outs

/-- sqfs.imgrd path= base= → what `openImage` + `imgWalk` report: block size, root inode number, fragment and id
    tables, and per entry path, kind, (size, CRC of the bytes | target), owner ids, inode number; sorted by path -/
def imgRdOp (args : List String) : IO String := do
  let some dev ← loadImg args | return "err=nopath"
  match openImage idCodec dev with
  | none => return "err=open"
  | some (sb, o, root) =>
    match imgWalk idCodec dev o 64 [] root with
    | none => return "err=walk"
    | some l =>
      let rows := l.map fun (e : Diskfs.Sqfs.ImgEnt) =>
        let ps := "/".intercalate (e.path.map strOf)
        let tail := s!"{e.uid}|{e.gid}|{e.ino.hdr.index}"
        (ps, match e.ino.body with
          | .basicDir .. => s!"{ps}|d|{tail}"
          | .extDir .. => s!"{ps}|d|{tail}"
          | .basicSymlink _ t => s!"{ps}|l|{strOf t}|{tail}"
          | _ => s!"{ps}|f|{e.data.length}|{crc32 e.data}|{tail}")
      let sorted := rows.foldr (insertBy fun (a b : String × String) => a.1 < b.1) []
      let frs := if o.frags.isEmpty then "-" else
        ";".intercalate (o.frags.map fun f => s!"{f.start}:{f.size}:{if f.compressed then 1 else 0}")
      return s!"bs={sb.blocksize}\troot={root.hdr.index}\tfrags={frs}\tids={natsStr o.ids}\tn={l.length}\tv={";".intercalate (sorted.map (·.2))}"

/-! ### the writing side down to the bytes (Model/Sqfs/ImageWr.lean) -/

/-- file list: entries separated by ';', fields namehex:kind:mode:uid:gid:mtime:links:datahex:kids ('+' separated, '-' none) -/
def flOf (s : String) : List FEnt :=
  if s == "" || s == "-" then [] else (s.splitOn ";").filterMap fun e =>
    match e.splitOn ":" with
    | [n, k, m, u, g, t, l, d, ks] =>
      some { name := (fromHex n).getD [], kind := k.toNat!, mode := m.toNat!, uid := u.toNat!, gid := g.toNat!, mtime := t.toNat!,
             links := l.toNat!, data := (fromHex d).getD [], kids := if ks == "-" then [] else (ks.splitOn "+").filterMap String.toNat? }
    | _ => none

def crcRange (img : Bytes) (lo hi : Nat) : Nat := crc32 ((img.drop lo).take (hi - lo))

/-- sqfs.mkimg bs= exp= mtime= comp= flags= opt=hex fl=… fuel= → the image `buildImage` lays out for the file list
    (identity codec: nothing is compressed): length, CRC of the whole image and of its five parts cut at the
    superblock's table starts, the WriteAt list and table starts the REGION model computes from the sizes of the
    pieces (must describe the same image), and whether the model's reader, run on the model's image, returns the
    expected walk (rt), and whether the file list is inside the limits of theorem writer_reader_roundtrip (lim) -/
def mkImgOp (args : List String) : String :=
  let o : WOpt := { bs := argNatD args "bs" 4096, noCompData := true, noCompFrag := true, optBytes := (argHex args "opt").getD [],
                    exportable := argNatD args "exp" 1 == 1, modTime := argNatD args "mtime", compression := argNatD args "comp" 1,
                    flags := argNatD args "flags" }
  let fl := flOf ((arg args "fl").getD "-")
  let fuel := argNatD args "fuel" 64
  let b := buildImage idCodec o fl fuel
  let img := b.image
  let sb := b.sb
  let f := finalize b.pieces
  let regOK := f.bytesUsed == sb.bytesUsed && f.inodeStart == sb.inodeStart && f.dirStart == sb.dirStart && f.fragStart == sb.fragStart &&
    f.idStart == sb.idStart && f.exportStart == sb.exportStart && f.bytesUsed == img.length
  let dev := devOf (ByteArray.mk img.toArray) 0
  let rt := match readImageS idCodec dev (fuel + 1) with
    | some (sb', es) => sb' == sb && es == expectWalk fl b.inodes (fuel + 1) [] 0
    | none => false
  s!"n={img.length}\tcrc={crc32 img}\tc0={crcRange img 0 96}\tc1={crcRange img 96 sb.inodeStart}\tc2={crcRange img sb.inodeStart sb.dirStart}\tc3={crcRange img sb.dirStart sb.fragStart}\tc4={crcRange img sb.fragStart sb.bytesUsed}\treg={if regOK then 1 else 0}\trt={if rt then 1 else 0}\tlim={if limitsB idCodec o fl fuel && fitsB fl (fuel + 1) 0 then 1 else 0}"

/-- sqfs.lookup kind=frag|id|export loc= n= after=hex (ents=start:size:comp,… | ids=… | refs=blk:off,…) → the bytes a
    lookup-table writer lays down at `loc` (metadata blocks of 8 KiB of entries, then the index of 8-byte pointers):
    length, index location, CRC, number of blocks; and what the table's reader (`readFragTable` / `readIdTable`)
    returns for a superblock that names `n` entries, on a device that holds these bytes followed by `after` -/
def lookupOp (args : List String) : String :=
  let kind := (arg args "kind").getD "frag"
  let loc := argNatD args "loc"
  let n := argNatD args "n"
  let after := (argHex args "after").getD []
  let stream : Bytes :=
    if kind == "frag" then fragStream ((triples ((arg args "ents").getD "-")).map fun (s, z, cf) => ⟨s, z, cf == 1⟩)
    else if kind == "id" then idStream (lst args "ids")
    else exportStream (pairs ((arg args "refs").getD "-"))
  let blocks := metaChunks stream
  let tab := metaTable idCodec true blocks
  let idx := lookupIndex idCodec true loc blocks
  let idxLoc := loc + tab.length
  let bytes := tab ++ idx
  let dev := devOf (ByteArray.mk ((zeros loc ++ bytes ++ after).toArray)) 0
  let rd :=
    if kind == "frag" then
      match readFragTable idCodec dev idxLoc n with
      | none => "err"
      | some es =>
        let txt := ";".intercalate (es.map fun f => s!"{f.start}:{f.size}:{if f.compressed then 1 else 0}")
        s!"{es.length}:{crc32 txt.toUTF8.toList}"
    else if kind == "id" then
      let ids := readIdTable idCodec dev idxLoc n
      s!"{ids.length}:{crc32 (natsStr ids).toUTF8.toList}"
    else "-"
  s!"w={bytes.length}\tidx={idxLoc}\tcrc={crc32 bytes}\tblocks={blocks.length}\tr={rd}"

end Driver.Sqfs

partial def loop (h : IO.FS.Stream) (out : IO.FS.Stream) : IO Unit := do
  let line ← h.getLine
  if line.isEmpty then return ()
  let line := (line.dropEndWhile (fun c => c == '\n' || c == '\r')).toString
  match line.splitOn "\t" with
  | "case" :: id :: op :: args =>
    let r ← match op with
      | "sqfs.read" => pure (Driver.Sqfs.read args)
      | "sqfs.layout" => pure (Driver.Sqfs.layout args)
      | "sqfs.refs" => pure (Driver.Sqfs.refs args)
      | "sqfs.sb" => pure (Driver.Sqfs.sb args)
      | "sqfs.sbparse" => pure (Driver.Sqfs.sbParse args)
      | "sqfs.image" => Driver.Sqfs.image args
      | "sqfs.regions" => pure (Driver.Sqfs.regionsOp args)
      | "sqfs.chunks" => pure (Driver.Sqfs.chunksOp args)
      | "sqfs.inode" => pure (Driver.Sqfs.inodeEnc args)
      | "sqfs.inodeparse" => pure (Driver.Sqfs.inodeDec args)
      | "sqfs.dir" => pure (Driver.Sqfs.dirEnc args)
      | "sqfs.dirparse" => pure (Driver.Sqfs.dirDec args)
      | "sqfs.inodetable" => pure (Driver.Sqfs.inodeTable args)
      | "sqfs.walkp" => pure (Driver.Sqfs.walkP args)
      | "sqfs.readmeta" => Driver.Sqfs.readMetaOp args
      | "sqfs.getinode" => Driver.Sqfs.getInodeOp args
      | "sqfs.getdir" => Driver.Sqfs.getDirOp args
      | "sqfs.imgrd" => Driver.Sqfs.imgRdOp args
      | "sqfs.mkimg" => pure (Driver.Sqfs.mkImgOp args)
      | "sqfs.lookup" => pure (Driver.Sqfs.lookupOp args)
      | _ => pure "unknown-op"
    out.putStrLn s!"model\t{id}\t{r}"
  | _ => pure ()
  loop h out

def main : IO Unit := do
  let h ← IO.getStdin
  let out ← IO.getStdout
  loop h out
  out.flush
