import Driver.Util
import DiskfsModel.Core.Crc
import DiskfsModel.Model.Sqfs.Map
import DiskfsModel.Model.Sqfs.Meta
import DiskfsModel.Model.Sqfs.Codec
import DiskfsModel.Model.Sqfs.Reader
import DiskfsModel.Model.Sqfs.Regions
namespace Driver.Sqfs
open Diskfs Diskfs.Sqfs Driver

/-- the model is independent of the codec (theorem view_codec_independent): run it with the identity -/
def idCodec : Codec :=
  { compress := id, decompress := id, roundtrip := fun _ => rfl, nonempty := fun _ h => h }

def pairs (s : String) : List (Nat × Nat) :=
  if s == "-" || s == "" then [] else (s.splitOn ",").filterMap fun p =>
    match p.splitOn ":" with
    | [a, b] => some (a.toNat!, b.toNat!)
    | _ => none

/-- sqfs.read bs= data=hex calls=off:n,… → per call n:crc:eof -/
def read (args : List String) : String :=
  let bs := argNatD args "bs" 4096
  let content := (argHex args "data").getD []
  let f := buildFile idCodec true true bs [] [] content
  let outs := (pairs ((arg args "calls").getD "-")).map fun (off, n) =>
    let r := readS idCodec f off n
    s!"{r.1.length}:{crc32 r.1}:{if r.2.2 then 1 else 0}"
  "r=" ++ ",".intercalate outs

/-- sqfs.layout bs= sizes=… → per file blocks:fragidx:fragoff (fragidx = - when there is no tail) -/
def layout (args : List String) : String :=
  let bs := argNatD args "bs" 4096
  let sizes := natList ((arg args "sizes").getD "-")
  let refs := fragRefs bs sizes 0 0
  let outs := (sizes.zip refs).map fun (sz, r) =>
    match r with
    | none => s!"{sz / bs}:-:0"
    | some (i, o) => s!"{sz / bs}:{i}:{o}"
  "l=" ++ ",".intercalate outs

/-- sqfs.refs sizes=… stored=… → logical block:offset pairs and translated block values -/
def refs (args : List String) : String :=
  let sizes := natList ((arg args "sizes").getD "-")
  let stored := natList ((arg args "stored").getD "-")
  let rs := inodeRefs sizes 0
  let offs := blockOffsets stored 0
  let lo := ",".intercalate (rs.map fun (b, o) => s!"{b}:{o}")
  let tr := ",".intercalate (rs.map fun (b, _) => toString (translate offs b))
  s!"lo={lo}\ttr={tr}"

def sbOf (args : List String) : Superblock :=
  { inodes := argNatD args "inodes", modTime := argNatD args "mtime", blocksize := argNatD args "bs",
    fragCount := argNatD args "frags", compression := argNatD args "comp", flags := argNatD args "flags",
    idCount := argNatD args "ids", rootInode := argNatD args "root", bytesUsed := argNatD args "used",
    idStart := argNatD args "idS", xattrStart := argNatD args "xS", inodeStart := argNatD args "inS",
    dirStart := argNatD args "dS", fragStart := argNatD args "fS", exportStart := argNatD args "eS" }

/-- sqfs.sb fields… → b=hex -/
def sb (args : List String) : String := s!"b={toHex (encodeSB (sbOf args))}"

/-- sqfs.sbparse b=hex → fields -/
def sbParse (args : List String) : String :=
  match decodeSB ((argHex args "b").getD []) with
  | none => "err"
  | some s => s!"inodes={s.inodes}\tmtime={s.modTime}\tbs={s.blocksize}\tfrags={s.fragCount}\tcomp={s.compression}\tflags={s.flags}\tids={s.idCount}\troot={s.rootInode}\tused={s.bytesUsed}\tidS={s.idStart}\txS={s.xattrStart}\tinS={s.inodeStart}\tdS={s.dirStart}\tfS={s.fragStart}\teS={s.exportStart}"

def insertBy (lt : α → α → Bool) (x : α) : List α → List α
  | [] => [x]
  | y :: ys => if lt x y then x :: y :: ys else y :: insertBy lt x ys

/-- sqfs.image path= base= → the view the Lean reader extracts from the real (uncompressed) image -/
def image (args : List String) : IO String := do
  let some path := arg args "path" | return "err=nopath"
  let img ← IO.FS.readBinFile path
  match readSqfs img (argNatD args "base") with
  | .error e => return s!"err={e}"
  | .ok r =>
    let ents := r.ents.foldr (insertBy fun (a b : SEnt) => a.path < b.path) []
    let v := ";".intercalate (ents.map fun e =>
      if e.kind == "f" then s!"{e.path}|f|{e.size}|{e.crc}" else if e.kind == "l" then s!"{e.path}|l|{e.target}" else s!"{e.path}|d")
    return s!"bs={r.bs}\tinodes={r.inodes}\tused={r.bytesUsed}\tv={v}"

def lst (args : List String) (k : String) : List Nat := natList ((arg args k).getD "-")

def natsStr (l : List Nat) : String := if l.isEmpty then "-" else ",".intercalate (l.map toString)

/-- sqfs.regions opt= data= frags= ino= dir= ft= ex=(none | sizes) id= → every WriteAt of Finalize
    (offset:length, in order, the superblock last) and the superblock's table starts / bytes_used -/
def regionsOp (args : List String) : String :=
  let ex : Option (List Nat) := if (arg args "ex").getD "none" == "none" then none else some (lst args "ex")
  let p : Pieces := { opt := argNatD args "opt", data := lst args "data", frags := lst args "frags", inodes := lst args "ino",
                      dirs := lst args "dir", fragTbl := lst args "ft", exportTbl := ex, idTbl := lst args "id" }
  let f := finalize p
  let ws := ",".intercalate (f.writes.map fun (o, n) => s!"{o}:{n}")
  s!"w={ws}\tinS={f.inodeStart}\tdS={f.dirStart}\tfS={f.fragStart}\teS={f.exportStart}\tidS={f.idStart}\txS={f.xattrStart}\tused={f.bytesUsed}"

/-- sqfs.chunks gt=item sizes | e= n= → payload sizes of the metadata blocks the writers cut -/
def chunksOp (args : List String) : String :=
  match arg args "gt" with
  | some s => s!"c={natsStr (chunkGT (natList s) 0)}"
  | none => s!"c={natsStr (chunkGE (argNatD args "e") (argNatD args "n") 0)}"

end Driver.Sqfs

partial def loop (h : IO.FS.Stream) (out : IO.FS.Stream) : IO Unit := do
  let line ← h.getLine
  if line.isEmpty then return ()
  let line := (line.dropEndWhile (fun c => c == '\n' || c == '\r')).toString
  match line.splitOn "\t" with
  | "case" :: id :: op :: args =>
    let r ← match op with
      | "sqfs.read" => pure (Driver.Sqfs.read args)
      | "sqfs.layout" => pure (Driver.Sqfs.layout args)
      | "sqfs.refs" => pure (Driver.Sqfs.refs args)
      | "sqfs.sb" => pure (Driver.Sqfs.sb args)
      | "sqfs.sbparse" => pure (Driver.Sqfs.sbParse args)
      | "sqfs.image" => Driver.Sqfs.image args
      | "sqfs.regions" => pure (Driver.Sqfs.regionsOp args)
      | "sqfs.chunks" => pure (Driver.Sqfs.chunksOp args)
      | _ => pure "unknown-op"
    out.putStrLn s!"model\t{id}\t{r}"
  | _ => pure ()
  loop h out

def main : IO Unit := do
  let h ← IO.getStdin
  let out ← IO.getStdout
  loop h out
  out.flush
