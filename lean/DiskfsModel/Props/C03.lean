/-
  C03 — Nothing is written outside the byte range a component was given.
  What is proved here (for all sizes, offsets and prior device contents):
   * frame: a write list whose writes lie inside a range changes no byte outside it;
   * GPT / MBR table writes touch only the table's own sectors: never boot code (bytes 0–445),
     never the usable LBA range that holds partition data;
   * SubStorage translation keeps an in-bounds relative write inside [base, base+size);
   * a FAT cluster number within the data-cluster count, and an ext4/iso/squashfs block number
     below the block count, map to byte ranges inside the volume.
  What is NOT a theorem (partial): that the FAT allocator, the ext4 allocator and the
  iso9660/squashfs layout code only ever produce such cluster / block numbers. That premise is
  monitored on the real code by the `ranges` engine (every WriteAt range-checked, guard bytes
  compared) for all six filesystems; the FAT premise is proved in Props/C08 where available.
-/
import DiskfsModel.Model.Ranges
import DiskfsModel.Proofs.PartIO
namespace Diskfs.Ranges.C03

/-- frame, stated for a half-open range -/
theorem writes_in_range_frame (d : Dev) (ws : List Wr) (lo hi : Nat)
    (h : ∀ w ∈ ws, lo ≤ w.off ∧ w.off + w.data.length ≤ hi) (i : Nat) (hi' : i < lo ∨ hi ≤ i) :
    applyWrs d ws i = d i := by
  apply applyWrs_frame
  intro w hw
  have := h w hw
  omega

/-- MBR: the only write is the 64-byte entry area plus the signature -/
theorem mbr_write_in_table_bytes : ∀ r ∈ mbrRegions, 446 ≤ r.off ∧ r.off + r.len ≤ 512 := by
  decide

/-- GPT: no region reaches into the boot code area [0, 446) -/
theorem gpt_regions_avoid_bootcode (lss size : Nat) (pmbr : Bool) (hl : 512 ≤ lss)
    (hs : 2 * (gptArrayBytes / lss) + 3 ≤ size / lss) :
    ∀ r ∈ gptRegions lss size pmbr, 446 ≤ r.off := by
  intro r hr
  simp only [gptRegions, List.mem_append, List.mem_cons, List.not_mem_nil, or_false] at hr
  have hm : ∀ a b : Nat, 1 ≤ a → 512 ≤ b → 446 ≤ a * b := by
    intro a b ha hb
    calc 446 ≤ 1 * 512 := by omega
      _ ≤ a * b := Nat.mul_le_mul ha hb
  rcases hr with (hr | hr | hr | hr) | hr
  · subst hr; exact hm _ _ (by omega) hl
  · subst hr; exact hm _ _ (by omega) hl
  · subst hr; simp only; omega
  · subst hr; simp only; omega
  · split at hr
    · simp at hr; subst hr; simp
    · simp at hr

/-- GPT: with first usable LBA = 2 + arraySectors and last usable LBA = last − arraySectors − 1
    (what `initTable` computes), no region overlaps the usable area that holds partition data.
    Needs the sector size to divide the array size (512 and 4096 do) and a disk that holds both copies. -/
theorem gpt_regions_avoid_usable (lss size : Nat) (pmbr : Bool) (hl : 512 ≤ lss)
    (hdiv : gptArrayBytes / lss * lss = gptArrayBytes)
    (hs : 2 * (gptArrayBytes / lss) + 3 ≤ size / lss) :
    ∀ r ∈ gptRegions lss size pmbr,
      r.off + r.len ≤ (2 + gptArrayBytes / lss) * lss ∨
      (size / lss - 1 - gptArrayBytes / lss) * lss ≤ r.off := by
  intro r hr
  simp only [gptRegions, List.mem_append, List.mem_cons, List.not_mem_nil, or_false] at hr
  have h2 : (2 + gptArrayBytes / lss) * lss = 2 * lss + gptArrayBytes := by
    rw [Nat.add_mul, hdiv]
  rcases hr with (hr | hr | hr | hr) | hr
  · subst hr; right; simp only; omega
  · subst hr; right; simp only
    apply Nat.mul_le_mul_right; omega
  · subst hr; left; rw [h2]; simp only; omega
  · subst hr; left; rw [h2]; simp only; omega
  · split at hr
    · simp at hr; subst hr; left; rw [h2]; simp only; omega
    · simp at hr

/-- GPT: every region lies inside the device -/
theorem gpt_regions_inside_device (lss size : Nat) (pmbr : Bool) (hl : 512 ≤ lss)
    (hdiv : gptArrayBytes / lss * lss = gptArrayBytes)
    (hs : 2 * (gptArrayBytes / lss) + 3 ≤ size / lss) :
    ∀ r ∈ gptRegions lss size pmbr, r.off + r.len ≤ size := by
  intro r hr
  simp only [gptRegions, List.mem_append, List.mem_cons, List.not_mem_nil, or_false] at hr
  have hsz : size / lss * lss ≤ size := Nat.div_mul_le_self size lss
  have hA : gptArrayBytes = 16384 := rfl
  have key : ∀ k : Nat, k ≤ size / lss → k * lss ≤ size := by
    intro k hk
    exact Nat.le_trans (Nat.mul_le_mul_right lss hk) hsz
  rcases hr with (hr | hr | hr | hr) | hr
  rotate_left 4
  · split at hr
    · simp at hr; subst hr; simp only
      have := key 1 (by omega); omega
    · simp at hr
  · subst hr; simp only
    have : (size / lss - 1 - gptArrayBytes / lss) * lss + gptArrayBytes = (size / lss - 1) * lss := by
      have : size / lss - 1 = (size / lss - 1 - gptArrayBytes / lss) + gptArrayBytes / lss := by omega
      conv => rhs; rw [this, Nat.add_mul, hdiv]
    rw [this]; exact key _ (by omega)
  · subst hr; simp only
    have : (size / lss - 1) * lss + lss = (size / lss) * lss := by
      have h1 : size / lss = (size / lss - 1) + 1 := by omega
      conv => rhs; rw [h1, Nat.add_mul, Nat.one_mul]
    rw [this]; exact hsz
  · subst hr; simp only
    have : 2 * lss + gptArrayBytes = (2 + gptArrayBytes / lss) * lss := by rw [Nat.add_mul, hdiv]
    rw [this]; exact key _ (by omega)
  · subst hr; simp only
    have : lss + lss = 2 * lss := by omega
    rw [this]; exact key 2 (by omega)

/-- SubStorage (ext4, squashfs): an in-bounds relative write stays inside [base, base+size) -/
theorem sub_write_inside (base size : Nat) (w : Wr) (h : w.off + w.data.length ≤ size) :
    base ≤ (subWrite base w).off ∧ (subWrite base w).off + (subWrite base w).data.length ≤ base + size := by
  simp only [subWrite]; omega

/-- FAT: a cluster number not above dataClusters+1 maps inside the volume -/
theorem fat_cluster_inside (dataStart bpc size dataClusters c : Nat)
    (hfit : dataStart + dataClusters * bpc ≤ size) (hc2 : 2 ≤ c) (hc : c ≤ dataClusters + 1) :
    (clusterRange dataStart bpc c).2 ≤ size := by
  simp only [clusterRange]
  have : (c - 2) * bpc + bpc = (c - 1) * bpc := by
    have : c - 1 = (c - 2) + 1 := by omega
    rw [this, Nat.add_mul, Nat.one_mul]
  have h2 : (c - 1) * bpc ≤ dataClusters * bpc := Nat.mul_le_mul_right bpc (by omega)
  omega

/-- … and the bound is tight: the first cluster number past the data area does not (as-found
    `maxCluster = fatSize/4` hands such numbers out; see known finding fat-maxcluster-from-fat-size) -/
theorem fat_cluster_outside (dataStart bpc size dataClusters : Nat)
    (htight : size < dataStart + (dataClusters + 1) * bpc) :
    size < (clusterRange dataStart bpc (dataClusters + 2)).2 := by
  simp only [clusterRange]
  have : (dataClusters + 2 - 2) * bpc + bpc = (dataClusters + 1) * bpc := by
    simp [Nat.add_mul]
  omega

/-- ext4 / iso9660 / squashfs: a block number below the block count maps inside the filesystem -/
theorem block_inside (bs blocks size b : Nat) (hfit : blocks * bs ≤ size) (hb : b < blocks) :
    (blockRange bs b).2 ≤ size := by
  simp only [blockRange]
  have : b * bs + bs = (b + 1) * bs := by rw [Nat.add_mul, Nat.one_mul]
  have h2 : (b + 1) * bs ≤ blocks * bs := Nat.mul_le_mul_right bs (by omega)
  omega

/-! non-vacuity -/
example : 2 * (gptArrayBytes / 512) + 3 ≤ 204800 / 512 ∧ gptArrayBytes / 512 * 512 = gptArrayBytes := by decide
example : gptArrayBytes / 4096 * 4096 = gptArrayBytes := by decide
example : gptRegions 512 (100 * 512) true =
    [⟨(99 - 32) * 512, 16384⟩, ⟨99 * 512, 512⟩, ⟨1024, 16384⟩, ⟨512, 512⟩, ⟨446, 66⟩] := by decide

end Diskfs.Ranges.C03
