/-
  C03 — Nothing is written outside the byte range a component was given.
  What is proved here (for all sizes, offsets and prior device contents):
   * frame: a write list whose writes lie inside a range changes no byte outside it;
   * GPT / MBR table writes touch only the table's own sectors: never boot code (bytes 0–445),
     never the usable LBA range that holds partition data;
   * SubStorage translation keeps an in-bounds relative write inside [base, base+size);
   * a FAT cluster number within the data-cluster count, and an ext4/iso/squashfs block number
     below the block count, map to byte ranges inside the volume.
   * FAT clause (second half of this file): in the write-logging model of a FAT volume
     (Model/Fat/Emit.lean: boot sector(s), both FAT copies, FSInfo and its backup, the fixed root
     region, directory clusters, file data through `File.Write`) every WriteAt of `Create` and of
     every operation of every history on the root directory of a FAT12/16 volume, accepted or
     refused, lies inside [start, start+size) — for every size `Create` accepts, every start and
     every prior device content; for FAT32 the writes of `Create`.
   * ext4 clause (fifth part of this file): for every parameter set `Create` accepts, with the two layout
     predicates `Fits` and `BackupsFit` (not checked by `Create`: the recorded findings are their negations),
     every structure of the mkfs layout, every block `allocateExtents` can hand out and every WriteAt of every
     history of the volume machine (Model/RangesExt4.lean) lies inside [start, start+size); every WriteAt of
     `File.Write` lies inside one extent of the file.
   * SubStorage clause: a nest of `backend.Sub` windows is a pure translation; in-bounds calls through nested
     windows stay inside every window; a call that leaves the window is passed on whole (nothing is enforced).
   * regenerated facts: ext4 / iso9660 / squashfs go through `backend.Sub`; every ReadAt / WriteAt of the FAT
     packages adds the filesystem start exactly once.
  What is NOT a theorem (partial): the iso9660 writers beyond the plain configuration, squashfs images with
  extended attributes, FAT operations inside cluster-chain directories (subdirectories, the FAT32 root); for
  ext4 the WriteAts an operation issues are the machine's definition, tied to the real code by classifying
  every WriteAt of real histories (`ranges.ext4`), not a line-by-line mirror.  Those are monitored on the real
  code by the `ranges` engine (every WriteAt range-checked, guard bytes compared) for all six filesystems.
-/
import DiskfsModel.Model.Ranges
import DiskfsModel.Proofs.PartIO
import DiskfsModel.Proofs.FatRange
import DiskfsModel.Proofs.SqfsRange
import DiskfsModel.Proofs.IsoWrites
import DiskfsModel.Generated.Fat
import DiskfsModel.Proofs.Ext4Range
import DiskfsModel.Proofs.Ext4RangeFile
import DiskfsModel.Proofs.SubRange
import DiskfsModel.Generated.Ranges
namespace Diskfs.Ranges.C03

/-- frame, stated for a half-open range -/
theorem writes_in_range_frame (d : Dev) (ws : List Wr) (lo hi : Nat)
    (h : ∀ w ∈ ws, lo ≤ w.off ∧ w.off + w.data.length ≤ hi) (i : Nat) (hi' : i < lo ∨ hi ≤ i) :
    applyWrs d ws i = d i := by
  apply applyWrs_frame
  intro w hw
  have := h w hw
  omega

/-- MBR: the only write is the 64-byte entry area plus the signature -/
theorem mbr_write_in_table_bytes : ∀ r ∈ mbrRegions, 446 ≤ r.off ∧ r.off + r.len ≤ 512 := by
  decide

/-- GPT: no region reaches into the boot code area [0, 446) -/
theorem gpt_regions_avoid_bootcode (lss size : Nat) (pmbr : Bool) (hl : 512 ≤ lss)
    (hs : 2 * (gptArrayBytes / lss) + 3 ≤ size / lss) :
    ∀ r ∈ gptRegions lss size pmbr, 446 ≤ r.off := by
  intro r hr
  simp only [gptRegions, List.mem_append, List.mem_cons, List.not_mem_nil, or_false] at hr
  have hm : ∀ a b : Nat, 1 ≤ a → 512 ≤ b → 446 ≤ a * b := by
    intro a b ha hb
    calc 446 ≤ 1 * 512 := by omega
      _ ≤ a * b := Nat.mul_le_mul ha hb
  rcases hr with (hr | hr | hr | hr) | hr
  · subst hr; exact hm _ _ (by omega) hl
  · subst hr; exact hm _ _ (by omega) hl
  · subst hr; simp only; omega
  · subst hr; simp only; omega
  · split at hr
    · simp at hr; subst hr; simp
    · simp at hr

/-- GPT: with first usable LBA = 2 + arraySectors and last usable LBA = last − arraySectors − 1
    (what `initTable` computes), no region overlaps the usable area that holds partition data.
    Needs the sector size to divide the array size (512 and 4096 do) and a disk that holds both copies. -/
theorem gpt_regions_avoid_usable (lss size : Nat) (pmbr : Bool) (hl : 512 ≤ lss)
    (hdiv : gptArrayBytes / lss * lss = gptArrayBytes)
    (hs : 2 * (gptArrayBytes / lss) + 3 ≤ size / lss) :
    ∀ r ∈ gptRegions lss size pmbr,
      r.off + r.len ≤ (2 + gptArrayBytes / lss) * lss ∨
      (size / lss - 1 - gptArrayBytes / lss) * lss ≤ r.off := by
  intro r hr
  simp only [gptRegions, List.mem_append, List.mem_cons, List.not_mem_nil, or_false] at hr
  have h2 : (2 + gptArrayBytes / lss) * lss = 2 * lss + gptArrayBytes := by
    rw [Nat.add_mul, hdiv]
  rcases hr with (hr | hr | hr | hr) | hr
  · subst hr; right; simp only; omega
  · subst hr; right; simp only
    apply Nat.mul_le_mul_right; omega
  · subst hr; left; rw [h2]; simp only; omega
  · subst hr; left; rw [h2]; simp only; omega
  · split at hr
    · simp at hr; subst hr; left; rw [h2]; simp only; omega
    · simp at hr

/-- GPT: every region lies inside the device -/
theorem gpt_regions_inside_device (lss size : Nat) (pmbr : Bool) (hl : 512 ≤ lss)
    (hdiv : gptArrayBytes / lss * lss = gptArrayBytes)
    (hs : 2 * (gptArrayBytes / lss) + 3 ≤ size / lss) :
    ∀ r ∈ gptRegions lss size pmbr, r.off + r.len ≤ size := by
  intro r hr
  simp only [gptRegions, List.mem_append, List.mem_cons, List.not_mem_nil, or_false] at hr
  have hsz : size / lss * lss ≤ size := Nat.div_mul_le_self size lss
  have hA : gptArrayBytes = 16384 := rfl
  have key : ∀ k : Nat, k ≤ size / lss → k * lss ≤ size := by
    intro k hk
    exact Nat.le_trans (Nat.mul_le_mul_right lss hk) hsz
  rcases hr with (hr | hr | hr | hr) | hr
  rotate_left 4
  · split at hr
    · simp at hr; subst hr; simp only
      have := key 1 (by omega); omega
    · simp at hr
  · subst hr; simp only
    have : (size / lss - 1 - gptArrayBytes / lss) * lss + gptArrayBytes = (size / lss - 1) * lss := by
      have : size / lss - 1 = (size / lss - 1 - gptArrayBytes / lss) + gptArrayBytes / lss := by omega
      conv => rhs; rw [this, Nat.add_mul, hdiv]
    rw [this]; exact key _ (by omega)
  · subst hr; simp only
    have : (size / lss - 1) * lss + lss = (size / lss) * lss := by
      have h1 : size / lss = (size / lss - 1) + 1 := by omega
      conv => rhs; rw [h1, Nat.add_mul, Nat.one_mul]
    rw [this]; exact hsz
  · subst hr; simp only
    have : 2 * lss + gptArrayBytes = (2 + gptArrayBytes / lss) * lss := by rw [Nat.add_mul, hdiv]
    rw [this]; exact key _ (by omega)
  · subst hr; simp only
    have : lss + lss = 2 * lss := by omega
    rw [this]; exact key 2 (by omega)

/-- SubStorage (ext4, squashfs): an in-bounds relative write stays inside [base, base+size) -/
theorem sub_write_inside (base size : Nat) (w : Wr) (h : w.off + w.data.length ≤ size) :
    base ≤ (subWrite base w).off ∧ (subWrite base w).off + (subWrite base w).data.length ≤ base + size := by
  simp only [subWrite]; omega

/-- FAT: a cluster number not above dataClusters+1 maps inside the volume -/
theorem fat_cluster_inside (dataStart bpc size dataClusters c : Nat)
    (hfit : dataStart + dataClusters * bpc ≤ size) (hc2 : 2 ≤ c) (hc : c ≤ dataClusters + 1) :
    (clusterRange dataStart bpc c).2 ≤ size := by
  simp only [clusterRange]
  have : (c - 2) * bpc + bpc = (c - 1) * bpc := by
    have : c - 1 = (c - 2) + 1 := by omega
    rw [this, Nat.add_mul, Nat.one_mul]
  have h2 : (c - 1) * bpc ≤ dataClusters * bpc := Nat.mul_le_mul_right bpc (by omega)
  omega

/-- … and the bound is tight: the first cluster number past the data area does not (as-found
    `maxCluster = fatSize/4` hands such numbers out; see known finding fat-maxcluster-from-fat-size) -/
theorem fat_cluster_outside (dataStart bpc size dataClusters : Nat)
    (htight : size < dataStart + (dataClusters + 1) * bpc) :
    size < (clusterRange dataStart bpc (dataClusters + 2)).2 := by
  simp only [clusterRange]
  have : (dataClusters + 2 - 2) * bpc + bpc = (dataClusters + 1) * bpc := by
    simp [Nat.add_mul]
  omega

/-- ext4 / iso9660 / squashfs: a block number below the block count maps inside the filesystem -/
theorem block_inside (bs blocks size b : Nat) (hfit : blocks * bs ≤ size) (hb : b < blocks) :
    (blockRange bs b).2 ≤ size := by
  simp only [blockRange]
  have : b * bs + bs = (b + 1) * bs := by rw [Nat.add_mul, Nat.one_mul]
  have h2 : (b + 1) * bs ≤ blocks * bs := Nat.mul_le_mul_right bs (by omega)
  omega

/-! non-vacuity -/
example : 2 * (gptArrayBytes / 512) + 3 ≤ 204800 / 512 ∧ gptArrayBytes / 512 * 512 = gptArrayBytes := by decide
example : gptArrayBytes / 4096 * 4096 = gptArrayBytes := by decide
example : gptRegions 512 (100 * 512) true =
    [⟨(99 - 32) * 512, 16384⟩, ⟨99 * 512, 512⟩, ⟨1024, 16384⟩, ⟨512, 512⟩, ⟨446, 66⟩] := by decide

end Diskfs.Ranges.C03

/-! ## FAT clause: every WriteAt of the modelled FAT operations lies inside the range -/
namespace Diskfs.Ranges.C03
open Diskfs.Fat

/-- the allocator bound: the scan of `allocateSpace` stops at min(MaxCluster(), dataClusterLimit()),
    which never exceeds (size − dataStart) / bytesPerCluster + 2, so every cluster number it can
    hand out maps inside the volume (this is the premise `fat_cluster_inside` takes as given) -/
theorem fat_alloc_bound (L : Layout) (h : L.WF) (c : Nat) (h2 : 2 ≤ c) (hc : c < L.lim) :
    L.start ≤ clusterOff L.io c ∧ clusterOff L.io c + L.bpc ≤ L.start + L.size :=
  L.cluster_in_range h c h2 hc

/-- **fat_writes_in_range** — one operation (create, write at any offset incl. past EOF, truncating
    open, remove, rename with replacement) on the root directory of a volume with layout `L`:
    every WriteAt it issues — FAT copies (+ FSInfo), root directory region, zero-fill and payload
    through the file's cluster chain — lies inside [start, start+size), whether the operation is
    accepted or refused (ENOSPC, no such file).  Zero-length WriteAt calls (the Go loop issues them
    for the clusters behind the payload) carry no byte. -/
theorem fat_writes_in_range (eqn : Spec.Name → Spec.Name → Bool) (L : Layout) (fuel : Nat) (s : FState) (op : FOp)
    (hL : L.WF) (he : EqnOk eqn) (hlim : LimOk L.kind L.lim) (hfuel : L.lim - 2 ≤ fuel)
    (h : FInv eqn L.fgeom s) :
    ∀ w ∈ (fstepW eqn L fuel s op).ws,
      w.data.length = 0 ∨ (L.start ≤ w.off ∧ w.off + w.data.length ≤ L.start + L.size) :=
  fstepW_in_range eqn L fuel s op hL he hlim hfuel h

/-- the logging model is the refinement-proved model of C01 plus a log: same state, same verdict -/
theorem fat_log_is_fstep (eqn : Spec.Name → Spec.Name → Bool) (L : Layout) (fuel : Nat) (s : FState) (op : FOp) :
    ((fstepW eqn L fuel s op).s, (fstepW eqn L fuel s op).ok) = fstep eqn L.fgeom fuel s op :=
  fstepW_eq eqn L fuel s op

/-- **fat_history_in_range** — by induction over the call sequence: after every history the
    invariant still holds and the whole write log lies inside the range; hence no byte outside
    [start, start+size) differs from what the device held before. -/
theorem fat_history_in_range (eqn : Spec.Name → Spec.Name → Bool) (L : Layout) (fuel : Nat) (ops : List FOp)
    (s : FState) (hL : L.WF) (he : EqnOk eqn) (hlim : LimOk L.kind L.lim) (hfuel : L.lim - 2 ≤ fuel)
    (h : FInv eqn L.fgeom s) (d : Dev) (i : Nat) (hi : i < L.start ∨ L.start + L.size ≤ i) :
    (∀ w ∈ (frunW eqn L fuel s ops).2, w.data.length = 0 ∨ L.InRange w) ∧
    applyWrs d (frunW eqn L fuel s ops).2 i = d i := by
  have hall := (frunW_in_range eqn L fuel ops s hL he hlim hfuel h).2
  refine ⟨hall, ?_⟩
  apply applyWrs_frame
  intro w hw
  rcases hall w hw with h0 | hr
  · omega
  · unfold Layout.InRange at hr; omega

/-- a freshly created volume: empty table, empty directory -/
theorem fat_fresh_inv (eqn : Spec.Name → Spec.Name → Bool) (g : FGeom) (d : Dev) :
    FInv eqn g ⟨fun _ => 0, d, []⟩ := by
  refine ⟨⟨?_, ?_, ?_⟩, ?_, ?_⟩
  · intro l hl; simp at hl
  · simp
  · intro c _ _; simp
  · intro f hf; simp at hf
  · exact List.Pairwise.nil

/-- **FAT12, end to end**: for EVERY size `fat12.Create` accepts (mirrored arithmetic over the
    regenerated cluster-size table), every start offset, every name comparison that is an
    equivalence and every call history on the root directory, the writes of `Create` followed by
    the writes of the history all lie inside [start, start+size). -/
theorem fat12_all_writes_in_range (size start : Nat) (g : Geom)
    (hg : mkGeom12 Generated.Fat.fat12_spc_table size = some g)
    (eqn : Spec.Name → Spec.Name → Bool) (he : EqnOk eqn) (ops : List FOp) (d : Dev) :
    let L := Layout.ofGeom g start size
    L.WF ∧ L.lim = g.clusters + 2 ∧
    ∀ w ∈ L.createWrites ++ (frunW eqn L (L.lim - 2) ⟨fun _ => 0, d, []⟩ ops).2,
      w.data.length = 0 ∨ L.InRange w := by
  intro L
  obtain ⟨hwf, _, hcl⟩ := mkGeom12_wf size g hg
  obtain ⟨hk, hres, hbps⟩ := mkGeom12_fields _ size g hg
  have hs := spc_pos_of_clusters hwf.has_cluster
  have hL : L.WF := Layout.ofGeom_wf g start size hwf
    (by unfold Geom.ReservedOk; rw [hk]; simp only; omega) hs (by omega)
  have hle : L.lim ≤ g.clusters + 2 := Layout.ofGeom_lim_le g start size hwf hs (by omega) hL
  have hge : g.clusters + 2 ≤ L.lim :=
    Layout.ofGeom_lim_ge g start size hwf hL (by rw [Layout.ofGeom_max]; exact hwf.fat_holds)
  have hlim : LimOk L.kind L.lim := by
    show LimOk g.kind _
    rw [hk]; exact limOk12 (by omega)
  refine ⟨hL, by omega, ?_⟩
  intro w hw
  rcases List.mem_append.1 hw with hw | hw
  · exact Or.inr (L.createWrites_in_range hL (Or.inr (by have := hwf.has_cluster; omega)) w hw)
  · exact (frunW_in_range eqn L _ ops _ hL he hlim (Nat.le_refl _) (fat_fresh_inv eqn _ d)).2 w hw

/-- **FAT16, end to end** (same statement) -/
theorem fat16_all_writes_in_range (size start : Nat) (g : Geom)
    (hg : mkGeom16 Generated.Fat.fat16_spc_table size = some g)
    (eqn : Spec.Name → Spec.Name → Bool) (he : EqnOk eqn) (ops : List FOp) (d : Dev) :
    let L := Layout.ofGeom g start size
    L.WF ∧ L.lim = g.clusters + 2 ∧
    ∀ w ∈ L.createWrites ++ (frunW eqn L (L.lim - 2) ⟨fun _ => 0, d, []⟩ ops).2,
      w.data.length = 0 ∨ L.InRange w := by
  intro L
  obtain ⟨hwf, _, _, hcl⟩ := mkGeom16_wf size g hg
  obtain ⟨hk, hres, hbps⟩ := mkGeom16_fields _ size g hg
  have hs := spc_pos_of_clusters hwf.has_cluster
  have hL : L.WF := Layout.ofGeom_wf g start size hwf
    (by unfold Geom.ReservedOk; rw [hk]; simp only; omega) hs (by omega)
  have hle : L.lim ≤ g.clusters + 2 := Layout.ofGeom_lim_le g start size hwf hs (by omega) hL
  have hge : g.clusters + 2 ≤ L.lim :=
    Layout.ofGeom_lim_ge g start size hwf hL (by rw [Layout.ofGeom_max]; exact hwf.fat_holds)
  have hlim : LimOk L.kind L.lim := by
    show LimOk g.kind _
    rw [hk]; exact limOk16 (by omega)
  refine ⟨hL, by omega, ?_⟩
  intro w hw
  rcases List.mem_append.1 hw with hw | hw
  · exact Or.inr (L.createWrites_in_range hL (Or.inr (by have := hwf.has_cluster; omega)) w hw)
  · exact (frunW_in_range eqn L _ ops _ hL he hlim (Nat.le_refl _) (fat_fresh_inv eqn _ d)).2 w hw

/-- **FAT32 `Create`** (repaired sectors-per-FAT formula, the one in the tree): boot sector and its
    backup at sector 6, both FAT copies, FSInfo at sector 1 and its backup at sector 7, the zeroed
    root cluster and the root directory with the label all lie inside the range; the scan limit is
    data clusters + 2 and cluster numbers below it are not end-of-chain values. -/
theorem fat32_create_in_range (size bs start : Nat) (g : Geom) (hmax : size ≤ 274940771839 ∨ bs = 4096)
    (hg : mkGeom32Fixed Generated.Fat.fat32_clusterBytes_table size bs = some g) :
    let L := Layout.ofGeom g start size
    L.WF ∧ L.lim = g.clusters + 2 ∧ LimOk L.kind L.lim ∧ ∀ w ∈ L.createWrites, L.InRange w := by
  intro L
  obtain ⟨hwf, _⟩ := mkGeom32Fixed_wf size bs g hmax hg
  obtain ⟨hk, hres, hbps, hspf, _⟩ := mkGeom32Fixed_fields _ size bs g hg
  have hs := spc_pos_of_clusters hwf.has_cluster
  have hL : L.WF := Layout.ofGeom_wf g start size hwf
    (by unfold Geom.ReservedOk; rw [hk]; simp only; omega) hs (by omega)
  have hle : L.lim ≤ g.clusters + 2 := Layout.ofGeom_lim_le g start size hwf hs (by omega) hL
  have hge : g.clusters + 2 ≤ L.lim :=
    Layout.ofGeom_lim_ge g start size hwf hL (by rw [Layout.ofGeom_max]; exact hwf.fat_holds)
  have hlimmax : L.lim ≤ 67108864 := by
    have h1 : L.lim ≤ L.max := L.lim_le_max
    have h2 : L.max = g.fatEntries := Layout.ofGeom_max g start size
    have h3 : g.fatEntries ≤ 67108864 := by
      unfold Geom.fatEntries; rw [hk]; simp only
      have : g.fatSectors * g.bps ≤ 65535 * 4096 := Nat.mul_le_mul (by omega) (by omega)
      omega
    omega
  refine ⟨hL, by omega, ?_, L.createWrites_in_range hL (Or.inr (by have := hwf.has_cluster; omega))⟩
  show LimOk g.kind _
  rw [hk]; exact limOk32 hlimmax

/-! non-vacuity: a 1.44 MB FAT12 floppy at start 512 and a small FAT32 volume -/
example : (mkGeom12 Generated.Fat.fat12_spc_table 1474560).isSome = true := by decide
example : mkGeom32Fixed Generated.Fat.fat32_clusterBytes_table 82432 512 ≠ none := by
  intro h; have := mkGeom32Fixed_values; rw [h] at this; cases this
set_option maxRecDepth 4000 in
example : (fstepW (fun a b => a == b) (Layout.ofGeom ⟨.f12, 512, 1, 1, 1, 16, 40⟩ 512 20480) 100
    ⟨fun _ => 0, fun _ => 0, []⟩ (.create [65])).ws.map (fun w => (w.off, w.data.length))
    = [(1024, 512), (1536, 512), (2048, 512)] := by decide

end Diskfs.Ranges.C03

/-! ## squashfs clause: every WriteAt of `Finalize` lies inside [start, start + bytes_used) -/
namespace Diskfs.Ranges.C03

/-- **squashfs `Finalize`**: in the region mirror of Finalize (Model/Sqfs/Regions.lean: the
    `location += written` bookkeeping of every writer, for ANY sizes of the pieces, with or without
    export table / compressor options; tied to the real WriteAt log by the sqfs engine's
    `sqfs.regions` correspondence) every write, shifted by SubStorage to `start`, lies inside
    [start, start + bytes_used), so no byte outside that range changes; the code pads nothing
    (NoPad is not consulted), so bytes_used is the exact end: the writes lie inside
    [start, start + size) if bytes_used ≤ size, and if bytes_used > size some write ends beyond
    start + size — before fix 7f38962 Finalize never compared the two (finding sqfs-finalize-exceeds-size, repaired: it now refuses any WriteAt ending behind the size). -/
theorem sqfs_finalize_in_range (p : Sqfs.Pieces) (start size : Nat) (d : Dev) (ws : List Wr)
    (hws : ws.map (fun w => (w.off, w.data.length)) = (Sqfs.finalize p).writes) :
    (∀ w ∈ ws.map (subWrite start), start ≤ w.off ∧ w.off + w.data.length ≤ start + (Sqfs.finalize p).bytesUsed) ∧
    (∀ i, i < start ∨ start + (Sqfs.finalize p).bytesUsed ≤ i → applyWrs d (ws.map (subWrite start)) i = d i) ∧
    ((Sqfs.finalize p).bytesUsed ≤ size →
      ∀ w ∈ ws.map (subWrite start), start ≤ w.off ∧ w.off + w.data.length ≤ start + size) ∧
    (size < (Sqfs.finalize p).bytesUsed → ∃ w ∈ ws.map (subWrite start), start + size < w.off + w.data.length) := by
  have h := Sqfs.finalize_sub_inside p start ws hws
  refine ⟨h, fun i hi => writes_in_range_frame d _ start _ h i hi, fun hle w hw => ⟨(h w hw).1, by have := (h w hw).2; omega⟩, ?_⟩
  intro hlt
  obtain ⟨v, hv, he⟩ := Sqfs.finalize_write_reaches p
  rw [← hws] at hv
  obtain ⟨u, hu, rfl⟩ := List.mem_map.1 hv
  exact ⟨subWrite start u, List.mem_map.2 ⟨u, hu, rfl⟩, by simp only [subWrite]; simp only at he; omega⟩

/-! non-vacuity: 2 data blocks, 1 fragment block, one block per table; at start 1 MiB -/
private def sqEx : Sqfs.Pieces := { opt := 8, data := [40, 10], frags := [50], inodes := [20], dirs := [60], fragTbl := [16],
                                    exportTbl := some [40], idTbl := [4] }
private def sqWs : List Wr := (Sqfs.finalize sqEx).writes.map fun w => ⟨w.1, zeros w.2⟩
example : sqWs.map (fun w => (w.off, w.data.length)) = (Sqfs.finalize sqEx).writes := by decide
example : (Sqfs.finalize sqEx).bytesUsed = 378 ∧
    ((sqWs.map (subWrite 1048576)).map fun w => (w.off, w.data.length)).take 3 = [(1048672, 8), (1048680, 40), (1048720, 10)] := by decide

end Diskfs.Ranges.C03

/-! ## iso9660 clause: every WriteAt of `Finalize` lies inside [start, start + volume size) -/
namespace Diskfs.Ranges.C03
open Diskfs.Iso in
/-- **iso9660 `Finalize`, plain configuration** (no Rock Ridge, no Joliet, no El Torito).  In the
    write model of Finalize (Model/Iso/Writes.lean `ImageIn.writesGo`: 16 blocks of system area, one
    WriteAt per directory extent in whole blocks, L and M path table, one WriteAt per 2048-byte chunk
    of every file plus the zero fill of its last block, PVD, terminator; tied to the real WriteAt log
    offset by offset and length by length by the iso engine's `iso.wlog` correspondence of C06), with
    the locations the layout assigns (`Placed`: root directory at block 18, `location += blocks`),
    every write — shifted by SubStorage to `start`, which is how `Create` now honours the start offset
    (fix afa7eac of the earlier finding iso-start-ignored) — lies inside
    [start, start + volBlocks * blocksize), where `volBlocks` is `totalSize`, the volume size written
    into the descriptor; so no byte outside changes whatever the device held, and the writes lie inside
    [start, start + size) whenever the volume fits the size the filesystem was created with.  Finalize
    itself never compared the two before fix 71762a2 (finding iso-finalize-exceeds-size, repaired: Finalize now refuses before its first write), hence the premise. -/
theorem iso_finalize_in_range (i : ImageIn) (start size : Nat) (d : Dev) (hbs : 2048 ≤ i.bs) (hp : i.pvd.WF)
    (hpl : i.Placed) :
    (∀ w ∈ i.writesGo.map (subWrite start), start ≤ w.off ∧ w.off + w.data.length ≤ start + i.volBlocks * i.bs) ∧
    (∀ j, j < start ∨ start + i.volBlocks * i.bs ≤ j → applyWrs d (i.writesGo.map (subWrite start)) j = d j) ∧
    (i.volBlocks * i.bs ≤ size →
      ∀ w ∈ i.writesGo.map (subWrite start), start ≤ w.off ∧ w.off + w.data.length ≤ start + size) := by
  have h : ∀ w ∈ i.writesGo.map (subWrite start), start ≤ w.off ∧ w.off + w.data.length ≤ start + i.volBlocks * i.bs := by
    intro w hw
    obtain ⟨u, hu, rfl⟩ := List.mem_map.1 hw
    exact sub_write_inside start _ u (Iso.writesGo_in_volume i hbs hp hpl u hu)
  exact ⟨h, fun j hj => writes_in_range_frame d _ start _ h j hj, fun hle w hw => ⟨(h w hw).1, by have := (h w hw).2; omega⟩⟩

/-! non-vacuity: a root directory holding one 3-byte file, 2048-byte blocks; the volume is 22 blocks -/
private def isoDate : Bytes := [126, 1, 1, 0, 0, 0, 0]
private def isoT : Iso.PTree :=
  { n := 2
    ent := fun i => if i = 0 then { name := [0], isDir := true, loc := 18, size := 104, date := isoDate, content := [] }
                    else { name := [65, 59, 49], isDir := false, loc := 21, size := 3, date := isoDate, content := [7, 7, 7] }
    kids := fun d => if d = 0 then [1] else []
    parent := fun _ => 0 }
private def isoI : Iso.ImageIn :=
  { t := isoT, bs := 2048, dirs := [0], files := [1]
    pvd := { sysId := zeros 32, volId := zeros 32, volSize := 22, setSize := 1, seqNo := 1, blocksize := 2048, ptSize := 10,
             ptL := 19, ptLopt := 0, ptM := 20, ptMopt := 0, root := isoT.selfRec 0, tail := zeros 1858 }
    ptLBytes := [1, 0, 18, 0, 0, 0, 1, 0, 0, 0], ptMBytes := [1, 0, 0, 0, 0, 18, 0, 1, 0, 0] }
private theorem isoLen : (isoT.dirBytes 2048 0).length = 104 := by decide
private theorem isoPlaced : isoI.Placed := by
  apply Iso.placed_of_offsets
  simp only [Iso.ImageIn.mid, isoI, List.map_cons, List.map_nil, List.cons_append, List.nil_append, Iso.padBlock_length, isoLen]
  simp [Iso.seqAlloc, Iso.blocksFor, Iso.dataStartSector, isoT]
private theorem isoVol : isoI.volBlocks = 22 := by
  simp only [Iso.ImageIn.volBlocks, Iso.ImageIn.mid, isoI, List.map_cons, List.map_nil, List.cons_append, List.nil_append,
    Iso.padBlock_length, isoLen]
  simp [Iso.blocksFor, Iso.dataStartSector, isoT]
example : ∀ w ∈ isoI.writesGo.map (subWrite 1048576), 1048576 ≤ w.off ∧ w.off + w.data.length ≤ 1048576 + 22 * 2048 := by
  have := (iso_finalize_in_range isoI 1048576 0 (fun _ => 255) (by decide)
    (by simp [Iso.PVD.WF, isoI, isoT, Iso.PTree.selfRec, Iso.PTree.recOf, isoDate]) isoPlaced).1
  rw [isoVol] at this
  exact this
example : (isoI.writesGo.map (subWrite 1048576)).map (·.off) =
    [1048576, 1085440, 1087488, 1089536, 1091584, 1091587, 1081344, 1083392] := by decide

end Diskfs.Ranges.C03

/-! ## ext4 clause: layout, allocator and every history of the volume machine stay inside [start, start + size) -/
namespace Diskfs.Ranges.C03
open Diskfs.Ext4 Diskfs.Ext4.Mkfs Diskfs.Ext4.Alloc Diskfs.Ranges.Ext4

/-- **ext4 layout**: for every parameter set Create accepts (`mkLayout`), when the metadata of every (flex)
    group fits behind its owner (`Fits`) and every superblock / descriptor-table copy fits into its group
    (`BackupsFit`) — neither is checked by Create: the recorded findings ext4-create-flex-meta-overflow and
    ext4-backup-gdt-past-end are exactly their negations, see below — every structure the layout places
    (boot area, superblock and GDT copies, reserved GDT blocks, block bitmaps, inode bitmaps, inode tables,
    every inode slot of every inode number ≤ inodeCount) and every run of blocks below the block count lies
    inside [0, numBlocks × blockSize) ⊆ [0, size). -/
theorem ext4_layout_inside (p : Params) (l : Layout) (h : mkLayout p = .ok l) (hfit : Fits l p.flex) (hb : BackupsFit l)
    (owned : List Nat) (hown : ∀ b ∈ owned, b < l.numBlocks) (ev : Ev) (hok : EvOk l owned ev) :
    (evRegion l p.flex ev).off + (evRegion l p.flex ev).len ≤ l.numBlocks * l.bs ∧ l.numBlocks * l.bs ≤ p.size :=
  ⟨evOk_inside l p.flex owned (lwf_of_mkLayout p l h).1 hfit hb hown ev hok, (lwf_of_mkLayout p l h).2⟩

/-- **ext4 allocator**: whatever blocks allocateExtents answers with (fast path, slow path, any policy: the
    machine accepts exactly the answers whose runs are free in the bitmaps, `runsOK`), on bitmaps that are no
    longer than their group (`LenInv`: the short last group has a short bitmap — in the code the padding bits
    behind it are set), every block handed out is below the block count and every run lies inside one group. -/
theorem ext4_alloc_below (l : Layout) (s : Acc) (n : Nat) (runs : List Run) (s' : Acc) (hi : LenInv l s)
    (h : allocExtents s n (some runs) = .ok s') :
    (∀ r ∈ runs, r.1 < l.groups) ∧ (∀ b ∈ runs.flatMap (runBlocks (geoOf l)), b < l.numBlocks) ∧ LenInv l s' := by
  have hok : runsOK s runs = true := by
    cases hro : runsOK s runs with
    | true => rfl
    | false => exfalso; simp [allocExtents, hro] at h
  have hs : shape s' = shape s := by
    have := shape_allocExtents s n (some runs)
    rw [h] at this; exact this
  exact ⟨(runs_below l runs s hi hok).1, (runs_below l runs s hi hok).2, lenInv_of_shape l s s' hs hi⟩

/-- **ext4, every history**: a volume created with parameters Create accepts, with `Fits` and `BackupsFit`;
    any state satisfying the invariant `RInv` (bitmaps no longer than their groups, every owned block below the
    block count, every file's inode number ≤ inodeCount — `ext4_fresh_inv`: the state Create leaves has it);
    any sequence of calls of the volume machine (allocateInode + writeInode, allocateExtents answers of any
    policy, Remove, WriteAts into runs of blocks the file owns — file data, directory blocks, extent nodes —,
    inode write-backs), accepted or refused.  Then every WriteAt of Create and of the history, shifted by the
    SubStorage window to `start`, lies inside [start, start + size): no byte outside changes whatever the
    device held. -/
theorem ext4_history_in_range (p : Params) (l : Layout) (h : mkLayout p = .ok l) (hfit : Fits l p.flex) (hb : BackupsFit l)
    (o : Own) (hi : RInv l o) (ops : List VOp) (start : Nat) (d : Dev) (ws : List Wr)
    (hws : ws.map (fun w => (⟨w.off, w.data.length⟩ : Region)) = (createEvs l ++ (vrun l o ops).2).map (evRegion l p.flex)) :
    RInv l (vrun l o ops).1 ∧
    (∀ w ∈ ws.map (subWrite start), start ≤ w.off ∧ w.off + w.data.length ≤ start + p.size) ∧
    ∀ i, i < start ∨ start + p.size ≤ i → applyWrs d (ws.map (subWrite start)) i = d i := by
  obtain ⟨hw, hsz⟩ := lwf_of_mkLayout p l h
  obtain ⟨hinv, hin⟩ := vrun_inside l p.flex hw hfit hb ops o hi
  have hall : ∀ w ∈ ws.map (subWrite start), start ≤ w.off ∧ w.off + w.data.length ≤ start + p.size := by
    intro w hw'
    obtain ⟨u, hu, rfl⟩ := List.mem_map.1 hw'
    have hr : (⟨u.off, u.data.length⟩ : Region) ∈ (createEvs l ++ (vrun l o ops).2).map (evRegion l p.flex) := by
      rw [← hws]; exact List.mem_map.2 ⟨u, hu, rfl⟩
    obtain ⟨ev, hev, hreg⟩ := List.mem_map.1 hr
    have hle : (evRegion l p.flex ev).off + (evRegion l p.flex ev).len ≤ l.numBlocks * l.bs := by
      rcases List.mem_append.1 hev with h1 | h1
      · exact evOk_inside l p.flex [] hw hfit hb (by simp) ev (createEvs_ok l [] ev h1)
      · exact hin ev h1
    rw [hreg] at hle
    simp only [subWrite] at hle ⊢
    omega
  refine ⟨hinv, hall, fun i hi' => applyWrs_frame d _ i ?_⟩
  intro w hw'
  have := hall w hw'
  omega

/-- the state initGroupDescriptorTables leaves satisfies the invariant, for every layout -/
theorem ext4_fresh_inv (l : Layout) (flex : Bool) : RInv l (freshOwn l flex) := fresh_rinv l flex

/-- **File.Write** (the repaired loop of Model/Ext4/FileIO.lean) on an extent list that holds the transfer:
    every WriteAt lies inside one extent of the file; so when the file's extents are blocks below the block
    count (what `RInv` says of every owned block), every WriteAt ends at or below numBlocks × blockSize. -/
theorem ext4_file_write_in_range (bs numBlocks : Nat) (es : List Extent) (size off : Nat) (b : Bytes)
    (hbs : 0 < bs) (hc : Contig 0 es) (hsz : size ≤ blockCount es * bs) (hfit : off + b.length ≤ blockCount es * bs)
    (hbelow : ∀ e ∈ es, e.start + e.count ≤ numBlocks) :
    ∃ r, writeE false true bs es size off b = .ok r ∧
      ∀ w ∈ r.ws, InExtent bs es w ∧ 0 ≤ w.1 ∧ w.1 + (w.2.length : Int) ≤ ((numBlocks * bs : Nat) : Int) := by
  obtain ⟨r, hr, hin⟩ := writeE_in_extents bs es size off b hbs hc hsz hfit
  refine ⟨r, hr, fun w hw => ⟨hin w hw, ?_⟩⟩
  obtain ⟨e, he, h1, h2⟩ := hin w hw
  have := Nat.mul_le_mul_right bs (hbelow e he)
  omega

/-- finding ext4-backup-gdt-past-end: a group that carries a superblock copy and whose first block is the last
    block of the volume has its descriptor-table copy written wholly behind the end of the volume -/
theorem ext4_backup_gdt_outside (l : Layout) (flex : Bool) (g : Nat) (h : l.numBlocks ≤ groupStart l g + 1) :
    l.numBlocks * l.bs ≤ (evRegion l flex (.gdt g)).off := by
  simp only [evRegion]
  exact Nat.mul_le_mul_right _ h

/-! non-vacuity, and the two findings as the negations of the hypotheses -/

/-- the default 16 MiB volume: accepted, `Fits`, `BackupsFit` -/
def e4p16 : Params := ⟨16 * 1024 * 1024, 0, 0, 0, 0, 0, true, true, true⟩
example : ∃ l, mkLayout e4p16 = .ok l ∧ Fits l e4p16.flex ∧ BackupsFit l := ⟨layoutOf e4p16, by rfl, by decide, by decide⟩

/-- ext4-backup-gdt-past-end: 73730 blocks of 1 KiB — ten groups, group 9 (a backup group: 9 = 3²) has one
    block.  Create accepts, `Fits` holds, `BackupsFit` does not, and the descriptor-table copy of group 9
    starts exactly at the end of the volume (the real code writes 640 bytes there: `ranges.ext4` replay). -/
def pGdt : Params := ⟨73730 * 1024, 0, 0, 0, 0, 0, true, true, true⟩
example : mkLayout pGdt = .ok (layoutOf pGdt) ∧ Fits (layoutOf pGdt) true ∧ ¬ BackupsFit (layoutOf pGdt) ∧
    (evRegion (layoutOf pGdt) true (.gdt 9)).off = pGdt.size ∧ hasSuper 9 = true := ⟨by rfl, by decide⟩

/-- ext4-create-flex-meta-overflow: 64 MiB + 3 KiB without resize inode — 65539 blocks, group 8 has 2 blocks
    and is the owner of its flex group: `Fits` is false and the inode table of group 8 ends beyond the volume -/
def pFlex : Params := ⟨64 * 1024 * 1024 + 3 * 1024, 0, 0, 0, 0, 0, false, true, true⟩
example : mkLayout pFlex = .ok (layoutOf pFlex) ∧ ¬ Fits (layoutOf pFlex) true ∧
    pFlex.size < (evRegion (layoutOf pFlex) true (.itab 8)).off + (evRegion (layoutOf pFlex) true (.itab 8)).len :=
  ⟨by rfl, by decide⟩

set_option maxRecDepth 100000 in
/-- one file on the fresh 16 MiB volume: allocateInode, two blocks from allocateExtents, a WriteAt over both,
    the inode write-back, Remove — the machine accepts every step and emits these writes -/
example : ((vrun (layoutOf e4p16) (freshOwn (layoutOf e4p16) true)
      [.create false, .grow 0 2 [(0, 1000, 2)], .wblocks 0 1001 2 100 1500, .winode 0, .remove 0 false]).2.map
        (fun ev => ((evRegion (layoutOf e4p16) true ev).off, (evRegion (layoutOf e4p16) true ev).len))).length = 21 := by
  decide

end Diskfs.Ranges.C03

/-! ## SubStorage clause: backend.Sub is a pure translation; nested windows; calls that leave the window -/
namespace Diskfs.Ranges.C03

/-- **SubStorage is a pure translation**: a ReadAt / WriteAt issued at `off` through any nest of Subs reaches the
    device at `off` + the sum of the window offsets — the window sizes play no part (backend/substorage.go adds
    `offset` and checks nothing). -/
theorem sub_nest_translates (ws : List Win) (off : Int) : subAbs ws off = off + (winSum ws : Int) :=
  subAbs_eq ws off

/-- **nested windows**: windows each inside the one around it (`Nested`: disk.Partition's window inside the
    disk, the filesystem's window inside the partition, …); a call of `len` bytes at `off` that is in bounds of
    the window the filesystem holds (0 ≤ off, off + len ≤ size) reaches the device inside the device range of
    EVERY window of the nest. -/
theorem sub_nested_inside (w : Win) (ws : List Win) (hn : Nested (w :: ws)) (off : Int) (len : Nat)
    (h0 : 0 ≤ off) (h1 : off + (len : Int) ≤ (w.size : Int)) :
    InsideAll (w :: ws) (subAbs (w :: ws) off) (subAbs (w :: ws) off + (len : Int)) := by
  apply insideAll_of_head _ _ _ hn
  intro w' rest he
  cases he
  rw [subAbs_eq]
  constructor <;> omega

/-- **a call that leaves the window is passed on, whole**: nothing is refused and nothing is truncated — a write
    that straddles or lies behind the window end reaches the device with its full length and ends behind the
    window's device range; a negative offset that the window offset makes non-negative lands in front of it.
    So the range property of a filesystem behind a Sub rests on the filesystem's own arithmetic (the ext4,
    iso9660 and squashfs clauses above), not on the wrapper. -/
theorem sub_straddle_passes (w : Win) (ws : List Win) (off : Int) (len : Nat) (h : (w.size : Int) < off + (len : Int)) :
    (winSum (w :: ws) : Int) + (w.size : Int) < subAbs (w :: ws) off + (len : Int) := by
  rw [subAbs_eq]; omega

theorem sub_negative_passes (w : Win) (ws : List Win) (off : Int) (h : off < 0) :
    subAbs (w :: ws) off < (winSum (w :: ws) : Int) := by
  rw [subAbs_eq]; omega

/-- **Seek**: SeekStart to a non-negative offset returns that offset and leaves the device at offset + the sum of
    the window offsets; SeekEnd returns `size + offset` of the window the caller holds (the only use of `size`);
    SeekCurrent returns the device position moved by `offset`, less the window offsets. -/
theorem sub_seek (devSize : Nat) (w : Win) (ws : List Win) (upos offset : Int) :
    (0 ≤ offset → subSeek devSize (w :: ws) upos .start offset = some (offset + (winSum (w :: ws) : Int), offset)) ∧
    (0 ≤ (w.size : Int) + offset → subSeek devSize (w :: ws) upos .«end» offset =
      some ((w.size : Int) + offset + (winSum (w :: ws) : Int), (w.size : Int) + offset)) ∧
    (0 ≤ upos + offset → subSeek devSize (w :: ws) upos .current offset =
      some (upos + offset, upos + offset - (winSum (w :: ws) : Int))) :=
  ⟨subSeek_start devSize _ upos offset, subSeek_end devSize w ws upos offset, subSeek_current devSize _ upos offset⟩

/-! non-vacuity: a filesystem window of 1 MiB at 4096 inside a partition window of 8 MiB at 1 MiB -/
example : Nested [⟨4096, 1048576⟩, ⟨1048576, 8388608⟩] := ⟨by decide, trivial⟩
example : subAbs [⟨4096, 1048576⟩, ⟨1048576, 8388608⟩] 100 = 1052772 := by decide
example : subSeek 16777216 [⟨4096, 1048576⟩, ⟨1048576, 8388608⟩] 0 .«end» (-16) = some (2101232, 1048560) := by decide

end Diskfs.Ranges.C03

/-! ## regenerated facts: who translates the start offset, and how often -/
namespace Diskfs.Ranges.C03

/-- ext4, iso9660 and squashfs wrap the backend in `backend.Sub(b, start, size)` (and their write models above
    are shifted by `subWrite start`); the FAT packages do not -/
theorem facts_agree_sub_users : Generated.Ranges.sub_users = ["ext4", "iso9660", "squashfs"] := by decide

/-- the FAT packages add the start by hand: in EVERY ReadAt / WriteAt call of fat12, fat16 and fat32 the offset
    argument, normalised by go/ast (conversions dropped, locals replaced by their nearest assignment, sums
    flattened), contains the filesystem start exactly once — never forgotten (0, seeded m62) and never doubled
    (2, seeded m05); the write-logging FAT model (`Layout.io`) adds `start` once to every offset likewise -/
theorem facts_agree_fat_start_once :
    (∀ c ∈ Generated.Ranges.fat_io_start_counts, c = 1) ∧ 20 ≤ Generated.Ranges.fat_io_start_counts.length ∧
    Generated.Ranges.fat_io_start_counts.length = Generated.Ranges.fat_io_sites.length := by decide

end Diskfs.Ranges.C03
