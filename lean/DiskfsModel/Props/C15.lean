/-
  C15 — Reading a partition table from untrusted bytes cannot crash.
  The readers are total functions `device → (ok | err | panic) × allocation requests`.
  All theorems quantify over EVERY device content `d`, every device size, every CRC function.
  `Cfg.arrayBounded = true` is the repaired behaviour (fixes/gpt-array-size-unbounded.patch);
  as found the two counterexamples at the end hold instead.
-/
import DiskfsModel.Proofs.GptRobust
import DiskfsModel.Proofs.MbrRead
import DiskfsModel.Generated.GptRead
namespace Diskfs.Gpt.C15

/-- gpt.Read never panics, whatever the device holds -/
theorem read_no_panic (c : Cfg) (hc : c.arrayBounded = true) (crc : Bytes → Nat) (d : Dev) (devSize lss : Nat)
    (hlss : 92 ≤ lss) : (read c crc d devSize lss).1.isPanic = false :=
  (read_fixed c hc crc d devSize lss hlss).1

/-- every allocation gpt.Read requests is non-negative and at most the device size plus two sectors -/
theorem read_alloc_bounded (c : Cfg) (hc : c.arrayBounded = true) (crc : Bytes → Nat) (d : Dev) (devSize lss : Nat)
    (hlss : 92 ≤ lss) : ∀ a ∈ (read c crc d devSize lss).2, 0 ≤ a ∧ a ≤ (devSize : Int) + 2 * (lss : Int) :=
  (read_fixed c hc crc d devSize lss hlss).2

/-- termination is structural: the entry loop runs over the 128-byte chunks of the array just read -/
theorem read_terminates (b : Bytes) (lss : Nat) : (decodeArr b lss).length ≤ b.length / 128 := by
  unfold decodeArr
  have key : ∀ (cs : List Bytes) (i : Nat), (decodeFrom lss i cs).length ≤ cs.length := by
    intro cs
    induction cs with
    | nil => intro i; simp [decodeFrom]
    | cons c cs ih =>
      intro i
      simp only [decodeFrom]
      split
      · have := ih (i + 1); simp only [List.length_cons]; omega
      · have := ih (i + 1); simp only [List.length_cons]; omega
  have hlen : ∀ (n : Nat) (b : Bytes), (chunk128 n b).length = n := by
    intro n; induction n with
    | zero => intro b; simp [chunk128]
    | succ n ih => intro b; simp [chunk128, ih]
  have := key (chunk128 (b.length / 128) b) 0
  rw [hlen] at this
  exact this

/-- any table gpt.Read returns lists only partitions decoded from bytes whose CRC32 is recorded in a
    header that itself passed the header checks (as found and repaired alike) -/
theorem parts_from_valid_crc (c : Cfg) (crc : Bytes → Nat) (d : Dev) (devSize lss : Nat) (t : Table)
    (h : (read c crc d devSize lss).1 = .ok t) :
    ∃ t0, FromValidArray crc d devSize lss t0 ∧ t.parts = t0.parts :=
  read_ok c crc d devSize lss t h

/-- partition.Read (GPT, then MBR) never panics either, and mbr.Read allocates one 512-byte buffer -/
theorem partition_read_no_panic (c : Cfg) (hc : c.arrayBounded = true) (crc : Bytes → Nat) (d : Dev) (devSize lss : Nat)
    (hlss : 512 ≤ lss) :
    (PartTable.read c crc d devSize lss).1.isPanic = false ∧
    ∀ a ∈ (PartTable.read c crc d devSize lss).2, 0 ≤ a ∧ a ≤ (devSize : Int) + 2 * (lss : Int) := by
  have hr := read_fixed c hc crc d devSize lss (by omega)
  unfold PartTable.read PartTable.readWith
  split
  · rename_i t al heq; rw [heq] at hr; exact ⟨rfl, hr.2⟩
  · rename_i s al heq; rw [heq] at hr; simp [Res.isPanic] at hr
  · rename_i e al heq; rw [heq] at hr
    have hm : ∀ a ∈ (Mbr.read d devSize).2, 0 ≤ a ∧ a ≤ (devSize : Int) + 2 * (lss : Int) := by
      intro a ha
      have hm2 : (Mbr.read d devSize).2 = [512] := by
        unfold Mbr.read
        split
        · rfl
        · simp only
          split <;> rfl
      rw [hm2] at ha
      simp only [List.mem_singleton] at ha
      subst ha
      omega
    split
    · rename_i ps al2 heq2
      refine ⟨rfl, ?_⟩
      intro a ha
      rcases List.mem_append.1 ha with h | h
      · exact hr.2 a h
      · exact hm a (by rw [heq2]; exact h)
    · rename_i al2 heq2
      refine ⟨rfl, ?_⟩
      intro a ha
      rcases List.mem_append.1 ha with h | h
      · exact hr.2 a h
      · exact hm a (by rw [heq2]; exact h)

/-! ### mbr.Read and the partition.Read dispatch as the code is now (Model/MbrTable.lean): every Go slice and
    index expression of tableFromBytes / partitionFromBytes yields `.panic` where Go would panic, so that no input
    reaches one is a theorem and not a modelling decision; Read stamps the sector sizes the caller passes -/

/-- TOTAL DECODE: tableFromBytes never panics, for a byte string of ANY length and content -/
theorem mbr_table_from_bytes_total (b : Bytes) : (Mbr.tableFromBytes b).isPanic = false :=
  Mbr.tableFromBytes_no_panic b

/-- partitionFromBytes never panics either, whatever slice it is handed -/
theorem mbr_partition_from_bytes_total (i : Nat) (b : Bytes) : (Mbr.partFromBytes i b).isPanic = false :=
  Mbr.partFromBytes_no_panic i b

/-- mbr.Read never panics and requests exactly one buffer of 512 bytes — for every device content, every device
    size (shorter than a sector included) and every pair of sector sizes handed in (zero, negative, huge) -/
theorem mbr_read_total (d : Dev) (devSize : Nat) (lbs pbs : Int) :
    (Mbr.readT d devSize lbs pbs).1.isPanic = false ∧ (Mbr.readT d devSize lbs pbs).2 = [512] :=
  Mbr.readT_total d devSize lbs pbs

/-- what mbr.Read accepts, exactly: a device of at least 512 bytes whose first sector ends in 55 AA and whose
    four boot flags are 00 or 80 (`Mbr.read` is the by-construction-total decoder); the table then carries the
    caller's sector sizes when positive, else 512 -/
theorem mbr_read_decides (d : Dev) (devSize : Nat) (lbs pbs : Int) :
    Mbr.readT d devSize lbs pbs =
      (match (Mbr.read d devSize).1 with
        | some ps => .ok { parts := ps, lss := Mbr.stamp lbs, pss := Mbr.stamp pbs }
        | none => .err false, [512]) :=
  Mbr.readT_eq d devSize lbs pbs

/-- partition.Read — gpt.Read first, mbr.Read on any error of it, both with the caller's sector sizes — never
    panics, and every allocation of the whole dispatch is within the device size plus two sectors -/
theorem partition_read_total (c : Cfg) (hc : c.arrayBounded = true) (crc : Bytes → Nat) (d : Dev) (devSize lss : Nat)
    (pbs : Int) (hlss : 512 ≤ lss) :
    (PartTable.readT c crc d devSize lss pbs).1.isPanic = false ∧
    ∀ a ∈ (PartTable.readT c crc d devSize lss pbs).2, 0 ≤ a ∧ a ≤ (devSize : Int) + 2 * (lss : Int) :=
  PartTable.readT_fixed c hc crc d devSize lss pbs hlss

/-- the dispatch: an MBR table comes out of partition.Read only when gpt.Read did not succeed, and it is the
    table mbr.Read returns on the same bytes -/
theorem partition_read_mbr_fallback (c : Cfg) (crc : Bytes → Nat) (d : Dev) (devSize lss : Nat) (pbs : Int) (t : Mbr.Table)
    (h : (PartTable.readT c crc d devSize lss pbs).1 = .ok (.mbr t)) :
    (Mbr.readT d devSize (lss : Int) pbs).1 = .ok t ∧ (Gpt.read c crc d devSize lss).1.isOk = false :=
  PartTable.readT_mbr c crc d devSize lss pbs t h

-- non-vacuity: a device that decodes (an empty table written over zeros), byte strings that are refused, a
-- device shorter than a sector
example : (Mbr.readT (applyWrs (fun _ => 0) (Mbr.write [])) 512 4096 0).1.isOk = true := by
  rw [Mbr.readT_writeT (fun _ => 0) ⟨[], 512, 512⟩ _ 512 4096 0 (by decide) (by simp) rfl]; rfl
example : Mbr.tableFromBytes [1, 2, 3] = .err false ∧ Mbr.partFromBytes 1 [0x80, 1] = .err false ∧
    Mbr.partFromBytes 1 [0x7f, 0, 0, 0, 0, 0, 0, 0, 0, 0, 0, 0, 0, 0, 0, 0] = .err false := by decide
example : (Mbr.readT (fun _ => 0) 511 512 512).1 = .err false := by decide

/-- as found: 2^32−1 entries in a CRC-valid header → a 512 GiB allocation request on a 1 MiB device -/
theorem cex_alloc_unbounded (crc : Bytes → Nat) (d : Dev) (pm : Bool) :
    (loadEntries Cfg.asFound crc d 1048576 (tableOfHdr cexHuge 512 pm) 512).2 = [549755813760] :=
  Gpt.cex_alloc_unbounded crc d pm

/-- as found: entry count = entry size = 2^32−1 → negative length → `make` panics -/
theorem cex_negative_panics (crc : Bytes → Nat) (d : Dev) (pm : Bool) :
    (loadEntries Cfg.asFound crc d 1048576 (tableOfHdr cexNeg 512 pm) 512).1.isPanic = true :=
  Gpt.cex_negative_panics crc d pm

/-- repaired: both are refused as content errors before anything is allocated -/
theorem cex_repaired (crc : Bytes → Nat) (d : Dev) (pm : Bool) :
    loadEntries Cfg.fixed crc d 1048576 (tableOfHdr cexHuge 512 pm) 512 = (.err true, []) ∧
    loadEntries Cfg.fixed crc d 1048576 (tableOfHdr cexNeg 512 pm) 512 = (.err true, []) :=
  Gpt.cex_repaired crc d pm

/-- pinned facts regenerated from partition/gpt/table.go: the header field offsets readGPTHeader slices,
    and the allocation in loadEntries is `make([]byte, size)` of the product computed by
    calculatePartitionArrayLocations -/
theorem facts_agree_header_offsets :
    Generated.GptRead.headerSlices =
      [(0, 8), (8, 12), (12, 16), (16, 20), (20, 24), (24, 32), (32, 40), (40, 48), (48, 56), (56, 72), (72, 80),
       (80, 84), (84, 88), (88, 92)] ∧
    Generated.GptRead.headerCrcRange = [(0, 92)] ∧
    Generated.GptRead.loadEntriesMakeArg = "size" := by
  decide

/-- non-vacuity: the repaired configuration satisfies the hypothesis -/
example : Cfg.fixed.arrayBounded = true := rfl

end Diskfs.Gpt.C15
