/-
  C12 — Existing filesystems and tables are recognised as what they are.
  Property theorems only; helper lemmas live in Proofs/Detect.lean.

  Quantifiers: every prior device content (`stale : Dev`, an arbitrary function),
  every size Create accepts, every label / serial / FAT / root-directory payload,
  every probe order that satisfies the stated order constraints, every outcome of
  the parts of the readers that the header model does not read (`deep`).

  Full for FAT12, FAT16 and FAT32 (Create's write list, the readers' acceptance tests —
  for FAT32 including the FSInfo sector and the comparison of the two FAT copies — and
  the probe chain are all mirrored); header level for iso9660, squashfs and ext4: their
  theorems start from what the respective Create is observed to put into the header
  bytes (hypotheses named in each statement); for ext4 the clearing of the boot area is
  part of the statement (probe_create_ext4_clears), acceptance of its own image is not.
-/
import DiskfsModel.Proofs.Detect
import DiskfsModel.Proofs.DetectFat32
import DiskfsModel.Proofs.DetectMid
import DiskfsModel.Proofs.DetectTable
import DiskfsModel.Proofs.DetectIso
import DiskfsModel.Proofs.DetectStale
import DiskfsModel.Model.Sqfs.Regions
import DiskfsModel.Generated.Detect
set_option linter.unusedSimpArgs false
namespace Diskfs.Detect.C12
open Diskfs.Detect

/-- the model's parameters, taken from the regenerated facts -/
def genParams : Params :=
  { f12ReadGe := Generated.Detect.fat12ReadGe, f16ReadLt := Generated.Detect.fat16ReadLt,
    f16ReadGe := Generated.Detect.fat16ReadGe, f12CreateGe := Generated.Detect.fat12CreateGe,
    f16CreateLt := Generated.Detect.fat16CreateLt, f16CreateGe := Generated.Detect.fat16CreateGe,
    spc12 := Generated.Detect.fat12SpcTable, spc12d := Generated.Detect.fat12SpcDefault,
    spc16 := Generated.Detect.fat16SpcTable, spc16d := Generated.Detect.fat16SpcDefault,
    f12Max := Generated.Detect.fat12MaxSize, f16Max := Generated.Detect.fat16MaxSize,
    f32Max := Generated.Detect.fat32MaxSize,
    f12RefuseZero := Generated.Detect.fat12CreateRefusesZeroClusters,
    cb32 := Generated.Detect.fat32ClusterBytesTable, cb32d := Generated.Detect.fat32ClusterBytesDefault }

def genOrder : List Kind := Generated.Detect.fsProbeOrder.filterMap Kind.ofName?

/-- order constraints every theorem below needs: all six kinds are probed, the FAT kinds before
    iso9660 and ext4 (FAT Create does not wipe a stale descriptor at 32 KiB nor a stale superblock at
    1 KiB), squashfs before ext4 -/
def orderCore (order : List Kind) : Bool :=
  Kind.all.all (fun k => decide (k ∈ order)) &&
  [Kind.fat32, Kind.fat16, Kind.fat12].all (fun f => before order f .iso9660 && before order f .ext4) &&
  before order .squashfs .ext4

/-! ### sector 0 after Create, for every stale content -/

/-- after fat12.Create / fat16.Create the first 512 bytes of the volume are the boot sector with the
    final label — whatever the range held before -/
theorem create1x_sector0 (stale : Dev) (is16 : Bool) (L : Layout) (serial : Nat) (label : List Nat)
    (fat rootDir : Bytes) (hres : 1 ≤ L.reserved) (i : Nat) (hi : i < 512) :
    applyWrs stale (createWrs1x is16 L serial label fat rootDir) i = bootFat1x is16 L serial label i := by
  have hsplit : createWrs1x is16 L serial label fat rootDir =
      (createWrs1x is16 L serial label fat rootDir).take 4 ++ [⟨0, sectorBytes (bootFat1x is16 L serial label) 512⟩] ++
      (createWrs1x is16 L serial label fat rootDir).drop 5 := by
    simp [createWrs1x]
  rw [hsplit]
  apply applyWrs_prefix_then_far _ _ _ _ 512 i hi
  intro w hw
  simp [createWrs1x] at hw
  subst hw
  simp only
  omega

/-! ### FAT threshold lemmas: the count Read computes from the BPB bytes is the one Create checked -/

theorem create12_count_lt (P : Params) (hP : P.wf = true) (stale : Dev) (size serial : Nat) (label : List Nat)
    (fat rootDir : Bytes) (L : Layout) (h : layout12 P size = some L) :
    (readBpb (applyWrs stale (createWrs1x false L serial label fat rootDir))).count = L.count ∧
    L.count < P.f12ReadGe := by
  obtain ⟨ok, hc, hr⟩ := layout12_ok P hP size L h
  refine ⟨boot_count false L serial label _ (create1x_sector0 stale false L serial label fat rootDir ok.res_pos) size ok, ?_⟩
  simp only [Params.wf, Bool.and_eq_true, decide_eq_true_eq] at hP
  omega

theorem create16_count_range (P : Params) (hP : P.wf = true) (stale : Dev) (size serial : Nat) (label : List Nat)
    (fat rootDir : Bytes) (L : Layout) (h : layout16 P size = some L) :
    (readBpb (applyWrs stale (createWrs1x true L serial label fat rootDir))).count = L.count ∧
    P.f16ReadLt ≤ L.count ∧ L.count < P.f16ReadGe := by
  obtain ⟨ok, hlo, hhi, hr⟩ := layout16_ok P hP size L h
  refine ⟨boot_count true L serial label _ (create1x_sector0 stale true L serial label fat rootDir ok.res_pos) size ok, ?_⟩
  simp only [Params.wf, Bool.and_eq_true, decide_eq_true_eq] at hP
  omega

/-! ### probe (create_T …) = T -/

theorem orderCore_mem (order : List Kind) (h : orderCore order = true) (k : Kind) : k ∈ order := by
  simp only [orderCore, Bool.and_eq_true, List.all_eq_true, decide_eq_true_eq] at h
  exact h.1.1 k (by cases k <;> simp [Kind.all])

/-- FAT12: for every stale content, size, label, serial and every admissible probe order -/
theorem probe_create_fat12 (P : Params) (hP : P.wf = true) (order : List Kind) (hord : orderCore order = true)
    (stale : Dev) (size avail serial : Nat) (label : List Nat) (fat rootDir : Bytes) (deep : Kind → Verdict)
    (L : Layout) (h : layout12 P size = some L) (hpos : 0 < L.count) (hav : size ≤ avail) :
    probe (verdict P (applyWrs stale (createWrs1x false L serial label fat rootDir)) ⟨size, avail, 512, deep⟩) order
      = .found .fat12 := by
  obtain ⟨ok, hc, hr⟩ := layout12_ok P hP size L h
  have hrd := create1x_sector0 stale false L serial label fat rootDir ok.res_pos
  have hP' := hP
  simp only [Params.wf, Bool.and_eq_true, decide_eq_true_eq] at hP'
  have hord' := hord
  simp only [orderCore, Bool.and_eq_true, List.all_eq_true, decide_eq_true_eq, before] at hord'
  apply probe_found _ order .fat12 (orderCore_mem order hord .fat12)
  · simp only [verdict]
    rw [fat1x_on_boot P false false L serial label _ hrd size avail ok hpos hav]
    have : ¬ (L.count ≥ P.f12ReadGe) := by omega
    simp [this]
  · intro k _ hne hlt
    cases k with
    | fat32 => exact fat32_rejects_boot1x P false L serial label _ hrd size avail 512 _
    | fat16 =>
      simp only [verdict]
      rw [fat1x_on_boot P false true L serial label _ hrd size avail ok hpos hav]
      have : L.count < P.f16ReadLt := by omega
      simp [this]
    | fat12 => exact absurd rfl hne
    | iso9660 =>
      have := (hord'.1.2 .fat12 (by simp)).1
      omega
    | squashfs => simp only [verdict]; exact sqfs_rejects_boot1x false L serial label _ hrd _ _ _
    | ext4 =>
      have := (hord'.1.2 .fat12 (by simp)).2
      omega

/-- FAT16 likewise -/
theorem probe_create_fat16 (P : Params) (hP : P.wf = true) (order : List Kind) (hord : orderCore order = true)
    (stale : Dev) (size avail serial : Nat) (label : List Nat) (fat rootDir : Bytes) (deep : Kind → Verdict)
    (L : Layout) (h : layout16 P size = some L) (hav : size ≤ avail) :
    probe (verdict P (applyWrs stale (createWrs1x true L serial label fat rootDir)) ⟨size, avail, 512, deep⟩) order
      = .found .fat16 := by
  obtain ⟨ok, hlo, hhi, hr⟩ := layout16_ok P hP size L h
  have hpos : 0 < L.count := by
    have hw := hP
    simp only [Params.wf, Bool.and_eq_true, decide_eq_true_eq] at hw
    have := hw.2
    omega
  have hrd := create1x_sector0 stale true L serial label fat rootDir ok.res_pos
  have hP' := hP
  simp only [Params.wf, Bool.and_eq_true, decide_eq_true_eq] at hP'
  have hord' := hord
  simp only [orderCore, Bool.and_eq_true, List.all_eq_true, decide_eq_true_eq, before] at hord'
  apply probe_found _ order .fat16 (orderCore_mem order hord .fat16)
  · simp only [verdict]
    rw [fat1x_on_boot P true true L serial label _ hrd size avail ok hpos hav]
    have h1 : ¬ (L.count < P.f16ReadLt) := by omega
    have h2 : ¬ (L.count ≥ P.f16ReadGe) := by omega
    simp [h1, h2]
  · intro k _ hne hlt
    cases k with
    | fat32 => exact fat32_rejects_boot1x P true L serial label _ hrd size avail 512 _
    | fat16 => exact absurd rfl hne
    | fat12 =>
      simp only [verdict]
      rw [fat1x_on_boot P true false L serial label _ hrd size avail ok hpos hav]
      have : L.count ≥ P.f12ReadGe := by omega
      simp [this]
    | iso9660 =>
      have := (hord'.1.2 .fat16 (by simp)).1
      omega
    | squashfs => simp only [verdict]; exact sqfs_rejects_boot1x true L serial label _ hrd _ _ _
    | ext4 =>
      have := (hord'.1.2 .fat16 (by simp)).2
      omega

/-- FAT32, header level: a volume whose boot sector says "no fixed root directory" (root entry
    count 0, which fat32.Create writes) is refused by fat12.Read and fat16.Read; so if fat32.Read
    accepts it, GetFilesystem says FAT32 — for every order that probes the FAT kinds first and
    squashfs sees no magic. -/
theorem probe_create_fat32_hdr (P : Params) (order : List Kind) (hord : orderCore order = true)
    (rd : Dev) (c : Ctx) (hre : u16 rd 17 = 0) (hacc : verdict P rd c .fat32 = .accept)
    (hsq : verdict P rd c .squashfs = .reject) :
    probe (verdict P rd c) order = .found .fat32 := by
  have hord' := hord
  simp only [orderCore, Bool.and_eq_true, List.all_eq_true, decide_eq_true_eq, before] at hord'
  apply probe_found _ order .fat32 (orderCore_mem order hord .fat32) hacc
  intro k _ hne hlt
  cases k with
  | fat32 => exact absurd rfl hne
  | fat16 => exact fat1x_rejects_rootEnts0 P true rd c.size c.avail c.bs hre
  | fat12 => exact fat1x_rejects_rootEnts0 P false rd c.size c.avail c.bs hre
  | iso9660 => have := (hord'.1.2 .fat32 (by simp)).1; omega
  | squashfs => exact hsq
  | ext4 => have := (hord'.1.2 .fat32 (by simp)).2; omega

/-- iso9660, header level: Finalize blanks the 32 KiB system area; then no other reader accepts,
    in ANY probe order — so if iso9660.Read accepts its own image, GetFilesystem says iso9660 -/
theorem probe_create_iso_hdr (P : Params) (order : List Kind) (hmem : Kind.iso9660 ∈ order)
    (rd : Dev) (c : Ctx) (hz : ∀ j, j < 32768 → rd j = 0) (hacc : verdict P rd c .iso9660 = .accept) :
    probe (verdict P rd c) order = .found .iso9660 := by
  apply probe_found _ order .iso9660 hmem hacc
  intro k _ hne _
  cases k with
  | fat32 => exact fat32_rejects_zero_boot P rd _ _ _ _ (fun j hj => hz j (by omega))
  | fat16 => exact fat1x_rejects_zero_boot P true rd _ _ _ (fun j hj => hz j (by omega))
  | fat12 => exact fat1x_rejects_zero_boot P false rd _ _ _ (fun j hj => hz j (by omega))
  | iso9660 => exact absurd rfl hne
  | squashfs => exact sqfs_rejects_zero_boot rd _ _ _ (fun j hj => hz j (by omega))
  | ext4 => exact ext4_rejects_zero_sb rd _ _ _ _ ⟨hz 1080 (by omega), hz 1081 (by omega)⟩

/-- squashfs, header level: the superblock's block-size field makes every FAT reader refuse; with
    squashfs probed before ext4 (orderCore) AND before iso9660 the image is recognised over any stale
    content. The second condition is what the current probe order lacks (cex_sqfs_over_iso). -/
theorem probe_create_sqfs_hdr (P : Params) (order : List Kind) (hord : orderCore order = true)
    (hsi : before order .squashfs .iso9660 = true)
    (rd : Dev) (c : Ctx) (h12 : rd 12 = 0) (hacc : verdict P rd c .squashfs = .accept) :
    probe (verdict P rd c) order = .found .squashfs := by
  have hord' := hord
  simp only [orderCore, Bool.and_eq_true, List.all_eq_true, decide_eq_true_eq, before] at hord' hsi
  apply probe_found _ order .squashfs (orderCore_mem order hord .squashfs) hacc
  intro k _ hne hlt
  cases k with
  | fat32 => exact fat32_rejects_sqfs_sb P rd _ _ _ _ h12
  | fat16 => exact fat1x_rejects_sqfs_sb P true rd _ _ _ h12
  | fat12 => exact fat1x_rejects_sqfs_sb P false rd _ _ _ h12
  | iso9660 => omega
  | squashfs => exact absurd rfl hne
  | ext4 => have := hord'.2; omega

/-- ext4, header level, REPAIRED behaviour (boot area 0..1023 zeroed by Create): the FAT readers and
    squashfs refuse; iso9660 must either refuse (Create overwrote the descriptor at 32 KiB) or be
    probed later -/
theorem probe_create_ext4_fixed_hdr (P : Params) (order : List Kind) (hmem : Kind.ext4 ∈ order)
    (rd : Dev) (c : Ctx) (hz : ∀ j, j < 1024 → rd j = 0) (hacc : verdict P rd c .ext4 = .accept)
    (hiso : verdict P rd c .iso9660 = .reject ∨ before order .ext4 .iso9660 = true) :
    probe (verdict P rd c) order = .found .ext4 := by
  apply probe_found _ order .ext4 hmem hacc
  intro k _ hne hlt
  cases k with
  | fat32 => exact fat32_rejects_zero_boot P rd _ _ _ _ (fun j hj => hz j (by omega))
  | fat16 => exact fat1x_rejects_zero_boot P true rd _ _ _ (fun j hj => hz j (by omega))
  | fat12 => exact fat1x_rejects_zero_boot P false rd _ _ _ (fun j hj => hz j (by omega))
  | iso9660 =>
    cases hiso with
    | inl h => exact h
    | inr h => simp only [before, decide_eq_true_eq] at h; omega
  | squashfs => exact sqfs_rejects_zero_boot rd _ _ _ (fun j hj => hz j (by omega))
  | ext4 => exact absurd rfl hne

/-! ### blank ranges, tables -/

/-- a blank (all-zero) range has no filesystem: every reader refuses at its header check, in any
    order, whatever the deeper parts would say -/
theorem blank_is_none (P : Params) (order : List Kind) (rd : Dev) (c : Ctx) (hz : ∀ j, rd j = 0) :
    probe (verdict P rd c) order = .none := by
  apply probe_none
  intro k _
  cases k with
  | fat32 => exact fat32_rejects_zero_boot P rd _ _ _ _ (fun j _ => hz j)
  | fat16 => exact fat1x_rejects_zero_boot P true rd _ _ _ (fun j _ => hz j)
  | fat12 => exact fat1x_rejects_zero_boot P false rd _ _ _ (fun j _ => hz j)
  | iso9660 => simp only [verdict]; exact iso_rejects_zero_id rd _ _ _ _ (hz 32769)
  | squashfs => exact sqfs_rejects_zero_boot rd _ _ _ (fun j _ => hz j)
  | ext4 => exact ext4_rejects_zero_sb rd _ _ _ _ ⟨hz 1080, hz 1081⟩

def genTableOrder : List TableKind :=
  Generated.Detect.tableProbeOrder.filterMap fun s => if s == "gpt" then some .gpt else if s == "mbr" then some .mbr else none

/-- a disk on which gpt.Read succeeds is reported as GPT whether or not its (protective) MBR would
    also be readable — in the regenerated probe order of partition.Read -/
theorem gpt_is_gpt (mbrOk : Bool) : tableProbe true mbrOk genTableOrder = some .gpt := by
  cases mbrOk <;> decide

/-- and a disk on which only mbr.Read succeeds is MBR -/
theorem mbr_is_mbr : tableProbe false true genTableOrder = some .mbr := by decide

/-- the same with the legacy-MBR check of partition.Read, on or off: a GPT disk - sector 0 is a protective
    MBR or no MBR at all, so `legacy = false` - is GPT -/
theorem gpt_is_gpt_l (checks mbrOk : Bool) : tableProbeL checks true mbrOk false genTableOrder = some .gpt := by
  cases checks <;> cases mbrOk <;> decide

/-- a disk partitioned as MBR whose previous GPT structures are still readable (stale primary or backup
    header: `gptOk` arbitrary) is MBR once partition.Read makes the check ... -/
theorem mbr_over_stale_gpt_is_mbr (gptOk : Bool) : tableProbeL true gptOk true true genTableOrder = some .mbr := by
  cases gptOk <;> decide

/-- ... and is reported as GPT (with the partitions of its previous life) on the tree as found -/
theorem cex_mbr_over_stale_gpt : tableProbeL false true true true genTableOrder = some .gpt := by decide

/-! ### the two defects of the tree as found -/

/-- ext4 over a stale FAT16 (as found: ext4.Create leaves bytes 0..1023 alone): a device whose
    sector 0 is a FAT16 boot sector and whose ext4 superblock is in place is reported as FAT16 by the
    regenerated probe order, although ext4.Read itself would accept it. -/
theorem cex_ext4_over_fat16 :
    ∃ (rd : Dev) (c : Ctx), verdict genParams rd c .ext4 = .accept ∧
      probe (verdict genParams rd c) [.fat32, .fat16, .fat12, .iso9660, .squashfs, .ext4] = .found .fat16 := by
  let L := mkLayout16 genParams 16777216
  have hL : layout16 genParams 16777216 = some L := by decide
  let rd : Dev := fun i => if i < 512 then bootFat1x true L 0 [] i else if i = 1080 then 0x53 else if i = 1081 then 0xEF else 0
  let c : Ctx := ⟨16777216, 16777216, 512, fun _ => .accept⟩
  have hrd : ∀ i, i < 512 → rd i = bootFat1x true L 0 [] i := by
    intro i hi; simp [rd, hi]
  obtain ⟨ok, hlo, hhi, _⟩ := layout16_ok genParams (by decide) 16777216 L hL
  refine ⟨rd, c, ?_, ?_⟩
  · simp [verdict, verdictExt4, c, readOk, u16, u8, rd]
  · have h32 : verdict genParams rd c .fat32 = .reject := fat32_rejects_boot1x genParams true L 0 [] rd hrd _ _ _ _
    have h16 : verdict genParams rd c .fat16 = .accept := by
      simp only [verdict, c]
      have hpos : 0 < L.count := by
        have : 0 < genParams.f16CreateLt := by decide
        omega
      rw [fat1x_on_boot genParams true true L 0 [] rd hrd 16777216 16777216 ok hpos (Nat.le_refl _)]
      have h1 : ¬ (L.count < genParams.f16ReadLt) := by
        have : genParams.f16ReadLt ≤ genParams.f16CreateLt := by decide
        omega
      have h2 : ¬ (L.count ≥ genParams.f16ReadGe) := by
        have : genParams.f16CreateGe ≤ genParams.f16ReadGe := by decide
        omega
      simp [h1, h2]
    simp [probe, h32, h16]

/-- FAT12 with no data cluster (as found: fat12.Create accepts a size at which reserved sector, FATs
    and root directory fill the volume; CheckGeometry in fat12.Read refuses that boot sector): a
    5120-byte volume is created and then recognised by no reader. -/
theorem cex_fat12_zero_clusters :
    ∃ L : Layout, layout12 { genParams with f12RefuseZero := false } 5120 = some L ∧ L.count = 0 ∧
      ∀ (stale : Dev) (deep : Kind → Verdict),
        verdict genParams (applyWrs stale (createWrs1x false L 0 [] [] [])) ⟨5120, 5120, 512, deep⟩ .fat12 = .reject := by
  refine ⟨mkLayout12 genParams 5120, by decide, by decide, ?_⟩
  intro stale deep
  have hrd := create1x_sector0 stale false (mkLayout12 genParams 5120) 0 [] [] [] (by decide)
  have hL : mkLayout12 genParams 5120 = { total := 10, spc := 1, reserved := 1, rootEnts := 112, spf := 1, media := 0xF0, count := 0 } := by
    decide
  have ok : LayoutOK (mkLayout12 genParams 5120) 5120 := by
    rw [hL]
    refine ⟨by decide, ?_, ?_, ?_, ?_, ?_, ?_, ?_, ?_, ?_, ?_, ?_, ?_⟩ <;> simp [rootDirSectors512, two32]
  have hb := boot_bpb false _ 0 [] _ hrd 5120 ok
  simp only [verdict, verdictFat1x]
  rw [hb, hL]
  simp [readOk, validBps, boot_extsig false _ 0 [] _ hrd, boot_sig false _ 0 [] _ hrd, extSigOk, checkGeometry, metaSectors]

/-- with the repair (Create refuses zero data clusters) the side condition of probe_create_fat12 holds
    for every accepted size -/
theorem layout12_count_pos (P : Params) (hz : P.f12RefuseZero = true) (size : Nat) (L : Layout)
    (h : layout12 P size = some L) : 0 < L.count := by
  unfold layout12 at h
  split at h
  · cases h
  · split at h
    · cases h
    · split at h
      · cases h
      · rename_i h3
        simp only [Option.some.injEq] at h
        subst h
        simp only [hz, Bool.true_and, beq_iff_eq] at h3
        omega

/-- squashfs over a stale iso9660 (as found: iso9660 is probed before squashfs and squashfs.Finalize
    does not reach the descriptor at 32 KiB): reported as iso9660 -/
theorem cex_sqfs_over_iso :
    ∃ (rd : Dev) (c : Ctx), verdict genParams rd c .squashfs = .accept ∧
      probe (verdict genParams rd c) [.fat32, .fat16, .fat12, .iso9660, .squashfs, .ext4] = .found .iso9660 := by
  let rd : Dev := fun i =>
    if i = 0 then 0x68 else if i = 1 then 0x73 else if i = 2 then 0x71 else if i = 3 then 0x73   -- "hsqs"
    else if i = 14 then 0x02                                                                       -- block size 131072
    else if i = 28 then 4                                                                           -- version 4.0
    else if i = 32768 then 1 else if i = 32769 then 0x43 else if i = 32770 then 0x44
    else if i = 32771 then 0x30 else if i = 32772 then 0x30 else if i = 32773 then 0x31 else if i = 32774 then 1
    else 0
  let c : Ctx := ⟨16777216, 16777216, 4096, fun _ => .accept⟩
  refine ⟨rd, c, ?_, ?_⟩
  · simp [verdict, verdictSqfs, c, readOk, u32, u16, u8, rd, isPow2]
  · have h12 : rd 12 = 0 := by simp [rd]
    have h32 : verdict genParams rd c .fat32 = .reject := fat32_rejects_sqfs_sb genParams rd _ _ _ _ h12
    have h16 : verdict genParams rd c .fat16 = .reject := fat1x_rejects_sqfs_sb genParams true rd _ _ _ h12
    have h12' : verdict genParams rd c .fat12 = .reject := fat1x_rejects_sqfs_sb genParams false rd _ _ _ h12
    have hiso : verdict genParams rd c .iso9660 = .accept := by
      simp [verdict, verdictIso, c, readOk, u8, rd, two32]
    simp [probe, h32, h16, h12', hiso]

/-! ### regenerated facts -/

/-- thresholds and tables regenerated from fat12.go / fat16.go satisfy the well-formedness the
    theorems assume (what Create lets through, the matching Read accepts and the others refuse) -/
theorem facts_agree_params_wf : genParams.wf = true := by decide

/-- the regenerated probe order of disk.GetFilesystem satisfies the order constraints -/
theorem facts_agree_order_core : orderCore genOrder = true := by decide

/-- every probed package is one the model knows (none was dropped by the name mapping) -/
theorem facts_agree_order_complete : genOrder.length = Generated.Detect.fsProbeOrder.length := by decide

/-- partition.Read tries GPT, then MBR -/
theorem facts_agree_table_order : genTableOrder = [.gpt, .mbr] := by decide

/-- magic numbers and offsets hard-wired in the model's acceptance tests -/
theorem facts_agree_magic :
    Generated.Detect.sqfsMagic = 0x73717368 ∧ Generated.Detect.sqfsMajor = 4 ∧ Generated.Detect.sqfsMinor = 0 ∧
    Generated.Detect.sqfsMinBlock = 4096 ∧ Generated.Detect.sqfsMaxBlock = 1048576 ∧
    Generated.Detect.ext4Magic = 0xEF53 ∧ Generated.Detect.isoIdentifier = 0x4344303031 ∧
    Generated.Detect.isoSystemArea = 32768 ∧
    Generated.Detect.fatBootSignature = 0x55AA ∧ Generated.Detect.fat32BootSignature = 0x55AA ∧
    Generated.Detect.fsisSigStart = 0x52526141 ∧ Generated.Detect.fsisSigMid = 0x72724161 ∧
    Generated.Detect.fsisSigEnd = 0x000055AA := by decide

/-! ### the headline statements for the tree as it is now -/

/-- FAT12 / FAT16 in /repo's current probe order with /repo's current thresholds and tables -/
theorem probe_create_fat12_repo (stale : Dev) (size avail serial : Nat) (label : List Nat) (fat rootDir : Bytes)
    (deep : Kind → Verdict) (L : Layout) (h : layout12 genParams size = some L) (hpos : 0 < L.count) (hav : size ≤ avail) :
    probe (verdict genParams (applyWrs stale (createWrs1x false L serial label fat rootDir)) ⟨size, avail, 512, deep⟩) genOrder
      = .found .fat12 :=
  probe_create_fat12 genParams facts_agree_params_wf genOrder facts_agree_order_core stale size avail serial label fat rootDir deep L h hpos hav

theorem probe_create_fat16_repo (stale : Dev) (size avail serial : Nat) (label : List Nat) (fat rootDir : Bytes)
    (deep : Kind → Verdict) (L : Layout) (h : layout16 genParams size = some L) (hav : size ≤ avail) :
    probe (verdict genParams (applyWrs stale (createWrs1x true L serial label fat rootDir)) ⟨size, avail, 512, deep⟩) genOrder
      = .found .fat16 :=
  probe_create_fat16 genParams facts_agree_params_wf genOrder facts_agree_order_core stale size avail serial label fat rootDir deep L h hav

/-! ### non-vacuity -/

example : layout12 genParams 1474560 ≠ none := by decide          -- a 1.44 MB floppy
example : layout12 genParams 8386048 = none := by decide          -- 4085 clusters: refused
example : layout16 genParams 16777216 ≠ none := by decide
example : layout16 genParams 4194304 = none := by decide          -- below 4085 clusters: refused
example : before [.fat32, .fat16, .fat12, .iso9660, .squashfs, .ext4] .squashfs .iso9660 = false := by decide -- the order of cex_sqfs_over_iso

/-! ### FAT32, full: Create's write list over arbitrary stale content, fat32.Read whole -/

/-- after fat32.Create both FAT copies hold the same bytes — whatever the range held before, for
    every payload, label and serial -/
theorem create32_fat_copies_equal (stale : Dev) (L : Layout32) (serial : Nat) (label : List Nat)
    (fat rootDir : Bytes) (hb : 0 < L.bps) (j : Nat) (hj : j < L.spf * L.bps) :
    applyWrs stale (createWrs32 L serial label fat rootDir) (32 * L.bps + j) =
    applyWrs stale (createWrs32 L serial label fat rootDir) (32 * L.bps + L.spf * L.bps + j) := by
  rw [create32_fat1 stale L serial label fat rootDir j hj hb, create32_fat2 stale L serial label fat rootDir j hj hb]

/-- fat32.Read (header checks, FSInfo sector, geometry check and the comparison of the two FAT
    copies — nothing observed) accepts what fat32.Create wrote, for every size Create accepts at
    sector size 0/512/4096, every stale content, payload, label and serial -/
theorem fat32_read_accepts_created (P : Params) (hP : P.wf32 = true) (stale : Dev)
    (size avail bs0 serial : Nat) (label : List Nat) (fat rootDir : Bytes)
    (L : Layout32) (h : layout32 P size bs0 = some L) (hav : size ≤ avail) :
    verdictFat32Full P (applyWrs stale (createWrs32 L serial label fat rootDir)) size avail bs0 = .accept := by
  obtain ⟨ok, hmax, hbs, _⟩ := layout32_ok P hP size bs0 L h
  have hbpos : 0 < L.bps := by rcases ok.bps_ok with h | h <;> omega
  have h512 : 512 ≤ L.bps := by rcases ok.bps_ok with h | h <;> omega
  exact fat32_on_created P L serial label _ size avail bs0 ok hmax hav hbs
    (fun i hi => create32_sector0 stale L serial label fat rootDir i (by omega) hbpos)
    (fun i hi => create32_fsis stale L serial label fat rootDir i (by omega) hbpos)
    (fatPayload L fat)
    (fun j hj => create32_fat1 stale L serial label fat rootDir j hj hbpos)
    (fun j hj => create32_fat2 stale L serial label fat rootDir j hj hbpos)

/-- probe_create_fat32: after fat32.Create over ARBITRARY previous content, for every size Create
    accepts, every label, serial and payload, GetFilesystem's probe chain returns FAT32 — for every
    admissible probe order, with FAT32's own acceptance computed from the device (the deeper parts of
    the OTHER readers may say anything: fat12/fat16 refuse the zero root-entry count, squashfs sees
    no magic, iso9660 and ext4 are probed later) -/
theorem probe_create_fat32 (P : Params) (hP : P.wf32 = true) (order : List Kind) (hord : orderCore order = true)
    (stale : Dev) (size avail bs0 serial : Nat) (label : List Nat) (fat rootDir : Bytes) (deep : Kind → Verdict)
    (L : Layout32) (h : layout32 P size bs0 = some L) (hav : size ≤ avail) :
    probe (verdict P (applyWrs stale (createWrs32 L serial label fat rootDir))
      (fullCtx (applyWrs stale (createWrs32 L serial label fat rootDir)) size avail bs0 deep)) order = .found .fat32 := by
  obtain ⟨ok, hmax, hbs, _⟩ := layout32_ok P hP size bs0 L h
  have hbpos : 0 < L.bps := by rcases ok.bps_ok with h | h <;> omega
  have h512 : 512 ≤ L.bps := by rcases ok.bps_ok with h | h <;> omega
  have hrd : ∀ i, i < 512 → applyWrs stale (createWrs32 L serial label fat rootDir) i = bootFat32 L serial label i :=
    fun i hi => create32_sector0 stale L serial label fat rootDir i (by omega) hbpos
  apply probe_create_fat32_hdr P order hord _ _ (boot32_rootEnts L serial label _ hrd)
  · have := fat32_read_accepts_created P hP stale size avail bs0 serial label fat rootDir L h hav
    simpa [verdict, fullCtx, verdictFat32Full] using this
  · simp only [verdict, fullCtx]
    exact sqfs_rejects_boot32 L serial label _ hrd _ _ _

/-! ### ext4: the boot area is cleared first -/

/-- ext4.Create (repaired, fix cf6210f) starts by writing 1024 zero bytes at offset 0 of the volume and
    never writes below offset 1024 again (`rest`: everything it writes afterwards).  Then, over
    ARBITRARY stale content — a stale FAT12/FAT16/FAT32 boot sector, a squashfs superblock — no FAT
    reader and not squashfs accepts the volume; so if ext4.Read accepts its own image, GetFilesystem says
    ext4, in every order that probes ext4 before iso9660 (or when iso9660 refuses). -/
theorem probe_create_ext4_clears (P : Params) (order : List Kind) (hmem : Kind.ext4 ∈ order)
    (stale : Dev) (rest : List Wr) (hrest : ∀ w ∈ rest, 1024 ≤ w.off) (c : Ctx)
    (hacc : verdict P (applyWrs stale (⟨0, zeros 1024⟩ :: rest)) c .ext4 = .accept)
    (hiso : verdict P (applyWrs stale (⟨0, zeros 1024⟩ :: rest)) c .iso9660 = .reject ∨ before order .ext4 .iso9660 = true) :
    probe (verdict P (applyWrs stale (⟨0, zeros 1024⟩ :: rest)) c) order = .found .ext4 := by
  apply probe_create_ext4_fixed_hdr P order hmem _ c _ hacc hiso
  intro j hj
  have hz : zeros 1024 = sectorBytes (fun _ => (0 : UInt8)) 1024 := by
    simp [zeros, sectorBytes, List.map_const']
  have := applyWrs_prefix_then_far stale [] rest (fun _ => (0 : UInt8)) 1024 j hj hrest
  rw [hz]
  simpa using this

/-- in /repo's current probe order ext4 is probed before iso9660, so the side condition is met -/
theorem probe_create_ext4_clears_repo (stale : Dev) (rest : List Wr) (hrest : ∀ w ∈ rest, 1024 ≤ w.off) (c : Ctx)
    (hacc : verdict genParams (applyWrs stale (⟨0, zeros 1024⟩ :: rest)) c .ext4 = .accept) :
    probe (verdict genParams (applyWrs stale (⟨0, zeros 1024⟩ :: rest)) c) genOrder = .found .ext4 :=
  probe_create_ext4_clears genParams genOrder (by decide) stale rest hrest c hacc (Or.inr (by decide))

/-- the regenerated FAT32 cluster-size table yields only sectors-per-cluster values the readers accept -/
theorem facts_agree_params_wf32 : genParams.wf32 = true := by decide

/-- ext4.Create still clears the boot area (the shape `probe_create_ext4_clears` assumes) -/
theorem facts_agree_ext4_clears : Generated.Detect.ext4CreateClearsBootArea = true := by decide

/-- FAT32 in /repo's current probe order with /repo's current table -/
theorem probe_create_fat32_repo (stale : Dev) (size avail bs0 serial : Nat) (label : List Nat) (fat rootDir : Bytes)
    (deep : Kind → Verdict) (L : Layout32) (h : layout32 genParams size bs0 = some L) (hav : size ≤ avail) :
    probe (verdict genParams (applyWrs stale (createWrs32 L serial label fat rootDir))
      (fullCtx (applyWrs stale (createWrs32 L serial label fat rootDir)) size avail bs0 deep)) genOrder = .found .fat32 :=
  probe_create_fat32 genParams facts_agree_params_wf32 genOrder facts_agree_order_core stale size avail bs0 serial label fat rootDir deep L h hav

example : layout32 genParams 67108864 512 ≠ none := by decide       -- 64 MiB, 512-byte sectors
example : layout32 genParams 67108864 4096 ≠ none := by decide      -- 4096-byte sectors
example : layout32 genParams 40960 512 = none := by decide          -- less than 32 KiB of data area: refused

/-! ### squashfs and ext4: the readers' tests behind the magic numbers are inside the model

  `midCtx` (Model/DetectMid.lean): parseSuperblock's block-log test and newCompressor's id test for squashfs;
  superblockFromBytes, the feature gate, the validity checks on the decoded superblock and the read of the
  group descriptor table for ext4; the volume-descriptor loop for iso9660.  `deep2 k` is what is left of
  reader k behind that (observed from the real code in the correspondence, a hypothesis here). -/

/-- squashfs.Finalize writes the superblock LAST, at offset 0 (Model/Sqfs/Regions.lean `finalize`, the mirror
    Props/C07 is about): every write list of that shape ends with 96 bytes at offset 0 -/
theorem sqfs_finalize_sb_last (p : Sqfs.Pieces) (ws : List Wr) (h : shape ws = (Sqfs.finalize p).writes) :
    ∃ pre data, ws = pre ++ [⟨0, data⟩] ∧ data.length = 96 := by
  have hf : ∃ a, (Sqfs.finalize p).writes = a ++ [(0, 96)] := ⟨_, rfl⟩
  obtain ⟨a, ha⟩ := hf
  rw [ha] at h
  unfold shape at h
  obtain ⟨l1, l2, rfl, _, h2⟩ := List.map_eq_append_iff.1 h
  cases l2 with
  | nil => simp at h2
  | cons w r =>
    cases r with
    | cons _ _ => simp at h2
    | nil =>
      simp only [List.map_cons, List.map_nil, List.cons.injEq, Prod.mk.injEq, and_true] at h2
      obtain ⟨o, d⟩ := w
      simp only at h2
      obtain ⟨rfl, hd⟩ := h2
      exact ⟨l1, d, rfl, hd⟩

/-- probe_create_sqfs: whatever the volume held before and whatever Finalize wrote first (`pre`), once its
    last write has put the superblock `Sqfs.encodeSB s` at offset 0 - any superblock with a block size
    squashfs.Create accepts and a compression id the library knows - the three FAT readers refuse the volume
    (byte 12, where they look for the high byte of the sector size, is the low byte of the block size: zero),
    squashfs.Read's header tests, block-log test and compressor test pass, and the probe chain answers
    squashfs provided the rest of squashfs.Read (tables, root inode: `deep2`) accepts - for every order with
    squashfs before ext4 and iso9660 -/
theorem probe_create_sqfs (P : Params) (order : List Kind) (hord : orderCore order = true)
    (hsi : before order .squashfs .iso9660 = true) (cfg : Ext4.Reader.Cfg)
    (stale : Dev) (pre : List Wr) (s : Sqfs.Superblock) (hwf : s.WF) (hblk : sqfsBlockOk s.blocksize = true)
    (hcomp : s.compression ≤ 6) (size avail bs0 : Nat) (csumOk : Bool) (hav : 96 ≤ avail)
    (hbs : (if bs0 == 0 then 131072 else bs0) ≥ 4096 ∧ (if bs0 == 0 then 131072 else bs0) ≤ 1048576 ∧
           isPow2 (if bs0 == 0 then 131072 else bs0) = true)
    (deep2 : Kind → Verdict) (hdeep : deep2 .squashfs = .accept) :
    probe (verdict P (applyWrs stale (pre ++ [⟨0, Sqfs.encodeSB s⟩]))
      (midCtx cfg (applyWrs stale (pre ++ [⟨0, Sqfs.encodeSB s⟩])) size avail bs0 csumOk deep2)) order = .found .squashfs := by
  obtain ⟨h12, hv⟩ := sqfs_image_facts stale pre s hwf (sqfsBlockOk_mod _ hblk) hcomp avail bs0 hav hbs (deep2 .squashfs)
  apply probe_create_sqfs_hdr P order hord hsi _ _ h12
  simp only [verdict, midCtx]
  rw [hv]
  exact hdeep

/-- … in /repo's current probe order (squashfs before ext4 and iso9660 since fix d5f1fcf) -/
theorem probe_create_sqfs_repo (cfg : Ext4.Reader.Cfg)
    (stale : Dev) (pre : List Wr) (s : Sqfs.Superblock) (hwf : s.WF) (hblk : sqfsBlockOk s.blocksize = true)
    (hcomp : s.compression ≤ 6) (size avail bs0 : Nat) (csumOk : Bool) (hav : 96 ≤ avail)
    (hbs : (if bs0 == 0 then 131072 else bs0) ≥ 4096 ∧ (if bs0 == 0 then 131072 else bs0) ≤ 1048576 ∧
           isPow2 (if bs0 == 0 then 131072 else bs0) = true)
    (deep2 : Kind → Verdict) (hdeep : deep2 .squashfs = .accept) :
    probe (verdict genParams (applyWrs stale (pre ++ [⟨0, Sqfs.encodeSB s⟩]))
      (midCtx cfg (applyWrs stale (pre ++ [⟨0, Sqfs.encodeSB s⟩])) size avail bs0 csumOk deep2)) genOrder = .found .squashfs :=
  probe_create_sqfs genParams genOrder facts_agree_order_core (by decide) cfg stale pre s hwf hblk hcomp size avail bs0 csumOk hav hbs deep2 hdeep

example : sqfsBlockOk 4096 = true ∧ sqfsBlockOk 131072 = true ∧ sqfsBlockOk 1048576 = true ∧ sqfsBlockOk 6000 = false := by decide
example : (⟨3, 0, 131072, 1, 1, 0xC0, 1, 0, 4096, 4000, 2 ^ 64 - 1, 200, 300, 400, 500⟩ : Sqfs.Superblock).WF := by
  simp [Sqfs.Superblock.WF]

/-- ext4.Read's validity checks on the decoded superblock (fix 1d32ac0; Model/Ext4/SpecGeom.lean `readAccepts`,
    pinned to the source by the regenerated `readChecks`) accept the geometry ext4.Create computes for EVERY
    parameter set its own checks let through (Model/Ext4/Mkfs.lean `mkLayout`) with at least one inode per
    group and three blocks, and the group descriptor table ext4.Read then reads lies inside the volume -/
theorem ext4_read_accepts_mkfs (p : Ext4.Mkfs.Params) (l : Ext4.Mkfs.Layout) (h : Ext4.Mkfs.mkLayout p = .ok l)
    (hipg : 0 < l.ipg) (hnb : 3 ≤ l.numBlocks) (compat inc ro : Nat)
    (hinc : ext4MkIncompatOk inc (l.descSize == 64) = true) :
    Ext4.Spec.readAccepts (ext4MkGeo (mkOf l) compat inc ro) p.size = true ∧
    (ext4MkGeo (mkOf l) compat inc ro).gdtStartGo +
      (ext4MkGeo (mkOf l) compat inc ro).gdSize * (ext4MkGeo (mkOf l) compat inc ro).groupsGo ≤ p.size :=
  ext4_mk_read_accepts (mkOf l) p.size compat inc ro (mkLayout_mk_ok p l h hipg hnb) hinc

/-- probe_create_ext4: ext4.Create clears bytes 0..1023 and writes nothing below 1024 afterwards (`rest`); if
    the superblock it left at 1024 decodes to the geometry Create computed (`hgeo`, `hdec`: compared on every
    ext4 Create of the run) with extents on and inline_data off, then over ARBITRARY previous content the FAT
    readers and squashfs refuse, ext4.Read's header tests, superblock decoding, feature gate, validity checks
    and descriptor-table read all pass, and the probe chain answers ext4 provided the descriptor checksums
    (`deep2`) verify - in /repo's probe order -/
theorem probe_create_ext4 (stale : Dev) (rest : List Wr) (hrest : ∀ w ∈ rest, 1024 ≤ w.off)
    (cfg : Ext4.Reader.Cfg) (p : Ext4.Mkfs.Params) (l : Ext4.Mkfs.Layout) (h : Ext4.Mkfs.mkLayout p = .ok l)
    (hipg : 0 < l.ipg) (hnb : 3 ≤ l.numBlocks) (compat inc ro : Nat)
    (hinc : ext4MkIncompatOk inc (l.descSize == 64) = true)
    (info : Ext4.Reader.SbInfo) (avail bs : Nat) (csumOk : Bool) (deep2 : Kind → Verdict)
    (hgeo : Ext4.Spec.sbGeo (readAt (applyWrs stale (⟨0, zeros 1024⟩ :: rest)) 1024 1024) = some (ext4MkGeo (mkOf l) compat inc ro))
    (hdec : Ext4.Reader.sbDecode csumOk (readAt (applyWrs stale (⟨0, zeros 1024⟩ :: rest)) 1024 1024) = some info)
    (hii : info.incompat = inc)
    (hsz : 2560 ≤ p.size) (hav : p.size ≤ avail) (hbs : bs = 0 ∨ bs = 512) (hdeep : deep2 .ext4 = .accept) :
    probe (verdict genParams (applyWrs stale (⟨0, zeros 1024⟩ :: rest))
      (midCtx cfg (applyWrs stale (⟨0, zeros 1024⟩ :: rest)) p.size avail bs csumOk deep2)) genOrder = .found .ext4 := by
  obtain ⟨hacc, hfit⟩ := ext4_read_accepts_mkfs p l h hipg hnb compat inc ro hinc
  apply probe_create_ext4_clears_repo stale rest hrest
  generalize applyWrs stale (⟨0, zeros 1024⟩ :: rest) = img at hgeo hdec ⊢
  have hgate : Ext4.Reader.gateAccepts cfg info.incompat = true := by
    rw [hii]
    simp only [ext4MkIncompatOk, Bool.and_eq_true, Bool.not_eq_true', beq_iff_eq] at hinc
    simp [Ext4.Reader.gateAccepts, Ext4.Reader.incompatExtents, Ext4.Reader.incompatInlineData, hinc.1.1, hinc.1.2]
  have hmid := ext4Mid_accepts cfg img p.size avail csumOk (deep2 .ext4) info _ hdec hgate hgeo hacc (by omega)
  have hmagic := ext4_magic_of_geo img _ hgeo
  have r1 : readOk avail 0 1024 = true := by simp [readOk]; omega
  have r2 : readOk avail 1024 1024 = true := by simp [readOk]; omega
  have hsz' : ¬ p.size < 2560 := by omega
  simp only [verdict, midCtx, verdictExt4]
  rw [hmid, hdeep]
  rcases hbs with rfl | rfl <;> simp [r1, r2, hmagic, hsz']

example : Ext4.Mkfs.mkLayout ⟨16777216, 0, 0, 0, 0, 0, true, true, true⟩ =
    .ok { bs := 1024, numBlocks := 16384, bpg := 8192, groups := 2, ipg := 1024, inodeCount := 2048, fdb := 1, rsvGdt := 256,
          descSize := 64, gdtBlocks := 1, itb := 256, flexSize := 8, resize := true } := rfl
example : ext4MkIncompatOk 0x2c2 true = true := by decide

/-! ### iso9660: Finalize's write list over arbitrary prior content -/

/-- probe_create_iso: the device iso9660 Finalize leaves behind (Model/Iso/Writes.lean `imageOn`: system area,
    directory extents, path tables, file chunks, primary descriptor, terminator - the WriteAt calls as the Go
    code issues them, locations as Finalize assigns them: `Placed`) over ARBITRARY prior content `d0`, at block
    size 2048: the 32 KiB system area reads zero, so the three FAT readers, squashfs and ext4 (magic at byte
    1080) refuse WHATEVER their deeper parts would say; iso9660.Read's size and identifier tests pass and its
    descriptor loop finds the primary descriptor and the terminator; the probe chain answers iso9660 in ANY
    probe order, provided the rest of iso9660.Read (descriptor contents, path table, SUSP: `deep2`) accepts -/
theorem probe_create_iso (P : Params) (order : List Kind) (hmem : Kind.iso9660 ∈ order) (cfg : Ext4.Reader.Cfg)
    (i : Iso.ImageIn) (d0 : Dev) (hbs : i.bs = 2048) (hp : i.pvd.WF) (hpl : i.Placed)
    (size avail bs : Nat) (csumOk : Bool) (hsz : size = 0 ∨ (38912 ≤ size ∧ size ≤ two32 * 2048)) (hav : 36864 ≤ avail)
    (deep2 : Kind → Verdict) (hdeep : deep2 .iso9660 = .accept) :
    probe (verdict P (i.imageOn d0) (midCtx cfg (i.imageOn d0) size avail bs csumOk deep2)) order = .found .iso9660 := by
  obtain ⟨hz, r2, r3⟩ := iso_image_regions i d0 hbs hp hpl
  apply probe_create_iso_hdr P order hmem _ _ hz
  simp only [verdict, midCtx]
  rw [iso_read_on_regions _ i.pvd size avail (deep2 .iso9660) r2 r3 hsz hav]
  exact hdeep

/-- non-vacuity: a (minimal) image description that is `Placed` with a well-formed descriptor -/
def isoWitness : Iso.ImageIn :=
  { t := ⟨0, fun _ => ⟨[], false, 0, 0, [], []⟩, fun _ => [], fun _ => 0⟩, bs := 2048, dirs := [], files := [],
    pvd := { sysId := zeros 32, volId := zeros 32, volSize := 19, setSize := 1, seqNo := 1, blocksize := 2048, ptSize := 0,
             ptL := 18, ptLopt := 0, ptM := 18, ptMopt := 0, root := ⟨18, 0, zeros 7, 2, [0]⟩, tail := zeros 1858 },
    ptLBytes := [], ptMBytes := [] }
example : isoWitness.Placed := by unfold Iso.ImageIn.Placed; decide
example : isoWitness.pvd.WF := by simp [isoWitness, Iso.PVD.WF]

/-! ### the stale-bytes clause, pair by pair

  Every theorem `probe_create_<new>` above quantifies over ARBITRARY previous content, so it covers every
  ordered pair (old type, new type) at once: no old signature can mislead an EARLIER probe, because the bytes
  the earlier probes test are rewritten by the new Create - sector 0 by the three FAT Creates (all earlier
  probes are FAT readers), bytes 0..95 by squashfs (byte 12 zero), bytes 0..1023 by ext4, bytes 0..32767 by
  iso9660.  What DOES survive lies at offsets only LATER probes test: a stale ext4 magic at 1080 under FAT16 and
  FAT32 (below), a stale iso9660 descriptor at 32768 under every other type whose image does not reach it
  (cex_sqfs_over_iso is that pair in the probe order as found).  For those pairs the probe order is what keeps
  the answer right, and the constraints of `orderCore` are necessary, not only sufficient: -/

/-- (old ext4, new FAT16): for every size fat16.Create accepts and every label, serial and payload, a stale
    ext4 magic number at byte 1080 is still there afterwards (reserved sectors 1-3 are never written) and
    ext4.Read's header tests pass on the new FAT16 volume -/
theorem ext4_signature_survives_fat16 (P : Params) (hP : P.wf = true) (stale : Dev) (hm : u16 stale 1080 = 0xEF53)
    (size avail serial : Nat) (label : List Nat) (fat rootDir : Bytes) (L : Layout) (h : layout16 P size = some L)
    (hsz : 2560 ≤ size) (hav : size ≤ avail) (deep : Verdict) :
    verdictExt4 (applyWrs stale (createWrs1x true L serial label fat rootDir)) size avail 512 deep = deep := by
  obtain ⟨_, _, _, hres⟩ := layout16_ok P hP size L h
  apply ext4_hdr_of_magic _ size avail 512 deep _ hsz hav (Or.inr rfl)
  rw [u16_congr _ stale 1080 (create16_frame stale L hres serial label fat rootDir 1080 (by omega) (by omega))
    (create16_frame stale L hres serial label fat rootDir 1081 (by omega) (by omega))]
  exact hm

/-- (old ext4, new FAT32 at 512-byte sectors) likewise: reserved sectors 2-5 are never written -/
theorem ext4_signature_survives_fat32 (stale : Dev) (hm : u16 stale 1080 = 0xEF53)
    (size avail serial : Nat) (label : List Nat) (fat rootDir : Bytes) (L : Layout32) (hb : L.bps = 512)
    (hsz : 2560 ≤ size) (hav : size ≤ avail) (deep : Verdict) :
    verdictExt4 (applyWrs stale (createWrs32 L serial label fat rootDir)) size avail 512 deep = deep := by
  apply ext4_hdr_of_magic _ size avail 512 deep _ hsz hav (Or.inr rfl)
  rw [u16_congr _ stale 1080 (create32_frame stale L hb serial label fat rootDir 1080 (by omega) (by omega))
    (create32_frame stale L hb serial label fat rootDir 1081 (by omega) (by omega))]
  exact hm

/-- so "FAT16 before ext4" is NECESSARY: in any probe order that tries ext4 first, a FAT16 volume made over a
    former ext4 volume whose remains ext4.Read still accepts is reported as ext4 - although in every order that
    satisfies `orderCore` the same volume is FAT16 (probe_create_fat16) -/
theorem cex_order_ext4_before_fat16 (P : Params) (hP : P.wf = true) (stale : Dev) (hm : u16 stale 1080 = 0xEF53)
    (size avail serial : Nat) (label : List Nat) (fat rootDir : Bytes) (L : Layout) (h : layout16 P size = some L)
    (hsz : 2560 ≤ size) (hav : size ≤ avail) (deep : Kind → Verdict) (hd : deep .ext4 = .accept) (rest : List Kind) :
    probe (verdict P (applyWrs stale (createWrs1x true L serial label fat rootDir)) ⟨size, avail, 512, deep⟩) (.ext4 :: rest)
      = .found .ext4 := by
  have := ext4_signature_survives_fat16 P hP stale hm size avail serial label fat rootDir L h hsz hav (deep .ext4)
  rw [hd] at this
  simp [probe, verdict, this, hd]

example : ∃ stale : Dev, u16 stale 1080 = 0xEF53 :=
  ⟨fun i => if i = 1080 then 0x53 else if i = 1081 then 0xEF else 0, by simp [u16, u8]⟩

/-! ### partition tables over the real acceptance conditions of gpt.Read and mbr.Read

  `tableRead checks` (Model/DetectTable.lean) is partition.Read with Model/Gpt.lean's `read` (primary header and
  array CRCs, backup fallback) and Model/Mbr.lean's `read`; `checks` is the regenerated switch
  `tableReadChecksLegacyMBR` (false on the tree as it is: finding mbr-over-stale-gpt-reported-as-gpt, whose
  proposed repair turns it on). -/

/-- the boolean statements above (gpt_is_gpt_l, mbr_over_stale_gpt_is_mbr, cex_mbr_over_stale_gpt) are about the
    real readers: the type partition.Read reports is `tableProbeL` of gpt.Read's and mbr.Read's verdicts and of
    the legacy-MBR predicate on the real sector 0 -/
theorem table_read_is_probe (checks : Bool) (c : Gpt.Cfg) (crc : Bytes → Nat) (d : Dev) (devSize lss : Nat)
    (hnp : (Gpt.read c crc d devSize lss).1.isPanic = false) :
    (tableRead checks c crc d devSize lss).kind =
      tableProbeL checks (Gpt.read c crc d devSize lss).1.isOk (Mbr.read d devSize).1.isSome (legacyMBR d) genTableOrder := by
  rw [facts_agree_table_order]
  exact tableRead_kind checks c crc d devSize lss hnp

/-- AS THE TREE IS (no legacy check): a disk on which gpt.Table.Write completed - a fresh table of well-formed
    entries - reads as GPT through partition.Read, with the partitions Write was left with, WHATEVER the disk
    held before: any MBR in sector 0 (legacy or protective, Write asked to put a protective one or not), any
    stale table.  `crc` is any function below 2^32. -/
theorem gpt_written_is_gpt (c : Gpt.Cfg) (crc : Bytes → Nat) (hcrc : ∀ b, crc b < Gpt.two32) (d : Dev)
    (t0 : Gpt.Table) (size : Nat) (ws : List Wr) (t : Gpt.Table)
    (hf : Gpt.Fresh t0) (hlss : t0.lss = 512 ∨ t0.lss = 4096) (hg : t0.guid.length = 16)
    (hwf : ∀ p ∈ t0.parts, Gpt.allZero p.typ = true ∨ (Gpt.EntryWF p ∧ p.size < Gpt.two64))
    (hmin : 2 * t0.lss + 16384 ≤ size) (hsz : size < Gpt.two63)
    (hw : Gpt.write c crc t0 size = .ok (ws, t)) :
    ∃ t', tableRead false c crc (applyWrs d ws) size t0.lss = .gpt t' ∧ t'.parts = Gpt.normParts t.parts 128 := by
  obtain ⟨t', hr, hp, _⟩ := Gpt.read_write_fresh c crc hcrc d t0 size ws t hf hlss hg hwf hmin hsz hw
  exact ⟨t', by simp [tableRead, hr], hp⟩

/-- WITH the legacy check (the proposed repair of mbr-over-stale-gpt-reported-as-gpt), the exact condition:
    the disk gpt.Table.Write completed on reads as GPT  ⇔  NOT (Write was told ProtectiveMBR:false AND sector 0
    already held a legacy MBR - signature, a used entry, none protective - that mbr.Read accepts).  With a
    protective MBR the type byte of slot 0 is 0xEE afterwards; without one Write leaves bytes 0..511 alone, so a
    legacy MBR that was there is still there and takes precedence: that is why the repair is not applied - a GPT
    written with ProtectiveMBR:false over a former MBR disk would come back as MBR. -/
theorem gpt_written_reads_gpt_iff (c : Gpt.Cfg) (crc : Bytes → Nat) (hcrc : ∀ b, crc b < Gpt.two32) (d : Dev)
    (t0 : Gpt.Table) (size : Nat) (ws : List Wr) (t : Gpt.Table)
    (hf : Gpt.Fresh t0) (hlss : t0.lss = 512 ∨ t0.lss = 4096) (hg : t0.guid.length = 16)
    (hwf : ∀ p ∈ t0.parts, Gpt.allZero p.typ = true ∨ (Gpt.EntryWF p ∧ p.size < Gpt.two64))
    (hmin : (2 * (16384 / t0.lss) + 3) * t0.lss ≤ size) (hsz : size < Gpt.two63)
    (hw : Gpt.write c crc t0 size = .ok (ws, t)) :
    (tableRead true c crc (applyWrs d ws) size t0.lss).kind = some .gpt ↔
      ¬ (t0.pmbr = false ∧ legacyMBR d = true ∧ (Mbr.read d size).1.isSome = true) := by
  have hmin' : 2 * t0.lss + 16384 ≤ size := by rcases hlss with h | h <;> rw [h] at hmin ⊢ <;> omega
  obtain ⟨t', hr, _⟩ := Gpt.read_write_fresh c crc hcrc d t0 size ws t hf hlss hg hwf hmin' hsz hw
  cases hpm : t0.pmbr with
  | true =>
    have hleg : legacyMBR (applyWrs d ws) = false :=
      legacyMBR_protective _ (gpt_write_pmbr_type c crc d t0 size ws t hf hlss hg hsz hmin hpm hw)
    simp [tableRead, hr, hleg, TableRes.kind]
  | false =>
    have hfr := gpt_write_nopmbr_frame c crc d t0 size ws t hf hlss hsz hmin hpm hw
    have hleg : legacyMBR (applyWrs d ws) = legacyMBR d := legacyMBR_congr _ _ hfr
    have hmbr : Mbr.read (applyWrs d ws) size = Mbr.read d size := mbrRead_congr _ _ size hfr
    simp only [tableRead, hr, hleg, hmbr, Bool.true_and]
    cases hl : legacyMBR d <;> cases hm : (Mbr.read d size).1 <;> simp [TableRes.kind]

/-- the recorded finding mbr-over-stale-gpt-reported-as-gpt over the REAL readers, as the tree is: gpt.Table.Write
    (fresh, well-formed table), then mbr.Table.Write of ANY table `mps` - which rewrites bytes 446..511 and nothing
    else - over ANY prior content: partition.Read still answers GPT, with the partitions of the disk's previous
    life (the primary header at LBA 1 and the entry array at LBA 2 are untouched and gpt.Read asks nothing of
    sector 0) -/
theorem cex_mbr_over_written_gpt (c : Gpt.Cfg) (crc : Bytes → Nat) (hcrc : ∀ b, crc b < Gpt.two32) (d : Dev)
    (t0 : Gpt.Table) (size : Nat) (ws : List Wr) (t : Gpt.Table) (mps : List Mbr.Part)
    (hf : Gpt.Fresh t0) (hlss : t0.lss = 512 ∨ t0.lss = 4096) (hg : t0.guid.length = 16)
    (hwf : ∀ p ∈ t0.parts, Gpt.allZero p.typ = true ∨ (Gpt.EntryWF p ∧ p.size < Gpt.two64))
    (hmin : 2 * t0.lss + 16384 ≤ size) (hsz : size < Gpt.two63)
    (hw : Gpt.write c crc t0 size = .ok (ws, t)) :
    ∃ t', tableRead false c crc (applyWrs d (ws ++ Mbr.write mps)) size t0.lss = .gpt t' ∧
      t'.parts = Gpt.normParts t.parts 128 := by
  obtain ⟨t', hr, hp⟩ := gpt_read_after_mbr_write c crc hcrc d t0 size ws t mps hf hlss hg hwf hmin hsz hw
  exact ⟨t', by simp [tableRead, hr], hp⟩

/-- … and with the legacy check on (the proposed repair) the same disk is MBR whenever the table mbr.Write wrote
    makes sector 0 a legacy MBR (a used entry, none of type 0xEE) -/
theorem mbr_over_written_gpt_checked (c : Gpt.Cfg) (crc : Bytes → Nat) (hcrc : ∀ b, crc b < Gpt.two32) (d : Dev)
    (t0 : Gpt.Table) (size : Nat) (ws : List Wr) (t : Gpt.Table) (mps : List Mbr.Part)
    (hf : Gpt.Fresh t0) (hlss : t0.lss = 512 ∨ t0.lss = 4096) (hg : t0.guid.length = 16)
    (hwf : ∀ p ∈ t0.parts, Gpt.allZero p.typ = true ∨ (Gpt.EntryWF p ∧ p.size < Gpt.two64))
    (hmin : 2 * t0.lss + 16384 ≤ size) (hsz : size < Gpt.two63)
    (hw : Gpt.write c crc t0 size = .ok (ws, t)) (hmwf : ∀ p ∈ mps, Mbr.PartWF p)
    (hleg : legacyMBR (applyWrs d (ws ++ Mbr.write mps)) = true) :
    (tableRead true c crc (applyWrs d (ws ++ Mbr.write mps)) size t0.lss).kind = some .mbr := by
  obtain ⟨t', hr, _⟩ := gpt_read_after_mbr_write c crc hcrc d t0 size ws t mps hf hlss hg hwf hmin hsz hw
  have hdev : applyWrs d (ws ++ Mbr.write mps) = applyWrs (applyWrs d ws) (Mbr.write mps) := by
    simp [applyWrs, List.foldl_append]
  have hm := Mbr.read_write (applyWrs d ws) mps size (by rcases hlss with h | h <;> omega) hmwf
  rw [← hdev] at hm
  simp [tableRead, hr, hleg, hm, TableRes.kind]

/-- non-vacuity of the refused side: a legacy MBR (one Linux partition in slot 0) that mbr.Read accepts -/
def legacyWitness : Dev := fun i => if i = 510 then 0x55 else if i = 511 then 0xAA else if i = 450 then 0x83 else 0
example : legacyMBR legacyWitness = true := by decide
set_option maxRecDepth 8000 in
example : ((Mbr.read legacyWitness 1048576).1).isSome = true := by decide

end Diskfs.Detect.C12
