/-
  C02 — Partition tables read back as written and are valid on disk.
  Property theorems only; helper lemmas live in Proofs/GptCodec.lean, Proofs/GptTable.lean,
  Proofs/MbrCodec.lean.  CRC32 is a parameter `crc` everywhere.
  Quantifiers: every entry (any 64-bit start / end / attributes, any 16-byte GUIDs, any name of
  valid non-NUL runes that fits 36 UTF-16 units, BMP or not), every header field value in range,
  every sector size ≥ 92, every trailing sector content.
-/
import DiskfsModel.Proofs.GptWhole
import DiskfsModel.Proofs.GptValid
import DiskfsModel.Proofs.GptIdem
import DiskfsModel.Proofs.GptGeomWhole
import DiskfsModel.Proofs.MbrTable
import DiskfsModel.Proofs.MbrRead
import DiskfsModel.Generated.GptCodec
namespace Diskfs.Gpt.C02

/-- the mixed-endian GUID transformation (common.go bytesToUUIDBytes) is an involution on 16 bytes:
    what `toBytes` swaps, `partitionFromBytes` swaps back -/
theorem guidSwap_involutive (b : Bytes) (h : b.length = 16) : guidSwap (guidSwap b) = b :=
  guidSwap_invol b h

/-- UTF-16: decode ∘ encode = id on every sequence of valid runes (surrogate pairs included) -/
theorem utf16_roundtrip (rs : List Nat) (h : ∀ r ∈ rs, validRune r = true) : utf16Dec (utf16Enc rs) = rs :=
  Gpt.utf16_roundtrip rs h

/-- entry round trip: the 128 bytes `toBytes` writes for a well-formed used entry decode, in whatever
    slot `i` they are put, to the same start / end / type / GUID / attributes / name, with index `i`
    and the size a reader derives from start and end.  Holds as found and repaired (`c` arbitrary). -/
theorem entry_roundtrip (c : Cfg) (p : Part) (i lss : Nat) (h : EntryWF p) :
    ∃ b, entryEnc c p = .ok b ∧ b.length = 128 ∧
      entryDec i b lss = some { p with index := i, size := sizeOf p.start p.end_ lss } :=
  entryDec_entryEnc c p i lss h

/-- an entry as `initEntry` leaves it reads back *exactly* (nothing to normalise) from its own slot -/
theorem entry_roundtrip_exact (c : Cfg) (p p' : Part) (lss : Nat) (hbs : 0 < lss) (h : EntryWF p)
    (hz : p.size < two64) (hi : initEntry p lss = some p') :
    ∃ b, entryEnc c p' = .ok b ∧ entryDec p'.index b lss = some p' := by
  obtain ⟨hidx, hst, hty, hgu, hat, hnm⟩ := initEntry_fields p p' lss hi
  obtain ⟨_, hend, hsz⟩ := initEntry_consistent p p' lss hbs h.used h.start_lt h.end_lt hz hi
  have h' : EntryWF p' := ⟨hty ▸ h.typ_len, hgu ▸ h.guid_len, hty ▸ h.used, hst ▸ h.start_lt, hend, hat ▸ h.attrs_lt,
    hnm ▸ h.runes, hnm ▸ h.units⟩
  obtain ⟨b, hb, _, hd⟩ := entryDec_entryEnc c p' p'.index lss h'
  refine ⟨b, hb, ?_⟩
  rw [hd]
  congr 1
  cases p'
  simp only [sizeOf] at hsz
  simp_all

/-- start / end / size reconciliation: whichever of the three spellings `initEntry` accepts, the
    result has start ≠ 0 and size = (end − start + 1) · sector size (uint64 arithmetic) -/
theorem init_entry_consistent (p p' : Part) (bs : Nat) (hbs : 0 < bs) (hu : allZero p.typ = false)
    (hs : p.start < two64) (he : p.end_ < two64) (hz : p.size < two64) (h : initEntry p bs = some p') :
    p'.start ≠ 0 ∧ p'.end_ < two64 ∧ p'.size = sizeOf p'.start p'.end_ bs :=
  initEntry_consistent p p' bs hbs hu hs he hz h

/-- the three spellings, individually -/
theorem init_entry_spellings (p : Part) (bs : Nat) (hu : allZero p.typ = false) (h0 : p.start ≠ 0) :
    (p.size = 0 → p.end_ ≥ p.start → initEntry p bs = some { p with size := sizeOf p.start p.end_ bs } ∨
        initEntry p bs = some p) ∧
    (p.end_ ≥ p.start → p.size = sizeOf p.start p.end_ bs → initEntry p bs = some p) := by
  constructor
  · intro hz he
    by_cases hc : p.size = sizeOf p.start p.end_ bs
    · right; unfold initEntry; simp [hu, h0, he, sizeOf] at *; simp [hc]
    · left; unfold initEntry; simp only [sizeOf] at hc ⊢; rw [hz] at hc; simp [hu, h0, he, hz]; intro h; exact absurd h hc
  · intro he hc
    unfold initEntry; simp only [sizeOf] at hc; simp [hu, h0, he, hc]

/-- header round trip: `readGPTHeader` accepts exactly the sector `toGPTBytes` produced and returns
    its nine fields; the decoder recomputes the CRC over the same 92 bytes (CRC field zeroed) that the
    encoder summed.  `pad` is the rest of the logical sector, arbitrary. -/
theorem header_roundtrip (crc : Bytes → Nat) (hcrc : ∀ b, crc b < two32)
    (my alt fd ld : Nat) (guid : Bytes) (hg : guid.length = 16) (al cnt es ac : Nat) (pad : Bytes)
    (hmy : my < two64) (halt : alt < two64) (hfd : fd < two64) (hld : ld < two64) (hal : al < two64)
    (hcnt : cnt < two32) (hes : es < two32) (hac : ac < two32) :
    readHeader crc (hdrBody (leEnc 4 (crc (hdrBody (zeros 4) my alt fd ld guid al cnt es ac)))
        my alt fd ld guid al cnt es ac ++ pad)
      = .ok { myLBA := my, altLBA := alt, firstData := fd, lastData := ld, guid := guid, arrLBA := al,
              count := cnt, entSize := es, arrCrc := ac } :=
  readHeader_hdrBody crc hcrc my alt fd ld guid hg al cnt es ac pad hmy halt hfd hld hal hcnt hes hac

/-- entry-array round trip (sparse, unordered indices → slots): the 16 KiB array `toPartitionArrayBytes`
    assembles from entries that read back exactly (`EntryExact`: unused, or well formed with a
    consistent size — what `initEntry` leaves) decodes to those entries in slot order -/
theorem array_roundtrip (c : Cfg) (ps : List Part) (lss : Nat) (hex : ∀ p ∈ ps, EntryExact lss p) (b : Bytes)
    (h : slotsFrom c ps 128 (List.range 128) = .ok b) :
    b.length = 16384 ∧ decodeArr b lss = normParts ps 128 :=
  decodeArr_slots c ps lss hex b h

/-- whole table, rewrite over ANY prior device content `d` (blank, another table, random bytes):
    if `Write` accepts a fresh table of well-formed entries on a disk that holds the primary copy,
    then gpt.Read of the resulting device returns — from the primary copy — the partitions `Write`
    was left with (slot order, unused dropped), the same disk GUID and the same geometry.
    Holds for the code as found and repaired (`c` arbitrary); CRC32 is any function below 2^32. -/
theorem gpt_read_write (c : Cfg) (crc : Bytes → Nat) (hcrc : ∀ b, crc b < two32) (d : Dev)
    (t0 : Table) (size : Nat) (ws : List Wr) (t : Table)
    (hf : Fresh t0) (hlss : t0.lss = 512 ∨ t0.lss = 4096) (hg : t0.guid.length = 16)
    (hwf : ∀ p ∈ t0.parts, allZero p.typ = true ∨ (EntryWF p ∧ p.size < two64))
    (hmin : 2 * t0.lss + 16384 ≤ size) (hsz : size < two63)
    (hw : write c crc t0 size = .ok (ws, t)) :
    ∃ t', (read c crc (applyWrs d ws) size t0.lss).1 = .ok t' ∧ t'.parts = normParts t.parts 128 ∧
      t'.guid = t0.guid ∧ t'.backup = false ∧ t'.primaryHeader = 1 ∧ t'.secondaryHeader = t.secondaryHeader ∧
      t'.firstData = t.firstData ∧ t'.lastData = t.lastData :=
  read_write_fresh c crc hcrc d t0 size ws t hf hlss hg hwf hmin hsz hw

/-- validity for an independent parser, for EVERY prior device content `d`: if `Write` accepts a fresh
    table on a disk that holds both copies (2·p+3 sectors, p = 16384/lss — exactly what the repaired
    Write demands, see `write_ok_min_size`), the resulting device satisfies `GptSpec.GptValid`
    (Spec/GptValid.lean, written from the UEFI rules, not from the encoder): valid primary header at
    LBA 1 and valid backup header at the last LBA (signature, revision, size 92, header CRC over the 92
    bytes with the CRC field zeroed, reserved zero, MyLBA / AlternateLBA cross-referenced, rest of the
    sector zero), the backup mirroring the primary in every field but the three swapped ones, both
    stored array CRCs equal to the CRC of the 16 KiB at the respective PartitionEntryLBA, entry size
    128, and the layout LBA0 | header | primary array | usable | backup array | header without overlap
    and with FirstUsableLBA / LastUsableLBA leaving room for both arrays.  CRC32 is any function below
    2^32; the proof never evaluates it.  Holds for any `c` (as found and repaired alike). -/
theorem gpt_written_valid (c : Cfg) (crc : Bytes → Nat) (hcrc : ∀ b, crc b < two32) (d : Dev)
    (t0 : Table) (size : Nat) (ws : List Wr) (t : Table)
    (hf : Fresh t0) (hlss : t0.lss = 512 ∨ t0.lss = 4096) (hg : t0.guid.length = 16) (hsz : size < two63)
    (hmin : (2 * (16384 / t0.lss) + 3) * t0.lss ≤ size)
    (hw : write c crc t0 size = .ok (ws, t)) :
    GptSpec.GptValid crc (applyWrs d ws) size t0.lss :=
  written_gpt_valid c crc hcrc d t0 size ws t hf hlss hg hsz hmin hw

/-- the minimum-size premise of `gpt_written_valid` is what the repaired Write demands: if it accepts a
    fresh table at all, the disk has 2·p+3 sectors (as found — `cex_min_disk` — smaller disks were accepted) -/
theorem write_ok_min_size (c : Cfg) (crc : Bytes → Nat) (t0 : Table) (size : Nat) (ws : List Wr) (t : Table)
    (hf : Fresh t0) (hlss : t0.lss = 512 ∨ t0.lss = 4096) (hsz : size < two63) (hc : c.minDiskCheck = true)
    (hw : write c crc t0 size = .ok (ws, t)) :
    (2 * (16384 / t0.lss) + 3) * t0.lss ≤ size :=
  Gpt.write_ok_min_size c crc t0 size ws t hf hlss hsz hc hw

/-- …and, when the table asks for a protective MBR, LBA 0 is one that covers the disk (`GptSpec.PmbrValid`:
    55 AA, one non-bootable 0xEE record from LBA 1 of min(sectors − 1, 0xFFFFFFFF) sectors, records 1–3
    zero) — with the size clamp of the repaired code (`c.pmbrClamp`; `cex_pmbr_truncated` is the
    as-found counterexample) and wherever in the write order the protective MBR comes -/
theorem gpt_written_pmbr_valid (c : Cfg) (crc : Bytes → Nat) (d : Dev)
    (t0 : Table) (size : Nat) (ws : List Wr) (t : Table)
    (hf : Fresh t0) (hlss : t0.lss = 512 ∨ t0.lss = 4096) (hg : t0.guid.length = 16) (hsz : size < two63)
    (hmin : (2 * (16384 / t0.lss) + 3) * t0.lss ≤ size)
    (hpm : t0.pmbr = true) (hclamp : c.pmbrClamp = true)
    (hw : write c crc t0 size = .ok (ws, t)) :
    GptSpec.PmbrValid (applyWrs d ws) size t0.lss :=
  written_pmbr_valid c crc d t0 size ws t hf hlss hg hsz hmin hpm hclamp hw

/-- the library's own header check is sound for the specification: any sector readGPTHeader accepts
    carries the signature, revision 1.0, header size 92, a zero reserved field and the CRC of its first
    92 bytes with the CRC field zeroed, and the reader returns exactly the specification's field values -/
theorem read_header_sound (crc : Bytes → Nat) (s : Bytes) (h : Hdr) (hlen : 92 ≤ s.length)
    (hr : readHeader crc s = .ok h) :
    slice s 0 8 = GptSpec.signature ∧ (GptSpec.rawHdr s).revision = 0x00010000 ∧
    (GptSpec.rawHdr s).headerSize = 92 ∧ (GptSpec.rawHdr s).headerCrc = crc (GptSpec.crcInput s 92) ∧
    (GptSpec.rawHdr s).reserved = 0 ∧ (GptSpec.rawHdr s).myLBA = h.myLBA ∧ (GptSpec.rawHdr s).alternateLBA = h.altLBA ∧
    (GptSpec.rawHdr s).arrayCrc = h.arrCrc := by
  obtain ⟨a1, a2, a3, a4, a5, a6, a7, _, _, _, _, _, _, a14⟩ := readHeader_ok_spec crc s h hlen hr
  exact ⟨a1, a2, a3, a4, a5, a6, a7, a14⟩

/-- READ-THEN-REWRITE IS IDEMPOTENT (GPT; the C14 clause "rewriting a table that was read from disk
    changes nothing").  `ws` = what `Write` emits for a fresh table of well-formed entries over ANY device
    `d`; `t1` = what gpt.Read returns for the result (an initialised table: geometry taken from the header);
    if `Write t1` is accepted, applying its writes changes NO byte of the device, and the table it is
    left with lists the same partitions.  Premises, explicit: the entries the first Write was left with
    have 1 ≤ start ≤ end (no uint64 wrap-around of end below start); if the table read back carries the
    protective-MBR flag then the first Write wrote the protective MBR (otherwise bytes 446..511 come from
    elsewhere, and readProtectiveMBR does not check the CHS bytes Write would zero).  Holds for every `c`
    (either position of the protective-MBR write). -/
theorem gpt_write_idempotent (c : Cfg) (crc : Bytes → Nat) (hcrc : ∀ b, crc b < two32) (d : Dev)
    (t0 : Table) (size : Nat) (ws : List Wr) (t : Table)
    (hf : Fresh t0) (hlss : t0.lss = 512 ∨ t0.lss = 4096) (hg : t0.guid.length = 16)
    (hwf : ∀ p ∈ t0.parts, allZero p.typ = true ∨ (EntryWF p ∧ p.size < two64))
    (hsz : size < two63) (hmin : (2 * (16384 / t0.lss) + 3) * t0.lss ≤ size)
    (hw : write c crc t0 size = .ok (ws, t))
    (hord : ∀ p ∈ t.parts, allZero p.typ = false → 1 ≤ p.start ∧ p.start ≤ p.end_)
    (t1 : Table) (hr : (read c crc (applyWrs d ws) size t0.lss).1 = .ok t1)
    (hpmb : t1.pmbr = true → t0.pmbr = true)
    (ws1 : List Wr) (t2 : Table) (hw1 : write c crc t1 size = .ok (ws1, t2)) :
    applyWrs (applyWrs d ws) ws1 = applyWrs d ws ∧ t2.parts = t1.parts :=
  write_read_write_noop c crc hcrc d t0 size ws t hf hlss hg hwf hsz hmin hw hord t1 hr hpmb ws1 t2 hw1

/-- what gpt.Read returns for a device `Write` produced, field by field (partitions in slot order, sector
    size, disk GUID, 128 × 128 array at LBA 2, its CRC, header LBAs, usable range): the initialised table
    the rewrite starts from -/
theorem gpt_read_back_exact (c : Cfg) (crc : Bytes → Nat) (hcrc : ∀ b, crc b < two32) (d : Dev)
    (t0 : Table) (size : Nat) (ws : List Wr) (t : Table)
    (hf : Fresh t0) (hlss : t0.lss = 512 ∨ t0.lss = 4096) (hg : t0.guid.length = 16)
    (hwf : ∀ p ∈ t0.parts, allZero p.typ = true ∨ (EntryWF p ∧ p.size < two64))
    (hsz : size < two63) (hmin : (2 * (16384 / t0.lss) + 3) * t0.lss ≤ size)
    (hw : write c crc t0 size = .ok (ws, t)) :
    ∃ pm arr, arrEnc c (initTable t0 size) = .ok (arr, t.parts) ∧ (∀ p ∈ t.parts, EntryExact t0.lss p) ∧
      (read c crc (applyWrs d ws) size t0.lss).1 = .ok (readBack t0 t.parts size pm (crc arr)) :=
  read_after_write c crc hcrc d t0 size ws t hf hlss hg hwf hsz hmin hw

/-- READ-THEN-REWRITE IS IDEMPOTENT (MBR), for ANY device mbr.Read accepts, whoever wrote it and whatever
    the slots hold (any type byte, CHS bytes, start / size): the 66 bytes Table.Write emits for the four
    partitions mbr.Read returned are exactly the bytes already at 446..511, so no byte changes -/
theorem mbr_write_idempotent (d : Dev) (devSize : Nat) (ps : List Mbr.Part) (h : (Mbr.read d devSize).1 = some ps) :
    applyWrs d (Mbr.write ps) = d :=
  Mbr.write_read_noop d devSize ps h

/-- a 16-byte MBR slot that partitionFromBytes accepts is re-encoded to the same 16 bytes -/
theorem mbr_entry_enc_dec (b : Bytes) (hb : b.length = 16) (i : Nat) (p : Mbr.Part) (h : Mbr.entryDec i b = some p) :
    Mbr.entryEnc p = b :=
  Mbr.entryEnc_entryDec b hb i p h

-- non-vacuity of `gpt_written_valid` / `gpt_written_pmbr_valid`: the repaired Write accepts a concrete fresh
-- table on a disk of exactly the minimum size (67 sectors), and the predicate is not trivially true
-- (a blank device is not a valid GPT)
set_option maxRecDepth 100000 in
example : (write Cfg.fixed (fun _ => 0)
    { parts := [{ index := 2, start := 34, end_ := 34, size := 0, typ := List.replicate 16 7, guid := List.replicate 16 9,
                  attrs := 0, name := [0x61] }], lss := 512, guid := List.replicate 16 3, pmbr := true }
    (67 * 512)).isOk = true ∧ (2 * (16384 / 512) + 3) * 512 ≤ 67 * 512 := by decide
set_option maxRecDepth 100000 in
example : ¬ GptSpec.GptValid (fun _ => 0) (fun _ => 0) 1048576 512 := by decide

-- non-vacuity of `gpt_read_write`: a concrete fresh table that `Write` accepts
set_option maxRecDepth 100000 in
example : (write Cfg.asFound (fun _ => 0)
    { parts := [{ index := 5, start := 34, end_ := 40, size := 0, typ := List.replicate 16 7, guid := List.replicate 16 9,
                  attrs := 1, name := [0x61, 0x1F600] }], lss := 512, guid := List.replicate 16 3, pmbr := true }
    1048576).isOk = true := by decide

/-- …and that sector is what `hdrEnc` (toGPTBytes) emits for a table -/
theorem hdrEnc_shape (crc : Bytes → Nat) (t : Table) (primary : Bool) (arr : Bytes) :
    hdrEnc crc t primary arr =
      hdrBody (leEnc 4 (crc (hdrBody (zeros 4) (if primary then t.primaryHeader else t.secondaryHeader)
          (if primary then t.secondaryHeader else t.primaryHeader) t.firstData t.lastData t.guid
          (arraySector t primary) t.arrCount 0x80 (crc arr))))
        (if primary then t.primaryHeader else t.secondaryHeader)
        (if primary then t.secondaryHeader else t.primaryHeader) t.firstData t.lastData t.guid
        (arraySector t primary) t.arrCount 0x80 (crc arr) ++ zeros (t.lss - 92) := rfl

/-- an unused slot decodes to no partition -/
theorem unused_slot (i lss : Nat) : entryDec i (zeros 128) lss = none := entryDec_zeros i lss

/-- MBR slot round trip: any type byte, any 32-bit start / size, any CHS bytes, bootable or not -/
theorem mbr_entry_roundtrip (p : Mbr.Part) (i : Nat) (ht : p.typ < 256) (hs : p.start < two32) (hz : p.size < two32)
    (hc : p.chs.length = 6) : Mbr.entryDec i (Mbr.entryEnc p) = some { p with index := i } :=
  Mbr.entryDec_entryEnc p i ht hs hz hc

/-- MBR whole table over ANY prior device content: what mbr.Table.Write emits for up to four (or more)
    storable entries reads back through mbr.Read as four slots filled BY POSITION (index = position+1,
    missing entries empty, entries past the fourth dropped) — the as-found behaviour, which is the
    recorded findings mbr-slot-by-position / mbr-extra-entries-dropped when Index ≠ position+1 / length > 4 -/
theorem mbr_read_write (d : Dev) (ps : List Mbr.Part) (devSize : Nat) (hdev : 512 ≤ devSize)
    (hwf : ∀ p ∈ ps, Mbr.PartWF p) :
    (Mbr.read (applyWrs d (Mbr.write ps)) devSize).1 =
      some [Mbr.normSlot ps 0, Mbr.normSlot ps 1, Mbr.normSlot ps 2, Mbr.normSlot ps 3] :=
  Mbr.read_write d ps devSize hdev hwf

/-- …so a table whose entries carry Index = position+1 reads back exactly -/
theorem mbr_read_write_exact (d : Dev) (a b : Mbr.Part) (devSize : Nat) (hdev : 512 ≤ devSize)
    (ha : Mbr.PartWF a) (hb : Mbr.PartWF b) (ia : a.index = 1) (ib : b.index = 2) :
    (Mbr.read (applyWrs d (Mbr.write [a, b])) devSize).1 = some [a, b, Mbr.emptyPart 3, Mbr.emptyPart 4] := by
  rw [Mbr.read_write d [a, b] devSize hdev (by intro p hp; simp at hp; rcases hp with h | h <;> subst h <;> assumption)]
  cases a; cases b
  simp_all [Mbr.normSlot]

/-- mbr.Table.Write changes bytes 446..511 only (boot code, disk signature = disk identity, data untouched) -/
theorem mbr_write_frame (d : Dev) (ps : List Mbr.Part) (i : Nat) (hi : i < 446 ∨ 512 ≤ i) :
    applyWrs d (Mbr.write ps) i = d i :=
  Mbr.write_frame d ps i hi

/-! ### MBR at the Table level (Model/MbrTable.lean: Table.Write as it is now — it refuses more than four
    partitions — and mbr.Read with the caller's sector sizes stamped; every Go slice expression of
    tableFromBytes / partitionFromBytes modelled with its panic) -/

/-- whatever Table.Write accepts, over ANY prior device content, reads back through mbr.Read — called with any
    sector sizes, zero and negative included — as the four slots filled by position, stamped with the sizes
    Read was given (512 when not positive) -/
theorem mbr_table_read_write (d : Dev) (t : Mbr.Table) (ws : List Wr) (devSize : Nat) (lbs pbs : Int) (hdev : 512 ≤ devSize)
    (hwf : ∀ p ∈ t.parts, Mbr.PartWF p) (hw : Mbr.writeT t = some ws) :
    (Mbr.readT (applyWrs d ws) devSize lbs pbs).1 =
      .ok { parts := [Mbr.normSlot t.parts 0, Mbr.normSlot t.parts 1, Mbr.normSlot t.parts 2, Mbr.normSlot t.parts 3],
            lss := Mbr.stamp lbs, pss := Mbr.stamp pbs } :=
  Mbr.readT_writeT d t ws devSize lbs pbs hdev hwf hw

/-- ROUND TRIP decode (encode t) = t for EVERY valid table: four storable entries numbered 1..4 (what mbr.Read
    itself produces: `mbr_read_canonical`), any positive sector sizes (512, 4096, …): Write accepts it and Read with
    the table's sector sizes returns exactly the table — partitions with all CHS bytes, boot flags, type bytes,
    32-bit starts and sizes, and both sector sizes — over any prior device content -/
theorem mbr_table_round_trip (d : Dev) (t : Mbr.Table) (devSize : Nat) (hdev : 512 ≤ devSize)
    (hwf : ∀ p ∈ t.parts, Mbr.PartWF p) (hc : Mbr.Canonical t) (hl : 0 < t.lss) (hp : 0 < t.pss) :
    ∃ ws, Mbr.writeT t = some ws ∧ (Mbr.readT (applyWrs d ws) devSize t.lss t.pss).1 = .ok t :=
  Mbr.readT_writeT_exact d t devSize hdev hwf hc hl hp

/-- every table mbr.Read returns is of that shape: four slots numbered 1..4 carrying the stamped sector sizes -/
theorem mbr_read_canonical (d : Dev) (devSize : Nat) (lbs pbs : Int) (t : Mbr.Table)
    (h : (Mbr.readT d devSize lbs pbs).1 = .ok t) : Mbr.Canonical t ∧ t.lss = Mbr.stamp lbs ∧ t.pss = Mbr.stamp pbs :=
  Mbr.readT_canonical d devSize lbs pbs t h

/-- FRAME at the Table level: an accepted Write changes bytes 446..511 only (boot code 0..439, disk signature
    440..443 and everything from byte 512 on keep their content); a refused Write (more than four partitions)
    writes nothing at all -/
theorem mbr_table_write_frame (d : Dev) (t : Mbr.Table) (ws : List Wr) (hw : Mbr.writeT t = some ws) (i : Nat)
    (hi : i < 446 ∨ 512 ≤ i) : applyWrs d ws i = d i :=
  Mbr.writeT_frame d t ws hw i hi

theorem mbr_table_write_refuses (t : Mbr.Table) (h : 4 < t.parts.length) : Mbr.writeT t = none :=
  Mbr.writeT_refuses t h

/-- mbr.Read written with Go's slice / index panics is the total decoder the theorems above are about -/
theorem mbr_read_is_total_decoder (d : Dev) (devSize : Nat) (lbs pbs : Int) :
    Mbr.readT d devSize lbs pbs =
      (match (Mbr.read d devSize).1 with
        | some ps => .ok { parts := ps, lss := Mbr.stamp lbs, pss := Mbr.stamp pbs }
        | none => .err false, [512]) :=
  Mbr.readT_eq d devSize lbs pbs

-- non-vacuity: a canonical table of storable entries on 4096-byte sectors
def exMbr : Mbr.Table :=
  { parts := [⟨1, true, 0x83, 2048, 4096, [1, 2, 3, 4, 5, 6]⟩, ⟨2, false, 0x0c, 4294967295, 4294967295, [0, 0, 0, 0, 0, 0]⟩,
              ⟨3, false, 0, 0, 0, [0, 0, 0, 0, 0, 0]⟩, ⟨4, false, 0xff, 7, 9, [255, 255, 255, 255, 255, 255]⟩],
    lss := 4096, pss := 512 }
example : Mbr.Canonical exMbr := ⟨_, _, _, _, rfl, rfl, rfl, rfl, rfl⟩
example : ∀ p ∈ exMbr.parts, Mbr.PartWF p := by
  intro p hp
  simp only [exMbr, List.mem_cons, List.not_mem_nil, or_false] at hp
  rcases hp with h | h | h | h <;> subst h <;> exact ⟨by decide, by decide, by decide, by decide⟩

/-- as found: a name of at most 36 runes but more than 36 UTF-16 units makes `toBytes` panic
    (19 runes outside the BMP); repaired it is refused with an error -/
def cexName : Part := { index := 1, start := 2048, end_ := 2049, size := 0, typ := List.replicate 16 1,
                        guid := List.replicate 16 2, attrs := 0, name := List.replicate 19 0x1F600 }
theorem cex_name_overflow_panics : (entryEnc Cfg.asFound cexName).isPanic = true := by decide
theorem cex_name_overflow_repaired : entryEnc Cfg.fixed cexName = .err false := by decide

/-- as found: above 2^32 sectors the protective MBR size is the low 32 bits of the last LBA; repaired it is 0xFFFFFFFF -/
theorem cex_pmbr_truncated : pmbrSectors Cfg.asFound 6442450943 = 2147483647 ∧ pmbrSectors Cfg.fixed 6442450943 = 4294967295 := by
  decide

/-- as found: a 40-sector disk is accepted although the backup array (LBA 7..38) overlaps the primary (LBA 2..33) -/
theorem cex_min_disk :
    let t := initTable { parts := [], lss := 512, guid := [], pmbr := true } (40 * 512)
    arraySector t false = 7 ∧ arraySector t true = 2 ∧ partSectors t = 32 ∧ t.secondaryHeader < minSectors t - 1 := by
  decide

/-- pinned facts regenerated from partition/gpt/partition.go, table.go, partition/mbr/*.go and
    partition/partition.go: the byte ranges the entry / header encoders and decoders touch, the name
    limit and offset, the MBR layout constants and the probe order — the shapes the hand-written
    mirror (entryEnc / entryDec / hdrBody / readHeader / Mbr.tableEnc / PartTable.read) relies on -/
theorem facts_agree_codec_offsets :
    Generated.GptCodec.entryEncSlices = [(0, 16), (16, 32), (32, 40), (40, 48), (48, 56)] ∧
    Generated.GptCodec.entryDecSlices = [(0, 16), (16, 32), (32, 40), (40, 48), (48, 56)] ∧
    Generated.GptCodec.nameLimit = 36 ∧ Generated.GptCodec.nameOffset = 56 ∧ Generated.GptCodec.entrySize = 128 ∧
    Generated.GptCodec.headerEncSlices =
      [(0, 8), (8, 12), (12, 16), (16, 20), (20, 24), (24, 32), (32, 40), (40, 48), (48, 56), (56, 72), (72, 80),
       (80, 84), (84, 88), (88, 92), (0, 92)] ∧
    Generated.GptCodec.mbr_partitionEntriesStart = 446 ∧ Generated.GptCodec.mbr_partitionEntriesCount = 4 ∧
    Generated.GptCodec.mbr_signatureStart = 510 ∧ Generated.GptCodec.mbr_mbrSize = 512 ∧
    Generated.GptCodec.mbr_partitionEntrySize = 16 ∧
    Generated.GptCodec.mbr_partitionTableUUIDStart = 440 ∧ Generated.GptCodec.mbr_partitionTableUUIDEnd = 444 ∧
    Generated.GptCodec.mbrEntryEncSlices = [(8, 12), (12, 16)] ∧ Generated.GptCodec.mbrEntryDecSlices = [(8, 12), (12, 16)] ∧
    Generated.GptCodec.probeOrder = ["gpt.Read", "mbr.Read"] := by
  decide

/-- non-vacuity: a concrete well-formed entry with a name outside the BMP -/
example : EntryWF { index := 3, start := 34, end_ := 2047, size := 0, typ := List.replicate 16 7, guid := List.replicate 16 9,
                    attrs := 2 ^ 63, name := [0x41, 0x1F600, 0x4E2D] } :=
  ⟨by decide, by decide, by decide, by decide, by decide, by decide, by decide, by decide⟩

/-! ### ANY WELL-FORMED GEOMETRY (Model/GptGeom.lean; Proofs/GptGeomWhole.lean): a table gpt.Read returned
    from a foreign disk and that was then edited — other entry counts (4, 30, 32, 64, 256, …), arrays that do
    not end on a sector boundary, aligned first usable LBA, any sector size ≥ 512.  `writeUp` is table.go
    Write as it is now (array sectors rounded UP, b8755c1): an initialised table keeps the geometry its header
    carried and Write ignores its size argument; `GeomWF` is the explicit well-formedness of that geometry. -/

/-- BRIDGE: on the domain of the theorems above (fresh table, 512/4096-byte sectors) the model the driver
    executes, `writeUp`, IS `write` -/
theorem write_up_is_write (c : Cfg) (crc : Bytes → Nat) (t0 : Table) (size : Nat) (hf : Fresh t0)
    (hl : t0.lss = 512 ∨ t0.lss = 4096) : writeUp c crc t0 size = write c crc t0 size :=
  writeUp_eq_write c crc t0 size hf hl

/-- READ ∘ WRITE, ANY WELL-FORMED GEOMETRY: for EVERY prior device content, what Write emits for an initialised
    table of well-formed geometry with well-formed entries reads back through gpt.Read — from the primary
    copy — as the same partitions (slot order over the table's n slots), the same disk GUID (disk identity)
    and the same geometry: header LBAs, usable range, entry count, array at LBA 2 -/
theorem gpt_read_write_geom (c : Cfg) (crc : Bytes → Nat) (hcrc : ∀ b, crc b < two32) (d : Dev)
    (t : Table) (size : Nat) (ws : List Wr) (t' : Table) (hg : GeomWF t size)
    (hwf : ∀ p ∈ t.parts, allZero p.typ = true ∨ (EntryWF p ∧ p.size < two64))
    (hw : writeUp c crc t size = .ok (ws, t')) :
    ∃ tr, (read c crc (applyWrs d ws) size t.lss).1 = .ok tr ∧ tr.parts = normParts t'.parts t.arrCount ∧
      tr.guid = t.guid ∧ tr.backup = false ∧ tr.primaryHeader = 1 ∧ tr.secondaryHeader = t.secondaryHeader ∧
      tr.firstData = t.firstData ∧ tr.lastData = t.lastData ∧ tr.arrCount = t.arrCount ∧ tr.entSize = 128 ∧
      tr.firstLBA = 2 ∧ tr.initialized = true :=
  read_write_geom c crc hcrc d t size ws t' hg hwf hw

/-- …in particular a FRESH table on ANY sector size ≥ 512 (1024, 2048, 8192, …; `gpt_read_write` above is the
    512/4096 case): `initTable` makes it a table of well-formed geometry with 128 slots -/
theorem gpt_read_write_any_sector_size (c : Cfg) (crc : Bytes → Nat) (hcrc : ∀ b, crc b < two32) (d : Dev)
    (t0 : Table) (size : Nat) (ws : List Wr) (t' : Table)
    (hf : Fresh t0) (hl : 512 ≤ t0.lss) (hgd : t0.guid.length = 16) (hsz : size < two63)
    (hmin : (2 * ((16384 + t0.lss - 1) / t0.lss) + 3) * t0.lss ≤ size)
    (hwf : ∀ p ∈ t0.parts, allZero p.typ = true ∨ (EntryWF p ∧ p.size < two64))
    (hw : writeUp c crc t0 size = .ok (ws, t')) :
    ∃ tr, (read c crc (applyWrs d ws) size t0.lss).1 = .ok tr ∧ tr.parts = normParts t'.parts 128 ∧
      tr.guid = t0.guid ∧ tr.backup = false := by
  obtain ⟨hg, hp, hgu, _, hl', hac⟩ := initTableUp_geom t0 size hf hl hgd hsz hmin
  rw [writeUp_fresh c crc t0 size hf] at hw
  obtain ⟨tr, h1, h2, h3, h4, _⟩ := read_write_geom c crc hcrc d (initTableUp t0 size) size ws t' hg (by rw [hp]; exact hwf) hw
  rw [hl'] at h1
  exact ⟨tr, h1, by rw [h2, hac], by rw [h3, hgu], h4⟩

/-- VALID FOR AN INDEPENDENT PARSER, ANY WELL-FORMED GEOMETRY: for EVERY prior device content, the bytes Write
    leaves for an initialised table with well-formed geometry and a sane usable range (`UsableWF`: Write copies
    FirstUsableLBA / LastUsableLBA from the table without checking them) satisfy `GptSpec.GptValid` — both header
    CRCs, both array CRCs over n·128 bytes, backup mirrors primary, layout without overlap with the array
    sectors rounded up — and `PmbrValid` when a protective MBR is requested (repaired size clamp) -/
theorem gpt_written_valid_geom (c : Cfg) (crc : Bytes → Nat) (hcrc : ∀ b, crc b < two32) (d : Dev)
    (t : Table) (size : Nat) (ws : List Wr) (t' : Table) (hg : GeomWF t size) (hu : UsableWF t)
    (hw : writeUp c crc t size = .ok (ws, t')) :
    GptSpec.GptValid crc (applyWrs d ws) size t.lss ∧
    (t.pmbr = true → c.pmbrClamp = true → GptSpec.PmbrValid (applyWrs d ws) size t.lss) :=
  ⟨written_gpt_valid_geom c crc hcrc d t size ws t' hg hu hw,
   fun hpm hcl => written_pmbr_valid_geom c crc d t size ws t' hg hpm hcl hw⟩

/-- …in particular for a fresh table on any sector size ≥ 512 (`initTable` computes a sane usable range) -/
theorem gpt_written_valid_any_sector_size (c : Cfg) (crc : Bytes → Nat) (hcrc : ∀ b, crc b < two32) (d : Dev)
    (t0 : Table) (size : Nat) (ws : List Wr) (t' : Table)
    (hf : Fresh t0) (hl : 512 ≤ t0.lss) (hgd : t0.guid.length = 16) (hsz : size < two63)
    (hmin : (2 * ((16384 + t0.lss - 1) / t0.lss) + 3) * t0.lss ≤ size)
    (hw : writeUp c crc t0 size = .ok (ws, t')) :
    GptSpec.GptValid crc (applyWrs d ws) size t0.lss := by
  obtain ⟨hg, _, _, _, hl', _⟩ := initTableUp_geom t0 size hf hl hgd hsz hmin
  rw [writeUp_fresh c crc t0 size hf] at hw
  have := written_gpt_valid_geom c crc hcrc d (initTableUp t0 size) size ws t' hg
    (initTableUp_usable t0 size hf hl hgd hsz hmin) hw
  rw [hl'] at this
  exact this

/-- the repaired Write accepts an initialised table only when its AlternateLBA leaves room for both copies
    (2·p + 2 ≤ AlternateLBA, p the array sectors rounded up): with the backup header at the device's last LBA
    this is the `fits` clause of `GeomWF` — Write itself never compares AlternateLBA with the device size -/
theorem write_up_ok_fits (c : Cfg) (crc : Bytes → Nat) (t : Table) (size : Nat) (ws : List Wr) (t' : Table)
    (hc : c.minDiskCheck = true) (hi : t.initialized = true) (hl : 0 < t.lss) (hph : t.primaryHeader = 1)
    (hps : partSectorsUp t < two32) (hw : writeUp c crc t size = .ok (ws, t')) :
    2 * partSectorsUp t + 2 ≤ t.secondaryHeader :=
  writeUp_ok_fits c crc t size ws t' hc hi hl hph hps hw

/-- a table as gpt.Read returns it for a valid foreign GPT with 30 entries (3840-byte array = 7.5 sectors),
    first usable LBA 34, on a disk of 100 sectors of 512 bytes, one partition in slot 30 -/
def exT30 : Table :=
  { parts := [{ index := 30, start := 40, end_ := 47, size := 4096, typ := List.replicate 16 7,
                guid := List.replicate 16 9, attrs := 0, name := [0x61] }],
    lss := 512, guid := List.replicate 16 3, pmbr := true, initialized := true, arrCount := 30,
    entSize := 128, firstLBA := 2, primaryHeader := 1, secondaryHeader := 99, firstData := 34, lastData := 90 }

set_option maxRecDepth 100000 in
-- non-vacuity of the geometry theorems: well-formed geometry, sane usable range, Write accepts it
example : GeomWF exT30 51200 ∧ (writeUp Cfg.fixed (fun _ => 0) exT30 51200).isOk = true := by decide
example : UsableWF exT30 := ⟨by decide, by decide, by decide, by decide⟩

end Diskfs.Gpt.C02
