/-
  C02 — Partition tables read back as written and are valid on disk.
  Property theorems only; helper lemmas live in Proofs/GptCodec.lean, Proofs/GptTable.lean,
  Proofs/MbrCodec.lean.  CRC32 is a parameter `crc` everywhere.
  Quantifiers: every entry (any 64-bit start / end / attributes, any 16-byte GUIDs, any name of
  valid non-NUL runes that fits 36 UTF-16 units, BMP or not), every header field value in range,
  every sector size ≥ 92, every trailing sector content.
-/
import DiskfsModel.Proofs.GptWhole
import DiskfsModel.Proofs.MbrTable
import DiskfsModel.Generated.GptCodec
namespace Diskfs.Gpt.C02

/-- the mixed-endian GUID transformation (common.go bytesToUUIDBytes) is an involution on 16 bytes:
    what `toBytes` swaps, `partitionFromBytes` swaps back -/
theorem guidSwap_involutive (b : Bytes) (h : b.length = 16) : guidSwap (guidSwap b) = b :=
  guidSwap_invol b h

/-- UTF-16: decode ∘ encode = id on every sequence of valid runes (surrogate pairs included) -/
theorem utf16_roundtrip (rs : List Nat) (h : ∀ r ∈ rs, validRune r = true) : utf16Dec (utf16Enc rs) = rs :=
  Gpt.utf16_roundtrip rs h

/-- entry round trip: the 128 bytes `toBytes` writes for a well-formed used entry decode, in whatever
    slot `i` they are put, to the same start / end / type / GUID / attributes / name, with index `i`
    and the size a reader derives from start and end.  Holds as found and repaired (`c` arbitrary). -/
theorem entry_roundtrip (c : Cfg) (p : Part) (i lss : Nat) (h : EntryWF p) :
    ∃ b, entryEnc c p = .ok b ∧ b.length = 128 ∧
      entryDec i b lss = some { p with index := i, size := sizeOf p.start p.end_ lss } :=
  entryDec_entryEnc c p i lss h

/-- an entry as `initEntry` leaves it reads back *exactly* (nothing to normalise) from its own slot -/
theorem entry_roundtrip_exact (c : Cfg) (p p' : Part) (lss : Nat) (hbs : 0 < lss) (h : EntryWF p)
    (hz : p.size < two64) (hi : initEntry p lss = some p') :
    ∃ b, entryEnc c p' = .ok b ∧ entryDec p'.index b lss = some p' := by
  obtain ⟨hidx, hst, hty, hgu, hat, hnm⟩ := initEntry_fields p p' lss hi
  obtain ⟨_, hend, hsz⟩ := initEntry_consistent p p' lss hbs h.used h.start_lt h.end_lt hz hi
  have h' : EntryWF p' := ⟨hty ▸ h.typ_len, hgu ▸ h.guid_len, hty ▸ h.used, hst ▸ h.start_lt, hend, hat ▸ h.attrs_lt,
    hnm ▸ h.runes, hnm ▸ h.units⟩
  obtain ⟨b, hb, _, hd⟩ := entryDec_entryEnc c p' p'.index lss h'
  refine ⟨b, hb, ?_⟩
  rw [hd]
  congr 1
  cases p'
  simp only [sizeOf] at hsz
  simp_all

/-- start / end / size reconciliation: whichever of the three spellings `initEntry` accepts, the
    result has start ≠ 0 and size = (end − start + 1) · sector size (uint64 arithmetic) -/
theorem init_entry_consistent (p p' : Part) (bs : Nat) (hbs : 0 < bs) (hu : allZero p.typ = false)
    (hs : p.start < two64) (he : p.end_ < two64) (hz : p.size < two64) (h : initEntry p bs = some p') :
    p'.start ≠ 0 ∧ p'.end_ < two64 ∧ p'.size = sizeOf p'.start p'.end_ bs :=
  initEntry_consistent p p' bs hbs hu hs he hz h

/-- the three spellings, individually -/
theorem init_entry_spellings (p : Part) (bs : Nat) (hu : allZero p.typ = false) (h0 : p.start ≠ 0) :
    (p.size = 0 → p.end_ ≥ p.start → initEntry p bs = some { p with size := sizeOf p.start p.end_ bs } ∨
        initEntry p bs = some p) ∧
    (p.end_ ≥ p.start → p.size = sizeOf p.start p.end_ bs → initEntry p bs = some p) := by
  constructor
  · intro hz he
    by_cases hc : p.size = sizeOf p.start p.end_ bs
    · right; unfold initEntry; simp [hu, h0, he, sizeOf] at *; simp [hc]
    · left; unfold initEntry; simp only [sizeOf] at hc ⊢; rw [hz] at hc; simp [hu, h0, he, hz]; intro h; exact absurd h hc
  · intro he hc
    unfold initEntry; simp only [sizeOf] at hc; simp [hu, h0, he, hc]

/-- header round trip: `readGPTHeader` accepts exactly the sector `toGPTBytes` produced and returns
    its nine fields; the decoder recomputes the CRC over the same 92 bytes (CRC field zeroed) that the
    encoder summed.  `pad` is the rest of the logical sector, arbitrary. -/
theorem header_roundtrip (crc : Bytes → Nat) (hcrc : ∀ b, crc b < two32)
    (my alt fd ld : Nat) (guid : Bytes) (hg : guid.length = 16) (al cnt es ac : Nat) (pad : Bytes)
    (hmy : my < two64) (halt : alt < two64) (hfd : fd < two64) (hld : ld < two64) (hal : al < two64)
    (hcnt : cnt < two32) (hes : es < two32) (hac : ac < two32) :
    readHeader crc (hdrBody (leEnc 4 (crc (hdrBody (zeros 4) my alt fd ld guid al cnt es ac)))
        my alt fd ld guid al cnt es ac ++ pad)
      = .ok { myLBA := my, altLBA := alt, firstData := fd, lastData := ld, guid := guid, arrLBA := al,
              count := cnt, entSize := es, arrCrc := ac } :=
  readHeader_hdrBody crc hcrc my alt fd ld guid hg al cnt es ac pad hmy halt hfd hld hal hcnt hes hac

/-- entry-array round trip (sparse, unordered indices → slots): the 16 KiB array `toPartitionArrayBytes`
    assembles from entries that read back exactly (`EntryExact`: unused, or well formed with a
    consistent size — what `initEntry` leaves) decodes to those entries in slot order -/
theorem array_roundtrip (c : Cfg) (ps : List Part) (lss : Nat) (hex : ∀ p ∈ ps, EntryExact lss p) (b : Bytes)
    (h : slotsFrom c ps 128 (List.range 128) = .ok b) :
    b.length = 16384 ∧ decodeArr b lss = normParts ps 128 :=
  decodeArr_slots c ps lss hex b h

/-- whole table, rewrite over ANY prior device content `d` (blank, another table, random bytes):
    if `Write` accepts a fresh table of well-formed entries on a disk that holds the primary copy,
    then gpt.Read of the resulting device returns — from the primary copy — the partitions `Write`
    was left with (slot order, unused dropped), the same disk GUID and the same geometry.
    Holds for the code as found and repaired (`c` arbitrary); CRC32 is any function below 2^32. -/
theorem gpt_read_write (c : Cfg) (crc : Bytes → Nat) (hcrc : ∀ b, crc b < two32) (d : Dev)
    (t0 : Table) (size : Nat) (ws : List Wr) (t : Table)
    (hf : Fresh t0) (hlss : t0.lss = 512 ∨ t0.lss = 4096) (hg : t0.guid.length = 16)
    (hwf : ∀ p ∈ t0.parts, allZero p.typ = true ∨ (EntryWF p ∧ p.size < two64))
    (hmin : 2 * t0.lss + 16384 ≤ size) (hsz : size < two63)
    (hw : write c crc t0 size = .ok (ws, t)) :
    ∃ t', (read c crc (applyWrs d ws) size t0.lss).1 = .ok t' ∧ t'.parts = normParts t.parts 128 ∧
      t'.guid = t0.guid ∧ t'.backup = false ∧ t'.primaryHeader = 1 ∧ t'.secondaryHeader = t.secondaryHeader ∧
      t'.firstData = t.firstData ∧ t'.lastData = t.lastData :=
  read_write_fresh c crc hcrc d t0 size ws t hf hlss hg hwf hmin hsz hw

-- non-vacuity of `gpt_read_write`: a concrete fresh table that `Write` accepts
set_option maxRecDepth 100000 in
example : (write Cfg.asFound (fun _ => 0)
    { parts := [{ index := 5, start := 34, end_ := 40, size := 0, typ := List.replicate 16 7, guid := List.replicate 16 9,
                  attrs := 1, name := [0x61, 0x1F600] }], lss := 512, guid := List.replicate 16 3, pmbr := true }
    1048576).isOk = true := by decide

/-- …and that sector is what `hdrEnc` (toGPTBytes) emits for a table -/
theorem hdrEnc_shape (crc : Bytes → Nat) (t : Table) (primary : Bool) (arr : Bytes) :
    hdrEnc crc t primary arr =
      hdrBody (leEnc 4 (crc (hdrBody (zeros 4) (if primary then t.primaryHeader else t.secondaryHeader)
          (if primary then t.secondaryHeader else t.primaryHeader) t.firstData t.lastData t.guid
          (arraySector t primary) t.arrCount 0x80 (crc arr))))
        (if primary then t.primaryHeader else t.secondaryHeader)
        (if primary then t.secondaryHeader else t.primaryHeader) t.firstData t.lastData t.guid
        (arraySector t primary) t.arrCount 0x80 (crc arr) ++ zeros (t.lss - 92) := rfl

/-- an unused slot decodes to no partition -/
theorem unused_slot (i lss : Nat) : entryDec i (zeros 128) lss = none := entryDec_zeros i lss

/-- MBR slot round trip: any type byte, any 32-bit start / size, any CHS bytes, bootable or not -/
theorem mbr_entry_roundtrip (p : Mbr.Part) (i : Nat) (ht : p.typ < 256) (hs : p.start < two32) (hz : p.size < two32)
    (hc : p.chs.length = 6) : Mbr.entryDec i (Mbr.entryEnc p) = some { p with index := i } :=
  Mbr.entryDec_entryEnc p i ht hs hz hc

/-- MBR whole table over ANY prior device content: what mbr.Table.Write emits for up to four (or more)
    storable entries reads back through mbr.Read as four slots filled BY POSITION (index = position+1,
    missing entries empty, entries past the fourth dropped) — the as-found behaviour, which is the
    recorded findings mbr-slot-by-position / mbr-extra-entries-dropped when Index ≠ position+1 / length > 4 -/
theorem mbr_read_write (d : Dev) (ps : List Mbr.Part) (devSize : Nat) (hdev : 512 ≤ devSize)
    (hwf : ∀ p ∈ ps, Mbr.PartWF p) :
    (Mbr.read (applyWrs d (Mbr.write ps)) devSize).1 =
      some [Mbr.normSlot ps 0, Mbr.normSlot ps 1, Mbr.normSlot ps 2, Mbr.normSlot ps 3] :=
  Mbr.read_write d ps devSize hdev hwf

/-- …so a table whose entries carry Index = position+1 reads back exactly -/
theorem mbr_read_write_exact (d : Dev) (a b : Mbr.Part) (devSize : Nat) (hdev : 512 ≤ devSize)
    (ha : Mbr.PartWF a) (hb : Mbr.PartWF b) (ia : a.index = 1) (ib : b.index = 2) :
    (Mbr.read (applyWrs d (Mbr.write [a, b])) devSize).1 = some [a, b, Mbr.emptyPart 3, Mbr.emptyPart 4] := by
  rw [Mbr.read_write d [a, b] devSize hdev (by intro p hp; simp at hp; rcases hp with h | h <;> subst h <;> assumption)]
  cases a; cases b
  simp_all [Mbr.normSlot]

/-- mbr.Table.Write changes bytes 446..511 only (boot code, disk signature = disk identity, data untouched) -/
theorem mbr_write_frame (d : Dev) (ps : List Mbr.Part) (i : Nat) (hi : i < 446 ∨ 512 ≤ i) :
    applyWrs d (Mbr.write ps) i = d i :=
  Mbr.write_frame d ps i hi

/-- as found: a name of at most 36 runes but more than 36 UTF-16 units makes `toBytes` panic
    (19 runes outside the BMP); repaired it is refused with an error -/
def cexName : Part := { index := 1, start := 2048, end_ := 2049, size := 0, typ := List.replicate 16 1,
                        guid := List.replicate 16 2, attrs := 0, name := List.replicate 19 0x1F600 }
theorem cex_name_overflow_panics : (entryEnc Cfg.asFound cexName).isPanic = true := by decide
theorem cex_name_overflow_repaired : entryEnc Cfg.fixed cexName = .err false := by decide

/-- as found: above 2^32 sectors the protective MBR size is the low 32 bits of the last LBA; repaired it is 0xFFFFFFFF -/
theorem cex_pmbr_truncated : pmbrSectors Cfg.asFound 6442450943 = 2147483647 ∧ pmbrSectors Cfg.fixed 6442450943 = 4294967295 := by
  decide

/-- as found: a 40-sector disk is accepted although the backup array (LBA 7..38) overlaps the primary (LBA 2..33) -/
theorem cex_min_disk :
    let t := initTable { parts := [], lss := 512, guid := [], pmbr := true } (40 * 512)
    arraySector t false = 7 ∧ arraySector t true = 2 ∧ partSectors t = 32 ∧ t.secondaryHeader < minSectors t - 1 := by
  decide

/-- pinned facts regenerated from partition/gpt/partition.go, table.go, partition/mbr/*.go and
    partition/partition.go: the byte ranges the entry / header encoders and decoders touch, the name
    limit and offset, the MBR layout constants and the probe order — the shapes the hand-written
    mirror (entryEnc / entryDec / hdrBody / readHeader / Mbr.tableEnc / PartTable.read) relies on -/
theorem facts_agree_codec_offsets :
    Generated.GptCodec.entryEncSlices = [(0, 16), (16, 32), (32, 40), (40, 48), (48, 56)] ∧
    Generated.GptCodec.entryDecSlices = [(0, 16), (16, 32), (32, 40), (40, 48), (48, 56)] ∧
    Generated.GptCodec.nameLimit = 36 ∧ Generated.GptCodec.nameOffset = 56 ∧ Generated.GptCodec.entrySize = 128 ∧
    Generated.GptCodec.headerEncSlices =
      [(0, 8), (8, 12), (12, 16), (16, 20), (20, 24), (24, 32), (32, 40), (40, 48), (48, 56), (56, 72), (72, 80),
       (80, 84), (84, 88), (88, 92), (0, 92)] ∧
    Generated.GptCodec.mbr_partitionEntriesStart = 446 ∧ Generated.GptCodec.mbr_partitionEntriesCount = 4 ∧
    Generated.GptCodec.mbr_signatureStart = 510 ∧ Generated.GptCodec.mbr_mbrSize = 512 ∧
    Generated.GptCodec.mbr_partitionEntrySize = 16 ∧
    Generated.GptCodec.mbr_partitionTableUUIDStart = 440 ∧ Generated.GptCodec.mbr_partitionTableUUIDEnd = 444 ∧
    Generated.GptCodec.mbrEntryEncSlices = [(8, 12), (12, 16)] ∧ Generated.GptCodec.mbrEntryDecSlices = [(8, 12), (12, 16)] ∧
    Generated.GptCodec.probeOrder = ["gpt.Read", "mbr.Read"] := by
  decide

/-- non-vacuity: a concrete well-formed entry with a name outside the BMP -/
example : EntryWF { index := 3, start := 34, end_ := 2047, size := 0, typ := List.replicate 16 7, guid := List.replicate 16 9,
                    attrs := 2 ^ 63, name := [0x41, 0x1F600, 0x4E2D] } :=
  ⟨by decide, by decide, by decide, by decide, by decide, by decide, by decide, by decide⟩

end Diskfs.Gpt.C02
