/-
  C10 — File handles honour the Read/Seek contract on every filesystem.
  Property theorems only; helper lemmas live in Proofs/ReadSeek.lean, the specification
  (`ReadOK`, `SeekOK`, `StepOK`, `HistoryOK`: bytes.Reader semantics) in Spec/Reader.lean.

  Quantifiers: every cursor position (also past the end), every buffer size (also 0 and
  larger than the file), every seek offset and whence, every cluster / block size > 0,
  every chain / extent list / block list that covers the file size, every content, every
  call sequence.  The theorems are about the mirror in Model/ReadSeek.lean with every
  defect switch in its repaired position (`Cfg.fixed`); the `cex_*` theorems show what the
  as-found switches do on the recorded witnesses, the `agree_*` theorems that the switches
  matter only on the stated trigger.
-/
import DiskfsModel.Proofs.ReadSeek
import DiskfsModel.Generated.ReadSeek
namespace Diskfs.ReadSeek.C10
open Diskfs.Spec

/-! ### Read: exactly the bytes at the cursor, never more than remain, EOF exactly at the end -/

/-- FAT12/16/32 (`fat12.File.Read`): any chain that covers the size, any cluster size -/
theorem fat_read_refines (f : FatFile) (hwf : f.WF) (store : Dev) (content : Bytes)
    (hag : Agrees store content) (hsz : content.length = f.size) (off n : Nat) :
    ∃ segs eof, fatRead Cfg.fixed f off n = (.ok segs eof, off + (segsData store segs).length) ∧
      ReadOK content off n (segsData store segs) eof := by
  obtain ⟨segs, heq, hc, hl⟩ := fatRead_good f hwf off n
  obtain ⟨h1, h2⟩ := ReadGood_spec store content hag f.size off n hsz segs _ _ ⟨segs, rfl, hc, hl⟩
  exact ⟨segs, _, by rw [heq, h2], h1⟩

/-- ext4 (`ext4.File.Read`): any hole-free extent list that covers the size, any block size -/
theorem ext4_read_refines (f : Ext4File) (hwf : f.WF) (store : Dev) (content : Bytes)
    (hag : Agrees store content) (hsz : content.length = f.size) (off n : Nat) :
    ∃ segs eof, ext4Read Cfg.fixed f off n = (.ok segs eof, off + (segsData store segs).length) ∧
      ReadOK content off n (segsData store segs) eof := by
  obtain ⟨segs, heq, hc, hl⟩ := ext4Read_good f hwf off n
  obtain ⟨h1, h2⟩ := ReadGood_spec store content hag f.size off n hsz segs _ _ ⟨segs, rfl, hc, hl⟩
  exact ⟨segs, _, by rw [heq, h2], h1⟩

/-- iso9660 (`iso9660.File.Read`): one contiguous extent -/
theorem iso_read_refines (size : Nat) (store : Dev) (content : Bytes)
    (hag : Agrees store content) (hsz : content.length = size) (off n : Nat) :
    ∃ segs eof, isoRead size off n = (.ok segs eof, off + (segsData store segs).length) ∧
      ReadOK content off n (segsData store segs) eof := by
  obtain ⟨segs, heq, hc, hl⟩ := isoRead_good size off n
  obtain ⟨h1, h2⟩ := ReadGood_spec store content hag size off n hsz segs _ _ ⟨segs, rfl, hc, hl⟩
  exact ⟨segs, _, by rw [heq, h2], h1⟩

/-- squashfs (`squashfs.File.Read`): full blocks plus tail fragment, or data blocks only -/
theorem sqfs_read_refines (f : SqFile) (hwf : f.WF) (store : Dev) (content : Bytes)
    (hag : Agrees store content) (hsz : content.length = f.size) (off n : Nat) :
    ∃ segs eof, sqRead Cfg.fixed f off n = (.ok segs eof, off + (segsData store segs).length) ∧
      ReadOK content off n (segsData store segs) eof := by
  obtain ⟨segs, heq, hc, hl⟩ := sqRead_good f hwf off n
  obtain ⟨h1, h2⟩ := ReadGood_spec store content hag f.size off n hsz segs _ _ ⟨segs, rfl, hc, hl⟩
  exact ⟨segs, _, by rw [heq, h2], h1⟩

/-! ### Seek: where io.Seeker says -/

/-- all four `Seek`s (the same body over the three regenerated `case` arms), open handle -/
theorem seek_refines (fm : FileM) (pos : Nat) (w : Whence) (o : Int) :
    SeekOK fm.size pos w o (seekWith (armsOf Cfg.fixed fm) fm.size pos w o).1
      (seekWith (armsOf Cfg.fixed fm) fm.size pos w o).2 := by
  rw [armsOf_fixed]; exact seekWith_canonical fm.size pos w o

theorem fat_seek_refines (f : FatFile) (pos : Nat) (w : Whence) (o : Int) :
    SeekOK f.size pos w o (seekWith (armsOf Cfg.fixed (.fat f)) f.size pos w o).1
      (seekWith (armsOf Cfg.fixed (.fat f)) f.size pos w o).2 :=
  seek_refines (.fat f) pos w o

theorem ext4_seek_refines (f : Ext4File) (pos : Nat) (w : Whence) (o : Int) :
    SeekOK f.size pos w o (seekWith (armsOf Cfg.fixed (.ext4 f)) f.size pos w o).1
      (seekWith (armsOf Cfg.fixed (.ext4 f)) f.size pos w o).2 :=
  seek_refines (.ext4 f) pos w o

theorem iso_seek_refines (size pos : Nat) (w : Whence) (o : Int) :
    SeekOK size pos w o (seekWith (armsOf Cfg.fixed (.iso size)) size pos w o).1
      (seekWith (armsOf Cfg.fixed (.iso size)) size pos w o).2 :=
  seek_refines (.iso size) pos w o

theorem sqfs_seek_refines (f : SqFile) (pos : Nat) (w : Whence) (o : Int) :
    SeekOK f.size pos w o (seekWith (armsOf Cfg.fixed (.sqfs f)) f.size pos w o).1
      (seekWith (armsOf Cfg.fixed (.sqfs f)) f.size pos w o).2 :=
  seek_refines (.sqfs f) pos w o

/-! ### closed handles -/

/-- after Close, Read and Seek return an error, deliver no data and leave the handle alone -/
theorem closed_handle_fails (fm : FileM) (h : H) (hc : h.closed = true) (n : Nat) (w : Whence) (o : Int) :
    readM Cfg.fixed fm h n = (.read .errClosed, h) ∧ seekM Cfg.fixed fm h w o = (.seekClosed, h) := by
  simp [readM, seekM, hc, Cfg.fixed]

/-! ### every call sequence -/

/-- one call of any kind on a handle in any state refines the specification step
    (cursor invariant: the model handle's offset / closed flag are the specification's) -/
theorem handle_step (fm : FileM) (hwf : fm.WF) (store : Dev) (content : Bytes)
    (hag : Agrees store content) (hsz : content.length = fm.size) (h : H) (op : HOp) :
    StepOK content ⟨h.off, h.closed⟩ op (toSpec store (stepM Cfg.fixed fm h op).1)
      ⟨(stepM Cfg.fixed fm h op).2.off, (stepM Cfg.fixed fm h op).2.closed⟩ :=
  step_refines fm hwf store content hag hsz h op

/-- every sequence of Read / Seek / Close calls on a fresh handle is a history bytes.Reader allows -/
theorem handle_history (fm : FileM) (hwf : fm.WF) (store : Dev) (content : Bytes)
    (hag : Agrees store content) (hsz : content.length = fm.size) (ops : List HOp) :
    HistoryOK content ⟨0, false⟩ (histM Cfg.fixed fm store ⟨0, false⟩ ops) :=
  history_refines fm hwf store content hag hsz ops ⟨0, false⟩

theorem fat_handle_history (f : FatFile) (hwf : f.WF) (store : Dev) (content : Bytes)
    (hag : Agrees store content) (hsz : content.length = f.size) (ops : List HOp) :
    HistoryOK content ⟨0, false⟩ (histM Cfg.fixed (.fat f) store ⟨0, false⟩ ops) :=
  handle_history (.fat f) hwf store content hag hsz ops

theorem ext4_handle_history (f : Ext4File) (hwf : f.WF) (store : Dev) (content : Bytes)
    (hag : Agrees store content) (hsz : content.length = f.size) (ops : List HOp) :
    HistoryOK content ⟨0, false⟩ (histM Cfg.fixed (.ext4 f) store ⟨0, false⟩ ops) :=
  handle_history (.ext4 f) hwf store content hag hsz ops

theorem iso_handle_history (size : Nat) (store : Dev) (content : Bytes)
    (hag : Agrees store content) (hsz : content.length = size) (ops : List HOp) :
    HistoryOK content ⟨0, false⟩ (histM Cfg.fixed (.iso size) store ⟨0, false⟩ ops) :=
  handle_history (.iso size) trivial store content hag hsz ops

theorem sqfs_handle_history (f : SqFile) (hwf : f.WF) (store : Dev) (content : Bytes)
    (hag : Agrees store content) (hsz : content.length = f.size) (ops : List HOp) :
    HistoryOK content ⟨0, false⟩ (histM Cfg.fixed (.sqfs f) store ⟨0, false⟩ ops) :=
  handle_history (.sqfs f) hwf store content hag hsz ops

/-- the executable well-formedness check the model driver prints for every compared case implies
    the hypothesis `WF` of the theorems above: every case of the correspondence run lies in their domain -/
theorem wf_check_sound (fm : FileM) (h : fm.wfb = true) : fm.WF := wfb_sound fm h

/-! ### the recorded defects: what the as-found switches do on the witnesses -/

/-- fat-read-past-eof: 700-byte file, 512-byte clusters, cursor 600, 4 KiB buffer: 424 bytes, not 100 -/
theorem cex_fat_read_past_eof :
    fatRead Cfg.asFound ⟨512, 700, 2⟩ 600 4096 = (.ok [⟨600, 424⟩] true, 1024) ∧
    fatRead Cfg.fixed ⟨512, 700, 2⟩ 600 4096 = (.ok [⟨600, 100⟩] true, 700) := by decide

/-- sqfs-seekend-sign: Seek(-10, SeekEnd) on a 10000-byte file returns 10010; io.Seeker says 9990 -/
theorem cex_sqfs_seekend_sign :
    seekWith (armsOf Cfg.asFound (.sqfs ⟨4096, 10000, 2, true⟩)) 10000 0 .end_ (-10) = (some 10010, 10010) ∧
    seekWith (armsOf Cfg.fixed (.sqfs ⟨4096, 10000, 2, true⟩)) 10000 0 .end_ (-10) = (some 9990, 9990) := by decide

/-- ext4-close-nil-deref: Read (and Seek from the end) on a closed ext4 handle panic -/
theorem cex_ext4_close_nil_deref (f : Ext4File) (h : H) (hc : h.closed = true) (n : Nat) (o : Int) :
    readM Cfg.asFound (.ext4 f) h n = (.read .panic, h) ∧
    seekM Cfg.asFound (.ext4 f) h .end_ o = (.seekPanic, h) := by
  simp [readM, seekM, hc, Cfg.asFound, FileM.isExt4]

/-- ext4-extent-skip-lt: a read starting, unaligned, in the block after the end of an extent panics -/
theorem cex_ext4_extent_skip_lt :
    ext4Read Cfg.asFound ⟨1024, 9316, [⟨0, 3⟩, ⟨3, 3⟩, ⟨6, 3⟩, ⟨9, 1⟩]⟩ 3077 16 = (.panic, 3077) ∧
    ext4Read Cfg.fixed ⟨1024, 9316, [⟨0, 3⟩, ⟨3, 3⟩, ⟨6, 3⟩, ⟨9, 1⟩]⟩ 3077 16 = (.ok [⟨3077, 16⟩] false, 3093) := by decide

/-- sqfs-read-empty-buffer: Read with an empty buffer before the end returns an error -/
theorem cex_sqfs_read_empty_buffer :
    sqRead Cfg.asFound ⟨4096, 10000, 2, true⟩ 5 0 = (.errOther [], 5) ∧
    sqRead Cfg.fixed ⟨4096, 10000, 2, true⟩ 5 0 = (.ok [] false, 5) := by decide

/-! ### the switches matter only on their triggers -/

/-- the FAT clamp switch changes nothing unless the cursor is inside a cluster whose remainder
    reaches past the end of the file and the buffer is larger than what remains -/
theorem agree_fat_clamp (c : Cfg) (f : FatFile) (off n : Nat)
    (h : ¬ (0 < off ∧ off % f.bpc ≠ 0 ∧ f.size - off < n ∧ f.size - off < f.bpc - off % f.bpc)) :
    fatRead { c with fatClamp := false } f off n = fatRead { c with fatClamp := true } f off n := by
  unfold fatRead
  by_cases hend : f.size ≤ off
  · simp [hend]
  · by_cases hp : 0 < off ∧ off % f.bpc ≠ 0
    · have hmin : min (f.bpc - off % f.bpc) n = min (f.bpc - off % f.bpc) (min n (f.size - off)) := by omega
      simp [hend, hp, hmin]
    · simp [hend, hp]

/-- the squashfs SeekEnd switch changes nothing for the other whences or a zero offset -/
theorem agree_sqfs_seekend (c : Cfg) (f : SqFile) (pos : Nat) (w : Whence) (o : Int)
    (h : w ≠ .end_ ∨ o = 0) :
    seekWith (armsOf { c with sqEndAdd := false } (.sqfs f)) f.size pos w o =
    seekWith (armsOf { c with sqEndAdd := true } (.sqfs f)) f.size pos w o := by
  cases w with
  | start => rfl
  | current => rfl
  | end_ =>
    rcases h with h | h
    · exact absurd rfl h
    · subst h; simp [seekWith, armsOf, SeekArms.pick, Arm.eval]

/-- the ext4 closed-check switch changes nothing on an open handle -/
theorem agree_ext4_closed (c : Cfg) (fm : FileM) (h : H) (ho : h.closed = false) (n : Nat) (w : Whence) (o : Int) :
    readM { c with e4Closed := false } fm h n = readM { c with e4Closed := true } fm h n ∧
    seekM { c with e4Closed := false } fm h w o = seekM { c with e4Closed := true } fm h w o := by
  constructor
  · simp only [readM, ho, Bool.false_eq_true, if_false]
    cases fm with
    | fat f => simp [readOpen, fatRead]
    | ext4 f =>
      have hl := ext4Loop_cfg { c with e4Closed := false } { c with e4Closed := true } rfl rfl
      simp only [readOpen, ext4Read, hl]
    | iso s => rfl
    | sqfs f => simp [readOpen, sqRead, sqFinish]
  · simp only [seekM, ho, Bool.false_eq_true, if_false]
    cases fm <;> rfl

/-- the ext4 skip switch changes nothing unless some extent ends exactly at the first block wanted -/
theorem agree_ext4_skip (c : Cfg) (bs btr rsb : Nat) :
    ∀ (es : List Ext) (off rb : Nat) (segs : List Seg), (∀ e ∈ es, e.fileBlock + e.count ≠ rsb) →
      ext4Loop { c with e4SkipLe := false } bs btr rsb es off rb segs =
      ext4Loop { c with e4SkipLe := true } bs btr rsb es off rb segs := by
  intro es
  induction es with
  | nil => intro off rb segs _; rfl
  | cons e es ih =>
    intro off rb segs h
    have hne := h e (List.mem_cons_self ..)
    have hrest : ∀ e' ∈ es, e'.fileBlock + e'.count ≠ rsb := fun e' he' => h e' (List.mem_cons_of_mem _ he')
    have hd : decide (e.fileBlock + e.count < rsb) = decide (e.fileBlock + e.count ≤ rsb) := by
      by_cases h1 : e.fileBlock + e.count < rsb
      · have h2 : e.fileBlock + e.count ≤ rsb := by omega
        simp [h1, h2]
      · have h2 : ¬ e.fileBlock + e.count ≤ rsb := by omega
        simp [h1, h2]
    simp only [ext4Loop, Bool.false_eq_true, if_false, if_true, hd, ih _ _ _ hrest]

/-- the squashfs empty-buffer switch changes nothing for a non-empty buffer -/
theorem agree_sqfs_empty (c : Cfg) (f : SqFile) (st : SqSt) (m : Nat) (hm : 0 < m) :
    sqFinish { c with sqEmptyOk := false } f m st = sqFinish { c with sqEmptyOk := true } f m st := by
  simp [sqFinish, hm]

/-! ### facts regenerated from /repo tie the model's Seek to the source -/

/-- the three `case` arms of every `Seek` are the ones the model evaluates: SeekStart ↦ offset,
    SeekEnd ↦ size + offset, SeekCurrent ↦ cursor + offset — squashfs may instead still carry the
    recorded `size - offset` (sqfs-seekend-sign), which is the model's `sqEndAdd = false` arm -/
theorem facts_agree_seek_arms :
    Generated.ReadSeek.fatSeekArms = SeekArms.canonical.codes ∧
    Generated.ReadSeek.ext4SeekArms = SeekArms.canonical.codes ∧
    Generated.ReadSeek.isoSeekArms = SeekArms.canonical.codes ∧
    (Generated.ReadSeek.sqfsSeekArms = (armsOf Cfg.fixed (.sqfs ⟨0, 0, 0, false⟩)).codes ∨
     Generated.ReadSeek.sqfsSeekArms = (armsOf Cfg.asFound (.sqfs ⟨0, 0, 0, false⟩)).codes) := by decide

/-- every `Seek` refuses a position before the start with an error before it moves the cursor -/
theorem facts_agree_seek_neg_check :
    Generated.ReadSeek.fatSeekNegCheck = true ∧ Generated.ReadSeek.ext4SeekNegCheck = true ∧
    Generated.ReadSeek.isoSeekNegCheck = true ∧ Generated.ReadSeek.sqfsSeekNegCheck = true := by decide

/-- FAT, iso9660 and squashfs `Read` / `Seek` start with the closed-handle guard (ext4's guard is the
    recorded defect ext4-close-nil-deref; its presence is reported in the evidence, not required here) -/
theorem facts_agree_closed_guards :
    Generated.ReadSeek.fatReadClosedGuard = true ∧ Generated.ReadSeek.fatSeekClosedGuard = true ∧
    Generated.ReadSeek.isoReadClosedGuard = true ∧ Generated.ReadSeek.isoSeekClosedGuard = true ∧
    Generated.ReadSeek.sqfsReadClosedGuard = true ∧ Generated.ReadSeek.sqfsSeekClosedGuard = true := by decide

/-! ### non-vacuity: the hypotheses are satisfiable by the shapes the engine meets -/

example : (FatFile.mk 512 700 2).WF := ⟨by decide, by decide⟩
example : (Ext4File.mk 1024 9316 [⟨0, 3⟩, ⟨3, 3⟩, ⟨6, 3⟩, ⟨9, 1⟩]).WF := by
  refine ⟨by decide, ?_, by decide⟩
  simp [Contig]
example : (SqFile.mk 4096 10000 2 true).WF := by
  refine ⟨by decide, Or.inl ⟨rfl, by decide⟩⟩
example : (SqFile.mk 8192 10000 2 false).WF := by
  refine ⟨by decide, Or.inr (by decide)⟩
example : Agrees (fun i => UInt8.ofNat i) [0, 1, 2] := by
  intro i h
  match i, h with
  | 0, _ => rfl
  | 1, _ => rfl
  | 2, _ => rfl
example : ReadOK [1, 2, 3, 4, 5] 3 10 [4, 5] true := by
  refine ⟨by decide, by decide, by decide⟩
example : SeekOK 10 4 .end_ (-3) (some 7) 7 := by simp [SeekOK, seekTarget]
example : SeekOK 10 4 .current (-5) none 4 := by simp [SeekOK, seekTarget]

end Diskfs.ReadSeek.C10
