/-
  C07 — A squashfs image contains exactly the tree it was built from.
  Property theorems only (helpers in Proofs/Sqfs*.lean).  Proved for all inputs
  about the logic cores mirrored in Model/Sqfs:
    * data mapping: for the modelled builder core (full blocks, each stored compressed only if
      smaller; the tail inside a shared fragment block) every read call and every sequence of read
      calls returns exactly what a plain byte reader over the file contents returns — for every
      block size, every `Codec` satisfying its two laws, every choice of the NoCompress flags and
      whatever else shares the fragment block; hence the view does not depend on the compressor,
      on the flags or on the block size; sparse blocks (stored size 0) read as zeros;
    * fragment packing: the (fragment block, offset) handed to each file points at its tail in the
      packed fragment blocks;
    * metadata references: the (block, offset) pair computed for an inode resolves — through the
      8 KiB chunking, continuing into following blocks — to that inode's bytes, for any sequence of
      inode sizes;
    * the superblock codec round-trips;
    * region layout (`sizes_describe_bytes` and the four theorems after it): for any sizes of the
      pieces, the mirror of Finalize's `location` bookkeeping puts every table start at the start
      of its region, the regions tile [96, bytes_used), bytes_used is the end of the last write,
      and the WriteAt calls cover [0, bytes_used) exactly once; the 8 KiB chunking of the metadata
      streams holds the whole stream in blocks of 1..8192 bytes;
    * inode and directory-table codecs round-trip (`inode_roundtrip`, `dir_listing_roundtrip`), and
      on uncompressed metadata streams that show a tree the pure reader returns exactly that tree
      (`reader_walks_tree`);
    * the reading side over the BYTES of an image (Model/Sqfs/ImageRd.lean, any codec, compressed or
      uncompressed metadata): a metadata block round-trips through writeMetadataBlock /
      readMetaBlock; `readMetadata` over a table laid down by the writers returns the uncompressed
      stream from any (block, offset) reference across block boundaries
      (`metadata_stream_reads_back`); `getInode` finds the inode whatever type the caller announces;
      the fragment and id tables read back; if the image shows a tree (`ImgShows`) the walk of
      ReadDir / ReadFile returns exactly that tree with owners and file bytes
      (`image_walk_returns_tree`); the readers' index-pointer counts equal the writers' block
      counts for every number of entries (`lookup_table_block_counts`);
    * the writing side down to the bytes (Model/Sqfs/ImageWr.lean: Finalize from the file list
      walkTree returns to every byte written): the writers' chunking is the 8 KiB chunking of the
      stream, every reference Finalize hands out resolves on the device, file contents read back,
      the byte-level model and the region model agree on every table start, and
      `writer_reader_roundtrip`: on any device showing the written bytes the reader returns the
      superblock and exactly the depth-first walk of the file list with inodes, owners and contents —
      for every codec, block size and option set, within the stated limits (`Limits`).
  The compressors themselves are outside Lean (parameter `Codec`); the end-to-end clause is
  evaluated on the real code by the engine (see the registration note).
-/
import DiskfsModel.Proofs.SqfsMap
import DiskfsModel.Proofs.SqfsFrag
import DiskfsModel.Proofs.SqfsMeta
import DiskfsModel.Proofs.SqfsCodec
import DiskfsModel.Proofs.SqfsRegions
import DiskfsModel.Proofs.SqfsInode
import DiskfsModel.Proofs.SqfsWalk
import DiskfsModel.Proofs.SqfsImageRd
import DiskfsModel.Proofs.SqfsImageWr
import DiskfsModel.Proofs.SqfsRoundTrip
import DiskfsModel.Proofs.SqfsImageRegions
import DiskfsModel.Generated.Sqfs
namespace Diskfs.Sqfs.C07

/-- one Read call on the built file = the slice of the contents, the new offset and the EOF flag of
    a plain byte reader -/
theorem readS_spec (c : Codec) (noCompData noCompFrag : Bool) (bs : Nat) (pre post content : Bytes)
    (hbs : 0 < bs) (off n : Nat) :
    readS c (buildFile c noCompData noCompFrag bs pre post content) off n =
      ((content.drop off).take n, off + min n (content.length - off),
        decide (content.length ≤ off + min n (content.length - off))) :=
  readS_build c noCompData noCompFrag bs pre post content hbs off n

/-- any call sequence, from any starting offset -/
theorem readS_spec_seq (c : Codec) (noCompData noCompFrag : Bool) (bs : Nat) (pre post content : Bytes)
    (hbs : 0 < bs) (off : Nat) (ns : List Nat) :
    readSeq c (buildFile c noCompData noCompFrag bs pre post content) off ns = specSeq content off ns :=
  readSeq_build c noCompData noCompFrag bs pre post content hbs off ns

/-- the view is independent of the compressor, of the NoCompress flags, of the block size and of
    what else is packed into the fragment block -/
theorem view_codec_independent (c₁ c₂ : Codec) (d₁ f₁ d₂ f₂ : Bool) (bs₁ bs₂ : Nat) (pre₁ post₁ pre₂ post₂ content : Bytes)
    (h₁ : 0 < bs₁) (h₂ : 0 < bs₂) (off : Nat) (ns : List Nat) :
    readSeq c₁ (buildFile c₁ d₁ f₁ bs₁ pre₁ post₁ content) off ns =
    readSeq c₂ (buildFile c₂ d₂ f₂ bs₂ pre₂ post₂ content) off ns := by
  rw [readSeq_build _ _ _ _ _ _ _ h₁, readSeq_build _ _ _ _ _ _ _ h₂]

/-- a data block round-trips through store/load whether or not compression paid off -/
theorem block_roundtrip (c : Codec) (noComp : Bool) (bs : Nat) (blk : Bytes) (h : blk.length = bs) (hbs : 0 < bs) :
    loadBlock c bs (storeBlock c noComp blk) = blk := load_store c noComp bs blk h hbs

/-- a stored size of zero is a sparse block: it reads as `bs` zero bytes -/
theorem sparse_block_reads_zero (c : Codec) (bs : Nat) (flag : Bool) :
    loadBlock c bs ⟨flag, []⟩ = zeros bs := load_sparse c bs flag

/-- fragment packing (`writeFragmentBlocks`): the (fragment block, offset) reference handed to a
    file points at that file's tail inside the packed fragment blocks — for any list of tails
    shorter than a block; files without a tail get no reference -/
theorem frag_ref_resolves (bs : Nat) (tails : List Bytes) (hlt : ∀ t ∈ tails, t.length < bs) (i : Nat) (hi : i < tails.length) :
    RefOK (packFrags bs tails [] []) (tails.getD i []) ((fragRefs bs (tails.map List.length) 0 0).getD i none) :=
  fragRefs_resolve bs tails hlt [] [] i hi

/-- the reference computed for inode `i` resolves to that inode's bytes: for any inode byte
    strings, reading from block `r.1` at offset `r.2` of the chunked stream (and on into the
    following blocks) starts with exactly the bytes of inode `i` -/
theorem meta_ref_resolves (inodes : List Bytes) (i : Nat) (hi : i < inodes.length) :
    (resolve (chunksOf metaBlock (inodes.flatten.length) inodes.flatten)
        ((inodeRefs (inodes.map List.length) 0).getD i (0, 0)).1
        ((inodeRefs (inodes.map List.length) 0).getD i (0, 0)).2).take (inodes.getD i []).length
      = inodes.getD i [] := by
  unfold resolve
  rw [chunksOf_drop_flatten metaBlock (by decide) _ _ _ (Nat.le_refl _), List.drop_drop]
  have := inodeRefs_point inodes [] i hi
  simpa using this

/-- superblock codec round-trip -/
theorem superblock_roundtrip (s : Superblock) (h : s.WF) : decodeSB (encodeSB s) = some s := decode_encodeSB s h

/-- pinned facts regenerated from squashfs.go / superblock.go / inode.go / file.go -/
theorem facts_agree_constants :
    Generated.Sqfs.metadataBlockSize = metaBlock ∧ Generated.Sqfs.superblockSize = 96 ∧
    Generated.Sqfs.inodeHeaderSize = 16 ∧ Generated.Sqfs.minBlocksize = 4096 ∧ Generated.Sqfs.maxBlocksize = 1048576 := by decide

/-! non-vacuity -/
/-- a toy codec meeting the laws: prefix a marker byte (never shrinks, so the "keep only if smaller" branch is also hit by `idc`) -/
private def mark : Codec :=
  { compress := fun x => 7 :: x, decompress := fun x => x.drop 1, roundtrip := fun _ => rfl,
    nonempty := fun _ _ => by simp }
/-- a codec that shrinks one particular block, so that compressed blocks occur -/
private def rle : Codec :=
  { compress := fun x => if x = [5, 5, 5, 5] then [1] else 0 :: x
    decompress := fun y => if y = [1] then [5, 5, 5, 5] else y.drop 1
    roundtrip := by
      intro x
      by_cases h : x = [5, 5, 5, 5]
      · simp [h]
      · simp [h]
    nonempty := by
      intro x _
      by_cases h : x = [5, 5, 5, 5] <;> simp [h] }
example : (buildFile rle false false 4 [9, 9] [8] [5, 5, 5, 5, 1, 2, 3, 4, 6, 7]).blocks =
    [⟨true, [1]⟩, ⟨false, [1, 2, 3, 4]⟩] := by decide
example : readSeq rle (buildFile rle false false 4 [9, 9] [8] [5, 5, 5, 5, 1, 2, 3, 4, 6, 7]) 2 [3, 100, 1] =
    [[5, 5, 1], [2, 3, 4, 6, 7], []] := by decide
example : fragRefs 8 [3, 0, 4, 2, 7] 0 0 = [some (0, 0), none, some (0, 3), some (1, 0), some (2, 0)] := by decide
example : packFrags 8 [[1, 1, 1], [], [2, 2, 2, 2], [3, 3], [4, 4, 4, 4, 4, 4, 4]] [] [] =
    [[1, 1, 1, 2, 2, 2, 2], [3, 3], [4, 4, 4, 4, 4, 4, 4]] := by decide
example : (inodeRefs [5000, 5000, 100] 0) = [(0, 0), (0, 5000), (1, 1808)] := by decide

/-! ## region layout of Finalize -/

/-- **sizes_describe_bytes.**  For ANY sizes of the pieces (data blocks, fragment blocks, metadata
    blocks of the five tables, compressor option bytes) and with or without an export table, the
    mirror of Finalize's bookkeeping agrees with the specification "eleven regions laid end to end
    from byte 96": the regions tile [96, bytes_used) without gap or overlap; inode_table_start and
    directory_table_start are the starts of their regions; fragment / export / id table start are
    the starts of the INDEX regions of those tables (each preceded by its metadata blocks);
    bytes_used is the end of the last region; and the WriteAt calls are exactly the regions' writes
    end to end, followed by the superblock at byte 0. -/
theorem sizes_describe_bytes (p : Pieces) :
    Tiles sbSize (regions p) ∧
    (finalize p).bytesUsed = endOf sbSize (regions p) ∧
    (finalize p).inodeStart = startOf .inodeTbl (regions p) ∧
    (finalize p).dirStart = startOf .dirTbl (regions p) ∧
    (finalize p).fragStart = startOf .fragIdx (regions p) ∧
    (finalize p).idStart = startOf .idIdx (regions p) ∧
    (finalize p).exportStart = (if p.exportTbl.isSome then startOf .exportIdx (regions p) else absent64) ∧
    (finalize p).writes = flatWrites (regions p) ++ [(0, sbSize)] :=
  ⟨regions_tile p, finalize_bytesUsed p, (finalize_starts p).1, (finalize_starts p).2.1, (finalize_starts p).2.2.1,
    (finalize_starts p).2.2.2.1, (finalize_starts p).2.2.2.2, finalize_writes p⟩

/-- the regions are in ascending order, pairwise disjoint, and lie inside [96, bytes_used) -/
theorem regions_disjoint_inside (p : Pieces) :
    (regions p).Pairwise (fun a b => a.hi ≤ b.lo) ∧
    ∀ r ∈ regions p, sbSize ≤ r.lo ∧ r.hi ≤ (finalize p).bytesUsed := by
  refine ⟨tiles_pairwise _ _ (regions_tile p), ?_⟩
  rw [finalize_bytesUsed]
  exact tiles_inside _ _ (regions_tile p)

/-- the table starts are ordered and inside the image; bytes_used is the end of the id index, the
    last thing written before the superblock -/
theorem table_starts_ordered (p : Pieces) :
    sbSize ≤ (finalize p).inodeStart ∧ (finalize p).inodeStart ≤ (finalize p).dirStart ∧
    (finalize p).dirStart ≤ (finalize p).fragStart ∧
    (finalize p).fragStart + 8 * p.fragTbl.length ≤ (finalize p).idStart ∧
    (finalize p).idStart + 8 * p.idTbl.length = (finalize p).bytesUsed ∧
    (∀ e, p.exportTbl = some e →
      (finalize p).fragStart + 8 * p.fragTbl.length ≤ (finalize p).exportStart ∧
      (finalize p).exportStart + 8 * e.length ≤ (finalize p).idStart) := finalize_order p

/-- "the size fields describe exactly the bytes written": a byte offset is below bytes_used iff
    some WriteAt of Finalize covers it — nothing beyond bytes_used is written, no hole is left —
    and no byte is written twice -/
theorem written_bytes_exact (p : Pieces) :
    (∀ x, x < (finalize p).bytesUsed ↔ ∃ w ∈ (finalize p).writes, w.1 ≤ x ∧ x < w.1 + w.2) ∧
    (finalize p).writes.Pairwise (fun a b => a.1 + a.2 ≤ b.1 ∨ b.1 + b.2 ≤ a.1) :=
  ⟨finalize_cover p, finalize_once p⟩

/-- chunking of the inode and directory tables (`writeInodes`, `writeDirectories`): the blocks hold
    the whole stream; with items of at most 8 KiB every block holds 1..8192 bytes and all but the
    last are full -/
theorem meta_chunks_gt (items : List Nat) (h : ∀ s ∈ items, s ≤ metaMax) :
    (chunkGT items 0).sum = items.sum ∧ (∀ c ∈ chunkGT items 0, 0 < c ∧ c ≤ metaMax) ∧
    (∀ c ∈ (chunkGT items 0).dropLast, c = metaMax) :=
  ⟨by simpa using chunkGT_sum items 0, chunkGT_bound items 0 (by simp [metaMax]) h, chunkGT_full items 0⟩

/-- chunking of the fragment / export / id tables (entries of 16 / 8 / 4 bytes): exactly
    ⌊n·e / 8192⌋ full blocks and one block with the rest, so the index has ⌈n·e / 8192⌉ entries -/
theorem meta_chunks_ge (e n : Nat) (hd : e ∣ metaMax) :
    chunkGE e n 0 = List.replicate (n * e / metaMax) metaMax ++ (if n * e % metaMax > 0 then [n * e % metaMax] else []) := by
  simpa using chunkGE_exact e hd n 0 (by simp [metaMax]) (Nat.dvd_zero e)

/-- pinned facts regenerated from finalize.go: Finalize calls its writers in the order of the
    model's regions (the xattr writer, not modelled, comes last); `NoPad`, `NoFragments` and
    `NonSparse` are not consulted by the layout code, which is why the region sequence does not
    depend on them; block and superblock sizes -/
theorem facts_agree_regions :
    Generated.Sqfs.finalize_writer_order = writerOrder ++ ["writeXattrs"] ∧
    "NoPad" ∉ Generated.Sqfs.finalize_options_consulted ∧ "NoFragments" ∉ Generated.Sqfs.finalize_options_consulted ∧
    "NonSparse" ∉ Generated.Sqfs.finalize_options_consulted ∧ "NonExportable" ∈ Generated.Sqfs.finalize_options_consulted ∧
    Generated.Sqfs.metadataBlockSize = metaMax ∧ Generated.Sqfs.superblockSize = sbSize := by decide

/-! non-vacuity / worked example: 2 data blocks, 1 fragment block, one block per table -/
private def ex1 : Pieces := { opt := 8, data := [4096, 100], frags := [50], inodes := [200], dirs := [60], fragTbl := [16],
                              exportTbl := some [40], idTbl := [4] }
example : (finalize ex1).inodeStart = 4350 ∧ (finalize ex1).dirStart = 4552 ∧ (finalize ex1).fragStart = 4632 ∧
    (finalize ex1).exportStart = 4682 ∧ (finalize ex1).idStart = 4696 ∧ (finalize ex1).bytesUsed = 4704 := by decide
example : (finalize { ex1 with exportTbl := none }).exportStart = absent64 ∧ (finalize { ex1 with exportTbl := none }).idStart = 4646 := by decide
example : (finalize ex1).writes = [(96, 8), (104, 4096), (4200, 100), (4300, 50), (4350, 202), (4552, 62), (4614, 18), (4632, 8),
    (4640, 42), (4682, 8), (4690, 6), (4696, 8), (0, 96)] := by decide
example : chunkGT [5000, 5000, 100] 0 = [8192, 1908] := by rfl
example : chunkGE 16 513 0 = [8192, 16] ∧ chunkGE 16 512 0 = [8192] ∧ chunkGE 4 0 0 = [] :=
  ⟨by rw [meta_chunks_ge 16 513 ⟨512, by rfl⟩]; rfl, by rw [meta_chunks_ge 16 512 ⟨512, by rfl⟩]; rfl, by rfl⟩

/-! ## inode and directory-table codecs, tree reader -/

/-- inode codec round trip (header + the directory / regular file / symlink bodies Finalize writes:
    basic and extended directory without index entries, basic and extended file with their block
    lists, basic symlink): decoding at the front of any stream returns the inode and leaves exactly
    the bytes that follow it; the encoded length is the size `updateInodeLocations` adds up -/
theorem inode_roundtrip (bs : Nat) (i : Inode) (rest : Bytes) (h : i.WF bs) :
    decodeInode bs (encodeInode i ++ rest) = some (i, rest) ∧ (encodeInode i).length = i.size :=
  ⟨decode_encodeInode bs i rest h, encodeInode_length i⟩

/-- directory table codec round trip for a whole listing of any length: `directory.toBytes` starts
    a new 12-byte header whenever the inode block changes or the header already counts 256
    entries; `parseDirectory` returns the same entries in order, each with the inode block of its
    header and its inode number restored from the 16-bit difference -/
theorem dir_listing_roundtrip (base : Nat) (hb : base < 2 ^ 32) (es : List DEnt) (h : ∀ e ∈ es, e.WF base) :
    decodeDir (es.length + 1) (encodeListing base es) = some es := decode_encodeListing base hb es h

/-- **the reader walks the tree** (uncompressed metadata): if every entry's inode stands in the
    inode stream at the place its (block, offset) reference names and every directory's listing
    stands in the directory stream at the place its inode names, then reading below a directory's
    inode returns exactly the depth-first list of (path, inode) of the tree — names, kinds, sizes,
    block lists, fragment references, symlink targets, modes, owners' indices and times included,
    since the whole decoded inode is returned.  Composed from `dir_listing_roundtrip`,
    `inode_roundtrip` and induction over the nesting depth; how references map to stream positions
    is a parameter (`meta_ref_resolves` is the statement about that arithmetic). -/
theorem reader_walks_tree (env : WalkEnv) (t : STree) (hs : Shows env t) (fuel : Nat) (pre : List Bytes) (d : Nat)
    (hd : d < t.n) (hdir : t.isDir d = true) (hfit : t.Fits fuel d) :
    sqWalk env fuel pre (t.ino d) = some (t.walk fuel pre d) := sqWalk_walk env t hs fuel pre d hd hdir hfit

/-- pinned facts regenerated from directory.go: a header counts at most 256 entries, is 12 bytes
    long, and the decoder refuses a stored name length above 256 -/
theorem facts_agree_codec :
    Generated.Sqfs.maxDirEntries = maxDirEntries ∧ Generated.Sqfs.dirHeaderSize = 12 ∧ Generated.Sqfs.dirNameMaxSize = 256 := by decide

/-! non-vacuity -/
private def exHdr : IHdr := { mode := 0o644, uid := 0, gid := 1, mtime := 1700000000, index := 2 }
private def exFile : Inode := ⟨exHdr, .basicFile 96 0 10 8200 [⟨4096, false⟩, ⟨1234, true⟩]⟩
example : exFile.WF 4096 := by
  refine ⟨by decide, by decide, by decide, by decide, by decide, by decide, by decide, by decide, by decide, ?_, by decide⟩
  intro b hb
  simp at hb
  rcases hb with rfl | rfl <;> simp [Blk.WF]
example : decodeInode 4096 (encodeInode exFile ++ [9, 9]) = some (exFile, [9, 9]) := by decide
example : (encodeInode ⟨exHdr, .basicSymlink 1 [46, 46, 47, 97]⟩).length = 28 := by decide
private def exEnts : List DEnt :=
  [⟨0, 2, 2, [97], 0⟩, ⟨40, 3, 1, [98, 98], 0⟩, ⟨8, 4, 3, [99], 8194⟩]
example : encodeListing 0 exEnts =
    [1, 0, 0, 0, 0, 0, 0, 0, 0, 0, 0, 0,  0, 0, 2, 0, 2, 0, 0, 0, 97,  40, 0, 3, 0, 1, 0, 1, 0, 98, 98,
     0, 0, 0, 0, 2, 32, 0, 0, 0, 0, 0, 0,  8, 0, 4, 0, 3, 0, 0, 0, 99] := by decide
example : decodeDir 4 (encodeListing 0 exEnts) = some exEnts := by decide

-- a root directory holding one empty file, both streams a few dozen bytes long
private def wRoot : Inode := ⟨{ mode := 0o755, uid := 0, gid := 0, mtime := 5, index := 1 }, .extDir 2 24 0 2 0 (2 ^ 32 - 1)⟩
private def wFile : Inode := ⟨{ mode := 0o644, uid := 0, gid := 0, mtime := 6, index := 2 }, .basicFile 96 noFrag 0 0 []⟩
private def wT : STree :=
  { n := 2, ino := fun c => if c = 0 then wRoot else wFile, name := fun c => if c = 0 then [47] else [97],
    kids := fun d => if d = 0 then [1] else [], refBlk := fun _ => 0, refOff := fun c => if c = 0 then 0 else 40 }
private def wEnv : WalkEnv :=
  { bs := 4096, I := encodeInode wRoot ++ encodeInode wFile, D := encodeListing 0 [wT.dent 1],
    ipos := fun _ off => off, dpos := fun _ off => off }
private theorem wShows : Shows wEnv wT := by
  have two : ∀ c, c < 2 → c = 0 ∨ c = 1 := by omega
  refine ⟨?_, ?_, ?_, ?_, ?_⟩
  · intro d hd c hc
    rcases two d hd with rfl | rfl <;> simp [wT] at hc ⊢
    omega
  · intro c hc
    rcases two c hc with rfl | rfl
    · exact ⟨encodeInode wFile, by decide⟩
    · exact ⟨[], by decide⟩
  · intro c hc
    rcases two c hc with rfl | rfl
    · simp [wT, wRoot, Inode.WF, IBody.WF]
    · simp [wT, wEnv, wFile, Inode.WF, IBody.WF, noFrag, blockCount]
  · intro c hc
    rcases two c hc with rfl | rfl <;> simp [wT, STree.dent, DEnt.WF, wRoot, wFile, basicTyp, IBody.typ]
  · intro d hd sb off sz hl
    rcases two d hd with rfl | rfl
    · simp [wT, wRoot, listingRef] at hl
      obtain ⟨rfl, rfl, rfl⟩ := hl
      exact ⟨by decide, by decide⟩
    · simp [wT, wFile, listingRef] at hl
example : sqWalk wEnv 1 [] wRoot = some [([[97]], wFile)] := by
  have := reader_walks_tree wEnv wT wShows 1 [] 0 (by decide) (by decide) (by
    intro c hc hd
    simp [wT] at hc; subst hc
    simp [STree.isDir, wT, wFile, listingRef] at hd)
  simpa [wT, STree.walk, STree.isDir, wFile, listingRef] using this


/-! ## the reading side over image bytes (Model/Sqfs/ImageRd.lean) -/

/-- one metadata block round-trips through `writeMetadataBlock` / `readMetaBlock` on the device:
    whatever the codec did (compressed and kept, or stored with the 0x8000 flag), reading at the
    block's location returns its contents and its stored length (header included) -/
theorem metadata_block_roundtrip (c : Codec) (noComp : Bool) (img : Dev) (loc : Nat) (blk : Bytes) (hb : BlockOK blk)
    (h : HoldsAt img loc (encodeMetaBlock c noComp blk)) :
    readMetaBlock c img loc = (blk, (encodeMetaBlock c noComp blk).length) :=
  readMetaBlock_written c noComp img loc blk hb h

/-- **readMetadata over a table laid down by `metaTable` returns the stream.**  The device shows
    the encoded blocks `blocks` from `tbl` on (each 1..8192 bytes before compression, any codec,
    compressed or not).  Then for every block `k`, every offset `off` inside it and every `size`
    that the uncompressed stream still holds from there, `readMetadata` called with the byte offset
    of block `k` (the value `writeInodes` records in `blockOffsets`) returns a prefix, at least
    `size` bytes long, of the uncompressed stream from (k, off) on — across as many blocks as it
    takes. -/
theorem metadata_stream_reads_back (c : Codec) (noComp : Bool) (img : Dev) (tbl : Nat) (blocks : List Bytes)
    (hok : ∀ x ∈ blocks, BlockOK x) (hT : HoldsAt img tbl (metaTable c noComp blocks)) (k off : Nat) (hk : k < blocks.length)
    (ho : off ≤ (blocks.getD k []).length) (size : Nat) (hs : size ≤ ((blocks.drop k).flatten.drop off).length) :
    (∃ n, size ≤ n ∧ n ≤ ((blocks.drop k).flatten.drop off).length ∧
      readMetadata c img tbl (metaOff c noComp blocks k) off size = some (((blocks.drop k).flatten.drop off).take n)) ∧
    (blockOffsets (blocks.map fun b => (storeBlock c noComp b).payload.length) 0).getD k 0 = metaOff c noComp blocks k :=
  ⟨readsFrom_of_table c noComp img tbl blocks hok hT k off hk ho size hs, by simpa using metaOff_blockOffsets c noComp blocks 0 k hk⟩

/-- **getInode finds the inode**, whatever basic or extended type (1..14) the caller announces: the
    read / re-read with the header's type / re-read with the body's `extra` sequence ends with the
    inode that is encoded at the reference -/
theorem get_inode_finds_inode (c : Codec) (img : Dev) (tbl bs blockOff byteOff typ : Nat) (i : Inode) (rest : Bytes)
    (hwf : i.WF bs) (htyp : 16 ≤ typeSize typ) (hts : typeSize typ ≤ (encodeInode i ++ rest).length)
    (hask : i.ask ≤ (encodeInode i ++ rest).length)
    (RM : ReadsFrom c img tbl blockOff byteOff (encodeInode i ++ rest)) :
    getInodeM c img tbl bs blockOff byteOff typ = some i :=
  getInodeM_spec c img tbl bs blockOff byteOff typ i rest hwf htyp hts hask RM

/-- `getDirectory` returns the listing that is encoded at the reference, when asked — as
    `getDirectoryEntries` does — for the inode's file_size, 3 bytes more than the listing is long:
    the 3 bytes that follow are read and ignored by `parseDirectory` -/
theorem get_directory_finds_listing (c : Codec) (img : Dev) (tbl blockOff byteOff : Nat) (es : List DEnt) (rest : Bytes)
    (hwf : ∀ e ∈ es, e.WF 0) (hrest : 3 ≤ rest.length) (RM : ReadsFrom c img tbl blockOff byteOff (encodeListing 0 es ++ rest)) :
    getDirM c img tbl blockOff byteOff ((encodeListing 0 es).length + 3) = some es :=
  getDirM_spec c img tbl blockOff byteOff es rest hwf hrest RM

/-- **the reader walks the image**: if the image shows the tree to `readMetadata` (`ImgShows`: at
    every entry's reference the metadata stream starts with the entry's inode, at every directory's
    listing reference with its listing; owner indices are in the id table; the data and fragment
    blocks the inode names hold the contents), then the walk `ReadDir` /
    `hydrateDirectoryEntries` / `ReadFile` perform below a directory inode returns exactly the
    depth-first list of the tree: path, decoded inode, owner ids, file bytes — for every codec,
    compressed or uncompressed metadata, every nesting depth -/
theorem image_walk_returns_tree (c : Codec) (img : Dev) (o : Opened) (t : STree) (a : Nat → Attr) (hs : ImgShows c img o t a)
    (fuel : Nat) (pre : List Bytes) (d : Nat) (hd : d < t.n) (hdir : t.isDir d = true) (hfit : t.Fits fuel d) :
    imgWalk c img o fuel pre (t.ino d) = some (t.walkS a fuel pre d) :=
  imgWalk_walk c img o t a hs fuel pre d hd hdir hfit

/-- the fragment table reads back: metadata blocks of 16-byte entries at `loc`, the index of
    8-byte pointers at `fragStart` — `readFragmentTable` with the superblock's count returns
    exactly the entries (any number of them, any codec) -/
theorem fragment_table_roundtrip (c : Codec) (noComp : Bool) (img : Dev) (loc fragStart : Nat) (ents : List FragEnt)
    (hwf : ∀ e ∈ ents, e.WF) (hT : HoldsAt img loc (metaTable c noComp (metaChunks (fragStream ents))))
    (hI : HoldsAt img fragStart (lookupIndex c noComp loc (metaChunks (fragStream ents))))
    (h64 : loc + (metaTable c noComp (metaChunks (fragStream ents))).length < 2 ^ 64) :
    readFragTable c img fragStart ents.length = some ents :=
  readFragTable_written c noComp img loc fragStart ents hwf hT hI h64

/-- the id table reads back, for any number of ids (`readUidsGids` counts the metadata blocks in
    int since fix 0ff62c2; the uint16 arithmetic it replaced gave 1 block for 16385 ids, nine are
    needed and nine are read) -/
theorem id_table_roundtrip (c : Codec) (noComp : Bool) (img : Dev) (loc idStart : Nat) (ids : List Nat)
    (hwf : ∀ x ∈ ids, x < 2 ^ 32)
    (hT : HoldsAt img loc (metaTable c noComp (metaChunks (idStream ids))))
    (hI : HoldsAt img idStart (lookupIndex c noComp loc (metaChunks (idStream ids))))
    (h64 : loc + (metaTable c noComp (metaChunks (idStream ids))).length < 2 ^ 64) :
    readIdTable c img idStart ids.length = ids ∧
    (idBlocks 16385 = 9 ∧ ((16385 * 4) % 65536 + 65535) % 65536 / 8192 + 1 = 1) :=
  ⟨readIdTable_written c noComp img loc idStart ids hwf hT hI h64, id_blocks_16385⟩

/-- **block counts of the two-level lookup tables.**  For every number of entries: the number of
    index pointers `readFragmentTable` takes (count/512, one more if count%512 > 0) is exactly the
    number of metadata blocks `writeFragmentTable` cut, ⌈16·n / 8192⌉ — so an exact multiple of 512
    fragments has n/512 blocks, not one more; for n ≥ 1 ids the count `readUidsGids` computes is the
    number of blocks `writeIDTable` cut, ⌈4·n / 8192⌉ (before fix 0ff62c2 it was not from 16385 ids
    on: finding sqfs-idtable-uint16-blockcount) -/
theorem lookup_table_block_counts :
    (∀ ents : List FragEnt,
      ents.length / 512 + (if ents.length % 512 > 0 then 1 else 0) = (metaChunks (fragStream ents)).length ∧
      (metaChunks (fragStream ents)).length = (16 * ents.length + 8191) / 8192) ∧
    (∀ ids : List Nat, 0 < ids.length →
      idBlocks ids.length = (metaChunks (idStream ids)).length ∧
      (metaChunks (idStream ids)).length = (4 * ids.length + 8191) / 8192) ∧
    (∀ k, 512 * k / 512 + (if 512 * k % 512 > 0 then 1 else 0) = k) :=
  ⟨frag_block_count, id_block_count, fun k => by
    have h1 : 512 * k % 512 = 0 := Nat.mul_mod_right 512 k
    have h2 : 512 * k / 512 = k := Nat.mul_div_cancel_left k (by decide)
    rw [h1, h2]; rfl⟩

/-! non-vacuity: a device holding one compressed and one uncompressed metadata block (codec `rle`
    shrinks [5,5,5,5]) -/
private def exBlocks : List Bytes := [[5, 5, 5, 5], [1, 2, 3]]
private def exDev : Dev := fun i => ([9, 9] ++ metaTable rle false exBlocks).getD i 0
example : metaTable rle false exBlocks = [1, 0, 1, 3, 128, 1, 2, 3] := by decide
example : HoldsAt exDev 2 (metaTable rle false exBlocks) := by unfold HoldsAt; decide
example : ∀ x ∈ exBlocks, BlockOK x := by simp [exBlocks, BlockOK, metaBlock]
example : readMetadata rle exDev 2 0 1 5 = some [5, 5, 5, 1, 2, 3] := by decide
example : readMetadata rle exDev 2 (metaOff rle false exBlocks 1) 1 2 = some [2, 3] := by decide
private def exFrags : List FragEnt := [⟨96, 100, true⟩, ⟨196, 4096, false⟩]
private def exDev2 : Dev := fun i =>
  (metaTable mark true (metaChunks (fragStream exFrags)) ++ lookupIndex mark true 0 (metaChunks (fragStream exFrags))).getD i 0
example : readFragTable mark exDev2 34 2 = some exFrags := by decide

-- `ImgShows` is satisfiable: the two-entry tree `wT` (a root holding one empty file) on a device that
-- holds one inode-table block and one directory-table block
private def iI : Bytes := encodeInode wRoot ++ encodeInode wFile
private def iD : Bytes := encodeListing 0 [wT.dent 1]
private def iNext : Bytes := [7, 7, 7, 7]
private def iDev : Dev := fun i => (metaTable mark false [iI, iD, iNext]).getD i 0
private def iO : Opened := { bs := 4096, inodeStart := 0, dirStart := 74, frags := [], ids := [1000] }
private def iA : Nat → Attr := fun _ => ⟨1000, 1000, []⟩
private theorem iShows : ImgShows mark iDev iO wT iA := by
  have two : ∀ c, c < 2 → c = 0 ∨ c = 1 := by omega
  have hok : ∀ x ∈ [iI, iD, iNext], BlockOK x := by
    intro x hx
    simp at hx
    rcases hx with rfl | rfl | rfl <;> exact ⟨by decide, by decide⟩
  have hT : HoldsAt iDev 0 (metaTable mark false [iI, iD, iNext]) := by unfold HoldsAt; decide
  have hTD : HoldsAt iDev 74 (metaTable mark false [iD, iNext]) := by unfold HoldsAt; decide
  have r0 := readsFrom_of_table mark false iDev 0 [iI, iD, iNext] hok hT 0 0 (by decide) (by decide)
  have r1 := readsFrom_of_table mark false iDev 0 [iI, iD, iNext] hok hT 0 40 (by decide) (by decide)
  have rD := readsFrom_of_table mark false iDev 74 [iD, iNext] (fun x hx => hok x (by simp at hx ⊢; exact Or.inr hx)) hTD 0 0 (by decide) (by decide)
  refine ⟨?_, ?_, ?_, ?_, ?_, ?_, ?_⟩
  · intro d hd c hc
    rcases two d hd with rfl | rfl <;> simp [wT] at hc ⊢
    omega
  · intro k hk
    rcases two k hk with rfl | rfl
    · exact ⟨encodeInode wFile ++ (iD ++ iNext), by simpa [iO, wT, iI, metaOff, metaTable] using r0, by decide, by decide⟩
    · refine ⟨iD ++ iNext, ?_, by decide, by decide⟩
      have e : ([iI, iD, iNext].drop 0).flatten.drop 40 = encodeInode (wT.ino 1) ++ (iD ++ iNext) := by decide
      rw [e] at r1
      simpa [iO, wT, metaOff, metaTable] using r1
  · intro k hk
    rcases two k hk with rfl | rfl
    · simp [wT, wRoot, Inode.WF, IBody.WF]
    · simp [wT, iO, wFile, Inode.WF, IBody.WF, noFrag, blockCount]
  · intro k hk
    rcases two k hk with rfl | rfl <;>
      simp [wT, STree.dent, DEnt.WF, wRoot, wFile, basicTyp, IBody.typ, typeSize]
  · intro d hd sb off sz hl
    rcases two d hd with rfl | rfl
    · simp [wT, wRoot, dirAsk] at hl
      obtain ⟨rfl, rfl, rfl⟩ := hl
      refine ⟨iNext, ?_, by decide, by decide⟩
      have e : ([iD, iNext].drop 0).flatten.drop 0 = encodeListing 0 ((wT.kids 0).map wT.dent) ++ iNext := by decide
      rw [e] at rD
      simpa [iO, metaOff, metaTable] using rD
    · simp [wT, wFile, dirAsk] at hl
  · intro k hk
    rcases two k hk with rfl | rfl <;> simp [wT, wRoot, wFile, iO, iA]
  · intro k hk
    rcases two k hk with rfl | rfl <;> simp [wT, wRoot, wFile, iA, fileBytes, readS]
example : imgWalk mark iDev iO 1 [] wRoot = some [⟨[[97]], wFile, 1000, 1000, []⟩] := by
  have := image_walk_returns_tree mark iDev iO wT iA iShows 1 [] 0 (by decide) (by decide) (by
    intro c hc hd
    simp [wT] at hc; subst hc
    simp [STree.isDir, wT, wFile, listingRef] at hd)
  simpa [wT, STree.walkS, STree.sent, STree.isDir, wFile, listingRef, iA] using this

/-! ## the writing side down to the bytes (Model/Sqfs/ImageWr.lean) against the reading side -/

/-- **the writers' chunking, on the bytes**: `writeInodes` / `writeDirectories` (append an item, cut
    8 KiB whenever the buffer EXCEEDS 8 KiB, write what is left) cut exactly the 8 KiB chunks of the
    concatenated stream, provided no item is longer than 8 KiB -/
theorem writer_cuts_stream_chunks (items : List Bytes) (h : ∀ x ∈ items, x.length ≤ metaBlock) :
    cutGT items [] = metaChunks items.flatten := by
  simpa using cutGT_chunks items [] (by simp) h

/-- **references into a written table resolve on the device**: the device shows the encoded 8 KiB
    chunks of a stream `S` at `tbl`, followed by the blocks `X` of the next table.  For every
    position `pos` of `S`, the reference Finalize hands out for it — `translateInodeLocations` of the
    logical block `pos / 8192` over the block offsets `writeInodes` recorded, and `pos % 8192` —
    makes `readMetadata` answer from `S` at `pos` and on into `X`: any codec, compressed or not -/
theorem written_reference_resolves (c : Codec) (nc : Bool) (img : Dev) (tbl : Nat) (S : Bytes) (X : List Bytes)
    (hX : ∀ x ∈ X, BlockOK x) (hT : HoldsAt img tbl (metaTable c nc (metaChunks S ++ X))) (pos : Nat) (hpos : pos < S.length) :
    ReadsFrom c img tbl
      (translate (blockOffsets ((metaChunks S).map fun b => (storeBlock c nc b).payload.length) 0) (pos / metaBlock))
      (pos % metaBlock) (S.drop pos ++ X.flatten) := by
  have hk : pos / metaBlock < (metaChunks S).length := by
    rw [metaChunks_length]
    apply (Nat.div_lt_iff_lt_mul (by decide)).2
    have := Nat.div_add_mod (S.length + metaBlock - 1) metaBlock
    have h2 : (S.length + metaBlock - 1) % metaBlock < metaBlock := Nat.mod_lt _ (by decide)
    rw [Nat.mul_comm] at this
    omega
  rw [translate_metaOff c nc _ _ hk]
  exact readsFrom_stream c nc img tbl S X hX hT pos (Nat.le_of_lt hpos) hk

/-- **file contents read back**: the full blocks `copyFileData` stored stand at the inode's
    `blocksStart`, and the fragment reference leads through the fragment table to a stored block
    that holds the tail (`FragOK`); then `ReadFile` over the inode `createInodes` builds for the
    entry (basic or extended) returns exactly the contents -/
theorem file_contents_read_back (c : Codec) (o : WOpt) (hbs : 0 < o.bs) (img : Dev) (frags : List FragEnt) (e : FEnt) (hk : e.kind = 0)
    (dloc : Nat) (fr : Option (Nat × Nat)) (dir : Nat × Nat × Nat)
    (hD : HoldsAt img dloc (storedBytes (fileStored c o e)))
    (hF : FragOK c o.noCompFrag img frags (tailOf o e) fr) :
    fileBytes c img o.bs frags (mkBody c o e dloc fr dir) = some e.data :=
  fileBytes_written c o hbs img frags e hk dloc fr dir hD hF

/-! non-vacuity -/
example : cutGT [[1, 2], [3]] [] = [[1, 2, 3]] := by decide
private def exOpt : WOpt := { bs := 4, noCompData := false, noCompFrag := false, optBytes := [], exportable := true, modTime := 0,
                              compression := 1, flags := 0 }
private def exEnt : FEnt := { name := [97], kind := 0, mode := 0o644, uid := 0, gid := 0, mtime := 0, links := 1, data := [5, 5, 5, 5, 7, 8], kids := [] }
-- the file's one full block (compressed by `rle` to one byte) at byte 0, its tail inside an uncompressed fragment block at byte 1
private def exDev3 : Dev := fun i => ([1, 9, 7, 8, 9] : Bytes).getD i 0
example : fileStored rle exOpt exEnt = [⟨true, [1]⟩] ∧ tailOf exOpt exEnt = [7, 8] := by decide
example : HoldsAt exDev3 0 (storedBytes (fileStored rle exOpt exEnt)) := by unfold HoldsAt; decide
example : FragOK rle false exDev3 [⟨1, 4, false⟩] (tailOf exOpt exEnt) (some (0, 1)) :=
  Or.inr ⟨by decide, ⟨1, 4, false⟩, [9, 7, 8, 9], by decide, by decide, by decide⟩
example : fileBytes rle exDev3 4 [⟨1, 4, false⟩] (mkBody rle exOpt exEnt 0 (some (0, 1)) (0, 0, 0)) = some [5, 5, 5, 5, 7, 8] := by decide

/-- **writer ∘ reader = id on the bytes of the image.**  `bImage c o fl fuel` is the image the model
    of `Finalize` (Model/Sqfs/ImageWr.lean: data blocks, packed fragment blocks, inodes with their
    references, directory listings, the five metadata tables with their indexes, the superblock —
    byte-identical to what the real Finalize writes in the correspondence) lays out for the file
    list `fl` that `walkTree` returns.  On ANY device that shows these bytes, for every codec
    obeying the two laws, every block size, compressed or uncompressed data / fragments / metadata,
    exportable or not: the model of `Read` + the walk of ReadDir / ReadFile (`readImageS`,
    Model/Sqfs/ImageRd.lean) returns the superblock that was written and exactly the depth-first
    walk of the file list: every path, every decoded inode, the owner ids and, for regular files,
    the contents.  `Limits` are the stated limits: every inode at most 8 KiB, the whole directory
    table inside one metadata block and not empty (listings beyond the first block are the
    recorded finding sqfs-dir-startblock-index), at most 65535 owner ids, kinds file / directory /
    symlink, every directory reachable from the root, and the numeric field bounds (`WF`) of the
    built inodes, entries, fragment entries and superblock. -/
theorem writer_reader_roundtrip (c : Codec) (o : WOpt) (fl : List FEnt) (fuel : Nat) (L : Limits c o fl fuel)
    (hroot : (fl.getD 0 FEnt.nil).kind = 1) (img : Dev) (h : HoldsAt img 0 (bImage c o fl fuel)) (f : Nat)
    (hfit : (bTree c o fl fuel).Fits f 0) :
    readImageS c img f = some (bSB c o fl fuel, expectWalk fl (bInodes c o fl fuel) f [] 0) :=
  image_round_trip c o fl fuel L hroot img h f hfit

/-! non-vacuity: root { a (6 bytes: one block that `rle` compresses + a 2-byte tail), d { b (3 bytes) }, l -> a }, block size 4 -/
private def rtFl : List FEnt :=
  [ { name := [46], kind := 1, mode := 0o755, uid := 0, gid := 0, mtime := 1, links := 3, data := [], kids := [1, 2, 4] },
    { name := [97], kind := 0, mode := 0o644, uid := 1000, gid := 100, mtime := 2, links := 1, data := [5, 5, 5, 5, 7, 8], kids := [] },
    { name := [100], kind := 1, mode := 0o755, uid := 0, gid := 0, mtime := 3, links := 2, data := [], kids := [3] },
    { name := [98], kind := 0, mode := 0o600, uid := 1000, gid := 0, mtime := 4, links := 1, data := [1, 2, 3], kids := [] },
    { name := [108], kind := 2, mode := 0o777, uid := 0, gid := 0, mtime := 5, links := 1, data := [97], kids := [] } ]
private def rtDev : Dev := fun i => (bImage rle exOpt rtFl 2).getD i 0
set_option maxRecDepth 20000 in
private theorem rtLimits : Limits rle exOpt rtFl 2 := limits_of_check rle exOpt rtFl 2 (by decide)
set_option maxRecDepth 20000 in
example : (bImage rle exOpt rtFl 2).length = 501 := by decide
set_option maxRecDepth 20000 in
example : readImageS rle rtDev 2 = some (bSB rle exOpt rtFl 2, expectWalk rtFl (bInodes rle exOpt rtFl 2) 2 [] 0) :=
  writer_reader_roundtrip rle exOpt rtFl 2 rtLimits (by decide) rtDev (by unfold HoldsAt; decide) 2
    (fits_of_check rle exOpt rtFl 2 rtLimits 2 0 (by decide) (by decide))
example : (expectWalk rtFl (bInodes rle exOpt rtFl 2) 2 [] 0).map (fun e => (e.path, e.uid, e.data)) =
    [([[97]], 1000, [5, 5, 5, 5, 7, 8]), ([[100]], 0, []), ([[100], [98]], 1000, [1, 2, 3]), ([[108]], 0, [])] := by decide

/-- **the two writer models agree**: the region mirror of Finalize (`finalize`, the subject of
    sizes_describe_bytes and of C03's sqfs_finalize_in_range), run on the sizes of the pieces the
    byte-level writer model produces, computes exactly the table starts and bytes_used that the
    byte-level model puts into the superblock — for every file list, codec and option set — and
    bytes_used is the length of the image -/
theorem writer_image_is_region_image (c : Codec) (o : WOpt) (fl : List FEnt) (fuel : Nat) :
    (finalize (bPieces c o fl fuel)).inodeStart = (bSB c o fl fuel).inodeStart ∧
    (finalize (bPieces c o fl fuel)).dirStart = (bSB c o fl fuel).dirStart ∧
    (finalize (bPieces c o fl fuel)).fragStart = (bSB c o fl fuel).fragStart ∧
    (finalize (bPieces c o fl fuel)).exportStart = (bSB c o fl fuel).exportStart ∧
    (finalize (bPieces c o fl fuel)).idStart = (bSB c o fl fuel).idStart ∧
    (finalize (bPieces c o fl fuel)).bytesUsed = (bSB c o fl fuel).bytesUsed ∧
    (bSB c o fl fuel).bytesUsed = (bImage c o fl fuel).length :=
  image_regions c o fl fuel

end Diskfs.Sqfs.C07
