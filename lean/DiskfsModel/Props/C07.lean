/-
  C07 — A squashfs image contains exactly the tree it was built from.
  Property theorems only (helpers in Proofs/SqfsMap, SqfsMeta, SqfsCodec).  Proved for all inputs
  about the logic cores mirrored in Model/Sqfs:
    * data mapping: for the modelled builder core (full blocks, each stored compressed only if
      smaller; the tail inside a shared fragment block) every read call and every sequence of read
      calls returns exactly what a plain byte reader over the file contents returns — for every
      block size, every `Codec` satisfying its two laws, every choice of the NoCompress flags and
      whatever else shares the fragment block; hence the view does not depend on the compressor,
      on the flags or on the block size; sparse blocks (stored size 0) read as zeros;
    * fragment packing: the (fragment block, offset) handed to each file points at its tail in the
      packed fragment blocks;
    * metadata references: the (block, offset) pair computed for an inode resolves — through the
      8 KiB chunking, continuing into following blocks — to that inode's bytes, for any sequence of
      inode sizes;
    * the superblock codec round-trips.
  The compressors themselves are outside Lean (parameter `Codec`); the end-to-end clause is
  evaluated on the real code by the engine (see the registration note).
-/
import DiskfsModel.Proofs.SqfsMap
import DiskfsModel.Proofs.SqfsFrag
import DiskfsModel.Proofs.SqfsMeta
import DiskfsModel.Proofs.SqfsCodec
import DiskfsModel.Generated.Sqfs
namespace Diskfs.Sqfs.C07

/-- one Read call on the built file = the slice of the contents, the new offset and the EOF flag of
    a plain byte reader -/
theorem readS_spec (c : Codec) (noCompData noCompFrag : Bool) (bs : Nat) (pre post content : Bytes)
    (hbs : 0 < bs) (off n : Nat) :
    readS c (buildFile c noCompData noCompFrag bs pre post content) off n =
      ((content.drop off).take n, off + min n (content.length - off),
        decide (content.length ≤ off + min n (content.length - off))) :=
  readS_build c noCompData noCompFrag bs pre post content hbs off n

/-- any call sequence, from any starting offset -/
theorem readS_spec_seq (c : Codec) (noCompData noCompFrag : Bool) (bs : Nat) (pre post content : Bytes)
    (hbs : 0 < bs) (off : Nat) (ns : List Nat) :
    readSeq c (buildFile c noCompData noCompFrag bs pre post content) off ns = specSeq content off ns :=
  readSeq_build c noCompData noCompFrag bs pre post content hbs off ns

/-- the view is independent of the compressor, of the NoCompress flags, of the block size and of
    what else is packed into the fragment block -/
theorem view_codec_independent (c₁ c₂ : Codec) (d₁ f₁ d₂ f₂ : Bool) (bs₁ bs₂ : Nat) (pre₁ post₁ pre₂ post₂ content : Bytes)
    (h₁ : 0 < bs₁) (h₂ : 0 < bs₂) (off : Nat) (ns : List Nat) :
    readSeq c₁ (buildFile c₁ d₁ f₁ bs₁ pre₁ post₁ content) off ns =
    readSeq c₂ (buildFile c₂ d₂ f₂ bs₂ pre₂ post₂ content) off ns := by
  rw [readSeq_build _ _ _ _ _ _ _ h₁, readSeq_build _ _ _ _ _ _ _ h₂]

/-- a data block round-trips through store/load whether or not compression paid off -/
theorem block_roundtrip (c : Codec) (noComp : Bool) (bs : Nat) (blk : Bytes) (h : blk.length = bs) (hbs : 0 < bs) :
    loadBlock c bs (storeBlock c noComp blk) = blk := load_store c noComp bs blk h hbs

/-- a stored size of zero is a sparse block: it reads as `bs` zero bytes -/
theorem sparse_block_reads_zero (c : Codec) (bs : Nat) (flag : Bool) :
    loadBlock c bs ⟨flag, []⟩ = zeros bs := load_sparse c bs flag

/-- fragment packing (`writeFragmentBlocks`): the (fragment block, offset) reference handed to a
    file points at that file's tail inside the packed fragment blocks — for any list of tails
    shorter than a block; files without a tail get no reference -/
theorem frag_ref_resolves (bs : Nat) (tails : List Bytes) (hlt : ∀ t ∈ tails, t.length < bs) (i : Nat) (hi : i < tails.length) :
    RefOK (packFrags bs tails [] []) (tails.getD i []) ((fragRefs bs (tails.map List.length) 0 0).getD i none) :=
  fragRefs_resolve bs tails hlt [] [] i hi

/-- the reference computed for inode `i` resolves to that inode's bytes: for any inode byte
    strings, reading from block `r.1` at offset `r.2` of the chunked stream (and on into the
    following blocks) starts with exactly the bytes of inode `i` -/
theorem meta_ref_resolves (inodes : List Bytes) (i : Nat) (hi : i < inodes.length) :
    (resolve (chunksOf metaBlock (inodes.flatten.length) inodes.flatten)
        ((inodeRefs (inodes.map List.length) 0).getD i (0, 0)).1
        ((inodeRefs (inodes.map List.length) 0).getD i (0, 0)).2).take (inodes.getD i []).length
      = inodes.getD i [] := by
  unfold resolve
  rw [chunksOf_drop_flatten metaBlock (by decide) _ _ _ (Nat.le_refl _), List.drop_drop]
  have := inodeRefs_point inodes [] i hi
  simpa using this

/-- superblock codec round-trip -/
theorem superblock_roundtrip (s : Superblock) (h : s.WF) : decodeSB (encodeSB s) = some s := decode_encodeSB s h

/-- pinned facts regenerated from squashfs.go / superblock.go / inode.go / file.go -/
theorem facts_agree_constants :
    Generated.Sqfs.metadataBlockSize = metaBlock ∧ Generated.Sqfs.superblockSize = 96 ∧
    Generated.Sqfs.inodeHeaderSize = 16 ∧ Generated.Sqfs.minBlocksize = 4096 ∧ Generated.Sqfs.maxBlocksize = 1048576 := by decide

/-! non-vacuity -/
/-- a toy codec meeting the laws: prefix a marker byte (never shrinks, so the "keep only if smaller" branch is also hit by `idc`) -/
private def mark : Codec :=
  { compress := fun x => 7 :: x, decompress := fun x => x.drop 1, roundtrip := fun _ => rfl,
    nonempty := fun _ _ => by simp }
/-- a codec that shrinks one particular block, so that compressed blocks occur -/
private def rle : Codec :=
  { compress := fun x => if x = [5, 5, 5, 5] then [1] else 0 :: x
    decompress := fun y => if y = [1] then [5, 5, 5, 5] else y.drop 1
    roundtrip := by
      intro x
      by_cases h : x = [5, 5, 5, 5]
      · simp [h]
      · simp [h]
    nonempty := by
      intro x _
      by_cases h : x = [5, 5, 5, 5] <;> simp [h] }
example : (buildFile rle false false 4 [9, 9] [8] [5, 5, 5, 5, 1, 2, 3, 4, 6, 7]).blocks =
    [⟨true, [1]⟩, ⟨false, [1, 2, 3, 4]⟩] := by decide
example : readSeq rle (buildFile rle false false 4 [9, 9] [8] [5, 5, 5, 5, 1, 2, 3, 4, 6, 7]) 2 [3, 100, 1] =
    [[5, 5, 1], [2, 3, 4, 6, 7], []] := by decide
example : fragRefs 8 [3, 0, 4, 2, 7] 0 0 = [some (0, 0), none, some (0, 3), some (1, 0), some (2, 0)] := by decide
example : packFrags 8 [[1, 1, 1], [], [2, 2, 2, 2], [3, 3], [4, 4, 4, 4, 4, 4, 4]] [] [] =
    [[1, 1, 1, 2, 2, 2, 2], [3, 3], [4, 4, 4, 4, 4, 4, 4]] := by decide
example : (inodeRefs [5000, 5000, 100] 0) = [(0, 0), (0, 5000), (1, 1808)] := by decide

end Diskfs.Sqfs.C07
