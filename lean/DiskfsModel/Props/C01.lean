/-
  C01 — FAT12/16/32 behave like a plain tree of named byte strings.
  Property theorems only (layers A–D of DESIGN §5 C01 and the file-level refinement that joins
  B and C); helper lemmas live in Proofs/Fat*.lean.  What "the property" means is
  Spec/Tree.lean (`Spec.splice`, `Spec.step`).

  Every theorem quantifies over all tables, chains, offsets, sizes, payloads and prior device
  contents.  Theorems about the repaired behaviour carry the switches in their statement
  (`readH true`, `writeH true`, `Cfg.fixed`); the as-found behaviour is refuted by `cex_*`.
  Layer E is proved for ONE directory (Model/Fat/FlatFs.lean: table + device + the files of a
  directory, operations create / write-at-offset / truncating open / remove / rename with
  replacement): `fat_refines_tree`, `fat_refused_unchanged`, `fat_history`,
  and for a TREE of directories (Model/Fat/TreeFs.lean: table + device + a tree of nodes each
  owning a cluster chain; mkdir / create / write-at-offset / truncating open / remove / rename
  addressed by directory path, the parent directory's chain grown or shrunk by every call, refusals
  for lack of space or root slots rolled back): `fat_tree_refines`, `fat_tree_refused_unchanged`,
  `fat_tree_spec_error`, `fat_tree_history`, `fat_tree_mkdir_all`, `fat_tree_space_accounting`.
  What a directory's bytes ARE (Model/Fat/TreeImg.lean: `image` = every directory's chain holds the
  serialisation of its child list) and re-opening the volume from table + bytes alone:
  `fat_image_holds_directories`, `fat_reopen_image`, `fat_tree_reopen_history`.
  Lack of space characterised for the tree (`fat_tree_create_enospc_iff`, `fat_tree_mkdir_enospc_iff`:
  refused iff free clusters < 1 + growth of the parent directory) and `fat_tree_space_reusable`.
  NOT proved: that the WriteAt calls of the model's operations produce `image` (the images written
  are parameters of the operations; tied by the correspondence), open handles that live across calls,
  8.3 aliasing of names, rename across directories (the code refuses it); those clauses are carried
  by the engine's oracle on the real code.
-/
import DiskfsModel.Proofs.FatChain
import DiskfsModel.Proofs.FatTable
import DiskfsModel.Proofs.FatFileIO
import DiskfsModel.Proofs.FatDir
import DiskfsModel.Proofs.FatFlatFs
import DiskfsModel.Proofs.FatTreeStep
import DiskfsModel.Proofs.FatTreeFree
import DiskfsModel.Proofs.FatTreeFit
import DiskfsModel.Proofs.FatTreeImgStep
import DiskfsModel.Proofs.FatTreeSpace
import DiskfsModel.Proofs.FatEmptyWrite
import DiskfsModel.Model.Fat.Fs
import DiskfsModel.Generated.Fat
namespace Diskfs.Fat.C01

/-! ### A — codecs -/

/-- 12-bit packing: what is set is what is read -/
theorem fat12_get_set (b : Bytes) (i v : Nat) (h : i * 3 / 2 + 1 < b.length) (hv : v < 4096) :
    fat12ReadEntry (fat12WriteEntry b i v) i = v := Fat.fat12_get_set b i v h hv

/-- 12-bit packing: setting entry `i` leaves every other entry alone (the shared middle byte) -/
theorem fat12_set_frame (b : Bytes) (i j v : Nat) (hij : i ≠ j) (hv : v < 4096) :
    fat12ReadEntry (fat12WriteEntry b i v) j = fat12ReadEntry b j := Fat.fat12_set_frame b i j v hij hv

/-- `Bytes()` then `FromBytes()` gives back every in-range entry, for the three widths -/
theorem table_bytes_roundtrip12 (fatID size max : Nat) (m old : CMap) (i : Nat) (hs : 3 ≤ size)
    (hm : ∀ j, m j < 4096) (h2 : 2 ≤ i) (hi : i ≤ max) (ho : i * 3 / 2 + 1 < size) :
    fromBytes12 (bytes12 fatID size max m) max old i = m i := Fat.table12_roundtrip fatID size max m old i hs hm h2 hi ho

theorem table_bytes_roundtrip16 (fatID size max : Nat) (m : CMap) (i : Nat)
    (h2 : 2 ≤ i) (hi : i < max) (hmax : max ≤ size / 2) (hv : m i < 65536) :
    fromBytes16 (bytes16 fatID size max m) max (fun _ => 0) i = m i := Fat.table16_roundtrip fatID size max m i h2 hi hmax hv

theorem table_bytes_roundtrip32 (fatID eoc size max : Nat) (m : CMap) (i : Nat)
    (h2 : 2 ≤ i) (hi : i < max) (hmax : max ≤ size / 4) (hv : m i < 4294967296) :
    fromBytes32 (bytes32 fatID eoc size max m) max (fun _ => 0) i = m i := Fat.table32_roundtrip fatID eoc size max m i h2 hi hmax hv

/-- 8.3 directory entry: names, attribute bits, times, split cluster number and size survive
    `toBytes` → `parseDirEntries` -/
theorem dir_entry_roundtrip (e : DirEntry) (lfn : Name) (h : e.WF) :
    parseDos (dosBytes e) lfn = { e with long := lfn } := Fat.parseDos_dosBytes e lfn h

/-- a whole directory: every well-formed entry list (8.3 entries and long-name slot runs, UCS-2,
    checksum, ordering) is read back from its serialisation, padding included -/
theorem dir_parse_ser (bpc : Nat) (es : List DirEntry) (h : ∀ e ∈ es, e.WF) (hb : 0 < bpc) :
    parseDir (serDir bpc es) = es := Fat.dir_parse_ser bpc es h hb

/-- FAT date word: exact on 1980..2107 -/
theorem date_roundtrip (y mo d : Nat) (h1 : 1980 ≤ y) (h2 : y ≤ 2107) (h3 : mo < 16) (h4 : d < 32) :
    unpackDate (packDate y mo d) = (y, mo, d) := Fat.date_roundtrip y mo d h1 h2 h3 h4

/-! ### B — cluster map -/

/-- the fuelled mirror of `getClusterList` returns exactly the chain the invariant speaks of -/
theorem walk_complete (k : Kind) (lim max fuel : Nat) (m : CMap) (l : List Nat) (hlim : LimOk k lim)
    (hmax : lim ≤ max) (h : ChainOk k lim m l) (hf : l.length ≤ fuel) :
    walk k max m fuel (l.headD 0) = .ok l := Fat.walk_complete hlim hmax h hf

/-- a request for a new chain is refused exactly when fewer clusters are free than it needs -/
theorem grow_fails_iff (k : Kind) (lim max bpc fuel size : Nat) (pick) (m : CMap) (owners)
    (h : Inv k lim m owners) (hp : PickSpec lim pick) (hlim : LimOk k lim) (hmax : lim ≤ max)
    (hb : 0 < bpc) (hs : 0 < size) :
    (allocateSpace k max bpc pick fuel m size 0).res = none ↔
      freeCount lim m < size / bpc + (if size % bpc > 0 then 1 else 0) :=
  Fat.alloc_fails_iff h hp hlim hmax hb hs

/-- free-space conservation: releasing a chain gives back every one of its clusters -/
theorem remove_returns_all (k : Kind) (lim max fuel : Nat) (m : CMap) (l : List Nat) (others)
    (h : Inv k lim m (l :: others)) (hlim : LimOk k lim) (hmax : lim ≤ max) (hf : l.length ≤ fuel) :
    freeCount lim (freeChain k max fuel m (l.headD 0)).1 = freeCount lim m + l.length :=
  Fat.free_after_freeChain h hlim hmax hf

/-- truncation gives back exactly the clusters beyond the kept prefix -/
theorem shrink_conservation (k : Kind) (lim max bpc fuel size : Nat) (pick) (m : CMap) (l : List Nat) (others)
    (h : Inv k lim m (l :: others)) (hlim : LimOk k lim) (hmax : lim ≤ max) (hb : 0 < bpc)
    (hf : l.length ≤ fuel) (hc : size / bpc + (if size % bpc > 0 then 1 else 0) < l.length) :
    freeCount lim (allocateSpace k max bpc pick fuel m size (l.headD 0)).m
      = freeCount lim m + (l.length - Nat.max (size / bpc + (if size % bpc > 0 then 1 else 0)) 1) :=
  Fat.free_after_shrink (pick := pick) h hlim hmax hb hf hc

/-- "space released by remove can be used again without limit": after any number of
    create-then-remove cycles the invariant holds, the free count is what it was, and the next
    allocation of the same size still succeeds (induction on the number of cycles) -/
theorem refill_unbounded (k : Kind) (lim max bpc fuel size : Nat) (pick) (owners)
    (hp : PickSpec lim pick) (hlim : LimOk k lim) (hmax : lim ≤ max) (hb : 0 < bpc) (hs : 0 < size)
    (hfuel : size / bpc + (if size % bpc > 0 then 1 else 0) ≤ fuel) (n : Nat) (m : CMap)
    (h : Inv k lim m owners) (hfree : size / bpc + (if size % bpc > 0 then 1 else 0) ≤ freeCount lim m) :
    Inv k lim (cycles k max bpc pick fuel size n m) owners ∧
    freeCount lim (cycles k max bpc pick fuel size n m) = freeCount lim m ∧
    (allocateSpace k max bpc pick fuel (cycles k max bpc pick fuel size n m) size 0).res ≠ none :=
  Fat.refill_unbounded hp hlim hmax hb hs hfuel n m h hfree

/-! ### C — file I/O through a chain -/

/-- the repaired `File.Read` is the io.Reader contract on the file's bytes -/
theorem readH_spec (d : Dev) (g : IOGeom) (chain : List Nat) (fileSize off n : Nat)
    (hb : 0 < g.bpc) (hc : fileSize ≤ chain.length * g.bpc) (ho : off < fileSize) :
    readH true d g chain fileSize off n =
      some (((fileContent d g chain fileSize).drop off).take n, off + min n (fileSize - off),
        decide (off + min n (fileSize - off) ≥ fileSize)) := Fat.readH_spec d g chain fileSize off n hb hc ho

/-- outside its trigger the as-found read equals the repaired one (finding fat-read-past-eof) -/
theorem readH_agree (d : Dev) (g : IOGeom) (chain : List Nat) (fileSize off n : Nat)
    (h : readClampTrigger g fileSize off n = false) :
    readH false d g chain fileSize off n = readH true d g chain fileSize off n :=
  Fat.readH_agree d g chain fileSize off n h

/-- a write through a chain is a byte-string overwrite of the chain's bytes at `off` -/
theorem writeCore_spec (d : Dev) (g : IOGeom) (chain : List Nat) (off : Nat) (p : Bytes) (ws : List Wr)
    (hb : 0 < g.bpc) (hnd : chain.Nodup) (h2 : ∀ c ∈ chain, 2 ≤ c)
    (hlen : off + p.length ≤ chain.length * g.bpc) (h : writeCore g chain off p = some ws) :
    chainBytes (applyWrs d ws) g chain = put (chainBytes d g chain) off p :=
  Fat.writeCore_spec d g chain off p ws hb hnd h2 hlen h

/-- every byte outside the written file's clusters is left alone -/
theorem writeCore_frame (d : Dev) (g : IOGeom) (chain : List Nat) (off : Nat) (p : Bytes) (ws : List Wr) (i : Nat)
    (hb : 0 < g.bpc) (h : writeCore g chain off p = some ws)
    (hi : ∀ c ∈ chain, i < clusterOff g c ∨ clusterOff g c + g.bpc ≤ i) : applyWrs d ws i = d i :=
  Fat.writeCore_frame d g chain off p ws i hb h hi

/-! ### B+C joined — one file write refines `Spec.splice`, other files are untouched, the table stays sound -/

theorem cnt_covers (size bpc : Nat) (hb : 0 < bpc) :
    size ≤ (size / bpc + (if size % bpc > 0 then 1 else 0)) * bpc := by
  have := Nat.div_add_mod size bpc
  have hm := Nat.mod_lt size hb
  split
  · rw [Nat.add_mul, Nat.mul_comm]; omega
  · have : size % bpc = 0 := by omega
    rw [Nat.add_zero, Nat.mul_comm]; omega

theorem writeH_in_chain (g : IOGeom) (chain : List Nat) (oldSize off : Nat) (p : Bytes) (ws : List Wr)
    (hb : 0 < g.bpc) (h : writeH true g chain oldSize off p = some ws) :
    ∀ w ∈ ws, w.data.length = 0 ∨ ∃ c ∈ chain, clusterOff g c ≤ w.off ∧ w.off + w.data.length ≤ clusterOff g c + g.bpc := by
  unfold writeH at h
  by_cases hgt : off > oldSize
  · rw [if_pos ⟨rfl, hgt⟩] at h
    cases ha : writeCore g chain oldSize (zeros (off - oldSize)) with
    | none => simp [ha] at h
    | some a =>
      cases hb' : writeCore g chain off p with
      | none => simp [ha, hb'] at h
      | some b =>
        simp only [ha, hb', Option.some.injEq] at h
        subst h
        intro w hw
        rcases List.mem_append.1 hw with h1 | h1
        · exact writeCore_in_chain g chain oldSize _ a hb ha w h1
        · exact writeCore_in_chain g chain off p b hb hb' w h1
  · rw [if_neg (by intro h'; exact hgt h'.2)] at h
    exact writeCore_in_chain g chain off p ws hb h

/-- **file_write_refines** — `File.Write` of the repaired filesystem on one file:
    `allocateSpace` for the new size followed by the WriteAt calls through the returned chain.
    For every table satisfying the invariant, every allocation policy meeting `PickSpec`, every
    prior device content, offset (inside, at or past EOF) and payload:
      * the table stays sound with the grown chain as the file's owner,
      * the file's new contents are `Spec.splice old off p` (a gap reads as zeros),
      * every other owner's bytes are exactly what they were. -/
theorem file_write_refines (d : Dev) (g : IOGeom) (k : Kind) (lim max fuel : Nat) (pick) (m : CMap)
    (l l' : List Nat) (others : List (List Nat)) (oldSize off : Nat) (p : Bytes) (ws : List Wr)
    (h : Inv k lim m (l :: others)) (hp : PickSpec lim pick) (hlim : LimOk k lim) (hmax : lim ≤ max)
    (hb : 0 < g.bpc) (hf : l.length ≤ fuel) (hpl : 0 < p.length)
    (hcov : oldSize ≤ l.length * g.bpc)
    (hgrow : l.length ≤ clusterCount g.bpc (Nat.max oldSize (off + p.length)))
    (hres : (allocateSpace k max g.bpc pick fuel m (Nat.max oldSize (off + p.length)) (l.headD 0)).res = some l')
    (hws : writeH true g l' oldSize off p = some ws) :
    Inv k lim (allocateSpace k max g.bpc pick fuel m (Nat.max oldSize (off + p.length)) (l.headD 0)).m (l' :: others) ∧
    fileContent (applyWrs d ws) g l' (Nat.max oldSize (off + p.length)) = Spec.splice (fileContent d g l oldSize) off p ∧
    ∀ o ∈ others, chainBytes (applyWrs d ws) g o = chainBytes d g o := by
  obtain ⟨hinv, hlen, hpre⟩ := alloc_grow_inv h hp hlim hmax hb hf hgrow hres
  have hnd' : (l' ++ others.flatten).Nodup := by have := hinv.nodup; rwa [List.flatten_cons] at this
  obtain ⟨hl'nd, _, hdisj⟩ := List.nodup_append.1 hnd'
  have h2' : ∀ c ∈ l', 2 ≤ c := fun c hc => (chainOk_mem (hinv.chains l' (List.mem_cons_self ..)) c hc).1
  have hnew : Nat.max oldSize (off + p.length) ≤ l'.length * g.bpc := by
    rw [hlen]; exact cnt_covers _ _ hb
  have hold' : oldSize ≤ l'.length * g.bpc := Nat.le_trans (Nat.le_max_left ..) hnew
  have hlen' : off + p.length ≤ l'.length * g.bpc := Nat.le_trans (Nat.le_max_right ..) hnew
  refine ⟨hinv, ?_, ?_⟩
  · rw [writeH_spec_fixed d g l' oldSize off p ws hb hl'nd h2' hold' hlen' hpl hws]
    congr 1
    -- the old contents are the same bytes: `l` is a prefix of `l'`
    have hsplit : l' = l ++ l'.drop l.length := by
      conv => lhs; rw [← List.take_append_drop l.length l', hpre]
    unfold fileContent
    rw [hsplit]
    unfold chainBytes
    rw [List.flatMap_append, List.take_append_of_le_length]
    have := chainBytes_length d g l
    unfold chainBytes at this
    rw [this]; exact hcov
  · intro o ho
    apply chainBytes_other d g l' o ws (writeH_in_chain g l' oldSize off p ws hb hws) h2'
    · intro c hc
      exact (chainOk_mem (hinv.chains o (List.mem_cons_of_mem _ ho)) c hc).1
    · intro c hc hcl
      exact hdisj c hcl c (List.mem_flatten.2 ⟨o, ho, hc⟩) rfl

/-! ### E — the property itself, for one directory -/

/-- **fat_refines_tree**: every accepted call on the (repaired) one-directory filesystem changes
    the tree read back from the volume exactly as the specification `Spec.stepDir` says — the
    written file is `Spec.splice`d, every other file is byte for byte what it was, names are as
    specified — and the invariant is kept. For every table, device content, file set, name
    comparison that is an equivalence, offset inside / at / past EOF and payload. -/
theorem fat_refines_tree (eqn) (g : FGeom) (fuel : Nat) (s : FState) (op : FOp)
    (he : EqnOk eqn) (hb : 0 < g.io.bpc) (hlim : LimOk g.kind g.lim) (hmax : g.lim ≤ g.max)
    (hfuel : g.lim - 2 ≤ fuel) (h : FInv eqn g s) (hacc : (fstep eqn g fuel s op).2 = true) :
    FInv eqn g (fstep eqn g fuel s op).1 ∧
    fabs g (fstep eqn g fuel s op).1 = (Spec.stepDir eqn op.toSpec (fabs g s)).1 ∧
    (Spec.stepDir eqn op.toSpec (fabs g s)).2 = .ok :=
  ⟨fstep_inv he hb hlim hmax hfuel s op h, fstep_refines he hb hlim hmax hfuel s op h hacc⟩

/-- **fat_refused_unchanged**: a call that returns an error — no such file, or no space — leaves
    every file, every name and the table exactly as they were. -/
theorem fat_refused_unchanged (eqn) (g : FGeom) (fuel : Nat) (s : FState) (op : FOp)
    (hrej : (fstep eqn g fuel s op).2 = false) :
    fabs g (fstep eqn g fuel s op).1 = fabs g s ∧ (fstep eqn g fuel s op).1.m = s.m :=
  fstep_refused s op hrej

/-- **fat_history**: by induction over the call sequence, after every history the invariant holds
    and the tree read back equals the specification replayed over the accepted calls. -/
theorem fat_history (eqn) (g : FGeom) (fuel : Nat) (ops : List FOp) (s : FState)
    (he : EqnOk eqn) (hb : 0 < g.io.bpc) (hlim : LimOk g.kind g.lim) (hmax : g.lim ≤ g.max)
    (hfuel : g.lim - 2 ≤ fuel) (h : FInv eqn g s) :
    FInv eqn g (frun eqn g fuel s ops) ∧
    fabs g (frun eqn g fuel s ops) = specRun eqn g fuel s (fabs g s) ops :=
  frun_refines he hb hlim hmax hfuel ops s h

/-- creating a new file is refused exactly when no cluster is free -/
theorem create_refused_iff_full (eqn) (g : FGeom) (fuel : Nat) (s : FState) (n : Spec.Name)
    (hb : 0 < g.io.bpc) (hlim : LimOk g.kind g.lim) (hmax : g.lim ≤ g.max)
    (h : FInv eqn g s) (hn : ffind eqn s.files n = none) :
    (fstep eqn g fuel s (.create n)).2 = false ↔ freeCount g.lim s.m < 1 :=
  create_refused_iff hb hlim hmax s n h hn

/-! ### E — the property itself, for a tree of directories -/

/-- **fat_tree_refines**: a FAT volume as table + device + a TREE of nodes, every file and every
    directory owning a cluster chain (the root: a chain on FAT32, the fixed region on FAT12/16).
    Every accepted call — `Mkdir` of one component, `OpenFile(O_CREATE)`, `Write` at any offset
    through a fresh handle, truncating open, `Remove` of a file or empty directory, `Rename` inside
    a directory with or without replacement — addressed by ANY directory path, changes the tree read
    back from the volume (`tabs`: names, nesting, every file's bytes through its chain) exactly as
    the specification `Spec.step` says, the specification accepts it too, and the invariant
    (`TInv`: cluster map sound with exactly the tree's chains as owners, files have the clusters
    their sizes need, names in a directory pairwise different) is kept — including the growth or
    shrinking of the parent directory's own chain by `writeDirectoryEntries` at every level.
    For every table, device content, tree, path depth, slot-count function, name comparison that
    is an equivalence, offset inside / at / past EOF, payload and directory image. -/
theorem fat_tree_refines (eqn) (g : TGeom) (fuel : Nat) (s : DirSt) (op : TOp)
    (he : EqnOk eqn) (hg : TGeomOk g) (hfuel : g.f.lim - 2 ≤ fuel) (h : TInv eqn g s)
    (hacc : (tstep eqn g fuel s op).2 = .ok) :
    TInv eqn g (tstep eqn g fuel s op).1 ∧
    tabs g (tstep eqn g fuel s op).1 = (Spec.step eqn (tabs g s) op.toSpec).1 ∧
    (Spec.step eqn (tabs g s) op.toSpec).2 = .ok :=
  ⟨tstep_inv he hg hfuel s op h, tstep_refines he hg hfuel s op h hacc⟩

/-- **fat_tree_refused_unchanged**: a call that is refused — a missing or non-directory path
    component, no such file, a non-empty directory, no free cluster for the entry or for the growth
    of the parent directory (at any depth, also inside a multi-cluster subdirectory), no free slot
    in the fixed root directory, a rename onto the same name — returns the state it was given:
    same table, same device, same root chain, same tree (the cluster taken for the new entry has
    been given back). -/
theorem fat_tree_refused_unchanged (eqn) (g : TGeom) (fuel : Nat) (s : DirSt) (op : TOp)
    (he : EqnOk eqn) (hg : TGeomOk g) (hfuel : g.f.lim - 2 ≤ fuel) (h : TInv eqn g s)
    (hrej : (tstep eqn g fuel s op).2 ≠ .ok) :
    (tstep eqn g fuel s op).1 = s ∧ tabs g (tstep eqn g fuel s op).1 = tabs g s := by
  have := tstep_refused he hg hfuel s op h hrej
  exact ⟨this, by rw [this]⟩

/-- **fat_tree_spec_error**: whenever the model refuses with one of the specification's errors
    (not found, not a directory, is a directory, not empty) the specification refuses the same call
    on the tree read back from the volume with the same error. -/
theorem fat_tree_spec_error (eqn) (g : TGeom) (fuel : Nat) (s : DirSt) (op : TOp)
    (he : EqnOk eqn) (hg : TGeomOk g) (hfuel : g.f.lim - 2 ≤ fuel) (h : TInv eqn g s)
    (e : Spec.Res) (herr : (tstep eqn g fuel s op).2 = .spec e) :
    (Spec.step eqn (tabs g s) op.toSpec).2 = e :=
  tstep_spec_error he hg hfuel s op h e herr

/-- **fat_tree_history**: by induction over the call sequence, after every history of
    path-addressed calls the invariant holds and the tree read back equals the specification
    replayed over the accepted calls (`tspecRun`); when no call was refused that is `Spec.run`. -/
theorem fat_tree_history (eqn) (g : TGeom) (fuel : Nat) (ops : List TOp) (s : DirSt)
    (he : EqnOk eqn) (hg : TGeomOk g) (hfuel : g.f.lim - 2 ≤ fuel) (h : TInv eqn g s) :
    TInv eqn g (trun eqn g fuel s ops) ∧
    tabs g (trun eqn g fuel s ops) = tspecRun eqn g fuel s (tabs g s) ops ∧
    ((∀ (i : Nat) (hi : i < ops.length),
        (tstep eqn g fuel (trun eqn g fuel s (ops.take i)) ops[i]).2 = .ok) →
      tabs g (trun eqn g fuel s ops) = Spec.run eqn (tabs g s) (ops.map TOp.toSpec)) := by
  obtain ⟨h1, h2⟩ := trun_refines he hg hfuel ops s h
  exact ⟨h1, h2, fun hall => by rw [h2, tspecRun_all_accepted eqn g fuel ops s _ hall]⟩

/-- **fat_tree_mkdir_all**: `Mkdir(p)` creates the missing components one by one (mkdir -p); the
    invariant holds wherever it stops, and when every component was accepted the tree is the
    specification's after the same sequence of single-component `mkdir`s. -/
theorem fat_tree_mkdir_all (eqn) (g : TGeom) (fuel : Nat) (img img2 : Bytes) (path pre : List Spec.Name)
    (s : DirSt) (he : EqnOk eqn) (hg : TGeomOk g) (hfuel : g.f.lim - 2 ≤ fuel) (h : TInv eqn g s) :
    TInv eqn g (tmkdirAll eqn g fuel img img2 s pre path).1 ∧
    ((tmkdirAll eqn g fuel img img2 s pre path).2 = .ok →
      tabs g (tmkdirAll eqn g fuel img img2 s pre path).1 = (specMkdirAll eqn (tabs g s) pre path).1 ∧
      (specMkdirAll eqn (tabs g s) pre path).2 = .ok) :=
  tmkdirAll_refines he hg hfuel img img2 path pre s h

/-- **fat_tree_space_accounting**: "space released by remove can be used again without limit", for
    the tree: after EVERY history of path-addressed calls the number of free clusters is exactly the
    data area minus the clusters the tree's files and directories own — nothing is ever leaked,
    whatever was removed, truncated, replaced by a rename, shrunk or refused on the way. -/
theorem fat_tree_space_accounting (eqn) (g : TGeom) (fuel : Nat) (ops : List TOp) (s : DirSt)
    (he : EqnOk eqn) (hg : TGeomOk g) (hfuel : g.f.lim - 2 ≤ fuel) (h : TInv eqn g s) :
    freeCount g.f.lim (trun eqn g fuel s ops).m + (ownedClusters (trun eqn g fuel s ops)).length
      = g.f.lim - 2 :=
  trun_free_count he hg hfuel ops s h

/-- **fat_write_recorded**: in the tree model a Write whose parent-directory rewrite failed would
    be rolled back, which the code does not do (chain grown, data written, size not recorded). In a
    directory that fits its storage (`LevelFit`: kept by every call, Props/C08 `tree_dirs_fit`) that
    case cannot arise: once the clusters are allocated and the data written, the call is accepted. -/
theorem fat_write_recorded (eqn) (g : TGeom) (fuel base : Nat) (s : DirSt) (n fn : Spec.Name) (fc : List Nat)
    (size off : Nat) (data img : Bytes) (l' : List Nat) (ws : List Wr)
    (he : EqnOk eqn) (hwf : kidsWF eqn g s.kids) (hfit : LevelFit g base s.chain s.kids)
    (hf : kfind eqn s.kids n = some (.file fn fc size)) (hd : data.length ≠ 0)
    (hres : (falloc g.f fuel s.m (Nat.max size (off + data.length)) (fc.headD 0)).res = some l')
    (hws : writeH true g.f.io l' size off data = some ws) :
    (dWrite eqn g fuel n off data img base s).2 = .ok :=
  dWrite_recorded he hwf hfit hf hd hres hws

/-- non-vacuity: a FAT12 volume with a file and a two-cluster subdirectory in its fixed root
    satisfies the hypotheses (more worked calls beside `exTree` in Proofs/FatTreeStep.lean) -/
example : EqnOk exEqn ∧ TGeomOk exTGeom ∧ exTGeom.f.lim - 2 ≤ 8 ∧ TInv exEqn exTGeom exTree :=
  ⟨exEqn_ok, exTGeom_ok, by decide, exTree_inv⟩
example : (tstep exEqn exTGeom 8 exTree (.create [[66]] [67] [])).2 = .ok := by decide
example : (tstep exEqn exTGeom 8 exTree (.create [[65]] [67] [])).2 = .spec .notdir := by decide

/-! ### E″ — re-opening the volume from its bytes -/

/-- **fat_image_holds_directories**: in the bytes of the volume (`image`: the model's device with
    every directory serialised into the clusters of its chain, the FAT12/16 root into its fixed
    region) every directory's chain reads as `entriesToBytes` of its child list — volume label resp.
    "." (own first cluster) and ".." (parent's first cluster) first, then per child the 8.3 entry
    with its long-name slots, attribute and date/time words, directory bit, first cluster of the
    child's chain and size — and every file's chain reads as on the model's device. For every state
    that meets the invariants `TInv` and `TFit` (kept by every call). -/
theorem fat_image_holds_directories (eqn) (X : ImgParams) (g : TGeom) (fuel : Nat) (s : DirSt)
    (hX : ImgParamsOk X g) (hg : TGeomOk g) (hfuel : g.f.lim - 2 ≤ fuel)
    (h : TInv eqn g s) (hfit : TFit g s) (hok : kidsImgOk X g s.kids) :
    (∀ j ∈ rootJobs X g s, chainBytes (image X g s) g.f.io j.1 = j.2) ∧
    (∀ o ∈ kidsFileOwners s.kids, chainBytes (image X g s) g.f.io o = chainBytes s.d g.f.io o) ∧
    (s.chain = [] → readAt (image X g s) g.rootOff (32 * g.rootCap) = fixedImg g.rootCap (rootEntries X s)) :=
  image_facts hX hg hfuel h hfit hok

/-- **fat_reopen_image**: "after re-opening the image from its bytes". A reader that has only the
    table and the bytes of the volume (`reopen`: the root directory's bytes — fixed region, or the
    chain walked through the FAT from the root cluster — parsed by `parseDir`; volume label, "." and
    ".." skipped; every entry's chain followed through the FAT from its first cluster, a
    directory's bytes parsed in turn, a file's bytes cut to the recorded size) builds exactly the
    tree the abstraction `tabs` reads from the model's state: same names in the same order, same
    nesting, same file contents. For every table, device, tree, depth of nesting, entry spelling
    (`enc`: any that the codec carries faithfully, `NameOk`), attribute bits and date/time words. -/
theorem fat_reopen_image (eqn) (X : ImgParams) (g : TGeom) (fuel depth : Nat) (s : DirSt)
    (hX : ImgParamsOk X g) (hg : TGeomOk g) (hfuel : g.f.lim - 2 ≤ fuel)
    (h : TInv eqn g s) (hfit : TFit g s) (hok : kidsImgOk X g s.kids) (hd : kidsDepth s.kids ≤ depth) :
    reopen g fuel depth s.m (image X g s) (s.chain.headD 0) = tabs g s :=
  reopen_image hX hg hfuel h hfit hok hd

/-- **fat_tree_reopen_history**: for every REACHABLE state — any history of path-addressed calls
    (names the codec carries, writes ending below 4 GiB) from a volume that meets the invariants —
    re-opening the volume from its bytes yields the tree read through the live model, which is the
    specification replayed over the accepted calls. -/
theorem fat_tree_reopen_history (eqn) (X : ImgParams) (g : TGeom) (fuel depth : Nat) (ops : List TOp) (s : DirSt)
    (he : EqnOk eqn) (hX : ImgParamsOk X g) (hg : TGeomOk g) (hfuel : g.f.lim - 2 ≤ fuel) (hb64 : 64 ≤ g.f.io.bpc)
    (h : TInv eqn g s) (hfit : TFit g s) (hok : kidsImgOk X g s.kids) (hops : ∀ op ∈ ops, OpOk X g op)
    (hd : kidsDepth (trun eqn g fuel s ops).kids ≤ depth) :
    reopen g fuel depth (trun eqn g fuel s ops).m (image X g (trun eqn g fuel s ops))
        ((trun eqn g fuel s ops).chain.headD 0) = tabs g (trun eqn g fuel s ops) ∧
    tabs g (trun eqn g fuel s ops) = tspecRun eqn g fuel s (tabs g s) ops :=
  ⟨reopen_image hX hg hfuel (trun_inv he hg hfuel ops s h) (trun_fit he hg hfuel hb64 ops s h hfit)
      (trun_imgok ops s hops hok) hd,
    (trun_refines he hg hfuel ops s h).2⟩

/-- non-vacuity: the FAT12 volume `exTree2` (a two-cluster subdirectory holding a file, in the fixed
    root behind a volume label) meets every hypothesis, so its bytes re-open to its tree -/
example : reopen exTGeom2 8 2 exTree2.m (image exX exTGeom2 exTree2) (exTree2.chain.headD 0) = tabs exTGeom2 exTree2 :=
  fat_reopen_image exEqn exX exTGeom2 8 2 exTree2 exX_ok exTGeom2_ok (by decide) exTree2_inv exTree2_fit
    exTree2_imgok exTree2_depth
example : OpOk exX exTGeom2 (.create [[66]] [67] []) := by decide

/-! ### E‴ — lack of space, characterised -/

/-- **fat_tree_create_enospc_iff**: `OpenFile(dir/n, O_CREATE)` of a name that does not exist in
    the directory the path `dir` leads to (`dirAtT`: any depth) is refused for lack of space IF AND
    ONLY IF the volume has fewer free clusters than the call needs: one for the new file's chain
    plus the clusters that directory's own chain must grow by to hold the new entry (`growFor`: its
    slots with the new name's, rounded up to clusters, minus what it has; nothing in the fixed root
    of FAT12/16). For every state that meets the invariants `TInv` and `TFit`. -/
theorem fat_tree_create_enospc_iff (eqn) (g : TGeom) (fuel : Nat) (s : DirSt) (dir : List Spec.Name) (n : Spec.Name)
    (img : Bytes) (b' : Nat) (s' : DirSt)
    (he : EqnOk eqn) (hg : TGeomOk g) (hfuel : g.f.lim - 2 ≤ fuel) (h : TInv eqn g s) (hfit : TFit g s)
    (hd : dirAtT eqn dir g.rootBase s = some (b', s')) (hn : kfind eqn s'.kids n = none) :
    (tstep eqn g fuel s (.create dir n img)).2 = .nospace ↔
      freeCount g.f.lim s.m < 1 + growFor g b' s'.chain s'.kids n :=
  tstep_create_nospace_iff he hg hfuel h hfit hd hn

/-- **fat_tree_mkdir_enospc_iff**: the same for `Mkdir` of one missing component. -/
theorem fat_tree_mkdir_enospc_iff (eqn) (g : TGeom) (fuel : Nat) (s : DirSt) (dir : List Spec.Name) (n : Spec.Name)
    (img img2 : Bytes) (b' : Nat) (s' : DirSt)
    (he : EqnOk eqn) (hg : TGeomOk g) (hfuel : g.f.lim - 2 ≤ fuel) (h : TInv eqn g s) (hfit : TFit g s)
    (hd : dirAtT eqn dir g.rootBase s = some (b', s')) (hn : kfind eqn s'.kids n = none) :
    (tstep eqn g fuel s (.mkdir dir n img img2)).2 = .nospace ↔
      freeCount g.f.lim s.m < 1 + growFor g b' s'.chain s'.kids n :=
  tstep_mkdir_nospace_iff he hg hfuel h hfit hd hn

/-- **fat_tree_space_reusable**: "space released by remove or truncate can be used again without
    limit". After ANY history — whatever was created, grown, truncated, removed, replaced by a
    rename or refused on the way — a create is refused for lack of space iff the data area minus
    the clusters the files and directories of the tree own NOW is smaller than the call needs:
    the answer depends on the present tree only, never on what the volume held before. -/
theorem fat_tree_space_reusable (eqn) (g : TGeom) (fuel : Nat) (ops : List TOp) (s : DirSt) (dir : List Spec.Name)
    (n : Spec.Name) (img : Bytes) (b' : Nat) (s' : DirSt)
    (he : EqnOk eqn) (hg : TGeomOk g) (hfuel : g.f.lim - 2 ≤ fuel) (hb64 : 64 ≤ g.f.io.bpc)
    (h : TInv eqn g s) (hfit : TFit g s)
    (hd : dirAtT eqn dir g.rootBase (trun eqn g fuel s ops) = some (b', s')) (hn : kfind eqn s'.kids n = none) :
    (tstep eqn g fuel (trun eqn g fuel s ops) (.create dir n img)).2 = .nospace ↔
      g.f.lim - 2 - (ownedClusters (trun eqn g fuel s ops)).length < 1 + growFor g b' s'.chain s'.kids n := by
  rw [tstep_create_nospace_iff he hg hfuel (trun_inv he hg hfuel ops s h) (trun_fit he hg hfuel hb64 ops s h hfit) hd hn]
  have := trun_free_count he hg hfuel ops s h
  omega

/-- non-vacuity: in the two-cluster subdirectory [66] of `exTree2` (5 of 8 data clusters free) a new
    entry needs one cluster for the file and one more for the directory: not refused -/
example : dirAtT exEqn [[66]] exTGeom2.rootBase exTree2 = some (2, ⟨exTree2.m, exTree2.d, [3, 4], [.file [65] [2] 3]⟩) := rfl
example : growFor exTGeom2 2 [3, 4] [.file [65] [2] 3] [67] = 1 ∧ freeCount exTGeom2.f.lim exTree2.m = 5 := by decide
example : (tstep exEqn exTGeom2 8 exTree2 (.create [[66]] [67] [])).2 ≠ .nospace := by
  rw [Ne, fat_tree_create_enospc_iff exEqn exTGeom2 8 exTree2 [[66]] [67] [] 2 _ exEqn_ok exTGeom2_ok (by decide)
    exTree2_inv exTree2_fit rfl (by decide)]
  decide

/-! ### D — names -/

/-- the numeric-tail search returns a short name no existing entry has -/
theorem uniqueShort_fresh (stem ext : Name) (existing : List Name) :
    (uniqueShortName stem ext existing ++ ext) ∉ existing := Fat.uniqueShort_fresh stem ext existing

/-! ### zero-length writes (the code has no early return for an empty buffer) -/

/-- `File.Write` of an EMPTY buffer (`f.Write(nil)`, `f.Write([]byte{})`), mirrored step by step
    (`fileWriteRaw`: allocateSpace(max size offset), zero-fill of a gap, the WriteAt calls - no
    shortcut for `len(p) = 0`), at any offset inside the file or at its end (unless the end is a
    positive whole number of clusters, see `cex_empty_write_panics`) of a well-formed file
    (chain `l` exactly as long as its size needs, one cluster when empty, that cluster carrying
    the library's end-of-chain value): the table, the device bytes, the entry's chain and its size
    are what they were.  In particular allocateSpace(0, c) - reached by this call on an empty file
    and by nothing else - KEEPS the file's only cluster (`count = 0` is clamped to one cluster).
    The directory rewrite that follows (`writeDirectoryEntries(parent)`) is handed the unchanged
    child list. -/
theorem write_empty_is_noop (g : FGeom) (fuel : Nat) (m : CMap) (d : Dev) (l : List Nat)
    (others : List (List Nat)) (size off : Nat)
    (hb : 0 < g.io.bpc) (hlim : LimOk g.kind g.lim) (hmax : g.lim ≤ g.max) (hf : l.length ≤ fuel)
    (h : Inv g.kind g.lim m (l :: others))
    (hlen : l.length = Nat.max (clusterCount g.io.bpc size) 1)
    (hmark : size = 0 → m (l.headD 0) = g.kind.eoc)
    (hoff : off ≤ size) (hnb : ¬ (0 < off ∧ off = size ∧ off % g.io.bpc = 0)) :
    ∃ w, fileWriteRaw g fuel m d l size off [] = .ok m d l size w := by
  have hlen' : l.length = Nat.max (cnt size g.io.bpc) 1 := hlen
  have ha := alloc_same_size (pick := firstFit g.lim) (bpc := g.io.bpc) h hlim hmax hf hlen'
  have hns : Nat.max size (off + ([] : Bytes).length) = size := by
    show Max.max size (off + 0) = size; omega
  have hwH : writeH true g.io l size off [] = writeCore g.io l off [] := by
    unfold writeH; rw [if_neg (by intro hh; exact absurd hh.2 (by omega))]
  have hin := off_cluster_in_chain (len := l.length) hb hlen' hoff hnb
  have hsome : ∃ ws, writeCore g.io l off [] = some ws := by
    cases hw : writeCore g.io l off [] with
    | some ws => exact ⟨ws, rfl⟩
    | none =>
      have := (writeCore_nil_none_iff g.io l off).1 hw
      rcases hin with h0 | hlt
      · exact absurd h0 this.1
      · omega
  obtain ⟨ws, hws⟩ := hsome
  have hd : applyWrs d ws = d := applyWrs_empty d ws (writeCore_nil_empty g.io l off ws hws)
  unfold fileWriteRaw falloc
  simp only [hns]
  rw [ha]
  by_cases hc : cnt size g.io.bpc = 0
  · have hs0 : size = 0 := by
      rcases Nat.eq_zero_or_pos size with h0 | hp
      · exact h0
      · have := cnt_pos hb hp; omega
    rw [if_pos hc]
    simp only [hwH, hws, hd]
    rw [set_same m _ _ (hmark hs0)]
    exact ⟨true, rfl⟩
  · rw [if_neg hc]
    simp only [hwH, hws, hd]
    exact ⟨false, rfl⟩

/-- the hypotheses of `write_empty_is_noop` are satisfiable: an empty file owning cluster 2 -/
example : ∃ w, fileWriteRaw ⟨.f12, 10, 10, ⟨0, 0, 4⟩⟩ 8 exTable (fun _ => 7) [2] 0 0 [] = .ok exTable (fun _ => 7) [2] 0 w :=
  write_empty_is_noop ⟨.f12, 10, 10, ⟨0, 0, 4⟩⟩ 8 exTable (fun _ => 7) [2] [[3, 4]] 0 0 (by decide) ex_limOk
    (Nat.le_refl _) (by decide) ex_inv (by decide) (fun _ => by decide) (Nat.le_refl _) (by omega)

/-- as found, past EOF an empty write is NOT a no-op: the file grows to the offset (finding
    fat-empty-write-not-noop; the specification and POSIX say nothing changes) -/
theorem cex_empty_write_extends :
    (fileWriteRaw ⟨.f12, 10, 10, ⟨0, 0, 4⟩⟩ 8 exTable (fun _ => 7) [2] 0 2 []).newSize = some 2
    ∧ (fileWriteRaw ⟨.f12, 10, 10, ⟨0, 0, 4⟩⟩ 8 exTable (fun _ => 7) [2] 0 6 []).newChain = some [2, 5]
    ∧ emptyWriteTrigger 4 0 2 = true := by decide

/-- as found, at or past EOF on a positive multiple of the cluster size an empty write indexes the
    cluster list out of range: the code panics (same finding) -/
theorem cex_empty_write_panics :
    (fileWriteRaw ⟨.f12, 10, 10, ⟨0, 0, 4⟩⟩ 8 exTable (fun _ => 7) [2] 0 4 []).isPanic = true
    ∧ (fileWriteRaw ⟨.f12, 10, 10, ⟨0, 0, 4⟩⟩ 8 exTable (fun _ => 7) [3, 4] 8 8 []).isPanic = true
    ∧ emptyWriteTrigger 4 8 8 = true := by decide

/-! ### as found -/

/-- a read that starts inside a cluster returns bytes past EOF (finding fat-read-past-eof, owner C10) -/
theorem cex_read_clamp :
    readH false (fun i => UInt8.ofNat i) ⟨0, 0, 8⟩ [2] 7 6 8 = some ([UInt8.ofNat 6, UInt8.ofNat 7], 8, true)
    ∧ readH true (fun i => UInt8.ofNat i) ⟨0, 0, 8⟩ [2] 7 6 8 = some ([UInt8.ofNat 6], 7, true)
    ∧ ((fileContent (fun i => UInt8.ofNat i) ⟨0, 0, 8⟩ [2] 7).drop 6).take 8 = [UInt8.ofNat 6]
    ∧ readClampTrigger ⟨0, 0, 8⟩ 7 6 8 = true := Fat.cex_read_clamp
/-- a write past EOF exposes whatever the cluster held before (finding fat-hole-stale-bytes) -/
theorem cex_hole_stale :
    ∃ ws, writeH false ⟨0, 0, 4⟩ [2] 1 3 [9] = some ws
      ∧ fileContent (applyWrs (fun _ => 7) ws) ⟨0, 0, 4⟩ [2] (Nat.max 1 (3 + ([9] : Bytes).length))
          ≠ Spec.splice (fileContent (fun _ => 7) ⟨0, 0, 4⟩ [2] 1) 3 [9] := Fat.cex_hole_stale_ne

/-! ### facts regenerated from /repo (F tie) -/

/-- the constants the model is written with are the ones in the source -/
theorem facts_agree_eoc :
    Generated.Fat.fat12_isEOC_lo = 0xFF8 ∧ Generated.Fat.fat12_isEOC_hi = 0xFFF ∧
    Generated.Fat.fat16_isEOC_lo = 0xFFF8 ∧ Generated.Fat.fat16_isEOC_hi = 0xFFFF ∧
    Generated.Fat.fat32_isEOC_mask = 0xFFFFFF8 ∧
    Generated.Fat.fat12_eoc = Kind.f12.eoc ∧ Generated.Fat.fat16_eoc = Kind.f16.eoc ∧ Generated.Fat.fat32_eoc = Kind.f32.eoc := by
  decide

/-- `MaxCluster()` is computed from the FAT size the way `Kind.maxOfSize` says -/
theorem facts_agree_maxcluster :
    Generated.Fat.fat12_maxCluster_expr = "sizeBytes * 2 / 3" ∧
    Generated.Fat.fat16_maxCluster_expr = "sizeBytes / 2" ∧
    Generated.Fat.fat32_maxCluster_expr = "fatSize / 4" := by decide

/-- the scan of `allocateSpace` only takes clusters whose entry is zero (where it starts and in
    which order it looks is a policy choice, covered by `PickSpec`, not a pin); LFN slot
    constants of the directory codec -/
theorem facts_agree_alloc :
    Generated.Fat.alloc_tests_free = true ∧
    Generated.Fat.slot_chars = 13 ∧ Generated.Fat.slot_bytes = 32 := by decide

/-- the cluster-size tables of the three `Create`s (parameter facts): whatever the tables say
    today, every entry is a power of two in the legal range and sizes map monotonically -/
theorem facts_agree_tables :
    sizeTableWF 1 64 Generated.Fat.fat12_spc_table = true ∧
    sizeTableWF 1 64 Generated.Fat.fat16_spc_table = true ∧
    sizeTableWF 512 32768 Generated.Fat.fat32_clusterBytes_table = true := by decide

end Diskfs.Fat.C01
