/-
  C14 — Reproducible mode yields byte-identical images.
  Property theorems only; helper lemmas live in Proofs/Repro.lean.

  What is a theorem here: the timestamp packing as a total function of the epoch
  (what the 16-bit words are at epoch 0, before 1980, for odd seconds); that the
  volume bytes FAT12/FAT16 Create produces do not depend on where the volume
  starts (for every prior content and every start); that writing an MBR read from
  disk changes no byte (for every device content); that the set of nondeterminism
  sources in the FAT/GPT/MBR write paths is exactly the guarded one.
  What is NOT a theorem: that a process has no further hidden input (static fact
  + two-process differential), GPT write-after-read (differential only), whole
  FAT histories (no FAT mirror in this file; C01's model).
-/
import DiskfsModel.Proofs.Repro
import DiskfsModel.Proofs.MbrRewrite
import DiskfsModel.Generated.Repro
import DiskfsModel.Generated.Detect
set_option linter.unusedSimpArgs false
namespace Diskfs.Repro.C14
open Diskfs.Repro Diskfs.Detect

/-! ### timestamps -/

/-- the packed words are a function of the epoch alone (nothing else is an argument); epoch 0 packs to
    date 0xEC21 (the year field wraps: (1970-1980)<<9 truncated to 16 bits), time 0 -/
theorem pack_epoch0 : timeToDateTime 0 = (0xEC21, 0) := by decide

/-- last second before 1980-01-01 and the first one after -/
theorem pack_around_1980 : timeToDateTime 315532799 = (0xFF9F, 0xBF7D) ∧ timeToDateTime 315532800 = (0x0021, 0) := by
  decide

/-- before 1980 the date word wraps around 2^16 (no error, no clamp): the exact value -/
theorem date_word_pre1980 (c : Civil) (h1 : c.year < 1980) (h2 : 1853 ≤ c.year) (hm : c.month ≤ 12) (hd : c.day ≤ 31) :
    dateWord c = 65536 - (1980 - c.year) * 512 + c.month * 32 + c.day := by
  unfold dateWord; omega

/-- inside FAT's range the word is the plain packing -/
theorem date_word_in_range (c : Civil) (h1 : 1980 ≤ c.year) (h2 : c.year ≤ 2107) (hm : c.month ≤ 12) (hd : c.day ≤ 31) :
    dateWord c = (c.year - 1980) * 512 + c.month * 32 + c.day := by
  unfold dateWord; omega

theorem time_word_exact (c : Civil) (h : c.hour < 24) (hm : c.minute < 60) (hs : c.second < 60) :
    timeWord c = c.hour * 2048 + c.minute * 32 + c.second / 2 := by
  unfold timeWord; omega

/-- an odd second packs exactly like the even second before it (2-second resolution), date included:
    for every even epoch -/
theorem odd_second_same_words (e : Nat) (h : e % 2 = 0) : timeToDateTime (e + 1) = timeToDateTime e := by
  have hd : (e + 1) / 86400 = e / 86400 := by omega
  have hr : (e + 1) % 86400 = e % 86400 + 1 := by omega
  unfold timeToDateTime
  have hc : civil (e + 1) = { civil e with second := (civil e).second + 1 } := by
    unfold civil
    simp only [hd, hr]
    congr 1 <;> omega
  have hs : (civil e).second % 2 = 0 := by unfold civil; simp only; omega
  rw [hc]
  simp only [dateWord, timeWord, Prod.mk.injEq, true_and]
  omega

/-- the calendar fields are in range for every epoch (so time_word_exact applies to every real call) -/
theorem civil_time_in_range (e : Nat) : (civil e).hour < 24 ∧ (civil e).minute < 60 ∧ (civil e).second < 60 := by
  unfold civil; simp only; omega

/-! ### Create does not depend on where the volume starts -/

/-- the write list of FAT12/FAT16 Create at `start` is the list at 0 shifted: same lengths, same data -/
theorem create_start_independent (is16 : Bool) (L : Layout) (serial : Nat) (label : List Nat) (fat rootDir : Bytes)
    (start : Nat) :
    (shift start (createWrs1x is16 L serial label fat rootDir)).map (·.data) = (createWrs1x is16 L serial label fat rootDir).map (·.data) ∧
    (shift start (createWrs1x is16 L serial label fat rootDir)).map (·.off) =
      (createWrs1x is16 L serial label fat rootDir).map (start + ·.off) := by
  simp [shift, List.map_map, Function.comp_def]

/-- hence byte `i` of the volume after Create at `start` equals byte `i` after Create at 0 applied to
    the same prior volume content — for every prior device, every start, every byte -/
theorem create_image_start_independent (d : Dev) (is16 : Bool) (L : Layout) (serial : Nat) (label : List Nat)
    (fat rootDir : Bytes) (start i : Nat) :
    applyWrs d (shift start (createWrs1x is16 L serial label fat rootDir)) (start + i) =
    applyWrs (fun j => d (start + j)) (createWrs1x is16 L serial label fat rootDir) i :=
  applyWrs_shift d start _ i

/-- two blank devices: the volume bytes agree whatever the two starts are -/
theorem create_blank_two_starts (is16 : Bool) (L : Layout) (serial : Nat) (label : List Nat) (fat rootDir : Bytes)
    (s1 s2 i : Nat) :
    applyWrs (fun _ => 0) (shift s1 (createWrs1x is16 L serial label fat rootDir)) (s1 + i) =
    applyWrs (fun _ => 0) (shift s2 (createWrs1x is16 L serial label fat rootDir)) (s2 + i) := by
  rw [applyWrs_shift, applyWrs_shift]

/-! ### the WHOLE image Create writes — FAT12, FAT16 and FAT32 — as a function of (size, label, epoch)

  `createImage` (Model/Repro.lean) is every WriteAt of Create in reproducible mode with its full data: boot sector
  (FAT32: backup, FSInfo, FSInfo backup), both FAT copies from the fresh table, the zeroed root directory, then
  SetLabel: boot sector(s) with the label and the root directory holding the volume-label entry whose five date /
  time words are the packing of SOURCE_DATE_EPOCH.  Its arguments are the size, the label and the epoch: neither
  the wall clock nor the start offset nor the prior device content is one.  The run compares the CRC32 of every
  real WriteAt of fat12/fat16/fat32.Create, in both child processes, with this function (op repro.image). -/

/-- start offset: the volume bytes after Create at `start` are the image applied to the volume's own prior content -/
theorem create_whole_image_start_independent (P : Detect.Params) (k : FatKind) (size : Nat) (label : List Nat) (epoch : Nat)
    (img : List Wr) (_h : createImage P k size label epoch = some img) (d : Dev) (start i : Nat) :
    applyWrs d (shift start img) (start + i) = applyWrs (fun j => d (start + j)) img i :=
  applyWrs_shift d start img i

/-- two blank devices, two different starts: every byte of the volume agrees (FAT32 included) -/
theorem create_whole_image_blank_two_starts (P : Detect.Params) (k : FatKind) (size : Nat) (label : List Nat) (epoch : Nat)
    (img : List Wr) (_h : createImage P k size label epoch = some img) (s1 s2 i : Nat) :
    applyWrs (fun _ => 0) (shift s1 img) (s1 + i) = applyWrs (fun _ => 0) (shift s2 img) (s2 + i) := by
  rw [applyWrs_shift, applyWrs_shift]

/-- two runs over DIFFERENT prior device contents at different starts: every volume byte Create writes agrees -/
theorem create_whole_image_two_runs (P : Detect.Params) (k : FatKind) (size : Nat) (label : List Nat) (epoch : Nat)
    (img : List Wr) (_h : createImage P k size label epoch = some img) (d1 d2 : Dev) (s1 s2 i : Nat) (hc : Covered img i) :
    applyWrs d1 (shift s1 img) (s1 + i) = applyWrs d2 (shift s2 img) (s2 + i) :=
  image_two_runs img d1 d2 s1 s2 i hc

/-- …and for FAT32 that is: the boot sector, the FSInfo sector, their backups in sectors 6 and 7, both FATs and
    the root directory cluster -/
theorem create32_covers (P : Detect.Params) (size : Nat) (label : List Nat) (epoch : Nat) (img : List Wr)
    (h : createImage P .f32 size label epoch = some img) :
    ∃ L, layout32 P size 512 = some L ∧
      ∀ i, (i < 2 * L.bps ∨ (6 * L.bps ≤ i ∧ i < 8 * L.bps) ∨
            (32 * L.bps ≤ i ∧ i < 32 * L.bps + 2 * (L.spf * L.bps) + L.spc * L.bps)) → Covered img i :=
  createImage32_covers P size label epoch img h

/-- …and for FAT12 / FAT16: the boot sector, both FATs and the whole fixed root directory -/
theorem create1x_covers (P : Detect.Params) (is16 : Bool) (size : Nat) (label : List Nat) (epoch : Nat) (img : List Wr)
    (h : createImage P (if is16 then .f16 else .f12) size label epoch = some img) :
    ∃ L, (if is16 then layout16 P size else layout12 P size) = some L ∧
      ∀ i, (i < 512 ∨ (L.reserved * 512 ≤ i ∧ i < L.reserved * 512 + 2 * (L.spf * 512) + L.rootEnts * 32)) → Covered img i :=
  createImage1x_covers P is16 size label epoch img h

/-- clock: the image of an odd epoch is the image of the even second before it, and nothing finer than the epoch
    enters (FAT's two-second resolution; `odd_second_same_words` lifted to the whole image) -/
theorem create_whole_image_odd_epoch (P : Detect.Params) (k : FatKind) (size : Nat) (label : List Nat) (e : Nat)
    (he : e % 2 = 0) : createImage P k size label (e + 1) = createImage P k size label e :=
  createImage_epoch_congr P k size label (e + 1) e (labelEntry_odd label e (odd_second_same_words e he))

/-! ### MBR: write (read img) changes nothing -/

/-- for every device content on which mbr.Read succeeds, writing the table that was read leaves every
    byte as it was (boot code and disk signature included: Write only touches 446..511) -/
theorem mbr_write_idempotent (d : Dev) (t : MbrTable) (h : mbrRead d = some t) (i : Nat) :
    applyWrs d t.write i = d i := by
  unfold mbrRead at h
  split at h
  · rename_i hsig
    split at h
    · rename_i a b c e ha hb hc he
      cases h
      have hbytes : (MbrTable.mk a b c e).toBytes = readAt d 446 66 := by
        simp only [MbrTable.toBytes, MbrPart.roundtrip _ _ ha, MbrPart.roundtrip _ _ hb, MbrPart.roundtrip _ _ hc,
          MbrPart.roundtrip _ _ he]
        have h66 : readAt d 446 66 = readAt d 446 16 ++ readAt d 462 16 ++ readAt d 478 16 ++ readAt d 494 16 ++ readAt d 510 2 := by
          rw [show (66 : Nat) = 16 + (16 + (16 + (16 + 2))) from rfl, readAt_split, readAt_split, readAt_split, readAt_split]
          simp [List.append_assoc]
        rw [h66]
        have h2 : readAt d 510 2 = [0x55, 0xAA] := by
          simp [readAt, List.range, List.range.loop, hsig.1, hsig.2]
        rw [h2]
      simp only [MbrTable.write, applyWrs, List.foldl_cons, List.foldl_nil, hbytes]
      exact applyWr_self d 446 66 i
    · cases h
  · cases h

/-- the same at the Table level of the model the C02 / C15 checks tie to the code (Model/MbrTable.lean: mbr.Read stamps
    the caller's sector sizes, Table.Write refuses more than four partitions): for ANY device content mbr.Read accepts,
    with any sector sizes, the Write of the table just read is accepted and changes no byte of the device (op
    repro.mbrrw compares the real rewrite's WriteAt with the model's on the sector of every generated table) -/
theorem mbr_table_rewrite_idempotent (d : Dev) (devSize : Nat) (lbs pbs : Int) (t : Mbr.Table)
    (h : (Mbr.readT d devSize lbs pbs).1 = .ok t) : ∃ ws, Mbr.writeT t = some ws ∧ applyWrs d ws = d :=
  Mbr.readT_rewrite_noop d devSize lbs pbs t h

/-- writing the same table twice gives the same bytes (the encoder is a function of the table) -/
theorem mbr_write_twice (d : Dev) (t : MbrTable) (i : Nat) :
    applyWrs (applyWrs d t.write) t.write i = applyWrs d t.write i := by
  simp only [MbrTable.write, applyWrs, List.foldl_cons, List.foldl_nil]
  unfold applyWr
  split <;> rfl

/-! ### tables: the bytes a Write leaves are a function of the table alone -/

/-- GPT: `Gpt.write` takes (behaviour switches, CRC function, table incl. every GUID, disk size) and nothing else — no
    clock, no random source, no prior device content.  Hence: on two devices with ANY prior contents the bytes of every
    region Table.Write writes (protective MBR, both headers, both entry arrays) agree, and writing the same table a
    second time changes nothing (the model is tied to the real Table.Write by op gpt.write of the C02 check; here the
    real code is exercised by the two-process differential) -/
theorem gpt_write_image_function (c : Gpt.Cfg) (crc : Bytes → Nat) (t : Gpt.Table) (size : Nat) (ws : List Wr) (t' : Gpt.Table)
    (_h : Gpt.write c crc t size = .ok (ws, t')) (d1 d2 : Dev) :
    (∀ i, Covered ws i → applyWrs d1 ws i = applyWrs d2 ws i) ∧ applyWrs (applyWrs d1 ws) ws = applyWrs d1 ws :=
  ⟨fun i hc => applyWrs_two_devices ws d1 d2 i hc, applyWrs_twice d1 ws⟩

/-- MBR at the Table level and the Create images alike: any accepted write list applied twice equals once -/
theorem mbr_table_write_twice (t : Mbr.Table) (ws : List Wr) (_h : Mbr.writeT t = some ws) (d : Dev) :
    applyWrs (applyWrs d ws) ws = applyWrs d ws :=
  applyWrs_twice d ws

/-! ### regenerated facts -/

/-- every call to time.Now / uuid.New* / rand.* / process identity in the FAT, GPT, MBR, partition,
    disk.go and timestamp code is under one of the three admissible guards (`!reproducible`,
    `GUID == ""`, SOURCE_DATE_EPOCH unset); none is unguarded; no range over a map -/
theorem facts_agree_nondet :
    Generated.Repro.nondetUnguarded = 0 ∧
    Generated.Repro.nondetGuardKinds.all (fun k => k == "not-reproducible" || k == "guid-empty" || k == "epoch-unset") = true ∧
    Generated.Repro.mapRanges = [] := by decide

/-- disk.CreateFilesystem hands spec.Reproducible to all three FAT Creates; the FAT directory code
    takes its clock from timestamp.GetTime -/
theorem facts_agree_plumbing :
    Generated.Repro.reproduciblePlumbedCreates = 3 ∧ 0 < Generated.Repro.fatDirectoryGetTimeUses := by decide

/-! non-vacuity -/
example : timeToDateTime 1700000001 = timeToDateTime 1700000000 := odd_second_same_words 1700000000 (by decide)
example : (civil 4354819199).year = 2107 := by decide
example : mbrRead (fun i => if i = 510 then 0x55 else if i = 511 then 0xAA else if i = 446 then 0x80 else 0) ≠ none := by
  decide

end Diskfs.Repro.C14
