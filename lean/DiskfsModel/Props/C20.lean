/-
  C20 — ext4 volumes made by the reference mke2fs are read correctly.
  Property theorems only; helper lemmas live in Proofs/Ext4Reader.lean.

  What is proved here is about the logic cores of the reader (Model/Ext4/Reader.lean), for all
  inputs: extent trees of every depth and shape, every logical block, every list of directory
  entries, every hash tree, every feature word.  That the Go reader computes what the mirror
  computes is checked on every run by the correspondence (hooks on reference images and on
  synthetic inputs); that whole images read back equal to the host tree is the engine's oracle.

  Second part (below the facts): File.Read over a flat extent list WITH holes as file.go is now
  (read_sparse_*), group descriptor decoding and inode addressing (gd_*, inode_*), and the extended
  attribute entry table (xattr_*).

  Third part (at the end): the SPEC reader (Model/Ext4/SpecGeom, SpecNode, SpecTree, ImageSpec: an ext4
  reader over image bytes written from the format, run by the driver on every reference image and
  compared with the library) — mirror = spec theorems (spec_*) and the addressing arithmetic under the
  validity checks of ext4.Read.
-/
import DiskfsModel.Proofs.Ext4Reader
import DiskfsModel.Model.Ext4.ReaderCfg
import DiskfsModel.Proofs.Ext4SparseRead
import DiskfsModel.Proofs.Ext4Xattr
import DiskfsModel.Proofs.Ext4Spec
import DiskfsModel.Proofs.Ext4ReadSkipNeg
import DiskfsModel.Model.Ext4.ImageSpec
import DiskfsModel.Proofs.Ext4InodeDecode
import DiskfsModel.Proofs.Ext4DirNow
import DiskfsModel.Proofs.Ext4XattrSpec
import DiskfsModel.Proofs.Ext4FeatureGate
import DiskfsModel.Proofs.Ext4HtreeSpec
import DiskfsModel.Proofs.Ext4CsumMirror
import DiskfsModel.Proofs.Ext4InodeFrame
namespace Diskfs.Ext4.Reader.C20

/-- Flattening (extentBlockFinder.blocks: concatenate the leaves, children in order, interior
    nodes of any depth) maps every logical block exactly as a search of the tree from the root does. -/
theorem extent_tree_flatten (d : Nat) (t : TreeD d) (lo hi : Nat) (h : TreeWF d t lo hi) (lb : Nat) :
    leafLookup (mirrorBlocks d t) lb = specLookup d t lb :=
  flatten_lookup d t lo hi lb h

/-- A logical block that the tree does not map reads as zeros through the flattened list
    (for every device content, block size and file size). -/
theorem hole_reads_zero (d : Nat) (t : TreeD d) (lo hi : Nat) (h : TreeWF d t lo hi)
    (dev : Dev) (bs size p : Nat) (hp : p < size) (hole : specLookup d t (p / bs) = none) :
    fileByte (leafLookup (mirrorBlocks d t)) dev bs size p = some 0 := by
  unfold fileByte
  rw [if_pos hp, extent_tree_flatten d t lo hi h, hole]

/-- …and a mapped block reads the device byte the tree search designates. -/
theorem mapped_reads_device (d : Nat) (t : TreeD d) (lo hi : Nat) (h : TreeWF d t lo hi)
    (dev : Dev) (bs size p phys : Nat) (hp : p < size) (hm : specLookup d t (p / bs) = some phys) :
    fileByte (leafLookup (mirrorBlocks d t)) dev bs size p = some (dev (phys * bs + p % bs)) := by
  unfold fileByte
  rw [if_pos hp, extent_tree_flatten d t lo hi h, hm]

/-- The rec_len walk returns exactly the entries that were encoded, in order, whatever slack
    each record carries — for names the configuration can represent (as found: < 248 bytes). -/
theorem dir_linear_roundtrip (cfg : Cfg) (es : List (DirEnt × Nat)) (fuel : Nat)
    (hwf : ∀ p ∈ es, EntWF cfg p) (hf : es.length < fuel) :
    parseEntries cfg fuel (encEntries es) = .ok (es.map Prod.fst) :=
  parseEntries_enc cfg es fuel hwf hf

/-- With the repaired name bound all 255 name lengths are covered. -/
theorem dir_linear_roundtrip_fixed (es : List (DirEnt × Nat)) (fuel : Nat)
    (hwf : ∀ p ∈ es, p.1.inode < 4294967296 ∧ p.1.ftype < 256 ∧ p.1.name.length < 256 ∧
      12 ≤ p.2 ∧ 8 + p.1.name.length ≤ p.2 ∧ p.2 < 65536) (hf : es.length < fuel) :
    parseEntries Cfg.fixed fuel (encEntries es) = .ok (es.map Prod.fst) :=
  parseEntries_enc Cfg.fixed es fuel (fun p hp => by simpa [EntWF, Cfg.fixed] using hwf p hp) hf

set_option maxRecDepth 16384 in
/-- As found, a 248-byte name makes the walk panic (uint8 overflow of `0x8+nameLength`). -/
theorem long_name_as_found_panics :
    parseEntries Cfg.asFound 2 (encEntries [(⟨12, 1, List.replicate 248 97⟩, 256)]) = .panic := by
  decide

/-- A successful hash-tree walk returns the linear parses of the leaf blocks it reaches … -/
theorem htree_reaches_leaves (cfg : Cfg) (csum : Bool) (bs : Nat) (data : Bytes) (d : Nat)
    (blks : List Nat) (es : List DirEnt) (h : parseHashed cfg csum bs data d blks = .ok es) :
    ∃ L, leafBlocks bs data d blks = .ok L ∧ concatRes (leafAt cfg csum bs data) L = .ok es :=
  parseHashed_leaves cfg csum bs data d blks es h

/-- … so if the tree references every leaf block of the directory exactly once (`L ~ leaves`), the
    entries reached through the hash tree are the entries of the leaf blocks read linearly. -/
theorem htree_equals_linear (cfg : Cfg) (csum : Bool) (bs : Nat) (data : Bytes) (d : Nat)
    (blks leaves : List Nat) (es es' : List DirEnt)
    (h : parseHashed cfg csum bs data d blks = .ok es)
    (hlin : concatRes (leafAt cfg csum bs data) leaves = .ok es')
    (hperm : ∀ L, leafBlocks bs data d blks = .ok L → L.Perm leaves) :
    es.Perm es' := by
  obtain ⟨L, hL, hc⟩ := htree_reaches_leaves cfg csum bs data d blks es h
  exact concatRes_perm _ L leaves es es' hc hlin (hperm L hL)

/-- 64-bit on-disk numbers (block counts, inode-table locations, file sizes) are the composition of
    their 32-bit halves: composing the halves of `n` gives back `n`. -/
theorem halves_compose32 (n : Nat) (h : n < 18446744073709551616) :
    n % 4294967296 < 4294967296 ∧ n / 4294967296 < 4294967296 ∧
    compose32 (n % 4294967296) (n / 4294967296) = n := by
  unfold compose32; omega

theorem halves_compose16 (n : Nat) (h : n < 4294967296) :
    n % 65536 < 65536 ∧ n / 65536 < 65536 ∧ compose16 (n % 65536) (n / 65536) = n := by
  unfold compose16; omega

/-- the halves are recovered from the composition (so distinct values have distinct encodings) -/
theorem halves_unique32 (lo hi : Nat) (hlo : lo < 4294967296) :
    compose32 lo hi % 4294967296 = lo ∧ compose32 lo hi / 4294967296 = hi := by
  unfold compose32; omega

/-- Feature gate, repaired position: an image without extents or with inline_data is refused. -/
theorem unsupported_rejected (cfg : Cfg) (hx : cfg.gateRequiresExtents = true)
    (hi : cfg.gateRefusesInlineData = true) (incompat : Nat)
    (h : hasBit incompat incompatExtents = false ∨ hasBit incompat incompatInlineData = true) :
    gateAccepts cfg incompat = false := by
  unfold gateAccepts
  rcases h with h | h <;> simp [hx, hi, h]

/-- The gate refuses nothing else: an image with extents and without inline_data is accepted. -/
theorem supported_accepted (cfg : Cfg) (incompat : Nat)
    (h1 : hasBit incompat incompatExtents = true) (h2 : hasBit incompat incompatInlineData = false) :
    gateAccepts cfg incompat = true := by
  unfold gateAccepts; simp [h1, h2]

/-- As found there is no gate: an inline_data image without extents is accepted. -/
theorem as_found_accepts_unsupported : gateAccepts Cfg.asFound incompatInlineData = true := by decide

/-- the superblock decoder refuses a wrong signature or checksum type whatever else the bytes say -/
theorem sb_refuses_bad_signature (csumOk : Bool) (b : Bytes) (h : le16 b 0x38 ≠ 0xef53) :
    sbDecode csumOk b = none := by
  unfold sbDecode; simp [h]

theorem sb_blocks_composed (csumOk : Bool) (b : Bytes) (i : SbInfo) (h : sbDecode csumOk b = some i) :
    i.blocks = (if hasBit (le32 b 0x60) incompat64Bit then compose32 (le32 b 0x4) (le32 b 0x150) else le32 b 0x4) := by
  unfold sbDecode at h
  simp only at h
  split at h
  · simp at h
  · split at h
    · simp at h
    · split at h
      · simp at h
      · simp only [Option.some.injEq] at h
        rw [← h]

/-- 128-byte inodes: accepted exactly when the minimum length is the classic inode size -/
theorem inode128_accepted_iff (cfg : Cfg) : inodeLenAccepted cfg 128 = true ↔ cfg.inodeMinLen ≤ 128 := by
  simp [inodeLenAccepted]

theorem inode128_as_found_refused : inodeLenAccepted Cfg.asFound 128 = false := by decide

/-! ### facts regenerated from /repo -/
open Diskfs.Generated

/-- constants the mirror repeats are the ones in superblock.go / extent.go / xattr.go -/
theorem facts_agree_constants :
    Ext4Ref.incompatFeatureExtents = incompatExtents ∧ Ext4Ref.incompatFeature64Bit = incompat64Bit ∧
    Ext4Ref.incompatFeatureDataInInode = incompatInlineData ∧
    Ext4Ref.roCompatFeatureMetadataChecksums = roCompatMetadataCsum ∧
    Ext4Ref.superblockSignature = 0xef53 ∧ Ext4Ref.extentHeaderSignature = 0xf30a ∧
    Ext4Ref.xattrHeaderSize = 32 ∧ Ext4Ref.xattrEntrySize = 16 ∧ Ext4Ref.checkSumTypeCRC32c = 1 := by
  decide

/-- the prefix table is well formed: one string per index, indices distinct (so lookup is a function) -/
theorem facts_agree_xattr_table :
    Ext4Ref.xattrPrefixIdx.length = Ext4Ref.xattrPrefixStr.length ∧ Ext4Ref.xattrPrefixIdx.Nodup ∧
    Ext4Ref.xattrPrefixIdx ≠ [] := by
  decide

/-- the configuration the driver runs is one of the two positions of every switch, and the minimum
    inode length is one of the two sizes the theorems speak about -/
theorem facts_agree_cfg :
    (Cfg.current.inodeMinLen = 160 ∨ Cfg.current.inodeMinLen = 128) ∧
    Cfg.current.gateRequiresExtents = Cfg.current.gateRefusesInlineData := by
  decide

/-- File.Read, groupDescriptorFromBytes and readInodeRaw still have the shape the second part mirrors:
    skip test `<=`, holes cleared in two places, high halves read exactly for 64-byte descriptors,
    group by division and slot by remainder of (n-1), slot offset computed in 32 bits -/
theorem facts_agree_read_addressing :
    Ext4Ref.readSkipLe = true ∧ Ext4Ref.readClears = 2 ∧ Ext4Ref.gdWideSize = 64 ∧
    Ext4Ref.inodeGroupByDiv = true ∧ Ext4Ref.inodeSlotByMod = true ∧ Ext4Ref.inodeSlotOffsetWidth = 32 := by
  decide

/-! non-vacuity -/
def exLeafA : TreeD 0 := ([⟨0, 100, 2⟩, ⟨4, 200, 1⟩] : List Extent)
def exLeafB : TreeD 0 := ([⟨8, 300, 4⟩] : List Extent)
def exMid : TreeD 1 := (Sum.inr [(0, exLeafA), (8, exLeafB)] : List Extent ⊕ List (Nat × TreeD 0))
def exMid2 : TreeD 1 := (Sum.inl [⟨20, 900, 3⟩] : List Extent ⊕ List (Nat × TreeD 0))
def exTree : TreeD 2 := (Sum.inr [(0, exMid), (20, exMid2)] : List Extent ⊕ List (Nat × TreeD 1))
example : TreeWF 2 exTree 0 40 := by
  simp [exTree, exMid, exMid2, exLeafA, exLeafB, TreeWF, childrenWF, extsIn]
example : specLookup 2 exTree 9 = some 301 := by decide
example : specLookup 2 exTree 3 = none := by decide
example : mirrorBlocks 2 exTree = [⟨0, 100, 2⟩, ⟨4, 200, 1⟩, ⟨8, 300, 4⟩, ⟨20, 900, 3⟩] := by decide
example : EntWF Cfg.asFound (⟨12, 1, [97, 98]⟩, 12) := by simp [EntWF, Cfg.asFound]
example : parseEntries Cfg.asFound 3 (encEntries [(⟨12, 1, [97, 98]⟩, 12), (⟨0, 0, []⟩, 20)]) =
    .ok [⟨12, 1, [97, 98]⟩, ⟨0, 0, []⟩] := by decide

/-! ### File.Read over a flat extent list with holes (file.go as it is now) -/

/-- read_sparse_spec: for every device content, block size, SORTED NON-OVERLAPPING extent list
    (holes allowed in front, between and behind extents), file size, handle offset and buffer length,
    File.Read returns exactly the bytes of the logical file at the offset — the device byte of a
    mapped block, zero in a hole — clipped to the file size; it advances the offset by that many
    bytes, reports io.EOF exactly when the offset reaches the size, and neither panics nor fails. -/
theorem read_sparse_spec (dev : Dev) (devSize bs : Nat) (es : List Extent) (size off n : Nat)
    (hbs : 0 < bs) (hs : SortedExts es) (hd : ExtsOnDev bs devSize es) :
    ∃ r, sparseRead dev devSize bs es size off n = .ok r ∧
      r.data = window (logicalByte dev bs es) off (min n (size - off)) ∧
      r.off = off + r.data.length ∧ (r.eof = true ↔ size ≤ r.off) := by
  unfold sparseRead
  by_cases hge : off ≥ size
  · rw [if_pos hge]
    refine ⟨_, rfl, ?_, by simp, by simp; omega⟩
    have : min n (size - off) = 0 := by omega
    simp [this, window_zero]
  · rw [if_neg hge]
    simp only []
    generalize hw : (if off + n > size then size - off else n) = want
    have hwant : want = min n (size - off) := by rw [← hw]; split <;> omega
    obtain ⟨st, hst, hoff, hgot, hlen, hrest⟩ :=
      sparseLoop_spec dev devSize bs off want hbs es hs hd es [] ⟨off, [], []⟩ rfl (by simp)
        (by simp [window_zero]) (by simp) (by simp)
        (fun e _ hns => (Nat.div_lt_iff_lt_mul hbs).1 (Nat.lt_of_not_le hns))
    rw [hst]
    simp only []
    by_cases hpad : st.got.length < want
    · rw [if_pos hpad]
      have hall := hrest hpad
      have hdata : st.got ++ zeros (want - st.got.length) = window (logicalByte dev bs es) off want := by
        have hsplit := window_add (logicalByte dev bs es) off st.got.length (want - st.got.length)
        rw [show st.got.length + (want - st.got.length) = want by omega] at hsplit
        rw [hsplit, ← hgot]
        congr 1
        apply zeros_eq_window
        intro i _
        apply logicalByte_hole
        intro a ha
        have h1 := hall a ha
        have : a.fileBlock + a.count ≤ (off + st.got.length + i) / bs :=
          (Nat.le_div_iff_mul_le hbs).2 (by omega)
        omega
      refine ⟨_, rfl, ?_, ?_, ?_⟩
      · simp only; rw [hdata, hwant]
      · simp only [List.length_append, zeros_length]; omega
      · simp only [decide_eq_true_eq]
    · rw [if_neg hpad]
      have : st.got.length = want := by omega
      refine ⟨_, rfl, ?_, ?_, ?_⟩
      · simp only; rw [hgot, this, hwant]
      · simp only; exact hoff
      · simp only [decide_eq_true_eq]

/-- File.Read never panics and never fails on such a list -/
theorem read_sparse_no_panic (dev : Dev) (devSize bs : Nat) (es : List Extent) (size off n : Nat)
    (hbs : 0 < bs) (hs : SortedExts es) (hd : ExtsOnDev bs devSize es) :
    (∀ o, sparseRead dev devSize bs es size off n ≠ .panic o) ∧
    ∀ k o, sparseRead dev devSize bs es size off n ≠ .ioerr k o := by
  obtain ⟨r, hr, _⟩ := read_sparse_spec dev devSize bs es size off n hbs hs hd
  rw [hr]
  exact ⟨fun _ h => (by cases h), fun _ _ h => (by cases h)⟩

/-- any sequence of Read calls on one handle (buffers of any lengths, zero included) returns, joined
    together, the logical file from the starting offset on, clipped to the file size -/
theorem read_sparse_seq (dev : Dev) (devSize bs : Nat) (es : List Extent) (size : Nat)
    (hbs : 0 < bs) (hs : SortedExts es) (hd : ExtsOnDev bs devSize es) :
    ∀ (ns : List Nat) (off : Nat), readSeq dev devSize bs es size ns off =
      some (window (logicalByte dev bs es) off (min ns.sum (size - off)), off + min ns.sum (size - off)) := by
  intro ns
  induction ns with
  | nil => intro off; simp [readSeq, window_zero]
  | cons n ns ih =>
    intro off
    obtain ⟨r, hr, hdata, hoff, _⟩ := read_sparse_spec dev devSize bs es size off n hbs hs hd
    have hlen : r.data.length = min n (size - off) := by rw [hdata]; simp
    rw [readSeq, hr]
    simp only []
    rw [ih r.off]
    simp only [Option.some.injEq, Prod.mk.injEq, List.sum_cons]
    rw [hoff, hlen, hdata]
    have hk : min (n + ns.sum) (size - off) =
        min n (size - off) + min ns.sum (size - (off + min n (size - off))) := by omega
    constructor
    · rw [hk, window_add]
    · omega

/-- a caller that reads with a non-empty buffer until io.EOF (io.ReadAll, io.Copy, fs.ReadFile)
    terminates with exactly the logical file from its offset to the end — from offset 0 the whole
    file, every hole as zeros -/
theorem read_sparse_until_eof (dev : Dev) (devSize bs : Nat) (es : List Extent) (size chunk : Nat)
    (hbs : 0 < bs) (hc : 0 < chunk) (hs : SortedExts es) (hd : ExtsOnDev bs devSize es) :
    ∀ (fuel off : Nat) (acc : Bytes), size - off < fuel →
      readUntilEof dev devSize bs es size chunk fuel off acc =
        some (acc ++ window (logicalByte dev bs es) off (size - off)) := by
  intro fuel
  induction fuel with
  | zero => intro off acc h; omega
  | succ f ih =>
    intro off acc hf
    obtain ⟨r, hr, hdata, hoff, heof⟩ := read_sparse_spec dev devSize bs es size off chunk hbs hs hd
    have hlen : r.data.length = min chunk (size - off) := by rw [hdata]; simp
    rw [readUntilEof, hr]
    simp only []
    by_cases he : r.eof = true
    · rw [if_pos he]
      have : size ≤ r.off := heof.1 he
      have hk : min chunk (size - off) = size - off := by omega
      rw [hdata, hk]
    · rw [if_neg he]
      have hlt : ¬ size ≤ r.off := fun h => he (heof.2 h)
      rw [ih r.off (acc ++ r.data) (by omega)]
      have hk : size - off = min chunk (size - off) + (size - r.off) := by omega
      rw [hk, window_add, hdata, hoff, hlen, List.append_assoc]

/-- the logical file is the one `hole_reads_zero` / `mapped_reads_device` speak about -/
theorem logicalByte_fileByte (dev : Dev) (bs size : Nat) (es : List Extent) (p : Nat) (hp : p < size) :
    fileByte (leafLookup es) dev bs size p = some (logicalByte dev bs es p) := by
  unfold fileByte logicalByte
  rw [if_pos hp]
  cases leafLookup es (p / bs) <;> rfl

/-- Read through a whole extent TREE: when the flattened list of a well-formed tree of any depth is
    sorted, byte `i` of what Read returns is the device byte of the block a search of the tree from
    the root designates for position `off+i`, or zero when the tree maps nothing there. -/
theorem read_tree_spec (d : Nat) (t : TreeD d) (lo hi : Nat) (h : TreeWF d t lo hi)
    (dev : Dev) (devSize bs size off n : Nat) (hbs : 0 < bs)
    (hs : SortedExts (mirrorBlocks d t)) (hd : ExtsOnDev bs devSize (mirrorBlocks d t)) :
    ∃ r, sparseRead dev devSize bs (mirrorBlocks d t) size off n = .ok r ∧
      r.data.length = min n (size - off) ∧
      ∀ i, i < r.data.length → r.data.getD i 0 =
        (match specLookup d t ((off + i) / bs) with
         | some phys => dev (phys * bs + (off + i) % bs)
         | none => 0) := by
  obtain ⟨r, hr, hdata, _, _⟩ := read_sparse_spec dev devSize bs (mirrorBlocks d t) size off n hbs hs hd
  refine ⟨r, hr, by rw [hdata]; simp, ?_⟩
  intro i hlt
  rw [hdata] at hlt ⊢
  simp only [window_length] at hlt
  simp only [window, List.getD_eq_getElem?_getD, List.getElem?_map, List.getElem?_range hlt,
    Option.map_some, Option.getD_some]
  unfold logicalByte
  rw [extent_tree_flatten d t lo hi h]
  cases specLookup d t ((off + i) / bs) <;> rfl

/-- File.Read as the tree has it, with or without the guard `if leftInExtent < 0 { continue }` (the repair of
    finding ext4-read-extent-out-of-order; which one the driver runs is regenerated from file.go:
    Ext4Ref.readSkipsExtentBefore): on every sorted non-overlapping extent list the guarded loop returns exactly
    what the loop without the guard returns — the branch is never reached — so read_sparse_spec, read_sparse_seq,
    read_sparse_until_eof and read_tree_spec hold for the guarded File.Read as well -/
theorem read_sparse_guard_unreached (skip : Bool) (dev : Dev) (devSize bs : Nat) (es : List Extent)
    (size off n : Nat) (hbs : 0 < bs) (hs : SortedExts es) (hd : ExtsOnDev bs devSize es) :
    sparseReadC skip dev devSize bs es size off n = sparseRead dev devSize bs es size off n :=
  sparseReadC_eq skip dev devSize bs es size off n (read_sparse_no_panic dev devSize bs es size off n hbs hs hd).1

/-- on an out-of-order list the two differ: without the guard a negative length reaches `make` (panic), with
    it the extent that lies before the offset is passed over and the rest of the request reads as a hole -/
theorem cex_read_out_of_order :
    sparseReadC false (fun _ => 7) 1000 4 [⟨2, 20, 2⟩, ⟨0, 10, 1⟩] 20 0 20 = .panic 16 ∧
    sparseReadC true (fun _ => 7) 1000 4 [⟨2, 20, 2⟩, ⟨0, 10, 1⟩] 20 0 20 =
      .ok ⟨[0, 0, 0, 0, 0, 0, 0, 0, 7, 7, 7, 7, 7, 7, 7, 7, 0, 0, 0, 0], 20, true, [(80, 8)]⟩ := by
  decide

/-! ### unwritten (preallocated) extents -/

/-- repaired behaviour: whatever `inode.extents.blocks` hands to File.Read, readFileBytes or Remove
    contains no unwritten extent — a file that has one is refused with an error -/
theorem unwritten_refused (rd : Nat → Option Bytes) (fuel : Nat) (root : Bytes) (es : List Extent)
    (h : flattenC true rd fuel root = .ok es) : ∀ e ∈ es, e.count ≤ 32768 := by
  unfold flattenC at h
  split at h
  · rename_i es' _
    split at h
    · cases h
    · rename_i hany
      simp only [Res.ok.injEq] at h
      subst h
      intro e he
      simp only [Bool.true_and, Bool.not_eq_true, List.any_eq_false] at hany
      have := hany e he
      simpa [Extent.unwritten] using this
  · cases h
  · cases h
  · cases h

set_option maxRecDepth 8192 in
/-- as found: an extent of 8 unwritten blocks (length field 32768+8) behind two data blocks is mapped as
    data — Read returns the device bytes of the reserved blocks (here 7) where the file reads as zeros -/
theorem cex_unwritten_read_as_data :
    flattenC false (fun _ => none) 1 (leEnc 2 0xf30a ++ leEnc 2 2 ++ leEnc 2 4 ++ leEnc 2 0 ++ leEnc 4 0 ++
        (leEnc 4 0 ++ leEnc 2 2 ++ leEnc 2 0 ++ leEnc 4 10) ++ (leEnc 4 2 ++ leEnc 2 32776 ++ leEnc 2 0 ++ leEnc 4 20) ++
        zeros 24) = .ok [⟨0, 10, 2⟩, ⟨2, 20, 32776⟩] ∧
    sparseRead (fun _ => 7) 1000 4 [⟨0, 10, 2⟩, ⟨2, 20, 32776⟩] 16 8 4 = .ok ⟨[7, 7, 7, 7], 12, false, [(80, 4)]⟩ ∧
    flattenC true (fun _ => none) 1 (leEnc 2 0xf30a ++ leEnc 2 2 ++ leEnc 2 4 ++ leEnc 2 0 ++ leEnc 4 0 ++
        (leEnc 4 0 ++ leEnc 2 2 ++ leEnc 2 0 ++ leEnc 4 10) ++ (leEnc 4 2 ++ leEnc 2 32776 ++ leEnc 2 0 ++ leEnc 4 20) ++
        zeros 24) = .err := by
  decide

/-- the mirror follows the tree: refusal of unwritten extents is read from extent.go on every run -/
theorem facts_agree_unwritten : refuseUnwrittenCurrent = Ext4Ref.extentRefusesUnwritten := rfl

/-! non-vacuity: a file with a leading hole, a hole between extents and a trailing hole -/
def exSparse : List Extent := [⟨2, 10, 1⟩, ⟨5, 20, 2⟩]
example : SortedExts exSparse := by simp [exSparse, SortedExts]
example : ExtsOnDev 4 100 exSparse := by simp [exSparse, ExtsOnDev]
example : sparseRead (fun i => UInt8.ofNat i) 100 4 exSparse 34 6 30 =
    .ok ⟨[0, 0, 40, 41, 42, 43, 0, 0, 0, 0, 0, 0, 0, 0, 80, 81, 82, 83, 84, 85, 86, 87, 0, 0, 0, 0, 0, 0],
      34, true, [(40, 4), (80, 8)]⟩ := by decide
example : readUntilEof (fun i => UInt8.ofNat i) 100 4 exSparse 13 5 4 0 [] =
    some [0, 0, 0, 0, 0, 0, 0, 0, 40, 41, 42, 43, 0] := by decide

/-! ### group descriptors and inode addressing (groupdescriptors.go, ext4.go readInodeRaw) -/

/-- a 64-byte descriptor: every field is recovered from its low half in the first 32 bytes and its
    high half behind them (block numbers to 64 bits, counters and bitmap checksums to 32 bits),
    whatever the checksum and reserved words hold and whatever follows the descriptor -/
theorem gd_decode_wide (v : GdInfo) (csum rsv : Nat) (tail : Bytes) (h : GdWF64 v) :
    gdDecode (gdEncode v csum rsv ++ tail) 64 = v :=
  gdDecode_wide v csum rsv tail h

/-- any other descriptor size (32 without the 64bit feature): the reader takes the low halves only,
    the bytes behind the first 32 play no role -/
theorem gd_decode_narrow (v : GdInfo) (csum rsv : Nat) (tail : Bytes) (gdSize : Nat) (hg : gdSize ≠ 64) :
    gdDecode (gdEncode v csum rsv ++ tail) gdSize = gdLow v :=
  gdDecode_narrow v csum rsv tail gdSize hg

/-- groupDescriptorsFromBytes over a table of 64-byte descriptors returns every descriptor's values -/
theorem gdt_decode_roundtrip (vs : List (GdInfo × Nat × Nat)) (h : ∀ p ∈ vs, GdWF64 p.1) :
    gdtDecode (gdtEncode vs) 64 = some (vs.map (·.1)) := by
  unfold gdtDecode
  rw [if_neg (by decide), gdtEncode_length, Nat.mul_div_cancel_left _ (by decide : 0 < 64)]
  congr 1
  apply List.ext_getElem
  · simp
  · intro i h1 h2
    simp only [List.length_map, List.length_range] at h1
    simp only [List.getElem_map, List.getElem_range]
    rw [gdtEncode_slice vs i h1]
    have := gdDecode_wide vs[i].1 vs[i].2.1 vs[i].2.2 [] (h _ (List.getElem_mem h1))
    rw [List.append_nil] at this
    exact this

/-- readInodeRaw: a valid inode number n (1 ≤ n ≤ groups × inodesPerGroup) is read from
    table(group) × blockSize + index × inodeSize with group = (n−1) / inodesPerGroup and
    index = (n−1) mod inodesPerGroup — inside the table of its own group -/
theorem inode_location (g : InoGeo) (tables : List Nat) (h : TablesWF g tables) (n : Nat)
    (h1 : 1 ≤ n) (h2 : n ≤ tables.length * g.inodesPerGroup) :
    inodeLoc g tables n = some (tables.getD ((n - 1) / g.inodesPerGroup) 0 * g.blockSize +
      (n - 1) % g.inodesPerGroup * g.inodeSize, g.inodeSize) ∧
    (n - 1) % g.inodesPerGroup * g.inodeSize + g.inodeSize ≤ g.inodesPerGroup * g.inodeSize :=
  ⟨(inodeLoc_valid g tables h n h1 h2).2.1, (inodeLoc_valid g tables h n h1 h2).2.2⟩

/-- distinct inode numbers are read from disjoint byte ranges of the inode tables -/
theorem inode_ranges_disjoint (g : InoGeo) (tables : List Nat) (h : TablesWF g tables) (n m : Nat)
    (hn1 : 1 ≤ n) (hn2 : n ≤ tables.length * g.inodesPerGroup)
    (hm1 : 1 ≤ m) (hm2 : m ≤ tables.length * g.inodesPerGroup) (hne : n ≠ m) :
    ∃ on om, inodeLoc g tables n = some (on, g.inodeSize) ∧ inodeLoc g tables m = some (om, g.inodeSize) ∧
      (on + g.inodeSize ≤ om ∨ om + g.inodeSize ≤ on) :=
  inodeLoc_disjoint g tables h n m hn1 hn2 hm1 hm2 hne

/-- inode 0 and numbers beyond the last group are refused (no read is issued) -/
theorem inode_number_refused (g : InoGeo) (tables : List Nat) (n : Nat)
    (h : n = 0 ∨ g.inodesPerGroup = 0 ∨ tables.length * g.inodesPerGroup < n) : inodeLoc g tables n = none :=
  inodeLoc_refused g tables n h

/-- from the raw descriptor table to the device read: with 64-byte descriptors holding the values
    `vs`, inode n is read at (inode table of its group, both halves) × blockSize + index × inodeSize -/
theorem inode_raw_from_gdt (g : InoGeo) (vs : List (GdInfo × Nat × Nat)) (hw : ∀ p ∈ vs, GdWF64 p.1)
    (h : TablesWF g (vs.map (·.1.inodeTable))) (devSize n : Nat)
    (h1 : 1 ≤ n) (h2 : n ≤ vs.length * g.inodesPerGroup)
    (hdev : ∀ p ∈ vs, p.1.inodeTable * g.blockSize + g.inodesPerGroup * g.inodeSize ≤ devSize) :
    inodeRawLoc g (gdtEncode vs) 64 devSize n =
      some (((vs.map (·.1.inodeTable)).getD ((n - 1) / g.inodesPerGroup) 0) * g.blockSize +
        (n - 1) % g.inodesPerGroup * g.inodeSize, g.inodeSize) := by
  have hl : (vs.map (·.1.inodeTable)).length = vs.length := by simp
  obtain ⟨hbg, hloc, hin⟩ := inodeLoc_valid g _ h n h1 (by rw [hl]; exact h2)
  unfold inodeRawLoc
  rw [gdt_decode_roundtrip vs hw]
  simp only [List.map_map]
  have hm : (List.map ((fun x => x.inodeTable) ∘ fun x => x.1) vs) = vs.map (·.1.inodeTable) := rfl
  rw [hm, hloc]
  simp only []
  rw [hl] at hbg
  have hmem : vs[(n - 1) / g.inodesPerGroup] ∈ vs := List.getElem_mem hbg
  have hd := hdev _ hmem
  have hget : (vs.map (·.1.inodeTable)).getD ((n - 1) / g.inodesPerGroup) 0 =
      vs[(n - 1) / g.inodesPerGroup].1.inodeTable := by
    simp [List.getD_eq_getElem?_getD, hbg]
  rw [hget]
  have hisz : 0 < g.inodeSize := h.2.1
  rw [if_neg (by omega)]

/-! ### extended attribute entries (xattr.go parseXattrEntries) -/

/-- xattr_parse_roundtrip: parsing an encoded entry table — at any 4-aligned position `pre.length` of
    the entries buffer, followed by a terminator or by fewer than 16 bytes — returns exactly what the
    entries say, in order: full name = prefix of the index ++ name, value = the `size` bytes at `offs`
    of the value buffer (a later entry with the same name replaces the earlier one; an empty value is
    kept when the configuration keeps empty values).  No error, no panic, for every fuel above the
    entry count. -/
theorem xattr_parse_roundtrip (cfg : Cfg) (tbl : List (Nat × String)) (values : Bytes)
    (xs : List XEnt) (pre tail : Bytes) (acc : List (Bytes × Bytes)) (fuel : Nat)
    (hal : pre.length % 4 = 0) (hwf : ∀ x ∈ xs, XWF values x) (hf : xs.length < fuel) (ht : TermOK tail) :
    parseXattrs cfg tbl (pre ++ encXTable xs ++ tail) values fuel pre.length acc =
      .ok (xs.foldl (xaStep cfg tbl values) acc) :=
  parseXattrs_enc cfg tbl values xs pre tail acc fuel hal hwf hf ht

/-- in-inode variant (readIbodyXattrs: parseXattrEntries(data, data)): value offsets count from the
    first entry, entries and values share one buffer -/
theorem xattr_ibody_roundtrip (cfg : Cfg) (tbl : List (Nat × String)) (xs : List XEnt) (tail : Bytes)
    (hwf : ∀ x ∈ xs, XWF (encXTable xs ++ tail) x) (ht : TermOK tail) :
    parseXattrs cfg tbl (encXTable xs ++ tail) (encXTable xs ++ tail) (xs.length + 1) 0 [] =
      .ok (xs.foldl (xaStep cfg tbl (encXTable xs ++ tail)) []) := by
  have := parseXattrs_enc cfg tbl (encXTable xs ++ tail) xs [] tail [] (xs.length + 1) rfl hwf (by omega) ht
  simpa using this

/-- block variant (readBlockXattrs: parseXattrEntries(block[32:], block)): value offsets count from the
    start of the block, i.e. from 32 bytes before the first entry -/
theorem xattr_block_roundtrip (cfg : Cfg) (tbl : List (Nat × String)) (xs : List XEnt) (hdr tail : Bytes)
    (hwf : ∀ x ∈ xs, XWF (hdr ++ (encXTable xs ++ tail)) x) (ht : TermOK tail) :
    parseXattrs cfg tbl (encXTable xs ++ tail) (hdr ++ (encXTable xs ++ tail)) (xs.length + 1) 0 [] =
      .ok (xs.foldl (xaStep cfg tbl (hdr ++ (encXTable xs ++ tail))) []) := by
  have := parseXattrs_enc cfg tbl (hdr ++ (encXTable xs ++ tail)) xs [] tail [] (xs.length + 1) rfl hwf (by omega) ht
  simpa using this

/-- with pairwise distinct full names (and empty values kept, the repaired position of the switch)
    the result lists every attribute exactly once, in table order -/
theorem xattr_distinct_all_listed (cfg : Cfg) (hk : cfg.xattrKeepEmpty = true) (tbl : List (Nat × String))
    (values : Bytes) (xs : List XEnt)
    (hd : (xs.map fun x => xattrPrefix tbl x.idx ++ x.name).Nodup) :
    xs.foldl (xaStep cfg tbl values) [] =
      xs.map fun x => (xattrPrefix tbl x.idx ++ x.name, if x.size > 0 then slice values x.offs (x.offs + x.size) else []) := by
  have key : ∀ (xs : List XEnt) (acc : List (Bytes × Bytes)),
      (xs.map fun x => xattrPrefix tbl x.idx ++ x.name).Nodup →
      (∀ x ∈ xs, ∀ p ∈ acc, p.1 ≠ xattrPrefix tbl x.idx ++ x.name) →
      xs.foldl (xaStep cfg tbl values) acc = acc ++
        xs.map fun x => (xattrPrefix tbl x.idx ++ x.name, if x.size > 0 then slice values x.offs (x.offs + x.size) else []) := by
    intro xs
    induction xs with
    | nil => intro acc _ _; simp
    | cons x rest ih =>
      intro acc hnd hacc
      simp only [List.map_cons, List.nodup_cons] at hnd
      have hstep : xaStep cfg tbl values acc x = acc ++
          [(xattrPrefix tbl x.idx ++ x.name, if x.size > 0 then slice values x.offs (x.offs + x.size) else [])] := by
        have hfil : acc.filter (fun p => p.1 ≠ xattrPrefix tbl x.idx ++ x.name) = acc := by
          rw [List.filter_eq_self]
          intro p hp
          simpa using hacc x (List.mem_cons_self ..) p hp
        unfold xaStep xaInsert
        split
        · rw [hfil]
        · rw [hfil]
      rw [List.foldl_cons, hstep, ih _ hnd.2]
      · simp
      · intro y hy p hp
        rcases List.mem_append.1 hp with h | h
        · exact hacc y (List.mem_cons_of_mem _ hy) p h
        · simp only [List.mem_singleton] at h
          subst h
          intro heq
          exact hnd.1 (by simp only [List.mem_map]; exact ⟨y, hy, heq.symm⟩)
  simpa using key xs [] hd (by simp)

/-! non-vacuity -/
def exGeo : InoGeo := ⟨1024, 256, 8⟩
example : TablesWF exGeo [10, 40] := by
  refine ⟨by decide, by decide, by decide, ?_, ?_⟩
  · intro i hi
    have : i = 0 ∨ i = 1 := by simp at hi; omega
    rcases this with rfl | rfl <;> decide
  · intro i j hij hj
    have : i = 0 ∧ j = 1 := by simp at hj; omega
    obtain ⟨rfl, rfl⟩ := this
    decide
example : inodeLoc exGeo [10, 40] 9 = some (40960, 256) := by decide
example : inodeLoc exGeo [10, 40] 17 = none := by decide
def exX : XEnt := ⟨1, [102, 111, 111], 40, 3, 0⟩
def exXbuf : Bytes := encXTable [exX] ++ zeros 44
example : XWF exXbuf exX := by simp [XWF, exX, exXbuf, encXTable, encXEnt_length, xPad]
example : TermOK (zeros 44) := Or.inr ⟨by decide, by decide⟩


/-! ### the SPEC reader: mirror = spec, addressing under the validity checks of ext4.Read -/
open Diskfs.Ext4.Spec

/-- the one-pass node decoder the SPEC reader executes is the mirror of parseExtents (header, entry count
    against the block length, 12-byte leaf / index entries with 48-bit block numbers), for all bytes -/
theorem spec_node_decoder (b : Bytes) : seqNode b = parseNode b := seqNode_eq b

/-- SEARCHING the tree from the root for one logical block (one child per level, the kernel's way, what
    the SPEC reader does on the image) finds what a lookup in the fully decoded tree finds — for every
    depth, every block reader, every leaf interpretation -/
theorem spec_tree_search {α : Type} (look : List Extent → Nat → α) (rd : Nat → Option Bytes) (d : Nat)
    (b : Bytes) (t : TreeD d) (lb : Nat) (h : decodeTree rd d b = .ok t) :
    treeSearchG look rd d b lb = .ok (specG look d t lb) :=
  treeSearchG_decode look rd d b t lb h

/-- mirror = spec for extent trees of depth ≥ 0: on a well-formed tree that the Go reader's flattening
    decodes, scanning the flattened list (extentBlockFinder.blocks + the scan of File.Read) maps every
    logical block exactly as the SPEC reader's search from the root does -/
theorem spec_tree_search_equals_flatten (rd : Nat → Option Bytes) (d : Nat) (root : Bytes) (t : TreeD d)
    (lo hi : Nat) (hdec : decodeTree rd d root = .ok t) (hwf : TreeWF d t lo hi) (lb : Nat) :
    flatten rd d root = .ok (mirrorBlocks d t) ∧
    treeSearch rd d root lb = .ok (leafLookup (mirrorBlocks d t) lb) :=
  treeSearch_flatten rd d root t lo hi hdec hwf lb

/-- holes: on a list without unwritten extents the SPEC reader reads a block as data exactly where the
    mirror maps it and as zeros (hole) exactly where the mirror maps nothing -/
theorem spec_block_class (es : List Extent) (lb : Nat) (h : ∀ e ∈ es, e.count ≤ 32768) :
    blockRef es lb = (match leafLookup es lb with | some p => .data p | none => .hole) :=
  blockRef_plain es lb h

/-- unwritten extents read as zeros only inside their real length (length field − 32768) -/
theorem spec_unwritten_range (es : List Extent) (lb : Nat) (h : blockRef es lb = .unwritten) :
    ∃ e ∈ es, e.count > 32768 ∧ e.fileBlock ≤ lb ∧ lb < e.fileBlock + (e.count - 32768) :=
  blockRef_unwritten es lb h

/-- descriptor inside the GDT: for every superblock that passes the validity checks of ext4.Read (volume
    size `size`, 0 = unknown) every descriptor below the group count lies inside the table that was read,
    is at least 32 bytes (64 with the 64bit feature), and the table fits the volume -/
theorem spec_gd_inside_table (g : Geo) (size : Nat) (h : readAccepts g size = true) (grp : Nat)
    (hg : grp < g.groupsGo) :
    g.gdtStart ≤ g.gdOff grp ∧ g.gdOff grp + g.gdSize ≤ g.gdtStart + g.gdSize * g.groupsGo ∧
    (0 < size → g.gdSize * g.groupsGo ≤ size) ∧ 32 ≤ g.gdSize ∧ (g.is64 = true → 64 ≤ g.gdSize) :=
  ⟨(gd_inside_table g size h grp hg).1, (gd_inside_table g size h grp hg).2.1, (gd_inside_table g size h grp hg).2.2,
   (readAccepts_fields g size h).2.2.1, (readAccepts_fields g size h).2.2.2.1⟩

/-- inode offset inside the inode table of its group, total for every inode number: under the same checks
    the slot is below inodesPerGroup, slot × inodeSize + inodeSize stays within the table's
    inodesPerGroup × inodeSize bytes, and these fit the blocks of the table -/
theorem spec_inode_inside_table (g : Geo) (size : Nat) (h : readAccepts g size = true) (n : Nat) :
    g.inoSlot n < g.inodesPerGroup ∧
    g.inoSlot n * g.inodeSize + g.inodeSize ≤ g.inodesPerGroup * g.inodeSize ∧
    g.inodesPerGroup * g.inodeSize ≤ g.itableBlocks * g.blockSize :=
  inode_inside_table g size h n

/-- mirror = spec for inode addressing: readInodeRaw's ReadAt offset (with its uint32 / uint64 arithmetic)
    is the format's offset, and it refuses exactly the numbers that are not inodes of the volume, whenever
    a group's table is at most 2^32 bytes and ends below 2^64 -/
theorem spec_inode_offset_equals_mirror (g : Geo) (tables : List Nat) (n : Nat) (hz : 0 < g.inodeSize)
    (hw : g.inodesPerGroup * g.inodeSize ≤ 4294967296)
    (ht : ∀ t ∈ tables, t * g.blockSize + g.inodesPerGroup * g.inodeSize ≤ 18446744073709551616) :
    (inodeLoc ⟨g.blockSize, g.inodeSize, g.inodesPerGroup⟩ tables n).map (·.1) = inodeOff g tables n :=
  inodeOff_eq_mirror g tables n hz hw ht

/-- the number of groups of the format never exceeds the number superblock.blockGroupCount computes … -/
theorem spec_groups_le (g : Geo) : g.groups ≤ g.groupsGo := groups_le_groupsGo g

/-- … and can be one less: with 1 KiB blocks (first data block 1) and a block count of one above a multiple
    of the group size the library expects one descriptor more than the volume has (mke2fs never makes such
    a volume: it drops a last group that small) -/
theorem cex_groups_go_one_more :
    (⟨1024, 256, 2048, 8192, 1, 4096, 16385, 32, 0, 0x40, 0, 0⟩ : Geo).groups = 2 ∧
    (⟨1024, 256, 2048, 8192, 1, 4096, 16385, 32, 0, 0x40, 0, 0⟩ : Geo).groupsGo = 3 := by decide

/-- the table sits behind the block that holds the superblock: block 2 with 1 KiB blocks, block 1 above,
    which is what ext4.Read computes -/
theorem spec_gdt_start (g : Geo) (k : Nat) (h : g.blockSize = 1024 * 2 ^ k) : g.gdtStart = g.gdtStartGo := by
  unfold Geo.gdtStart Geo.gdtStartGo
  cases k with
  | zero => simp [h]
  | succ k =>
    have h2 : 2 ≤ 2 ^ (k + 1) := by
      have := Nat.one_le_two_pow (n := k)
      rw [Nat.pow_succ]; omega
    have hne : g.blockSize ≠ 1024 := by omega
    have hdiv : 1024 / g.blockSize = 0 := Nat.div_eq_of_lt (by omega)
    rw [if_neg hne, hdiv]

/-- the validity checks the addressing theorems assume are the ones in ext4.Read now (in source order),
    and the as-found switch of DirEntry.Info the driver follows is read from the source -/
theorem facts_agree_read_checks :
    Ext4Ref.readChecks = ["sb.blocksPerGroup == 0 || sb.inodesPerGroup == 0",
      "sb.groupDescriptorSize < 32 || (sb.features.fs64Bit && sb.groupDescriptorSize < 64)",
      "sb.inodeSize < uint16(ext2InodeSize) || uint32(sb.inodeSize) > sb.blockSize",
      "size > 0 && sb.blockCount > uint64(size)/uint64(sb.blockSize)+1",
      "size > 0 && gdtSize > uint64(size)", "gdtSize == 0"] ∧
    dirInfoModeFromTypeCurrent = Ext4Ref.dirEntryInfoModeFromType := by
  decide

/-! non-vacuity -/
def exSGeo : Geo := ⟨1024, 256, 2048, 8192, 1, 4096, 16384, 64, 0, 0xc2, 0x400, 0⟩
example : readAccepts exSGeo 16777216 = true := by decide
example : exSGeo.groupsGo = 2 ∧ exSGeo.groups = 2 ∧ exSGeo.gdtStart = 2048 ∧ exSGeo.gdOff 1 = 2112 := by decide
example : inodeOff exSGeo [35, 8227] 2050 = some (8227 * 1024 + 256) := by decide
example : inodeOff exSGeo [35, 8227] 4097 = none := by decide
/-- a depth-1 tree: the root (in i_block) indexes one leaf block (number 7) that maps blocks 0..1 and 5 -/
def exLeafBlk : Bytes := leEnc 2 0xf30a ++ leEnc 2 2 ++ leEnc 2 4 ++ leEnc 2 0 ++ leEnc 4 0 ++
  (leEnc 4 0 ++ leEnc 2 2 ++ leEnc 2 0 ++ leEnc 4 100) ++ (leEnc 4 5 ++ leEnc 2 1 ++ leEnc 2 0 ++ leEnc 4 300)
def exRootBlk : Bytes := leEnc 2 0xf30a ++ leEnc 2 1 ++ leEnc 2 4 ++ leEnc 2 1 ++ leEnc 4 0 ++
  (leEnc 4 0 ++ leEnc 4 7 ++ leEnc 2 0 ++ leEnc 2 0) ++ zeros 36
def exRd (n : Nat) : Option Bytes := if n = 7 then some exLeafBlk else none
set_option maxRecDepth 8192 in
example : flatten exRd 1 exRootBlk = .ok [⟨0, 100, 2⟩, ⟨5, 300, 1⟩] := by decide
set_option maxRecDepth 8192 in
example : treeSearch exRd 1 exRootBlk 5 = .ok (some 300) ∧ treeSearch exRd 1 exRootBlk 3 = .ok none := by decide
example : blockRef [⟨0, 100, 2⟩, ⟨2, 200, 32770⟩] 3 = .unwritten ∧ blockRef [⟨0, 100, 2⟩, ⟨2, 200, 32770⟩] 4 = .hole := by decide


/-! ### inode decoding: mirror of inodeFromBytes = SPEC decoder, field by field -/
open Diskfs.Ext4.InodeDec Diskfs.Ext4.InodeCodec

/-- the SPEC reader's readInode (over the image, at the inode's offset) IS the byte-level SPEC decoder applied
    to the record: every field, the i_extra_isize rule and the crc32c checksum with its cleared fields -/
theorem spec_inode_of_bytes (f : Fs) (n o : Nat) (ho : inodeOff f.geo f.tables n = some o)
    (hr : f.img.inRange o f.geo.inodeSize = true) (hisz : f.geo.inodeSize = 128 ∨ 132 ≤ f.geo.inodeSize) :
    readInode f n = .ok (specInode f.geo f.seed n o (f.img.bytes o f.geo.inodeSize)) :=
  readInode_eq f n o ho hr hisz

/-- mirror = spec, the classic fields: for EVERY record of the inode size (128, or at least 132 bytes), the
    mirror of inodeFromBytes and the SPEC decoder return the same mode, owner and group (both halves), size
    (both halves), link count, flags, i_blocks in 512-byte units (huge_file scaling), generation, xattr
    block (both halves), i_block and — on large inodes — i_extra_isize -/
theorem mirror_inode_fields_eq_spec (guarded : Bool) (g : Geo) (seed : UInt32) (n o : Nat) (raw : Bytes)
    (hl : raw.length = g.inodeSize) (hisz : g.inodeSize = 128 ∨ 132 ≤ g.inodeSize) :
    let gi := goDecode guarded g.hugeFile g.inodeSize raw
    let si := specInode g seed n o raw
    si.mode = gi.mode ∧ si.uid = gi.uid ∧ si.gid = gi.gid ∧ si.size = gi.size ∧ si.links = gi.links ∧
    si.flags = gi.flags ∧ si.blocks512 = gi.blocks512 g.blockSize ∧ si.gen = gi.gen ∧ si.fileAcl = gi.fileAcl ∧
    si.iblock = gi.iblock ∧ (g.inodeSize > 128 → si.extra = gi.extra) :=
  goDecode_base_eq_spec guarded g seed n o raw hl hisz

/-- mirror = spec, the four 34-bit timestamps with nanoseconds: equal on every record for the REPAIRED reader
    (extra words honoured only where i_extra_isize reaches them); for the reader AS FOUND on 128-byte inodes
    and on every inode whose i_extra_isize covers the timestamp words (≥ 24, what mke2fs and current kernels
    write: 32) -/
theorem mirror_inode_times_eq_spec (guarded : Bool) (g : Geo) (seed : UInt32) (n o : Nat) (raw : Bytes)
    (hl : raw.length = g.inodeSize) (hisz : g.inodeSize = 128 ∨ 132 ≤ g.inodeSize)
    (hfit : guarded = true ∨ g.inodeSize = 128 ∨ (0x98 ≤ 128 + le16 raw 0x80 ∧ 0x98 ≤ g.inodeSize)) :
    let gi := goDecode guarded g.hugeFile g.inodeSize raw
    let si := specInode g seed n o raw
    si.atime = gi.atime ∧ si.ctime = gi.ctime ∧ si.mtime = gi.mtime ∧ si.crtime = gi.crtime :=
  goDecode_times_eq_spec guarded g seed n o raw hl hisz hfit

/-- finding ext4-inode-extra-isize-ignored: as found, a 256-byte inode with i_extra_isize = 4 (legal: e2fsck
    accepts it, debugfs makes it) whose bytes behind the extra area are in use (here one byte of an in-inode
    attribute at 0x88) gets a modification time 2^32 seconds off, where the format — and the repaired reader —
    say the extra word does not exist -/
def exSmallExtra : Bytes := zeros 0x80 ++ [4, 0] ++ zeros 6 ++ [1, 0, 0, 0] ++ zeros (256 - 0x8c)
set_option maxRecDepth 100000 in
theorem cex_extra_isize_ignored :
    (goDecode false false 256 exSmallExtra).mtime = ⟨4294967296, 0⟩ ∧
    (specInode ⟨1024, 256, 2048, 8192, 1, 4096, 16384, 64, 0, 0xc2, 0x400, 0⟩ 0 12 0 exSmallExtra).mtime = ⟨0, 0⟩ ∧
    (goDecode true false 256 exSmallExtra).mtime = ⟨0, 0⟩ := by decide

/-- symbolic links: the Go reader takes the target from i_block when size < 60, the kernel (and the SPEC
    reader) when the inode owns no data blocks beyond its xattr block.  On a symlink inode the two rules
    differ EXACTLY when a short link owns data blocks or a long link owns none -/
theorem symlink_rules_differ_exactly (mode size blocks512 ea : Nat) (hl : mode / 4096 = 10) :
    goFast mode size ≠ specFast mode blocks512 ea ↔
      (size < 60 ∧ ea < blocks512) ∨ (60 ≤ size ∧ blocks512 ≤ ea) :=
  symlink_rules_differ_iff mode size blocks512 ea hl

/-- … so they agree on every inode whose i_blocks is the xattr block plus the data blocks and whose writer
    keeps targets below 60 bytes in the inode (ext2fs_symlink and the kernel without encryption / inline
    data): in particular on a fast symlink WITH an external xattr block (i_blocks ≠ 0, the regime of 128-byte
    inodes), where a reader testing `i_blocks == 0` would go wrong -/
theorem symlink_rules_agree_on_wellformed (mode size blocks512 ea data : Nat) (hacc : blocks512 = ea + data)
    (hw : data = 0 ↔ size < 60) : goFast mode size = specFast mode blocks512 ea :=
  InodeDec.symlink_rules_agree mode size blocks512 ea data hacc hw

/-- checksum VERIFICATION decision, equal as functions of the bytes: for every record, seed and inode number
    the mirror of inodeFromBytes' check (crc32c over seed, number, generation and the record with the checksum
    fields cleared; all 32 bits when the record has 0x84 bytes, else the low 16) decides as the format does,
    on 128-byte inodes and wherever i_extra_isize ≥ 4 (e2fsck's minimum) -/
theorem mirror_inode_csum_eq_spec (seed : UInt32) (n isz : Nat) (raw : Bytes) (hl : raw.length = isz)
    (h : isz = 128 ∨ (132 ≤ isz ∧ 4 ≤ le16 raw 0x80)) :
    goCsumOk seed n raw = specCsumOk seed n isz raw :=
  goCsumOk_eq_spec seed n isz raw hl h

/-- the image-level checksum of the SPEC reader (crc over a byte range of the image with positions skipped)
    is crc32c of the record with those fields cleared -/
theorem spec_inode_csum_range (i : Img) (o isz : Nat) (hi : Bool) (c : UInt32) :
    i.crcRange (fun p => p == o + 0x7c || p == o + 0x7d || hi && (p == o + 0x82 || p == o + 0x83)) o isz c =
      crc32c c (clearCsum hi (i.bytes o isz)) :=
  crcRange_cleared i o isz hi c

/-! non-vacuity -/
example : goFast 0xa1ff 5 = true ∧ specFast 0xa1ff 2 2 = true ∧ specFast 0xa1ff 2 0 = false := by decide
example : (0x98 ≤ 128 + 32 ∧ 0x98 ≤ 256) := by decide

/-! ### directory blocks: mirror of parseDirEntriesLinear (as it is now) = SPEC walk -/

/-- mirror = spec for one directory block: on EVERY block whose rec_len chain tiles it (records of at least 12
    bytes, multiples of 4, inside the block, covering their names — unused records with inode 0, the checksum
    tail and names up to 255 bytes included) the mirror of parseDirEntriesLinear's loop succeeds and its entries
    in use are exactly what the rec_len walk of the SPEC reader returns, in order -/
theorem mirror_dir_block_eq_spec (bs : Nat) (blk : Bytes) (h : Tiles blk) (hl : blk.length = bs) :
    ∃ es, parseEntriesNow (bs / 8 + 2) blk = .ok es ∧
      dirWalk bs (bs / 8 + 2) blk 0 [] = .ok (liveEntries es) := by
  obtain ⟨es, h1, h2⟩ := tiles_walk bs blk.length blk (Nat.le_refl _) h (bs / 8 + 2) (bs / 8 + 2) 0 []
    (by omega) (by omega) (by omega)
  exact ⟨es, h1, by simpa using h2⟩

/-! ### extended attributes: mirror of parseXattrEntries = SPEC walk -/

/-- in-inode table (readIbodyXattrs hands parseXattrEntries the bytes behind the magic as entries AND values;
    the SPEC reader walks the whole record with the position of the first entry as value base): for every
    well-formed table with distinct names, ended by four zero bytes or the end of the record, both return the
    same list of (name, value) — given that the two prefix tables name the indices alike (`hpre`; the
    correspondence compares the names on every attribute of the images) -/
theorem mirror_xattr_ibody_eq_spec (cfg : Cfg) (hk : cfg.xattrKeepEmpty = true) (tbl : List (Nat × String))
    (xs : List XEnt) (pre tail : Bytes) (hal : pre.length % 4 = 0)
    (hwf : ∀ x ∈ xs, XWF (encXTable xs ++ tail) x) (ht : TermZero tail)
    (hd : (xs.map fun x => xattrPrefix tbl x.idx ++ x.name).Nodup)
    (hpre : ∀ x ∈ xs, xattrPrefix tbl x.idx = xattrPrefixSpec x.idx) :
    ∃ L, parseXattrs cfg tbl (encXTable xs ++ tail) (encXTable xs ++ tail) (xs.length + 1) 0 [] = .ok L ∧
      xattrWalk (pre ++ (encXTable xs ++ tail)) pre.length (pre ++ (encXTable xs ++ tail)).length
        (xs.length + 1) pre.length [] = .ok L := by
  refine ⟨_, xattr_ibody_roundtrip cfg tbl xs tail hwf (termZero_termOK tail ht), ?_⟩
  rw [xattr_distinct_all_listed cfg hk tbl _ xs hd]
  rw [xattrWalk_enc (pre ++ (encXTable xs ++ tail)) pre.length xs pre tail [] (xs.length + 1)
    (by simp [List.append_assoc]) hal ?_ (by omega) ht]
  · simp only [List.reverse_nil, List.nil_append]
    congr 1
    apply List.map_congr_left
    intro x hx
    simp only [specEntry, hpre x hx]
    congr 1
    have := slice_shift pre (encXTable xs ++ tail) x.offs (x.offs + x.size)
    rw [Nat.add_assoc, this]
  · intro x hx
    obtain ⟨h1, h2, h3, h4, h5, h6⟩ := hwf x hx
    refine ⟨h1, h2, h3, h4, h5, ?_⟩
    intro hp
    have := h6 hp
    simp only [List.length_append] at this ⊢
    omega

/-- xattr block (readBlockXattrs: entries behind the 32-byte header, value offsets from the start of the block;
    the SPEC reader walks the block from byte 32 with value base 0) -/
theorem mirror_xattr_block_eq_spec (cfg : Cfg) (hk : cfg.xattrKeepEmpty = true) (tbl : List (Nat × String))
    (xs : List XEnt) (hdr tail : Bytes) (hal : hdr.length % 4 = 0)
    (hwf : ∀ x ∈ xs, XWF (hdr ++ (encXTable xs ++ tail)) x) (ht : TermZero tail)
    (hd : (xs.map fun x => xattrPrefix tbl x.idx ++ x.name).Nodup)
    (hpre : ∀ x ∈ xs, xattrPrefix tbl x.idx = xattrPrefixSpec x.idx) :
    ∃ L, parseXattrs cfg tbl (encXTable xs ++ tail) (hdr ++ (encXTable xs ++ tail)) (xs.length + 1) 0 [] = .ok L ∧
      xattrWalk (hdr ++ (encXTable xs ++ tail)) 0 (hdr ++ (encXTable xs ++ tail)).length
        (xs.length + 1) hdr.length [] = .ok L := by
  refine ⟨_, xattr_block_roundtrip cfg tbl xs hdr tail hwf (termZero_termOK tail ht), ?_⟩
  rw [xattr_distinct_all_listed cfg hk tbl _ xs hd]
  rw [xattrWalk_enc (hdr ++ (encXTable xs ++ tail)) 0 xs hdr tail [] (xs.length + 1)
    (by simp [List.append_assoc]) hal ?_ (by omega) ht]
  · simp only [List.reverse_nil, List.nil_append]
    congr 1
    apply List.map_congr_left
    intro x hx
    simp only [specEntry, hpre x hx, Nat.zero_add]
  · intro x hx
    obtain ⟨h1, h2, h3, h4, h5, h6⟩ := hwf x hx
    refine ⟨h1, h2, h3, h4, h5, ?_⟩
    intro hp
    have := h6 hp
    omega

/-! non-vacuity: a block of two records (a file "a", then the 12-byte checksum tail), an attribute table -/
def exDirBlk : Bytes := [12, 0, 0, 0, 12, 0, 1, 1, 97, 0, 0, 0] ++ [0, 0, 0, 0, 12, 0, 0, 0xde, 1, 2, 3, 4]
example : Tiles exDirBlk :=
  Tiles.cons _ (by decide) (by decide) (by decide) (by decide)
    (Tiles.cons _ (by decide) (by decide) (by decide) (by decide)
      (by
        have h : List.drop (le16 (List.drop (le16 exDirBlk 4) exDirBlk) 4) (List.drop (le16 exDirBlk 4) exDirBlk) = [] := by
          decide
        rw [h]; exact Tiles.nil))
example : parseEntriesNow 5 exDirBlk = .ok [⟨12, 1, [97]⟩, ⟨0, 0xde, []⟩] ∧
    (dirWalk 24 5 exDirBlk 0 []).toOption = some [⟨12, 1, [97]⟩] := by decide
example : TermZero (zeros 44) := Or.inr ⟨zeros 40, rfl⟩

/-! ### the feature gate as a decision table (regenerated from features.go / ext4.Read) -/

/-- a bit the table lists as refused makes ext4.Read fail whenever it is set, whatever else the word holds -/
theorem gate_refuses_listed (t : GateTbl) (word b : Nat) (hb : b ∈ t.refused) (hs : hasBit word b = true) :
    gateAcceptsT t word = false :=
  gate_table_refuses t word b hb hs

/-- … and a bit it lists as required makes it fail whenever it is clear -/
theorem gate_requires_listed (t : GateTbl) (word b : Nat) (hb : b ∈ t.required) (hs : hasBit word b = false) :
    gateAcceptsT t word = false :=
  gate_table_requires t word b hb hs

/-- the unsupported-feature clause, for every gate table: IF the table refuses every single-bit position of the
    INCOMPAT word outside the supported set (`gateUncovered t = []`), THEN an image whose INCOMPAT word has any
    bit outside the supported set is refused -/
theorem gate_refuses_outside_supported (t : GateTbl) (hcover : gateUncovered t = []) (word k : Nat) (hk : k < 32)
    (hbit : hasBit word (2 ^ k) = true) (hns : supportedIncompat.contains (2 ^ k) = false) :
    gateAcceptsT t word = false :=
  Reader.gate_refuses_outside_supported t hcover word k hk hbit hns

/-- the table ext4.Read has NOW: INCOMPAT refuses inline_data and demands extents, nothing else; no RO_COMPAT and
    no COMPAT bit is looked at.  It is the gate the mirror `gateAccepts` (unsupported_rejected /
    supported_accepted) speaks about -/
theorem facts_agree_gate_table :
    GateTbl.incompatCurrent = ⟨[0x8000], [0x40]⟩ ∧ GateTbl.roCompatCurrent = ⟨[], []⟩ ∧
    GateTbl.compatCurrent = ⟨[], []⟩ ∧
    Ext4Ref.featIncompatBits = [1, 2, 4, 8, 16, 64, 128, 256, 512, 1024, 4096, 8192, 16384, 32768, 65536] ∧
    Ext4Ref.featIncompatNames.length = Ext4Ref.featIncompatBits.length ∧
    Ext4Ref.featRoCompatNames.length = Ext4Ref.featRoCompatBits.length ∧
    Ext4Ref.featCompatNames.length = Ext4Ref.featCompatBits.length := by
  decide

theorem gate_table_is_mirror (incompat : Nat) :
    gateAcceptsT GateTbl.incompatCurrent incompat = gateAccepts Cfg.current incompat := by
  have h1 : Cfg.current.gateRequiresExtents = true := by decide
  have h2 : Cfg.current.gateRefusesInlineData = true := by decide
  rw [facts_agree_gate_table.1]
  simp [gateAcceptsT, gateAccepts, h1, h2, incompatExtents, incompatInlineData, Bool.and_comm]

/-- the gap, exactly: the single-bit positions of the INCOMPAT word that ext4.Read lets pass although the
    reader does not implement them — compression (bit 0), journal to replay (2), journal device (3), meta_bg (4),
    ea_inode (10), dirdata (12), encrypt (16), casefold (17) and every bit the format has not assigned — so
    `gate_refuses_outside_supported` does NOT apply to the gate as it is.  The reference images carrying
    meta_bg, ea_inode, encrypt and casefold are read in every run: meta_bg with several meta groups fails at the
    descriptor checksums, an EA-inode value is refused at its entry, encrypt / casefold set by mke2fs alone
    change nothing on disk -/
theorem gate_current_uncovered :
    gateUncovered GateTbl.incompatCurrent =
      [0, 2, 3, 4, 5, 10, 11, 12, 16, 17, 18, 19, 20, 21, 22, 23, 24, 25, 26, 27, 28, 29, 30, 31] := by
  decide

/-- e.g. meta_bg | extents | 64bit | filetype passes the gate -/
theorem cex_gate_accepts_meta_bg : gateAcceptsT GateTbl.incompatCurrent (0x10 + 0x40 + 0x80 + 0x2) = true := by
  decide

example : gateUncovered ⟨[1, 4, 8, 16, 32, 1024, 2048, 4096, 32768, 65536, 131072] ++
    (List.range 14).map (fun i => 2 ^ (i + 18)), [64]⟩ = [] := by decide

/-! ### hash-indexed directories: the Go reader's hash-tree walk = the SPEC reader's linear walk of the leaves -/

/-- the key reader equivalence for large directories.  Let the directory data hold a hash tree of any depth whose
    walk (the mirror of parseDirEntriesHashed: the dx entries of every node in order, leaf blocks parsed by the
    linear parser, checksum tails stripped with metadata_csum) succeeds with `es`.  If the tree references every
    leaf block of `leaves` exactly once and every leaf is well formed (its records tile it; with metadata_csum they
    tile the part in front of the 12-byte tail), then the SPEC reader's rec_len walk succeeds on every leaf and
    the entries in use the hash-tree walk returned are, up to order, exactly the entries the linear walk of the
    leaf blocks returns — nothing lost, nothing duplicated, nothing invented -/
theorem htree_equals_spec_linear (csum : Bool) (bs : Nat) (data : Bytes) (d : Nat) (blks leaves : List Nat)
    (es : List DirEnt) (h : parseHashed Cfg.fixed csum bs data d blks = .ok es)
    (hperm : ∀ L, leafBlocks bs data d blks = .ok L → L.Perm leaves)
    (htile : ∀ b ∈ leaves, b * bs + bs ≤ data.length ∧ LeafOK csum bs (dirBlock bs data b)) :
    (∀ b ∈ leaves, dirWalk bs (bs / 8 + 2) (dirBlock bs data b) 0 [] =
        .ok (liveEntries (leafEntriesNow csum bs data b))) ∧
    (liveEntries es).Perm ((leaves.map fun b => liveEntries (leafEntriesNow csum bs data b)).flatten) :=
  hashed_eq_spec_leaves csum bs data d blks leaves es h hperm htile

/-- one leaf: the Go reader's linear parser (tail stripped) and the SPEC walk of the whole block -/
theorem leaf_block_mirror_eq_spec (csum : Bool) (bs : Nat) (data : Bytes) (b : Nat)
    (hin : b * bs + bs ≤ data.length) (ht : LeafOK csum bs (dirBlock bs data b)) :
    leafAt Cfg.fixed csum bs data b = .ok (leafEntriesNow csum bs data b) ∧
    dirWalk bs (bs / 8 + 2) (dirBlock bs data b) 0 [] = .ok (liveEntries (leafEntriesNow csum bs data b)) :=
  leaf_ok csum bs data b hin ht

/-- on tiling data the earlier mirror of the entry loop (dir_linear_roundtrip is about it) and the mirror of the
    loop as the source has it now agree -/
theorem dir_mirrors_agree (r : Bytes) (h : Tiles r) (f1 f2 : Nat) (h1 : r.length < 12 * f1) (h2 : r.length < 12 * f2) :
    parseEntries Cfg.fixed f1 r = parseEntriesNow f2 r :=
  parseEntries_eq_now r.length r (Nat.le_refl _) h f1 f2 h1 h2

/-! non-vacuity: the two-record block above is a well-formed leaf of a 24-byte "block size" with a checksum tail -/
example : LeafOK true 24 exDirBlk := by
  refine ⟨by decide, ?_, ?_⟩
  · exact Tiles.cons _ (by decide) (by decide) (by decide) (by decide) (by
      have h : List.drop (le16 (List.take (24 - 12) exDirBlk) 4) (List.take (24 - 12) exDirBlk) = [] := by decide
      rw [h]; exact Tiles.nil)
  · exact ⟨by decide, by decide, by decide, by decide⟩

/-! ### checksum verification decisions: Go reader = SPEC reader, as functions of the bytes -/

/-- superblock: for every image, the SPEC reader's check (crc32c with seed 0xffffffff over the 0x3fc bytes in
    front of s_checksum, read off the image) is the mirror of superblockFromBytes' check on the superblock bytes -/
theorem csum_superblock_eq (i : Img) :
    ((i.crcRange (fun _ => false) 1024 0x3fc 0xFFFFFFFF).toNat == i.u32 (1024 + 0x3fc)) =
      goSbCsumOk (i.bytes 1024 1024) :=
  sb_csum_eq i

/-- the seed of every other checksum: the Go reader takes s_checksum_seed when the field is not zero, the format
    when the csum_seed feature is set — the same seed exactly when the field is non-zero with the feature and
    zero without it (what mke2fs and tune2fs maintain) -/
theorem csum_seed_eq (feat : Bool) (sb : Bytes) (h : feat = true ↔ le32 sb 0x270 ≠ 0) :
    goSeed sb = specSeed feat sb :=
  seed_eq feat sb h

/-- group descriptors: the SPEC reader's check over the image is the format's check over the descriptor bytes
    (crc32c over seed, le32 group number, the descriptor with its checksum field cleared; low 16 bits) … -/
theorem csum_gd_spec (img : Img) (g : Geo) (seed : UInt32) (grp : Nat) (h32 : 0x20 ≤ g.gdSize) :
    (gdRead img g seed grp).2 = specGdCsumOk seed grp (img.bytes (g.gdOff grp) g.gdSize) :=
  gd_csum_spec img g seed grp h32

/-- … and the mirror of groupDescriptorFromBytes' check decides the same for every descriptor of 32 or 64 bytes
    and every group number below 65536 (the Go code feeds the group number into the crc as 16 bits: beyond, on
    volumes of more than 65535 groups, it refuses descriptors the reference tools wrote — an error, not wrong data) -/
theorem csum_gd_mirror_eq_spec (seed : UInt32) (grp gdSize : Nat) (raw : Bytes) (hl : raw.length = gdSize)
    (hs : gdSize = 32 ∨ gdSize = 64) (hg : grp < 65536) :
    goGdCsumOk seed grp gdSize raw = specGdCsumOk seed grp raw :=
  gd_csum_mirror seed grp gdSize raw hl hs hg

/-- directory leaves: on every block that ends in the checksum tail (inode 0, rec_len 12, name_len 0, type 0xde)
    the SPEC reader verifies exactly what parseDirEntriesLinear verifies: crc32c over seed, inode number,
    generation and the block without the tail, against the last four bytes -/
theorem csum_dir_block_eq (f : Fs) (d : Inode) (blk : Bytes) (h12 : 12 ≤ f.bs)
    (ht : le32 blk (f.bs - 12) = 0 ∧ le16 blk (f.bs - 12 + 4) = 12 ∧ u8 blk (f.bs - 12 + 6) = 0 ∧
      u8 blk (f.bs - 12 + 7) = 0xde) :
    dirTailOk f d blk = some (goDirCsumOk f.seed d.num d.gen f.bs blk) :=
  dir_csum_eq f d blk h12 ht

/-! ### the inode codec for all fields, and the frame of the attribute setters on everything that is decoded -/

/-- round trip for ALL fields of the 160 fixed bytes of an inode: the record that holds the numbers `g` at the
    offsets of the format (mode; uid, gid, size, i_blocks, xattr block and version as low / high halves; links,
    flags, generation, dtime, i_extra_isize, project id; the four timestamps as 32 low bits plus the extra word
    with two epoch bits and 30 bits of nanoseconds; the 60 bytes of i_block), with ANY values in the words the
    decoder does not interpret (checksum halves, obsolete fragment address, reserved) and ANY bytes behind
    (in-inode attributes), decodes through the mirror of inodeFromBytes to exactly `g` — as found and, where
    i_extra_isize covers the timestamp words, repaired -/
theorem inode_codec_roundtrip_all_fields (guarded : Bool) (g : GoInode) (cl ch ob rs : Nat) (tail : Bytes)
    (h : FullWF g) (hx : guarded = false ∨ 0x98 ≤ 128 + g.extra) :
    goDecode guarded true (160 + tail.length) (encFull g cl ch ob rs tail) = g :=
  full_roundtrip guarded g cl ch ob rs tail h hx

/-- frame, decoded level: records of equal length (≥ 256) that agree on the bytes of `keep` decode to the same
    value of every field whose bytes lie in `keep` (field by field: Proofs/Ext4InodeFrame.lean goDecode_frame);
    for Chmod on the record: nothing inodeFromBytes decodes changes but the mode word -/
theorem chmod_changes_only_mode (guarded huge : Bool) (isz : Nat) (b : Bytes) (perm : Nat) (h256 : 256 ≤ b.length) :
    let d := goDecode guarded huge isz b
    let d' := goDecode guarded huge isz (chmodBytes b perm)
    d'.uid = d.uid ∧ d'.gid = d.gid ∧ d'.size = d.size ∧ d'.links = d.links ∧ d'.flags = d.flags ∧
    d'.fsBlocks = d.fsBlocks ∧ d'.blocks = d.blocks ∧ d'.gen = d.gen ∧ d'.fileAcl = d.fileAcl ∧
    d'.version = d.version ∧ d'.extra = d.extra ∧ d'.dtime = d.dtime ∧ d'.project = d.project ∧
    d'.atime = d.atime ∧ d'.ctime = d.ctime ∧ d'.mtime = d.mtime ∧ d'.crtime = d.crtime ∧ d'.iblock = d.iblock :=
  chmod_frame_decoded guarded huge isz b perm h256

/-- Chown: only the owner and the group -/
theorem chown_changes_only_ids (guarded huge : Bool) (isz : Nat) (b : Bytes) (uid gid : Option Nat)
    (h256 : 256 ≤ b.length) :
    let d := goDecode guarded huge isz b
    let d' := goDecode guarded huge isz (chownBytes b uid gid)
    d'.mode = d.mode ∧ d'.size = d.size ∧ d'.links = d.links ∧ d'.flags = d.flags ∧
    d'.fsBlocks = d.fsBlocks ∧ d'.blocks = d.blocks ∧ d'.gen = d.gen ∧ d'.fileAcl = d.fileAcl ∧
    d'.version = d.version ∧ d'.extra = d.extra ∧ d'.dtime = d.dtime ∧ d'.project = d.project ∧
    d'.atime = d.atime ∧ d'.ctime = d.ctime ∧ d'.mtime = d.mtime ∧ d'.crtime = d.crtime ∧ d'.iblock = d.iblock :=
  chown_frame_decoded guarded huge isz b uid gid h256

/-- Chtimes: only the access, modification and creation times (the change time and everything else stay) -/
theorem chtimes_changes_only_times (guarded huge : Bool) (isz : Nat) (b : Bytes) (cr at' mt : Ts)
    (h256 : 256 ≤ b.length) :
    let d := goDecode guarded huge isz b
    let d' := goDecode guarded huge isz (chtimesBytes b cr at' mt)
    d'.mode = d.mode ∧ d'.uid = d.uid ∧ d'.gid = d.gid ∧ d'.size = d.size ∧ d'.links = d.links ∧ d'.flags = d.flags ∧
    d'.fsBlocks = d.fsBlocks ∧ d'.blocks = d.blocks ∧ d'.gen = d.gen ∧ d'.fileAcl = d.fileAcl ∧
    d'.version = d.version ∧ d'.extra = d.extra ∧ d'.dtime = d.dtime ∧ d'.project = d.project ∧
    d'.ctime = d.ctime ∧ d'.iblock = d.iblock :=
  chtimes_frame_decoded guarded huge isz b cr at' mt h256

/-! non-vacuity: an inode with ids above 16 bits, a size above 32 bits, times before 1970 and after 2038 -/
example : FullWF ⟨0x81a4, 70000, 100000, 5000000000, 2, 0x80000, 8, false, 7, 0, 1, 32, 0, 0,
    ⟨-5, 1⟩, ⟨4294967300, 999999999⟩, ⟨0, 0⟩, ⟨1700000000, 5⟩, zeros 60⟩ := by
  refine ⟨by decide, by decide, by decide, by decide, by decide, by decide, by decide, by decide, by decide,
    by decide, by decide, by decide, by decide, ?_, ?_, ?_, ?_, by decide, by decide⟩ <;> simp [TsWF]

end Diskfs.Ext4.Reader.C20
