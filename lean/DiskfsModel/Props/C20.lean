/-
  C20 — ext4 volumes made by the reference mke2fs are read correctly.
  Property theorems only; helper lemmas live in Proofs/Ext4Reader.lean.

  What is proved here is about the logic cores of the reader (Model/Ext4/Reader.lean), for all
  inputs: extent trees of every depth and shape, every logical block, every list of directory
  entries, every hash tree, every feature word.  That the Go reader computes what the mirror
  computes is checked on every run by the correspondence (hooks on reference images and on
  synthetic inputs); that whole images read back equal to the host tree is the engine's oracle.
-/
import DiskfsModel.Proofs.Ext4Reader
import DiskfsModel.Model.Ext4.ReaderCfg
namespace Diskfs.Ext4.Reader.C20

/-- Flattening (extentBlockFinder.blocks: concatenate the leaves, children in order, interior
    nodes of any depth) maps every logical block exactly as a search of the tree from the root does. -/
theorem extent_tree_flatten (d : Nat) (t : TreeD d) (lo hi : Nat) (h : TreeWF d t lo hi) (lb : Nat) :
    leafLookup (mirrorBlocks d t) lb = specLookup d t lb :=
  flatten_lookup d t lo hi lb h

/-- A logical block that the tree does not map reads as zeros through the flattened list
    (for every device content, block size and file size). -/
theorem hole_reads_zero (d : Nat) (t : TreeD d) (lo hi : Nat) (h : TreeWF d t lo hi)
    (dev : Dev) (bs size p : Nat) (hp : p < size) (hole : specLookup d t (p / bs) = none) :
    fileByte (leafLookup (mirrorBlocks d t)) dev bs size p = some 0 := by
  unfold fileByte
  rw [if_pos hp, extent_tree_flatten d t lo hi h, hole]

/-- …and a mapped block reads the device byte the tree search designates. -/
theorem mapped_reads_device (d : Nat) (t : TreeD d) (lo hi : Nat) (h : TreeWF d t lo hi)
    (dev : Dev) (bs size p phys : Nat) (hp : p < size) (hm : specLookup d t (p / bs) = some phys) :
    fileByte (leafLookup (mirrorBlocks d t)) dev bs size p = some (dev (phys * bs + p % bs)) := by
  unfold fileByte
  rw [if_pos hp, extent_tree_flatten d t lo hi h, hm]

/-- The rec_len walk returns exactly the entries that were encoded, in order, whatever slack
    each record carries — for names the configuration can represent (as found: < 248 bytes). -/
theorem dir_linear_roundtrip (cfg : Cfg) (es : List (DirEnt × Nat)) (fuel : Nat)
    (hwf : ∀ p ∈ es, EntWF cfg p) (hf : es.length < fuel) :
    parseEntries cfg fuel (encEntries es) = .ok (es.map Prod.fst) :=
  parseEntries_enc cfg es fuel hwf hf

/-- With the repaired name bound all 255 name lengths are covered. -/
theorem dir_linear_roundtrip_fixed (es : List (DirEnt × Nat)) (fuel : Nat)
    (hwf : ∀ p ∈ es, p.1.inode < 4294967296 ∧ p.1.ftype < 256 ∧ p.1.name.length < 256 ∧
      12 ≤ p.2 ∧ 8 + p.1.name.length ≤ p.2 ∧ p.2 < 65536) (hf : es.length < fuel) :
    parseEntries Cfg.fixed fuel (encEntries es) = .ok (es.map Prod.fst) :=
  parseEntries_enc Cfg.fixed es fuel (fun p hp => by simpa [EntWF, Cfg.fixed] using hwf p hp) hf

set_option maxRecDepth 16384 in
/-- As found, a 248-byte name makes the walk panic (uint8 overflow of `0x8+nameLength`). -/
theorem long_name_as_found_panics :
    parseEntries Cfg.asFound 2 (encEntries [(⟨12, 1, List.replicate 248 97⟩, 256)]) = .panic := by
  decide

/-- A successful hash-tree walk returns the linear parses of the leaf blocks it reaches … -/
theorem htree_reaches_leaves (cfg : Cfg) (csum : Bool) (bs : Nat) (data : Bytes) (d : Nat)
    (blks : List Nat) (es : List DirEnt) (h : parseHashed cfg csum bs data d blks = .ok es) :
    ∃ L, leafBlocks bs data d blks = .ok L ∧ concatRes (leafAt cfg csum bs data) L = .ok es :=
  parseHashed_leaves cfg csum bs data d blks es h

/-- … so if the tree references every leaf block of the directory exactly once (`L ~ leaves`), the
    entries reached through the hash tree are the entries of the leaf blocks read linearly. -/
theorem htree_equals_linear (cfg : Cfg) (csum : Bool) (bs : Nat) (data : Bytes) (d : Nat)
    (blks leaves : List Nat) (es es' : List DirEnt)
    (h : parseHashed cfg csum bs data d blks = .ok es)
    (hlin : concatRes (leafAt cfg csum bs data) leaves = .ok es')
    (hperm : ∀ L, leafBlocks bs data d blks = .ok L → L.Perm leaves) :
    es.Perm es' := by
  obtain ⟨L, hL, hc⟩ := htree_reaches_leaves cfg csum bs data d blks es h
  exact concatRes_perm _ L leaves es es' hc hlin (hperm L hL)

/-- 64-bit on-disk numbers (block counts, inode-table locations, file sizes) are the composition of
    their 32-bit halves: composing the halves of `n` gives back `n`. -/
theorem halves_compose32 (n : Nat) (h : n < 18446744073709551616) :
    n % 4294967296 < 4294967296 ∧ n / 4294967296 < 4294967296 ∧
    compose32 (n % 4294967296) (n / 4294967296) = n := by
  unfold compose32; omega

theorem halves_compose16 (n : Nat) (h : n < 4294967296) :
    n % 65536 < 65536 ∧ n / 65536 < 65536 ∧ compose16 (n % 65536) (n / 65536) = n := by
  unfold compose16; omega

/-- the halves are recovered from the composition (so distinct values have distinct encodings) -/
theorem halves_unique32 (lo hi : Nat) (hlo : lo < 4294967296) :
    compose32 lo hi % 4294967296 = lo ∧ compose32 lo hi / 4294967296 = hi := by
  unfold compose32; omega

/-- Feature gate, repaired position: an image without extents or with inline_data is refused. -/
theorem unsupported_rejected (cfg : Cfg) (hx : cfg.gateRequiresExtents = true)
    (hi : cfg.gateRefusesInlineData = true) (incompat : Nat)
    (h : hasBit incompat incompatExtents = false ∨ hasBit incompat incompatInlineData = true) :
    gateAccepts cfg incompat = false := by
  unfold gateAccepts
  rcases h with h | h <;> simp [hx, hi, h]

/-- The gate refuses nothing else: an image with extents and without inline_data is accepted. -/
theorem supported_accepted (cfg : Cfg) (incompat : Nat)
    (h1 : hasBit incompat incompatExtents = true) (h2 : hasBit incompat incompatInlineData = false) :
    gateAccepts cfg incompat = true := by
  unfold gateAccepts; simp [h1, h2]

/-- As found there is no gate: an inline_data image without extents is accepted. -/
theorem as_found_accepts_unsupported : gateAccepts Cfg.asFound incompatInlineData = true := by decide

/-- the superblock decoder refuses a wrong signature or checksum type whatever else the bytes say -/
theorem sb_refuses_bad_signature (csumOk : Bool) (b : Bytes) (h : le16 b 0x38 ≠ 0xef53) :
    sbDecode csumOk b = none := by
  unfold sbDecode; simp [h]

theorem sb_blocks_composed (csumOk : Bool) (b : Bytes) (i : SbInfo) (h : sbDecode csumOk b = some i) :
    i.blocks = (if hasBit (le32 b 0x60) incompat64Bit then compose32 (le32 b 0x4) (le32 b 0x150) else le32 b 0x4) := by
  unfold sbDecode at h
  simp only at h
  split at h
  · simp at h
  · split at h
    · simp at h
    · split at h
      · simp at h
      · simp only [Option.some.injEq] at h
        rw [← h]

/-- 128-byte inodes: accepted exactly when the minimum length is the classic inode size -/
theorem inode128_accepted_iff (cfg : Cfg) : inodeLenAccepted cfg 128 = true ↔ cfg.inodeMinLen ≤ 128 := by
  simp [inodeLenAccepted]

theorem inode128_as_found_refused : inodeLenAccepted Cfg.asFound 128 = false := by decide

/-! ### facts regenerated from /repo -/
open Diskfs.Generated

/-- constants the mirror repeats are the ones in superblock.go / extent.go / xattr.go -/
theorem facts_agree_constants :
    Ext4Ref.incompatFeatureExtents = incompatExtents ∧ Ext4Ref.incompatFeature64Bit = incompat64Bit ∧
    Ext4Ref.incompatFeatureDataInInode = incompatInlineData ∧
    Ext4Ref.roCompatFeatureMetadataChecksums = roCompatMetadataCsum ∧
    Ext4Ref.superblockSignature = 0xef53 ∧ Ext4Ref.extentHeaderSignature = 0xf30a ∧
    Ext4Ref.xattrHeaderSize = 32 ∧ Ext4Ref.xattrEntrySize = 16 ∧ Ext4Ref.checkSumTypeCRC32c = 1 := by
  decide

/-- the prefix table is well formed: one string per index, indices distinct (so lookup is a function) -/
theorem facts_agree_xattr_table :
    Ext4Ref.xattrPrefixIdx.length = Ext4Ref.xattrPrefixStr.length ∧ Ext4Ref.xattrPrefixIdx.Nodup ∧
    Ext4Ref.xattrPrefixIdx ≠ [] := by
  decide

/-- the configuration the driver runs is one of the two positions of every switch, and the minimum
    inode length is one of the two sizes the theorems speak about -/
theorem facts_agree_cfg :
    (Cfg.current.inodeMinLen = 160 ∨ Cfg.current.inodeMinLen = 128) ∧
    Cfg.current.gateRequiresExtents = Cfg.current.gateRefusesInlineData := by
  decide

/-! non-vacuity -/
def exLeafA : TreeD 0 := ([⟨0, 100, 2⟩, ⟨4, 200, 1⟩] : List Extent)
def exLeafB : TreeD 0 := ([⟨8, 300, 4⟩] : List Extent)
def exMid : TreeD 1 := (Sum.inr [(0, exLeafA), (8, exLeafB)] : List Extent ⊕ List (Nat × TreeD 0))
def exMid2 : TreeD 1 := (Sum.inl [⟨20, 900, 3⟩] : List Extent ⊕ List (Nat × TreeD 0))
def exTree : TreeD 2 := (Sum.inr [(0, exMid), (20, exMid2)] : List Extent ⊕ List (Nat × TreeD 1))
example : TreeWF 2 exTree 0 40 := by
  simp [exTree, exMid, exMid2, exLeafA, exLeafB, TreeWF, childrenWF, extsIn]
example : specLookup 2 exTree 9 = some 301 := by decide
example : specLookup 2 exTree 3 = none := by decide
example : mirrorBlocks 2 exTree = [⟨0, 100, 2⟩, ⟨4, 200, 1⟩, ⟨8, 300, 4⟩, ⟨20, 900, 3⟩] := by decide
example : EntWF Cfg.asFound (⟨12, 1, [97, 98]⟩, 12) := by simp [EntWF, Cfg.asFound]
example : parseEntries Cfg.asFound 3 (encEntries [(⟨12, 1, [97, 98]⟩, 12), (⟨0, 0, []⟩, 20)]) =
    .ok [⟨12, 1, [97, 98]⟩, ⟨0, 0, []⟩] := by decide

end Diskfs.Ext4.Reader.C20
