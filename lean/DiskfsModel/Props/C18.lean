/-
  C18 — Opening and walking a damaged filesystem image cannot crash.
  Theorems (all FAT tables, all start clusters — no bound on table size):
   * the repaired chain walk terminates within maxCluster+1 iterations whatever the FAT contains,
     and returns exactly what the as-found walk returns on every chain that fits in the FAT;
   * the as-found walk really diverges on a one-entry cycle (the negative theorem that makes the
     finding `timeout@fat*` a fact of the model and not only of a run);
   * the checked geometry reader never divides by zero; the as-found one does for spc = 0.
  Part 2 (below, namespace Diskfs.Parsers.C18): panic-aware mirrors of the parsers that walk untrusted
  on-disk structures — ext4 linear directory blocks and extent nodes, FAT CheckGeometry and the Read
  arithmetic, iso9660 path tables / system use areas / directory records, squashfs metadata reads,
  fragment reads and id lookup — with no-panic, termination and allocation-bound theorems for all inputs.
  Partial: everything not mirrored (superblock / group descriptor / inode / volume descriptor decoding,
  htree directories, Rock Ridge handlers, squashfs inode and directory bodies, compressors, the FAT
  directory parser) is decided by enumeration on the real code in child processes (engine `damage`),
  not by a theorem.
-/
import DiskfsModel.Model.Robust
import DiskfsModel.Generated.Robust
import DiskfsModel.Proofs.ParsersExt4
import DiskfsModel.Proofs.ParsersFat
import DiskfsModel.Proofs.ParsersIso
import DiskfsModel.Proofs.ParsersSqfs
import DiskfsModel.Generated.Parsers
namespace Diskfs.Robust.C18

/-- as found: a chain entry that points at itself is followed forever -/
theorem cex_walk_self_loop (t : Fat) (c : Nat) (hself : t.next c = c) (hne : t.isEOC c = false)
    (hmax : c ≤ t.maxCluster) (h2 : 2 ≤ c) :
    ∀ fuel acc, walkLoop t fuel c acc = .diverge := by
  intro fuel
  induction fuel with
  | zero => intro acc; rfl
  | succ n ih =>
    intro acc
    unfold walkLoop
    simp only [hself, hne]
    have h1 : ¬ (c > t.maxCluster) := by omega
    have h3 : ¬ (c < 2) := by omega
    simp [h1, h3, ih]

/-- repaired: terminates for EVERY table within maxCluster+1 iterations -/
theorem walkB_terminates_aux (t : Fat) :
    ∀ fuel c acc, acc.length ≤ t.maxCluster → t.maxCluster + 2 ≤ fuel + acc.length →
      walkLoopB t fuel c acc ≠ .diverge := by
  intro fuel
  induction fuel with
  | zero => intro c acc h1 h2; omega
  | succ n ih =>
    intro c acc h1 h2
    unfold walkLoopB
    simp only [List.length_append, List.length_cons, List.length_nil]
    split
    · simp
    · rename_i hlen
      split
      · simp
      · split
        · simp
        · split
          · simp
          · apply ih
            · simp only [List.length_append, List.length_cons, List.length_nil]; omega
            · simp only [List.length_append, List.length_cons, List.length_nil]; omega

theorem walkB_terminates (t : Fat) (first : Nat) :
    walkB t (t.maxCluster + 2) first ≠ .diverge := by
  unfold walkB
  split
  · simp
  · exact walkB_terminates_aux t _ first [] (by simp) (by simp)

/-- a successful as-found walk returns a list strictly longer than its accumulator -/
theorem walkLoop_ok_length (t : Fat) :
    ∀ fuel c acc l, walkLoop t fuel c acc = .ok l → acc.length < l.length := by
  intro fuel
  induction fuel with
  | zero => intro c acc l h; simp [walkLoop] at h
  | succ n ih =>
    intro c acc l h
    unfold walkLoop at h
    simp only at h
    split at h
    · simp at h; subst h; simp
    · split at h
      · simp at h
      · split at h
        · simp at h
        · have := ih _ _ _ h
          simp only [List.length_append, List.length_cons, List.length_nil] at this
          omega

/-- the repair changes nothing for chains that fit in the FAT: same clusters, same order -/
theorem walkB_agrees (t : Fat) :
    ∀ fuel c acc l, walkLoop t fuel c acc = .ok l → l.length ≤ t.maxCluster →
      walkLoopB t fuel c acc = .ok l := by
  intro fuel
  induction fuel with
  | zero => intro c acc l h; simp [walkLoop] at h
  | succ n ih =>
    intro c acc l h hl
    have hlen := walkLoop_ok_length t (n+1) c acc l h
    unfold walkLoop at h
    unfold walkLoopB
    simp only at h ⊢
    have hacc : ¬ ((acc ++ [c]).length > t.maxCluster) := by
      simp only [List.length_append, List.length_cons, List.length_nil]; omega
    simp only [hacc, if_false]
    split at h
    · rename_i he; simp only [he, if_true]; exact h
    · rename_i he
      simp only [he]
      split at h
      · simp at h
      · rename_i hn
        simp only [hn, if_false]
        split at h
        · simp at h
        · rename_i h2
          simp only [h2, if_false]
          exact ih _ _ _ h hl

/-- errors of the as-found walk are errors of the repaired walk too (it never invents data) -/
theorem walkB_never_more (t : Fat) :
    ∀ fuel c acc l, walkLoopB t fuel c acc = .ok l → walkLoop t fuel c acc = .ok l := by
  intro fuel
  induction fuel with
  | zero => intro c acc l h; simp [walkLoopB] at h
  | succ n ih =>
    intro c acc l h
    unfold walkLoopB at h
    unfold walkLoop
    simp only at h ⊢
    split at h
    · simp at h
    · split at h
      · rename_i he; simp only [he, if_true]; exact h
      · rename_i he
        simp only [he]
        split at h
        · simp at h
        · rename_i hn
          simp only [hn, if_false]
          split at h
          · simp at h
          · rename_i h2
            simp only [h2, if_false]
            exact ih _ _ _ h

/-- checked geometry reader: never a divide-by-zero panic, for all field values -/
theorem fat_read_no_div_zero (bps spc re ds : Nat) : fatReadDivs true bps spc re ds ≠ none := by
  unfold fatReadDivs
  split
  · simp
  · split
    · rename_i h1 h2; simp_all
    · simp

/-- as found: sectorsPerCluster = 0 panics -/
theorem cex_fat_read_div_zero : fatReadDivs false 512 0 224 2847 = none := by decide

/-- pinned facts, regenerated from the source on every run: getClusterList carries a length bound
    against MaxCluster (so `walkLoopB`, not `walkLoop`, is the mirror of the current code and
    `walkB_terminates` applies), and each of fat12/fat16/fat32 `Read` calls `CheckGeometry`
    before its first division (so `fat_read_no_div_zero` applies). -/
theorem facts_agree_walk_bounded : Generated.Robust.fatWalkBounded = true := by decide
theorem facts_agree_geometry_checked :
    Generated.Robust.fat12ReadChecked = true ∧ Generated.Robust.fat16ReadChecked = true ∧
    Generated.Robust.fat32ReadChecked = true := by decide

/-! non-vacuity: a concrete looping table and a concrete good chain -/
example : walkLoop ⟨fun c => if c = 2 then 2 else 0, fun n => n ≥ 0xFF8, 100⟩ 50 2 [] = .diverge := by decide
example : walkLoopB ⟨fun c => if c = 2 then 2 else 0, fun n => n ≥ 0xFF8, 5⟩ 7 2 [] = .err := by decide
example : walk ⟨fun c => if c = 2 then 3 else if c = 3 then 0xFFF else 0, fun n => n ≥ 0xFF8, 100⟩ 10 2 = .ok [2, 3] := by decide

end Diskfs.Robust.C18

/-! ## C18, part 2 — panic-aware mirrors of the parsers that walk untrusted on-disk structures
    (model: `Model/Parsers.lean`; engine `parsers` ties every function below to the real code).
    `GS` is a Go slice with its capacity; theorems quantify over EVERY buffer, length and capacity
    (`b.wf`: len ≤ cap), every parameter value and every fuel. `≠ .panic`: no slice-bounds / index /
    divide panic; `≠ .fuel` with the stated fuel: the loop ends within that many iterations. -/
namespace Diskfs.Parsers.C18
open Diskfs.Parsers

/-! ### ext4 parseDirEntriesLinear / directoryEntryFromBytes -/

theorem ext4_dirLinear_no_panic (b : GS) (hwf : b.wf) (fuel : Nat) :
    Ext4.parseDirLinear true b fuel ≠ .panic := Ext4.dirLoop_no_panic b hwf fuel 0 []

/-- rec_len ≥ 12 is enforced, so the walk ends within len/12 + 2 iterations -/
theorem ext4_dirLinear_terminates (b : GS) (hwf : b.wf) :
    Ext4.parseDirLinear true b (b.len / 12 + 2) ≠ .fuel :=
  Ext4.dirLoop_terminates b hwf _ 0 [] (by omega) (by omega)

/-- the entry slice grows to at most len/12 entries -/
theorem ext4_dirLinear_count (b : GS) (hwf : b.wf) (fuel : Nat) (l : List Ext4.DirEnt)
    (h : Ext4.parseDirLinear true b fuel = .ok l) : 12 * l.length ≤ b.len := by
  have := (Ext4.dirLoop_count b hwf fuel 0 [] l (by omega) h).2
  simp only [List.length_nil] at this
  omega

/-- the entry decoder is safe under the condition its caller checks (name fits the entry) -/
theorem ext4_dirEntry_no_panic (b : GS) (hwf : b.wf) (hname : 8 + (b.buf.getD 6 0).toNat ≤ b.len) :
    Ext4.dirEntryFromBytes b ≠ .panic := Ext4.dirEntryFromBytes_no_panic b hwf hname

/-- as found (before 214d00e): a rec_len that reaches past the block panics -/
theorem cex_ext4_dirLinear_reclen :
    Ext4.parseDirLinear false (GS.ofBytes [1,0,0,0, 0xFF,0xFF, 1,1, 0x61,0,0,0]) 3 = .panic := by decide

/-- the decoder alone does panic when the name does not fit (why the caller's check matters) -/
theorem cex_ext4_dirEntry_name : Ext4.dirEntryFromBytes (GS.ofBytes [1,0,0,0, 12,0, 9,1, 0,0,0,0]) = .panic := by decide

/-! ### ext4 parseExtents -/

theorem ext4_parseExtents_no_panic (b : GS) (hwf : b.wf) (start count : Nat) :
    Ext4.parseExtents true b start count ≠ .panic := Ext4.parseExtents_no_panic b hwf start count

/-- rows appended = announced entries, all inside the node: at most (len-12)/12 -/
theorem ext4_parseExtents_count (b : GS) (hwf : b.wf) (start count : Nat) (n : Ext4.ExtNode)
    (h : Ext4.parseExtents true b start count = .ok n) :
    n.rows.length = n.entries ∧ 12 + 12 * n.entries ≤ b.len := Ext4.parseExtents_count b hwf start count n h

/-- as found (before 64841b3): eh_entries = 2 in a 24-byte node panics -/
theorem cex_ext4_parseExtents_entries :
    Ext4.parseExtents false (GS.ofBytes ([0x0a,0xf3, 2,0, 4,0, 0,0, 0,0,0,0] ++ List.replicate 12 0)) 0 0 = .panic := by
  decide

/-! ### FAT CheckGeometry and the Read arithmetic behind it -/

theorem fat_checkGeometry_sound (p : Fat.Bpb) (size : Int) (h : Fat.checkGeometry p size = true) :
    (p.bps = 512 ∨ p.bps = 1024 ∨ p.bps = 2048 ∨ p.bps = 4096) ∧ 0 < p.spc ∧ p.spc ≤ 128 ∧
    p.reserved ≠ 0 ∧ p.fatCount ≠ 0 ∧ p.spf ≠ 0 ∧ (p.total ≠ 0 → Fat.metaSectors p < p.total) ∧
    (size > 0 → ((Fat.metaSectors p * p.bps % two64 : Nat) : Int) ≤ size) := Fat.checkGeometry_spec p size h

/-- CheckGeometry's own uint64 arithmetic cannot wrap for fields of the on-disk widths -/
theorem fat_checkGeometry_u64 (p : Fat.Bpb) (hr : p.inRange) (hb : p.bps ≤ 4096) (hb0 : 0 < p.bps) :
    Fat.metaSectors p * p.bps < two64 := Fat.checkGeometry_u64 p hr hb hb0

/-- fat12.Read / fat16.Read: no division by zero for ANY field values -/
theorem fat_read_no_panic (k : Fat.Kind) (p : Fat.Bpb) (size : Int) : Fat.read1216 true k p size ≠ .panic :=
  Fat.read1216_no_panic k p size

/-- no wrapped subtraction / product: every uint32 intermediate is the exact number -/
theorem fat_read_exact (k : Fat.Kind) (p : Fat.Bpb) (size : Int) (g : Fat.Geom) (hr : p.inRange)
    (hspf : p.spf < 65536) (ht : p.total ≠ 0) (h : Fat.read1216 true k p size = .ok g) :
    Fat.metaSectors p < p.total ∧ g.numClusters = (p.total - Fat.metaSectors p) / p.spc ∧
    g.fatSize = p.spf * p.bps ∧ g.rootDirOff = (p.reserved + 2 * p.spf) * p.bps ∧
    g.dataStart = (p.reserved + 2 * p.spf + Fat.rootDirSectors64 p) * p.bps :=
  Fat.read1216_exact k p size g hr hspf ht h

/-- FAT allocation ≤ volume size (fat12 / fat16 / fat32), for BPB fields of their on-disk widths -/
theorem fat_read_alloc_le_size (k : Fat.Kind) (p : Fat.Bpb) (size : Int) (g : Fat.Geom) (hr : p.inRange)
    (hsz : size > 0) (h : Fat.read1216 true k p size = .ok g) : (g.fatSize : Int) ≤ size :=
  Fat.read1216_alloc_le_size k p size g hr hsz h

theorem fat32_read_alloc_le_size (p : Fat.Bpb) (size : Int) (g : Fat.Geom32) (w : Bool) (hr : p.inRange)
    (hsz : size > 0) (h : Fat.read32 true w p size = .ok g) : (g.fatSize : Int) ≤ size :=
  Fat.read32_alloc_le_size p size g w hr hsz h

/-- fat32.Read with the 64-bit FAT size bound (d70288b, fixes/fat32-fatsize-wrap.patch) never panics -/
theorem fat32_read_no_panic (p : Fat.Bpb) (size : Int) : Fat.read32 true true p size ≠ .panic :=
  Fat.read32_no_panic p size

/-- as found (before d70288b, finding fat32-fatsize-wrap): 16 GiB volume, sectors per FAT = 2^23: fatSize wraps to 0 and
    tableFromBytes slices an empty buffer -/
theorem cex_fat32_fatsize_wrap :
    Fat.read32 true false ⟨512, 8, 32, 2, 8388608, 0, 0⟩ 17179869184 = .panic := by decide

/-- as found (before 6aa4ce3): sectors per cluster 0 divides by zero -/
theorem cex_fat_read_unchecked : Fat.read1216 false .fat12 ⟨512, 0, 1, 2, 9, 224, 2880⟩ 1474560 = .panic := by
  decide

/-! ### iso9660 path table, system use area, directory records -/

theorem iso_pathTable_no_panic (b : GS) (hwf : b.wf) (fuel : Nat) :
    Iso.parsePathTable true b fuel ≠ .panic := Iso.pathLoop_no_panic b hwf fuel 0 []

theorem iso_pathTable_terminates (b : GS) (hwf : b.wf) :
    Iso.parsePathTable true b (b.len / 10 + 2) ≠ .fuel :=
  Iso.pathLoop_terminates b hwf _ 0 [] (by omega) (by omega)

theorem iso_pathTable_count (b : GS) (hwf : b.wf) (fuel : Nat) (l : List Iso.PathEnt)
    (h : Iso.parsePathTable true b fuel = .ok l) : 9 * l.length ≤ b.len := by
  have := (Iso.pathLoop_count b hwf fuel 0 [] l h).1
  simp only [List.length_nil] at this
  omega

/-- as found (before e1c6985): a name length that runs past the table panics -/
theorem cex_iso_pathTable_unchecked : Iso.parsePathTable false (GS.ofBytes [5, 0, 0]) 3 = .panic := by decide

theorem iso_susp_no_panic (cfg : Iso.Cfg) (her : cfg.er = true) (b : GS) (hwf : b.wf) (fuel : Nat) :
    Iso.parseSusp cfg b fuel ≠ .panic := Iso.suspLoop_no_panic cfg her b hwf fuel 0 []

theorem iso_susp_terminates (cfg : Iso.Cfg) (b : GS) (hwf : b.wf) :
    Iso.parseSusp cfg b (b.len / 4 + 2) ≠ .fuel :=
  Iso.suspLoop_terminates cfg b hwf _ 0 [] (by omega) (by omega)

/-- as found (before 74e8a72, finding iso-susp-er-short): an ER entry of 4 bytes is indexed at [4] -/
theorem cex_iso_er_short : Iso.parseSusp { er := false, joliet := true } (GS.ofBytes [69, 82, 4, 1]) 3 = .panic := by decide

theorem iso_dirEntry_no_panic (cfg : Iso.Cfg) (her : cfg.er = true) (joliet : Bool) (b : GS) (hwf : b.wf)
    (fuel : Nat) : Iso.dirEntryFromBytes cfg joliet b fuel ≠ .panic :=
  Iso.dirEntryFromBytes_no_panic cfg her joliet b hwf fuel

/-- plain and Joliet directory walks with both repairs in place, any block size > 0 -/
theorem iso_dirEntries_no_panic (joliet : Bool) (bs : Nat) (hbs : 0 < bs) (b : GS) (hwf : b.wf) (fuel : Nat) :
    Iso.parseDirEntries Iso.Cfg.fixed joliet bs b fuel ≠ .panic :=
  Iso.dirLoop_no_panic Iso.Cfg.fixed rfl joliet bs b hwf hbs (Or.inr rfl) fuel 0 []

/-- the plain (non-Joliet) walk needs only the ER repair -/
theorem iso_dirEntries_plain_no_panic (cfg : Iso.Cfg) (her : cfg.er = true) (bs : Nat) (hbs : 0 < bs) (b : GS)
    (hwf : b.wf) (fuel : Nat) : Iso.parseDirEntries cfg false bs b fuel ≠ .panic :=
  Iso.dirLoop_no_panic cfg her false bs b hwf hbs (Or.inl rfl) fuel 0 []

theorem iso_dirEntries_terminates (joliet : Bool) (bs : Nat) (hbs : 0 < bs) (b : GS) (hwf : b.wf) :
    Iso.parseDirEntries Iso.Cfg.fixed joliet bs b (b.len + 1) ≠ .fuel :=
  Iso.dirLoop_terminates Iso.Cfg.fixed joliet bs b hwf hbs (Or.inr rfl) _ 0 [] (by omega) (by omega)

/-- as found (finding iso-joliet-dirrecord-oob): a Joliet record longer than the directory bytes -/
theorem cex_iso_joliet_oob :
    Iso.parseDirEntries { er := true, joliet := false } true 2048 (GS.ofBytes (60 :: List.replicate 39 0)) 3 = .panic := by decide

/-! ### squashfs readMetadata, fragments, id table -/

theorem sqfs_readMetadata_no_panic (dev : Bytes) (first boff off size fuel : Nat) :
    Sqfs.readMetadata true dev first boff off size fuel ≠ .panic :=
  Sqfs.readMetadata_no_panic dev first boff off size fuel

/-- every further block brings at least one byte: at most `size` more blocks are read -/
theorem sqfs_readMetadata_terminates (dev : Bytes) (first boff off size : Nat) :
    Sqfs.readMetadata true dev first boff off size (size + 1) ≠ .fuel :=
  Sqfs.readMetadata_terminates dev first boff off size

/-- the buffer readMetadata builds is at most one metadata block (0x7fff bytes) longer than asked for -/
theorem sqfs_readMetadata_alloc (dev : Bytes) (first boff off size fuel : Nat) (l : Bytes)
    (h : Sqfs.readMetadata true dev first boff off size fuel = .ok l) : l.length ≤ size + 32767 :=
  Sqfs.readMetadata_alloc dev first boff off size fuel l h

theorem cex_sqfs_readMetadata_offset : Sqfs.readMetadata false [0x02, 0x80, 1, 2] 0 0 5 1 2 = .panic := by decide

theorem sqfs_fragmentEntry_no_panic (b : GS) (hwf : b.wf) : Sqfs.parseFragmentEntry b ≠ .panic :=
  Sqfs.parseFragmentEntry_no_panic b hwf

theorem sqfs_fragmentEntry_size (b : GS) (f : Sqfs.Frag) (h : Sqfs.parseFragmentEntry b = .ok f) :
    f.size < 16777216 := Sqfs.parseFragmentEntry_size b f h

theorem sqfs_readFragment_no_panic (dev : Bytes) (frags : List Sqfs.Frag) (index offset : Nat) (fs : Int) :
    Sqfs.readFragment true dev frags index offset fs ≠ .panic := Sqfs.readFragment_no_panic dev frags index offset fs

/-- readFragment allocates exactly the size recorded in the selected entry (< 16 MiB by the previous theorem) -/
theorem sqfs_readFragment_alloc (dev : Bytes) (frags : List Sqfs.Frag) (index offset : Nat) (fs : Int)
    (d : Bytes) (a : Nat) (h : Sqfs.readFragment true dev frags index offset fs = .ok (d, a)) :
    ∃ f ∈ frags, a = f.size := Sqfs.readFragment_alloc dev frags index offset fs d a h

theorem cex_sqfs_readFragment_fit : Sqfs.readFragment false [1, 2] [⟨0, 2, false⟩] 0 1 5 = .panic := by decide

theorem sqfs_idLookup_no_panic (ids : List Nat) (u g : Nat) : Sqfs.idLookup true ids u g ≠ .panic :=
  Sqfs.idLookup_no_panic ids u g

theorem cex_sqfs_idLookup : Sqfs.idLookup false [1000] 3 0 = .panic := by decide

/-! ### facts regenerated from the source on every run -/

/-- the constants the mirrors are written with are the constants of the source -/
theorem facts_agree_parser_constants :
    Generated.Parsers.ext4MinDirEntryLength = Ext4.minDirEntryLength ∧
    Generated.Parsers.ext4MaxDirEntryLength = Ext4.maxDirEntryLength ∧
    Generated.Parsers.ext4ExtentHeaderLength = 12 ∧ Generated.Parsers.ext4ExtentEntryLength = 12 ∧
    Generated.Parsers.fatSectorSizes = [512, 1024, 2048, 4096] := by decide

/-- every bound check the `checked = true` mirrors rely on is present in the source and precedes the
    slice / index / make it protects (isoJolietRecordChecked, the open finding iso-joliet-dirrecord-oob,
    is deliberately not asserted: the correspondence engine probes it and runs the mirror accordingly) -/
theorem facts_agree_parser_guards :
    Generated.Parsers.ext4DirRecLenChecked = true ∧ Generated.Parsers.ext4DirHeaderChecked = true ∧
    Generated.Parsers.ext4ExtentCountChecked = true ∧
    Generated.Parsers.fat12AllocAfterGeometry = true ∧ Generated.Parsers.fat16AllocAfterGeometry = true ∧
    Generated.Parsers.fat32AllocAfterGeometry = true ∧ Generated.Parsers.fat32FatSizeBounded = true ∧
    Generated.Parsers.isoPathRecordChecked = true ∧ Generated.Parsers.isoDirRecordChecked = true ∧
    Generated.Parsers.isoNameChecked = true ∧ Generated.Parsers.isoSuspEntryChecked = true ∧
    Generated.Parsers.isoErFieldsChecked = true ∧ Generated.Parsers.isoErHeaderChecked = true ∧
    Generated.Parsers.sqfsMetaOffsetChecked = true ∧ Generated.Parsers.sqfsMetaEmptyChecked = true ∧
    Generated.Parsers.sqfsFragmentIndexChecked = true ∧ Generated.Parsers.sqfsFragmentFitChecked = true ∧
    Generated.Parsers.sqfsIdIndexChecked = true := by decide

/-! ### non-vacuity: the mirrors do return data on well-formed input -/
example : Ext4.parseDirLinear true (GS.ofBytes [2,0,0,0, 12,0, 1,2, 0x2e,0,0,0]) 3 = .ok [⟨2, 2, [0x2e]⟩] := by decide
example : Ext4.parseExtents true (GS.ofBytes ([0x0a,0xf3, 1,0, 4,0, 0,0, 0,0,0,0] ++ [0,0,0,0, 3,0, 0,0, 100,0,0,0])) 0 3
    = .ok ⟨true, 0, 1, 4, [⟨0, 3, 100⟩]⟩ := by decide
example : Fat.read1216 true .fat12 ⟨512, 1, 1, 2, 9, 224, 2880⟩ 1474560 = .ok ⟨16896, 512, 4608, 9728, 2847⟩ := by decide
example : Fat.checkGeometry ⟨512, 8, 32, 2, 1009, 0, 131072⟩ 67108864 = true := by decide
example : Iso.parsePathTable true (GS.ofBytes [1,0, 20,0,0,0, 1,0, 0, 0]) 3 = .ok [⟨1, 0, 10, 1, 20, [0]⟩] := by decide
example : Iso.parseSusp Iso.Cfg.fixed (GS.ofBytes [83, 84, 4, 1]) 3 = .ok [.st] := by decide
example : Sqfs.readMetadata true [0x02, 0x80, 7, 9] 0 0 1 1 2 = .ok [9] := by decide
example : Sqfs.readFragment true [1, 2, 3] [⟨1, 2, false⟩] 0 1 1 = .ok ([3], 2) := by decide
example : Sqfs.idLookup true [1000, 50] 1 0 = .ok (50, 1000) := by decide
example : GS.wf (GS.ofBytesLen [1, 2, 3] 2) := by decide

end Diskfs.Parsers.C18
