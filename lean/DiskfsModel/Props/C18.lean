/-
  C18 — Opening and walking a damaged filesystem image cannot crash.
  Theorems (all FAT tables, all start clusters — no bound on table size):
   * the repaired chain walk terminates within maxCluster+1 iterations whatever the FAT contains,
     and returns exactly what the as-found walk returns on every chain that fits in the FAT;
   * the as-found walk really diverges on a one-entry cycle (the negative theorem that makes the
     finding `timeout@fat*` a fact of the model and not only of a run);
   * the checked geometry reader never divides by zero; the as-found one does for spc = 0.
  Partial: ext4 / iso9660 / squashfs readers are not mirrored; for them (and for the FAT directory
  and BPB parsers) the property is decided by enumeration on the real code in child processes
  (engine `damage`), not by a theorem.
-/
import DiskfsModel.Model.Robust
import DiskfsModel.Generated.Robust
namespace Diskfs.Robust.C18

/-- as found: a chain entry that points at itself is followed forever -/
theorem cex_walk_self_loop (t : Fat) (c : Nat) (hself : t.next c = c) (hne : t.isEOC c = false)
    (hmax : c ≤ t.maxCluster) (h2 : 2 ≤ c) :
    ∀ fuel acc, walkLoop t fuel c acc = .diverge := by
  intro fuel
  induction fuel with
  | zero => intro acc; rfl
  | succ n ih =>
    intro acc
    unfold walkLoop
    simp only [hself, hne]
    have h1 : ¬ (c > t.maxCluster) := by omega
    have h3 : ¬ (c < 2) := by omega
    simp [h1, h3, ih]

/-- repaired: terminates for EVERY table within maxCluster+1 iterations -/
theorem walkB_terminates_aux (t : Fat) :
    ∀ fuel c acc, acc.length ≤ t.maxCluster → t.maxCluster + 2 ≤ fuel + acc.length →
      walkLoopB t fuel c acc ≠ .diverge := by
  intro fuel
  induction fuel with
  | zero => intro c acc h1 h2; omega
  | succ n ih =>
    intro c acc h1 h2
    unfold walkLoopB
    simp only [List.length_append, List.length_cons, List.length_nil]
    split
    · simp
    · rename_i hlen
      split
      · simp
      · split
        · simp
        · split
          · simp
          · apply ih
            · simp only [List.length_append, List.length_cons, List.length_nil]; omega
            · simp only [List.length_append, List.length_cons, List.length_nil]; omega

theorem walkB_terminates (t : Fat) (first : Nat) :
    walkB t (t.maxCluster + 2) first ≠ .diverge := by
  unfold walkB
  split
  · simp
  · exact walkB_terminates_aux t _ first [] (by simp) (by simp)

/-- a successful as-found walk returns a list strictly longer than its accumulator -/
theorem walkLoop_ok_length (t : Fat) :
    ∀ fuel c acc l, walkLoop t fuel c acc = .ok l → acc.length < l.length := by
  intro fuel
  induction fuel with
  | zero => intro c acc l h; simp [walkLoop] at h
  | succ n ih =>
    intro c acc l h
    unfold walkLoop at h
    simp only at h
    split at h
    · simp at h; subst h; simp
    · split at h
      · simp at h
      · split at h
        · simp at h
        · have := ih _ _ _ h
          simp only [List.length_append, List.length_cons, List.length_nil] at this
          omega

/-- the repair changes nothing for chains that fit in the FAT: same clusters, same order -/
theorem walkB_agrees (t : Fat) :
    ∀ fuel c acc l, walkLoop t fuel c acc = .ok l → l.length ≤ t.maxCluster →
      walkLoopB t fuel c acc = .ok l := by
  intro fuel
  induction fuel with
  | zero => intro c acc l h; simp [walkLoop] at h
  | succ n ih =>
    intro c acc l h hl
    have hlen := walkLoop_ok_length t (n+1) c acc l h
    unfold walkLoop at h
    unfold walkLoopB
    simp only at h ⊢
    have hacc : ¬ ((acc ++ [c]).length > t.maxCluster) := by
      simp only [List.length_append, List.length_cons, List.length_nil]; omega
    simp only [hacc, if_false]
    split at h
    · rename_i he; simp only [he, if_true]; exact h
    · rename_i he
      simp only [he]
      split at h
      · simp at h
      · rename_i hn
        simp only [hn, if_false]
        split at h
        · simp at h
        · rename_i h2
          simp only [h2, if_false]
          exact ih _ _ _ h hl

/-- errors of the as-found walk are errors of the repaired walk too (it never invents data) -/
theorem walkB_never_more (t : Fat) :
    ∀ fuel c acc l, walkLoopB t fuel c acc = .ok l → walkLoop t fuel c acc = .ok l := by
  intro fuel
  induction fuel with
  | zero => intro c acc l h; simp [walkLoopB] at h
  | succ n ih =>
    intro c acc l h
    unfold walkLoopB at h
    unfold walkLoop
    simp only at h ⊢
    split at h
    · simp at h
    · split at h
      · rename_i he; simp only [he, if_true]; exact h
      · rename_i he
        simp only [he]
        split at h
        · simp at h
        · rename_i hn
          simp only [hn, if_false]
          split at h
          · simp at h
          · rename_i h2
            simp only [h2, if_false]
            exact ih _ _ _ h

/-- checked geometry reader: never a divide-by-zero panic, for all field values -/
theorem fat_read_no_div_zero (bps spc re ds : Nat) : fatReadDivs true bps spc re ds ≠ none := by
  unfold fatReadDivs
  split
  · simp
  · split
    · rename_i h1 h2; simp_all
    · simp

/-- as found: sectorsPerCluster = 0 panics -/
theorem cex_fat_read_div_zero : fatReadDivs false 512 0 224 2847 = none := by decide

/-- pinned facts, regenerated from the source on every run: getClusterList carries a length bound
    against MaxCluster (so `walkLoopB`, not `walkLoop`, is the mirror of the current code and
    `walkB_terminates` applies), and each of fat12/fat16/fat32 `Read` calls `CheckGeometry`
    before its first division (so `fat_read_no_div_zero` applies). -/
theorem facts_agree_walk_bounded : Generated.Robust.fatWalkBounded = true := by decide
theorem facts_agree_geometry_checked :
    Generated.Robust.fat12ReadChecked = true ∧ Generated.Robust.fat16ReadChecked = true ∧
    Generated.Robust.fat32ReadChecked = true := by decide

/-! non-vacuity: a concrete looping table and a concrete good chain -/
example : walkLoop ⟨fun c => if c = 2 then 2 else 0, fun n => n ≥ 0xFF8, 100⟩ 50 2 [] = .diverge := by decide
example : walkLoopB ⟨fun c => if c = 2 then 2 else 0, fun n => n ≥ 0xFF8, 5⟩ 7 2 [] = .err := by decide
example : walk ⟨fun c => if c = 2 then 3 else if c = 3 then 0xFFF else 0, fun n => n ≥ 0xFF8, 100⟩ 10 2 = .ok [2, 3] := by decide

end Diskfs.Robust.C18
