/-
  C08 — FAT volumes stay structurally sound on disk.
  Property theorems only; helper lemmas live in Proofs/FatChain.lean, Proofs/FatTable.lean.

  `Inv k lim m owners` (Model/Fat/Chain.lean) is the cluster-map half of soundness: every
  directory entry's chain consists of in-range clusters ending in an end-of-chain mark, no
  cluster is in two chains, and no cluster is marked used that no chain owns.
  The theorems are for every table, every owner set, every operation history (induction),
  accepted or refused, for the repaired configuration `Cfg.fixed`; the as-found behaviour is
  refuted by concrete counterexamples (`cex_*`).
-/
import DiskfsModel.Proofs.FatChain
import DiskfsModel.Proofs.FatTable
import DiskfsModel.Model.Fat.Fs
import DiskfsModel.Proofs.FatGeom
import DiskfsModel.Proofs.FatFlatFs
namespace Diskfs.Fat.C08

/-- a volume geometry the theorems apply to: allocation limit inside both the FAT and the data
    area, cluster numbers below it are not end-of-chain values, clusters are not empty -/
structure GeomOk (g : VolGeom) : Prop where
  lim : LimOk g.kind (min g.max g.dataLim)
  bpc : 0 < g.bpc

theorem allocLim_fixed (g : VolGeom) : g.allocLim Cfg.fixed = min g.max g.dataLim := rfl

/-- moving owner `i` to the front does not change the invariant -/
theorem inv_rotate {k lim m} {owners : List (List Nat)} {i : Nat} (h : Inv k lim m owners)
    (hi : i < owners.length) : Inv k lim m (owners[i] :: owners.eraseIdx i) := by
  have hperm : List.Perm (owners[i] :: owners.eraseIdx i) owners := by
    have h1 : owners = owners.take i ++ owners[i] :: owners.drop (i + 1) := by
      rw [List.getElem_cons_drop]
      exact (List.take_append_drop i owners).symm
    have h2 : owners.eraseIdx i = owners.take i ++ owners.drop (i + 1) := List.eraseIdx_eq_take_drop_succ ..
    rw [h2]
    conv => rhs; rw [h1]
    exact List.perm_middle.symm
  have hflat : List.Perm (owners[i] :: owners.eraseIdx i).flatten owners.flatten := hperm.flatten
  refine ⟨?_, ?_, ?_⟩
  · intro l hl
    exact h.chains l (hperm.mem_iff.1 hl)
  · exact hflat.nodup_iff.2 h.nodup
  · intro c h2 hl
    rw [h.used_iff c h2 hl]
    exact (hflat.mem_iff).symm

/-- **inv_preserved**: every operation of the repaired filesystem, accepted or refused, keeps
    the cluster map sound. -/
theorem inv_preserved (g : VolGeom) (hg : GeomOk g) (fuel : Nat) (s : CState) (op : COp)
    (hfuel : ∀ l ∈ s.owners, l.length ≤ fuel)
    (h : Inv g.kind (min g.max g.dataLim) s.m s.owners) :
    Inv g.kind (min g.max g.dataLim) (cstep Cfg.fixed g fuel s op).1.m (cstep Cfg.fixed g fuel s op).1.owners := by
  have hmax : min g.max g.dataLim ≤ g.max := Nat.min_le_left ..
  cases op with
  | create size =>
    simp only [cstep]
    split
    · exact h
    · rename_i hs
      rw [allocLim_fixed]
      split
      · rename_i l hres
        exact (alloc_new_inv h (firstFit_spec _) hg.lim hmax hg.bpc (Nat.pos_of_ne_zero hs) hres).1
      · rename_i hres
        rw [alloc_refused_unchanged hres]
        exact h
  | resize i size =>
    simp only [cstep]
    split
    · rename_i hi
      rw [allocLim_fixed]
      have hrot := inv_rotate h hi
      have hf : (s.owners[i]).length ≤ fuel := hfuel _ (List.getElem_mem hi)
      split
      · rename_i l' hres
        by_cases hlt : clusterCount g.bpc size < (s.owners[i]).length
        · simp only [hlt, if_true]
          exact (alloc_shrink_inv (pick := firstFit (min g.max g.dataLim)) hrot hg.lim hmax hg.bpc hf hlt).2
        · simp only [hlt, if_false]
          exact (alloc_grow_inv hrot (firstFit_spec _) hg.lim hmax hg.bpc hf (Nat.le_of_not_lt hlt) hres).1
      · rename_i hres
        rw [alloc_refused_unchanged hres]
        exact h
    · exact h
  | remove i =>
    simp only [cstep]
    split
    · rename_i hi
      have hrot := inv_rotate h hi
      have hf : (s.owners[i]).length ≤ fuel := hfuel _ (List.getElem_mem hi)
      have := freeChain_inv hrot hg.lim hmax hf
      simp only [Cfg.fixed, if_true]
      rw [this.1]
      exact this.2
    · exact h

/-- chains never get longer than the data area, so one fuel value serves a whole history -/
theorem owners_bounded {k lim m owners} (h : Inv k lim m owners) : ∀ l ∈ owners, l.length ≤ lim - 2 := by
  intro l hl
  obtain ⟨i, hi, rfl⟩ := List.getElem_of_mem hl
  exact chain_length_le (inv_rotate h hi)

/-- **inv_history**: soundness after every prefix of every operation history (induction over the
    history), with the walks' fuel fixed at the size of the data area. -/
theorem inv_history (g : VolGeom) (hg : GeomOk g) (ops : List COp) (s : CState)
    (h : Inv g.kind (min g.max g.dataLim) s.m s.owners) :
    Inv g.kind (min g.max g.dataLim) (crun Cfg.fixed g (min g.max g.dataLim - 2) s ops).m
      (crun Cfg.fixed g (min g.max g.dataLim - 2) s ops).owners := by
  induction ops generalizing s with
  | nil => exact h
  | cons op rest ih =>
    simp only [crun, List.foldl_cons]
    exact ih _ (inv_preserved g hg _ s op (owners_bounded h) h)

/-- a refused operation leaves the table exactly as it was -/
theorem refused_unchanged (c : Cfg) (g : VolGeom) (fuel : Nat) (s : CState) (op : COp)
    (h : (cstep c g fuel s op).2 = false) : (cstep c g fuel s op).1.m = s.m := by
  cases op with
  | create size =>
    simp only [cstep] at h ⊢
    by_cases hs : size = 0
    · simp [hs]
    · simp only [hs, if_false] at h ⊢
      cases hres : (allocateSpace g.kind g.max g.bpc (firstFit (g.allocLim c)) fuel s.m size 0).res with
      | some l => simp [hres] at h
      | none => exact alloc_refused_unchanged hres
  | resize i size =>
    simp only [cstep] at h ⊢
    by_cases hi : i < s.owners.length
    · simp only [hi, dite_true, List.headD_eq_head?_getD] at h ⊢
      cases hres : (allocateSpace g.kind g.max g.bpc (firstFit (g.allocLim c)) fuel s.m size ((s.owners[i]).head?.getD 0)).res with
      | some l => simp [hres] at h
      | none => exact alloc_refused_unchanged hres
    · simp [hi]
  | remove i =>
    simp only [cstep] at h ⊢
    by_cases hi : i < s.owners.length
    · simp only [hi, dite_true] at h ⊢
      by_cases hc : c.removeFreesChain = true
      · simp only [hc, if_true, List.headD_eq_head?_getD] at h ⊢
        by_cases hr : (freeChain g.kind g.max fuel s.m ((s.owners[i]).head?.getD 0)).2 = true
        · simp [hr] at h
        · simp [hr]
      · simp [hc] at h
    · simp [hi]

/-- **sound_iff_inv**: the executable checker the driver runs on what the real code produced
    (table + chains read from the directory entries) decides exactly the invariant. -/
theorem sound_iff_inv (k : Kind) (lim : Nat) (m : CMap) (owners : List (List Nat)) :
    invB k lim m owners = true ↔ Inv k lim m owners := invB_iff

/-- both FAT copies receive the same bytes: reading the two regions back after `WriteFat`
    gives the same image, whatever was on the device (copies do not overlap). -/
theorem fat_copies_equal (d : Dev) (k : Kind) (fatID size : Nat) (m : CMap) (p1 p2 : Nat)
    (hdis : p1 + (tableBytes k fatID size m).length ≤ p2) :
    let b := tableBytes k fatID size m
    let d' := applyWrs d [⟨p1, b⟩, ⟨p2, b⟩]
    readAt d' p1 b.length = readAt d' p2 b.length := by
  intro b d'
  have h2 : readAt d' p2 b.length = b := by
    simp only [d', applyWrs, List.foldl_cons, List.foldl_nil]
    exact readAt_applyWr_same (applyWr d ⟨p1, b⟩) ⟨p2, b⟩
  have h1 : readAt d' p1 b.length = b := by
    simp only [d', applyWrs, List.foldl_cons, List.foldl_nil]
    rw [readAt_applyWr_disjoint _ ⟨p2, b⟩ p1 b.length (Or.inl hdis)]
    exact readAt_applyWr_same d ⟨p1, b⟩
  rw [h1, h2]

/-! ### geometry computed at mkfs time (mirror of the three `Create`s over the regenerated tables) -/

/-- **create_geom12 / 16**: for EVERY size FAT12 / FAT16 `Create` accepts, the boot-sector geometry
    matches the byte range given (sector count, nothing beyond the range), reserved area + both
    FATs + root region lie in front of a non-empty data area, the FAT has an entry for every
    cluster plus the two reserved ones, every data cluster lies inside the range, and the cluster
    count is on the right side of 4085 / 65525. -/
theorem create_geom12 (size : Nat) (g : Geom) (h : mkGeom12 Generated.Fat.fat12_spc_table size = some g) :
    g.WF size ∧ g.kind = .f12 ∧ g.clusters < 4085 := mkGeom12_wf size g h

theorem create_geom16 (size : Nat) (g : Geom) (h : mkGeom16 Generated.Fat.fat16_spc_table size = some g) :
    g.WF size ∧ g.kind = .f16 ∧ 4085 ≤ g.clusters ∧ g.clusters < 65525 := mkGeom16_wf size g h

/-- FAT32 with the repaired sectors-per-FAT formula: well formed for every accepted size up to
    256 GiB with 512-byte sectors and for every accepted size with 4096-byte sectors -/
theorem create_geom32_fixed (size bs : Nat) (g : Geom) (hmax : size ≤ 274940771839 ∨ bs = 4096)
    (h : mkGeom32Fixed Generated.Fat.fat32_clusterBytes_table size bs = some g) :
    g.WF size ∧ g.kind = .f32 := mkGeom32Fixed_wf size bs g hmax h

/-- FAT32 as found: everything but the two reserved FAT entries -/
theorem create_geom32_asfound_partial (size bs : Nat) (g : Geom) (hmax : size ≤ 274940837375 ∨ bs = 4096)
    (h : mkGeom32 Generated.Fat.fat32_clusterBytes_table size bs = some g) :
    g.totalSectors * g.bps ≤ size ∧ size < g.totalSectors * g.bps + g.bps ∧
    g.reserved + 2 * g.fatSectors + g.rootSectors < g.totalSectors ∧
    0 < g.clusters ∧ g.clusters ≤ g.fatEntries ∧
    g.dataStart + g.clusters * g.spc * g.bps ≤ size ∧ g.kind = .f32 := mkGeom32_wf_weak size bs g hmax h

/-- as found the FAT32 FAT is short of the two reserved entries on a whole family of ordinary
    sizes (finding fat32-fatsize-omits-reserved-entries): 130k+32 sectors give 128k clusters and
    128k entries, for every k -/
theorem cex_fat32_fat_short (k r : Nat) (hk1 : 1 ≤ k) (hk2 : k ≤ 4095) (hr : r < 512) :
    (mkGeom32 Generated.Fat.fat32_clusterBytes_table ((32 + 130 * k) * 512 + r) 512).map
      (fun g => (g.fatEntries, g.clusters)) = some (128 * k, 128 * k) := mkGeom32_fat_short_family' k r hk1 hk2 hr

/-- above 256 GiB the uint16 sectors-per-FAT wraps (finding fat32-geometry-narrow-integers) -/
theorem cex_fat32_300GiB :
    (mkGeom32 Generated.Fat.fat32_clusterBytes_table (300 * GB) 512).map
      (fun g => decide (g.fatEntries < g.clusters + 2)) = some true := cex_mkGeom32_300GiB

/-- the FAT12 sizing before `fix: fat12/fat16: size the FAT for the two reserved entries as well` -/
theorem cex_fat12_fat_short_old :
    (mkGeom12Old Generated.Fat.fat12_spc_table 33554944).map
      (fun g => (g.fatEntries, g.clusters + 2)) = some (2048, 2049) := cex_fatsize_old_values

/-! ### the one-directory filesystem keeps its table sound while it moves data (layer E) -/

/-- every call of the one-directory filesystem, accepted or refused, keeps `FInv`, whose first
    field is the cluster-map invariant over exactly the chains the directory's files own -/
theorem onedir_inv_preserved (eqn) (g : FGeom) (fuel : Nat) (s : FState) (op : FOp)
    (he : EqnOk eqn) (hb : 0 < g.io.bpc) (hlim : LimOk g.kind g.lim) (hmax : g.lim ≤ g.max)
    (hfuel : g.lim - 2 ≤ fuel) (h : FInv eqn g s) :
    Inv g.kind g.lim (fstep eqn g fuel s op).1.m ((fstep eqn g fuel s op).1.files.map (·.chain)) :=
  (fstep_inv he hb hlim hmax hfuel s op h).table

/-! ### as found -/

/-- as found, Remove drops the entry and leaves its chain marked used: the invariant breaks
    (finding fat-remove-leaks-chain) -/
theorem cex_remove_leaks :
    let g : VolGeom := ⟨.f12, 10, 10, 512⟩
    let s : CState := ⟨exTable, [[2], [3, 4]]⟩
    invB .f12 10 s.m s.owners = true ∧
    invB .f12 10 (cstep Cfg.asFound g 10 s (.remove 1)).1.m (cstep Cfg.asFound g 10 s (.remove 1)).1.owners = false ∧
    invB .f12 10 (cstep Cfg.fixed g 10 s (.remove 1)).1.m (cstep Cfg.fixed g 10 s (.remove 1)).1.owners = true := by
  decide

/-- as found, the allocator scans up to the number of FAT entries: once the data area
    (clusters 2..3 here) is full it hands out cluster 4, which lies past the volume
    (finding fat-maxcluster-from-fat-size); repaired, the request is refused. -/
theorem cex_maxcluster :
    let g : VolGeom := ⟨.f12, 6, 4, 512⟩
    let s : CState := ⟨CMap.ofList [0, 0, 0xFFF, 0xFFF], [[2], [3]]⟩
    (cstep Cfg.asFound g 10 s (.create 1)).1.owners = [[4], [2], [3]] ∧
    (cstep Cfg.asFound g 10 s (.create 1)).2 = true ∧
    (cstep Cfg.fixed g 10 s (.create 1)).2 = false := by
  decide

/-! non-vacuity -/
example : GeomOk ⟨.f12, 3072, 2849, 512⟩ :=
  ⟨by intro c hc; have : c < 2849 := by simpa using hc
      simp only [Kind.isEOC]; simp; omega, by decide⟩
example : Inv .f12 (min 10 10) exTable [[2], [3, 4]] := ex_inv

end Diskfs.Fat.C08
