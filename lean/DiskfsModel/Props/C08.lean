/-
  C08 — FAT volumes stay structurally sound on disk.
  Property theorems only; helper lemmas live in Proofs/FatChain.lean, Proofs/FatTable.lean.

  `Inv k lim m owners` (Model/Fat/Chain.lean) is the cluster-map half of soundness: every
  directory entry's chain consists of in-range clusters ending in an end-of-chain mark, no
  cluster is in two chains, and no cluster is marked used that no chain owns.
  The theorems are for every table, every owner set, every operation history (induction),
  accepted or refused, for the repaired configuration `Cfg.fixed`; the as-found behaviour is
  refuted by concrete counterexamples (`cex_*`).
-/
import DiskfsModel.Proofs.FatChain
import DiskfsModel.Proofs.FatTable
import DiskfsModel.Model.Fat.Fs
import DiskfsModel.Proofs.FatGeomGen
import DiskfsModel.Proofs.FatFlatFs
import DiskfsModel.Proofs.FatTreeStep
import DiskfsModel.Proofs.FatTreeFit
import DiskfsModel.Proofs.FatTreeImgCheck
import DiskfsModel.Proofs.FatTreeImgWr
import DiskfsModel.Proofs.FatTreeImgStep
import DiskfsModel.Generated.Fat
import DiskfsModel.Proofs.FatBoot
import DiskfsModel.Proofs.FatEmptyWrite
import DiskfsModel.Spec.FatBoot
namespace Diskfs.Fat.C08

/-- a volume geometry the theorems apply to: allocation limit inside both the FAT and the data
    area, cluster numbers below it are not end-of-chain values, clusters are not empty -/
structure GeomOk (g : VolGeom) : Prop where
  lim : LimOk g.kind (min g.max g.dataLim)
  bpc : 0 < g.bpc

theorem allocLim_fixed (g : VolGeom) : g.allocLim Cfg.fixed = min g.max g.dataLim := rfl

/-- moving owner `i` to the front does not change the invariant -/
theorem inv_rotate {k lim m} {owners : List (List Nat)} {i : Nat} (h : Inv k lim m owners)
    (hi : i < owners.length) : Inv k lim m (owners[i] :: owners.eraseIdx i) := by
  have hperm : List.Perm (owners[i] :: owners.eraseIdx i) owners := by
    have h1 : owners = owners.take i ++ owners[i] :: owners.drop (i + 1) := by
      rw [List.getElem_cons_drop]
      exact (List.take_append_drop i owners).symm
    have h2 : owners.eraseIdx i = owners.take i ++ owners.drop (i + 1) := List.eraseIdx_eq_take_drop_succ ..
    rw [h2]
    conv => rhs; rw [h1]
    exact List.perm_middle.symm
  have hflat : List.Perm (owners[i] :: owners.eraseIdx i).flatten owners.flatten := hperm.flatten
  refine ⟨?_, ?_, ?_⟩
  · intro l hl
    exact h.chains l (hperm.mem_iff.1 hl)
  · exact hflat.nodup_iff.2 h.nodup
  · intro c h2 hl
    rw [h.used_iff c h2 hl]
    exact (hflat.mem_iff).symm

/-- **inv_preserved**: every operation of the repaired filesystem, accepted or refused, keeps
    the cluster map sound. -/
theorem inv_preserved (g : VolGeom) (hg : GeomOk g) (fuel : Nat) (s : CState) (op : COp)
    (hfuel : ∀ l ∈ s.owners, l.length ≤ fuel)
    (h : Inv g.kind (min g.max g.dataLim) s.m s.owners) :
    Inv g.kind (min g.max g.dataLim) (cstep Cfg.fixed g fuel s op).1.m (cstep Cfg.fixed g fuel s op).1.owners := by
  have hmax : min g.max g.dataLim ≤ g.max := Nat.min_le_left ..
  cases op with
  | create size =>
    simp only [cstep]
    split
    · exact h
    · rename_i hs
      rw [allocLim_fixed]
      split
      · rename_i l hres
        exact (alloc_new_inv h (firstFit_spec _) hg.lim hmax hg.bpc (Nat.pos_of_ne_zero hs) hres).1
      · rename_i hres
        rw [alloc_refused_unchanged hres]
        exact h
  | resize i size =>
    simp only [cstep]
    split
    · rename_i hi
      rw [allocLim_fixed]
      have hrot := inv_rotate h hi
      have hf : (s.owners[i]).length ≤ fuel := hfuel _ (List.getElem_mem hi)
      split
      · rename_i l' hres
        by_cases hlt : clusterCount g.bpc size < (s.owners[i]).length
        · simp only [hlt, if_true]
          exact (alloc_shrink_inv (pick := firstFit (min g.max g.dataLim)) hrot hg.lim hmax hg.bpc hf hlt).2
        · simp only [hlt, if_false]
          exact (alloc_grow_inv hrot (firstFit_spec _) hg.lim hmax hg.bpc hf (Nat.le_of_not_lt hlt) hres).1
      · rename_i hres
        rw [alloc_refused_unchanged hres]
        exact h
    · exact h
  | remove i =>
    simp only [cstep]
    split
    · rename_i hi
      have hrot := inv_rotate h hi
      have hf : (s.owners[i]).length ≤ fuel := hfuel _ (List.getElem_mem hi)
      have := freeChain_inv hrot hg.lim hmax hf
      simp only [Cfg.fixed, if_true]
      rw [this.1]
      exact this.2
    · exact h

/-- chains never get longer than the data area, so one fuel value serves a whole history -/
theorem owners_bounded {k lim m owners} (h : Inv k lim m owners) : ∀ l ∈ owners, l.length ≤ lim - 2 := by
  intro l hl
  obtain ⟨i, hi, rfl⟩ := List.getElem_of_mem hl
  exact chain_length_le (inv_rotate h hi)

/-- **inv_history**: soundness after every prefix of every operation history (induction over the
    history), with the walks' fuel fixed at the size of the data area. -/
theorem inv_history (g : VolGeom) (hg : GeomOk g) (ops : List COp) (s : CState)
    (h : Inv g.kind (min g.max g.dataLim) s.m s.owners) :
    Inv g.kind (min g.max g.dataLim) (crun Cfg.fixed g (min g.max g.dataLim - 2) s ops).m
      (crun Cfg.fixed g (min g.max g.dataLim - 2) s ops).owners := by
  induction ops generalizing s with
  | nil => exact h
  | cons op rest ih =>
    simp only [crun, List.foldl_cons]
    exact ih _ (inv_preserved g hg _ s op (owners_bounded h) h)

/-- a refused operation leaves the table exactly as it was -/
theorem refused_unchanged (c : Cfg) (g : VolGeom) (fuel : Nat) (s : CState) (op : COp)
    (h : (cstep c g fuel s op).2 = false) : (cstep c g fuel s op).1.m = s.m := by
  cases op with
  | create size =>
    simp only [cstep] at h ⊢
    by_cases hs : size = 0
    · simp [hs]
    · simp only [hs, if_false] at h ⊢
      cases hres : (allocateSpace g.kind g.max g.bpc (firstFit (g.allocLim c)) fuel s.m size 0).res with
      | some l => simp [hres] at h
      | none => exact alloc_refused_unchanged hres
  | resize i size =>
    simp only [cstep] at h ⊢
    by_cases hi : i < s.owners.length
    · simp only [hi, dite_true, List.headD_eq_head?_getD] at h ⊢
      cases hres : (allocateSpace g.kind g.max g.bpc (firstFit (g.allocLim c)) fuel s.m size ((s.owners[i]).head?.getD 0)).res with
      | some l => simp [hres] at h
      | none => exact alloc_refused_unchanged hres
    · simp [hi]
  | remove i =>
    simp only [cstep] at h ⊢
    by_cases hi : i < s.owners.length
    · simp only [hi, dite_true] at h ⊢
      by_cases hc : c.removeFreesChain = true
      · simp only [hc, if_true, List.headD_eq_head?_getD] at h ⊢
        by_cases hr : (freeChain g.kind g.max fuel s.m ((s.owners[i]).head?.getD 0)).2 = true
        · simp [hr] at h
        · simp [hr]
      · simp [hc] at h
    · simp [hi]

/-- **sound_iff_inv**: the executable checker the driver runs on what the real code produced
    (table + chains read from the directory entries) decides exactly the invariant. -/
theorem sound_iff_inv (k : Kind) (lim : Nat) (m : CMap) (owners : List (List Nat)) :
    invB k lim m owners = true ↔ Inv k lim m owners := invB_iff

/-- both FAT copies receive the same bytes: reading the two regions back after `WriteFat`
    gives the same image, whatever was on the device (copies do not overlap). -/
theorem fat_copies_equal (d : Dev) (k : Kind) (fatID size : Nat) (m : CMap) (p1 p2 : Nat)
    (hdis : p1 + (tableBytes k fatID size m).length ≤ p2) :
    let b := tableBytes k fatID size m
    let d' := applyWrs d [⟨p1, b⟩, ⟨p2, b⟩]
    readAt d' p1 b.length = readAt d' p2 b.length := by
  intro b d'
  have h2 : readAt d' p2 b.length = b := by
    simp only [d', applyWrs, List.foldl_cons, List.foldl_nil]
    exact readAt_applyWr_same (applyWr d ⟨p1, b⟩) ⟨p2, b⟩
  have h1 : readAt d' p1 b.length = b := by
    simp only [d', applyWrs, List.foldl_cons, List.foldl_nil]
    rw [readAt_applyWr_disjoint _ ⟨p2, b⟩ p1 b.length (Or.inl hdis)]
    exact readAt_applyWr_same d ⟨p1, b⟩
  rw [h1, h2]

/-! ### geometry computed at mkfs time (mirror of the three `Create`s over the regenerated tables) -/

/-- **the geometry theorems are parametric in the cluster-size tables**: for EVERY table that
    satisfies the decidable predicate `ClusterTableWF` (rows in increasing order of size, cluster
    sizes non-decreasing, each a power of two between 1 and 128 sectors; FAT32: 512…32768 bytes and
    no row whose sizes would wrap the 16-bit sectors-per-FAT field) the mirrored mkfs arithmetic
    yields a well-formed geometry for every size it accepts.  Nothing in the proofs mentions a
    threshold of today's tables. -/
theorem create_geom12_any_table (tbl : List (Nat × Nat)) (hT : ClusterTableWF spcAllowed tbl = true)
    (size : Nat) (g : Geom) (h : mkGeom12 tbl size = some g) :
    g.WF size ∧ g.kind = .f12 ∧ g.clusters < 4085 := mkGeom12_wf_tbl tbl hT size g h

theorem create_geom16_any_table (tbl : List (Nat × Nat)) (hT : ClusterTableWF spcAllowed tbl = true)
    (size : Nat) (g : Geom) (h : mkGeom16 tbl size = some g) :
    g.WF size ∧ g.kind = .f16 ∧ 4085 ≤ g.clusters ∧ g.clusters < 65525 := mkGeom16_wf_tbl tbl hT size g h

theorem create_geom32_any_table (tbl : List (Nat × Nat)) (hT : ClusterTableWF32 tbl = true)
    (size bs : Nat) (g : Geom) (hmax : size ≤ 274940771839 ∨ bs = 4096)
    (h : mkGeom32Fixed tbl size bs = some g) : g.WF size ∧ g.kind = .f32 :=
  mkGeom32Fixed_wf_tbl tbl hT size bs g hmax h

/-- the tables regenerated from /repo on this run satisfy the predicate (`decide`, re-run every
    time): a harmless edit of a threshold re-proves everything below by itself -/
theorem facts_tables_wf :
    ClusterTableWF spcAllowed Generated.Fat.fat12_spc_table = true ∧
    ClusterTableWF spcAllowed Generated.Fat.fat16_spc_table = true ∧
    ClusterTableWF32 Generated.Fat.fat32_clusterBytes_table = true :=
  ⟨fat12_table_wf, fat16_table_wf, fat32_table_wf⟩

/-- … while harmful edits are refused by the predicate: a cluster size that is not a power of two,
    one that is not a multiple of the sector size, thresholds out of order, cluster sizes that
    shrink as the volume grows, a FAT32 row that keeps 512-byte clusters up to 64 GiB (the 16-bit
    sectors-per-FAT would wrap) — and a moved threshold is accepted -/
theorem table_predicate_discriminates :
    ClusterTableWF spcAllowed [(2097153, 1), (4194305, 3), (0, 64)] = false ∧
    ClusterTableWF32 [(272629761, 768), (0, 32768)] = false ∧
    ClusterTableWF spcAllowed [(4194305, 1), (2097153, 2), (0, 64)] = false ∧
    ClusterTableWF spcAllowed [(2097153, 4), (4194305, 2), (0, 64)] = false ∧
    ClusterTableWF32 [(68719476737, 512), (0, 32768)] = false ∧
    ClusterTableWF32 [(134217729, 512), (8589934593, 4096), (17179869185, 8192), (34359738369, 16384), (0, 32768)] = true :=
  ⟨table_bad_value, table_bad_multiple, table_not_monotone, table_values_decrease, table_fat32_wraps,
    table_harmless_edit.2⟩

/-- **create_geom12 / 16**: for EVERY size FAT12 / FAT16 `Create` accepts, the boot-sector geometry
    matches the byte range given (sector count, nothing beyond the range), reserved area + both
    FATs + root region lie in front of a non-empty data area, the FAT has an entry for every
    cluster plus the two reserved ones, every data cluster lies inside the range, and the cluster
    count is on the right side of 4085 / 65525. -/
theorem create_geom12 (size : Nat) (g : Geom) (h : mkGeom12 Generated.Fat.fat12_spc_table size = some g) :
    g.WF size ∧ g.kind = .f12 ∧ g.clusters < 4085 := mkGeom12_wf size g h

theorem create_geom16 (size : Nat) (g : Geom) (h : mkGeom16 Generated.Fat.fat16_spc_table size = some g) :
    g.WF size ∧ g.kind = .f16 ∧ 4085 ≤ g.clusters ∧ g.clusters < 65525 := mkGeom16_wf size g h

/-- FAT32 with the repaired sectors-per-FAT formula: well formed for every accepted size up to
    256 GiB with 512-byte sectors and for every accepted size with 4096-byte sectors -/
theorem create_geom32_fixed (size bs : Nat) (g : Geom) (hmax : size ≤ 274940771839 ∨ bs = 4096)
    (h : mkGeom32Fixed Generated.Fat.fat32_clusterBytes_table size bs = some g) :
    g.WF size ∧ g.kind = .f32 := mkGeom32Fixed_wf size bs g hmax h

/-- as found (before fix 911b8cc) the FAT32 FAT was short of the two reserved entries on a whole
    family of ordinary sizes (finding fat32-fatsize-omits-reserved-entries, now fixed): wherever
    the table assigns 512-byte clusters, 130k+32 sectors give 128k clusters and 128k entries -/
theorem cex_fat32_fat_short (tbl : List (Nat × Nat)) (k r : Nat) (hk1 : 1 ≤ k) (hk2 : k ≤ 4095) (hr : r < 512)
    (hl : sizeTableLookup tbl ((32 + 130 * k) * 512 + r) = 512) :
    (mkGeom32 tbl ((32 + 130 * k) * 512 + r) 512).map
      (fun g => (g.fatEntries, g.clusters)) = some (128 * k, 128 * k) := mkGeom32_fat_short_family' tbl k r hk1 hk2 hr hl

/-- … e.g. today's table at 161 sectors: 1 FAT sector = 128 entries for 127 clusters (129 needed) -/
theorem cex_fat32_fat_short_161 :
    (mkGeom32 Generated.Fat.fat32_clusterBytes_table 82432 512).map
      (fun g => (g.fatSectors, g.fatEntries, g.clusters)) = some (1, 128, 127) := cex_mkGeom32_fat_short

/-- above 256 GiB the uint16 sectors-per-FAT wraps (finding fat32-geometry-narrow-integers) -/
theorem cex_fat32_300GiB :
    (mkGeom32 Generated.Fat.fat32_clusterBytes_table (300 * GB) 512).map
      (fun g => decide (g.fatEntries < g.clusters + 2)) = some true := cex_mkGeom32_300GiB

/-- the FAT12 sizing before `fix: fat12/fat16: size the FAT for the two reserved entries as well` -/
theorem cex_fat12_fat_short_old :
    (mkGeom12Old Generated.Fat.fat12_spc_table 33554944).map
      (fun g => (g.fatEntries, g.clusters + 2)) = some (2048, 2049) := cex_fatsize_old_values

/-! ### boot sector, backup boot sector, FSInfo: byte encoders (mirrors of the `toBytes` writers) -/

/-- the 512-byte FAT12/16 boot sector `msDosBootSector.toBytes` builds (jump, OEM name, DOS 2.0 /
    3.31 BPB, DOS 4.0 EBPB with label and type, boot code, 55 AA) decodes, field by field at the
    fixed offsets, to exactly the record it was built from -/
theorem boot16_roundtrip (s : Boot16) (h : s.WF) : Boot16.parse s.bytes = some s ∧ s.bytes.length = 512 :=
  ⟨Fat.boot16_roundtrip s h, boot16_length s h⟩

/-- the FAT32 boot sector (DOS 7.1 EBPB: 32-bit FAT size, root cluster, FSInfo and backup sector
    numbers, big-endian serial as the Go code writes it), for every sector size ≥ 512; the backup
    boot sector is this same byte string written at sector `backup` -/
theorem boot32_roundtrip (s : Boot32) (sectorSize : Nat) (h : s.WF) (hs : 512 ≤ sectorSize) :
    Boot32.parse (s.bytes sectorSize) = some s ∧ (s.bytes sectorSize).length = sectorSize :=
  ⟨Fat.boot32_roundtrip s sectorSize h, boot32_length s sectorSize h hs⟩

/-- the FSInfo sector: three signatures, free-cluster count and next-free hint -/
theorem fsinfo_roundtrip (s : FsInfo) (sectorSize : Nat) (h1 : s.free < 4294967296) (h2 : s.last < 4294967296) :
    FsInfo.parse (s.bytes sectorSize) = some s := Fat.fsinfo_roundtrip s sectorSize h1 h2

/-- the record fat32.Create builds from a geometry (sectors per FAT, root cluster 2, FSInfo at
    sector 1, backup boot sector at 6, …) is well formed, so it is read back exactly from the boot
    sector and from its backup copy -/
theorem create_boot32_roundtrip (g : Geom) (serial : Nat) (label : Bytes) (hs : serial < 4294967296)
    (hl : label.length = 11) (hk : g.kind = .f32) (hbps : g.bps < 65536) (hspc : g.spc < 256)
    (hres : g.reserved < 65536) (hts : g.totalSectors < 4294967296) (hfs : g.fatSectors < 4294967296) :
    Boot32.parse ((boot32OfGeom g serial label).bytes g.bps) = some (boot32OfGeom g serial label) :=
  Fat.boot32_roundtrip _ _ (create_boot32_wf g serial label hs hl hk hbps hspc hres hts hfs)

/-! ### the one-directory filesystem keeps its table sound while it moves data (layer E) -/

/-- every call of the one-directory filesystem, accepted or refused, keeps `FInv`, whose first
    field is the cluster-map invariant over exactly the chains the directory's files own -/
theorem onedir_inv_preserved (eqn) (g : FGeom) (fuel : Nat) (s : FState) (op : FOp)
    (he : EqnOk eqn) (hb : 0 < g.io.bpc) (hlim : LimOk g.kind g.lim) (hmax : g.lim ≤ g.max)
    (hfuel : g.lim - 2 ≤ fuel) (h : FInv eqn g s) :
    Inv g.kind g.lim (fstep eqn g fuel s op).1.m ((fstep eqn g fuel s op).1.files.map (·.chain)) :=
  (fstep_inv he hb hlim hmax hfuel s op h).table

/-! ### the tree of directories keeps its table sound (layer E, Model/Fat/TreeFs.lean) -/

/-- **tree_inv_preserved**: every path-addressed call on the tree model of a volume (mkdir,
    create, write, truncating open, remove, rename; every one rewrites a parent directory whose
    chain may grow or shrink), accepted or refused, keeps the cluster map sound with EXACTLY the
    chains of the tree's files and directories (and the root directory's chain on FAT32) as owners:
    every chain in range and end-of-chain terminated, no cluster in two chains, no cluster marked
    used that no file or directory owns. -/
theorem tree_inv_preserved (eqn) (g : TGeom) (fuel : Nat) (s : DirSt) (op : TOp)
    (he : EqnOk eqn) (hg : TGeomOk g) (hfuel : g.f.lim - 2 ≤ fuel) (h : TInv eqn g s) :
    Inv g.f.kind g.f.lim (tstep eqn g fuel s op).1.m
      (chainOwner (tstep eqn g fuel s op).1.chain ++ kidsOwners (tstep eqn g fuel s op).1.kids) :=
  (tstep_inv he hg hfuel s op h).table

/-- **tree_inv_history**: the same after every history (induction over the call list) -/
theorem tree_inv_history (eqn) (g : TGeom) (fuel : Nat) (ops : List TOp) (s : DirSt)
    (he : EqnOk eqn) (hg : TGeomOk g) (hfuel : g.f.lim - 2 ≤ fuel) (h : TInv eqn g s) :
    Inv g.f.kind g.f.lim (trun eqn g fuel s ops).m
      (chainOwner (trun eqn g fuel s ops).chain ++ kidsOwners (trun eqn g fuel s ops).kids) :=
  (trun_inv he hg hfuel ops s h).table

/-- **tree_no_orphans_no_crosslinks**: spelled out — after every history every cluster of the data
    area is marked used exactly when it lies in the chain of some file or directory of the tree
    (no lost clusters), and it lies in at most one place of at most one chain (no cross links) -/
theorem tree_no_orphans_no_crosslinks (eqn) (g : TGeom) (fuel : Nat) (ops : List TOp) (s : DirSt)
    (he : EqnOk eqn) (hg : TGeomOk g) (hfuel : g.f.lim - 2 ≤ fuel) (h : TInv eqn g s) :
    let s' := trun eqn g fuel s ops
    let owned := (chainOwner s'.chain ++ kidsOwners s'.kids).flatten
    (∀ c, 2 ≤ c → c < g.f.lim → (s'.m c ≠ 0 ↔ c ∈ owned)) ∧ owned.Nodup := by
  intro s' owned
  have := tree_inv_history eqn g fuel ops s he hg hfuel h
  exact ⟨this.used_iff, this.nodup⟩

/-- **dir_rewrite_sound**: `writeDirectoryEntries` on a directory whose entries now need a
    different number of clusters grows or shrinks the directory's chain to exactly that number,
    keeps the cluster map sound with the new chain in place of the old one, keeps a fixed root
    fixed, and leaves the bytes of every other chain as they were -/
theorem dir_rewrite_sound (g : TGeom) (fuel : Nat) (m : CMap) (d : Dev) (chain : List Nat) (base : Nat)
    (ks : List TNode) (img : Bytes) (w : WD) (R : List (List Nat))
    (hg : TGeomOk g) (hfuel : g.f.lim - 2 ≤ fuel)
    (h : Inv g.f.kind g.f.lim m (chainOwner chain ++ R))
    (hw : writeDir g fuel m d chain base ks img = .ok w) :
    Inv g.f.kind g.f.lim w.m (chainOwner w.chain ++ R) ∧ (w.chain = [] ↔ chain = []) ∧
    (∀ o ∈ R, chainBytes w.d g.f.io o = chainBytes d g.f.io o) ∧
    (chain ≠ [] → w.chain.length = dirNeed g base ks) :=
  writeDir_ok hg hfuel h hw

/-- **tree_dirs_fit**: no directory is ever larger than its chain. `TFit`: every chained directory
    of the tree (the FAT32 root included) has exactly the clusters its entries need — what
    `writeDirectoryEntries` leaves behind — and the fixed FAT12/16 root has a slot for every entry.
    Every path-addressed call, accepted or refused for whatever reason, keeps that: in particular a
    Remove / Rename that is refused for lack of space has not cut the parent directory short of its
    entries (the defect of finding fat-rename-enospc-truncates-dir, fixed by 5b30bf0). -/
theorem tree_dirs_fit (eqn) (g : TGeom) (fuel : Nat) (s : DirSt) (op : TOp)
    (he : EqnOk eqn) (hb64 : 64 ≤ g.f.io.bpc) (h : TInv eqn g s) (hfit : TFit g s) :
    TFit g (tstep eqn g fuel s op).1 :=
  tstep_fit he hb64 s op h hfit

/-- … and after every history (induction over the call list) -/
theorem tree_dirs_fit_history (eqn) (g : TGeom) (fuel : Nat) (ops : List TOp) (s : DirSt)
    (he : EqnOk eqn) (hg : TGeomOk g) (hfuel : g.f.lim - 2 ≤ fuel) (hb64 : 64 ≤ g.f.io.bpc)
    (h : TInv eqn g s) (hfit : TFit g s) : TFit g (trun eqn g fuel s ops) :=
  trun_fit he hg hfuel hb64 ops s h hfit

/-- non-vacuity: directory "B" (two clusters of 64 bytes, two slots per name) holding the file "A" -/
example : TGeomOk exTGeom2 ∧ 64 ≤ exTGeom2.f.io.bpc ∧ TInv exEqn exTGeom2 exTree2 ∧ TFit exTGeom2 exTree2 :=
  ⟨exTGeom2_ok, by decide, exTree2_inv, exTree2_fit⟩

/-- non-vacuity of the tree theorems' hypotheses -/
example : EqnOk exEqn ∧ TGeomOk exTGeom ∧ exTGeom.f.lim - 2 ≤ 8 ∧ TInv exEqn exTGeom exTree :=
  ⟨exEqn_ok, exTGeom_ok, by decide, exTree_inv⟩
/-- … and of `dir_rewrite_sound`: the directory "B" (chain 3 → 4) rewritten with five entries needs
    a third cluster and gets cluster 5 -/
example :
    (match writeDir exTGeom 8 exTable (fun _ => 0) [3, 4] 2
        [.file [67] [9] 0, .file [68] [9] 0, .file [69] [9] 0] [] with
      | .ok w => w.chain
      | .error _ => []) = [3, 4, 5] := by decide

/-! ### as found -/

/-- as found, Remove drops the entry and leaves its chain marked used: the invariant breaks
    (finding fat-remove-leaks-chain) -/
theorem cex_remove_leaks :
    let g : VolGeom := ⟨.f12, 10, 10, 512⟩
    let s : CState := ⟨exTable, [[2], [3, 4]]⟩
    invB .f12 10 s.m s.owners = true ∧
    invB .f12 10 (cstep Cfg.asFound g 10 s (.remove 1)).1.m (cstep Cfg.asFound g 10 s (.remove 1)).1.owners = false ∧
    invB .f12 10 (cstep Cfg.fixed g 10 s (.remove 1)).1.m (cstep Cfg.fixed g 10 s (.remove 1)).1.owners = true := by
  decide

/-- as found, the allocator scans up to the number of FAT entries: once the data area
    (clusters 2..3 here) is full it hands out cluster 4, which lies past the volume
    (finding fat-maxcluster-from-fat-size); repaired, the request is refused. -/
theorem cex_maxcluster :
    let g : VolGeom := ⟨.f12, 6, 4, 512⟩
    let s : CState := ⟨CMap.ofList [0, 0, 0xFFF, 0xFFF], [[2], [3]]⟩
    (cstep Cfg.asFound g 10 s (.create 1)).1.owners = [[4], [2], [3]] ∧
    (cstep Cfg.asFound g 10 s (.create 1)).2 = true ∧
    (cstep Cfg.fixed g 10 s (.create 1)).2 = false := by
  decide

/-! non-vacuity -/
example : GeomOk ⟨.f12, 3072, 2849, 512⟩ :=
  ⟨by intro c hc; have : c < 2849 := by simpa using hc
      simp only [Kind.isEOC]; simp; omega, by decide⟩
example : Inv .f12 (min 10 10) exTable [[2], [3, 4]] := ex_inv

/-! ### zero-length writes -/

/-- **empty_write_keeps_invariant**: `File.Write` of an empty buffer, mirrored without a shortcut
    for `len(p) = 0` (`fileWriteRaw`), at an offset inside a well-formed file or at its end (not a
    positive whole number of clusters): accepted, chain and size as before, and the table it leaves
    - for an EMPTY file allocateSpace(0, c) goes through the shrink branch with count = 0, keeps the
    first cluster and marks it end-of-chain again, whatever end-of-chain value it carried - still
    meets the invariant with the SAME owners: the cluster stays the file's, nobody else can be
    handed it.  (A shrink that released `clusters[count:]` for count = 0 would free a cluster its
    directory entry still names: `cex_shrink_to_zero_frees_owned`.) -/
theorem empty_write_keeps_invariant (g : FGeom) (fuel : Nat) (m : CMap) (d : Dev) (l : List Nat)
    (others : List (List Nat)) (size off : Nat)
    (hb : 0 < g.io.bpc) (hlim : LimOk g.kind g.lim) (hmax : g.lim ≤ g.max) (hf : l.length ≤ fuel)
    (h : Inv g.kind g.lim m (l :: others))
    (hlen : l.length = Nat.max (clusterCount g.io.bpc size) 1)
    (hoff : off ≤ size) (hnb : ¬ (0 < off ∧ off = size ∧ off % g.io.bpc = 0)) :
    ∃ m' w, fileWriteRaw g fuel m d l size off [] = .ok m' d l size w ∧
      Inv g.kind g.lim m' (l :: others) ∧ (∀ i, i ≠ l.headD 0 → m' i = m i) := by
  have hlen' : l.length = Nat.max (cnt size g.io.bpc) 1 := hlen
  have ha := alloc_same_size (pick := firstFit g.lim) (bpc := g.io.bpc) h hlim hmax hf hlen'
  have hns : Nat.max size (off + ([] : Bytes).length) = size := by
    show Max.max size (off + 0) = size; omega
  have hwH : writeH true g.io l size off [] = writeCore g.io l off [] := by
    unfold writeH; rw [if_neg (by intro hh; exact absurd hh.2 (by omega))]
  have hin := off_cluster_in_chain (len := l.length) hb hlen' hoff hnb
  have hsome : ∃ ws, writeCore g.io l off [] = some ws := by
    cases hw : writeCore g.io l off [] with
    | some ws => exact ⟨ws, rfl⟩
    | none =>
      have := (writeCore_nil_none_iff g.io l off).1 hw
      rcases hin with h0 | hlt
      · exact absurd h0 this.1
      · omega
  obtain ⟨ws, hws⟩ := hsome
  have hd : applyWrs d ws = d := applyWrs_empty d ws (writeCore_nil_empty g.io l off ws hws)
  by_cases hc : cnt size g.io.bpc = 0
  · have hl1 : l.length = 1 := by rw [hlen', hc]; rfl
    match l, hl1, h, ha, hws with
    | [c], _, h, ha, hws =>
      refine ⟨m.set c g.kind.eoc, true, ?_, alloc_zero_keeps_inv h, fun i hi => CMap.set_ne m _ hi⟩
      unfold fileWriteRaw falloc
      simp only [hns]
      rw [ha, if_pos hc]
      simp only [List.headD_cons, hwH, hws, hd]
  · refine ⟨m, false, ?_, h, fun _ _ => rfl⟩
    unfold fileWriteRaw falloc
    simp only [hns]
    rw [ha, if_neg hc]
    simp only [hwH, hws, hd]

example : ∃ m' w, fileWriteRaw ⟨.f12, 10, 10, ⟨0, 0, 4⟩⟩ 8 exTable (fun _ => 7) [2] 0 0 [] = .ok m' (fun _ => 7) [2] 0 w ∧
    Inv .f12 10 m' ([2] :: [[3, 4]]) ∧ (∀ i, i ≠ 2 → m' i = exTable i) :=
  empty_write_keeps_invariant ⟨.f12, 10, 10, ⟨0, 0, 4⟩⟩ 8 exTable (fun _ => 7) [2] [[3, 4]] 0 0 (by decide) ex_limOk
    (Nat.le_refl _) (by decide) ex_inv (by decide) (Nat.le_refl _) (by omega)

/-- a shrink branch that releases `clusters[count:]` and writes the end-of-chain mark only when
    count > 0 (a tidied-up allocateSpace without the clamp `lastAlloc < 0 → 0`) breaks the
    invariant on allocateSpace(0, c): the cluster of an empty file is free while its entry still
    owns it, and the first-fit scan hands it to the next file -/
theorem cex_shrink_to_zero_frees_owned :
    ¬ invB .f12 10 (freeAll exTable ([2].drop 0)) [[2], [3, 4]] = true
    ∧ firstFit 10 (freeAll exTable ([2].drop 0)) 1 = [2]
    ∧ invB .f12 10 (allocateSpace .f12 10 4 (firstFit 10) 8 exTable 0 2).m [[2], [3, 4]] = true := by decide

/-! ### the parsed entries of the volume's bytes -/

/-- **tree_parsed_entries_sound**: "every directory entry's chain made of in-range clusters ending
    in an end-of-chain mark and long enough for the recorded size", over the PARSED entries: in the
    bytes of the volume (`image`: every directory's chain holds the serialisation of its child
    list) a reader that parses the root directory, skips volume label, "." and "..", and descends
    into every subdirectory through the FAT (`reopenCheck`, to any depth) finds for EVERY entry a
    chain that `getClusterList` walks to its end, whose clusters lie in [2, lim) with consecutive
    links and an end-of-chain mark (`chainOkB`), and that has at least the clusters the entry's
    size field needs. For every state that meets the invariants, hence (`tree_inv_history`,
    `tree_dirs_fit_history`) after every history. -/
theorem tree_parsed_entries_sound (eqn) (X : ImgParams) (g : TGeom) (fuel depth : Nat) (s : DirSt)
    (hX : ImgParamsOk X g) (hg : TGeomOk g) (hfuel : g.f.lim - 2 ≤ fuel)
    (h : TInv eqn g s) (hfit : TFit g s) (hok : kidsImgOk X g s.kids) :
    reopenCheck g fuel depth s.m (image X g s) (s.chain.headD 0) = true :=
  reopenCheck_image hX hg hfuel h hfit hok

theorem tree_parsed_entries_sound_history (eqn) (X : ImgParams) (g : TGeom) (fuel depth : Nat) (ops : List TOp) (s : DirSt)
    (he : EqnOk eqn) (hX : ImgParamsOk X g) (hg : TGeomOk g) (hfuel : g.f.lim - 2 ≤ fuel) (hb64 : 64 ≤ g.f.io.bpc)
    (h : TInv eqn g s) (hfit : TFit g s) (hok : kidsImgOk X g s.kids) (hops : ∀ op ∈ ops, OpOk X g op) :
    reopenCheck g fuel depth (trun eqn g fuel s ops).m (image X g (trun eqn g fuel s ops))
      ((trun eqn g fuel s ops).chain.headD 0) = true :=
  reopenCheck_image hX hg hfuel (trun_inv he hg hfuel ops s h) (trun_fit he hg hfuel hb64 ops s h hfit)
    (trun_imgok ops s hops hok)

/-- non-vacuity: the volume `exTree2` with its label, subdirectory and file -/
example : reopenCheck exTGeom2 8 3 exTree2.m (image exX exTGeom2 exTree2) (exTree2.chain.headD 0) = true :=
  tree_parsed_entries_sound exEqn exX exTGeom2 8 3 exTree2 exX_ok exTGeom2_ok (by decide) exTree2_inv exTree2_fit
    exTree2_imgok
/-- the check is not vacuous: an entry whose size needs more clusters than its chain has fails it -/
example : entryChainOkB exTGeom2 8 exTree2.m
    { short := [65], ext := [], long := [], attr := 0, lcase := 0, cTime := 0, cDate := 0, aDate := 0, mTime := 0,
      mDate := 0, cluster := 2, size := 65 } = false := by decide
example : entryChainOkB exTGeom2 8 exTree2.m
    { short := [65], ext := [], long := [], attr := 0, lcase := 0, cTime := 0, cDate := 0, aDate := 0, mTime := 0,
      mDate := 0, cluster := 2, size := 64 } = true := by decide

/-- **dir_rewrite_holds_image**: the operational side of one rewrite. `writeDirectoryEntries` of
    the tree model (grow or shrink the chain to the clusters the entries need, one WriteAt per
    cluster), handed an image that fills the directory's new chain exactly — as `entriesToBytes`
    of the child list does (`level_image_length`) — leaves that chain reading as the image; the
    fixed root region of FAT12/16 reads as the fixed-size image. For every table, device, chain. -/
theorem dir_rewrite_holds_image (g : TGeom) (fuel : Nat) (m : CMap) (d : Dev) (chain : List Nat) (base : Nat)
    (ks : List TNode) (img : Bytes) (w : WD) (R : List (List Nat))
    (hg : TGeomOk g) (hfuel : g.f.lim - 2 ≤ fuel)
    (h : Inv g.f.kind g.f.lim m (chainOwner chain ++ R))
    (hw : writeDir g fuel m d chain base ks img = .ok w) :
    (chain ≠ [] → img.length = w.chain.length * g.f.io.bpc → chainBytes w.d g.f.io w.chain = img) ∧
    (chain = [] → img.length = 32 * g.rootCap → readAt w.d g.rootOff (32 * g.rootCap) = img) :=
  writeDir_holds_image hg hfuel h hw

end Diskfs.Fat.C08
