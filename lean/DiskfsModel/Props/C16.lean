/-
  C16 — CopyFileSystem copies faithfully and CompareFS tells the truth.
  Property theorems only; helper lemmas live in Proofs/Sync.lean and Proofs/SyncCopy.lean,
  the tree spec in Spec/SyncTree.lean, the mirror of sync/copy.go + sync/verify.go in Model/Sync.lean.

  Quantifiers: every well-formed source tree (any depth, any contents, any names — distinct inside a
  directory), every parameter set satisfying `Cfg.wf` (discharged for the regenerated facts by
  `facts_agree_cfg_wf`), every source reader chunking (copy), every pair of reader behaviours that
  fill their buffers (compare).  Symbolic links and special files are outside the CompareFS
  theorems (`plain`): the real CompareFS resolves links through `fs.Stat`/`Open`, which the tree
  spec does not model; the model answers `unsupported` there and the theorems never rely on it.
-/
import DiskfsModel.Proofs.SyncCopy
import DiskfsModel.Generated.SyncFs
namespace Diskfs.Sync.C16
open Diskfs.Sync Forest

/-- the parameters as regenerated from sync/copy.go and sync/verify.go -/
def cfgGen : Cfg :=
  { excluded := Generated.SyncFs.excludedPaths, maxAll := Generated.SyncFs.maxCopyAllSize,
    chunk := Generated.SyncFs.copyChunkSize, cmpBuf := Generated.SyncFs.compareBufSize }

/-! ## CopyFileSystem -/

/-- Copying any well-formed source tree into an empty destination that behaves like a tree of named
    items succeeds and leaves exactly the source minus excluded names (at every level) minus special
    files — provided the source can read its symlinks (or has none that would be copied).  Holds for
    every chunking of the source reader, i.e. for the whole-file and for the streaming path. -/
theorem copy_faithful (c : Cfg) (hc : c.wf = true) (src : ReaderBehaviour) (readlink : Bool) (t : Forest)
    (hwf : t.wf = true) (hl : readlink = true ∨ (copyImage c.excluded t).noLinks = true) :
    (copyOps c src readlink t).2 = true ∧
    applyOps (copyOps c src readlink t).1 [] = some ((copyImage c.excluded t).flatAt []) := by
  have := copyDir_apply c (wf_excl_dot c hc).2.2 src readlink t [] [] hwf hl rfl
    (by intro e he; cases he)
  simpa [copyOps, copyImage] using this

/-- the same, read through paths: afterwards every path denotes in the destination what it denotes in
    the source minus excluded names (same paths, kinds, sizes, contents, link targets) -/
theorem copy_faithful_lookup (c : Cfg) (hc : c.wf = true) (src : ReaderBehaviour) (readlink : Bool) (t : Forest)
    (hwf : t.wf = true) (hl : readlink = true ∨ (copyImage c.excluded t).noLinks = true) :
    ∃ dst, applyOps (copyOps c src readlink t).1 [] = some dst ∧
      ∀ p, dst.item p = (copyImage c.excluded t).lookup p := by
  refine ⟨_, (copy_faithful c hc src readlink t hwf hl).2, fun p => ?_⟩
  exact item_flatAt _ (wf_strip c.excluded false t hwf) p

/-- the writes of one file: a single write of everything up to the threshold, else one write per chunk
    the source delivers; their sizes are the sizes-only function the driver evaluates for the > 64 MiB file,
    they concatenate to the content, and above the threshold none exceeds the buffer -/
theorem copy_file_writes (c : Cfg) (hc : c.wf = true) (src : ReaderBehaviour) (d : Bytes) :
    (fileWrites c src d).flatten = d ∧
    (fileWrites c src d).map List.length = fileWriteLens c src d.length ∧
    (d.length ≤ c.maxAll → fileWrites c src d = [d]) ∧
    (c.maxAll < d.length → ∀ w ∈ fileWrites c src d, w.length ≤ c.chunk) := by
  refine ⟨fileWrites_flatten c (wf_excl_dot c hc).2.2 src d, fileWrites_lengths c src d, ?_, ?_⟩
  · intro h; simp [fileWrites, h]
  · intro h w hw
    have hlen : w.length ∈ (fileWrites c src d).map List.length := List.mem_map_of_mem hw
    rw [fileWrites_lengths, fileWriteLens, if_neg (by omega)] at hlen
    have : ∀ (fuel rem call : Nat) (x : Nat), x ∈ chunkLens src c.chunk fuel rem call → x ≤ c.chunk := by
      intro fuel
      induction fuel with
      | zero => intro rem call x hx; simp [chunkLens] at hx
      | succ fuel ih =>
        intro rem call x hx
        unfold chunkLens at hx
        split at hx
        · cases hx
        · simp only [List.mem_cons] at hx
          rcases hx with rfl | hx
          · unfold ReaderBehaviour.count; omega
          · exact ih _ _ _ hx
    exact this _ _ _ _ hlen

/-! ## CompareFS -/

/-- CompareFS returns nil exactly when the two trees, minus excluded names, have the same paths,
    kinds, sizes and contents — for readers that fill their buffers. -/
theorem compare_sound_complete (c : Cfg) (hc : c.wf = true) (ra rb : ReaderBehaviour)
    (hfa : FullReads ra c.cmpBuf) (hfb : FullReads rb c.cmpBuf) (a b : Forest)
    (hwa : a.wf = true) (hwb : b.wf = true) (hpa : a.plain = true) (_hpb : b.plain = true) :
    compareFS c ra rb a b = .ok ↔ stripExcluded c.excluded a ≈ stripExcluded c.excluded b :=
  compareFS_ok_iff c hc ra rb hfa hfb a b hwa hwb hpa

/-- Verifying a faithful copy succeeds: CompareFS of a source against what CopyFileSystem leaves
    (`copy_faithful`) returns nil — the two halves of the property fit together. -/
theorem copy_then_compare_ok (c : Cfg) (hc : c.wf = true) (ra rb : ReaderBehaviour)
    (hfa : FullReads ra c.cmpBuf) (hfb : FullReads rb c.cmpBuf) (t : Forest)
    (hwf : t.wf = true) (hp : t.plain = true) :
    compareFS c ra rb t (copyImage c.excluded t) = .ok := by
  unfold copyImage
  rw [compareFS_ok_iff c hc ra rb hfa hfb t _ hwf (wf_strip c.excluded false t hwf) hp]
  intro p
  unfold stripExcluded
  rw [strip_plain_keepOther _ _ hp, strip_idem]

/-- Every single-point mutation — a file's bytes changed (one byte, or the length), an entry missing,
    an extra entry, a file where a directory was or the reverse, anywhere in the tree outside excluded
    names — makes CompareFS return an error, whichever side is called the original. -/
theorem compare_detects_single (c : Cfg) (hc : c.wf = true) (ra rb : ReaderBehaviour)
    (hfa : FullReads ra c.cmpBuf) (hfb : FullReads rb c.cmpBuf) (a b : Forest) (hm : Mut1 c.excluded a b)
    (hwa : a.wf = true) (hwb : b.wf = true) (hpa : a.plain = true) (hpb : b.plain = true) :
    compareFS c ra rb a b ≠ .ok ∧ compareFS c ra rb b a ≠ .ok := by
  obtain ⟨p, hp⟩ := mut1_differs c.excluded a b hm hwa hwb
  constructor
  · intro h
    exact hp ((compareFS_ok_iff c hc ra rb hfa hfb a b hwa hwb hpa).1 h p)
  · intro h
    exact hp ((compareFS_ok_iff c hc ra rb hfa hfb b a hwb hwa hpb).1 h p).symm

/-- in particular: one changed byte, at any position of any file -/
theorem compare_detects_changed_byte (c : Cfg) (hc : c.wf = true) (ra rb : ReaderBehaviour)
    (hfa : FullReads ra c.cmpBuf) (hfb : FullReads rb c.cmpBuf) (n : String) (d : Bytes) (i : Nat) (v : UInt8)
    (r : Forest) (hi : i < d.length) (hv : d[i]? ≠ some v) (hn : c.excluded.contains n = false)
    (hw : (Forest.file n d r).wf = true) (hp : (Forest.file n d r).plain = true) :
    compareFS c ra rb (.file n d r) (.file n (d.set i v) r) ≠ .ok := by
  have hne : d ≠ d.set i v := by
    intro e
    have h1 : (d.set i v)[i]? = some v := by simp [hi]
    rw [← e] at h1
    exact hv h1
  exact (compare_detects_single c hc ra rb hfa hfb _ _ (Mut1.changeFile hn hne) hw
    (by simpa [wf] using hw) hp (by simpa [plain] using hp)).1

/-- `FullReads` is necessary: two EQUAL files read through handles that chunk differently (one fills the
    buffer, the other returns two bytes per call) are reported as a content mismatch.
    Small buffer so that the kernel evaluates it; `cex_compare_chunking_any_buf` is the general form. -/
theorem cex_compare_chunking :
    compareFS ⟨["lost+found"], 8, 4, 4⟩ (fullReader) (cycleReader [2] false)
      (.file "f" [1, 2, 3, 4] .nil) (.file "f" [1, 2, 3, 4] .nil) = .contentMismatch ["f"] := by decide

theorem cex_compare_chunking_any_buf (buf : Nat) (hbuf : 2 ≤ buf) (x y : UInt8) :
    cmpContents buf (fullReader) (cycleReader [1] false) [x, y] [x, y] = false := by
  have h1 : (fullReader).count buf 2 0 = 2 := by simp [ReaderBehaviour.count, fullReader]; omega
  have h2 : (cycleReader [1] false).count buf 2 0 = 1 := by
    simp [ReaderBehaviour.count, cycleReader]; omega
  simp [cmpContents, cmpLoop, readStep, h1, h2]

/-- the real handles' behaviour (buffers filled, EOF with the next call or with the data) satisfies the hypothesis -/
theorem fullReader_fullReads (e : Bool) (buf : Nat) : FullReads (fullReader e) buf := fullReader_full e buf

/-! ## facts regenerated from sync/copy.go and sync/verify.go -/

/-- parameter facts: buffers are non-empty and "." is not an excluded name (the root is walked) -/
theorem facts_agree_cfg_wf : cfgGen.wf = true := by decide

/-- pins of copyOneFile / copyDir the mirror relies on -/
theorem facts_agree_copy_shape :
    Generated.SyncFs.openFlags = Sync.openFlags ∧
    Generated.SyncFs.copyAllCmpOp = "<=" ∧
    Generated.SyncFs.chtimesErrorIgnored = true ∧
    Generated.SyncFs.copyExcludesByEntryName = true ∧
    Generated.SyncFs.copyDirBranches = ["excluded", "symlink", "dir", "nonregular", "file"] := by decide

/-- pins of CompareFS / compareFileContents: original walked first, then the target; exclusion by
    basename in both passes; existence checked in the target; both buffers of bufSize; mismatch iff the
    counts differ or the bytes differ -/
theorem facts_agree_compare_shape :
    Generated.SyncFs.compareWalkOrder = [0, 1] ∧
    Generated.SyncFs.compareExcludeByBase = 2 ∧
    Generated.SyncFs.compareStatsTarget = true ∧
    Generated.SyncFs.compareBuffersOfBufSize = 2 ∧
    Generated.SyncFs.compareCondLenOrBytes = true := by decide

/-! ## non-vacuity (a fixed parameter set, so that editing a parameter in the Go code cannot break an example) -/

private def exCfg : Cfg := ⟨[".DS_Store", "System Volume Information", "lost+found"], 67108864, 32768, 32768⟩
example : exCfg.wf = true := by decide

private def exTree : Forest :=
  .dir "d" (.file "a" [1, 2] (.dir "lost+found" (.file "x" [9] .nil) .nil))
    (.file "f" [] (.link "l" "d/a" (.other "pipe" (.file ".DS_Store" [7] .nil))))

example : exTree.wf = true := by decide
example : (copyOps exCfg (fullReader) true exTree).2 = true := by decide
example : applyOps (copyOps exCfg (fullReader) true exTree).1 [] =
    some [(["d"], .dir), (["d", "a"], .file [1, 2]), (["f"], .file []), (["l"], .link "d/a")] := by decide
-- a source that cannot read symlinks: the copy stops with an error at the link
example : (copyOps exCfg (fullReader) false exTree).2 = false := by decide

private def exA : Forest := .dir "d" (.file "a" [1, 2] .nil) (.file "f" [5] (.dir "lost+found" .nil .nil))
private def exB : Forest := .dir "d" (.file "a" [1, 2] .nil) (.file "f" [5] .nil)
example : exA.wf = true ∧ exA.plain = true ∧ exB.wf = true ∧ exB.plain = true := by decide
example : compareFS exCfg (fullReader) (fullReader true) exA exB = .ok := by decide
example : Mut1 exCfg.excluded exB (.dir "d" (.file "a" [1, 3] .nil) (.file "f" [5] .nil)) :=
  .inDir (by decide) (.changeFile (by decide) (by decide))
example : compareFS exCfg (fullReader) (fullReader) exB (.dir "d" (.file "a" [1, 3] .nil) (.file "f" [5] .nil))
    = .contentMismatch ["d", "a"] := by decide
example : compareFS exCfg (fullReader) (fullReader) exB (.dir "d" .nil (.file "f" [5] .nil)) = .missing ["d", "a"] := by
  decide
example : compareFS exCfg (fullReader) (fullReader) exB (.file "d" [] (.file "f" [5] .nil)) = .typeMismatch ["d"] := by
  decide
example : compareFS exCfg (fullReader) (fullReader) exB (.dir "d" (.file "a" [1, 2] .nil) (.file "f" [5] (.file "g" [] .nil)))
    = .extra ["g"] := by decide

end Diskfs.Sync.C16
