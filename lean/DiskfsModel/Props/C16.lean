/-
  C16 — CopyFileSystem copies faithfully and CompareFS tells the truth.
  Property theorems only; helper lemmas live in Proofs/Sync.lean, Proofs/SyncCopy.lean, Proofs/SyncFault.lean,
  Proofs/SyncVerdict.lean and Proofs/SyncStop.lean, the tree spec in Spec/SyncTree.lean, the mirror of
  sync/copy.go + sync/verify.go in Model/Sync.lean and — with a destination whose calls may fail or take only
  part of a slice — in Model/SyncFault.lean.

  Quantifiers: every well-formed source tree (any depth, any contents, any names — distinct inside a
  directory), every parameter set satisfying `Cfg.wf` (discharged for the regenerated facts by
  `facts_agree_cfg_wf`), every source reader chunking (copy), every pair of reader behaviours that
  fill their buffers (compare).  Symbolic links and special files are outside the CompareFS
  theorems (`plain`): the real CompareFS resolves links through `fs.Stat`/`Open`, which the tree
  spec does not model; the model answers `unsupported` there and the theorems never rely on it.
-/
import DiskfsModel.Proofs.SyncCopy
import DiskfsModel.Proofs.SyncStop
import DiskfsModel.Generated.SyncFs
namespace Diskfs.Sync.C16
open Diskfs.Sync Forest

/-- the parameters as regenerated from sync/copy.go and sync/verify.go -/
def cfgGen : Cfg :=
  { excluded := Generated.SyncFs.excludedPaths, maxAll := Generated.SyncFs.maxCopyAllSize,
    chunk := Generated.SyncFs.copyChunkSize, cmpBuf := Generated.SyncFs.compareBufSize }

/-! ## CopyFileSystem -/

/-- Copying any well-formed source tree into an empty destination that behaves like a tree of named
    items succeeds and leaves exactly the source minus excluded names (at every level) minus special
    files — provided the source can read its symlinks (or has none that would be copied).  Holds for
    every chunking of the source reader, i.e. for the whole-file and for the streaming path. -/
theorem copy_faithful (c : Cfg) (hc : c.wf = true) (src : ReaderBehaviour) (readlink : Bool) (t : Forest)
    (hwf : t.wf = true) (hl : readlink = true ∨ (copyImage c.excluded t).noLinks = true) :
    (copyOps c src readlink t).2 = true ∧
    applyOps (copyOps c src readlink t).1 [] = some ((copyImage c.excluded t).flatAt []) := by
  have := copyDir_apply c (wf_excl_dot c hc).2.2 src readlink t [] [] hwf hl rfl
    (by intro e he; cases he)
  simpa [copyOps, copyImage] using this

/-- the same, read through paths: afterwards every path denotes in the destination what it denotes in
    the source minus excluded names (same paths, kinds, sizes, contents, link targets) -/
theorem copy_faithful_lookup (c : Cfg) (hc : c.wf = true) (src : ReaderBehaviour) (readlink : Bool) (t : Forest)
    (hwf : t.wf = true) (hl : readlink = true ∨ (copyImage c.excluded t).noLinks = true) :
    ∃ dst, applyOps (copyOps c src readlink t).1 [] = some dst ∧
      ∀ p, dst.item p = (copyImage c.excluded t).lookup p := by
  refine ⟨_, (copy_faithful c hc src readlink t hwf hl).2, fun p => ?_⟩
  exact item_flatAt _ (wf_strip c.excluded false t hwf) p

/-- the writes of one file: a single write of everything up to the threshold, else one write per chunk
    the source delivers; their sizes are the sizes-only function the driver evaluates for the > 64 MiB file,
    they concatenate to the content, and above the threshold none exceeds the buffer -/
theorem copy_file_writes (c : Cfg) (hc : c.wf = true) (src : ReaderBehaviour) (d : Bytes) :
    (fileWrites c src d).flatten = d ∧
    (fileWrites c src d).map List.length = fileWriteLens c src d.length ∧
    (d.length ≤ c.maxAll → fileWrites c src d = [d]) ∧
    (c.maxAll < d.length → ∀ w ∈ fileWrites c src d, w.length ≤ c.chunk) := by
  refine ⟨fileWrites_flatten c (wf_excl_dot c hc).2.2 src d, fileWrites_lengths c src d, ?_, ?_⟩
  · intro h; simp [fileWrites, h]
  · intro h w hw
    have hlen : w.length ∈ (fileWrites c src d).map List.length := List.mem_map_of_mem hw
    rw [fileWrites_lengths, fileWriteLens, if_neg (by omega)] at hlen
    have : ∀ (fuel rem call : Nat) (x : Nat), x ∈ chunkLens src c.chunk fuel rem call → x ≤ c.chunk := by
      intro fuel
      induction fuel with
      | zero => intro rem call x hx; simp [chunkLens] at hx
      | succ fuel ih =>
        intro rem call x hx
        unfold chunkLens at hx
        split at hx
        · cases hx
        · simp only [List.mem_cons] at hx
          rcases hx with rfl | hx
          · unfold ReaderBehaviour.count; omega
          · exact ih _ _ _ hx
    exact this _ _ _ _ hlen

/-! ## CopyFileSystem against a destination whose calls fail or take part of a slice

    `Plan` gives the outcome of the i-th destination call (nil / an error / a Write taking n bytes);
    `copyRunF` is CopyFileSystem under that plan: `log` the calls issued with their outcomes, `eff` their
    effect on the destination, `ok` whether nil was returned.  All theorems hold for every plan, every tree
    and every source reader chunking, on the whole-file path and on the > maxAll streaming path. -/

/-- Error propagation: a failing Mkdir / OpenFile / Write / Symlink, or a Write that takes nothing of a
    non-empty slice, makes CopyFileSystem return an error — it never returns nil after such an outcome. -/
theorem copy_reports_every_failure (c : Cfg) (src : ReaderBehaviour) (readlink : Bool) (plan : Plan) (t : Forest)
    (e : DstOp × Outcome) (he : e ∈ (copyRunF c src readlink plan t).log) (hf : fatal e = true) :
    (copyRunF c src readlink plan t).ok = false := by
  cases hok : (copyRunF c src readlink plan t).ok with
  | false => rfl
  | true =>
    have := noFatal_copyDirF c src readlink plan t [] 0 hok e he
    rw [this] at hf
    exact absurd hf (by simp)

/-- … and stops: the failing call is the last call CopyFileSystem issues. -/
theorem copy_stops_at_failure (c : Cfg) (src : ReaderBehaviour) (readlink : Bool) (plan : Plan) (t : Forest)
    (before after : List (DstOp × Outcome)) (e : DstOp × Outcome)
    (hl : (copyRunF c src readlink plan t).log = before ++ e :: after) (hf : fatal e = true) :
    after = [] ∧ (copyRunF c src readlink plan t).ok = false :=
  fatalLast_copyDirF c src readlink plan t [] 0 before e after hl hf

/-- every logged outcome is one the plan prescribed (the log is not invented) -/
theorem copy_log_from_plan (c : Cfg) (src : ReaderBehaviour) (readlink : Bool) (plan : Plan) (t : Forest) :
    ∀ e ∈ (copyRunF c src readlink plan t).log, ∃ j, e.2 = plan j :=
  copyDirF_log_plan c src readlink plan t [] 0

/-- Success under faults is still faithful: whenever CopyFileSystem returns nil — whatever Chtimes calls
    failed, however the destination split the Writes (short writes retried on the streaming path, the whole
    slice demanded on the whole-file path), however the source reader chunked — an empty tree-like destination
    holds exactly the source minus excluded names minus special files. -/
theorem copy_success_is_faithful (c : Cfg) (hc : c.wf = true) (src : ReaderBehaviour) (readlink : Bool) (plan : Plan)
    (t : Forest) (hwf : t.wf = true) (hok : (copyRunF c src readlink plan t).ok = true) :
    applyOps (copyRunF c src readlink plan t).eff [] = some ((copyImage c.excluded t).flatAt []) := by
  have := copyDirF_apply c (wf_excl_dot c hc).2.2 src readlink plan t [] [] 0 hwf rfl
    (by intro e he; cases he) hok
  simpa [copyRunF, copyImage] using this

/-- the same, read through paths -/
theorem copy_success_lookup (c : Cfg) (hc : c.wf = true) (src : ReaderBehaviour) (readlink : Bool) (plan : Plan)
    (t : Forest) (hwf : t.wf = true) (hok : (copyRunF c src readlink plan t).ok = true) :
    ∃ dst, applyOps (copyRunF c src readlink plan t).eff [] = some dst ∧
      ∀ p, dst.item p = (copyImage c.excluded t).lookup p :=
  ⟨_, copy_success_is_faithful c hc src readlink plan t hwf hok,
    fun p => item_flatAt _ (wf_strip c.excluded false t hwf) p⟩

/-- Chtimes failures are benign: a run in which every call except possibly Chtimes calls returned nil and
    took everything it was given issues exactly the calls of the fault-free run, with the same effect and the
    same result. -/
theorem copy_chtimes_failures_benign (c : Cfg) (hc : c.wf = true) (src : ReaderBehaviour) (readlink : Bool)
    (plan : Plan) (t : Forest) (hb : Benign (copyRunF c src readlink plan t)) :
    (copyRunF c src readlink plan t).log.map (·.1) = (copyOps c src readlink t).1 ∧
    (copyRunF c src readlink plan t).eff = (copyOps c src readlink t).1 ∧
    (copyRunF c src readlink plan t).ok = (copyOps c src readlink t).2 :=
  agrees_copyDirF c (wf_excl_dot c hc).2.2 src readlink plan t [] 0 hb

/-- hence CopyFileSystem fails only with a cause: if it returns an error although the source can read its
    symlinks (or has none to copy), some call other than Chtimes returned an error or took less than it was given -/
theorem copy_fails_only_with_cause (c : Cfg) (hc : c.wf = true) (src : ReaderBehaviour) (readlink : Bool)
    (plan : Plan) (t : Forest) (hwf : t.wf = true) (hl : readlink = true ∨ (copyImage c.excluded t).noLinks = true)
    (hfail : (copyRunF c src readlink plan t).ok = false) :
    ∃ e ∈ (copyRunF c src readlink plan t).log, e.2 ≠ .ok ∧ isChtimes e.1 = false := by
  apply Classical.byContradiction
  intro hne
  have hb : Benign (copyRunF c src readlink plan t) := by
    intro e he
    by_cases h1 : e.2 = .ok
    · exact Or.inl h1
    · right
      cases h2 : isChtimes e.1 with
      | true => rfl
      | false => exact absurd ⟨e, he, h1, h2⟩ hne
  have h3 := (copy_chtimes_failures_benign c hc src readlink plan t hb).2.2
  rw [(copy_faithful c hc src readlink t hwf hl).1] at h3
  rw [h3] at hfail
  exact absurd hfail (by simp)

/-! ## CompareFS -/

/-- CompareFS returns nil exactly when the two trees, minus excluded names, have the same paths,
    kinds, sizes and contents — for readers that fill their buffers. -/
theorem compare_sound_complete (c : Cfg) (hc : c.wf = true) (ra rb : ReaderBehaviour)
    (hfa : FullReads ra c.cmpBuf) (hfb : FullReads rb c.cmpBuf) (a b : Forest)
    (hwa : a.wf = true) (hwb : b.wf = true) (hpa : a.plain = true) (_hpb : b.plain = true) :
    compareFS c ra rb a b = .ok ↔ stripExcluded c.excluded a ≈ stripExcluded c.excluded b :=
  compareFS_ok_iff c hc ra rb hfa hfb a b hwa hwb hpa

/-- Verifying a faithful copy succeeds: CompareFS of a source against what CopyFileSystem leaves
    (`copy_faithful`) returns nil — the two halves of the property fit together. -/
theorem copy_then_compare_ok (c : Cfg) (hc : c.wf = true) (ra rb : ReaderBehaviour)
    (hfa : FullReads ra c.cmpBuf) (hfb : FullReads rb c.cmpBuf) (t : Forest)
    (hwf : t.wf = true) (hp : t.plain = true) :
    compareFS c ra rb t (copyImage c.excluded t) = .ok := by
  unfold copyImage
  rw [compareFS_ok_iff c hc ra rb hfa hfb t _ hwf (wf_strip c.excluded false t hwf) hp]
  intro p
  unfold stripExcluded
  rw [strip_plain_keepOther _ _ hp, strip_idem]

/-- CompareFS is a total decision procedure whose every answer is true: `ok` means the trees are equal up
    to excluded names; `missing` / `extra` name a path one side has and the other lacks; `type mismatch` a
    path that is a directory on one side and a file on the other (at any depth, an empty directory included);
    `size mismatch` two files of different length; `content mismatch` two files of the same length that
    differ — and `unsupported` never comes out for trees of files and directories. -/
theorem compare_verdict_truthful (c : Cfg) (hc : c.wf = true) (ra rb : ReaderBehaviour)
    (hfa : FullReads ra c.cmpBuf) (hfb : FullReads rb c.cmpBuf) (a b : Forest)
    (hwa : a.wf = true) (hwb : b.wf = true) (hpa : a.plain = true) (hpb : b.plain = true) :
    VerdictTrue c.excluded a b (compareFS c ra rb a b) :=
  compareFS_truthful c hc ra rb hfa hfb a b hwa hwb hpa hpb

/-- the `ok` answer does not depend on which side is called the original -/
theorem compare_ok_symmetric (c : Cfg) (hc : c.wf = true) (ra rb ra' rb' : ReaderBehaviour)
    (hfa : FullReads ra c.cmpBuf) (hfb : FullReads rb c.cmpBuf) (hfa' : FullReads ra' c.cmpBuf)
    (hfb' : FullReads rb' c.cmpBuf) (a b : Forest)
    (hwa : a.wf = true) (hwb : b.wf = true) (hpa : a.plain = true) (hpb : b.plain = true) :
    compareFS c ra rb a b = .ok ↔ compareFS c ra' rb' b a = .ok := by
  rw [compareFS_ok_iff c hc ra rb hfa hfb a b hwa hwb hpa, compareFS_ok_iff c hc ra' rb' hfa' hfb' b a hwb hwa hpb]
  exact ⟨treeEq_symm, treeEq_symm⟩

/-- Copy, then compare: for every tree of files and directories, every fault plan under which
    CopyFileSystem returns nil and every tree `b` that reads like the destination afterwards, CompareFS of the
    source against `b` returns nil. -/
theorem copy_then_compare_ok_under_faults (c : Cfg) (hc : c.wf = true) (ra rb src : ReaderBehaviour)
    (hfa : FullReads ra c.cmpBuf) (hfb : FullReads rb c.cmpBuf) (readlink : Bool) (plan : Plan) (t b : Forest)
    (hwf : t.wf = true) (hp : t.plain = true) (hwb : b.wf = true)
    (hok : (copyRunF c src readlink plan t).ok = true) (dst : Store)
    (hd : applyOps (copyRunF c src readlink plan t).eff [] = some dst) (hb : ∀ p, b.lookup p = dst.item p) :
    compareFS c ra rb t b = .ok := by
  have hd' := copy_success_is_faithful c hc src readlink plan t hwf hok
  rw [hd] at hd'
  have hdst : dst = (copyImage c.excluded t).flatAt [] := Option.some.inj hd'
  subst hdst
  exact compare_after_copy c hc ra rb hfa hfb t b hwf hp hwb hb

/-- Every single-point mutation — a file's bytes changed (one byte, or the length), an entry missing,
    an extra entry, a file where a directory was or the reverse, anywhere in the tree outside excluded
    names — makes CompareFS return an error, whichever side is called the original. -/
theorem compare_detects_single (c : Cfg) (hc : c.wf = true) (ra rb : ReaderBehaviour)
    (hfa : FullReads ra c.cmpBuf) (hfb : FullReads rb c.cmpBuf) (a b : Forest) (hm : Mut1 c.excluded a b)
    (hwa : a.wf = true) (hwb : b.wf = true) (hpa : a.plain = true) (hpb : b.plain = true) :
    compareFS c ra rb a b ≠ .ok ∧ compareFS c ra rb b a ≠ .ok := by
  obtain ⟨p, hp⟩ := mut1_differs c.excluded a b hm hwa hwb
  constructor
  · intro h
    exact hp ((compareFS_ok_iff c hc ra rb hfa hfb a b hwa hwb hpa).1 h p)
  · intro h
    exact hp ((compareFS_ok_iff c hc ra rb hfa hfb b a hwb hwa hpb).1 h p).symm

/-- in particular: one changed byte, at any position of any file -/
theorem compare_detects_changed_byte (c : Cfg) (hc : c.wf = true) (ra rb : ReaderBehaviour)
    (hfa : FullReads ra c.cmpBuf) (hfb : FullReads rb c.cmpBuf) (n : String) (d : Bytes) (i : Nat) (v : UInt8)
    (r : Forest) (hi : i < d.length) (hv : d[i]? ≠ some v) (hn : c.excluded.contains n = false)
    (hw : (Forest.file n d r).wf = true) (hp : (Forest.file n d r).plain = true) :
    compareFS c ra rb (.file n d r) (.file n (d.set i v) r) ≠ .ok := by
  have hne : d ≠ d.set i v := by
    intro e
    have h1 : (d.set i v)[i]? = some v := by simp [hi]
    rw [← e] at h1
    exact hv h1
  exact (compare_detects_single c hc ra rb hfa hfb _ _ (Mut1.changeFile hn hne) hw
    (by simpa [wf] using hw) hp (by simpa [plain] using hp)).1

/-- `FullReads` is necessary: two EQUAL files read through handles that chunk differently (one fills the
    buffer, the other returns two bytes per call) are reported as a content mismatch.
    Small buffer so that the kernel evaluates it; `cex_compare_chunking_any_buf` is the general form. -/
theorem cex_compare_chunking :
    compareFS ⟨["lost+found"], 8, 4, 4⟩ (fullReader) (cycleReader [2] false)
      (.file "f" [1, 2, 3, 4] .nil) (.file "f" [1, 2, 3, 4] .nil) = .contentMismatch ["f"] := by decide

theorem cex_compare_chunking_any_buf (buf : Nat) (hbuf : 2 ≤ buf) (x y : UInt8) :
    cmpContents buf (fullReader) (cycleReader [1] false) [x, y] [x, y] = false := by
  have h1 : (fullReader).count buf 2 0 = 2 := by simp [ReaderBehaviour.count, fullReader]; omega
  have h2 : (cycleReader [1] false).count buf 2 0 = 1 := by
    simp [ReaderBehaviour.count, cycleReader]; omega
  simp [cmpContents, cmpLoop, readStep, h1, h2]

/-- the real handles' behaviour (buffers filled, EOF with the next call or with the data) satisfies the hypothesis -/
theorem fullReader_fullReads (e : Bool) (buf : Nat) : FullReads (fullReader e) buf := fullReader_full e buf

/-! ## facts regenerated from sync/copy.go and sync/verify.go -/

/-- parameter facts: buffers are non-empty and "." is not an excluded name (the root is walked) -/
theorem facts_agree_cfg_wf : cfgGen.wf = true := by decide

/-- pins of copyOneFile / copyDir the mirror relies on -/
theorem facts_agree_copy_shape :
    Generated.SyncFs.openFlags = Sync.openFlags ∧
    Generated.SyncFs.copyAllCmpOp = "<=" ∧
    Generated.SyncFs.chtimesErrorIgnored = true ∧
    Generated.SyncFs.copyExcludesByEntryName = true ∧
    Generated.SyncFs.copyDirBranches = ["excluded", "symlink", "dir", "nonregular", "file"] := by decide

/-- pins of CompareFS / compareFileContents: original walked first, then the target; exclusion by
    basename in both passes; existence checked in the target; both buffers of bufSize; mismatch iff the
    counts differ or the bytes differ -/
theorem facts_agree_compare_shape :
    Generated.SyncFs.compareWalkOrder = [0, 1] ∧
    Generated.SyncFs.compareExcludeByBase = 2 ∧
    Generated.SyncFs.compareStatsTarget = true ∧
    Generated.SyncFs.compareBuffersOfBufSize = 2 ∧
    Generated.SyncFs.compareCondLenOrBytes = true := by decide

/-! ## non-vacuity (a fixed parameter set, so that editing a parameter in the Go code cannot break an example) -/

private def exCfg : Cfg := ⟨[".DS_Store", "System Volume Information", "lost+found"], 67108864, 32768, 32768⟩
example : exCfg.wf = true := by decide

private def exTree : Forest :=
  .dir "d" (.file "a" [1, 2] (.dir "lost+found" (.file "x" [9] .nil) .nil))
    (.file "f" [] (.link "l" "d/a" (.other "pipe" (.file ".DS_Store" [7] .nil))))

example : exTree.wf = true := by decide
example : (copyOps exCfg (fullReader) true exTree).2 = true := by decide
example : applyOps (copyOps exCfg (fullReader) true exTree).1 [] =
    some [(["d"], .dir), (["d", "a"], .file [1, 2]), (["f"], .file []), (["l"], .link "d/a")] := by decide
-- a source that cannot read symlinks: the copy stops with an error at the link
example : (copyOps exCfg (fullReader) false exTree).2 = false := by decide

private def exA : Forest := .dir "d" (.file "a" [1, 2] .nil) (.file "f" [5] (.dir "lost+found" .nil .nil))
private def exB : Forest := .dir "d" (.file "a" [1, 2] .nil) (.file "f" [5] .nil)
example : exA.wf = true ∧ exA.plain = true ∧ exB.wf = true ∧ exB.plain = true := by decide
example : compareFS exCfg (fullReader) (fullReader true) exA exB = .ok := by decide
example : Mut1 exCfg.excluded exB (.dir "d" (.file "a" [1, 3] .nil) (.file "f" [5] .nil)) :=
  .inDir (by decide) (.changeFile (by decide) (by decide))
example : compareFS exCfg (fullReader) (fullReader) exB (.dir "d" (.file "a" [1, 3] .nil) (.file "f" [5] .nil))
    = .contentMismatch ["d", "a"] := by decide
example : compareFS exCfg (fullReader) (fullReader) exB (.dir "d" .nil (.file "f" [5] .nil)) = .missing ["d", "a"] := by
  decide
example : compareFS exCfg (fullReader) (fullReader) exB (.file "d" [] (.file "f" [5] .nil)) = .typeMismatch ["d"] := by
  decide
example : compareFS exCfg (fullReader) (fullReader) exB (.dir "d" (.file "a" [1, 2] .nil) (.file "f" [5] (.file "g" [] .nil)))
    = .extra ["g"] := by decide

/-! non-vacuity of the fault theorems: one failing Mkdir stops the copy at once; a failing Chtimes changes
    nothing; a destination that takes one byte per Write still ends with the right content on the streaming path -/
private def exSmall : Cfg := ⟨["lost+found"], 4, 3, 4⟩
private def exT : Forest := .dir "d" (.file "a" [1, 2, 3, 4, 5, 6, 7] .nil) (.file "f" [9] .nil)
example : (copyRunF exSmall fullReader true (planAt 0 .fail) exT).ok = false ∧
    (copyRunF exSmall fullReader true (planAt 0 .fail) exT).log = [(.mkdir ["d"], .fail)] := by decide
example : fatal (DstOp.mkdir ["d"], Outcome.fail) = true := by decide
-- call 5 is the Chtimes of d/a (mkdir, open, three streamed writes 3+3+1, chtimes)
example : (copyRunF exSmall fullReader true (planAt 5 .fail) exT).log.map (·.1) = (copyOps exSmall fullReader true exT).1 ∧
    (copyRunF exSmall fullReader true (planAt 5 .fail) exT).ok = true := by decide
example : Benign (copyRunF exSmall fullReader true (planAt 5 .fail) exT) := by
  intro e he
  have : (e.2 = .ok ∨ isChtimes e.1 = true) = true := by
    revert e
    decide
  simpa using this
example : (copyRunF exSmall fullReader true (planCaps [1]) exT).ok = true ∧
    applyOps (copyRunF exSmall fullReader true (planCaps [1]) exT).eff [] =
      some [(["d"], .dir), (["d", "a"], .file [1, 2, 3, 4, 5, 6, 7]), (["f"], .file [9])] := by decide
-- whole-file path: a short write is an error (io.ErrShortWrite)
example : (copyRunF exSmall fullReader true (planAt 7 (.short 0)) exT).ok = false := by decide

/-! names that a case-folding or trimming normaliser would identify are different names: an extra
    README.TXT beside readme.txt, an extra Docs tree, a trailing dot, are reported -/
private def exDocs : Forest := .dir "docs" (.file "readme.txt" [1, 2] .nil) .nil
example : compareFS exCfg fullReader fullReader exDocs (.dir "docs" (.file "README.TXT" [1, 2] (.file "readme.txt" [1, 2] .nil)) .nil)
    = .extra ["docs", "README.TXT"] := by decide
example : compareFS exCfg fullReader fullReader exDocs (.dir "Docs" (.file "readme.txt" [1, 2] .nil) exDocs)
    = .extra ["Docs"] := by decide
example : compareFS exCfg fullReader fullReader (.dir "Docs" (.file "readme.txt" [1, 2] .nil) exDocs) exDocs
    = .missing ["Docs"] := by decide
example : compareFS exCfg fullReader fullReader exDocs (.dir "docs" (.file "readme.txt" [1, 2] (.file "readme.txt." [1, 2] .nil)) .nil)
    = .extra ["docs", "readme.txt."] := by decide
example : compareFS exCfg fullReader fullReader
    (.file "A" [1] (.file "a" [2] .nil)) (.file "A" [2] (.file "a" [1] .nil)) = .contentMismatch ["A"] := by decide
example : VerdictTrue exCfg.excluded exDocs (.dir "Docs" (.file "readme.txt" [1, 2] .nil) exDocs) (.extra ["Docs"]) := by
  refine ⟨by decide, ⟨.dir, by decide⟩, by decide⟩

end Diskfs.Sync.C16
