import DiskfsModel.Props.C20
import DiskfsModel.Proofs.Ext4SparseRead
namespace Diskfs.Ext4.Reader.C20

/-! ### File.Read over a flat extent list with holes (file.go as it is now) -/

/-- read_sparse_spec: for every device content, block size, SORTED NON-OVERLAPPING extent list
    (holes allowed in front, between and behind extents), file size, handle offset and buffer length,
    File.Read returns exactly the bytes of the logical file at the offset — the device byte of a
    mapped block, zero in a hole — clipped to the file size; it advances the offset by that many
    bytes, reports io.EOF exactly when the offset reaches the size, and neither panics nor fails. -/
theorem read_sparse_spec (dev : Dev) (devSize bs : Nat) (es : List Extent) (size off n : Nat)
    (hbs : 0 < bs) (hs : SortedExts es) (hd : ExtsOnDev bs devSize es) :
    ∃ r, sparseRead dev devSize bs es size off n = .ok r ∧
      r.data = window (logicalByte dev bs es) off (min n (size - off)) ∧
      r.off = off + r.data.length ∧ (r.eof = true ↔ size ≤ r.off) := by
  unfold sparseRead
  by_cases hge : off ≥ size
  · rw [if_pos hge]
    refine ⟨_, rfl, ?_, by simp, by simp; omega⟩
    have : min n (size - off) = 0 := by omega
    simp [this, window_zero]
  · rw [if_neg hge]
    simp only []
    generalize hw : (if off + n > size then size - off else n) = want
    have hwant : want = min n (size - off) := by rw [← hw]; split <;> omega
    obtain ⟨st, hst, hoff, hgot, hlen, hrest⟩ :=
      sparseLoop_spec dev devSize bs off want hbs es hs hd es [] ⟨off, [], []⟩ rfl (by simp)
        (by simp [window_zero]) (by simp) (by simp)
        (fun e _ hns => (Nat.div_lt_iff_lt_mul hbs).1 (Nat.lt_of_not_le hns))
    rw [hst]
    simp only []
    by_cases hpad : st.got.length < want
    · rw [if_pos hpad]
      have hall := hrest hpad
      have hdata : st.got ++ zeros (want - st.got.length) = window (logicalByte dev bs es) off want := by
        have hsplit := window_add (logicalByte dev bs es) off st.got.length (want - st.got.length)
        rw [show st.got.length + (want - st.got.length) = want by omega] at hsplit
        rw [hsplit, ← hgot]
        congr 1
        apply zeros_eq_window
        intro i _
        apply logicalByte_hole
        intro a ha
        have h1 := hall a ha
        have : a.fileBlock + a.count ≤ (off + st.got.length + i) / bs :=
          (Nat.le_div_iff_mul_le hbs).2 (by omega)
        omega
      refine ⟨_, rfl, ?_, ?_, ?_⟩
      · simp only; rw [hdata, hwant]
      · simp only [List.length_append, zeros_length]; omega
      · simp only [decide_eq_true_eq]
    · rw [if_neg hpad]
      have : st.got.length = want := by omega
      refine ⟨_, rfl, ?_, ?_, ?_⟩
      · simp only; rw [hgot, this, hwant]
      · simp only; exact hoff
      · simp only [decide_eq_true_eq]

/-- File.Read never panics and never fails on such a list -/
theorem read_sparse_no_panic (dev : Dev) (devSize bs : Nat) (es : List Extent) (size off n : Nat)
    (hbs : 0 < bs) (hs : SortedExts es) (hd : ExtsOnDev bs devSize es) :
    sparseRead dev devSize bs es size off n ≠ .panic ∧
    ∀ k o, sparseRead dev devSize bs es size off n ≠ .ioerr k o := by
  obtain ⟨r, hr, _⟩ := read_sparse_spec dev devSize bs es size off n hbs hs hd
  rw [hr]
  exact ⟨fun h => (by cases h), fun _ _ h => (by cases h)⟩

/-- any sequence of Read calls on one handle (buffers of any lengths, zero included) returns, joined
    together, the logical file from the starting offset on, clipped to the file size -/
theorem read_sparse_seq (dev : Dev) (devSize bs : Nat) (es : List Extent) (size : Nat)
    (hbs : 0 < bs) (hs : SortedExts es) (hd : ExtsOnDev bs devSize es) :
    ∀ (ns : List Nat) (off : Nat), readSeq dev devSize bs es size ns off =
      some (window (logicalByte dev bs es) off (min ns.sum (size - off)), off + min ns.sum (size - off)) := by
  intro ns
  induction ns with
  | nil => intro off; simp [readSeq, window_zero]
  | cons n ns ih =>
    intro off
    obtain ⟨r, hr, hdata, hoff, _⟩ := read_sparse_spec dev devSize bs es size off n hbs hs hd
    have hlen : r.data.length = min n (size - off) := by rw [hdata]; simp
    rw [readSeq, hr]
    simp only []
    rw [ih r.off]
    simp only [Option.some.injEq, Prod.mk.injEq, List.sum_cons]
    rw [hoff, hlen, hdata]
    have hk : min (n + ns.sum) (size - off) =
        min n (size - off) + min ns.sum (size - (off + min n (size - off))) := by omega
    constructor
    · rw [hk, window_add]
    · omega

/-- a caller that reads with a non-empty buffer until io.EOF (io.ReadAll, io.Copy, fs.ReadFile)
    terminates with exactly the logical file from its offset to the end — from offset 0 the whole
    file, every hole as zeros -/
theorem read_sparse_until_eof (dev : Dev) (devSize bs : Nat) (es : List Extent) (size chunk : Nat)
    (hbs : 0 < bs) (hc : 0 < chunk) (hs : SortedExts es) (hd : ExtsOnDev bs devSize es) :
    ∀ (fuel off : Nat) (acc : Bytes), size - off < fuel →
      readUntilEof dev devSize bs es size chunk fuel off acc =
        some (acc ++ window (logicalByte dev bs es) off (size - off)) := by
  intro fuel
  induction fuel with
  | zero => intro off acc h; omega
  | succ f ih =>
    intro off acc hf
    obtain ⟨r, hr, hdata, hoff, heof⟩ := read_sparse_spec dev devSize bs es size off chunk hbs hs hd
    have hlen : r.data.length = min chunk (size - off) := by rw [hdata]; simp
    rw [readUntilEof, hr]
    simp only []
    by_cases he : r.eof = true
    · rw [if_pos he]
      have : size ≤ r.off := heof.1 he
      have hk : min chunk (size - off) = size - off := by omega
      rw [hdata, hk]
    · rw [if_neg he]
      have hlt : ¬ size ≤ r.off := fun h => he (heof.2 h)
      rw [ih r.off (acc ++ r.data) (by omega)]
      have hk : size - off = min chunk (size - off) + (size - r.off) := by omega
      rw [hk, window_add, hdata, hoff, hlen, List.append_assoc]

/-- the logical file is the one `hole_reads_zero` / `mapped_reads_device` speak about -/
theorem logicalByte_fileByte (dev : Dev) (bs size : Nat) (es : List Extent) (p : Nat) (hp : p < size) :
    fileByte (leafLookup es) dev bs size p = some (logicalByte dev bs es p) := by
  unfold fileByte logicalByte
  rw [if_pos hp]
  cases leafLookup es (p / bs) <;> rfl

/-- Read through a whole extent TREE: when the flattened list of a well-formed tree of any depth is
    sorted, byte `i` of what Read returns is the device byte of the block a search of the tree from
    the root designates for position `off+i`, or zero when the tree maps nothing there. -/
theorem read_tree_spec (d : Nat) (t : TreeD d) (lo hi : Nat) (h : TreeWF d t lo hi)
    (dev : Dev) (devSize bs size off n : Nat) (hbs : 0 < bs)
    (hs : SortedExts (mirrorBlocks d t)) (hd : ExtsOnDev bs devSize (mirrorBlocks d t)) :
    ∃ r, sparseRead dev devSize bs (mirrorBlocks d t) size off n = .ok r ∧
      r.data.length = min n (size - off) ∧
      ∀ i, i < r.data.length → r.data.getD i 0 =
        (match specLookup d t ((off + i) / bs) with
         | some phys => dev (phys * bs + (off + i) % bs)
         | none => 0) := by
  obtain ⟨r, hr, hdata, _, _⟩ := read_sparse_spec dev devSize bs (mirrorBlocks d t) size off n hbs hs hd
  refine ⟨r, hr, by rw [hdata]; simp, ?_⟩
  intro i hlt
  rw [hdata] at hlt ⊢
  simp only [window_length] at hlt
  simp only [window, List.getD_eq_getElem?_getD, List.getElem?_map, List.getElem?_range hlt,
    Option.map_some, Option.getD_some]
  unfold logicalByte
  rw [extent_tree_flatten d t lo hi h]
  cases specLookup d t ((off + i) / bs) <;> rfl

/-! non-vacuity: a file with a leading hole, a hole between extents and a trailing hole -/
def exSparse : List Extent := [⟨2, 10, 1⟩, ⟨5, 20, 2⟩]
example : SortedExts exSparse := by simp [exSparse, SortedExts]
example : ExtsOnDev 4 100 exSparse := by simp [exSparse, ExtsOnDev]
example : sparseRead (fun i => UInt8.ofNat i) 100 4 exSparse 34 6 30 =
    .ok ⟨[0, 0, 40, 41, 42, 43, 0, 0, 0, 0, 0, 0, 0, 0, 80, 81, 82, 83, 84, 85, 86, 87, 0, 0, 0, 0, 0, 0],
      34, true, [(40, 4), (80, 8)]⟩ := by decide
example : readUntilEof (fun i => UInt8.ofNat i) 100 4 exSparse 13 5 4 0 [] =
    some [0, 0, 0, 0, 0, 0, 0, 0, 40, 41, 42, 43, 0] := by decide

end Diskfs.Ext4.Reader.C20
