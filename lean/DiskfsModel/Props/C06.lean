/-
  C06 — An ISO9660 image contains exactly the tree it was built from.
  Property theorems only (helpers in Proofs/IsoNames, IsoLayout, IsoCodec).  What is proved here,
  for all inputs, about the logic cores mirrored in Model/Iso:
    * names: the 8.3 mapping always yields a valid 8.3 name, and collision resolution — for EVERY
      order in which the collision groups are processed (the Go code ranges over a map) — ends with
      pairwise distinct, valid names whenever it succeeds;
    * layout: every extent Finalize assigns (directories + continuation blocks, both path tables,
      file extents, Joliet directories and path tables) lies after the descriptor set, inside the
      declared volume size, and no two overlap; a block count covers its byte size; inside a
      directory extent no record crosses a block boundary and records do not overlap;
    * a directory extent read back by the reader's loop gives exactly the records laid out;
    * codecs: directory record, both-endian field and path table (L and M) encoders are inverted
      by the decoders.
    * whole image, plain configuration (no Rock Ridge, no Joliet): `pvd_roundtrip`; on any image
      that shows a tree the reader returns exactly that tree (`reader_walks_tree`); the writes of
      Finalize placed by the layout are pairwise disjoint (`placement_disjoint`) and therefore read
      back (`disjoint_writes_read_back`); together: `reader_finds_layout`.
  The end-to-end clause about the REAL reader and writer (Rock Ridge / Joliet included) is evaluated
  on the real code by the engine's oracles; the model's image encoder and pure reader are tied to
  real plain images by the correspondence run (see the registration note).
-/
import DiskfsModel.Proofs.IsoNames
import DiskfsModel.Proofs.IsoLayout
import DiskfsModel.Proofs.IsoCodec
import DiskfsModel.Proofs.IsoExtent
import DiskfsModel.Proofs.IsoImage
import DiskfsModel.Proofs.IsoWrites
import DiskfsModel.Proofs.IsoSusp
import DiskfsModel.Proofs.IsoSuspCE
import DiskfsModel.Proofs.IsoCompose
import DiskfsModel.Proofs.IsoSL
import DiskfsModel.Proofs.IsoPT
import DiskfsModel.Proofs.IsoComposePT
import DiskfsModel.Proofs.IsoRRRecord
import DiskfsModel.Proofs.IsoSvd
import DiskfsModel.Proofs.IsoComposeLimits
import DiskfsModel.Proofs.IsoWalk
import DiskfsModel.Proofs.IsoDirNames
import DiskfsModel.Generated.Iso
namespace Diskfs.Iso.C06

/-- `calculateShortnameExtension` always produces a valid 8.3 name (for any code points) -/
theorem short_name_valid (name : Str) (isDir : Bool) : Valid83 (entryName name isDir) :=
  entryName_valid name isDir

/-- Collision resolution is injective for every processing order: if `resolveAll` succeeds on a
    directory of `n` entries whose groups with more than one member all occur in `order` (in any
    order, any number of times), the resulting names are pairwise distinct and all valid 8.3. -/
theorem resolve_injective (n : Nat) (orig : Nat → Nm) (order : List Nm) (fin : Nat → Nm)
    (hv : ∀ i, i < n → Valid83 (orig i))
    (hcover : ∀ i, i < n → 1 < (members n orig (orig i)).length → orig i ∈ order)
    (h : resolveAll n orig order orig = some fin) :
    (∀ i j, i < n → j < n → i ≠ j → fin i ≠ fin j) ∧ (∀ i, i < n → Valid83 (fin i)) := by
  have inv := inv_all n orig hv order orig fin [] (inv_init n orig hv) h
  refine ⟨?_, inv.valid⟩
  intro i j hi hj hij
  apply inv.uniq i j hi hj hij
  by_cases hm : 1 < (members n orig (orig i)).length
  · left; simp [hcover i hi hm]
  · right; omega

/-- entries whose group is not processed keep their name (so a harmless order change moves numbers
    only inside groups) -/
theorem resolve_frame (n : Nat) (orig : Nat → Nm) (order : List Nm) (fin : Nat → Nm)
    (hv : ∀ i, i < n → Valid83 (orig i)) (h : resolveAll n orig order orig = some fin)
    (i : Nat) (hi : i < n) (hn : orig i ∉ order) : fin i = orig i := by
  have inv := inv_all n orig hv order orig fin [] (inv_init n orig hv) h
  exact inv.unch i hi (by simpa using hn)

/-- no two extents of the layout overlap: they are in increasing order, each ending where or
    before the next begins -/
theorem layout_disjoint (l : LayoutIn) : l.extents.Pairwise (fun a b => a.1 + a.2 ≤ b.1) :=
  seqAlloc_pairwise _ _

/-- every extent lies after the volume descriptor set and inside the declared volume size -/
theorem layout_inside (l : LayoutIn) :
    ∀ e ∈ l.extents, dataStartSector + 2 ≤ e.1 ∧ e.1 + e.2 ≤ l.total := by
  intro e he
  have := seqAlloc_inside l.rootLoc l.items e he
  unfold LayoutIn.total
  unfold LayoutIn.rootLoc at this ⊢
  omega

/-- one extent per item: nothing is dropped -/
theorem layout_complete (l : LayoutIn) : l.extents.length = l.items.length := seqAlloc_length _ _

/-- the block count Finalize reserves holds the bytes, with less than one block to spare -/
theorem blocks_cover (size bs : Nat) (h : 0 < bs) :
    size ≤ blocksFor size bs * bs ∧ blocksFor size bs * bs < size + bs := blocksFor_covers size bs h

/-- inside a directory extent no record (of at most one block) crosses a block boundary -/
theorem dir_records_no_cross (bs : Nat) (hbs : 0 < bs) (rs : List Nat) (acc : Nat)
    (hr : ∀ r ∈ rs, 0 < r ∧ r ≤ bs) :
    ∀ p ∈ dirOffsets bs rs acc, p.1 / bs = (p.1 + p.2 - 1) / bs := dirOffsets_no_cross bs hbs rs acc hr

/-- records follow each other without overlap and the computed directory size is their end -/
theorem dir_records_ordered (bs : Nat) (rs : List Nat) (acc : Nat) :
    (∀ p ∈ dirOffsets bs rs acc, acc ≤ p.1 ∧ p.1 + p.2 ≤ dirSize bs rs acc) ∧
    (dirOffsets bs rs acc).Pairwise (fun a b => a.1 + a.2 ≤ b.1) :=
  ⟨(dirOffsets_ordered bs rs acc).1, (dirOffsets_ordered bs rs acc).2.1⟩

/-- reading a directory extent back (`parseDirEntries`: a zero length byte means "continue at the
    next block") returns exactly the records that were laid out, in order, for any records that
    start with their own length and fit a block — the directory-level core of
    `reader_finds_layout` -/
theorem dir_extent_roundtrip (bs : Nat) (hbs : 0 < bs) (rs : List Bytes) (hr : ∀ r ∈ rs, RecOK bs r) :
    parseExtent bs (2 * rs.length + 1) 0 (encodeExtent bs rs) = rs := by
  have := parse_encSuffix bs hbs rs hr [] (2 * rs.length + 1) (by omega)
  simpa [encodeExtent] using this

/-- both-endian 32-bit fields round-trip and their halves agree -/
theorem both_endian_roundtrip (n : Nat) (h : n < 2 ^ 32) : unboth 4 (both32 n) = some n := unboth_both32 n h

/-- directory record codec round-trip (all extents/sizes below 2^32, names up to 221 bytes) -/
theorem dir_record_roundtrip (r : DirRec) (hl : r.loc < 2 ^ 32) (hs : r.size < 2 ^ 32)
    (hd : r.date.length = 7) (hn : r.name.length < 222) : decodeRec (encodeRec r) = some r :=
  decode_encodeRec r hl hs hd hn

/-- path table codec round-trip, little- and big-endian form, for any number of records -/
theorem pathtable_roundtrip (big : Bool) (rs : List PtRec) (h : ∀ r ∈ rs, r.WF) :
    decodePtTable big (rs.length + 1) (encodePtTable big rs) = some rs := decode_encodePtTable big rs h

/-- pinned facts regenerated from finalize.go: the data start sector, the length limits tested in
    `calculateShortnameExtension` (1 = the SplitN test, 3 = extension, 8 = base name) and the digit
    limit of the loop in `resolveCollisionGroup`, found by shape so that renaming locals is harmless -/
theorem facts_agree_constants :
    Generated.Iso.dataStartSector = dataStartSector ∧ Generated.Iso.truncBounds = [1, 3, 8] ∧
    Generated.Iso.digitLoopBounds = [8] := by decide

/-- DIRECTORIES WITH DOTTED NAMES.  A directory enters collision resolution - and is written into its
    record and the path table (`isoIdent … true`) - under its short name alone, as
    `finalizeFileInfoFromFile` / `Name()` have it: what follows the first dot of the host name plays
    no part.  Sibling directories `b.t1`, `b.t2` and `b` therefore have the SAME collision key, so
    they are one group of `resolveAll` and `resolve_injective` separates them (`conf.d` / `conf.bak`
    end as CONF0 / CONF1, instance below); the engine's iso.walkid ties the real walkTree + Name()
    to exactly this rule. -/
theorem dir_dotted_same_key (b t1 t2 : Str) (hb : 46 ∉ b) :
    entryName (b ++ 46 :: t1) true = entryName (b ++ 46 :: t2) true ∧
    entryName (b ++ 46 :: t1) true = entryName b true ∧
    (entryName (b ++ 46 :: t1) true).2 = [] ∧
    isoIdent (entryName (b ++ 46 :: t1) true) true = (clean b).take 8 := by
  refine ⟨entryName_dir_tail b t1 t2 hb, entryName_dir_base b t1 hb, entryName_dir_noext _, ?_⟩
  rw [entryName_dir_base b t1 hb]
  simp only [isoIdent, if_true, entryName, shortExt, splitDot, takeWhile_no_dot _ hb]

/-! non-vacuity: concrete instances meeting the hypotheses -/
-- three entries that all truncate to LONGFILE.TXT plus one that already occupies the first candidate
private def exL : Str := [76, 79, 78, 71, 70, 73, 76, 69]   -- LONGFILE
private def exT : Str := [84, 88, 84]                        -- TXT
private def ex : Nat → Nm := fun i => if i < 3 then (exL, exT) else ([76, 79, 78, 71, 70, 73, 76, 48], exT)
example : ((resolveAll 4 ex [ex 0] ex).map fun f => (List.range 4).map f) =
    some [([76, 79, 78, 71, 70, 73, 76, 49], exT), ([76, 79, 78, 71, 70, 73, 76, 50], exT),
          ([76, 79, 78, 71, 70, 73, 76, 51], exT), ([76, 79, 78, 71, 70, 73, 76, 48], exT)] := by decide +kernel
-- conf.d/ conf.bak/ (directories), conf, conf.txt (files): the two directories and `conf` are one group
private def exDots : Nat → Nm := fun i =>
  entryName ([[99, 111, 110, 102, 46, 100], [99, 111, 110, 102, 46, 98, 97, 107], [99, 111, 110, 102], [99, 111, 110, 102, 46, 116, 120, 116]].getD i []) (i < 2)
example : ((resolveAll 4 exDots [exDots 0] exDots).map fun f => (List.range 4).map fun i => isoIdent (f i) (i < 2)) =
    some [[67, 79, 78, 70, 48], [67, 79, 78, 70, 49], [67, 79, 78, 70, 50, 46, 59, 49], [67, 79, 78, 70, 46, 84, 88, 84, 59, 49]] := by decide +kernel
example : shortExt [114, 101, 97, 100, 109, 101, 45, 102, 105, 114, 115, 116, 46, 109, 97, 114, 107, 100, 111, 119, 110] =
    ([82, 69, 65, 68, 77, 69, 95, 70], [77, 65, 82]) := by decide   -- readme-first.markdown → README_F.MAR
example : (({ extraVD := 1, dirBlocks := [1, 2], ptBlocks := 1, fileBlocks := [0, 3, 1], joliet := true,
              jdirBlocks := [1, 1], jptBlocks := 1 } : LayoutIn).extents) =
    [(19, 1), (20, 2), (22, 1), (23, 1), (24, 0), (24, 3), (27, 1), (28, 1), (29, 1), (30, 1), (31, 1)] := by decide
private def exRec : DirRec :=
  { loc := 23, size := 5000, date := [126, 9, 23, 12, 0, 0, 0], flags := 0, name := [65, 46, 84, 88, 84, 59, 49] }
example : decodeRec (encodeRec exRec) = some exRec := by decide
example : parseExtent 8 7 0 (encodeExtent 8 [[3, 1, 2], [4, 9, 9, 9], [2, 7]]) = [[3, 1, 2], [4, 9, 9, 9], [2, 7]] := by decide
example : encodeExtent 8 [[3, 1, 2], [4, 9, 9, 9], [6, 7, 7, 7, 7, 7]] = [3, 1, 2, 4, 9, 9, 9, 0, 6, 7, 7, 7, 7, 7] := by decide
-- the Go rule also pads when a record would end exactly on the block boundary
example : dirOffsets 2048 [100, 1900, 48, 2000, 48] 0 = [(0, 100), (100, 1900), (2048, 48), (4096, 2000), (6144, 48)] := by decide

/-! ## whole image, plain configuration -/

/-- **pvd_roundtrip.**  The primary volume descriptor decodes from the 2048 bytes `toBytes`
    produces to the same fields: volume size, set size, sequence number and block size (both-endian,
    halves agreeing), path table size and the four path table locations (L little-endian, M
    big-endian), the 34-byte root directory record, the two identifiers and the rest of the sector -/
theorem pvd_roundtrip (p : PVD) (h : p.WF) : decodePVD (encodePVD p) = some p ∧ (encodePVD p).length = 2048 :=
  ⟨decode_encodePVD p h, encodePVD_length p h⟩

/-- **the reader walks the tree** (the compositional core of `reader_finds_layout`): on ANY image
    that shows a well-formed tree — each directory's extent holds `encodeExtent` of its self, parent
    and children records, each file's extent holds its contents — the reader started on a directory's
    extent returns exactly the depth-first listing below it: paths made of the stored identifiers,
    kinds, extents, sizes and file contents.  Built from `dir_extent_roundtrip` (record loop),
    `dir_record_roundtrip` (every record) and induction over the nesting depth. -/
theorem reader_walks_tree (img : Dev) (bs : Nat) (hbs : 255 ≤ bs) (t : PTree) (hwf : t.WF) (hh : Holds img bs t)
    (fuel : Nat) (pre : List Bytes) (d : Nat) (hd : d < t.n) (hdir : (t.ent d).isDir = true) (hfit : t.Fits fuel d) :
    readDirP img bs fuel pre (t.ent d).loc (t.ent d).size = some (t.walk fuel pre d) :=
  readDirP_walk img bs hbs t hwf hh fuel pre d hd hdir hfit

/-- writes whose byte ranges are pairwise disjoint all read back as written, whatever their order -/
theorem disjoint_writes_read_back (d : Dev) (ws : List Wr) (hd : ws.Pairwise WrDisjoint) :
    ∀ w ∈ ws, readAt (applyWrs d ws) w.off w.data.length = w.data := applyWrs_read_back d ws hd

/-- the sequential placement of Finalize (`location += blocks`, root directory at block 18) is the
    layout of `layout_disjoint` / `layout_inside` (`seqAlloc` over the pieces' block counts), and it
    makes all WriteAt calls of a plain image — system area, directory extents, both path tables,
    file contents with their zero fill, PVD at sector 16, terminator at sector 17 — pairwise
    disjoint, for every block size of at least 2048 -/
theorem placement_disjoint (i : ImageIn) (hbs : 2048 ≤ i.bs) (hp : i.pvd.WF) (hpl : i.Placed) :
    i.writes.Pairwise WrDisjoint ∧
    i.mid.map (·.off) = (seqAlloc (dataStartSector + 2) ((i.mid.map (·.data)).map fun b => blocksFor b.length i.bs)).map (fun e => e.1 * i.bs) :=
  ⟨placed_writes_disjoint i hbs hp hpl, by rw [← seqWr_offsets]; exact congrArg _ hpl⟩

/-- **reader_finds_layout** (plain configuration: no Rock Ridge, no Joliet, no El Torito).
    Take any tree with resolved identifiers whose locations are the ones the layout assigns
    (`Placed`), write what Finalize writes (`ImageIn.writes`) onto a blank device in that order,
    and start the reader at sector 16: it returns the primary volume descriptor that was written
    and the whole tree — every path, kind, extent, size and every file's bytes.
    Hypotheses, all of them: block size ≥ 2048; the tree is well formed (children and parents are
    entries, locations and sizes below 2^32, 7-byte dates, identifiers shorter than 222 bytes);
    the PVD is well formed, carries this block size and the root's self record; entry 0 is a
    directory; every directory / file of the tree is in the layout lists; a directory's recorded
    size is the length of its encoded extent and a file's its content length; the locations are
    `Placed`; the nesting depth is at most `fuel`. -/
theorem reader_finds_layout (i : ImageIn) (fuel : Nat) (hbs : 2048 ≤ i.bs) (hwf : i.t.WF) (hp : i.pvd.WF)
    (hpbs : i.pvd.blocksize = i.bs) (hroot : i.pvd.root = i.t.selfRec 0) (h0 : 0 < i.t.n)
    (hrd : (i.t.ent 0).isDir = true)
    (hdirs : ∀ d, d < i.t.n → (i.t.ent d).isDir = true → d ∈ i.dirs)
    (hfiles : ∀ c, c < i.t.n → (i.t.ent c).isDir = false → c ∈ i.files)
    (hsz : ∀ d ∈ i.dirs, (i.t.ent d).size = (i.t.dirBytes i.bs d).length)
    (hfsz : ∀ f ∈ i.files, (i.t.ent f).size = (i.t.ent f).content.length)
    (hpl : i.Placed) (hfit : i.t.Fits fuel 0) :
    readImageP i.image (16 * i.bs) fuel = some (i.pvd, i.t.walk fuel [] 0) :=
  reader_on_image i fuel (by omega) hwf hp hpbs hroot h0 hrd hdirs hfiles hsz hfsz
    (placed_writes_disjoint i hbs hp hpl) hfit


/-- **the Go write sequence refines the coarse one**: `copyFileData` issues one WriteAt per 2048-byte
    chunk of a file (every chunk, also one that holds only zeros) and Finalize then zero-fills the
    last block; on EVERY device contents `d` that sequence (`ImageIn.writesGo`) leaves exactly what
    the one-write-per-file list of `reader_finds_layout` leaves -/
theorem go_writes_refine (i : ImageIn) (d : Dev) : applyWrs d i.writesGo = applyWrs d i.writes :=
  writesGo_apply i d

/-- **reader_finds_layout on a device that held anything before** (recycled image file, used
    partition, erased flash): with the WriteAt calls as the Go code issues them (`writesGo`) onto
    ANY prior contents `d0`, the reader started at sector 16 returns the descriptor written and the
    whole tree with every file's bytes — nothing the reader sees depends on `d0`.  Hypotheses as in
    `reader_finds_layout`. -/
theorem reader_finds_layout_any_device (i : ImageIn) (d0 : Dev) (fuel : Nat) (hbs : 2048 ≤ i.bs) (hwf : i.t.WF)
    (hp : i.pvd.WF) (hpbs : i.pvd.blocksize = i.bs) (hroot : i.pvd.root = i.t.selfRec 0) (h0 : 0 < i.t.n)
    (hrd : (i.t.ent 0).isDir = true)
    (hdirs : ∀ d, d < i.t.n → (i.t.ent d).isDir = true → d ∈ i.dirs)
    (hfiles : ∀ c, c < i.t.n → (i.t.ent c).isDir = false → c ∈ i.files)
    (hsz : ∀ d ∈ i.dirs, (i.t.ent d).size = (i.t.dirBytes i.bs d).length)
    (hfsz : ∀ f ∈ i.files, (i.t.ent f).size = (i.t.ent f).content.length)
    (hpl : i.Placed) (hfit : i.t.Fits fuel 0) :
    readImageP (i.imageOn d0) (16 * i.bs) fuel = some (i.pvd, i.t.walk fuel [] 0) :=
  reader_on_image_on i d0 fuel (by omega) hwf hp hpbs hroot h0 hrd hdirs hfiles hsz hfsz
    (placed_writes_disjoint i hbs hp hpl) hfit

/-- every WriteAt of that sequence ends inside the declared volume (`volBlocks` = `totalSize`), so the
    device keeps its old bytes from there on (C03 states the same for its range clause) -/
theorem go_writes_inside_volume (i : ImageIn) (d0 : Dev) (hbs : 2048 ≤ i.bs) (hp : i.pvd.WF) (hpl : i.Placed) :
    (∀ w ∈ i.writesGo, w.off + w.data.length ≤ i.volBlocks * i.bs) ∧
    ∀ j, i.volBlocks * i.bs ≤ j → i.imageOn d0 j = d0 j :=
  ⟨writesGo_in_volume i hbs hp hpl, imageOn_frame i d0 hbs hp hpl⟩

/-! ## reading side: system use areas and Joliet names (Model/Iso/Susp.lean) -/

/-- **Rock Ridge names of any length survive**: `rockRidgeName.Bytes` cuts a name into NM entries of
    at most 249 name bytes (all but the last flagged "continued"); for EVERY non-empty name, the
    loop of `parseDirectoryEntryExtensions` over those bytes (followed by padding or by fewer than 4
    bytes) finds exactly these entries, each parses as an NM entry, and `GetFilename` (fix 6806b9b:
    all entries up to the first that is not continued) returns the name -/
theorem nm_roundtrip (name tail : Bytes) (hn : name ≠ []) (ht : tail.length ≤ 3 ∨ (tail.getD 2 0).toNat < 4) :
    ∃ ps, suspSplit (nmBytes name ++ tail).length (nmBytes name ++ tail) = some (nmEntries name.length name) ∧
      parseAll (nmEntries name.length name) = some ps ∧ getFilename ps = some name :=
  nm_area_roundtrip name tail hn ht

/-- the splitting loop inverts concatenation for any well-formed entries (length byte = length, 4..255) -/
theorem susp_split_roundtrip (es : List Bytes) (tail : Bytes) (hes : ∀ e ∈ es, EntOK e)
    (ht : tail.length ≤ 3 ∨ (tail.getD 2 0).toNat < 4) (fuel : Nat) (hf : es.length ≤ fuel) :
    suspSplit fuel (es.flatten ++ tail) = some es := suspSplit_flatten es tail hes ht fuel hf

/-- **continuation areas keep inside their room under the repaired rule** (`reserve = true`: an
    extension stays in an area only if everything left fits or the 28-byte CE entry still fits
    behind it): for any extensions, any room of at least 28 bytes and any continuation blocks, the
    record's area is at most `maxSize` bytes and every continuation area at most one block -/
theorem ce_areas_fit (bs : Nat) (hbs : ceSize ≤ bs) (fuel : Nat) (exts : List Bytes) (maxSize : Nat) (ce : List Nat)
    (areas : List Bytes) (hmax : ceSize ≤ maxSize) (h : assemble true bs fuel exts maxSize ce = some areas) :
    ∃ a rest, areas = a :: rest ∧ a.length ≤ maxSize ∧ ∀ x ∈ rest, x.length ≤ bs :=
  assemble_reserve_fits bs hbs fuel exts maxSize ce areas hmax h

private def ext20 : Bytes := [90, 90, 20, 1] ++ zeros 16
/-- … and the code as found (`reserve = false`) does not: four extensions of 20 bytes and 60 bytes of
    room give an area of 88 bytes — in a directory record this is how the length byte wraps
    (recorded finding iso-rr-ce-record-overflow); the repaired rule leaves 48 bytes in the record and 60 in the area -/
theorem ce_overflow_as_found :
    (assemble false 2048 10 [ext20, ext20, ext20, ext20] 60 [50, 51]).map (·.map (·.length)) = some [88, 20] ∧
    (assemble true 2048 10 [ext20, ext20, ext20, ext20] 60 [50, 51]).map (·.map (·.length)) = some [48, 60] := by decide

/-- **continuation areas round-trip** (fix 4937c9f: every area in its own block).  Take any extensions,
    given by their raw entries (each with its own length 4..255 in byte 2, each parseable, none of
    them a CE entry: PX, TF, NM, SL, ... entries), let `dirEntryExtensionsToBytes` distribute them over
    the record's area and continuation areas — as found or with the repaired rule —, and let the
    device return every area at the block its CE entry names (at most 64 areas, block numbers and
    lengths below 2^32).  Then `parseDirEntry`'s loop (read the area the last CE entry points at,
    parse it, put its entries in the place of the CE entry) returns exactly the entries of all
    extensions, in order: with `nm_roundtrip` a name of any length, with `ReadLink` a target in
    several SL entries, come back whole however they were spread over areas. -/
theorem ce_roundtrip (res : Bool) (bs : Nat) (rd : Nat → Nat → Nat → Bytes) (fuel : Nat) (raws : List (List Bytes))
    (maxSize : Nat) (ce : List Nat) (a : Bytes) (more : List Bytes) (hraw : RawOK raws) (hce : ∀ c ∈ ce, c < 2 ^ 32)
    (h : assemble res bs fuel (raws.map List.flatten) maxSize ce = some (a :: more))
    (hlen : ∀ x ∈ more, x.length < 2 ^ 32) (hrd : RdOK rd ce more) (hn : more.length ≤ maxAreas) :
    ∃ ps, parseAll raws.flatten = some ps ∧ readSusp rd a = some ps :=
  readSusp_assemble res bs rd fuel raws maxSize ce a more hraw hce h hlen hrd hn

private def exRaws : List (List Bytes) := [[ext20], [ext20], [ext20], [nmEntry false [120, 121]]]
private theorem exRawOK : RawOK exRaws := by
  intro r hr e he
  simp only [exRaws, List.mem_cons, List.not_mem_nil, or_false] at hr
  rcases hr with rfl | rfl | rfl | rfl <;> (simp only [List.mem_singleton] at he; subst he)
  · exact ⟨by unfold EntOK; decide, .other [90, 90], by decide, rfl⟩
  · exact ⟨by unfold EntOK; decide, .other [90, 90], by decide, rfl⟩
  · exact ⟨by unfold EntOK; decide, .other [90, 90], by decide, rfl⟩
  · exact ⟨by unfold EntOK; decide, .nm false false false [120, 121], by decide, rfl⟩
/-- the hypotheses of `ce_roundtrip` are satisfiable: three 20-byte entries stay in a record area of 88
    bytes, the name goes to block 50 -/
example : ∃ ps, parseAll exRaws.flatten = some ps ∧
    readSusp (fun loc _ _ => if loc = 50 then nmEntry false [120, 121] else [])
      (ext20 ++ ext20 ++ ext20 ++ ceEntry 50 0 7) = some ps :=
  ce_roundtrip false 2048 (fun loc _ _ => if loc = 50 then nmEntry false [120, 121] else []) 10 exRaws 60 [50, 51] _ [nmEntry false [120, 121]]
    exRawOK (by decide) (by decide) (by decide) ⟨by decide, trivial⟩ (by decide)

/-- **Joliet names round-trip** for code points of the Basic Multilingual Plane that are no
    surrogates: `bytesToUCS2String (ucs2StringToBytes s) = s` (beyond the BMP the encoder drops the
    high bits: recorded finding iso-joliet-nonbmp-name, counterexample below) -/
theorem ucs2_roundtrip (cps : List Nat) (h : ∀ c ∈ cps, c < 65536 ∧ ¬ (55296 ≤ c ∧ c ≤ 57343)) :
    ucs2Dec (ucs2Enc cps) = cps := ucs2_dec_enc cps h

/-- **the repaired Joliet codec** (`utf16.Encode` / `utf16.Decode`, big endian) gives every sequence
    of Unicode scalar values back, code points beyond the BMP included (as surrogate pairs) -/
theorem joliet_utf16_roundtrip (cps : List Nat) (h : ∀ c ∈ cps, Gpt.validRune c = true) :
    jolietDec true (jolietEnc true cps) = cps := joliet_utf16_dec_enc cps h

/-- **Joliet names round-trip for the codec THE TREE has** (`Generated.Iso.jolietUtf16` is regenerated
    from util.go: do `ucs2StringToBytes` / `bytesToUCS2String` go through unicode/utf16): every
    sequence of Unicode scalar values comes back - restricted to the BMP as long as the tree has the
    two-bytes-per-rune codec (recorded finding iso-joliet-nonbmp-name), unrestricted once it is repaired.
    The correspondence run feeds code points beyond the BMP to the real codec and to
    `jolietEnc/jolietDec Generated.Iso.jolietUtf16`, so a wrong switch shows as a mismatch. -/
theorem joliet_name_roundtrip (cps : List Nat)
    (h : ∀ c ∈ cps, Gpt.validRune c = true ∧ (Generated.Iso.jolietUtf16 = false → c < 65536)) :
    jolietDec Generated.Iso.jolietUtf16 (jolietEnc Generated.Iso.jolietUtf16 cps) = cps := by
  cases hb : Generated.Iso.jolietUtf16 with
  | true => exact joliet_utf16_dec_enc cps (fun c hc => (h c hc).1)
  | false =>
    simp only [jolietDec, jolietEnc, Bool.false_eq_true, if_false]
    refine ucs2_dec_enc cps (fun c hc => ⟨(h c hc).2 hb, ?_⟩)
    have hv := (h c hc).1
    simp only [Gpt.validRune, Bool.or_eq_true, Bool.and_eq_true, decide_eq_true_eq] at hv
    omega

/-! non-vacuity / witnesses -/
example : ucs2Dec (ucs2Enc [97, 128512]) = [97, 62976] := by decide   -- two bytes per rune: a😀 comes back as a + U+F600
example : jolietEnc true [97, 128512] = [0, 97, 0xD8, 0x3D, 0xDE, 0x00] := by decide   -- UTF-16: a, then the pair D83D DE00
example : jolietDec true (jolietEnc true [97, 128512, 228]) = [97, 128512, 228] := by decide
example : ucs2Dec (ucs2Enc [228, 26085, 65]) = [228, 26085, 65] := by decide
-- a name of 5 bytes: one NM entry; the reader finds it behind a PX-like entry and before padding
example : (parseArea ([80, 88, 4, 1] ++ nmBytes [97, 98, 99, 100, 101] ++ [0])).bind getFilename = some [97, 98, 99, 100, 101] := by decide
-- a symlink target in two SL entries is joined by ReadLink; a CE entry is followed by `collect`
example : readLink [.sl true [97], .nm false false false [120], .sl false [98, 47, 99]] = some [97, 47, 98, 47, 99] := by decide
example : readSusp (fun loc _ _ => if loc = 50 then nmBytes [120, 121] else []) (ceEntry 50 0 7) =
    some [.nm false false false [120, 121]] := by decide
-- path table lookup (fix 80ad899): /B/C is record 4 (parent = record 3), not the C below A
example : ptLookup [⟨[0], 18, 1⟩, ⟨[65], 19, 1⟩, ⟨[66], 20, 1⟩, ⟨[67], 21, 2⟩, ⟨[67], 22, 3⟩] [[66], [67]] = 22 := by decide

/-! non-vacuity of `reader_finds_layout`: a root directory holding one file, 2048-byte blocks -/

private def imDate : Bytes := [126, 1, 1, 0, 0, 0, 0]
private def imT : PTree :=
  { n := 2
    ent := fun i => if i = 0 then { name := [0], isDir := true, loc := 18, size := 104, date := imDate, content := [] }
                    else { name := [65, 59, 49], isDir := false, loc := 21, size := 3, date := imDate, content := [7, 7, 7] }
    kids := fun d => if d = 0 then [1] else []
    parent := fun _ => 0 }
private def imI : ImageIn :=
  { t := imT, bs := 2048, dirs := [0], files := [1]
    pvd := { sysId := zeros 32, volId := zeros 32, volSize := 22, setSize := 1, seqNo := 1, blocksize := 2048, ptSize := 10,
             ptL := 19, ptLopt := 0, ptM := 20, ptMopt := 0, root := imT.selfRec 0, tail := zeros 1858 }
    ptLBytes := [1, 0, 18, 0, 0, 0, 1, 0, 0, 0], ptMBytes := [1, 0, 0, 0, 0, 18, 0, 1, 0, 0] }

private theorem imLen : (imT.dirBytes 2048 0).length = 104 := by decide

private theorem imPlaced : imI.Placed := by
  apply placed_of_offsets
  simp only [ImageIn.mid, imI, List.map_cons, List.map_nil, List.cons_append, List.nil_append, padBlock_length, imLen]
  simp [seqAlloc, blocksFor, dataStartSector, imT]

private theorem imWF : imT.WF := by
  refine ⟨?_, ?_, ?_⟩
  · intro d hd c hc
    have : d = 0 ∨ d = 1 := by simp [imT] at hd; omega
    rcases this with rfl | rfl <;> simp [imT] at hc ⊢
    omega
  · intro d _; simp [imT]
  · intro c hc
    have : c = 0 ∨ c = 1 := by simp [imT] at hc; omega
    rcases this with rfl | rfl <;> simp [imT, imDate]

/-- the hypotheses of `reader_finds_layout` are satisfiable: a root directory with one file -/
example : readImageP imI.image (16 * 2048) 2 = some (imI.pvd, imT.walk 2 [] 0) := by
  refine reader_finds_layout imI 2 (by decide) imWF ?_ rfl rfl (by decide) rfl ?_ ?_ ?_ ?_ imPlaced ?_
  · simp [PVD.WF, imI, imT, PTree.selfRec, PTree.recOf, imDate]
  · intro d hd hdir
    have : d = 0 ∨ d = 1 := by simp [imI, imT] at hd; omega
    rcases this with rfl | rfl
    · simp [imI]
    · simp [imI, imT] at hdir
  · intro c hc hf
    have : c = 0 ∨ c = 1 := by simp [imI, imT] at hc; omega
    rcases this with rfl | rfl
    · simp [imI, imT] at hf
    · simp [imI]
  · intro d hd
    simp [imI] at hd; subst hd
    exact imLen.symm ▸ rfl
  · intro f hf
    simp [imI] at hf; subst hf
    rfl
  · intro c hc hd
    simp [imI, imT] at hc; subst hc
    simp [imI, imT] at hd
example : imT.walk 2 [] 0 = [{ path := [[65, 59, 49]], isDir := false, loc := 21, size := 3, data := [7, 7, 7] }] := by decide

/-- the same instance on a device that held 0xFF everywhere -/
example : readImageP (imI.imageOn (fun _ => 255)) (16 * 2048) 2 = some (imI.pvd, imT.walk 2 [] 0) := by
  refine reader_finds_layout_any_device imI _ 2 (by decide) imWF ?_ rfl rfl (by decide) rfl ?_ ?_ ?_ ?_ imPlaced ?_
  · simp [PVD.WF, imI, imT, PTree.selfRec, PTree.recOf, imDate]
  · intro d hd hdir
    have : d = 0 ∨ d = 1 := by simp [imI, imT] at hd; omega
    rcases this with rfl | rfl
    · simp [imI]
    · simp [imI, imT] at hdir
  · intro c hc hf
    have : c = 0 ∨ c = 1 := by simp [imI, imT] at hc; omega
    rcases this with rfl | rfl
    · simp [imI, imT] at hf
    · simp [imI]
  · intro d hd
    simp [imI] at hd; subst hd
    exact imLen.symm ▸ rfl
  · intro f hf
    simp [imI] at hf; subst hf
    rfl
  · intro c hc hd
    simp [imI, imT] at hc; subst hc
    simp [imI, imT] at hd
-- its Go write list starts at: system area, root directory, L and M path table, the file's chunk and fill, PVD, terminator
example : imI.writesGo.map (·.off) = [0, 36864, 38912, 40960, 43008, 43011, 32768, 34816] := by decide
-- `copyFileData` with a chunk of 4: a file of 10 bytes at byte 100 is written as 4 + 4 + 2 bytes; with 8-byte blocks the fill is 6 bytes
example : (chunkWrs 4 10 100 [1, 2, 3, 4, 5, 6, 7, 8, 9, 10]).map (fun w => (w.off, w.data)) =
    [(100, [1, 2, 3, 4]), (104, [5, 6, 7, 8]), (108, [9, 10])] := by decide
example : (fileWrs 8 96 [1, 2, 3, 4, 5, 6, 7, 8, 9, 10]).map (fun w => (w.off, w.data.length)) = [(96, 10), (106, 6)] := by decide

/-! ## THE COMPOSITION: from a workspace tree to what the reader returns -/

/-- **workspace_roundtrip** (plain configuration).  Take ANY workspace tree `w` (entries with host
    names of any code points, kinds, file contents, dates; children in WalkDir order), let
    `calculateShortnameExtension` + collision resolution name the children of every directory (`fin`,
    for ANY processing order of the collision groups under which resolution succeeds: `Resolved`),
    lay directories, path tables and files out one after the other from block 18 in ANY order that
    lists every directory and every file once (`OK`; `collapseAndSortChildren`'s order is
    one), encode directory extents, path tables and the primary volume descriptor, issue the WriteAt
    calls of Finalize as the Go code does (2048-byte copy chunks, zero fill) onto a device holding
    ANYTHING (`d0`), and start the reader at sector 16.  Then
    (1) the reader returns the descriptor and the depth-first listing of the tree `w.ptree …`, whose
        shape, kinds and file CONTENTS are the workspace's by definition (`kids := w.kids`,
        `content := w.content`, record order = WalkDir order), whose sizes are the content lengths and
        whose names are `w.ident`;
    (2) `w.ident` of a child is the documented rule — `isoIdent` (SHORT for directories, SHORT.EXT;1
        for files) of the resolved 8.3 name, which is valid — and siblings get DIFFERENT identifiers
        (composition of `short_name_valid`, `resolve_injective` and injectivity of the identifier
        syntax; extensions survive resolution);
    (3) every piece behind the descriptor set (directory extents, both path tables, file extents, each
        in whole blocks) starts at or after block 18, ends inside the declared volume size
        (`w.total` = the PVD's volume size) and they follow each other without overlap.
    Stated limits: block size 2048 ≤ bs < 65536; the image is smaller than 4 GiB
    (`w.total * bs < 2^32`: hence every file below 4 GiB, every location and directory size in 32
    bits); nesting depth ≤ `fuel` (8 without DeepDirectories); 7-byte dates; the workspace is a tree
    (`OK`).  NOT in this theorem: Rock Ridge / Joliet / El Torito, and that the real Finalize computes
    this `ImageIn` — that is the correspondence op iso.compose on real images. -/
theorem workspace_roundtrip (w : WTree) (order : Nat → List Nm) (fin : Nat → Nat → Nm) (bs : Nat) (o : Order)
    (sysId volId tail : Bytes) (d0 : Dev) (fuel : Nat)
    (hbs : 2048 ≤ bs) (hbs16 : bs < 2 ^ 16) (hok : w.OK o) (hr : w.Resolved order fin)
    (hlim : w.total fin bs o * bs < 2 ^ 32) (hs : sysId.length = 32) (hv : volId.length = 32) (ht : tail.length = 1858)
    (hfit : w.Fits fuel 0) :
    readImageP ((w.image fin bs o sysId volId tail).imageOn d0) (16 * bs) fuel =
      some ((w.image fin bs o sysId volId tail).pvd, (w.ptree fin (w.loc fin bs o) (w.size fin bs)).walk fuel [] 0) ∧
    (∀ d, d < w.n → w.isDir d = true →
      (∀ c ∈ w.kids d, w.ident fin c = strBytes (isoIdent (fin d ((w.kids d).idxOf c)) (w.isDir c)) ∧
        Valid83 (fin d ((w.kids d).idxOf c))) ∧
      (∀ c1 ∈ w.kids d, ∀ c2 ∈ w.kids d, c1 ≠ c2 → w.ident fin c1 ≠ w.ident fin c2)) ∧
    ((∀ x ∈ (w.image fin bs o sysId volId tail).mid,
        (dataStartSector + 2) * bs ≤ x.off ∧ x.off + x.data.length ≤ w.total fin bs o * bs) ∧
      (w.image fin bs o sysId volId tail).mid.Pairwise (fun a b => a.off + a.data.length ≤ b.off)) :=
  ⟨compose_reader w order fin bs o sysId volId tail hbs hbs16 hok hr hlim hs hv ht d0 fuel hfit,
   fun d hd hdir => ⟨fun c hc => ⟨((ident_facts w order fin o hok hr d hd hdir).1 c hc).2,
      (resolved_facts w order fin hr d hd hdir).2.1 _ (List.idxOf_lt_length_of_mem hc)⟩,
     (ident_facts w order fin o hok hr d hd hdir).2⟩,
   compose_extents w fin bs o sysId volId tail (by omega) hok⟩

private def wsDate : Bytes := [126, 1, 1, 0, 0, 0, 0]
/-- workspace: a.txt (3 bytes) and directory d holding b (1 byte) -/
private def ws : WTree :=
  { n := 4
    name := fun i => if i = 1 then [97, 46, 116, 120, 116] else if i = 2 then [100] else if i = 3 then [98] else []
    isDir := fun i => i = 0 ∨ i = 2
    content := fun i => if i = 1 then [7, 7, 7] else if i = 3 then [9] else []
    date := fun _ => wsDate
    kids := fun d => if d = 0 then [1, 2] else if d = 2 then [3] else []
    parent := fun c => if c = 3 then 2 else 0 }
private def wsO : Order := { dirs := [0, 2], files := [1, 3], pt := [0, 2] }
private def wsFin : Nat → Nat → Nm := fun d => ws.orig d

private theorem wsOK : ws.OK wsO :=
  { pos := by decide, rootDir := by decide, kidsLt := by decide, kidsPar := by decide, kidsNodup := by decide,
    parLt := by decide, inKids := by decide, date7 := by decide, dirsNodup := by decide, filesNodup := by decide,
    dirsOK := by
      intro d
      by_cases h : d < 4
      · have : d = 0 ∨ d = 1 ∨ d = 2 ∨ d = 3 := by omega
        rcases this with rfl | rfl | rfl | rfl <;> decide
      · simp only [wsO, ws, List.mem_cons, List.not_mem_nil, or_false]; simp only [decide_eq_true_eq]; omega
    filesOK := by
      intro d
      by_cases h : d < 4
      · have : d = 0 ∨ d = 1 ∨ d = 2 ∨ d = 3 := by omega
        rcases this with rfl | rfl | rfl | rfl <;> decide
      · simp only [wsO, ws, List.mem_cons, List.not_mem_nil, or_false]; simp only [decide_eq_false_iff_not]; omega }

private theorem wsRes : ws.Resolved (fun _ => []) wsFin :=
  { res := fun _ _ _ => rfl
    cover := by
      intro d hd hdir i hi hm
      have hd' : d = 0 ∨ d = 1 ∨ d = 2 ∨ d = 3 := by simp only [ws] at hd; omega
      rcases hd' with rfl | rfl | rfl | rfl
      · have : i = 0 ∨ i = 1 := by simp [ws] at hi; omega
        rcases this with rfl | rfl <;> exact absurd hm (by decide)
      · exact absurd hdir (by decide)
      · have : i = 0 := by simp [ws] at hi; omega
        subst this; exact absurd hm (by decide)
      · exact absurd hdir (by decide) }

private theorem wsFits : ws.Fits 3 0 := by simp [WTree.Fits, ws]
example : ws.total wsFin 2048 wsO * 2048 < 2 ^ 32 := by decide +kernel
example : (List.range 4).map (ws.ident wsFin) = [[0], [65, 46, 84, 88, 84, 59, 49], [68], [66, 46, 59, 49]] := by decide +kernel
example : (List.range 6).map (ws.loc wsFin 2048 wsO) = [18, 22, 19, 23, 20, 21] := by decide +kernel

/-- the hypotheses of `workspace_roundtrip` are satisfiable (device pre-filled with 0xFF) -/
example : readImageP ((ws.image wsFin 2048 wsO (zeros 32) (zeros 32) (zeros 1858)).imageOn (fun _ => 255)) (16 * 2048) 3 =
    some ((ws.image wsFin 2048 wsO (zeros 32) (zeros 32) (zeros 1858)).pvd,
      (ws.ptree wsFin (ws.loc wsFin 2048 wsO) (ws.size wsFin 2048)).walk 3 [] 0) :=
  (workspace_roundtrip ws (fun _ => []) wsFin 2048 wsO (zeros 32) (zeros 32) (zeros 1858) (fun _ => 255) 3
    (by decide) (by decide) wsOK wsRes (by decide +kernel) (by simp) (by simp) (by simp) wsFits).1

/-! ## the SL encoder (Model/Iso/SymlinkEnc.lean) -/

/-- **sl_roundtrip**: for EVERY link target whose components (`splitPath`: the non-empty parts between
    slashes — and, as found, backslashes) are at most 248 bytes long, the SL entries
    `rockRidgeSymlink.Bytes` makes (root record, `.`, `..`, name records; an entry is closed and flagged
    "continued" when the next record would make its component area longer than 247 bytes; a record is
    never split, fix 62ffa5f) are well-formed system use entries (so `susp_split_roundtrip` /
    `ce_roundtrip` carry them through areas), each parses as an SL entry, and `ReadLink`
    (`joinSymlinkParts`, fix 0fd6be8) returns exactly the target the component records spell:
    `slRender` = "/" for the root record, the components joined by "/".  That is the target itself
    when it is in normal form (`sl_normal_form` below); empty components and a trailing slash are not
    representable in component records and are dropped. -/
theorem sl_roundtrip (uni : Bool) (t : Bytes) (hlen : ∀ c ∈ slComps uni t, c.length ≤ 248) :
    (∀ e ∈ slEntries uni t, EntOK e) ∧
    ∃ ps, parseAll (slEntries uni t) = some ps ∧ readLink ps = some (slRender (slItems uni t) []) :=
  sl_target_roundtrip uni t hlen

/-- the same on component records: ANY components that are non-empty, free of slashes and at most 248
    bytes long, behind an optional root record, come back as the target they spell -/
theorem sl_components_roundtrip (root : Bool) (comps : List Bytes) (hc : ∀ c ∈ comps, c ≠ [] ∧ 47 ∉ c ∧ c.length ≤ 248) :
    ∃ ps, parseAll (slPack (((if root then [none] else []) ++ comps.map some).map encItem) []) = some ps ∧
      readLink ps = some (slRender ((if root then [none] else []) ++ comps.map some) []) :=
  sl_items_roundtrip root comps hc

/-- **the exact set Finalize refuses** (recorded finding iso-rr-symlink-over-block, fix 6475c24 turned the
    panic into an error): the SL entries of one target are ONE extension for
    `dirEntryExtensionsToBytes`; when they are longer than a block, then whatever stands before them
    (PX, TF, NM), whatever room the record has and however many continuation blocks there are, the
    call fails — and when they fit a block they are placed whole in a continuation area of their own -/
theorem sl_refused (bs : Nat) (sl : Bytes) (fuel : Nat) (exts : List Bytes) (maxSize : Nat) (ce : List Nat)
    (hm : maxSize ≤ bs) :
    (sl.length > bs → assemble true bs fuel (exts ++ [sl]) maxSize ce = none) ∧
    (sl.length ≤ bs → assemble true bs (fuel + 1) [sl] bs ce = some [sl]) :=
  ⟨fun h => assemble_refuses bs sl h fuel exts maxSize ce hm, fun h => assemble_single bs fuel sl ce h⟩

/-- **sl_normal_form**: the targets spelled by an optional root record and components that are non-empty,
    free of slashes and at most 248 bytes long ("/", "a", "../b/c", "/usr/lib", ...) are the normal
    forms: with the repaired splitting rule (`uni = false`: only "/" separates) such a target splits
    into exactly these records again, so by `sl_roundtrip` ReadLink returns it BYTE FOR BYTE; as found
    (`uni = true`) the same holds when it contains no backslash (correspondence iso.slenc) -/
theorem sl_normal_form (root : Bool) (comps : List Bytes) (hc : ∀ c ∈ comps, c ≠ [] ∧ 47 ∉ c ∧ c.length ≤ 248) :
    ∃ ps, parseAll (slEntries false (slRender ((if root then [none] else []) ++ comps.map some) [])) = some ps ∧
      readLink ps = some (slRender ((if root then [none] else []) ++ comps.map some) []) := by
  have h := slItems_render root comps hc
  have := sl_items_roundtrip root comps hc
  unfold slEntries
  rw [h]
  exact this

/-! witnesses -/
-- "../lib/x" : three records in one entry; comes back unchanged
example : slBytes true [46, 46, 47, 108, 105, 98, 47, 120] = [83, 76, 15, 1, 0, 4, 0, 0, 3, 108, 105, 98, 0, 1, 120] := by decide
example : (parseAll (slEntries true [46, 46, 47, 108, 105, 98, 47, 120])).bind readLink = some [46, 46, 47, 108, 105, 98, 47, 120] := by decide
-- "/" alone and "/a": the root record
example : (parseAll (slEntries true [47])).bind readLink = some [47] := by decide
example : (parseAll (slEntries true [47, 97])).bind readLink = some [47, 97] := by decide
-- "a//b/" is stored as a, b: it comes back as "a/b" (not representable otherwise)
example : (parseAll (slEntries true [97, 47, 47, 98, 47])).bind readLink = some [97, 47, 98] := by decide
-- as found a backslash splits the target (a\b comes back as a/b: recorded finding iso-rr-symlink-backslash); repaired it does not
example : (parseAll (slEntries true [97, 92, 98])).bind readLink = some [97, 47, 98] := by decide
example : (parseAll (slEntries false [97, 92, 98])).bind readLink = some [97, 92, 98] := by decide
-- a component of 249 bytes: the length byte of its entry wraps to 0 (recorded finding iso-rr-symlink-long-component)
example : ((slEntries true (List.replicate 249 120)).map fun e => (e.getD 2 0).toNat) = [5, 0] := by decide +kernel
example : ((slEntries true (List.replicate 248 120)).map fun e => (e.getD 2 0).toNat) = [5, 255] := by decide +kernel
/-! ## path table (item: lookup through the path table = walk from the root) -/

/-- **pathtable_lookup_is_walk**: in EVERY well-formed path table (`PtWF`: a directory's record comes
    after its parent's, two records with the same parent number have different names, none is named
    "." — what `createPathTable` produces for every laid-out tree: level order, sibling identifiers
    distinct by `workspace_roundtrip` (2); checked on the tables of real images by iso.ptwalk), for
    EVERY chain of directories root → b₁ → … → bₘ (each record the child of the one before),
    `pathTable.getLocation` (fix 80ad899: one forward pass, the parent number must be the record
    matched last) on the path spelled by their names returns the extent recorded for bₘ — the extent a
    walk through the directory records along the same names arrives at (`reader_walks_tree`). -/
theorem pathtable_lookup_is_walk (T : List PtRec) (hwf : PtWF T) (b : Nat) (rest : List Nat) (hch : IsChain T 1 (b :: rest)) :
    ptLookup T ((b :: rest).map fun k => (ptRec T k).name) = (ptRec T ((b :: rest).getLast (by simp))).loc :=
  ptLookup_chain T hwf b rest hch

/-- ... and every directory other than the root is the end of such a chain: the lookup reaches every
    record of the table -/
theorem pathtable_reaches_every_directory (T : List PtRec) (hwf : PtWF T) (i : Nat) (h2 : 2 ≤ i) (hl : i ≤ T.length) :
    ∃ l, IsChain T 1 (l ++ [i]) := chain_exists T hwf i i (Nat.le_refl _) h2 hl

private def exPT : List PtRec := [⟨[0], 18, 1⟩, ⟨[65], 19, 1⟩, ⟨[66], 20, 1⟩, ⟨[67], 21, 2⟩, ⟨[67], 22, 3⟩]
private theorem exPTwf : PtWF exPT := by
  refine ⟨?_, ?_, ?_⟩
  · intro i h2 hl
    have : i = 2 ∨ i = 3 ∨ i = 4 ∨ i = 5 := by simp [exPT] at hl; omega
    rcases this with rfl | rfl | rfl | rfl <;> decide
  · intro i j hi hil hj hjl
    have h1 : i = 1 ∨ i = 2 ∨ i = 3 ∨ i = 4 ∨ i = 5 := by simp [exPT] at hil; omega
    have h2 : j = 1 ∨ j = 2 ∨ j = 3 ∨ j = 4 ∨ j = 5 := by simp [exPT] at hjl; omega
    rcases h1 with rfl | rfl | rfl | rfl | rfl <;> rcases h2 with rfl | rfl | rfl | rfl | rfl <;> decide
  · intro i h2 hl
    have : i = 2 ∨ i = 3 ∨ i = 4 ∨ i = 5 := by simp [exPT] at hl; omega
    rcases this with rfl | rfl | rfl | rfl <;> decide
/-- the hypotheses are satisfiable: /B/C (records 3, 5) is found at block 22, not the C below A -/
example : ptLookup exPT [[66], [67]] = 22 :=
  pathtable_lookup_is_walk exPT exPTwf 3 [5] (by simp [IsChain, exPT, ptRec])

/-- **layout_pathtable**: the path table `createPathTable` makes for EVERY laid-out workspace tree of
    `workspace_roundtrip` (`WTree.ptRecs`: one record per directory with its identifier, its extent and
    the number of its parent's record) is well formed for every table order that lists the
    directories once, the root first and a directory after its parent (`PtOK`; the Go order — by
    depth, then parents' order, then name — is one: `WTree.ptOrder`, tied by iso.compose), so for
    every chain of directories from the root the lookup through the table returns the extent the
    layout gave the last one — the same extent its directory record carries in the tree the reader
    walks (`workspace_roundtrip` (1)): lookup through the path table = directory tree walk. -/
theorem layout_pathtable (w : WTree) (order : Nat → List Nm) (fin : Nat → Nat → Nm) (bs : Nat) (o : Order)
    (hok : w.OK o) (hr : w.Resolved order fin) (hpt : w.PtOK o.pt) :
    PtWF (w.ptRecs fin (w.loc fin bs o) o.pt) ∧
    ∀ b rest, IsChain (w.ptRecs fin (w.loc fin bs o) o.pt) 1 (b :: rest) →
      ptLookup (w.ptRecs fin (w.loc fin bs o) o.pt)
        ((b :: rest).map fun k => w.ident fin (dirOf o.pt k)) =
        w.loc fin bs o (dirOf o.pt ((b :: rest).getLast (by simp))) := by
  have hwf := ptRecs_wf w order fin (w.loc fin bs o) o.pt o hok hr hpt
  refine ⟨hwf, ?_⟩
  intro b rest hch
  have hlen : (w.ptRecs fin (w.loc fin bs o) o.pt).length = o.pt.length := by simp [WTree.ptRecs]
  have hmem : ∀ l : List Nat, ∀ a, IsChain (w.ptRecs fin (w.loc fin bs o) o.pt) a l → ∀ k ∈ l, 1 ≤ k ∧ k ≤ o.pt.length := by
    intro l
    induction l with
    | nil => intro a _ k hk; cases hk
    | cons x r ih =>
      intro a h k hk
      rcases List.mem_cons.1 hk with rfl | hk
      · have := h.1; have := h.2.1; omega
      · exact ih x h.2.2.2 k hk
  have h := pathtable_lookup_is_walk _ hwf b rest hch
  have hnames : ((b :: rest).map fun k => (ptRec (w.ptRecs fin (w.loc fin bs o) o.pt) k).name) =
      (b :: rest).map fun k => w.ident fin (dirOf o.pt k) := by
    apply List.map_congr_left
    intro k hk
    have := hmem _ 1 hch k hk
    rw [ptRec_ptRecs w fin _ o.pt k this.1 this.2]
  rw [hnames] at h
  rw [h]
  have hl := hmem _ 1 hch ((b :: rest).getLast (by simp)) (List.getLast_mem _)
  rw [ptRec_ptRecs w fin _ o.pt _ hl.1 hl.2]

/-- the table order of the concrete workspace above is `PtOK` -/
example : ws.PtOK wsO.pt :=
  { nodup := by decide, head := by decide
    dirs := by intro d hd; simp only [wsO, List.mem_cons, List.not_mem_nil, or_false] at hd; rcases hd with rfl | rfl <;> decide
    parent := by intro d hd h0; simp only [wsO, List.mem_cons, List.not_mem_nil, or_false] at hd; rcases hd with rfl | rfl <;> first | exact absurd rfl h0 | decide }

/-- pinned facts regenerated from rockridge.go / finalize.go: the room for component records in one SL
    entry (`directoryEntryMaxSize - headerSize`, headerSize evaluated from its literal sum) is the model's
    `slMaxComp`, the bound 248 of `sl_roundtrip` is what keeps an entry's length byte (room + 5 + 3) below
    256, and `copyFileData` copies in chunks of the model's `copyChunk` -/
theorem facts_agree_sl :
    Generated.Iso.directoryEntryMaxSize - Generated.Iso.slHeaderSize = slMaxComp ∧
    Generated.Iso.slMaxComponent_expr = "directoryEntryMaxSize - headerSize" ∧
    248 + 2 + 5 = 255 ∧ Generated.Iso.copyChunkSize = copyChunk := by decide

/-! ## one Rock Ridge record end to end: NM + SL + continuation areas composed -/

/-- **rr_record_roundtrip** (names and link targets are preserved exactly under Rock Ridge, at the level
    of one directory record): the extensions in the order `GetFileExtensions` makes them — entries the
    reader keeps by signature (PX, TF, ...), the NM entries of ANY non-empty name (any length), the SL
    entries of ANY target whose components are at most 248 bytes — spread by `dirEntryExtensionsToBytes`
    (as found or repaired rule) over the record's area and continuation areas of any block size, each
    area returned by the device at the block its CE entry names (at most 64 areas): `parseDirEntry`'s
    loop returns entries from which `GetFilename` gives EXACTLY the name and `ReadLink` exactly the target
    the component records spell (the target itself when in normal form, `sl_normal_form`).  Composition
    of `nm_roundtrip`, `sl_roundtrip`, `ce_roundtrip`. -/
theorem rr_record_roundtrip (res uni : Bool) (bs : Nat) (rd : Nat → Nat → Nat → Bytes) (fuel : Nat) (pre : List (List Bytes))
    (name t : Bytes) (maxSize : Nat) (ce : List Nat) (a : Bytes) (more : List Bytes)
    (hpre : ∀ r ∈ pre, ∀ e ∈ r, EntOK e ∧ ∃ p, parseEnt e = some p ∧ IsOther p)
    (hn : name ≠ []) (hlen : ∀ c ∈ slComps uni t, c.length ≤ 248) (hce : ∀ c ∈ ce, c < 2 ^ 32)
    (h : assemble res bs fuel ((pre ++ [nmEntries name.length name, slEntries uni t]).map List.flatten) maxSize ce = some (a :: more))
    (hl : ∀ x ∈ more, x.length < 2 ^ 32) (hrd : RdOK rd ce more) (hm : more.length ≤ maxAreas) :
    ∃ ps, readSusp rd a = some ps ∧ getFilename ps = some name ∧ readLink ps = some (slRender (slItems uni t) []) :=
  rr_record res uni bs rd fuel pre name t maxSize ce a more hpre hn hlen hce h hl hrd hm

/-- the same for an entry that is no symlink: the name comes back, and it is not reported as a link -/
theorem rr_record_name_roundtrip (res : Bool) (bs : Nat) (rd : Nat → Nat → Nat → Bytes) (fuel : Nat) (pre : List (List Bytes))
    (name : Bytes) (maxSize : Nat) (ce : List Nat) (a : Bytes) (more : List Bytes)
    (hpre : ∀ r ∈ pre, ∀ e ∈ r, EntOK e ∧ ∃ p, parseEnt e = some p ∧ IsOther p)
    (hn : name ≠ []) (hce : ∀ c ∈ ce, c < 2 ^ 32)
    (h : assemble res bs fuel ((pre ++ [nmEntries name.length name]).map List.flatten) maxSize ce = some (a :: more))
    (hl : ∀ x ∈ more, x.length < 2 ^ 32) (hrd : RdOK rd ce more) (hm : more.length ≤ maxAreas) :
    ∃ ps, readSusp rd a = some ps ∧ getFilename ps = some name ∧ readLink ps = none :=
  rr_record_name res bs rd fuel pre name maxSize ce a more hpre hn hce h hl hrd hm

/-- the hypotheses are satisfiable: a 20-byte PX-like entry, a name of 30 bytes, the target "../a"; 60 bytes of
    room in the record, so the NM and SL entries go to the continuation area at block 50 -/
example : ∃ ps, readSusp (fun loc _ _ => if loc = 50 then nmEntry false (List.replicate 30 120) ++ slBytes true [46, 46, 47, 97] else [])
      (ext20 ++ ceEntry 50 0 45) = some ps ∧
    getFilename ps = some (List.replicate 30 120) ∧ readLink ps = some [46, 46, 47, 97] :=
  rr_record_roundtrip true true 2048 (fun loc _ _ => if loc = 50 then nmEntry false (List.replicate 30 120) ++ slBytes true [46, 46, 47, 97] else [])
    10 [[ext20]] (List.replicate 30 120) [46, 46, 47, 97] 60 [50, 51] _ [nmEntry false (List.replicate 30 120) ++ slBytes true [46, 46, 47, 97]]
    (by
      intro r hr e he
      simp only [List.mem_singleton] at hr; subst hr
      simp only [List.mem_singleton] at he; subst he
      exact ⟨by unfold EntOK; decide, .other [90, 90], by decide, trivial⟩)
    (by decide) (by decide) (by decide) (by decide) (by decide) ⟨by decide, trivial⟩ (by decide)

/-- **layout_pathtable_on_device**: the L and the M path table READ BACK FROM THE DEVICE after the writes
    of `workspace_roundtrip` (any prior contents), at the locations and with the size the primary volume
    descriptor names, decode (`parsePathTable`) to exactly the records of `layout_pathtable` — so every
    lookup of that theorem is a lookup through the bytes on the image.  Further limits: fewer than 65535
    directories (16-bit parent numbers) and no empty identifier (the Go code refuses names whose base
    maps to the empty string). -/
theorem layout_pathtable_on_device (w : WTree) (order : Nat → List Nm) (fin : Nat → Nat → Nm) (bs : Nat) (o : Order)
    (sysId volId tail : Bytes) (d0 : Dev)
    (hbs : 2048 ≤ bs) (hbs16 : bs < 2 ^ 16) (hok : w.OK o) (hr : w.Resolved order fin) (hpt : w.PtOK o.pt)
    (hlim : w.total fin bs o * bs < 2 ^ 32) (hcount : o.pt.length + 1 < 2 ^ 16) (hne : ∀ d ∈ o.pt, w.ident fin d ≠ [])
    (hs : sysId.length = 32) (hv : volId.length = 32) (ht : tail.length = 1858) :
    decodePtTable false (o.pt.length + 1)
        (readAt ((w.image fin bs o sysId volId tail).imageOn d0) ((w.image fin bs o sysId volId tail).pvd.ptL * bs)
          (w.image fin bs o sysId volId tail).pvd.ptSize) = some (w.ptRecs fin (w.loc fin bs o) o.pt) ∧
    decodePtTable true (o.pt.length + 1)
        (readAt ((w.image fin bs o sysId volId tail).imageOn d0) ((w.image fin bs o sysId volId tail).pvd.ptM * bs)
          (w.image fin bs o sysId volId tail).pvd.ptSize) = some (w.ptRecs fin (w.loc fin bs o) o.pt) :=
  image_pathtables w order fin bs o sysId volId tail hbs hbs16 hok hr hpt hlim hcount hne hs hv ht d0

/-! ## the supplementary (Joliet) volume descriptor -/

/-- **svd_roundtrip**: the supplementary volume descriptor (`supplementaryVolumeDescriptor.toBytes`: the
    layout of the primary descriptor with type 2, volume flags, and the escape sequences that announce
    Joliet where the primary one has zeros) decodes from its 2048 bytes to the same fields: flags, escape
    sequences, volume size, set/sequence numbers, block size, Joliet path table size and locations, the
    Joliet root directory record (both-endian halves agreeing) -/
theorem svd_roundtrip (s : SVD) (h : s.WF) : decodeSVD (encodeSVD s) = some s ∧ (encodeSVD s).length = 2048 :=
  ⟨decode_encodeSVD s h, encodeSVD_length s h⟩

private def exSVD : SVD :=
  { flags := 0, esc := [37, 47, 69] ++ zeros 29, d := { imI.pvd with volSize := 30, ptL := 27, ptM := 28 } }
example : decodeSVD (encodeSVD exSVD) = some exSVD ∧ isJolietEsc exSVD.esc = true :=
  ⟨(svd_roundtrip exSVD ⟨by decide, by simp [PVD.WF, exSVD, imI, imT, PTree.selfRec, PTree.recOf, imDate]⟩).1, by decide⟩

/-- **workspace_roundtrip_format_limits**: conclusion (1) of `workspace_roundtrip` under the limits of the
    FORMAT instead of "image below 4 GiB" (`WTree.Limits`): the volume has fewer than 2^32 blocks, EVERY FILE
    is smaller than 4 GiB, a directory has at most 2^25 - 2 entries (its extent — at most 96 bytes per
    record, `dsize_le` — then fits 32 bits), the path table lists at most 2^27 directories, all of them
    entries of the workspace.  Conclusions (2) and (3) of `workspace_roundtrip` need no size limit at all. -/
theorem workspace_roundtrip_format_limits (w : WTree) (order : Nat → List Nm) (fin : Nat → Nat → Nm) (bs : Nat) (o : Order)
    (sysId volId tail : Bytes) (d0 : Dev) (fuel : Nat)
    (hbs : 2048 ≤ bs) (hbs16 : bs < 2 ^ 16) (hok : w.OK o) (hr : w.Resolved order fin)
    (hlim : w.Limits fin bs o) (hs : sysId.length = 32) (hv : volId.length = 32) (ht : tail.length = 1858)
    (hfit : w.Fits fuel 0) :
    readImageP ((w.image fin bs o sysId volId tail).imageOn d0) (16 * bs) fuel =
      some ((w.image fin bs o sysId volId tail).pvd, (w.ptree fin (w.loc fin bs o) (w.size fin bs)).walk fuel [] 0) :=
  compose_reader_lim w order fin bs o sysId volId tail hbs hbs16 hok hr hlim hs hv ht d0 fuel hfit

/-- `Limits` is satisfiable: the concrete workspace above -/
example : ws.Limits wsFin 2048 wsO :=
  { total := by decide +kernel
    files := by intro f hf; simp only [wsO, List.mem_cons, List.not_mem_nil, or_false] at hf; rcases hf with rfl | rfl <;> decide
    kids := by intro d hd; simp only [wsO, List.mem_cons, List.not_mem_nil, or_false] at hd; rcases hd with rfl | rfl <;> decide
    ptLen := by decide
    ptIn := by intro d hd; simp only [wsO, List.mem_cons, List.not_mem_nil, or_false] at hd; rcases hd with rfl | rfl <;> decide }

/-- **workspace_entries_listed** (the statement of C06 for one entry): under the hypotheses of
    `workspace_roundtrip`, for EVERY entry of the workspace reached from the root by a chain of at most
    `fuel` children (each but the last a directory), the reader's listing of the image contains that entry
    under the path made of the mapped identifiers along the chain, with its kind, the extent and size the
    layout gave it, and — for a file — exactly its bytes. -/
theorem workspace_entries_listed (w : WTree) (order : Nat → List Nm) (fin : Nat → Nat → Nm) (bs : Nat) (o : Order)
    (sysId volId tail : Bytes) (d0 : Dev) (fuel : Nat)
    (hbs : 2048 ≤ bs) (hbs16 : bs < 2 ^ 16) (hok : w.OK o) (hr : w.Resolved order fin)
    (hlim : w.total fin bs o * bs < 2 ^ 32) (hs : sysId.length = 32) (hv : volId.length = 32) (ht : tail.length = 1858)
    (hfit : w.Fits fuel 0) (chain : List Nat) (hne : chain ≠ []) (hch : w.Chain 0 chain) (hl : chain.length ≤ fuel) :
    ∃ es, readImageP ((w.image fin bs o sysId volId tail).imageOn d0) (16 * bs) fuel =
        some ((w.image fin bs o sysId volId tail).pvd, es) ∧
      ({ path := chain.map (w.ident fin), isDir := w.isDir (chain.getLast hne), loc := w.loc fin bs o (chain.getLast hne),
         size := w.size fin bs (chain.getLast hne),
         data := if w.isDir (chain.getLast hne) then [] else w.content (chain.getLast hne) } : RE) ∈ es :=
  compose_lists w order fin bs o sysId volId tail hbs hbs16 hok hr hlim hs hv ht d0 fuel hfit chain hne hch hl

/-- for the concrete workspace: D/B.;1 is listed at block 23 with its byte -/
example : ∃ es, readImageP ((ws.image wsFin 2048 wsO (zeros 32) (zeros 32) (zeros 1858)).imageOn (fun _ => 255)) (16 * 2048) 3 =
      some ((ws.image wsFin 2048 wsO (zeros 32) (zeros 32) (zeros 1858)).pvd, es) ∧
    ({ path := [[68], [66, 46, 59, 49]], isDir := false, loc := 23, size := 1, data := [9] } : RE) ∈ es := by
  have h := workspace_entries_listed ws (fun _ => []) wsFin 2048 wsO (zeros 32) (zeros 32) (zeros 1858) (fun _ => 255) 3
    (by decide) (by decide) wsOK wsRes (by decide +kernel) (by simp) (by simp) (by simp) wsFits [2, 3] (by simp)
    (by simp [WTree.Chain, ws]) (by decide)
  obtain ⟨es, h1, h2⟩ := h
  refine ⟨es, h1, ?_⟩
  have e : RE.mk ([2, 3].map (ws.ident wsFin)) (ws.isDir 3) (ws.loc wsFin 2048 wsO 3) (ws.size wsFin 2048 3)
      (if ws.isDir 3 then [] else ws.content 3) = RE.mk [[68], [66, 46, 59, 49]] false 23 1 [9] := by decide +kernel
  rw [← e]
  exact h2

end Diskfs.Iso.C06
