/-
  C06 — An ISO9660 image contains exactly the tree it was built from.
  Property theorems only (helpers in Proofs/IsoNames, IsoLayout, IsoCodec).  What is proved here,
  for all inputs, about the logic cores mirrored in Model/Iso:
    * names: the 8.3 mapping always yields a valid 8.3 name, and collision resolution — for EVERY
      order in which the collision groups are processed (the Go code ranges over a map) — ends with
      pairwise distinct, valid names whenever it succeeds;
    * layout: every extent Finalize assigns (directories + continuation blocks, both path tables,
      file extents, Joliet directories and path tables) lies after the descriptor set, inside the
      declared volume size, and no two overlap; a block count covers its byte size; inside a
      directory extent no record crosses a block boundary and records do not overlap;
    * a directory extent read back by the reader's loop gives exactly the records laid out;
    * codecs: directory record, both-endian field and path table (L and M) encoders are inverted
      by the decoders.
  The end-to-end clause (the real reader shows the real tree) is evaluated on the real code by the
  engine's oracles and by the Lean reader of Model/Iso/Reader on real image bytes; it is not a
  theorem (see the registration note).
-/
import DiskfsModel.Proofs.IsoNames
import DiskfsModel.Proofs.IsoLayout
import DiskfsModel.Proofs.IsoCodec
import DiskfsModel.Proofs.IsoExtent
import DiskfsModel.Generated.Iso
namespace Diskfs.Iso.C06

/-- `calculateShortnameExtension` always produces a valid 8.3 name (for any code points) -/
theorem short_name_valid (name : Str) (isDir : Bool) : Valid83 (entryName name isDir) :=
  entryName_valid name isDir

/-- Collision resolution is injective for every processing order: if `resolveAll` succeeds on a
    directory of `n` entries whose groups with more than one member all occur in `order` (in any
    order, any number of times), the resulting names are pairwise distinct and all valid 8.3. -/
theorem resolve_injective (n : Nat) (orig : Nat → Nm) (order : List Nm) (fin : Nat → Nm)
    (hv : ∀ i, i < n → Valid83 (orig i))
    (hcover : ∀ i, i < n → 1 < (members n orig (orig i)).length → orig i ∈ order)
    (h : resolveAll n orig order orig = some fin) :
    (∀ i j, i < n → j < n → i ≠ j → fin i ≠ fin j) ∧ (∀ i, i < n → Valid83 (fin i)) := by
  have inv := inv_all n orig hv order orig fin [] (inv_init n orig hv) h
  refine ⟨?_, inv.valid⟩
  intro i j hi hj hij
  apply inv.uniq i j hi hj hij
  by_cases hm : 1 < (members n orig (orig i)).length
  · left; simp [hcover i hi hm]
  · right; omega

/-- entries whose group is not processed keep their name (so a harmless order change moves numbers
    only inside groups) -/
theorem resolve_frame (n : Nat) (orig : Nat → Nm) (order : List Nm) (fin : Nat → Nm)
    (hv : ∀ i, i < n → Valid83 (orig i)) (h : resolveAll n orig order orig = some fin)
    (i : Nat) (hi : i < n) (hn : orig i ∉ order) : fin i = orig i := by
  have inv := inv_all n orig hv order orig fin [] (inv_init n orig hv) h
  exact inv.unch i hi (by simpa using hn)

/-- no two extents of the layout overlap: they are in increasing order, each ending where or
    before the next begins -/
theorem layout_disjoint (l : LayoutIn) : l.extents.Pairwise (fun a b => a.1 + a.2 ≤ b.1) :=
  seqAlloc_pairwise _ _

/-- every extent lies after the volume descriptor set and inside the declared volume size -/
theorem layout_inside (l : LayoutIn) :
    ∀ e ∈ l.extents, dataStartSector + 2 ≤ e.1 ∧ e.1 + e.2 ≤ l.total := by
  intro e he
  have := seqAlloc_inside l.rootLoc l.items e he
  unfold LayoutIn.total
  unfold LayoutIn.rootLoc at this ⊢
  omega

/-- one extent per item: nothing is dropped -/
theorem layout_complete (l : LayoutIn) : l.extents.length = l.items.length := seqAlloc_length _ _

/-- the block count Finalize reserves holds the bytes, with less than one block to spare -/
theorem blocks_cover (size bs : Nat) (h : 0 < bs) :
    size ≤ blocksFor size bs * bs ∧ blocksFor size bs * bs < size + bs := blocksFor_covers size bs h

/-- inside a directory extent no record (of at most one block) crosses a block boundary -/
theorem dir_records_no_cross (bs : Nat) (hbs : 0 < bs) (rs : List Nat) (acc : Nat)
    (hr : ∀ r ∈ rs, 0 < r ∧ r ≤ bs) :
    ∀ p ∈ dirOffsets bs rs acc, p.1 / bs = (p.1 + p.2 - 1) / bs := dirOffsets_no_cross bs hbs rs acc hr

/-- records follow each other without overlap and the computed directory size is their end -/
theorem dir_records_ordered (bs : Nat) (rs : List Nat) (acc : Nat) :
    (∀ p ∈ dirOffsets bs rs acc, acc ≤ p.1 ∧ p.1 + p.2 ≤ dirSize bs rs acc) ∧
    (dirOffsets bs rs acc).Pairwise (fun a b => a.1 + a.2 ≤ b.1) :=
  ⟨(dirOffsets_ordered bs rs acc).1, (dirOffsets_ordered bs rs acc).2.1⟩

/-- reading a directory extent back (`parseDirEntries`: a zero length byte means "continue at the
    next block") returns exactly the records that were laid out, in order, for any records that
    start with their own length and fit a block — the directory-level core of
    `reader_finds_layout` -/
theorem dir_extent_roundtrip (bs : Nat) (hbs : 0 < bs) (rs : List Bytes) (hr : ∀ r ∈ rs, RecOK bs r) :
    parseExtent bs (2 * rs.length + 1) 0 (encodeExtent bs rs) = rs := by
  have := parse_encSuffix bs hbs rs hr [] (2 * rs.length + 1) (by omega)
  simpa [encodeExtent] using this

/-- both-endian 32-bit fields round-trip and their halves agree -/
theorem both_endian_roundtrip (n : Nat) (h : n < 2 ^ 32) : unboth 4 (both32 n) = some n := unboth_both32 n h

/-- directory record codec round-trip (all extents/sizes below 2^32, names up to 221 bytes) -/
theorem dir_record_roundtrip (r : DirRec) (hl : r.loc < 2 ^ 32) (hs : r.size < 2 ^ 32)
    (hd : r.date.length = 7) (hn : r.name.length < 222) : decodeRec (encodeRec r) = some r :=
  decode_encodeRec r hl hs hd hn

/-- path table codec round-trip, little- and big-endian form, for any number of records -/
theorem pathtable_roundtrip (big : Bool) (rs : List PtRec) (h : ∀ r ∈ rs, r.WF) :
    decodePtTable big (rs.length + 1) (encodePtTable big rs) = some rs := decode_encodePtTable big rs h

/-- pinned facts regenerated from finalize.go: the data start sector, the length limits tested in
    `calculateShortnameExtension` (1 = the SplitN test, 3 = extension, 8 = base name) and the digit
    limit of the loop in `resolveCollisionGroup`, found by shape so that renaming locals is harmless -/
theorem facts_agree_constants :
    Generated.Iso.dataStartSector = dataStartSector ∧ Generated.Iso.truncBounds = [1, 3, 8] ∧
    Generated.Iso.digitLoopBounds = [8] := by decide

/-! non-vacuity: concrete instances meeting the hypotheses -/
-- three entries that all truncate to LONGFILE.TXT plus one that already occupies the first candidate
private def exL : Str := [76, 79, 78, 71, 70, 73, 76, 69]   -- LONGFILE
private def exT : Str := [84, 88, 84]                        -- TXT
private def ex : Nat → Nm := fun i => if i < 3 then (exL, exT) else ([76, 79, 78, 71, 70, 73, 76, 48], exT)
example : ((resolveAll 4 ex [ex 0] ex).map fun f => (List.range 4).map f) =
    some [([76, 79, 78, 71, 70, 73, 76, 49], exT), ([76, 79, 78, 71, 70, 73, 76, 50], exT),
          ([76, 79, 78, 71, 70, 73, 76, 51], exT), ([76, 79, 78, 71, 70, 73, 76, 48], exT)] := by decide +kernel
example : shortExt [114, 101, 97, 100, 109, 101, 45, 102, 105, 114, 115, 116, 46, 109, 97, 114, 107, 100, 111, 119, 110] =
    ([82, 69, 65, 68, 77, 69, 95, 70], [77, 65, 82]) := by decide   -- readme-first.markdown → README_F.MAR
example : (({ extraVD := 1, dirBlocks := [1, 2], ptBlocks := 1, fileBlocks := [0, 3, 1], joliet := true,
              jdirBlocks := [1, 1], jptBlocks := 1 } : LayoutIn).extents) =
    [(19, 1), (20, 2), (22, 1), (23, 1), (24, 0), (24, 3), (27, 1), (28, 1), (29, 1), (30, 1), (31, 1)] := by decide
private def exRec : DirRec :=
  { loc := 23, size := 5000, date := [126, 9, 23, 12, 0, 0, 0], flags := 0, name := [65, 46, 84, 88, 84, 59, 49] }
example : decodeRec (encodeRec exRec) = some exRec := by decide
example : parseExtent 8 7 0 (encodeExtent 8 [[3, 1, 2], [4, 9, 9, 9], [2, 7]]) = [[3, 1, 2], [4, 9, 9, 9], [2, 7]] := by decide
example : encodeExtent 8 [[3, 1, 2], [4, 9, 9, 9], [6, 7, 7, 7, 7, 7]] = [3, 1, 2, 4, 9, 9, 9, 0, 6, 7, 7, 7, 7, 7] := by decide
-- the Go rule also pads when a record would end exactly on the block boundary
example : dirOffsets 2048 [100, 1900, 48, 2000, 48] 0 = [(0, 100), (100, 1900), (2048, 48), (4096, 2000), (6144, 48)] := by decide

end Diskfs.Iso.C06
