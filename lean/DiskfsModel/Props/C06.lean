/-
  C06 — An ISO9660 image contains exactly the tree it was built from.
  Property theorems only (helpers in Proofs/IsoNames, IsoLayout, IsoCodec).  What is proved here,
  for all inputs, about the logic cores mirrored in Model/Iso:
    * names: the 8.3 mapping always yields a valid 8.3 name, and collision resolution — for EVERY
      order in which the collision groups are processed (the Go code ranges over a map) — ends with
      pairwise distinct, valid names whenever it succeeds;
    * layout: every extent Finalize assigns (directories + continuation blocks, both path tables,
      file extents, Joliet directories and path tables) lies after the descriptor set, inside the
      declared volume size, and no two overlap; a block count covers its byte size; inside a
      directory extent no record crosses a block boundary and records do not overlap;
    * a directory extent read back by the reader's loop gives exactly the records laid out;
    * codecs: directory record, both-endian field and path table (L and M) encoders are inverted
      by the decoders.
    * whole image, plain configuration (no Rock Ridge, no Joliet): `pvd_roundtrip`; on any image
      that shows a tree the reader returns exactly that tree (`reader_walks_tree`); the writes of
      Finalize placed by the layout are pairwise disjoint (`placement_disjoint`) and therefore read
      back (`disjoint_writes_read_back`); together: `reader_finds_layout`.
  The end-to-end clause about the REAL reader and writer (Rock Ridge / Joliet included) is evaluated
  on the real code by the engine's oracles; the model's image encoder and pure reader are tied to
  real plain images by the correspondence run (see the registration note).
-/
import DiskfsModel.Proofs.IsoNames
import DiskfsModel.Proofs.IsoLayout
import DiskfsModel.Proofs.IsoCodec
import DiskfsModel.Proofs.IsoExtent
import DiskfsModel.Proofs.IsoImage
import DiskfsModel.Proofs.IsoWrites
import DiskfsModel.Proofs.IsoSusp
import DiskfsModel.Generated.Iso
namespace Diskfs.Iso.C06

/-- `calculateShortnameExtension` always produces a valid 8.3 name (for any code points) -/
theorem short_name_valid (name : Str) (isDir : Bool) : Valid83 (entryName name isDir) :=
  entryName_valid name isDir

/-- Collision resolution is injective for every processing order: if `resolveAll` succeeds on a
    directory of `n` entries whose groups with more than one member all occur in `order` (in any
    order, any number of times), the resulting names are pairwise distinct and all valid 8.3. -/
theorem resolve_injective (n : Nat) (orig : Nat → Nm) (order : List Nm) (fin : Nat → Nm)
    (hv : ∀ i, i < n → Valid83 (orig i))
    (hcover : ∀ i, i < n → 1 < (members n orig (orig i)).length → orig i ∈ order)
    (h : resolveAll n orig order orig = some fin) :
    (∀ i j, i < n → j < n → i ≠ j → fin i ≠ fin j) ∧ (∀ i, i < n → Valid83 (fin i)) := by
  have inv := inv_all n orig hv order orig fin [] (inv_init n orig hv) h
  refine ⟨?_, inv.valid⟩
  intro i j hi hj hij
  apply inv.uniq i j hi hj hij
  by_cases hm : 1 < (members n orig (orig i)).length
  · left; simp [hcover i hi hm]
  · right; omega

/-- entries whose group is not processed keep their name (so a harmless order change moves numbers
    only inside groups) -/
theorem resolve_frame (n : Nat) (orig : Nat → Nm) (order : List Nm) (fin : Nat → Nm)
    (hv : ∀ i, i < n → Valid83 (orig i)) (h : resolveAll n orig order orig = some fin)
    (i : Nat) (hi : i < n) (hn : orig i ∉ order) : fin i = orig i := by
  have inv := inv_all n orig hv order orig fin [] (inv_init n orig hv) h
  exact inv.unch i hi (by simpa using hn)

/-- no two extents of the layout overlap: they are in increasing order, each ending where or
    before the next begins -/
theorem layout_disjoint (l : LayoutIn) : l.extents.Pairwise (fun a b => a.1 + a.2 ≤ b.1) :=
  seqAlloc_pairwise _ _

/-- every extent lies after the volume descriptor set and inside the declared volume size -/
theorem layout_inside (l : LayoutIn) :
    ∀ e ∈ l.extents, dataStartSector + 2 ≤ e.1 ∧ e.1 + e.2 ≤ l.total := by
  intro e he
  have := seqAlloc_inside l.rootLoc l.items e he
  unfold LayoutIn.total
  unfold LayoutIn.rootLoc at this ⊢
  omega

/-- one extent per item: nothing is dropped -/
theorem layout_complete (l : LayoutIn) : l.extents.length = l.items.length := seqAlloc_length _ _

/-- the block count Finalize reserves holds the bytes, with less than one block to spare -/
theorem blocks_cover (size bs : Nat) (h : 0 < bs) :
    size ≤ blocksFor size bs * bs ∧ blocksFor size bs * bs < size + bs := blocksFor_covers size bs h

/-- inside a directory extent no record (of at most one block) crosses a block boundary -/
theorem dir_records_no_cross (bs : Nat) (hbs : 0 < bs) (rs : List Nat) (acc : Nat)
    (hr : ∀ r ∈ rs, 0 < r ∧ r ≤ bs) :
    ∀ p ∈ dirOffsets bs rs acc, p.1 / bs = (p.1 + p.2 - 1) / bs := dirOffsets_no_cross bs hbs rs acc hr

/-- records follow each other without overlap and the computed directory size is their end -/
theorem dir_records_ordered (bs : Nat) (rs : List Nat) (acc : Nat) :
    (∀ p ∈ dirOffsets bs rs acc, acc ≤ p.1 ∧ p.1 + p.2 ≤ dirSize bs rs acc) ∧
    (dirOffsets bs rs acc).Pairwise (fun a b => a.1 + a.2 ≤ b.1) :=
  ⟨(dirOffsets_ordered bs rs acc).1, (dirOffsets_ordered bs rs acc).2.1⟩

/-- reading a directory extent back (`parseDirEntries`: a zero length byte means "continue at the
    next block") returns exactly the records that were laid out, in order, for any records that
    start with their own length and fit a block — the directory-level core of
    `reader_finds_layout` -/
theorem dir_extent_roundtrip (bs : Nat) (hbs : 0 < bs) (rs : List Bytes) (hr : ∀ r ∈ rs, RecOK bs r) :
    parseExtent bs (2 * rs.length + 1) 0 (encodeExtent bs rs) = rs := by
  have := parse_encSuffix bs hbs rs hr [] (2 * rs.length + 1) (by omega)
  simpa [encodeExtent] using this

/-- both-endian 32-bit fields round-trip and their halves agree -/
theorem both_endian_roundtrip (n : Nat) (h : n < 2 ^ 32) : unboth 4 (both32 n) = some n := unboth_both32 n h

/-- directory record codec round-trip (all extents/sizes below 2^32, names up to 221 bytes) -/
theorem dir_record_roundtrip (r : DirRec) (hl : r.loc < 2 ^ 32) (hs : r.size < 2 ^ 32)
    (hd : r.date.length = 7) (hn : r.name.length < 222) : decodeRec (encodeRec r) = some r :=
  decode_encodeRec r hl hs hd hn

/-- path table codec round-trip, little- and big-endian form, for any number of records -/
theorem pathtable_roundtrip (big : Bool) (rs : List PtRec) (h : ∀ r ∈ rs, r.WF) :
    decodePtTable big (rs.length + 1) (encodePtTable big rs) = some rs := decode_encodePtTable big rs h

/-- pinned facts regenerated from finalize.go: the data start sector, the length limits tested in
    `calculateShortnameExtension` (1 = the SplitN test, 3 = extension, 8 = base name) and the digit
    limit of the loop in `resolveCollisionGroup`, found by shape so that renaming locals is harmless -/
theorem facts_agree_constants :
    Generated.Iso.dataStartSector = dataStartSector ∧ Generated.Iso.truncBounds = [1, 3, 8] ∧
    Generated.Iso.digitLoopBounds = [8] := by decide

/-! non-vacuity: concrete instances meeting the hypotheses -/
-- three entries that all truncate to LONGFILE.TXT plus one that already occupies the first candidate
private def exL : Str := [76, 79, 78, 71, 70, 73, 76, 69]   -- LONGFILE
private def exT : Str := [84, 88, 84]                        -- TXT
private def ex : Nat → Nm := fun i => if i < 3 then (exL, exT) else ([76, 79, 78, 71, 70, 73, 76, 48], exT)
example : ((resolveAll 4 ex [ex 0] ex).map fun f => (List.range 4).map f) =
    some [([76, 79, 78, 71, 70, 73, 76, 49], exT), ([76, 79, 78, 71, 70, 73, 76, 50], exT),
          ([76, 79, 78, 71, 70, 73, 76, 51], exT), ([76, 79, 78, 71, 70, 73, 76, 48], exT)] := by decide +kernel
example : shortExt [114, 101, 97, 100, 109, 101, 45, 102, 105, 114, 115, 116, 46, 109, 97, 114, 107, 100, 111, 119, 110] =
    ([82, 69, 65, 68, 77, 69, 95, 70], [77, 65, 82]) := by decide   -- readme-first.markdown → README_F.MAR
example : (({ extraVD := 1, dirBlocks := [1, 2], ptBlocks := 1, fileBlocks := [0, 3, 1], joliet := true,
              jdirBlocks := [1, 1], jptBlocks := 1 } : LayoutIn).extents) =
    [(19, 1), (20, 2), (22, 1), (23, 1), (24, 0), (24, 3), (27, 1), (28, 1), (29, 1), (30, 1), (31, 1)] := by decide
private def exRec : DirRec :=
  { loc := 23, size := 5000, date := [126, 9, 23, 12, 0, 0, 0], flags := 0, name := [65, 46, 84, 88, 84, 59, 49] }
example : decodeRec (encodeRec exRec) = some exRec := by decide
example : parseExtent 8 7 0 (encodeExtent 8 [[3, 1, 2], [4, 9, 9, 9], [2, 7]]) = [[3, 1, 2], [4, 9, 9, 9], [2, 7]] := by decide
example : encodeExtent 8 [[3, 1, 2], [4, 9, 9, 9], [6, 7, 7, 7, 7, 7]] = [3, 1, 2, 4, 9, 9, 9, 0, 6, 7, 7, 7, 7, 7] := by decide
-- the Go rule also pads when a record would end exactly on the block boundary
example : dirOffsets 2048 [100, 1900, 48, 2000, 48] 0 = [(0, 100), (100, 1900), (2048, 48), (4096, 2000), (6144, 48)] := by decide

/-! ## whole image, plain configuration -/

/-- **pvd_roundtrip.**  The primary volume descriptor decodes from the 2048 bytes `toBytes`
    produces to the same fields: volume size, set size, sequence number and block size (both-endian,
    halves agreeing), path table size and the four path table locations (L little-endian, M
    big-endian), the 34-byte root directory record, the two identifiers and the rest of the sector -/
theorem pvd_roundtrip (p : PVD) (h : p.WF) : decodePVD (encodePVD p) = some p ∧ (encodePVD p).length = 2048 :=
  ⟨decode_encodePVD p h, encodePVD_length p h⟩

/-- **the reader walks the tree** (the compositional core of `reader_finds_layout`): on ANY image
    that shows a well-formed tree — each directory's extent holds `encodeExtent` of its self, parent
    and children records, each file's extent holds its contents — the reader started on a directory's
    extent returns exactly the depth-first listing below it: paths made of the stored identifiers,
    kinds, extents, sizes and file contents.  Built from `dir_extent_roundtrip` (record loop),
    `dir_record_roundtrip` (every record) and induction over the nesting depth. -/
theorem reader_walks_tree (img : Dev) (bs : Nat) (hbs : 255 ≤ bs) (t : PTree) (hwf : t.WF) (hh : Holds img bs t)
    (fuel : Nat) (pre : List Bytes) (d : Nat) (hd : d < t.n) (hdir : (t.ent d).isDir = true) (hfit : t.Fits fuel d) :
    readDirP img bs fuel pre (t.ent d).loc (t.ent d).size = some (t.walk fuel pre d) :=
  readDirP_walk img bs hbs t hwf hh fuel pre d hd hdir hfit

/-- writes whose byte ranges are pairwise disjoint all read back as written, whatever their order -/
theorem disjoint_writes_read_back (d : Dev) (ws : List Wr) (hd : ws.Pairwise WrDisjoint) :
    ∀ w ∈ ws, readAt (applyWrs d ws) w.off w.data.length = w.data := applyWrs_read_back d ws hd

/-- the sequential placement of Finalize (`location += blocks`, root directory at block 18) is the
    layout of `layout_disjoint` / `layout_inside` (`seqAlloc` over the pieces' block counts), and it
    makes all WriteAt calls of a plain image — system area, directory extents, both path tables,
    file contents with their zero fill, PVD at sector 16, terminator at sector 17 — pairwise
    disjoint, for every block size of at least 2048 -/
theorem placement_disjoint (i : ImageIn) (hbs : 2048 ≤ i.bs) (hp : i.pvd.WF) (hpl : i.Placed) :
    i.writes.Pairwise WrDisjoint ∧
    i.mid.map (·.off) = (seqAlloc (dataStartSector + 2) ((i.mid.map (·.data)).map fun b => blocksFor b.length i.bs)).map (fun e => e.1 * i.bs) :=
  ⟨placed_writes_disjoint i hbs hp hpl, by rw [← seqWr_offsets]; exact congrArg _ hpl⟩

/-- **reader_finds_layout** (plain configuration: no Rock Ridge, no Joliet, no El Torito).
    Take any tree with resolved identifiers whose locations are the ones the layout assigns
    (`Placed`), write what Finalize writes (`ImageIn.writes`) onto a blank device in that order,
    and start the reader at sector 16: it returns the primary volume descriptor that was written
    and the whole tree — every path, kind, extent, size and every file's bytes.
    Hypotheses, all of them: block size ≥ 2048; the tree is well formed (children and parents are
    entries, locations and sizes below 2^32, 7-byte dates, identifiers shorter than 222 bytes);
    the PVD is well formed, carries this block size and the root's self record; entry 0 is a
    directory; every directory / file of the tree is in the layout lists; a directory's recorded
    size is the length of its encoded extent and a file's its content length; the locations are
    `Placed`; the nesting depth is at most `fuel`. -/
theorem reader_finds_layout (i : ImageIn) (fuel : Nat) (hbs : 2048 ≤ i.bs) (hwf : i.t.WF) (hp : i.pvd.WF)
    (hpbs : i.pvd.blocksize = i.bs) (hroot : i.pvd.root = i.t.selfRec 0) (h0 : 0 < i.t.n)
    (hrd : (i.t.ent 0).isDir = true)
    (hdirs : ∀ d, d < i.t.n → (i.t.ent d).isDir = true → d ∈ i.dirs)
    (hfiles : ∀ c, c < i.t.n → (i.t.ent c).isDir = false → c ∈ i.files)
    (hsz : ∀ d ∈ i.dirs, (i.t.ent d).size = (i.t.dirBytes i.bs d).length)
    (hfsz : ∀ f ∈ i.files, (i.t.ent f).size = (i.t.ent f).content.length)
    (hpl : i.Placed) (hfit : i.t.Fits fuel 0) :
    readImageP i.image (16 * i.bs) fuel = some (i.pvd, i.t.walk fuel [] 0) :=
  reader_on_image i fuel (by omega) hwf hp hpbs hroot h0 hrd hdirs hfiles hsz hfsz
    (placed_writes_disjoint i hbs hp hpl) hfit


/-- **the Go write sequence refines the coarse one**: `copyFileData` issues one WriteAt per 2048-byte
    chunk of a file (every chunk, also one that holds only zeros) and Finalize then zero-fills the
    last block; on EVERY device contents `d` that sequence (`ImageIn.writesGo`) leaves exactly what
    the one-write-per-file list of `reader_finds_layout` leaves -/
theorem go_writes_refine (i : ImageIn) (d : Dev) : applyWrs d i.writesGo = applyWrs d i.writes :=
  writesGo_apply i d

/-- **reader_finds_layout on a device that held anything before** (recycled image file, used
    partition, erased flash): with the WriteAt calls as the Go code issues them (`writesGo`) onto
    ANY prior contents `d0`, the reader started at sector 16 returns the descriptor written and the
    whole tree with every file's bytes — nothing the reader sees depends on `d0`.  Hypotheses as in
    `reader_finds_layout`. -/
theorem reader_finds_layout_any_device (i : ImageIn) (d0 : Dev) (fuel : Nat) (hbs : 2048 ≤ i.bs) (hwf : i.t.WF)
    (hp : i.pvd.WF) (hpbs : i.pvd.blocksize = i.bs) (hroot : i.pvd.root = i.t.selfRec 0) (h0 : 0 < i.t.n)
    (hrd : (i.t.ent 0).isDir = true)
    (hdirs : ∀ d, d < i.t.n → (i.t.ent d).isDir = true → d ∈ i.dirs)
    (hfiles : ∀ c, c < i.t.n → (i.t.ent c).isDir = false → c ∈ i.files)
    (hsz : ∀ d ∈ i.dirs, (i.t.ent d).size = (i.t.dirBytes i.bs d).length)
    (hfsz : ∀ f ∈ i.files, (i.t.ent f).size = (i.t.ent f).content.length)
    (hpl : i.Placed) (hfit : i.t.Fits fuel 0) :
    readImageP (i.imageOn d0) (16 * i.bs) fuel = some (i.pvd, i.t.walk fuel [] 0) :=
  reader_on_image_on i d0 fuel (by omega) hwf hp hpbs hroot h0 hrd hdirs hfiles hsz hfsz
    (placed_writes_disjoint i hbs hp hpl) hfit

/-- every WriteAt of that sequence ends inside the declared volume (`volBlocks` = `totalSize`), so the
    device keeps its old bytes from there on (C03 states the same for its range clause) -/
theorem go_writes_inside_volume (i : ImageIn) (d0 : Dev) (hbs : 2048 ≤ i.bs) (hp : i.pvd.WF) (hpl : i.Placed) :
    (∀ w ∈ i.writesGo, w.off + w.data.length ≤ i.volBlocks * i.bs) ∧
    ∀ j, i.volBlocks * i.bs ≤ j → i.imageOn d0 j = d0 j :=
  ⟨writesGo_in_volume i hbs hp hpl, imageOn_frame i d0 hbs hp hpl⟩

/-! ## reading side: system use areas and Joliet names (Model/Iso/Susp.lean) -/

/-- **Rock Ridge names of any length survive**: `rockRidgeName.Bytes` cuts a name into NM entries of
    at most 249 name bytes (all but the last flagged "continued"); for EVERY non-empty name, the
    loop of `parseDirectoryEntryExtensions` over those bytes (followed by padding or by fewer than 4
    bytes) finds exactly these entries, each parses as an NM entry, and `GetFilename` (fix 6806b9b:
    all entries up to the first that is not continued) returns the name -/
theorem nm_roundtrip (name tail : Bytes) (hn : name ≠ []) (ht : tail.length ≤ 3 ∨ (tail.getD 2 0).toNat < 4) :
    ∃ ps, suspSplit (nmBytes name ++ tail).length (nmBytes name ++ tail) = some (nmEntries name.length name) ∧
      parseAll (nmEntries name.length name) = some ps ∧ getFilename ps = some name :=
  nm_area_roundtrip name tail hn ht

/-- the splitting loop inverts concatenation for any well-formed entries (length byte = length, 4..255) -/
theorem susp_split_roundtrip (es : List Bytes) (tail : Bytes) (hes : ∀ e ∈ es, EntOK e)
    (ht : tail.length ≤ 3 ∨ (tail.getD 2 0).toNat < 4) (fuel : Nat) (hf : es.length ≤ fuel) :
    suspSplit fuel (es.flatten ++ tail) = some es := suspSplit_flatten es tail hes ht fuel hf

/-- **continuation areas keep inside their room under the repaired rule** (`reserve = true`: an
    extension stays in an area only if everything left fits or the 28-byte CE entry still fits
    behind it): for any extensions, any room of at least 28 bytes and any continuation blocks, the
    record's area is at most `maxSize` bytes and every continuation area at most one block -/
theorem ce_areas_fit (bs : Nat) (hbs : ceSize ≤ bs) (fuel : Nat) (exts : List Bytes) (maxSize : Nat) (ce : List Nat)
    (areas : List Bytes) (hmax : ceSize ≤ maxSize) (h : assemble true bs fuel exts maxSize ce = some areas) :
    ∃ a rest, areas = a :: rest ∧ a.length ≤ maxSize ∧ ∀ x ∈ rest, x.length ≤ bs :=
  assemble_reserve_fits bs hbs fuel exts maxSize ce areas hmax h

private def ext20 : Bytes := [90, 90, 20, 1] ++ zeros 16
/-- … and the code as found (`reserve = false`) does not: four extensions of 20 bytes and 60 bytes of
    room give an area of 88 bytes — in a directory record this is how the length byte wraps
    (recorded finding iso-rr-ce-record-overflow); the repaired rule leaves 48 bytes in the record and 60 in the area -/
theorem ce_overflow_as_found :
    (assemble false 2048 10 [ext20, ext20, ext20, ext20] 60 [50, 51]).map (·.map (·.length)) = some [88, 20] ∧
    (assemble true 2048 10 [ext20, ext20, ext20, ext20] 60 [50, 51]).map (·.map (·.length)) = some [48, 60] := by decide

/-- **Joliet names round-trip** for code points of the Basic Multilingual Plane that are no
    surrogates: `bytesToUCS2String (ucs2StringToBytes s) = s` (beyond the BMP the encoder drops the
    high bits: recorded finding iso-joliet-nonbmp-name, counterexample below) -/
theorem ucs2_roundtrip (cps : List Nat) (h : ∀ c ∈ cps, c < 65536 ∧ ¬ (55296 ≤ c ∧ c ≤ 57343)) :
    ucs2Dec (ucs2Enc cps) = cps := ucs2_dec_enc cps h

/-! non-vacuity / witnesses -/
example : ucs2Dec (ucs2Enc [97, 128512]) = [97, 62976] := by decide   -- a😀 comes back as a + U+F600
example : ucs2Dec (ucs2Enc [228, 26085, 65]) = [228, 26085, 65] := by decide
-- a name of 5 bytes: one NM entry; the reader finds it behind a PX-like entry and before padding
example : (parseArea ([80, 88, 4, 1] ++ nmBytes [97, 98, 99, 100, 101] ++ [0])).bind getFilename = some [97, 98, 99, 100, 101] := by decide
-- a symlink target in two SL entries is joined by ReadLink; a CE entry is followed by `collect`
example : readLink [.sl true [97], .nm false false false [120], .sl false [98, 47, 99]] = some [97, 47, 98, 47, 99] := by decide
example : readSusp (fun loc _ _ => if loc = 50 then nmBytes [120, 121] else []) (ceEntry 50 0 7) =
    some [.nm false false false [120, 121]] := by decide
-- path table lookup (fix 80ad899): /B/C is record 4 (parent = record 3), not the C below A
example : ptLookup [⟨[0], 18, 1⟩, ⟨[65], 19, 1⟩, ⟨[66], 20, 1⟩, ⟨[67], 21, 2⟩, ⟨[67], 22, 3⟩] [[66], [67]] = 22 := by decide

/-! non-vacuity of `reader_finds_layout`: a root directory holding one file, 2048-byte blocks -/

private def imDate : Bytes := [126, 1, 1, 0, 0, 0, 0]
private def imT : PTree :=
  { n := 2
    ent := fun i => if i = 0 then { name := [0], isDir := true, loc := 18, size := 104, date := imDate, content := [] }
                    else { name := [65, 59, 49], isDir := false, loc := 21, size := 3, date := imDate, content := [7, 7, 7] }
    kids := fun d => if d = 0 then [1] else []
    parent := fun _ => 0 }
private def imI : ImageIn :=
  { t := imT, bs := 2048, dirs := [0], files := [1]
    pvd := { sysId := zeros 32, volId := zeros 32, volSize := 22, setSize := 1, seqNo := 1, blocksize := 2048, ptSize := 10,
             ptL := 19, ptLopt := 0, ptM := 20, ptMopt := 0, root := imT.selfRec 0, tail := zeros 1858 }
    ptLBytes := [1, 0, 18, 0, 0, 0, 1, 0, 0, 0], ptMBytes := [1, 0, 0, 0, 0, 18, 0, 1, 0, 0] }

private theorem imLen : (imT.dirBytes 2048 0).length = 104 := by decide

private theorem imPlaced : imI.Placed := by
  apply placed_of_offsets
  simp only [ImageIn.mid, imI, List.map_cons, List.map_nil, List.cons_append, List.nil_append, padBlock_length, imLen]
  simp [seqAlloc, blocksFor, dataStartSector, imT]

private theorem imWF : imT.WF := by
  refine ⟨?_, ?_, ?_⟩
  · intro d hd c hc
    have : d = 0 ∨ d = 1 := by simp [imT] at hd; omega
    rcases this with rfl | rfl <;> simp [imT] at hc ⊢
    omega
  · intro d _; simp [imT]
  · intro c hc
    have : c = 0 ∨ c = 1 := by simp [imT] at hc; omega
    rcases this with rfl | rfl <;> simp [imT, imDate]

/-- the hypotheses of `reader_finds_layout` are satisfiable: a root directory with one file -/
example : readImageP imI.image (16 * 2048) 2 = some (imI.pvd, imT.walk 2 [] 0) := by
  refine reader_finds_layout imI 2 (by decide) imWF ?_ rfl rfl (by decide) rfl ?_ ?_ ?_ ?_ imPlaced ?_
  · simp [PVD.WF, imI, imT, PTree.selfRec, PTree.recOf, imDate]
  · intro d hd hdir
    have : d = 0 ∨ d = 1 := by simp [imI, imT] at hd; omega
    rcases this with rfl | rfl
    · simp [imI]
    · simp [imI, imT] at hdir
  · intro c hc hf
    have : c = 0 ∨ c = 1 := by simp [imI, imT] at hc; omega
    rcases this with rfl | rfl
    · simp [imI, imT] at hf
    · simp [imI]
  · intro d hd
    simp [imI] at hd; subst hd
    exact imLen.symm ▸ rfl
  · intro f hf
    simp [imI] at hf; subst hf
    rfl
  · intro c hc hd
    simp [imI, imT] at hc; subst hc
    simp [imI, imT] at hd
example : imT.walk 2 [] 0 = [{ path := [[65, 59, 49]], isDir := false, loc := 21, size := 3, data := [7, 7, 7] }] := by decide

/-- the same instance on a device that held 0xFF everywhere -/
example : readImageP (imI.imageOn (fun _ => 255)) (16 * 2048) 2 = some (imI.pvd, imT.walk 2 [] 0) := by
  refine reader_finds_layout_any_device imI _ 2 (by decide) imWF ?_ rfl rfl (by decide) rfl ?_ ?_ ?_ ?_ imPlaced ?_
  · simp [PVD.WF, imI, imT, PTree.selfRec, PTree.recOf, imDate]
  · intro d hd hdir
    have : d = 0 ∨ d = 1 := by simp [imI, imT] at hd; omega
    rcases this with rfl | rfl
    · simp [imI]
    · simp [imI, imT] at hdir
  · intro c hc hf
    have : c = 0 ∨ c = 1 := by simp [imI, imT] at hc; omega
    rcases this with rfl | rfl
    · simp [imI, imT] at hf
    · simp [imI]
  · intro d hd
    simp [imI] at hd; subst hd
    exact imLen.symm ▸ rfl
  · intro f hf
    simp [imI] at hf; subst hf
    rfl
  · intro c hc hd
    simp [imI, imT] at hc; subst hc
    simp [imI, imT] at hd
-- its Go write list starts at: system area, root directory, L and M path table, the file's chunk and fill, PVD, terminator
example : imI.writesGo.map (·.off) = [0, 36864, 38912, 40960, 43008, 43011, 32768, 34816] := by decide
-- `copyFileData` with a chunk of 4: a file of 10 bytes at byte 100 is written as 4 + 4 + 2 bytes; with 8-byte blocks the fill is 6 bytes
example : (chunkWrs 4 10 100 [1, 2, 3, 4, 5, 6, 7, 8, 9, 10]).map (fun w => (w.off, w.data)) =
    [(100, [1, 2, 3, 4]), (104, [5, 6, 7, 8]), (108, [9, 10])] := by decide
example : (fileWrs 8 96 [1, 2, 3, 4, 5, 6, 7, 8, 9, 10]).map (fun w => (w.off, w.data.length)) = [(96, 10), (106, 6)] := by decide

end Diskfs.Iso.C06
