/-
  C11 — Read-only access never modifies the image.
  Property theorems only; helper lemmas live in Proofs/ReadOnly.lean.

  Quantifiers: every configuration of the as-found switches and guard tables
  (`c : Cfg`) unless a theorem says otherwise, every storage, every filesystem
  kind, finalized or not, every sector size, every entry point, every payload the
  operation would write given a writer (`payload : List Wr`, arbitrary), every
  history (`List Call`, by induction), every prior image (`img : Dev`).

  The premise that the real code has no other path to the device than a Writer
  obtained from Writable() is a regenerated static fact (facts_agree_writeat,
  facts_agree_assertions, facts_agree_backend below).
-/
import DiskfsModel.Proofs.ReadOnly
import DiskfsModel.Generated.ReadOnly
set_option linter.unusedSimpArgs false
namespace Diskfs.ReadOnly.C11
open Diskfs.ReadOnly

/-- the configuration regenerated from /repo -/
def genCfg : Cfg :=
  { fatOpenChecks := Generated.ReadOnly.fatOpenFileChecksWritable,
    ext4OpenChecks := Generated.ReadOnly.ext4OpenFileChecksWritable,
    isoCreateChecks := Generated.ReadOnly.isoCreateChecksWritable,
    sqfsCreateChecks := Generated.ReadOnly.sqfsCreateChecksWritable,
    isoGuards := Generated.ReadOnly.iso9660Guards,
    sqfsGuards := Generated.ReadOnly.squashfsGuards }

/-- read-only storage: no entry point emits a write, whatever it would have written -/
theorem ro_no_write (c : Cfg) (s : Storage) (hro : s.ro = true) (k : FsKind) (fin : Bool) (ss : Nat) (op : Op)
    (payload : List Wr) : (step c s k fin ss op payload).writes = [] :=
  step_ro_writes c s hro k fin ss op payload

/-- readers never emit a write, in any mode (writable storage included) -/
theorem reads_no_write (c : Cfg) (s : Storage) (k : FsKind) (fin : Bool) (ss : Nat) (op : Op) (payload : List Wr)
    (hr : op.isMutator = false) : (step c s k fin ss op payload).writes = [] := by
  have : op.cls = .reader := by
    simp only [Op.isMutator] at hr
    simpa using hr
  unfold step
  simp [this]

/-- read-only storage: every mutating call returns an error, except on the inputs where the tree as
    found hands out success without touching the device (`trigger`). `hfin`: a filesystem of a staged
    kind that lives on the image is finalized (an unfinalized one is a workspace directory, not part of
    the image). The guard tables must reject (`hg`, discharged for the regenerated tables below). -/
theorem ro_mutators_error (c : Cfg) (s : Storage) (hro : s.ro = true) (k : FsKind) (fin : Bool) (ss : Nat) (op : Op)
    (payload : List Wr) (hm : op.isMutator = true) (ht : trigger c k fin ss op = false)
    (hfin : k.staged = true → fin = true) (hg : ∀ m, guardClass (c.guards k) m ≠ 0 ∨ k.staged = false) :
    (step c s k fin ss op payload).out = .err := by
  have hw := writable_ro s hro
  cases hst : k.staged
  · cases op <;> simp_all [step, Op.cls, Op.isMutator, trigger, needWriter]
    all_goals (try (rename_i k'; cases k' <;> simp_all [step, Op.cls, trigger, needWriter]))
    all_goals (repeat' split) <;> simp_all
  · have hf := hfin hst
    subst hf
    have hg' : ∀ m, guardClass (c.guards k) m ≠ 0 := fun m => by
      rcases hg m with h | h
      · exact h
      · simp [hst] at h
    cases op <;> simp_all [step, Op.cls, Op.isMutator, trigger, needWriter]
    all_goals (try (rename_i k'; cases k' <;> simp_all [step, Op.cls, trigger, needWriter]))
    all_goals (repeat' split) <;> simp_all

/-- with the two repairs in place (OpenFile and the staged Create ask for a writer) no input triggers -/
theorem trigger_fixed (c : Cfg) (h1 : c.fatOpenChecks = true) (h2 : c.ext4OpenChecks = true)
    (h3 : c.isoCreateChecks = true) (h4 : c.sqfsCreateChecks = true) (k : FsKind) (fin : Bool) (ss : Nat) (op : Op) :
    trigger c k fin ss op = false := by
  cases op <;> simp [trigger, h1, h2, h3, h4]
  all_goals (try (rename_i k'; cases k' <;> simp [trigger, h3, h4]))

/-- hence, repaired: every mutating call on a read-only storage errors -/
theorem ro_mutators_error_fixed (c : Cfg) (h1 : c.fatOpenChecks = true) (h2 : c.ext4OpenChecks = true)
    (h3 : c.isoCreateChecks = true) (h4 : c.sqfsCreateChecks = true)
    (s : Storage) (hro : s.ro = true) (k : FsKind) (fin : Bool) (ss : Nat) (op : Op) (payload : List Wr)
    (hm : op.isMutator = true) (hfin : k.staged = true → fin = true)
    (hg : ∀ m, guardClass (c.guards k) m ≠ 0 ∨ k.staged = false) : (step c s k fin ss op payload).out = .err :=
  ro_mutators_error c s hro k fin ss op payload hm (trigger_fixed c h1 h2 h3 h4 k fin ss op) hfin hg

/-- finalized iso9660 / squashfs: every mutating filesystem-level call is refused and writes nothing —
    on ANY storage, also a writable one — by the regenerated guard tables. `decide` ranges over the
    whole finite table (kind x method), which is the quantifier. -/
theorem finalized_guards_total :
    ∀ k ∈ [FsKind.iso9660, FsKind.squashfs], ∀ m ∈ Method.all, guardClass (genCfg.guards k) m ≠ 0 := by decide

theorem finalized_rejects (s : Storage) (k : FsKind) (hk : k = .iso9660 ∨ k = .squashfs) (ss : Nat) (op : Op)
    (payload : List Wr) (hfs : op.fsLevel = true) (hm : op.isMutator = true) :
    (step genCfg s k true ss op payload).out = .err ∧ (step genCfg s k true ss op payload).writes = [] := by
  have hg : ∀ m : Method, guardClass (genCfg.guards k) m ≠ 0 := by
    intro m
    apply finalized_guards_total k (by rcases hk with h | h <;> simp [h]) m
    cases m <;> simp [Method.all]
  have hst : k.staged = true := by rcases hk with h | h <;> simp [h, FsKind.staged]
  cases op <;> simp_all [step, Op.cls, Op.isMutator, Op.fsLevel]

/-- a history on a read-only storage leaves every byte of the image as it was — for every
    interleaving of reads and rejected writes -/
theorem ro_history (c : Cfg) (s : Storage) (hro : s.ro = true) (img : Dev) (calls : List Call) :
    run c s img calls = img := by
  induction calls generalizing img with
  | nil => rfl
  | cons x xs ih =>
    simp only [run, ro_no_write c s hro, applyWrs_nil]
    exact ih img

/-- a history of readers and of calls on finalized iso9660 / squashfs filesystems leaves the image
    unchanged on any storage -/
theorem quiet_history (s : Storage) (img : Dev) (calls : List Call)
    (h : ∀ x ∈ calls, x.op.isMutator = false ∨
        ((x.k = .iso9660 ∨ x.k = .squashfs) ∧ x.fin = true ∧ x.op.fsLevel = true)) :
    run genCfg s img calls = img := by
  induction calls generalizing img with
  | nil => rfl
  | cons x xs ih =>
    have hx : (step genCfg s x.k x.fin x.ss x.op x.payload).writes = [] := by
      rcases h x (List.mem_cons_self ..) with hr | ⟨hk, hf, hfs⟩
      · exact reads_no_write genCfg s x.k x.fin x.ss x.op x.payload hr
      · cases hmut : x.op.isMutator
        · exact reads_no_write genCfg s x.k x.fin x.ss x.op x.payload hmut
        · rw [hf]; exact (finalized_rejects s x.k hk x.ss x.op x.payload hfs hmut).2
    simp only [run, hx, applyWrs_nil]
    exact ih img (fun y hy => h y (List.mem_cons_of_mem _ hy))

/-! ### the tree as found -/

/-- as found, FAT OpenFile(O_RDWR) on a read-only storage succeeds (no byte is written; the error
    only appears at Write) — unless the regenerated switch says it has been repaired -/
theorem cex_openfile_rw_on_readonly (c : Cfg) (h : c.fatOpenChecks = false) (payload : List Wr) :
    (step c ⟨true⟩ .fat16 false 512 .openRdwr payload).out = .ok ∧ Op.openRdwr.isMutator = true := by
  simp [step, Op.cls, Op.isMutator, FsKind.isFat, FsKind.staged, h, Storage.writable]

/-- as found, CreateFilesystem(squashfs) on a read-only disk succeeds: nothing is touched until Finalize -/
theorem cex_staged_create_on_readonly (c : Cfg) (h : c.sqfsCreateChecks = false) (payload : List Wr) :
    (step c ⟨true⟩ .fat12 false 4096 (.createFs .squashfs) payload).out = .ok := by
  simp [step, Op.cls, h, sqfsBlockOk]

/-! ### regenerated static facts -/

/-- every WriteAt call site in non-test code of /repo has a receiver that is a backend.WritableFile:
    a local assigned from a Writable() call in the same function, a parameter or a struct field of
    that type (the sites are listed in the evidence under regenerated_facts.ReadOnly.writeAtSites) -/
theorem facts_agree_writeat :
    Generated.ReadOnly.writeAtUnknown = 0 ∧ Generated.ReadOnly.writeAtUnknownSites = [] ∧
    0 < Generated.ReadOnly.writeAtTotal := by decide

/-- no type assertion turns a storage into a writer outside backend/file/file.go's Writable -/
theorem facts_agree_assertions : Generated.ReadOnly.writerAssertionsOutsideBackend = 0 := by decide

/-- rawBackend.Writable hands the file out only under `!readOnly`; diskfs.Open(ReadOnly) builds a
    read-only backend -/
theorem facts_agree_backend :
    Generated.ReadOnly.fileWritableRefusesReadOnly = true ∧
    Generated.ReadOnly.openReadOnlyMapsToReadOnlyBackend = true := by decide

/-- both guard tables cover all twelve methods -/
theorem facts_agree_guard_tables :
    Generated.ReadOnly.iso9660Guards.length = 12 ∧ Generated.ReadOnly.squashfsGuards.length = 12 := by decide


/-! ### every way of obtaining read-only access (the constructor table) -/

/-- the constructor table regenerated from backend/file/file.go and diskfs.go -/
def genRows : List CtorRow := decodeRows Generated.ReadOnly.ctorTable
def roMode : Nat := Generated.ReadOnly.openModeReadOnly

/-- the regenerated table has exactly one row for every constructor x flag combination the library
    offers (diskfs.Open x the three OpenModeOption values and a value that is none of them,
    file.OpenFromPath x readOnly, file.OpenFromPathWithExclusive x readOnly x exclusive,
    file.New x readOnly, file.CreateFromPath), nothing was unevaluable, and no other exported
    function of backend/file or diskfs.go hands out a backend / a Disk -/
theorem facts_agree_ctor_table :
    genRows.map CtorRow.key =
      [(0, Generated.ReadOnly.openModeReadOnly, 0), (0, Generated.ReadOnly.openModeReadWriteExclusive, 0),
       (0, Generated.ReadOnly.openModeReadWrite, 0), (0, 7, 0),
       (1, 0, 0), (1, 1, 0), (2, 0, 0), (2, 0, 1), (2, 1, 0), (2, 1, 1), (3, 0, 0), (3, 1, 0), (4, 0, 0)] ∧
    Generated.ReadOnly.ctorTable.length = 6 * 13 ∧
    Generated.ReadOnly.fileCtorNames = ["CreateFromPath", "New", "OpenFromPath", "OpenFromPathWithExclusive"] ∧
    Generated.ReadOnly.diskCtorNames = ["Create", "Open", "OpenBackend"] ∧
    Generated.ReadOnly.subWritablePropagatesRefusal = true ∧
    Generated.ReadOnly.fileWritableReadsOnlyReadOnlyField = true := by decide

/-- every constructor asked for read-only access either refuses or yields a backend whose Writable()
    fails, and when it opens the file itself it opens it O_RDONLY (so the OS would refuse as well).
    `decide` ranges over the whole regenerated table, which is the quantifier. -/
theorem ctor_ro_refuses :
    ∀ r ∈ genRows, r.askedRO roMode = true →
      (∀ s, r.backend = some s → s.writable = none) ∧ (r.opened = 1 → accMode r.flags = 0) := by decide

/-- the converse (the table is not trivially all-refusing): a constructor asked for write access that
    yields a backend yields a writable one, opened O_RDWR when it opens the file itself -/
theorem ctor_rw_writable :
    ∀ r ∈ genRows, r.askedRO roMode = false → r.opened ≠ 2 →
      r.roField = false ∧ (r.opened = 1 → accMode r.flags = 2) := by decide

/-- an OpenModeOption value outside the table yields no disk at all -/
theorem ctor_unknown_mode_refused : (findRow genRows 0 7 0).map CtorRow.backend = some none := by decide

/-- backend.Sub, nested to any depth at any offsets, is writable exactly when the innermost storage is -/
theorem subs_writable (l : List (Nat × Nat)) (u : Stor) : (subs l u).writable = u.writable := by
  induction l generalizing u with
  | nil => rfl
  | cons x xs ih =>
    obtain ⟨o, n⟩ := x
    simp only [subs]
    rw [ih]
    simp only [Stor.writable]
    cases u.writable <;> rfl

/-- a storage whose Writable() fails is a read-only storage of the decision model -/
theorem toStorage_ro (s : Stor) (h : s.writable = none) : s.toStorage.ro = true := by
  simp [Stor.toStorage, h]

/-- hence: through whichever constructor read-only access was asked for, directly or under any nesting of
    backend.Sub, every history of calls — any entry points, any interleaving, any payloads — leaves
    every byte of the image as it was -/
theorem ctor_ro_history (r : CtorRow) (hr : r ∈ genRows) (hask : r.askedRO roMode = true) (s : Stor)
    (hs : r.backend = some s) (l : List (Nat × Nat)) (c : Cfg) (img : Dev) (calls : List Call) :
    run c (subs l s).toStorage img calls = img := by
  have hw : s.writable = none := (ctor_ro_refuses r hr hask).1 s hs
  exact ro_history c _ (toStorage_ro _ (by rw [subs_writable]; exact hw)) img calls

/-- the same for any backend whose Writable() fails (not one of ours) and for a rawBackend over a handle
    that is no io.WriterAt (whatever its readOnly flag), under any nesting of backend.Sub -/
theorem refusing_history (l : List (Nat × Nat)) (c : Cfg) (img : Dev) (calls : List Call) :
    run c (subs l .refusing).toStorage img calls = img ∧
    ∀ ro, run c (subs l (.rawNoWriter ro)).toStorage img calls = img :=
  ⟨ro_history c _ (toStorage_ro _ (by rw [subs_writable]; rfl)) img calls,
   fun _ => ro_history c _ (toStorage_ro _ (by rw [subs_writable]; rfl)) img calls⟩

/-- and every mutating call errors there (repaired tree; the guard-table side condition as above) -/
theorem ctor_ro_mutators_error (r : CtorRow) (hr : r ∈ genRows) (hask : r.askedRO roMode = true) (s : Stor)
    (hs : r.backend = some s) (l : List (Nat × Nat)) (c : Cfg)
    (h1 : c.fatOpenChecks = true) (h2 : c.ext4OpenChecks = true)
    (h3 : c.isoCreateChecks = true) (h4 : c.sqfsCreateChecks = true)
    (k : FsKind) (fin : Bool) (ss : Nat) (op : Op) (payload : List Wr)
    (hm : op.isMutator = true) (hfin : k.staged = true → fin = true)
    (hg : ∀ m, guardClass (c.guards k) m ≠ 0 ∨ k.staged = false) :
    (step c (subs l s).toStorage k fin ss op payload).out = .err := by
  have hw : s.writable = none := (ctor_ro_refuses r hr hask).1 s hs
  exact ro_mutators_error_fixed c h1 h2 h3 h4 _ (toStorage_ro _ (by rw [subs_writable]; exact hw))
    k fin ss op payload hm hfin hg

/-- diskfs.OpenBackend with WithOpenMode(ReadOnly): once the function acts on the option, the disk's storage
    refuses whatever storage was handed in, under any nesting of backend.Sub, and every history leaves the
    image unchanged ... -/
theorem openbackend_ro (inner : Stor) (l : List (Nat × Nat)) (c : Cfg) (img : Dev) (calls : List Call) :
    (openBackend true true inner).writable = none ∧
    run c (subs l (openBackend true true inner)).toStorage img calls = img :=
  ⟨rfl, ro_history c _ (toStorage_ro _ (by rw [subs_writable]; rfl)) img calls⟩

/-- ... without a mode option (or with a writing one) the storage is the caller's, as it is -/
theorem openbackend_keeps (honours : Bool) (inner : Stor) : openBackend honours false inner = inner := by
  simp [openBackend]

/-- as found the option is parsed and ignored: a writable storage stays writable on a disk opened read-only -/
theorem cex_openbackend_ignores_mode : (openBackend false true (.raw false)).writable = some {} := by decide

/-- the table as it would be after a change that opens O_RDWR and derives the readOnly field from the
    open mode for (readOnly = true, exclusive = false): the theorem's statement is false for it -/
example : ¬ (∀ r ∈ decodeRows [2, 1, 0, 1, 2, 0], r.askedRO 0 = true →
    (∀ s, r.backend = some s → s.writable = none) ∧ (r.opened = 1 → accMode r.flags = 0)) := by decide

/-! non-vacuity -/
example : (step genCfg ⟨false⟩ .fat12 false 512 .mkdir [⟨7, [1, 2]⟩]).writes = [⟨7, [1, 2]⟩] := by decide
example : (step genCfg ⟨true⟩ .fat12 false 512 .mkdir [⟨7, [1, 2]⟩]).out = .err := by decide
example : (step genCfg ⟨false⟩ .squashfs true 4096 .remove [⟨7, [1, 2]⟩]).out = .err := by decide
example : trigger { genCfg with fatOpenChecks := false } .fat16 false 512 .openRdwr = true := by decide
example : ∃ r ∈ genRows, r.askedRO roMode = true ∧ r.backend = some (.raw true) := by decide
example : (subs [(0, 8), (512, 4)] (.raw false)).writable = some {} := by decide
example : (subs [(0, 8), (512, 4)] (.raw true)).writable = none := by decide

end Diskfs.ReadOnly.C11
