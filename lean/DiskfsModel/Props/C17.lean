/-
  C17 — Concurrent readers of one squashfs image are safe and correct.
  Property theorems only (helper lemmas: Proofs/Lru.lean = LruCache.lean, LruInv.lean, LruLive.lean;
  Proofs/LruClient.lean).

  All theorems are about the N-thread small-step machine of Model/Lru.lean (a mirror of
  filesystem/squashfs/lru.go) and hold for EVERY number of threads (`progs : List (List Op)`, one
  program per thread, any length), EVERY program (any mix of `get pos` — with its fetch succeeding
  or failing — and `setMaxBlocks n`, any `n : Int` incl. 0 and negatives), EVERY initial cache size
  and EVERY schedule (`sched : List Tid`, any list of thread ids; a thread that cannot move is
  skipped).  `slack` is the `k` of `add`'s `l.trim(l.maxBlocks - k)`, regenerated from lru.go;
  `facts_agree_add_slack` discharges `1 ≤ slack` for the current source.
  The readers above the cache are clients of the machine (Model/LruFile.lean, Proofs/LruClient.lean):
  `clients_adaptive`, `concurrent_equals_sequential`, `handles_sequential` (File.Read / Seek /
  SetCacheSize programs on any number of handles), `fair_completion`; that the cache is the only
  shared mutable state and that cached slices are only read is pinned by `facts_agree_no_shared_writes`,
  `facts_agree_handle_state`, `facts_agree_cached_slices_read_only`.
  Outside the model: data races in the sense of the Go memory model on accesses that are not
  under the modelled locks (e.g. GetCacheSize); the byte-level decoding done by the metadata readers
  (they are covered as arbitrary `Client`s only).
-/
import DiskfsModel.Proofs.Lru
import DiskfsModel.Proofs.LruClient
import DiskfsModel.Generated.Lru
namespace Diskfs.Lru.C17

/-- the states reachable from a fresh cache -/
def reach (disk : Pos → Data) (slack : Nat) (maxBlocks : Int) (progs : List (List Op)) (sched : List Tid) : Sys :=
  run disk slack (init maxBlocks progs) sched

theorem reach_inv (disk : Pos → Data) {slack : Nat} (hs : 1 ≤ slack) (maxBlocks : Int) (progs : List (List Op))
    (sched : List Tid) : Inv disk (reach disk slack maxBlocks progs sched) :=
  run_inv hs sched _ (init_inv disk maxBlocks progs)

/-- lru_inv: in every reachable state the map and the recency list are in bijection (one map entry
    per position, no block twice on the list, the list's blocks are exactly the map's entries, equal
    lengths), and neither `pop`'s "list empty" panic nor a nil dereference in `unlink` has happened. -/
theorem lru_inv (disk : Pos → Data) {slack : Nat} (hs : 1 ≤ slack) (maxBlocks : Int) (progs : List (List Op))
    (sched : List Tid) :
    let s := reach disk slack maxBlocks progs sched
    s.panicked = false ∧ (s.c.cache.map Prod.fst).Nodup ∧ s.c.order.Nodup ∧
      (∀ r, r ∈ s.c.order ↔ r ∈ s.c.cache) ∧ s.c.order.length = s.c.cache.length := by
  have h := reach_inv disk hs maxBlocks progs sched
  refine ⟨h.nopanic, h.cinv.keys, h.cinv.order, h.cinv.same, ?_⟩
  exact ((List.perm_ext_iff_of_nodup h.cinv.order (nodup_of_keys h.cinv.keys)).2 h.cinv.same).length_eq

/-- size_bound: in every reachable state `len(cache) ≤ max(1, maxBlocks)` — in particular after
    every `add`; with `maxBlocks ≤ 0` the cache holds at most the one block just asked for. -/
theorem size_bound (disk : Pos → Data) {slack : Nat} (hs : 1 ≤ slack) (maxBlocks : Int) (progs : List (List Op))
    (sched : List Tid) :
    let s := reach disk slack maxBlocks progs sched
    (s.c.cache.length : Int) ≤ max 1 s.maxBlocks :=
  (reach_inv disk hs maxBlocks progs sched).size

/-- … and the step that performs `l.maxBlocks = n; l.trim(n)` of `setMaxBlocks n` leaves at most
    `max(0, n)` blocks (so `setMaxBlocks 0` or a negative `n` empties the cache). -/
theorem size_after_setMaxBlocks (disk : Pos → Data) {slack : Nat} (hs : 1 ≤ slack) (maxBlocks : Int)
    (progs : List (List Op)) (sched : List Tid) (t : Tid) (th : Thread) (n : Int) (s' : Sys)
    (hth : (reach disk slack maxBlocks progs sched).threads[t]? = some th) (hpc : th.pc = .sSet n)
    (hstep : step disk slack (reach disk slack maxBlocks progs sched) t = some s') :
    s'.maxBlocks = n ∧ (s'.c.cache.length : Int) ≤ max 0 n := by
  have h := reach_inv disk hs maxBlocks progs sched
  generalize reach disk slack maxBlocks progs sched = s at *
  unfold step at hstep
  rw [if_neg (by rw [h.nopanic]; exact Bool.false_ne_true)] at hstep
  obtain ⟨prog, pc, rets⟩ := th
  cases hpc
  simp only [hth] at hstep
  obtain ⟨c', hrun, _, hc, _⟩ := trim_spec n s.c h.cinv
  rw [hrun] at hstep
  cases Option.some.inj hstep
  refine ⟨rfl, ?_⟩
  show (c'.cache.length : Int) ≤ max 0 n
  rcases trimCond_false hc with h1 | h1 <;> omega

/-- data_correct: whatever a block holds is the disk's data for the block's position — for cached
    blocks and for blocks evicted while their fetch was in flight alike — and every call that has
    returned, returned the right thing: `get pos` the disk's data for `pos` (or the fetch error, only
    if its own fetch was attempted and failed). -/
theorem data_correct (disk : Pos → Data) {slack : Nat} (hs : 1 ≤ slack) (maxBlocks : Int) (progs : List (List Op))
    (sched : List Tid) :
    let s := reach disk slack maxBlocks progs sched
    (∀ (b : Nat) (blk : Block) (d : Data), s.blocks[b]? = some blk → blk.data = some d → d = disk blk.pos) ∧
    (∀ (t : Tid) (th : Thread), s.threads[t]? = some th → ∀ x ∈ th.rets, retOk disk x.1 x.2) := by
  have h := reach_inv disk hs maxBlocks progs sched
  exact ⟨h.dcorr, fun t th ht => (h.tok t th ht).2⟩

/-- mutual exclusion: at most one thread is inside the cache's critical section and at most one
    inside any block's (the thread that checks, fetches and stores the block's data). -/
theorem mutual_exclusion (disk : Pos → Data) {slack : Nat} (hs : 1 ≤ slack) (maxBlocks : Int)
    (progs : List (List Op)) (sched : List Tid) (t1 t2 : Tid) (th1 th2 : Thread) :
    let s := reach disk slack maxBlocks progs sched
    s.threads[t1]? = some th1 → s.threads[t2]? = some th2 →
    (holdsCache th1.pc = true → holdsCache th2.pc = true → t1 = t2) ∧
    (∀ b, holdsBlock th1.pc = some b → holdsBlock th2.pc = some b → t1 = t2) := by
  have h := reach_inv disk hs maxBlocks progs sched
  intro s h1 h2
  refine ⟨fun c1 c2 => ?_, fun b b1 b2 => ?_⟩
  · have e1 := h.cown1 t1 th1 h1 c1
    have e2 := h.cown1 t2 th2 h2 c2
    exact Option.some.inj (e1.symm.trans e2)
  · obtain ⟨blk1, g1, o1⟩ := h.bown1 t1 th1 b h1 b1
    obtain ⟨blk2, g2, o2⟩ := h.bown1 t2 th2 b h2 b2
    have hs : s.blocks[b]? = some blk1 := g1
    rw [hs] at g2; cases g2
    exact Option.some.inj (o1.symm.trans o2)

/-- no_deadlock: a reachable state in which some thread has not finished has a thread that can
    move.  (A thread may wait for a block lock while holding the cache lock; the holder of that
    block lock is past its last lock acquisition and never needs the cache lock before releasing.) -/
theorem no_deadlock (disk : Pos → Data) {slack : Nat} (hs : 1 ≤ slack) (maxBlocks : Int) (progs : List (List Op))
    (sched : List Tid) :
    let s := reach disk slack maxBlocks progs sched
    allDone s = false → ∃ t, (step disk slack s t).isSome = true :=
  fun hnd => no_deadlock_inv (reach_inv disk hs maxBlocks progs sched) hnd

/-- progress: every move decreases a measure, so any schedule contains at most
    `8 · (total number of operations)` moves … -/
theorem moves_bounded (disk : Pos → Data) {slack : Nat} (hs : 1 ≤ slack) (maxBlocks : Int) (progs : List (List Op))
    (sched : List Tid) :
    moves disk slack (init maxBlocks progs) sched ≤ 8 * (progs.map List.length).sum := by
  have hm : ∀ progs : List (List Op), measure (init maxBlocks progs) = 8 * (progs.map List.length).sum := by
    intro progs
    simp only [measure, init, List.map_map]
    induction progs with
    | nil => rfl
    | cons p ps ih =>
      simp only [List.map_cons, List.sum_cons, Function.comp, Thread.measure, pcRank] at ih ⊢
      omega
  have h := Diskfs.Lru.moves_bounded hs sched _ (init_inv disk maxBlocks progs)
  rw [hm] at h
  omega

/-- … and from every reachable state some continuation lets every thread finish: together with
    `no_deadlock`, a scheduler that keeps picking a thread that can move (fetches terminate)
    completes every reader after boundedly many moves. -/
theorem completion_reachable (disk : Pos → Data) {slack : Nat} (hs : 1 ≤ slack) (maxBlocks : Int)
    (progs : List (List Op)) (sched : List Tid) :
    ∃ more, allDone (run disk slack (reach disk slack maxBlocks progs sched) more) = true := by
  obtain ⟨more, _, hd⟩ := exists_completion hs _ _ (reach_inv disk hs maxBlocks progs sched) (Nat.le_refl _)
  exact ⟨more, hd⟩

/-- what a call returns to its caller -/
def expected (disk : Pos → Data) : Op → Option Data
  | .get p _ => some (disk p)
  | .setMax _ => none

def allFetchOk (progs : List (List Op)) : Prop := ∀ p ∈ progs, ∀ op ∈ p, ∀ pos, op ≠ .get pos false

/-- every thread's calls are, in order, exactly its program (nothing skipped, repeated or reordered) -/
theorem calls_are_program (disk : Pos → Data) {slack : Nat} (hs : 1 ≤ slack) (maxBlocks : Int)
    (progs : List (List Op)) (sched : List Tid) :
    (reach disk slack maxBlocks progs sched).threads.map Thread.all = progs := by
  unfold reach
  rw [run_all hs sched _ (init_inv disk maxBlocks progs), init_all]

/-- seq_equiv: when all threads have finished (fetches not failing), each thread has received, call by
    call, exactly `disk pos` for each `get pos` of its program — whatever the interleaving, the cache
    size and the resizes were. -/
theorem seq_equiv (disk : Pos → Data) {slack : Nat} (hs : 1 ≤ slack) (maxBlocks : Int) (progs : List (List Op))
    (sched : List Tid) (hok : allFetchOk progs)
    (hdone : allDone (reach disk slack maxBlocks progs sched) = true) :
    (reach disk slack maxBlocks progs sched).threads.map (fun th => th.rets.map fun x => x.2.value) =
      progs.map (fun p => p.map (expected disk)) := by
  have h := reach_inv disk hs maxBlocks progs sched
  have hall := calls_are_program disk hs maxBlocks progs sched
  generalize reach disk slack maxBlocks progs sched = s at *
  rw [← hall, List.map_map]
  apply List.map_congr_left
  intro th hth
  obtain ⟨t, hlt, hget⟩ := List.getElem_of_mem hth
  have ht : s.threads[t]? = some th := by rw [List.getElem?_eq_getElem hlt, hget]
  have hd : Thread.done th = true := List.all_eq_true.1 hdone th hth
  simp only [Thread.done, Bool.and_eq_true, beq_iff_eq, List.isEmpty_iff] at hd
  have hprog : th.all ∈ progs := by rw [← hall]; exact List.mem_map_of_mem hth
  simp only [Function.comp, Thread.all, hd.1, hd.2, curOp, Option.toList, List.append_nil, List.map_map] at hprog ⊢
  apply List.map_congr_left
  intro x hx
  have hr := (h.tok t th ht).2 x hx
  have hopmem : x.1 ∈ th.rets.map Prod.fst := List.mem_map_of_mem hx
  obtain ⟨op, r⟩ := x
  cases op with
  | setMax n => simp only [retOk] at hr; simp [expected, hr, Ret.value]
  | get p ok =>
    rcases hr with hr | ⟨hf, _⟩
    · simpa [expected] using hr
    · subst hf
      exact absurd rfl (hok _ hprog _ hopmem p)

/-- … and that is what a sequential reader gets: a single thread running the same program alone,
    on a fresh cache of any size, finishes and has received the same values. -/
theorem sequential_reader (disk : Pos → Data) {slack : Nat} (hs : 1 ≤ slack) (maxBlocks : Int) (prog : List Op)
    (hok : allFetchOk [prog]) :
    let s := reach disk slack maxBlocks [prog] (List.replicate (8 * prog.length) 0)
    allDone s = true ∧ s.threads.map (fun th => th.rets.map fun x => x.2.value) = [prog.map (expected disk)] := by
  have hd : allDone (reach disk slack maxBlocks [prog] (List.replicate (8 * prog.length) 0)) = true :=
    single_completion hs _ _ (init_inv disk maxBlocks [prog]) rfl
      (by simp [measure, init, Thread.measure, pcRank])
  exact ⟨hd, seq_equiv disk hs maxBlocks [prog] _ hok hd⟩

/-! ### the read paths above the cache: concurrent = sequential

  A goroutine of the squashfs reader touches shared mutable state only through `lru.get` /
  `lru.setMaxBlocks` (`facts_agree_no_shared_writes`, `facts_agree_cached_slices_read_only`): it is
  a `Client` — any deterministic strategy that picks its next cache call from what the earlier calls
  returned.  `File.Read` / `Seek` / `SetCacheSize` programs on one handle are the client `handleC`
  (Model/LruFile.lean: data blocks straight from the device or from the handle's own last block, the
  tail through ONE cache get, `outputBlock` assembling the answer). -/

/-- the machine started on clients: thread `t` runs the calls client `t` makes when it reads alone -/
def reachC {ρ} (disk : Pos → Data) (slack : Nat) (maxBlocks : Int) (cs : List (Client ρ)) (sched : List Tid) : Sys :=
  reach disk slack maxBlocks (cs.map (Client.ops disk)) sched

/-- clients_adaptive: in EVERY reachable state, for every number of clients, every initial cache size
    and every schedule, each client — fed with the values its calls have really returned so far — is
    about to make exactly the call its thread is executing and then the calls its thread still has to
    do, and will give the lone reader's answer.  So running the lone-reader programs on the machine IS
    running the adaptive clients: what a client does next never depends on the other threads. -/
theorem clients_adaptive {ρ} (disk : Pos → Data) {slack : Nat} (hs : 1 ≤ slack) (maxBlocks : Int)
    (cs : List (Client ρ)) (sched : List Tid) (t : Tid) (th : Thread) (c : Client ρ)
    (ht : (reachC disk slack maxBlocks cs sched).threads[t]? = some th) (hc : cs[t]? = some c) :
    ∃ c', c.feed th.rets = some c' ∧ c'.ops disk = (curOp th.pc).toList ++ th.prog ∧
      c'.result disk = c.result disk :=
  clients_follow (reach_inv disk hs maxBlocks _ sched) cs (calls_are_program disk hs maxBlocks _ sched) t th c ht hc

/-- concurrent_equals_sequential: when all have finished, every client has arrived — along the values
    it really received, whatever the interleaving, the cache size and the resizes by other threads were
    — at the answer it gives when it runs alone. -/
theorem concurrent_equals_sequential {ρ} (disk : Pos → Data) {slack : Nat} (hs : 1 ≤ slack) (maxBlocks : Int)
    (cs : List (Client ρ)) (sched : List Tid) (hdone : allDone (reachC disk slack maxBlocks cs sched) = true)
    (t : Tid) (th : Thread) (c : Client ρ)
    (ht : (reachC disk slack maxBlocks cs sched).threads[t]? = some th) (hc : cs[t]? = some c) :
    c.feed th.rets = some (.done (c.result disk)) := by
  obtain ⟨c', hf, ho, hr⟩ := clients_adaptive disk hs maxBlocks cs sched t th c ht hc
  have hd : Thread.done th = true := List.all_eq_true.1 hdone th (List.mem_of_getElem? ht)
  simp only [Thread.done, Bool.and_eq_true, beq_iff_eq, List.isEmpty_iff] at hd
  rw [hd.1, hd.2] at ho
  obtain ⟨r, rfl⟩ := (Client.ops_nil_iff disk c').1 (by simpa [curOp] using ho)
  rw [hf, ← hr]; rfl

/-- one goroutine per handle: handle `i` is a file and a program of Read / Seek / SetCacheSize calls -/
def handleClients (im : Image) (hs : List (FileD × List HOp)) : List (Client (List HRes)) :=
  hs.map fun x => handleC im x.1 HSt.fresh x.2 []

/-- handles_sequential: for every number of handles (any of them on the same file), every program of
    Read / Seek / SetCacheSize calls per handle, every initial cache size and every schedule: when all
    have finished, each handle has answered, call by call, what it answers when it is the only reader of
    the image (`(handleC …).result`: bytes, EOF / error, cursor, and which data blocks it read from the
    device).  In particular the answers do not depend on the resize schedule. -/
theorem handles_sequential (im : Image) (disk : Pos → Data) {slack : Nat} (hs : 1 ≤ slack) (maxBlocks : Int)
    (handles : List (FileD × List HOp)) (sched : List Tid)
    (hdone : allDone (reachC disk slack maxBlocks (handleClients im handles) sched) = true)
    (t : Tid) (th : Thread) (f : FileD) (prog : List HOp)
    (ht : (reachC disk slack maxBlocks (handleClients im handles) sched).threads[t]? = some th)
    (hh : handles[t]? = some (f, prog)) :
    (handleC im f HSt.fresh prog []).feed th.rets =
      some (.done ((handleC im f HSt.fresh prog []).result disk)) :=
  concurrent_equals_sequential disk hs maxBlocks _ sched hdone t th _ ht
    (by simp [handleClients, List.getElem?_map, hh])

/-- handle_cache_calls (which reads go through the LRU): every cache call a handle makes — whatever
    its program of Read / Seek / SetCacheSize calls — is a get of ITS OWN file's fragment block
    (`fs.fragments[fl.fragmentBlockIndex].start`) or the `setMaxBlocks` of a `SetCacheSize`; the data
    blocks of a file never pass through the cache (device or the handle's last block), so two handles
    share nothing of them.  The engine's handles family checks the same on the real code: device
    reads of data blocks and fragment fetches are counted per call and the cache's recency order is
    compared after every call. -/
theorem handle_cache_calls (im : Image) (disk : Pos → Data) (f : FileD) (prog : List HOp) :
    ∀ op ∈ (handleC im f HSt.fresh prog []).ops disk,
      (∃ pos foff, f.frag = some (pos, foff) ∧ op = .get pos true) ∨ ∃ c, op = .setMax (cacheBlocks f.bs c) :=
  handleC_ops disk im f prog HSt.fresh []

/-- fair_completion ('always finish'): a schedule made of rounds in each of which every thread gets at
    least one turn completes every call of every thread within `8 · (total number of cache calls)`
    rounds — whatever else the rounds contain, for every cache size and resize pattern (fetches
    terminate).  With `no_deadlock`: a get is never stuck, and is done after boundedly many rounds. -/
theorem fair_completion (disk : Pos → Data) {slack : Nat} (hs : 1 ≤ slack) (maxBlocks : Int)
    (progs : List (List Op)) (rounds : List (List Tid))
    (hf : ∀ r ∈ rounds, FairRound progs.length r) (hk : 8 * (progs.map List.length).sum ≤ rounds.length) :
    allDone (reach disk slack maxBlocks progs rounds.flatten) = true := by
  have hm : ∀ progs : List (List Op), measure (init maxBlocks progs) = 8 * (progs.map List.length).sum := by
    intro progs
    simp only [measure, init, List.map_map]
    induction progs with
    | nil => rfl
    | cons p ps ih =>
      simp only [List.map_cons, List.sum_cons, Function.comp, Thread.measure, pcRank] at ih ⊢
      omega
  have hm' := hm progs
  exact Diskfs.Lru.fair_completion hs rounds _ (init_inv disk maxBlocks progs)
    (by simpa [init] using hf) (by omega)

/-! ### the machine's thread programs are the lock/unlock/fetch sequences of lru.go (regenerated facts) -/

/-- `get`: lock cache; lookup, add | unlink+push; LOCK THE BLOCK WHILE STILL HOLDING THE CACHE LOCK;
    unlock cache; deferred block unlock; hit | fetch; store; return. -/
theorem facts_agree_get_sequence : flat getProgram = Generated.Lru.getSkeleton := by decide
theorem facts_agree_get_stores : getStores = Generated.Lru.getStores := by decide
theorem facts_agree_get_nil_receiver : Generated.Lru.getNilReceiverJustFetches = true := by decide
theorem facts_agree_setMaxBlocks_sequence : flat setMaxProgram = Generated.Lru.setMaxBlocksSkeleton := by decide
theorem facts_agree_add : addSkeleton = Generated.Lru.addSkeleton := by decide
theorem facts_agree_trim : trimSkeleton = Generated.Lru.trimSkeleton := by decide
theorem facts_agree_pop : popSkeleton = Generated.Lru.popSkeleton := by decide
theorem facts_agree_push : pushSkeleton = Generated.Lru.pushSkeleton := by decide
theorem facts_agree_unlink : unlinkSkeleton = Generated.Lru.unlinkSkeleton := by decide
/-- the only caller of setMaxBlocks outside lru.go is SetCacheSize -/
theorem facts_agree_setCacheSize : Generated.Lru.setCacheSizeCalls = ["fs.cache.setMaxBlocks"] := by decide
/-- `add` trims to `maxBlocks - k` with `k ≥ 1` before inserting: the hypothesis `1 ≤ slack` of
    the theorems above holds for the current source -/
theorem facts_agree_add_slack : 1 ≤ Generated.Lru.addTrimSlack := by decide

/-! ### nothing but the cache is shared, and cached data is only read (regenerated facts) -/

/-- no_shared_writes: the only assignments to a field of a `FileSystem` anywhere in the package are in
    the constructor `Read` (before the value is handed out) and in `Finalize` (workspace filesystems,
    not readers of an image); the package has NO package-level variable; its only use of `sync` is
    `sync.Mutex` (the two locks of the machine: no `sync.Pool`, no `sync.Map`, no atomics, no `unsafe`);
    the buffer `readBlock` returns — which `File.Read` keeps as the handle's last block — is a fresh
    allocation on every path (`make` or the decompressor's result), never a pooled or cached one.
    So the LRU is the only mutable state two handles can reach: the `Client` abstraction is complete. -/
theorem facts_agree_no_shared_writes :
    Generated.Lru.fsFieldWriters = ["Finalize:workspace", "Read:rootDir"] ∧
    Generated.Lru.packageVars = [] ∧
    Generated.Lru.syncAndUnsafeUses = ["sync.Mutex"] ∧
    Generated.Lru.readBlockBuffers =
      ["fs.compressor.decompress(b)", "make([]byte, fs.superblock.blocksize)", "make([]byte, size)"] := by decide

/-- the handle state of the model (`HSt.off`, `HSt.last` = location / size / block) is all that
    `File.Read` / `Seek` assign on a handle (`Close` clears `filesystem`: closed handles are C10's) -/
theorem facts_agree_handle_state :
    Generated.Lru.handleFieldWriters =
      ["Close:filesystem", "Read:block", "Read:blockLocation", "Read:blockSize", "Read:offset", "Seek:offset"] := by decide

/-- cached_slices_read_only (the Go side of 'Data values are immutable'): a def-use scan over the
    package follows every slice that comes out of the cache (`fs.cache.get`, `readMetaBlock`,
    `readFragment`; through sub-slicing, local variables, closures and package functions) and finds no
    use that could write to it or let it escape (element assignment, destination of `copy`, first
    argument of `append`, stored in a field, passed to a function that is not known to only read);
    the uses there are: length, element reads, sub-slicing, source of `copy` / `append`. -/
theorem facts_agree_cached_slices_read_only :
    Generated.Lru.cachedSliceWrites = [] ∧
    Generated.Lru.cachedSliceUses =
      ["Read/outputBlock:copied from (copy source)", "Read/outputBlock:len", "Read:passed to closure outputBlock",
       "parseFragmentEntry:binary.LittleEndian.Uint32", "parseFragmentEntry:binary.LittleEndian.Uint64",
       "parseFragmentEntry:len", "readFragment:len", "readFragment:sub-slice returned", "readFragmentTable:len",
       "readFragmentTable:passed to parseFragmentEntry", "readMetaBlock:returned",
       "readMetadata:copied from (append source)", "readMetadata:len", "readUidsGids:copied from (append source)",
       "readXattrsTable:copied from (append source)"] := by decide

/-! ### non-vacuity -/

/-- two threads, cache of one block: thread 0 starts `get 5` and is in its fetch when thread 1's
    `get 6` evicts block 5; thread 0 still returns the right data, and a later `get 5` refetches. -/
example :
    let s := reach (fun p => (p * 7).toNat) 1 1 [[.get 5 true, .get 5 true], [.get 6 true]]
      ([0, 0, 0, 0, 0, 1, 1, 1, 1, 1, 1, 1, 1, 0, 0, 0, 0, 0, 0, 0, 0, 0, 0, 0])
    allDone s = true ∧
      s.threads.map (fun th => th.rets.map (·.2)) = [[Ret.miss 35, Ret.miss 35], [Ret.miss 42]] ∧
      s.c.cache.length = 1 := by decide
/-- a get waiting for a block lock while holding the cache lock (thread 1): nobody else can enter,
    the block's holder (thread 0, in its fetch) can move -/
example :
    let s := reach (fun p => p.toNat) 1 4 [[.get 5 true], [.get 5 true], [.setMax 0]] ([0, 0, 0, 0, 0, 1, 1, 1, 2])
    s.cacheOwner = some 1 ∧ (step (fun p => p.toNat) 1 s 1).isSome = false ∧
      (step (fun p => p.toNat) 1 s 2).isSome = false ∧ (step (fun p => p.toNat) 1 s 0).isSome = true := by decide
/-- maxBlocks 0 and negative: one block after a get, none after setMaxBlocks -/
example : (reach (fun p => p.toNat) 1 0 [[.get 5 true, .get 6 true]] (List.replicate 16 0)).c.cache.length = 1 := by decide
example : (reach (fun p => p.toNat) 1 (-3) [[.get 5 true, .setMax (-1)]] (List.replicate 16 0)).c.cache.length = 0 := by decide
/-- with `k = 0` in `add` (trim to maxBlocks, then insert) the size bound fails: the hypothesis `1 ≤ slack` is needed -/
example : ((reach (fun p => p.toNat) 0 2 [[.get 1 true, .get 2 true, .get 3 true]] (List.replicate 24 0)).c.cache.length : Int) = 3 := by decide
example : allFetchOk [[.get 1 true, .setMax 0]] := by
  intro p hp op hop pos; simp at hp; subst hp; simp at hop; rcases hop with rfl | rfl <;> simp

/-- a client whose second call depends on what the first returned; two of them and a resizer on a
    one-block cache, interleaved: both end with the lone reader's answer -/
example :
    let disk : Pos → Data := fun p => (p * 7).toNat
    let c : Client Nat := .get 1 fun r => match r with
      | some d => .get (Int.ofNat d) fun r2 => .done (r2.getD 0)
      | none => .done 0
    let z : Client Nat := .setMax 0 (.done 0)
    let s := reachC disk 1 1 [c, c, z] [1, 1, 1, 1, 0, 1, 0, 1, 1, 1, 0, 0, 2, 0, 2, 0, 2, 1, 1, 1, 1, 0, 1, 0, 1, 1, 1, 0, 0, 0, 0]
    allDone s = true ∧ c.result disk = 49 ∧
      s.threads.map (fun th => (c.feed th.rets).map (·.isDone)) = [some true, some true, none] := by decide
/-- a handle on a two-block file with a tail in the fragment block at 500: only the read that reaches the
    tail calls the cache; the lone reader's answers -/
example :
    let im : Image := ⟨fun loc _ _ => List.replicate 16 (UInt8.ofNat loc), fun d => List.replicate 20 (UInt8.ofNat d)⟩
    let f : FileD := ⟨16, 40, 100, [⟨16, false⟩, ⟨16, false⟩], some (500, 3)⟩
    let c := handleC im f HSt.fresh [.read 5, .read 5, .seek .end_ (-3), .read 9, .setCache 0] []
    c.ops (fun _ => 7) = [.get 500 true, .setMax 0] ∧
      (c.result (fun _ => 7)).map (·.devReads) = [1, 0, 0, 0, 0] ∧
      (c.result (fun _ => 7)).map (·.out) =
        [.data (List.replicate 5 100) false, .data (List.replicate 5 100) false, .pos (some 37),
         .data (List.replicate 3 7) true, .resized] := by decide
/-- fair rounds: three threads, round-robin -/
example : FairRound 3 [2, 0, 1, 1] := by intro t ht; have : t = 0 ∨ t = 1 ∨ t = 2 := by omega
                                         rcases this with rfl | rfl | rfl <;> simp

end Diskfs.Lru.C17
