/-
  C13 — Partition contents are streamed to and from exactly the partition.
  Property theorems only; helper lemmas live in Proofs/PartIO.lean.
  Quantifiers: every start/size (unbounded naturals, so also ≥ 2^32), every
  physical chunk size, every reader chunking (any list of chunks, incl. empty
  ones), every prior device content.
-/
import DiskfsModel.Proofs.PartIO
import DiskfsModel.Proofs.PartDisk
import DiskfsModel.Proofs.MbrRead
import DiskfsModel.Generated.PartIO
namespace Diskfs.PartIO.C13

/-- every WriteAt issued lies inside the partition — whatever the reader supplies -/
theorem write_in_partition (start size : Nat) (chunks : List Bytes) :
    ∀ w ∈ (writeContents start size chunks).ws,
      start ≤ w.off ∧ w.off + w.data.length ≤ start + size := by
  intro w hw
  exact writeLoop_in_range start size chunks 0 [] (by simp) w hw

/-- success ⇔ exactly the partition's size was supplied -/
theorem write_ok_iff (start size : Nat) (chunks : List Bytes) :
    (writeContents start size chunks).ok = true ↔ (chunks.map List.length).sum = size := by
  simpa [writeContents] using writeLoop_ok_iff start size chunks 0 []

/-- on success the partition holds exactly the supplied bytes (for every prior device content) -/
theorem write_effect (d : Dev) (start size : Nat) (chunks : List Bytes)
    (h : (writeContents start size chunks).ok = true) :
    readAt (applyWrs d (writeContents start size chunks).ws) start size = chunks.flatten := by
  have hs := (write_ok_iff start size chunks).1 h
  have := writeLoop_effect_le d start size chunks 0 [] [] (by simp [readAt]) rfl (by omega)
  simpa [writeContents, hs] using this

/-- whatever happens, no byte outside the partition changes -/
theorem write_frame (d : Dev) (start size : Nat) (chunks : List Bytes) (i : Nat)
    (hi : i < start ∨ start + size ≤ i) :
    applyWrs d (writeContents start size chunks).ws i = d i := by
  apply applyWrs_frame
  intro w hw
  have := write_in_partition start size chunks w hw
  omega

/-- the reported byte count on success is the partition size -/
theorem write_total (start size : Nat) (chunks : List Bytes)
    (h : (writeContents start size chunks).ok = true) :
    (writeContents start size chunks).total = size :=
  writeLoop_total start size chunks 0 [] h

/-- ReadContents returns exactly the partition's bytes, no more, no fewer, for every chunk size -/
theorem read_exact (d : Dev) (devSize start size pss : Nat)
    (hdev : start + size ≤ devSize) (hpss : 0 < pss) :
    readContents d devSize start size pss = (readAt d start size, size) := by
  have := readLoop_spec d devSize start size pss 0 [] hdev hpss (Nat.zero_le _)
  simpa [readContents] using this

/-- every ReadAt that ReadContents issues stays inside the partition, is at most one physical-sector
    chunk long, and the requests together ask for exactly the partition's size -/
theorem read_requests_inside (devSize start size pss : Nat)
    (hdev : start + size ≤ devSize) (hpss : 0 < pss) :
    (∀ r ∈ readReqs devSize start size pss 0 [], start ≤ r.1 ∧ r.1 + r.2 ≤ start + size ∧ r.2 ≤ pss) ∧
    ((readReqs devSize start size pss 0 []).map (·.2)).sum = size := by
  obtain ⟨ext, he, hin, hsum⟩ := readReqs_spec_aux devSize start size pss hdev hpss size 0 [] (by omega) (by omega)
  rw [he]
  constructor
  · intro r hr
    have := hin r (by simpa using hr)
    omega
  · simpa using hsum

/-- CopyPartitionRaw (sequential composition): if the source fits into the target, the target's
    leading bytes equal the source partition, for every chunking the pipe produces. -/
theorem copy_prefix (d : Dev) (devSize sStart sSize tStart tSize pss : Nat) (chunks : List Bytes)
    (hdev : sStart + sSize ≤ devSize) (hpss : 0 < pss) (hfit : sSize ≤ tSize)
    (hchunks : chunks.flatten = (readContents d devSize sStart sSize pss).1) :
    readAt (applyWrs d (writeContents tStart tSize chunks).ws) tStart sSize = readAt d sStart sSize := by
  rw [read_exact d devSize sStart sSize pss hdev hpss] at hchunks
  have hsum : (chunks.map List.length).sum = sSize := by
    have := congrArg List.length hchunks
    simpa [List.length_flatten] using this
  have := writeLoop_effect_le d tStart tSize chunks 0 [] [] (by simp [readAt]) rfl (by omega)
  simpa [writeContents, hsum, hchunks] using this

/-- GPT start/end/size reconciliation never yields a size other than the entry's own -/
theorem gpt_reconcile_size (pStart pEnd pSize lss sz : Nat)
    (h : gptReconcile pStart pEnd pSize lss = some sz) :
    (pSize > 0 ∧ sz = pSize) ∨ (pSize = 0 ∧ pEnd ≥ pStart ∧ sz = (pEnd + 1 - pStart) * lss) := by
  unfold gptReconcile at h
  simp only at h
  split at h
  · left; simp_all
  · split at h
    · right; simp_all
    · split at h
      · left; simp_all
      · simp at h

/-! ### disk level: which partition Disk.WritePartitionContents / ReadPartitionContents / CopyPartitionRaw address

  Model/PartDisk.lean mirrors Disk.GetPartition (first entry of `Table.GetPartitions()` whose `GetIndex()` equals
  the argument), the start/end/size switch at the head of gpt WriteContents, `sectorSizes()` and the io.Pipe of
  CopyPartitionRaw in front of the streaming loops above.  Every theorem quantifies over EVERY table (any list of
  partitions: sparse GPT slots, duplicate, zero or negative indices, MBR slots, partitions never stamped with a
  sector size), every index, every reader chunking and every device content. -/

open Diskfs.PartDisk

/-- the lookup picks the FIRST partition that carries the index: it has that index and nothing in front of it does -/
theorem disk_lookup_first (ps : List P) (idx : Int) (p : P) (h : getPartition ps idx = some p) :
    p.index = idx ∧ ∃ pre post, ps = pre ++ p :: post ∧ ∀ q ∈ pre, q.index ≠ idx :=
  getPartition_some ps idx p h

/-- the lookup fails exactly when no partition of the table carries the index (index 0 of a table numbered from 1,
    an index past the last slot, an unused sparse GPT slot, a negative index) -/
theorem disk_lookup_none_iff (ps : List P) (idx : Int) : getPartition ps idx = none ↔ ∀ q ∈ ps, q.index ≠ idx :=
  getPartition_none ps idx

/-- with pairwise different indices (what gpt.Read / mbr.Read produce) the lookup returns THE partition with the index -/
theorem disk_lookup_unique (ps : List P) (idx : Int) (p : P) (hp : p ∈ ps) (hi : p.index = idx)
    (huniq : ∀ a ∈ ps, ∀ b ∈ ps, a.index = b.index → a = b) : getPartition ps idx = some p :=
  getPartition_unique ps idx p hp hi huniq

/-- what the start/end/size switch of gpt WriteContents leaves: kind, index, start and sector sizes are kept
    (so the byte start is), MBR is untouched, and the byte size is the entry's own Size when set, else the size
    computed from End -/
theorem reconcile_range (p p' : P) (h : reconcile p = some p') :
    p'.kind = p.kind ∧ p'.index = p.index ∧ p'.start = p.start ∧ p'.lss = p.lss ∧ p'.pss = p.pss ∧
    p'.byteStart = p.byteStart ∧ (p.kind = .mbr → p' = p) ∧
    (p.kind = .gpt → (0 < p.size ∧ p'.byteSize = p.size) ∨
                      (p.size = 0 ∧ p.start ≤ p.end_ ∧ p'.byteSize = calcSize p)) :=
  reconcile_spec p p' h

/-- the uint64 expression `(End - Start + 1) * lss` is the plain product whenever that does not wrap -/
theorem calc_size_exact (p : P) (h1 : p.start ≤ p.end_) (h2 : p.end_ < two64)
    (h3 : (p.end_ - p.start + 1) * p.lssOf < two64) : calcSize p = (p.end_ - p.start + 1) * p.lssOf :=
  calcSize_exact p h1 h2 h3

/-- a GPT partition as gpt.Read returns it (Size = (End-Start+1)*lss) passes the switch unchanged -/
theorem reconcile_read_back (p : P) (hk : p.kind = .gpt) (h1 : p.start ≤ p.end_) (h2 : p.end_ < two64)
    (h3 : (p.end_ - p.start + 1) * p.lssOf < two64) (hs : p.size = (p.end_ - p.start + 1) * p.lssOf) :
    reconcile p = some p :=
  reconcile_consistent p hk h1 h2 h3 hs

/-- WritePartitionContents, unconditionally: a WriteAt is issued only if the table exists, the index names a
    partition and its fields reconcile — and then it lies inside the byte range of the FIRST partition with that index -/
theorem disk_write_in_partition (tbl : Option (List P)) (idx : Int) (chunks : List Bytes) (w : Wr)
    (hw : w ∈ (diskWrite tbl idx chunks).ws) :
    ∃ ps p p', tbl = some ps ∧ getPartition ps idx = some p ∧ reconcile p = some p' ∧
      p.byteStart ≤ w.off ∧ w.off + w.data.length ≤ p.byteStart + p'.byteSize :=
  diskWrite_in_partition tbl idx chunks w hw

/-- a partition VALUE handed DIRECTLY to Partition.WriteContents (no Disk, no table lookup), in every spelling
    (Start+End, Start+Size with End = 0, all three fields, contradictory ones; stamped or not): fields that do not
    reconcile are refused before anything is written; otherwise every WriteAt lies inside the byte range of the
    partition as the switch leaves it — whatever the reader supplies, however much too long —, success iff exactly
    that many bytes were supplied, on success the range holds the supplied bytes, and no byte outside it changes -/
theorem part_write_direct (d : Dev) (p : P) (chunks : List Bytes) :
    (reconcile p = none → partWrite p chunks = none) ∧
    (∀ p', reconcile p = some p' → ∃ r, partWrite p chunks = some (r, p') ∧
        (∀ w ∈ r.ws, p.byteStart ≤ w.off ∧ w.off + w.data.length ≤ p.byteStart + p'.byteSize) ∧
        (r.ok = true ↔ (chunks.map List.length).sum = p'.byteSize) ∧
        (r.ok = true → readAt (applyWrs d r.ws) p.byteStart p'.byteSize = chunks.flatten) ∧
        (∀ i, i < p.byteStart ∨ p.byteStart + p'.byteSize ≤ i → applyWrs d r.ws i = d i)) := by
  refine ⟨fun h => by simp [partWrite, h], fun p' hr => ?_⟩
  have hb : p'.byteStart = p.byteStart := (reconcile_spec p p' hr).2.2.2.2.2.1
  refine ⟨writeContents p'.byteStart p'.byteSize chunks, by simp [partWrite, hr], ?_, ?_, ?_, ?_⟩
  · intro w hw
    have := write_in_partition p'.byteStart p'.byteSize chunks w hw
    rw [hb] at this; exact this
  · exact write_ok_iff _ _ _
  · intro hok; rw [← hb]; exact write_effect d _ _ _ hok
  · intro i hi; rw [← hb] at hi; exact write_frame d _ _ _ i hi

/-- the Start+Size spelling (End = 0, Size a positive multiple of the sector size): accepted, and the bound of the
    write loop is the entry's own Size — not the size computed from End, which has wrapped in uint64 (End - Start + 1
    with End = 0); End is assigned Start + Size/lss - 1 -/
theorem start_size_spelling (p : P) (hk : p.kind = .gpt) (he : p.end_ = 0) (hs : 0 < p.size)
    (hm : p.size % p.lssOf = 0) :
    ∃ p', reconcile p = some p' ∧ p'.byteSize = p.size ∧ p'.byteStart = p.byteStart ∧
      (p.size ≠ calcSize p → p'.end_ = (p.start + p.size / p.lssOf + two64 - 1) % two64) := by
  by_cases hc : p.size = calcSize p
  · refine ⟨p, ?_, byteSize_gpt p hk, rfl, fun h => absurd hc h⟩
    simp only [reconcile, hk]
    rw [if_pos ⟨hs, hc⟩]
  · have h2 : ¬ (p.size = 0 ∧ p.end_ ≥ p.start) := by omega
    refine ⟨{ p with end_ := (p.start + p.size / p.lssOf + two64 - 1) % two64 }, ?_, ?_, ?_, fun _ => rfl⟩
    · simp only [reconcile, hk]
      rw [if_neg (by intro h; exact hc h.2), if_neg h2, if_pos ⟨hs, hm, he⟩]
    · simp [P.byteSize, hk]
    · simp [P.byteStart, P.lssOf]

/-- no table, no such index (index 0, out of range, unused slot) or irreconcilable fields: nothing is written -/
theorem disk_write_refused_writes_nothing (ps : List P) (idx : Int) (chunks : List Bytes) :
    (diskWrite none idx chunks).ws = [] ∧
    (getPartition ps idx = none → (diskWrite (some ps) idx chunks).ws = []) ∧
    (∀ p, getPartition ps idx = some p → reconcile p = none → (diskWrite (some ps) idx chunks).ws = []) :=
  ⟨rfl, diskWrite_badIndex ps idx chunks, fun p h hr => diskWrite_unreconciled ps idx chunks p h hr⟩

/-- WritePartitionContents on the partition the lookup picks: success iff exactly its size was supplied; on
    success the partition holds exactly the supplied bytes; in every case no byte outside it changes -/
theorem disk_write_effect (d : Dev) (ps : List P) (idx : Int) (chunks : List Bytes) (p p' : P)
    (hg : getPartition ps idx = some p) (hr : reconcile p = some p') :
    ∃ r, diskWrite (some ps) idx chunks = .done r ∧
      (r.ok = true ↔ (chunks.map List.length).sum = p'.byteSize) ∧
      (r.ok = true → readAt (applyWrs d r.ws) p.byteStart p'.byteSize = chunks.flatten) ∧
      (∀ i, i < p.byteStart ∨ p.byteStart + p'.byteSize ≤ i → applyWrs d r.ws i = d i) := by
  have hb : p'.byteStart = p.byteStart := (reconcile_spec p p' hr).2.2.2.2.2.1
  refine ⟨_, diskWrite_done ps idx chunks p p' hg hr, ?_, ?_, ?_⟩
  · exact write_ok_iff _ _ _
  · intro hok; rw [← hb]; exact write_effect d _ _ _ hok
  · intro i hi; rw [← hb] at hi; exact write_frame d _ _ _ i hi

/-- hence any OTHER partition whose byte range does not overlap the addressed one keeps its contents, whatever
    the reader supplies -/
theorem disk_write_other_partition_untouched (d : Dev) (tbl : Option (List P)) (idx : Int) (chunks : List Bytes) (q : P)
    (hq : ∀ ps p p', tbl = some ps → getPartition ps idx = some p → reconcile p = some p' →
      q.byteStart + q.byteSize ≤ p.byteStart ∨ p.byteStart + p'.byteSize ≤ q.byteStart) :
    readAt (applyWrs d (diskWrite tbl idx chunks).ws) q.byteStart q.byteSize = readAt d q.byteStart q.byteSize := by
  apply readAt_congr
  intro i h1 h2
  apply applyWrs_frame
  intro w hw
  obtain ⟨ps, p, p', h0, hg, hr, hlo, hhi⟩ := diskWrite_in_partition tbl idx chunks w hw
  have := hq ps p p' h0 hg hr
  omega

/-- ReadPartitionContents: for the partition the lookup picks (inside the device; not the GPT Size = 0 case) the
    writer receives exactly the partition's bytes, the count is its size, and every ReadAt stays inside it and is
    at most one physical-sector chunk long -/
theorem disk_read_exact (d : Dev) (devSize : Nat) (ps : List P) (idx : Int) (p : P)
    (hg : getPartition ps idx = some p) (hsz : p.kind = .gpt → 0 < p.size)
    (hdev : p.byteStart + p.byteSize ≤ devSize) :
    diskRead d devSize (some ps) idx = .done (readAt d p.byteStart p.byteSize) p.byteSize (partReadReqs devSize p) ∧
    (∀ r ∈ partReadReqs devSize p, p.byteStart ≤ r.1 ∧ r.1 + r.2 ≤ p.byteStart + p.byteSize ∧ r.2 ≤ p.pssOf) ∧
    ((partReadReqs devSize p).map (·.2)).sum = p.byteSize := by
  have h1 := oneChunk_false_of_size p hsz
  refine ⟨?_, partReadReqs_inside devSize p h1 hdev⟩
  simp only [diskRead, hg, partRead_exact d devSize p h1 hdev]

/-- ReadPartitionContents on a missing table / index reads nothing -/
theorem disk_read_refused (d : Dev) (devSize : Nat) (ps : List P) (idx : Int) (h : getPartition ps idx = none) :
    diskRead d devSize (some ps) idx = .badIndex ∧ diskRead d devSize none idx = .noTable := by
  simp [diskRead, h]

/-- CopyPartitionRaw, unconditionally: every WriteAt lies inside the target partition (source missing, larger
    than the target, overlapping, unreadable: all included) -/
theorem copy_in_target (d : Dev) (devSize : Nat) (ps : List P) (from_ to : Int) (w : Wr)
    (hw : w ∈ (copyRaw d devSize ps from_ to).ws) :
    ∃ tp tp', getPartition ps to = some tp ∧ reconcile tp = some tp' ∧
      tp.byteStart ≤ w.off ∧ w.off + w.data.length ≤ tp.byteStart + tp'.byteSize :=
  copyRaw_in_target d devSize ps from_ to w hw

/-- CopyPartitionRaw is correct whenever it can be: source and (reconciled) target inside the device, target at
    least as large, ranges disjoint.  Then the outcome is success (the verification pass included), the target's
    leading bytes are the source's bytes, the source still holds them and nothing outside the target changed — for
    every device content and every pair of physical sector sizes of the two partitions -/
theorem copy_correct (d : Dev) (devSize : Nat) (ps : List P) (from_ to : Int) (sp tp tp' : P)
    (hs : getPartition ps from_ = some sp) (ht : getPartition ps to = some tp) (hr : reconcile tp = some tp')
    (hne : from_ ≠ to) (hpos : 0 < sp.byteSize)
    (hsdev : sp.byteStart + sp.byteSize ≤ devSize) (htdev : tp.byteStart + tp'.byteSize ≤ devSize)
    (hfit : sp.byteSize ≤ tp'.byteSize)
    (hdisj : sp.byteStart + sp.byteSize ≤ tp.byteStart ∨ tp.byteStart + tp'.byteSize ≤ sp.byteStart) :
    (copyRaw d devSize ps from_ to).out = .ok ∧
    readAt (applyWrs d (copyRaw d devSize ps from_ to).ws) tp.byteStart sp.byteSize = readAt d sp.byteStart sp.byteSize ∧
    readAt (applyWrs d (copyRaw d devSize ps from_ to).ws) sp.byteStart sp.byteSize = readAt d sp.byteStart sp.byteSize ∧
    (∀ i, i < tp.byteStart ∨ tp.byteStart + tp'.byteSize ≤ i → applyWrs d (copyRaw d devSize ps from_ to).ws i = d i) :=
  copyRaw_correct d devSize ps from_ to sp tp tp' hs ht hr hne hpos hsdev htdev hfit hdisj

/-! ### from the bytes of an MBR to the bytes of a partition: mbr.Read, then Disk.GetPartition, then the stream -/

/-- after mbr.Read with sector sizes (lbs, pbs) — any Ints; 512 stands in when not positive — Disk.GetPartition(k)
    for k = 1..4 finds slot k, whose byte range is [Start*L, (Start+Size)*L) with L the stamped LOGICAL sector size
    (so also on 4096-byte sectors) and whose chunk size is the stamped physical sector size -/
theorem mbr_read_then_lookup (d : Dev) (devSize : Nat) (lbs pbs : Int) (t : Mbr.Table)
    (h : (Mbr.readT d devSize lbs pbs).1 = .ok t) (k : Nat) (hk : k < 4) :
    ∃ p, t.parts[k]? = some p ∧ p.index = k + 1 ∧
      getPartition t.diskParts ((k + 1 : Nat) : Int) = some (Mbr.toP t p) ∧
      (Mbr.toP t p).byteStart = p.start * Mbr.stamp lbs ∧ (Mbr.toP t p).byteSize = p.size * Mbr.stamp lbs ∧
      (Mbr.toP t p).pssOf = Mbr.stamp pbs ∧ reconcile (Mbr.toP t p) = some (Mbr.toP t p) :=
  Mbr.readT_lookup d devSize lbs pbs t h k hk

/-- end to end for MBR: whatever the first sector holds, if mbr.Read accepts it then WritePartitionContents(k), k = 1..4,
    writes only inside [Start_k * L, (Start_k + Size_k) * L) of slot k as decoded from the device bytes -/
theorem mbr_read_then_write_in_slot (d : Dev) (devSize : Nat) (lbs pbs : Int) (t : Mbr.Table)
    (h : (Mbr.readT d devSize lbs pbs).1 = .ok t) (k : Nat) (hk : k < 4) (chunks : List Bytes) (w : Wr)
    (hw : w ∈ (diskWrite (some t.diskParts) ((k + 1 : Nat) : Int) chunks).ws) :
    ∃ p, t.parts[k]? = some p ∧ p.start * Mbr.stamp lbs ≤ w.off ∧
      w.off + w.data.length ≤ p.start * Mbr.stamp lbs + p.size * Mbr.stamp lbs := by
  obtain ⟨p, hp, _, hg, hs, hz, _, hr⟩ := Mbr.readT_lookup d devSize lbs pbs t h k hk
  obtain ⟨ps, q, q', h0, hg', hr', hlo, hhi⟩ := diskWrite_in_partition _ _ chunks w hw
  cases h0
  rw [hg] at hg'
  cases hg'
  rw [hr] at hr'
  cases hr'
  exact ⟨p, hp, by rw [← hs]; exact hlo, by rw [← hs, ← hz]; exact hhi⟩

/-! non-vacuity of the disk-level theorems: a sparse GPT table (slots 3 and 7 used, 4096-byte logical sectors on
    the second, different physical sector sizes) and an MBR slot -/
def exA : P := { kind := .gpt, index := 3, start := 2048, end_ := 4095, size := 1048576, lss := 512, pss := 512 }
def exB : P := { kind := .gpt, index := 7, start := 1024, end_ := 2047, size := 0, lss := 4096, pss := 4096 }
def exM : P := { kind := .mbr, index := 1, start := 63, end_ := 0, size := 100, lss := 0, pss := 0 }
example : getPartition [exA, exB] 7 = some exB ∧ getPartition [exA, exB] 0 = none ∧ getPartition [exA, exB] 4 = none ∧
    getPartition [exA, exB, exA] 3 = some exA ∧ getPartition [exA, exB] (-1) = none := by decide
example : reconcile exA = some exA ∧ reconcile exB = some { exB with size := 4194304 } ∧ reconcile exM = some exM ∧
    reconcile { exA with size := 5 } = none := by decide
example : exA.byteStart = 1048576 ∧ exB.byteStart = 4194304 ∧ exM.byteStart = 32256 ∧ exM.byteSize = 51200 := by decide
-- the hypotheses of copy_correct hold for 3 → 7 (1 MiB source, 4 MiB target behind it, device of 16 MiB)
example : getPartition [exA, exB] 3 = some exA ∧ getPartition [exA, exB] 7 = some exB ∧
    reconcile exB = some { exB with size := 4194304 } ∧ 0 < exA.byteSize ∧ exA.byteStart + exA.byteSize ≤ 16777216 ∧
    exB.byteStart + ({ exB with size := 4194304 } : P).byteSize ≤ 16777216 ∧
    exA.byteSize ≤ ({ exB with size := 4194304 } : P).byteSize ∧ exA.byteStart + exA.byteSize ≤ exB.byteStart := by decide

/-- pinned facts regenerated from partition/mbr/partition.go: the four byte offset / size
    products are computed in 64-bit arithmetic, which is what lets the model use unbounded naturals
    (sector counts are < 2^32 and sector sizes ≤ 4096, so no 64-bit product wraps). -/
theorem facts_agree_mbr_widths :
    64 ≤ Generated.PartIO.mbrWriteContents_start_width ∧ 64 ≤ Generated.PartIO.mbrWriteContents_size_width ∧
    64 ≤ Generated.PartIO.mbrReadContents_start_width ∧ 64 ≤ Generated.PartIO.mbrReadContents_size_width := by
  decide

/-- pinned facts regenerated from disk/disk.go and partition/mbr/table.go, the shapes the dispatch models rely on:
    Disk.GetPartition breaks out of its loop on the first partition whose GetIndex() equals the argument
    (`getPartition` = `find?`); mbr.Read allocates 512 bytes and stamps the logical / physical sector size on the
    table and on every partition exactly when the value handed in is > 0 (`Mbr.stamp`); mbr.Table.Write begins by
    refusing more than four partitions (`Mbr.writeT`) -/
theorem facts_agree_dispatch :
    Generated.PartIO.getPartitionFirstMatch = true ∧
    Generated.PartIO.mbrReadStamps =
      ["logicalBlockSize>0:LogicalSectorSize:logicalSectorSize", "physicalBlockSize>0:PhysicalSectorSize:physicalSectorSize"] ∧
    Generated.PartIO.mbrReadBufLen = 512 ∧
    Generated.PartIO.mbrWriteMaxParts = 4 ∧ Generated.PartIO.mbrWriteRefusesFirst = true := by
  decide

/-! non-vacuity: concrete instances meeting the hypotheses -/
-- Start+Size spelling handed directly to WriteContents, reader oversupplying by several chunks: refused at the
-- first chunk that would cross the partition's end (2 sectors at LBA 2048; 4-byte sectors keep `decide` small),
-- nothing written beyond it, End assigned
example : (partWrite ⟨.gpt, 1, 2048, 0, 8, 4, 4⟩ [[1,2,3,4], [5,6,7,8], [9,9,9,9], [9,9,9,9]]).map
    (fun x => (x.1.ws.map (fun w => (w.off, w.data.length)), x.1.total, x.1.ok, x.2.end_)) =
    some ([(8192, 4), (8196, 4)], 8, false, 2049) := by decide
example : (8 : Nat) ≠ calcSize ⟨.gpt, 1, 2048, 0, 8, 4, 4⟩ := by decide
example : (writeContents 5368709120 6 [[1,2,3], [], [4,5,6]]).ok = true := by decide
example : (writeContents 10 4 [[1,2,3]]).ok = false := by decide
example : (writeContents 10 4 [[1,2,3],[4,5]]).ok = false := by decide
example : (readContents (fun i => UInt8.ofNat i) 100 3 5 4).1 = [3,4,5,6,7] := by
  simp [readContents, readLoop, readAt]; decide

end Diskfs.PartIO.C13
