/-
  C13 — Partition contents are streamed to and from exactly the partition.
  Property theorems only; helper lemmas live in Proofs/PartIO.lean.
  Quantifiers: every start/size (unbounded naturals, so also ≥ 2^32), every
  physical chunk size, every reader chunking (any list of chunks, incl. empty
  ones), every prior device content.
-/
import DiskfsModel.Proofs.PartIO
import DiskfsModel.Generated.PartIO
namespace Diskfs.PartIO.C13

/-- every WriteAt issued lies inside the partition — whatever the reader supplies -/
theorem write_in_partition (start size : Nat) (chunks : List Bytes) :
    ∀ w ∈ (writeContents start size chunks).ws,
      start ≤ w.off ∧ w.off + w.data.length ≤ start + size := by
  intro w hw
  exact writeLoop_in_range start size chunks 0 [] (by simp) w hw

/-- success ⇔ exactly the partition's size was supplied -/
theorem write_ok_iff (start size : Nat) (chunks : List Bytes) :
    (writeContents start size chunks).ok = true ↔ (chunks.map List.length).sum = size := by
  simpa [writeContents] using writeLoop_ok_iff start size chunks 0 []

/-- on success the partition holds exactly the supplied bytes (for every prior device content) -/
theorem write_effect (d : Dev) (start size : Nat) (chunks : List Bytes)
    (h : (writeContents start size chunks).ok = true) :
    readAt (applyWrs d (writeContents start size chunks).ws) start size = chunks.flatten := by
  have hs := (write_ok_iff start size chunks).1 h
  have := writeLoop_effect_le d start size chunks 0 [] [] (by simp [readAt]) rfl (by omega)
  simpa [writeContents, hs] using this

/-- whatever happens, no byte outside the partition changes -/
theorem write_frame (d : Dev) (start size : Nat) (chunks : List Bytes) (i : Nat)
    (hi : i < start ∨ start + size ≤ i) :
    applyWrs d (writeContents start size chunks).ws i = d i := by
  apply applyWrs_frame
  intro w hw
  have := write_in_partition start size chunks w hw
  omega

/-- the reported byte count on success is the partition size -/
theorem write_total (start size : Nat) (chunks : List Bytes)
    (h : (writeContents start size chunks).ok = true) :
    (writeContents start size chunks).total = size :=
  writeLoop_total start size chunks 0 [] h

/-- ReadContents returns exactly the partition's bytes, no more, no fewer, for every chunk size -/
theorem read_exact (d : Dev) (devSize start size pss : Nat)
    (hdev : start + size ≤ devSize) (hpss : 0 < pss) :
    readContents d devSize start size pss = (readAt d start size, size) := by
  have := readLoop_spec d devSize start size pss 0 [] hdev hpss (Nat.zero_le _)
  simpa [readContents] using this

/-- every ReadAt that ReadContents issues stays inside the partition, is at most one physical-sector
    chunk long, and the requests together ask for exactly the partition's size -/
theorem read_requests_inside (devSize start size pss : Nat)
    (hdev : start + size ≤ devSize) (hpss : 0 < pss) :
    (∀ r ∈ readReqs devSize start size pss 0 [], start ≤ r.1 ∧ r.1 + r.2 ≤ start + size ∧ r.2 ≤ pss) ∧
    ((readReqs devSize start size pss 0 []).map (·.2)).sum = size := by
  obtain ⟨ext, he, hin, hsum⟩ := readReqs_spec_aux devSize start size pss hdev hpss size 0 [] (by omega) (by omega)
  rw [he]
  constructor
  · intro r hr
    have := hin r (by simpa using hr)
    omega
  · simpa using hsum

/-- CopyPartitionRaw (sequential composition): if the source fits into the target, the target's
    leading bytes equal the source partition, for every chunking the pipe produces. -/
theorem copy_prefix (d : Dev) (devSize sStart sSize tStart tSize pss : Nat) (chunks : List Bytes)
    (hdev : sStart + sSize ≤ devSize) (hpss : 0 < pss) (hfit : sSize ≤ tSize)
    (hchunks : chunks.flatten = (readContents d devSize sStart sSize pss).1) :
    readAt (applyWrs d (writeContents tStart tSize chunks).ws) tStart sSize = readAt d sStart sSize := by
  rw [read_exact d devSize sStart sSize pss hdev hpss] at hchunks
  have hsum : (chunks.map List.length).sum = sSize := by
    have := congrArg List.length hchunks
    simpa [List.length_flatten] using this
  have := writeLoop_effect_le d tStart tSize chunks 0 [] [] (by simp [readAt]) rfl (by omega)
  simpa [writeContents, hsum, hchunks] using this

/-- GPT start/end/size reconciliation never yields a size other than the entry's own -/
theorem gpt_reconcile_size (pStart pEnd pSize lss sz : Nat)
    (h : gptReconcile pStart pEnd pSize lss = some sz) :
    (pSize > 0 ∧ sz = pSize) ∨ (pSize = 0 ∧ pEnd ≥ pStart ∧ sz = (pEnd + 1 - pStart) * lss) := by
  unfold gptReconcile at h
  simp only at h
  split at h
  · left; simp_all
  · split at h
    · right; simp_all
    · split at h
      · left; simp_all
      · simp at h

/-- pinned facts regenerated from partition/mbr/partition.go: the four byte offset / size
    products are computed in 64-bit arithmetic, which is what lets the model use unbounded naturals
    (sector counts are < 2^32 and sector sizes ≤ 4096, so no 64-bit product wraps). -/
theorem facts_agree_mbr_widths :
    64 ≤ Generated.PartIO.mbrWriteContents_start_width ∧ 64 ≤ Generated.PartIO.mbrWriteContents_size_width ∧
    64 ≤ Generated.PartIO.mbrReadContents_start_width ∧ 64 ≤ Generated.PartIO.mbrReadContents_size_width := by
  decide

/-! non-vacuity: concrete instances meeting the hypotheses -/
example : (writeContents 5368709120 6 [[1,2,3], [], [4,5,6]]).ok = true := by decide
example : (writeContents 10 4 [[1,2,3]]).ok = false := by decide
example : (writeContents 10 4 [[1,2,3],[4,5]]).ok = false := by decide
example : (readContents (fun i => UInt8.ofNat i) 100 3 5 4).1 = [3,4,5,6,7] := by
  simp [readContents, readLoop, readAt]; decide

end Diskfs.PartIO.C13
