/-
  C05 — every ext4 image the library produces is clean for e2fsck.
  e2fsck itself is outside Lean: it is the property's own observation point and the engine's oracle.
  Proved here, for all inputs, about the logic that decides whether pass 5 (group summary) and the layout can
  be right at all:

  * the accounting machine (Model/Ext4/Alloc.lean): `AccInv` — every group's free counters equal the number of
    clear bits of its bitmaps and the superblock counters equal the sums — is preserved by allocateExtents for
    every answer of the allocation policy, by deallocateExtents, by allocateInode, by Remove's release of an
    inode and its blocks (repaired bookkeeping, `remove_restores_inv`) and by every REFUSED call
    (`accounting_inv`, `accounting_inv_history` for all sequences of these); Remove's accounting as found
    (before fix cde94d7) breaks it on a concrete state (`cex_ext4_remove_accounting`).
  * the mkfs layout arithmetic (Model/Ext4/Mkfs.lean) for every accepted parameter set: counts are consistent
    (inodes per group a multiple of 8, inode count = groups × inodes per group, the groups exactly cover the
    blocks), and — when the metadata fits behind the flex owner (`Fits`, decidable, checked by the driver for
    every generated parameter set) — the per-group metadata regions are pairwise disjoint, lie behind the
    superblock / GDT copy and inside the owner's block group (`mkfs_regions_disjoint`, `mkfs_layout_inside`).
  * the block bitmap of every group as Create builds it (Model/Ext4/MkfsBitmap.lean: `mkBitmaps`, `markedBit`): under
    `Fits` the marked bits among a group's real blocks are exactly the prefix of length `overhead` — superblock,
    ceil(groups × descriptor size / block size) GDT blocks and the reserved GDT blocks in a group with a backup,
    then the slots of the group itself / of its whole flex group (`mkfs_bitmap_marked`,
    `mkfs_bitmap_backup_group`, `_noflex`) — and the descriptor's free count is the group size minus the
    number of marked bits (`mkfs_free_is_unmarked`).

  * link counts and used-directories counters (Model/Ext4/Links.lean): the bookkeeping of Mkdir / create / Symlink
    and Remove keeps "a directory has 2 + #sub-directories links, everything else 1, each group's counter is the
    number of its directory inodes" along every history (`links_inv`, `links_inv_history`).

  PARTIAL: journal, resize inode, the contents of extent-tree blocks, directory blocks and checksums are
  not modelled; that the blocks Remove releases are exactly the marked blocks the inode owns is a hypothesis of
  `remove_restores_inv` (checked on every Remove of the sampled histories by the correspondence).
-/
import DiskfsModel.Proofs.Ext4Alloc
import DiskfsModel.Proofs.Ext4AllocSlow
import DiskfsModel.Proofs.Ext4Mkfs
import DiskfsModel.Proofs.Ext4MkfsBitmap
import DiskfsModel.Proofs.Ext4Links
import DiskfsModel.Proofs.Ext4Own
import DiskfsModel.Proofs.Ext4DirGrow
namespace Diskfs.Ext4.C05
open Diskfs.Ext4 Diskfs.Ext4.Alloc Diskfs.Ext4.Mkfs

/-! ### accounting -/

/-- accounting_inv: every operation of the machine — carried out or refused — keeps counters = bitmaps -/
theorem accounting_inv (s : Acc) (op : Op) (h : AccInv s) : AccInv (step s op).state := by
  cases op with
  | alloc n c => exact allocExtents_inv s n c h
  | dealloc rs => exact deallocExtents_inv s rs h
  | newInode d => exact allocInode_inv s d h
  | remove geo ino blocks d => exact removeOp_inv geo s ino blocks d h
  | free geo blocks => exact freeBlocksOp_inv geo s blocks h

/-- a refused allocation leaves the state untouched -/
theorem alloc_refused_unchanged (s : Acc) (n : Nat) (c : Option (List Run)) (s' : Acc)
    (h : allocExtents s n c = .refused s') : s' = s := by
  unfold allocExtents at h
  split at h
  · cases h; rfl
  · split at h
    · cases h; rfl
    · split at h
      · cases h
      · cases h; rfl

/-- histories: the invariant survives every sequence of operations -/
theorem accounting_inv_history (ops : List Op) (s : Acc) (h : AccInv s) :
    AccInv (ops.foldl (fun s op => (step s op).state) s) := by
  induction ops generalizing s with
  | nil => exact h
  | cons op ops ih => exact ih _ (accounting_inv s op h)

/-- alloc_policy_accepted: with consistent counters, allocateExtents carried out with its own choice of blocks
    (fast path, else slow path, any order of the sort) is accepted by the machine whenever it finds blocks, keeps
    `counters = bitmaps`, lowers the superblock counter by exactly `n`, and is refused — leaving the state
    untouched — only when fewer than `n` blocks are free or more than 65535 are asked for. -/
theorem alloc_policy_accepted (order : Nat → List (Nat × Nat) → List (Nat × Nat))
    (horder : ∀ g l, (order g l).Perm l) (s : Acc) (n : Nat) (hn : 0 < n) (h : AccInv s) :
    (∃ s', allocExtents s n (allocPolicy order (s.groups.map (·.bbm)) n) = .ok s' ∧ AccInv s' ∧
      s'.sbFreeBlocks + n = s.sbFreeBlocks) ∨
    (allocExtents s n (allocPolicy order (s.groups.map (·.bbm)) n) = .refused s ∧
      (maxUint16 < n ∨ s.sbFreeBlocks < n)) := by
  have htot : totalFree (s.groups.map (·.bbm)) = s.sbFreeBlocks := by
    obtain ⟨hg, hb, _⟩ := h
    rw [hb]
    simp only [totalFree, List.map_map]
    congr 1
    apply List.map_congr_left
    intro g hgm
    exact ((hg g hgm).1).symm
  obtain ⟨h1, h2⟩ := allocPolicy_spec order horder s n hn
  by_cases hfree : s.sbFreeBlocks < n
  · right
    exact ⟨by simp [allocExtents, hfree], Or.inr hfree⟩
  · cases hp : allocPolicy order (s.groups.map (·.bbm)) n with
    | none =>
      right
      refine ⟨by simp [allocExtents, hfree], ?_⟩
      rcases h2 hp with h3 | h3
      · exact Or.inl h3
      · right; omega
    | some rs =>
      left
      obtain ⟨_, _, hsum, hok⟩ := h1 rs hp
      have hinv := allocExtents_inv s n (some rs) h
      have hres : allocExtents s n (some rs) =
          .ok { rs.foldl markRun s with sbFreeBlocks := (rs.foldl markRun s).sbFreeBlocks - n } := by
        simp [allocExtents, hfree, hok, hsum]
      rw [hres] at hinv ⊢
      refine ⟨_, rfl, hinv, ?_⟩
      have hsb : ∀ (l : List Run) (t : Acc), (l.foldl markRun t).sbFreeBlocks = t.sbFreeBlocks := by
        intro l
        induction l with
        | nil => intro t; rfl
        | cons r l ih => intro t; simp only [List.foldl_cons]; rw [ih]; rfl
      simp only [hsb]
      omega

/-- remove_restores_inv: Remove's bookkeeping as it is now — every block of the inode (data and extent-tree
    blocks) cleared at bit `(b - firstDataBlock) % blocksPerGroup` of group `(b - firstDataBlock) / blocksPerGroup`,
    that group's counter moved by one per cleared bit, the inode's bit `(ino-1) % inodesPerGroup` cleared, the
    group's free-inode (and used-directories) counter and both superblock counters moved by exactly what was
    released — keeps `counters = bitmaps` from EVERY state that satisfies it, for every inode that is marked and
    every list of marked, pairwise distinct blocks (`blocksMarked` threads the state, so a block listed twice is
    not marked the second time), for any geometry. -/
theorem remove_restores_inv (geo : Geom) (s : Acc) (ino : Nat) (blocks : List Nat) (blocks512 : Nat) (isDir : Bool)
    (h : AccInv s) (hb : blocksMarked geo s blocks = true) (hi : inodeMarked geo s ino = true) :
    AccInv (removeInode true geo s ino blocks blocks512 isDir) :=
  removeInode_fixed_inv geo s ino blocks blocks512 isDir h hb hi

/-- and it releases exactly what it says: the superblock counters move by the number of blocks and by one inode -/
theorem remove_counts (geo : Geom) (s : Acc) (ino : Nat) (blocks : List Nat) (blocks512 : Nat) (isDir : Bool) :
    (removeInode true geo s ino blocks blocks512 isDir).sbFreeBlocks = s.sbFreeBlocks + blocks.length ∧
    (removeInode true geo s ino blocks blocks512 isDir).sbFreeInodes = s.sbFreeInodes + 1 := by
  have hsb : ∀ (bs : List Nat) (t : Acc), (bs.foldl (freeBlock true geo) t).sbFreeBlocks = t.sbFreeBlocks ∧
      (bs.foldl (freeBlock true geo) t).sbFreeInodes = t.sbFreeInodes := by
    intro bs
    induction bs with
    | nil => intro t; exact ⟨rfl, rfl⟩
    | cons b bs ih => intro t; simp only [List.foldl_cons]; rw [(ih _).1, (ih _).2]; exact ⟨rfl, rfl⟩
  simp only [removeInode, if_true, (hsb blocks s).1, (hsb blocks s).2]
  exact ⟨trivial, trivial⟩

/-- dealloc_restores_inv: deallocateExtents with the repaired arithmetic (group and bit from `b - firstDataBlock`)
    keeps `counters = bitmaps` for every geometry, state and list of marked, pairwise distinct blocks; the
    arithmetic as found (`(b-1)/bpg`) is the same function when firstDataBlock = 1 (1 KiB blocks) … -/
theorem dealloc_restores_inv (geo : Geom) (s : Acc) (blocks : List Nat) (h : AccInv s)
    (hm : blocksMarkedD geo s blocks = true) :
    AccInv (deallocBlocks true geo s blocks) ∧
    (geo.fdb = 1 → deallocBlocks false geo s blocks = deallocBlocks true geo s blocks) := by
  refine ⟨deallocBlocks_fixed_inv geo blocks s h hm, fun h1 => ?_⟩
  have : deallocBlock false geo = deallocBlock true geo := by
    funext t b; exact deallocBlock_asfound_eq geo t b h1
  simp only [deallocBlocks, this]

/-- … and wrong when firstDataBlock = 0 (2 and 4 KiB blocks): two groups of 8 blocks, block 8 (the first block
    of group 1) is marked; as found, the release credits group 0 (whose bitmap has no such bit) and leaves the
    block marked — counters ≠ bitmaps (finding ext4-dealloc-block-group); repaired, the invariant holds. -/
def dGeo : Geom := ⟨0, 8, 8⟩
def dState : Acc :=
  ⟨[{ bbm := [true, true, true, false, false, false, false, false], ibm := List.replicate 8 false,
      freeBlocks := 5, freeInodes := 8, usedDirs := 0 },
    { bbm := [true, false, false, false, false, false, false, false], ibm := List.replicate 8 false,
      freeBlocks := 7, freeInodes := 8, usedDirs := 0 }], 12, 16⟩
theorem cex_ext4_dealloc_block_group :
    AccInv dState ∧ blocksMarkedD dGeo dState [8] = true ∧
    ¬ AccInv (deallocBlocks false dGeo dState [8]) ∧ AccInv (deallocBlocks true dGeo dState [8]) := by
  refine ⟨by decide, by decide, by decide, by decide⟩

/-- the witness state: one group of 8 blocks (1 KiB geometry: firstDataBlock = 1) and 8 inodes; inode 3 owns
    blocks 4 and 5 -/
def wGeo : Geom := ⟨1, 8, 8⟩
def wState : Acc :=
  ⟨[{ bbm := [true, true, true, true, true, false, false, false],
      ibm := [true, true, true, false, false, false, false, false],
      freeBlocks := 3, freeInodes := 5, usedDirs := 1 }], 3, 5⟩

/-- Remove as found: wrong inode bit, wrong block bit, counters incremented twice — counters ≠ bitmaps -/
theorem cex_ext4_remove_accounting :
    AccInv wState ∧ blocksMarked wGeo wState [4, 5] = true ∧
    ¬ AccInv (removeInode false wGeo wState 3 [4, 5] 4 false) ∧
    AccInv (removeInode true wGeo wState 3 [4, 5] 4 false) := by
  refine ⟨by decide, by decide, by decide, by decide⟩

/-! ### link counts and used-directories counters -/

/-- links_inv: the bookkeeping of Mkdir / create / Symlink (mkDirEntry + initFile: new directory 2 links, anything
    else 1, parent +1 for a directory, the new inode's group's used-directories counter +1) and of Remove (parent
    −1 and counter −1 for a directory) keeps what e2fsck's passes 2–4 compare — every directory has 2 + (number of
    sub-directories) links, everything else 1, every group's counter is the number of its directory inodes, every
    entry's directory exists — for every state, parent, inode number and kind, and every call that is refused. -/
theorem links_inv (s : Links.LState) (op : Links.LOp) (h : Links.LinkInv s) : Links.LinkInv (Links.lstep s op) := by
  cases op with
  | mk p k dir =>
    simp only [Links.lstep]
    split
    · rename_i hg; exact Links.mkEntry_inv s p k dir h hg
    · exact h
  | rm k =>
    simp only [Links.lstep]
    split
    · rename_i hg; exact Links.rmEntry_inv s k h hg
    · exact h

theorem links_inv_history (ops : List Links.LOp) (s : Links.LState) (h : Links.LinkInv s) :
    Links.LinkInv (ops.foldl Links.lstep s) := by
  induction ops generalizing s with
  | nil => exact h
  | cons op ops ih => exact ih _ (links_inv s op h)

/-- non-vacuity: the tree ext4.Create leaves (root = inode 2 with lost+found = inode 11 in it) satisfies the
    invariant, and Mkdir / Remove of a directory move the counters as the code does -/
def fresh : Links.LState :=
  ⟨[2, 11], fun i => i == 2 || i == 11, fun _ => 2, fun i => if i == 2 then 3 else 2, fun g => if g == 0 then 2 else 0, 1024⟩

theorem fresh_inv : Links.LinkInv fresh := by
  refine ⟨by decide, ?_, ?_, ?_, ?_⟩
  · intro n hn; simp [fresh] at hn ⊢
  · intro d hd _
    simp only [fresh, List.mem_cons, List.not_mem_nil, or_false] at hd
    rcases hd with hd | hd <;> subst hd <;> decide
  · intro n hn hf
    simp only [fresh, List.mem_cons, List.not_mem_nil, or_false] at hn
    rcases hn with hn | hn <;> subst hn <;> simp [fresh] at hf
  · intro g
    by_cases hg : g = 0
    · subst hg; decide
    · have h2 : ((2 - 1) / 1024 == g) = false := by simp; omega
      have h11 : ((11 - 1) / 1024 == g) = false := by simp; omega
      simp [fresh, Links.dirsIn, Links.groupOf, hg, h2, h11]

example : (Links.lstep fresh (.mk 2 12 true)).links 2 = 4 ∧ (Links.lstep fresh (.mk 2 12 true)).links 12 = 2 ∧
    (Links.lstep fresh (.mk 2 12 true)).usedDirs 0 = 3 ∧
    (Links.lstep (Links.lstep fresh (.mk 2 12 true)) (.rm 12)).links 2 = 3 ∧
    (Links.lstep (Links.lstep fresh (.mk 2 12 true)) (.rm 12)).usedDirs 0 = 2 := by decide

/-! ### mkfs layout -/

/-- mkfs_counts_consistent -/
theorem mkfs_counts_consistent (p : Params) (l : Layout) (h : mkLayout p = .ok l) :
    l.ipg % 8 = 0 ∧ l.inodeCount = l.ipg * l.groups ∧ 0 < l.groups ∧ 0 < l.bpg ∧
    (l.groups - 1) * l.bpg < l.numBlocks ∧ l.numBlocks ≤ l.groups * l.bpg ∧ 0 < l.flexSize := by
  unfold mkLayout at h
  split at h
  · cases h
  rename_i h1
  split at h
  · cases h
  rename_i h2
  split at h
  · cases h
  rename_i h3
  split at h
  · cases h
  rename_i h4
  split at h
  · cases h
  rename_i hg
  split at h
  · cases h
  injection h with h
  subst h
  have hbs : 1024 ≤ chooseBs p := by
    unfold chooseBs
    split
    · split <;> omega
    · have : ¬ (p.spb > 128 ∨ p.spb < 2) := fun hh => h1 ⟨by assumption, hh⟩
      omega
  have hbpg : 0 < chooseBpg p := by
    unfold chooseBpg maxBPG
    split
    · omega
    · omega
  have hc := ceilDiv_spec (numBlocksOf p) (chooseBpg p) hbpg (Nat.pos_of_ne_zero hg)
  refine ⟨?_, rfl, Nat.pos_of_ne_zero hg, hbpg, hc.1, hc.2, ?_⟩
  · simp only [layoutOf, ipgOf]; omega
  · simp only [layoutOf, flexSizeOf]
    split
    · exact Nat.two_pow_pos _
    · omega

/-- mkfs_regions_disjoint (flex_bg): the metadata slots (block bitmap, inode bitmap, inode table) of two
    different groups never overlap -/
theorem mkfs_regions_disjoint (l : Layout) (hf : 0 < l.flexSize) (hfit : Fits l true)
    (g1 g2 : Nat) (h1 : g1 < l.groups) (h2 : g2 < l.groups) (hne : g1 ≠ g2) :
    metaBase l true g1 + perGroupMeta l ≤ metaBase l true g2 ∨
    metaBase l true g2 + perGroupMeta l ≤ metaBase l true g1 := by
  by_cases ho : flexOwner l g1 = flexOwner l g2
  · rcases Nat.lt_or_gt_of_ne hne with h | h
    · left; exact flex_slots_ordered l g1 g2 ho h
    · right; exact flex_slots_ordered l g2 g1 ho.symm h
  · have i1 := flex_slot_inside l hf hfit g1 h1
    have i2 := flex_slot_inside l hf hfit g2 h2
    have b1 := blocksInGroup_le l (flexOwner l g1)
    have b2 := blocksInGroup_le l (flexOwner l g2)
    rcases Nat.lt_or_gt_of_ne ho with h | h
    · left; have := groupStart_mono l _ _ h; omega
    · right; have := groupStart_mono l _ _ h; omega

/-- mkfs_layout_inside (flex_bg): every group's metadata lies behind the superblock / GDT copy of its flex
    owner and inside that owner's block group -/
theorem mkfs_layout_inside (l : Layout) (hf : 0 < l.flexSize) (hfit : Fits l true) (g : Nat) (hg : g < l.groups) :
    groupStart l (flexOwner l g) + metaBlocks l (flexOwner l g) ≤ metaBase l true g ∧
    metaBase l true g + perGroupMeta l ≤ groupStart l (flexOwner l g) + blocksInGroup l (flexOwner l g) :=
  flex_slot_inside l hf hfit g hg

/-- without flex_bg the same two facts hold group by group -/
theorem mkfs_layout_inside_noflex (l : Layout) (hfit : Fits l false) (g : Nat) (hg : g < l.groups) :
    groupStart l g + metaBlocks l g ≤ metaBase l false g ∧
    metaBase l false g + perGroupMeta l ≤ groupStart l g + blocksInGroup l g := by
  have := hfit g hg
  simp only [Bool.false_eq_true, if_false] at this
  unfold metaBase
  simp only [Bool.false_eq_true, if_false]
  omega

/-! non-vacuity -/
example : AccInv wState ∧ blocksMarked wGeo wState [4, 5] = true ∧ inodeMarked wGeo wState 3 = true := by decide
example : (step wState (.remove wGeo 3 [4, 5] false)).state =
    ⟨[{ bbm := [true, true, true, false, false, false, false, false],
        ibm := [true, true, false, false, false, false, false, false],
        freeBlocks := 5, freeInodes := 6, usedDirs := 1 }], 5, 6⟩ := by decide
/-- a block listed twice is refused by the guard (the code would count it twice) -/
example : step wState (.remove wGeo 3 [4, 4] false) = .refused wState := by decide

/-! the default 16 MiB volume -/
def p16 : Params := ⟨16 * 1024 * 1024, 0, 0, 0, 0, 0, true, true, true⟩
example : groupsOf p16 = 2 ∧ ipgOf p16 = 1024 ∧ chooseBs p16 = 1024 ∧ flexSizeOf p16 = 8 := by decide
example : Fits ⟨1024, 16384, 8192, 2, 1024, 2048, 1, 256, 64, 1, 256, 8, true⟩ true := by decide

/-! ### mkfs: the group block bitmaps (Model/Ext4/MkfsBitmap.lean) -/

theorem mkLayout_ok (p : Params) (l : Layout) (h : mkLayout p = .ok l) : l = layoutOf p := by
  unfold mkLayout at h
  repeat (split at h; · cases h)
  injection h with h
  exact h.symm

/-- mkfs_bitmap_marked: when the metadata fits its groups (Fits), the bits buildBlockBitmapForGroup sets among the
    real blocks of group g are exactly the first `overhead` ones: superblock + GDT + reserved GDT blocks if the group
    holds a backup, then the (block bitmap, inode bitmap, inode table) slots of the group itself (no flex_bg) or of
    every group of its flex group (flex_bg, first group of the flex group only) -/
theorem mkfs_bitmap_marked (l : Layout) (flex : Bool) (hf : 0 < l.flexSize) (hfit : Fits l flex) (g : Nat)
    (hg : g < l.groups) (j : Nat) (hj : j < blocksInGroup l g) :
    markedBit l flex g j = true ↔ j < overhead l flex g :=
  markedBit_iff l flex hf hfit g hg j hj

/-- mkfs_bitmap_backup_group (flex_bg): in a group with a superblock backup that is not the first of its flex group,
    exactly 1 + ceil(groups * descriptor size / block size) + reserved GDT blocks are marked and nothing else, for
    every layout Create computes -/
theorem mkfs_bitmap_backup_group (p : Params) (l : Layout) (hl : mkLayout p = .ok l) (hfit : Fits l true) (g : Nat)
    (hg : g < l.groups) (hs : hasSuper g = true) (hno : g ≠ flexOwner l g) (j : Nat) (hj : j < blocksInGroup l g) :
    markedBit l true g j = true ↔ j < 1 + ceilDiv (l.groups * l.descSize) l.bs + l.rsvGdt := by
  have hf := (mkfs_counts_consistent p l hl).2.2.2.2.2.2
  rw [markedBit_iff l true hf hfit g hg j hj]
  have hgdt : l.gdtBlocks = ceilDiv (l.groups * l.descSize) l.bs := by
    rw [mkLayout_ok p l hl]; rfl
  unfold overhead metaBlocks
  simp only [hs, if_true, if_neg hno, hgdt, Nat.add_zero]

/-- the same without flex_bg: the backup's blocks, then the group's own two bitmaps and inode table of
    ceil(inodes per group * 256 / block size) blocks -/
theorem mkfs_bitmap_backup_group_noflex (p : Params) (l : Layout) (hl : mkLayout p = .ok l) (hfit : Fits l false)
    (g : Nat) (hg : g < l.groups) (hs : hasSuper g = true) (j : Nat) (hj : j < blocksInGroup l g) :
    markedBit l false g j = true ↔
      j < 1 + ceilDiv (l.groups * l.descSize) l.bs + l.rsvGdt + (2 + ceilDiv (l.ipg * 256) l.bs) := by
  have hf := (mkfs_counts_consistent p l hl).2.2.2.2.2.2
  rw [markedBit_iff l false hf hfit g hg j hj]
  have hgdt : l.gdtBlocks = ceilDiv (l.groups * l.descSize) l.bs := by
    rw [mkLayout_ok p l hl]; rfl
  have hitb : l.itb = ceilDiv (l.ipg * 256) l.bs := by
    rw [mkLayout_ok p l hl]; rfl
  unfold overhead metaBlocks perGroupMeta
  simp only [hs, if_true, Bool.false_eq_true, if_false, hgdt, hitb]

/-- mkfs_free_is_unmarked: the free count buildGroupDescriptorsFromSuperblock records for a group is the number of
    its real blocks minus the number of marked bits of its bitmap -/
theorem mkfs_free_is_unmarked (l : Layout) (flex : Bool) (hf : 0 < l.flexSize) (hfit : Fits l flex) (g : Nat)
    (hg : g < l.groups) :
    markedCount l flex g ≤ blocksInGroup l g ∧ initialFree l flex g = blocksInGroup l g - markedCount l flex g := by
  rw [markedCount_eq l flex hf hfit g hg, initialFree_eq]
  exact ⟨Nat.min_le_right _ _, rfl⟩

/-! non-vacuity: 32 MiB, 1 KiB blocks, 2048 blocks per group: 16 groups = one full GDT block of 64-byte descriptors -/
def p32 : Params := ⟨32 * 1024 * 1024, 0, 2048, 0, 0, 0, false, true, true⟩
def l32 : Layout := ⟨1024, 32768, 2048, 16, 256, 4096, 1, 0, 64, 1, 64, 8, false⟩
example : mkLayout p32 = .ok l32 := by rfl
example : Fits l32 true := by decide
/-- group 1 holds a backup and is not the first of its flex group: superblock and one GDT block, the third block free -/
example : hasSuper 1 = true ∧ 1 ≠ flexOwner l32 1 ∧ markedBit l32 true 1 1 = true ∧ markedBit l32 true 1 2 = false := by decide
/-- groups / descriptors per block + 1 is not the number of GDT blocks when the division is exact -/
example : 16 / (1024 / 64) + 1 ≠ ceilDiv (16 * 64) 1024 := by decide
example : initialFree l32 true 1 = 2046 ∧ initialFree l32 true 0 = 2048 - (2 + 8 * 66) := by decide

end Diskfs.Ext4.C05

/-! ### writeDirectory: growth and relocation of a directory (Model/Ext4/DirGrow.lean)

  `DirGrow.writeDir` mirrors the decision writeDirectory takes about a directory's blocks (padding, in place,
  growth by allocateExtents + mergeExtents, relocation when the merged list has more than 4 extents) on the
  accounting machine; `pol` is allocateExtents' choice of blocks - the theorems hold for every `pol`. -/
namespace Diskfs.Ext4.C05
open Diskfs.Ext4 Diskfs.Ext4.Alloc Diskfs.Ext4.DirGrow

/-- dir_write_keeps_inv: `counters = bitmaps` survives writeDirectory in every branch - padded, in place, grown,
    relocated, and every refused call, whatever it leaves behind -/
theorem dir_write_keeps_inv (geo : Geom) (pol : Acc → Nat → Option (List Run)) (bs : Nat) (s : Acc)
    (old : List Extent) (nbytes : Nat) (h : AccInv s) : AccInv (writeDir geo pol bs s old nbytes).state :=
  writeDir_inv geo pol bs s old nbytes h

/-- dir_merge_keeps_blocks: mergeExtents (sort by file block, merge extents adjacent in file AND on disk, counts
    added in uint16) maps every file block to the same disk block as its input, in file order, and keeps the
    number of blocks - for every list of fewer than 65536 blocks -/
theorem dir_merge_keeps_blocks (es : List Extent) (h : blockCount es < 65536) :
    blocksOf (mergeExtents es) = blocksOf (sortE es) ∧ (blocksOf (mergeExtents es)).Perm (blocksOf es) ∧
    blockCount (mergeExtents es) = blockCount es :=
  mergeExtents_blocks es h
example : blockCount [(⟨2, 12, 1⟩ : Extent), ⟨0, 10, 2⟩] < 65536 ∧ mergeExtents [⟨2, 12, 1⟩, ⟨0, 10, 2⟩] = [⟨0, 10, 3⟩] := by decide

/-- dir_grown_owns_old_and_extra: when writeDirectory grows a directory, the extra blocks come from one accepted
    allocateExtents call for exactly `required - have` blocks, the free counter goes down by exactly that, the
    inode's list (at most 4 extents) holds `required` blocks: the old (file block, disk block) pairs and the extra
    ones, in file order (old ++ extra when the old list is contiguous from file block 0), nothing is orphaned -/
theorem dir_grown_owns_old_and_extra (geo : Geom) (pol : Acc → Nat → Option (List Run)) (bs : Nat) (s : Acc)
    (old : List Extent) (nbytes : Nat) (hreq : requiredBlocks bs nbytes < 65536)
    (h : (writeDir geo pol bs s old nbytes).kind = .grown) :
    ∃ s1 extra, allocCall geo pol s (blockCount old) (requiredBlocks bs nbytes - blockCount old) = some (s1, extra) ∧
      blockCount old < requiredBlocks bs nbytes ∧
      (writeDir geo pol bs s old nbytes).state = s1 ∧
      (writeDir geo pol bs s old nbytes).extents = mergeExtents (old ++ extra) ∧
      (writeDir geo pol bs s old nbytes).extents.length ≤ 4 ∧
      (writeDir geo pol bs s old nbytes).orphans = [] ∧
      blockCount (writeDir geo pol bs s old nbytes).extents = requiredBlocks bs nbytes ∧
      s1.sbFreeBlocks + (requiredBlocks bs nbytes - blockCount old) = s.sbFreeBlocks ∧
      blocksOf (writeDir geo pol bs s old nbytes).extents = blocksOf (sortE (old ++ extra)) ∧
      (contigFrom 0 old → blocksOf (writeDir geo pol bs s old nbytes).extents = blocksOf old ++ blocksOf extra) :=
  writeDir_grown geo pol bs s old nbytes hreq h
example : requiredBlocks 1024 4096 < 65536 ∧ (writeDir xGeo fastPol 1024 (xState false) (xOld.take 3) 4096).kind = .grown ∧
    contigFrom 0 (xOld.take 3) := by decide

/-- dir_relocated_accounting: when writeDirectory relocates a directory (the merged list would have more than 4
    extents), two allocateExtents calls were accepted - the extra blocks, then `required` fresh ones numbered from
    file block 0 in at most 4 extents -, the blocks released are the blocks of mergeExtents(old ++ extra): the old
    blocks and the extra ones just taken, each once, all marked; the directory owns exactly the fresh blocks and
    the superblock's free counter has changed by exactly (old count - new count); nothing is orphaned -/
theorem dir_relocated_accounting (geo : Geom) (pol : Acc → Nat → Option (List Run)) (bs : Nat) (s : Acc)
    (old : List Extent) (nbytes : Nat) (hreq : requiredBlocks bs nbytes < 65536)
    (h : (writeDir geo pol bs s old nbytes).kind = .relocated) :
    ∃ s1 extra s2 fresh,
      allocCall geo pol s (blockCount old) (requiredBlocks bs nbytes - blockCount old) = some (s1, extra) ∧
      allocCall geo pol s1 0 (requiredBlocks bs nbytes) = some (s2, fresh) ∧
      4 < (mergeExtents (old ++ extra)).length ∧
      (writeDir geo pol bs s old nbytes).extents = fresh ∧ fresh.length ≤ 4 ∧ contigFrom 0 fresh ∧
      blockCount fresh = requiredBlocks bs nbytes ∧
      (writeDir geo pol bs s old nbytes).orphans = [] ∧
      blocksMarkedD geo s2 (diskBlocks (mergeExtents (old ++ extra))) = true ∧
      (writeDir geo pol bs s old nbytes).state = deallocBlocks true geo s2 (diskBlocks (mergeExtents (old ++ extra))) ∧
      (diskBlocks (mergeExtents (old ++ extra))).Perm (diskBlocks old ++ diskBlocks extra) ∧
      (writeDir geo pol bs s old nbytes).state.sbFreeBlocks + requiredBlocks bs nbytes = s.sbFreeBlocks + blockCount old :=
  writeDir_relocated geo pol bs s old nbytes hreq h
example : requiredBlocks 1024 5120 < 65536 ∧ (writeDir xGeo fastPol 1024 (xState false) xOld 5120).kind = .relocated := by decide

/-- dir_refused_before_alloc_unchanged: a call that pads, writes in place or is refused for the extra blocks leaves
    the state and the directory's extent list untouched -/
theorem dir_refused_before_alloc_unchanged (geo : Geom) (pol : Acc → Nat → Option (List Run)) (bs : Nat) (s : Acc)
    (old : List Extent) (nbytes : Nat)
    (h : (writeDir geo pol bs s old nbytes).kind = .padded ∨ (writeDir geo pol bs s old nbytes).kind = .inplace ∨
         (writeDir geo pol bs s old nbytes).kind = .refusedExtra) :
    (writeDir geo pol bs s old nbytes).state = s ∧ (writeDir geo pol bs s old nbytes).extents = old ∧
    (writeDir geo pol bs s old nbytes).orphans = [] :=
  writeDir_unchanged geo pol bs s old nbytes h
example : (writeDir xGeo fastPol 1024 (xState true) xOld 6000).kind = .refusedExtra := by decide

/-- dir_refused_relocation_orphans: the two refusals INSIDE the relocation return the error after blocks were
    taken: the directory keeps its old extent list, the invariant holds (dir_write_keeps_inv), but the extra blocks
    (fresh allocation failed) resp. the extra and the fresh blocks (fresh allocation in more than 4 extents) stay
    marked and out of the free counter with no owner - at least one block in the first case -/
theorem dir_refused_relocation_orphans (geo : Geom) (pol : Acc → Nat → Option (List Run)) (bs : Nat) (s : Acc)
    (old : List Extent) (nbytes : Nat) :
    ((writeDir geo pol bs s old nbytes).kind = .refusedFresh →
      (writeDir geo pol bs s old nbytes).extents = old ∧ 0 < (writeDir geo pol bs s old nbytes).orphans.length ∧
      (writeDir geo pol bs s old nbytes).state.sbFreeBlocks + (writeDir geo pol bs s old nbytes).orphans.length = s.sbFreeBlocks) ∧
    ((writeDir geo pol bs s old nbytes).kind = .refusedMany →
      (writeDir geo pol bs s old nbytes).extents = old ∧
      (writeDir geo pol bs s old nbytes).orphans.length = 2 * requiredBlocks bs nbytes - blockCount old ∧
      (writeDir geo pol bs s old nbytes).state.sbFreeBlocks + (writeDir geo pol bs s old nbytes).orphans.length = s.sbFreeBlocks) := by
  refine ⟨fun h => ?_, fun h => ?_⟩
  · obtain ⟨_, _, _, _, _, h4, _, h6, h7⟩ := writeDir_refusedFresh geo pol bs s old nbytes h
    exact ⟨h4, h6, h7⟩
  · obtain ⟨_, _, _, _, _, _, _, _, h5, _, h7, h8⟩ := writeDir_refusedMany geo pol bs s old nbytes h
    exact ⟨h5, h7, h8⟩
example : (writeDir xGeo manyPol 1024 (xState false) xOld 5120).kind = .refusedMany := by decide

/-- cex_ext4_dir_relocate_leak (finding ext4-dir-relocate-refused-leaks-blocks): a directory of four single-block
    extents needs a fifth block, one block (10) is free and not adjacent: writeDirectory takes it, finds no room for
    the 5 fresh blocks and returns the error - block 10 was free before, is marked afterwards and out of the
    counters, and the directory still lists its four old extents -/
theorem cex_ext4_dir_relocate_leak :
    AccInv (xState true) ∧ blocksMarkedD xGeo (xState true) (diskBlocks xOld) = true ∧
    (writeDir xGeo fastPol 1024 (xState true) xOld 5120).kind = .refusedFresh ∧
    (writeDir xGeo fastPol 1024 (xState true) xOld 5120).extents = xOld ∧
    (writeDir xGeo fastPol 1024 (xState true) xOld 5120).orphans = [10] ∧
    blockMarked xGeo (writeDir xGeo fastPol 1024 (xState true) xOld 5120).state 10 = true ∧
    blockMarked xGeo (xState true) 10 = false ∧
    (writeDir xGeo fastPol 1024 (xState true) xOld 5120).state.sbFreeBlocks = 0 ∧
    AccInv (writeDir xGeo fastPol 1024 (xState true) xOld 5120).state :=
  DirGrow.cex_ext4_dir_relocate_leak

end Diskfs.Ext4.C05

/-! ### ownership: which file owns which marked block (Model/Ext4/Own.lean; deep5-ext4w)

  The guards of `remove_restores_inv` / `dealloc_restores_inv` ("the blocks are marked, pairwise distinct") are what
  the code does not check - it trusts the inode. The ownership layer turns them into consequences of an invariant
  that every operation keeps: each file owns a list of blocks (its data blocks AND the node blocks of its extent
  tree: the `metaBlocks` extendExtentTree takes from the allocator, `exttree_history_inv` in Props/C04), grows by
  the blocks of one allocateExtents answer at a time, and Remove releases exactly what it owns. -/
namespace Diskfs.Ext4.C05
open Diskfs.Ext4 Diskfs.Ext4.Alloc

/-- ownership_inv: create, a file growing by the blocks allocateExtents answered with (data blocks of a write, node
    blocks of the file's extent tree), Remove - carried out or refused, for every policy answer the machine accepts -
    keep `counters = bitmaps` AND ownership: no block belongs to two files (or twice to one), every owned block is
    marked in the block bitmaps, and every file's i_blocks counts exactly the blocks it owns (data + tree nodes) -/
theorem ownership_inv (geo : Geom) (o : Own) (op : OOp) (h : OwnInv geo o) : OwnInv geo (ostep geo o op) :=
  own_inv geo o op h

/-- ... along every history of create / grow / remove -/
theorem ownership_inv_history (geo : Geom) (ops : List OOp) (o : Own) (h : OwnInv geo o) :
    OwnInv geo (ops.foldl (ostep geo) o) :=
  own_inv_history geo ops o h

/-- remove_guard_from_ownership: under the ownership invariant the block guard of the machine's Remove always
    passes - a Remove is refused only when the inode itself is not marked - and it gives back exactly the file's
    i_blocks: the superblock's free-block counter goes up by i_blocks (data blocks and extent-tree blocks alike) -/
theorem remove_guard_from_ownership (geo : Geom) (o : Own) (i : Nat) (f : FileRec) (isDir : Bool) (h : OwnInv geo o)
    (hf : o.files[i]? = some f) (hi : inodeMarked geo o.acc f.ino = true) :
    removeOp geo o.acc f.ino f.blocks isDir = .ok (removeInode true geo o.acc f.ino f.blocks 0 isDir) ∧
    (removeInode true geo o.acc f.ino f.blocks 0 isDir).sbFreeBlocks = o.acc.sbFreeBlocks + f.iblocks :=
  remove_accepted geo o i f isDir h hf hi

/-- remove_frees_only_own_blocks: Remove of a file that owns its blocks (pairwise distinct, each marked - now a
    per-block condition, not the threaded guard) keeps `counters = bitmaps`, frees exactly these blocks and leaves
    the state of EVERY other block as it was, so every other file still owns what it owned -/
theorem remove_frees_only_own_blocks (geo : Geom) (s : Acc) (ino : Nat) (blocks : List Nat) (isDir : Bool)
    (h : AccInv s) (hnd : blocks.Nodup) (hm : ∀ b ∈ blocks, blockMarked geo s b = true)
    (hi : inodeMarked geo s ino = true) :
    removeOp geo s ino blocks isDir = .ok (removeInode true geo s ino blocks 0 isDir) ∧
    AccInv (removeInode true geo s ino blocks 0 isDir) ∧
    (removeInode true geo s ino blocks 0 isDir).sbFreeBlocks = s.sbFreeBlocks + blocks.length ∧
    (∀ b ∈ blocks, blockMarked geo (removeInode true geo s ino blocks 0 isDir) b = false) ∧
    (∀ b', b' ∉ blocks → blockMarked geo (removeInode true geo s ino blocks 0 isDir) b' = blockMarked geo s b') :=
  removeOp_owned geo s ino blocks isDir h hnd hm hi

/-- non-vacuity: the witness volume of `cex_ext4_remove_accounting` (one group of 8 blocks, firstDataBlock 1) with
    inode 3 owning blocks 4 and 5 has the ownership invariant; the file grows by one data block and one tree block
    (two allocateExtents answers: bits 5 and 6 = blocks 6 and 7) and is removed again: all four blocks come back -/
def oState : Own := ⟨wState, [⟨3, [4, 5], 2⟩]⟩
example : OwnInv wGeo oState := by decide
example : ostep wGeo (ostep wGeo oState (.grow 0 1 [(0, 5, 1)])) (.grow 0 1 [(0, 6, 1)]) =
    ⟨⟨[{ bbm := [true, true, true, true, true, true, true, false],
         ibm := [true, true, true, false, false, false, false, false],
         freeBlocks := 1, freeInodes := 5, usedDirs := 1 }], 1, 5⟩, [⟨3, [4, 5, 6, 7], 4⟩]⟩ := by decide
example : (ostep wGeo (ostep wGeo (ostep wGeo oState (.grow 0 1 [(0, 5, 1)])) (.grow 0 1 [(0, 6, 1)])) (.remove 0 false)) =
    ⟨⟨[{ bbm := [true, true, true, false, false, false, false, false],
         ibm := [true, true, false, false, false, false, false, false],
         freeBlocks := 5, freeInodes := 6, usedDirs := 1 }], 5, 6⟩, []⟩ := by decide

end Diskfs.Ext4.C05

